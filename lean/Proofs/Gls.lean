import Model.Gls
/-! Invariant of the registry protocol of `Model/Gls.lean` and its preservation by every atomic action. -/
namespace Gls

theorem upd_same {α : Type} (f : Nat → α) (k : Nat) (v : α) : upd f k v k = v := by simp [upd]
theorem upd_other {α : Type} (f : Nat → α) (k x : Nat) (v : α) (h : x ≠ k) : upd f k v x = f x := by
  simp [upd, h]

/-- The inductive invariant. -/
structure Inv (s : State) : Prop where
  gid_fresh : ∀ g, s.ngid ≤ g → s.idOf g = none ∧ s.pend g = .idle ∧ s.child g = false
  run_fresh : ∀ r, s.nrun ≤ r → s.owner r = none
  distinct : ∀ g1 g2 i, s.idOf g1 = some i → s.idOf g2 = some i → g1 = g2
  reg_owner : ∀ i r, s.reg i = some r → s.owner r = some i
  pend_owner : ∀ g r i, s.pend g = .got r → s.idOf g = some i → s.owner r = some i
  miss_stable : ∀ g i, s.pend g = .missed → s.idOf g = some i → s.reg i = none
  use_owner : ∀ u ∈ s.uses, u.viaTop = false → ∀ i, s.idOf u.g = some i → s.owner u.r = some i
  use_created : ∀ u ∈ s.uses, u.r < s.nrun ∧ u.g < s.ngid
  top_created : ∀ r, s.top = some r → r < s.nrun

theorem inv_init : Inv State.init := by
  constructor <;> simp [State.init]

theorem idFree_spec {s : State} {i : Id} (hi : Inv s) (h : idFree s i = true) : ∀ g, s.idOf g ≠ some i := by
  intro g
  by_cases hg : g < s.ngid
  · simp only [idFree, List.all_eq_true, List.mem_range] at h
    have := h g hg
    simpa using this
  · have := (hi.gid_fresh g (Nat.le_of_not_lt hg)).1
    simp [this]

theorem owner_lt {s : State} (hi : Inv s) {r : RunId} {i : Id} (h : s.owner r = some i) : r < s.nrun := by
  by_cases hr : r < s.nrun
  · exact hr
  · have := hi.run_fresh r (Nat.le_of_not_lt hr); simp [this] at h

theorem live_lt {s : State} (hi : Inv s) {g : Gid} {i : Id} (h : s.idOf g = some i) : g < s.ngid := by
  by_cases hr : g < s.ngid
  · exact hr
  · have := (hi.gid_fresh g (Nat.le_of_not_lt hr)).1; simp [this] at h

set_option linter.unusedSimpArgs false

theorem inv_spawn {s s' : State} {i : Id} (hi : Inv s) (h : step s (.spawn i) = some s') : Inv s' := by
  simp only [step] at h
  split at h
  · rename_i hf
    have hfree := idFree_spec hi hf
    cases h
    constructor
    · intro g hg
      have := hi.gid_fresh g (by simp at hg; omega)
      simp only [upd]
      simp at hg
      have : g ≠ s.ngid := by omega
      simp_all
    · exact hi.run_fresh
    · intro g1 g2 j h1 h2
      simp only [upd] at h1 h2
      have := hi.distinct g1 g2 j
      grind
    · exact hi.reg_owner
    · intro g r j h1 h2
      simp only [upd] at h2
      have := hi.pend_owner g r j h1
      have := hi.gid_fresh s.ngid (Nat.le_refl _)
      grind
    · intro g j h1 h2
      simp only [upd] at h2
      have := hi.miss_stable g j h1
      have := hi.gid_fresh s.ngid (Nat.le_refl _)
      grind
    · intro u hu hv j h2
      simp only [upd] at h2
      have := hi.use_owner u hu hv j
      have := hi.use_created u hu
      grind
    · intro u hu
      have := hi.use_created u hu
      exact ⟨this.1, Nat.lt_succ_of_lt this.2⟩
    · exact hi.top_created
  · cases h

macro "inv_facts" hi:ident : tactic => `(tactic| (
    have h1 := ($hi).gid_fresh; have h2 := ($hi).run_fresh; have h3 := ($hi).distinct; have h4 := ($hi).reg_owner
    have h5 := ($hi).pend_owner; have h6 := ($hi).miss_stable; have h7 := ($hi).use_owner; have h8 := ($hi).use_created
    have h9 := ($hi).top_created))

theorem inv_exit {s s' : State} {g : Gid} (hi : Inv s) (h : step s (.exit g) = some s') : Inv s' := by
  simp only [step] at h
  inv_facts hi
  split at h <;> cases h
  constructor <;> (simp only [upd]; grind)

theorem inv_interp {s s' : State} {g : Gid} (hi : Inv s) (h : step s (.interp g) = some s') : Inv s' := by
  simp only [step] at h
  inv_facts hi
  split at h <;> cases h
  constructor <;> (simp only [upd, newRun]; grind)

theorem inv_look {s s' : State} {g : Gid} (hi : Inv s) (h : step s (.look g) = some s') : Inv s' := by
  simp only [step] at h
  inv_facts hi
  split at h <;> cases h
  constructor <;> (simp only [upd, newRun]; grind)

theorem inv_store {s s' : State} {g : Gid} (hi : Inv s) (h : step s (.store g) = some s') : Inv s' := by
  simp only [step] at h
  inv_facts hi
  split at h <;> cases h
  · constructor <;> (simp only [upd, newRun]; grind)
  · constructor <;> (simp only [upd, newRun]; grind)

theorem inv_del {s s' : State} {g : Gid} (hi : Inv s) (h : step s (.del g) = some s') : Inv s' := by
  simp only [step] at h
  inv_facts hi
  split at h <;> cases h
  constructor <;> (simp only [upd, newRun]; grind)

theorem inv_func {s s' : State} {g : Gid} {o : RunId} (hi : Inv s) (h : step s (.func g o) = some s') : Inv s' := by
  simp only [step] at h
  inv_facts hi
  split at h
  · split at h
    · split at h <;> cases h
      constructor <;> (simp only [upd, newRun]; grind)
    · split at h <;> cases h
      constructor <;> (simp only [upd, newRun]; grind)
  · cases h

theorem inv_block {s s' : State} {g : Gid} {o : RunId} (hi : Inv s) (h : step s (.block g o) = some s') : Inv s' := by
  simp only [step] at h
  inv_facts hi
  split at h
  · split at h
    · cases h; exact hi
    · split at h <;> cases h
      constructor <;> (simp only [upd, newRun]; grind)
  · cases h

theorem inv_rebind {s s' : State} {g : Gid} (hi : Inv s) (h : step s (.rebind g) = some s') : Inv s' := by
  simp only [step] at h
  inv_facts hi
  split at h <;> cases h
  constructor <;> (simp only [upd, newRun]; grind)

/-- every enabled atomic action preserves the invariant -/
theorem inv_step {s s' : State} {a : Action} (hi : Inv s) (h : step s a = some s') : Inv s' := by
  cases a with
  | spawn i => exact inv_spawn hi h
  | exit g => exact inv_exit hi h
  | interp g => exact inv_interp hi h
  | look g => exact inv_look hi h
  | store g => exact inv_store hi h
  | del g => exact inv_del hi h
  | func g o => exact inv_func hi h
  | block g r => exact inv_block hi h
  | rebind g => exact inv_rebind hi h

/-- States reachable from the initial state by ANY interleaving of enabled atomic actions. -/
inductive Reach : State → Prop where
  | init : Reach State.init
  | step {s s' : State} (a : Action) : Reach s → step s a = some s' → Reach s'

theorem reach_inv {s : State} (h : Reach s) : Inv s := by
  induction h with
  | init => exact inv_init
  | step a _ hs ih => exact inv_step ih hs

theorem reach_runTrace {s s' : State} (tr : List Action) (h : Reach s) (ht : runTrace s tr = some s') : Reach s' := by
  induction tr generalizing s with
  | nil => simp [runTrace] at ht; subst ht; exact h
  | cons a as ih =>
    simp only [runTrace] at ht
    split at ht
    · cases ht
    · rename_i s1 hs1
      exact ih (Reach.step a h hs1) ht

end Gls
