import Model.TypeMap
/-! Lemmas for the type map: bucket invariant, effect of Set/Delete on At, the association-list
    specification and the refinement. -/
namespace TypeMap
variable {K : Type}

/-- what the map needs from its key operations, on the set `good` of admissible keys -/
structure Equiv (o : Ops K) (good : K → Prop) : Prop where
  refl : ∀ a, good a → o.ident a a = true
  symm : ∀ a b, good a → good b → o.ident a b = true → o.ident b a = true
  trans : ∀ a b c, good a → good b → good c → o.ident a b = true → o.ident b c = true → o.ident a c = true
  hash : ∀ a b, good a → good b → o.ident a b = true → o.hash a = o.hash b

theorem Equiv.symm_false {o : Ops K} {good} (E : Equiv o good) {a b} (ga : good a) (gb : good b)
    (h : o.ident a b = false) : o.ident b a = false := by
  cases e : o.ident b a with
  | false => rfl
  | true => rw [E.symm b a gb ga e] at h; cases h

/-- bucket invariant for the bucket filed under hash `h`: keys admissible, filed under their hash,
    no two entries identical -/
def BInv (o : Ops K) (good : K → Prop) (h : UInt32) : List (Slot K) → Prop
  | [] => True
  | none :: r => BInv o good h r
  | some (k, _) :: r =>
      good k ∧ o.hash k = h ∧ (∀ k' v', some (k', v') ∈ r → o.ident k k' = false) ∧ BInv o good h r

theorem BInv.good {o : Ops K} {good h} : ∀ {b : List (Slot K)}, BInv o good h b → ∀ {k v}, some (k, v) ∈ b → good k
  | [], _, _, _, hm => by simp at hm
  | none :: r, hb, k, v, hm => by
      simp at hm; exact BInv.good (b := r) hb hm
  | some (k0, v0) :: r, hb, k, v, hm => by
      simp only [List.mem_cons, Option.some.injEq, Prod.mk.injEq] at hm
      rcases hm with ⟨e, _⟩ | hm
      · subst e; exact hb.1
      · exact BInv.good (b := r) hb.2.2.2 hm

theorem BInv.hash {o : Ops K} {good h} : ∀ {b : List (Slot K)}, BInv o good h b → ∀ {k v}, some (k, v) ∈ b → o.hash k = h
  | [], _, _, _, hm => by simp at hm
  | none :: r, hb, k, v, hm => by
      simp at hm; exact BInv.hash (b := r) hb hm
  | some (k0, v0) :: r, hb, k, v, hm => by
      simp only [List.mem_cons, Option.some.injEq, Prod.mk.injEq] at hm
      rcases hm with ⟨e, _⟩ | hm
      · subst e; exact hb.2.1
      · exact BInv.hash (b := r) hb.2.2.2 hm

section bucket
variable {o : Ops K} {good : K → Prop}

theorem atBucket_none {k : K} : ∀ {b : List (Slot K)}, atBucket o k b = none →
    ∀ k' v', some (k', v') ∈ b → o.ident k k' = false
  | [], _, _, _, hm => by simp at hm
  | none :: r, h, k', v', hm => by
      simp at hm; simp only [atBucket] at h; exact atBucket_none h k' v' hm
  | some (k0, v0) :: r, h, k', v', hm => by
      simp only [atBucket] at h
      cases e : o.ident k k0 with
      | true => simp [e] at h
      | false =>
        simp [e] at h
        simp only [List.mem_cons, Option.some.injEq, Prod.mk.injEq] at hm
        rcases hm with ⟨e1, _⟩ | hm
        · subst e1; exact e
        · exact atBucket_none h k' v' hm

theorem atBucket_none_of {k : K} : ∀ {b : List (Slot K)}, (∀ k' v', some (k', v') ∈ b → o.ident k k' = false) →
    atBucket o k b = none
  | [], _ => rfl
  | none :: r, h => by
      simp only [atBucket]; exact atBucket_none_of fun k' v' hm => h k' v' (by simp [hm])
  | some (k0, v0) :: r, h => by
      simp only [atBucket, h k0 v0 (by simp)]
      exact atBucket_none_of fun k' v' hm => h k' v' (by simp [hm])

theorem atBucket_some {k : K} {v : Nat} : ∀ {b : List (Slot K)}, atBucket o k b = some v →
    ∃ k', some (k', v) ∈ b ∧ o.ident k k' = true
  | [], h => by simp [atBucket] at h
  | none :: r, h => by
      simp only [atBucket] at h
      obtain ⟨k', hm, hi⟩ := atBucket_some h
      exact ⟨k', by simp [hm], hi⟩
  | some (k0, v0) :: r, h => by
      simp only [atBucket] at h
      cases e : o.ident k k0 with
      | true => simp [e] at h; subst h; exact ⟨k0, by simp, e⟩
      | false =>
        simp [e] at h
        obtain ⟨k', hm, hi⟩ := atBucket_some h
        exact ⟨k', by simp [hm], hi⟩

/-- a key of the bucket is found under itself -/
theorem atBucket_mem (E : Equiv o good) {h : UInt32} {k : K} {v : Nat} : ∀ {b : List (Slot K)}, BInv o good h b → some (k, v) ∈ b →
    atBucket o k b = some v
  | [], _, hm => by simp at hm
  | none :: r, hb, hm => by
      simp at hm; simp only [atBucket]; exact atBucket_mem E (b := r) hb hm
  | some (k0, v0) :: r, hb, hm => by
      simp only [List.mem_cons, Option.some.injEq, Prod.mk.injEq] at hm
      simp only [atBucket]
      rcases hm with ⟨e1, e2⟩ | hm
      · subst e1; subst e2; simp [E.refl k hb.1]
      · have gk := BInv.good hb.2.2.2 hm
        have := E.symm_false hb.1 gk (hb.2.2.1 k v hm)
        simp [this]; exact atBucket_mem E (b := r) hb.2.2.2 hm

/-- identical keys are looked up alike -/
theorem atBucket_congr (E : Equiv o good) {h : UInt32} {k k' : K} (gk : good k) (gk' : good k') (hi : o.ident k k' = true) :
    ∀ {b : List (Slot K)}, BInv o good h b → atBucket o k b = atBucket o k' b
  | [], _ => rfl
  | none :: r, hb => by simp only [atBucket]; exact atBucket_congr E gk gk' hi (b := r) hb
  | some (k0, v0) :: r, hb => by
      simp only [atBucket]
      have : o.ident k k0 = o.ident k' k0 := by
        cases e1 : o.ident k k0 <;> cases e2 : o.ident k' k0 <;> try rfl
        · have := E.trans k k' k0 gk gk' hb.1 hi e2; rw [this] at e1; cases e1
        · have := E.trans k' k k0 gk' gk hb.1 (E.symm k k' gk gk' hi) e1; rw [this] at e2; cases e2
      rw [this, atBucket_congr E gk gk' hi (b := r) hb.2.2.2]

/-! ### Set, identical key present -/

theorem setScan_prev {k : K} {v : Nat} : ∀ (b : List (Slot K)), (setScan o k v b).map (·.2) = atBucket o k b
  | [] => rfl
  | none :: r => by
      simp only [setScan, atBucket, Option.map_map]; rw [← setScan_prev r]; rfl
  | some (k0, v0) :: r => by
      simp only [setScan, atBucket]
      cases e : o.ident k k0 with
      | true => simp
      | false => simp [Option.map_map]; rw [← setScan_prev r]; rfl

theorem setScan_mem {k : K} {v : Nat} : ∀ {b b' : List (Slot K)} {p : Nat}, setScan o k v b = some (b', p) →
    ∀ k' v', some (k', v') ∈ b' → ∃ v'', some (k', v'') ∈ b
  | [], _, _, h, _, _, _ => by simp [setScan] at h
  | none :: r, b', p, h, k', v', hm => by
      simp only [setScan, Option.map_eq_some_iff] at h
      obtain ⟨⟨r', p'⟩, hr, e⟩ := h
      simp only [Prod.mk.injEq] at e
      obtain ⟨e1, _⟩ := e
      subst e1
      simp at hm
      obtain ⟨v'', h2⟩ := setScan_mem hr k' v' hm
      exact ⟨v'', by simp [h2]⟩
  | some (k0, v0) :: r, b', p, h, k', v', hm => by
      simp only [setScan] at h
      cases e : o.ident k k0 with
      | true =>
        simp [e] at h
        obtain ⟨e1, _⟩ := h
        subst e1
        simp only [List.mem_cons, Option.some.injEq, Prod.mk.injEq] at hm
        rcases hm with ⟨e1, _⟩ | hm
        · subst e1; exact ⟨v0, by simp⟩
        · exact ⟨v', by simp [hm]⟩
      | false =>
        simp only [e, Bool.false_eq_true, if_false, Option.map_eq_some_iff] at h
        obtain ⟨⟨r', p'⟩, hr, e2⟩ := h
        simp only [Prod.mk.injEq] at e2
        obtain ⟨e1, _⟩ := e2
        subst e1
        simp only [List.mem_cons, Option.some.injEq, Prod.mk.injEq] at hm
        rcases hm with ⟨e1, _⟩ | hm
        · subst e1; exact ⟨v0, by simp⟩
        · obtain ⟨v'', h2⟩ := setScan_mem hr k' v' hm
          exact ⟨v'', by simp [h2]⟩

theorem BInv_setScan {h : UInt32} {k : K} {v : Nat} : ∀ {b b' : List (Slot K)} {p : Nat}, setScan o k v b = some (b', p) →
    BInv o good h b → BInv o good h b'
  | [], _, _, hs, _ => by simp [setScan] at hs
  | none :: r, b', p, hs, hb => by
      simp only [setScan, Option.map_eq_some_iff] at hs
      obtain ⟨⟨r', p'⟩, hr, e⟩ := hs
      simp only [Prod.mk.injEq] at e
      obtain ⟨e1, _⟩ := e
      subst e1
      show BInv o good h r'
      exact BInv_setScan (b := r) hr hb
  | some (k0, v0) :: r, b', p, hs, hb => by
      simp only [setScan] at hs
      cases e : o.ident k k0 with
      | true =>
        simp [e] at hs
        obtain ⟨e1, _⟩ := hs
        subst e1
        exact hb
      | false =>
        simp only [e, Bool.false_eq_true, if_false, Option.map_eq_some_iff] at hs
        obtain ⟨⟨r', p'⟩, hr, e2⟩ := hs
        simp only [Prod.mk.injEq] at e2
        obtain ⟨e1, _⟩ := e2
        subst e1
        refine ⟨hb.1, hb.2.1, ?_, BInv_setScan (b := r) hr hb.2.2.2⟩
        intro k' v' hm
        obtain ⟨v'', h2⟩ := setScan_mem hr k' v' hm
        exact hb.2.2.1 k' v'' h2

theorem cnt_setScan {k : K} {v : Nat} : ∀ {b b' : List (Slot K)} {p : Nat}, setScan o k v b = some (b', p) →
    (b'.filterMap id).length = (b.filterMap id).length
  | [], _, _, hs => by simp [setScan] at hs
  | none :: r, b', p, hs => by
      simp only [setScan, Option.map_eq_some_iff] at hs
      obtain ⟨⟨r', p'⟩, hr, e⟩ := hs
      simp only [Prod.mk.injEq] at e
      obtain ⟨e1, _⟩ := e
      subst e1
      simpa using cnt_setScan hr
  | some (k0, v0) :: r, b', p, hs => by
      simp only [setScan] at hs
      cases e : o.ident k k0 with
      | true =>
        simp [e] at hs
        obtain ⟨e1, _⟩ := hs
        subst e1
        simp
      | false =>
        simp only [e, Bool.false_eq_true, if_false, Option.map_eq_some_iff] at hs
        obtain ⟨⟨r', p'⟩, hr, e2⟩ := hs
        simp only [Prod.mk.injEq] at e2
        obtain ⟨e1, _⟩ := e2
        subst e1
        simpa using cnt_setScan hr

/-- lookup after replacing the value of the entry identical to k -/
theorem atBucket_setScan (E : Equiv o good) {h : UInt32} {k k' : K} {v : Nat} (gk : good k) (gk' : good k') :
    ∀ {b b' : List (Slot K)} {p : Nat}, setScan o k v b = some (b', p) → BInv o good h b →
      atBucket o k' b' = if o.ident k k' then some v else atBucket o k' b
  | [], _, _, hs, _ => by simp [setScan] at hs
  | none :: r, b', p, hs, hb => by
      simp only [setScan, Option.map_eq_some_iff] at hs
      obtain ⟨⟨r', p'⟩, hr, e⟩ := hs
      simp only [Prod.mk.injEq] at e
      obtain ⟨e1, _⟩ := e
      subst e1
      simp only [atBucket]
      exact atBucket_setScan E gk gk' (b := r) hr hb
  | some (k0, v0) :: r, b', p, hs, hb => by
      simp only [setScan] at hs
      cases e : o.ident k k0 with
      | true =>
        simp [e] at hs
        obtain ⟨e1, _⟩ := hs
        subst e1
        simp only [atBucket]
        cases e1 : o.ident k k' with
        | true =>
          have : o.ident k' k0 = true := E.trans k' k k0 gk' gk hb.1 (E.symm k k' gk gk' e1) e
          simp [this]
        | false =>
          have : o.ident k' k0 = false := by
            cases e2 : o.ident k' k0 with
            | false => rfl
            | true =>
              have := E.trans k k0 k' gk hb.1 gk' e (E.symm k' k0 gk' hb.1 e2)
              rw [this] at e1; cases e1
          simp [this]
      | false =>
        simp only [e, Bool.false_eq_true, if_false, Option.map_eq_some_iff] at hs
        obtain ⟨⟨r', p'⟩, hr, e2⟩ := hs
        simp only [Prod.mk.injEq] at e2
        obtain ⟨e1, _⟩ := e2
        subst e1
        simp only [atBucket]
        rw [atBucket_setScan E gk gk' (b := r) hr hb.2.2.2]
        cases e1 : o.ident k k' with
        | false => simp
        | true =>
          have : o.ident k' k0 = false := by
            cases e2 : o.ident k' k0 with
            | false => rfl
            | true =>
              have := E.trans k k' k0 gk gk' hb.1 e1 e2
              rw [this] at e; cases e
          simp [this]

/-! ### Set, no identical key: the new entry goes into the last hole or to the end -/

/-- `b'` is `b` with the entry `e` written into an unused slot or appended -/
inductive Ins (e : K × Nat) : List (Slot K) → List (Slot K) → Prop
  | hole (r) : Ins e (none :: r) (some e :: r)
  | app : Ins e [] [some e]
  | cons (s) {r r'} : Ins e r r' → Ins e (s :: r) (s :: r')

theorem Ins_append (e : K × Nat) : ∀ (b : List (Slot K)), Ins e b (b ++ [some e])
  | [] => .app
  | s :: r => .cons s (Ins_append e r)

theorem Ins_fill (e : K × Nat) : ∀ {b b' : List (Slot K)}, fillLastHole e b = some b' → Ins e b b'
  | [], _, h => by simp [fillLastHole] at h
  | s :: r, b', h => by
      simp only [fillLastHole] at h
      cases hr : fillLastHole e r with
      | some r' => simp [hr] at h; subst h; exact .cons s (Ins_fill e hr)
      | none =>
        cases s with
        | none => simp [hr] at h; subst h; exact .hole r
        | some x => simp [hr] at h

theorem Ins_mem {e : K × Nat} {b b' : List (Slot K)} (hi : Ins e b b') : ∀ x, some x ∈ b' → x = e ∨ some x ∈ b := by
  induction hi with
  | hole r => intro x hm; simp at hm; rcases hm with h | h; exact .inl h; exact .inr (by simp [h])
  | app => intro x hm; simp at hm; exact .inl hm
  | cons s _ ih =>
    intro x hm
    simp only [List.mem_cons] at hm
    rcases hm with h | h
    · exact .inr (by simp [h])
    · rcases ih x h with h | h
      · exact .inl h
      · exact .inr (by simp [h])

theorem cnt_Ins {e : K × Nat} {b b' : List (Slot K)} (hi : Ins e b b') :
    (b'.filterMap id).length = (b.filterMap id).length + 1 := by
  induction hi with
  | hole r => simp
  | app => simp
  | cons s _ ih => cases s <;> simp [ih]

theorem BInv_Ins (E : Equiv o good) {h : UInt32} {k : K} {v : Nat} (gk : good k) (hk : o.hash k = h) {b b' : List (Slot K)}
    (hi : Ins (k, v) b b') : BInv o good h b → (∀ k' v', some (k', v') ∈ b → o.ident k k' = false) → BInv o good h b' := by
  induction hi with
  | hole r =>
    intro hb hn
    exact ⟨gk, hk, fun k' v' hm => hn k' v' (by simp [hm]), hb⟩
  | app => intro _ _; exact ⟨gk, hk, by simp, trivial⟩
  | cons s hi' ih =>
    intro hb hn
    cases s with
    | none => exact ih hb fun k' v' hm => hn k' v' (by simp [hm])
    | some x =>
      obtain ⟨k0, v0⟩ := x
      refine ⟨hb.1, hb.2.1, ?_, ih hb.2.2.2 fun k' v' hm => hn k' v' (by simp [hm])⟩
      intro k' v' hm
      rcases Ins_mem hi' (k', v') hm with h1 | h1
      · simp only [Prod.mk.injEq] at h1
        obtain ⟨e1, _⟩ := h1
        subst e1
        exact E.symm_false gk hb.1 (hn k0 v0 (by simp))
      · exact hb.2.2.1 k' v' h1

theorem atBucket_Ins (E : Equiv o good) {h : UInt32} {k k' : K} {v : Nat} (gk : good k) (gk' : good k') {b b' : List (Slot K)}
    (hi : Ins (k, v) b b') : BInv o good h b → (∀ k0 v0, some (k0, v0) ∈ b → o.ident k k0 = false) →
      atBucket o k' b' = if o.ident k k' then some v else atBucket o k' b := by
  -- if k' ~ k then nothing in b matches k'
  have key : ∀ (r : List (Slot K)), BInv o good h r → (∀ k0 v0, some (k0, v0) ∈ r → o.ident k k0 = false) →
      o.ident k k' = true → atBucket o k' r = none := by
    intro r hr hn e1
    apply atBucket_none_of
    intro k0 v0 hm
    cases e2 : o.ident k' k0 with
    | false => rfl
    | true =>
      have := E.trans k k' k0 gk gk' (BInv.good hr hm) e1 e2
      rw [hn k0 v0 hm] at this; cases this
  induction hi with
  | hole r =>
    intro hb hn
    simp only [atBucket]
    cases e1 : o.ident k k' with
    | true => simp [E.symm k k' gk gk' e1]
    | false => simp [E.symm_false gk gk' e1]
  | app =>
    intro _ _
    simp only [atBucket]
    cases e1 : o.ident k k' with
    | true => simp [E.symm k k' gk gk' e1]
    | false => simp [E.symm_false gk gk' e1]
  | cons s hi' ih =>
    intro hb hn
    cases s with
    | none => simp only [atBucket]; exact ih hb fun k0 v0 hm => hn k0 v0 (by simp [hm])
    | some x =>
      obtain ⟨k0, v0⟩ := x
      simp only [atBucket]
      rw [ih hb.2.2.2 fun k1 v1 hm => hn k1 v1 (by simp [hm])]
      cases e1 : o.ident k k' with
      | false => simp
      | true =>
        have : o.ident k' k0 = false := by
          cases e2 : o.ident k' k0 with
          | false => rfl
          | true =>
            have := E.trans k k' k0 gk gk' hb.1 e1 e2
            rw [hn k0 v0 (by simp)] at this; cases this
        simp [this]

/-! ### Delete -/

theorem delBucket_found {k : K} : ∀ (b : List (Slot K)), (delBucket o k b).isSome = (atBucket o k b).isSome
  | [] => rfl
  | none :: r => by simp only [delBucket, atBucket, Option.isSome_map]; exact delBucket_found r
  | some (k0, v0) :: r => by
      simp only [delBucket, atBucket]
      cases e : o.ident k k0 with
      | true => simp
      | false => simp only [Bool.false_eq_true, if_false, Option.isSome_map]; exact delBucket_found r

theorem delBucket_mem {k : K} : ∀ {b b' : List (Slot K)}, delBucket o k b = some b' → ∀ x, some x ∈ b' → some x ∈ b
  | [], _, h, _, _ => by simp [delBucket] at h
  | none :: r, b', h, x, hm => by
      simp only [delBucket, Option.map_eq_some_iff] at h
      obtain ⟨r', hr, e⟩ := h
      subst e
      simp at hm
      simp [delBucket_mem hr x hm]
  | some (k0, v0) :: r, b', h, x, hm => by
      simp only [delBucket] at h
      cases e : o.ident k k0 with
      | true => simp [e] at h; subst h; simp at hm; simp [hm]
      | false =>
        simp only [e, Bool.false_eq_true, if_false, Option.map_eq_some_iff] at h
        obtain ⟨r', hr, e2⟩ := h
        subst e2
        simp only [List.mem_cons] at hm
        rcases hm with h1 | h1
        · simp [h1]
        · simp [delBucket_mem hr x h1]

theorem BInv_delBucket {h : UInt32} {k : K} : ∀ {b b' : List (Slot K)}, delBucket o k b = some b' →
    BInv o good h b → BInv o good h b'
  | [], _, hd, _ => by simp [delBucket] at hd
  | none :: r, b', hd, hb => by
      simp only [delBucket, Option.map_eq_some_iff] at hd
      obtain ⟨r', hr, e⟩ := hd
      subst e
      show BInv o good h r'
      exact BInv_delBucket (b := r) hr hb
  | some (k0, v0) :: r, b', hd, hb => by
      simp only [delBucket] at hd
      cases e : o.ident k k0 with
      | true => simp [e] at hd; subst hd; exact hb.2.2.2
      | false =>
        simp only [e, Bool.false_eq_true, if_false, Option.map_eq_some_iff] at hd
        obtain ⟨r', hr, e2⟩ := hd
        subst e2
        exact ⟨hb.1, hb.2.1, fun k' v' hm => hb.2.2.1 k' v' (delBucket_mem hr _ hm), BInv_delBucket (b := r) hr hb.2.2.2⟩

theorem cnt_delBucket {k : K} : ∀ {b b' : List (Slot K)}, delBucket o k b = some b' →
    (b'.filterMap id).length + 1 = (b.filterMap id).length
  | [], _, hd => by simp [delBucket] at hd
  | none :: r, b', hd => by
      simp only [delBucket, Option.map_eq_some_iff] at hd
      obtain ⟨r', hr, e⟩ := hd
      subst e
      simpa using cnt_delBucket hr
  | some (k0, v0) :: r, b', hd => by
      simp only [delBucket] at hd
      cases e : o.ident k k0 with
      | true => simp [e] at hd; subst hd; simp
      | false =>
        simp only [e, Bool.false_eq_true, if_false, Option.map_eq_some_iff] at hd
        obtain ⟨r', hr, e2⟩ := hd
        subst e2
        have := cnt_delBucket hr
        simp; omega

theorem atBucket_delBucket (E : Equiv o good) {h : UInt32} {k k' : K} (gk : good k) (gk' : good k') :
    ∀ {b b' : List (Slot K)}, delBucket o k b = some b' → BInv o good h b →
      atBucket o k' b' = if o.ident k k' then none else atBucket o k' b
  | [], _, hd, _ => by simp [delBucket] at hd
  | none :: r, b', hd, hb => by
      simp only [delBucket, Option.map_eq_some_iff] at hd
      obtain ⟨r', hr, e⟩ := hd
      subst e
      simp only [atBucket]
      exact atBucket_delBucket E gk gk' (b := r) hr hb
  | some (k0, v0) :: r, b', hd, hb => by
      simp only [delBucket] at hd
      cases e : o.ident k k0 with
      | true =>
        simp [e] at hd
        subst hd
        simp only [atBucket]
        cases e1 : o.ident k k' with
        | true =>
          simp only [if_true]
          apply atBucket_none_of
          intro k1 v1 hm
          cases e2 : o.ident k' k1 with
          | false => rfl
          | true =>
            have g1 := BInv.good hb.2.2.2 hm
            have h1 := E.trans k0 k k' hb.1 gk gk' (E.symm k k0 gk hb.1 e) e1
            have := E.trans k0 k' k1 hb.1 gk' g1 h1 e2
            rw [hb.2.2.1 k1 v1 hm] at this; cases this
        | false =>
          have : o.ident k' k0 = false := by
            cases e2 : o.ident k' k0 with
            | false => rfl
            | true =>
              have := E.trans k k0 k' gk hb.1 gk' e (E.symm k' k0 gk' hb.1 e2)
              rw [this] at e1; cases e1
          simp [this]
      | false =>
        simp only [e, Bool.false_eq_true, if_false, Option.map_eq_some_iff] at hd
        obtain ⟨r', hr, e2⟩ := hd
        subst e2
        simp only [atBucket]
        rw [atBucket_delBucket E gk gk' (b := r) hr hb.2.2.2]
        cases e1 : o.ident k k' with
        | false => simp
        | true =>
          have : o.ident k' k0 = false := by
            cases e2 : o.ident k' k0 with
            | false => rfl
            | true =>
              have := E.trans k k' k0 gk gk' hb.1 e1 e2
              rw [this] at e; cases e
          simp [this]

end bucket

/-! ## the table -/

theorem bucketOf_setBucket_same : ∀ (t : List (UInt32 × List (Slot K))) (h : UInt32) (b : List (Slot K)),
    bucketOf (setBucket t h b) h = b
  | [], h, b => by simp [setBucket, bucketOf]
  | (h', b') :: r, h, b => by
      simp only [setBucket]
      by_cases e : h' = h
      · simp [e, bucketOf]
      · simp [e, bucketOf, bucketOf_setBucket_same r h b]

theorem bucketOf_setBucket_other : ∀ (t : List (UInt32 × List (Slot K))) (h h1 : UInt32) (b : List (Slot K)), h1 ≠ h →
    bucketOf (setBucket t h b) h1 = bucketOf t h1
  | [], h, h1, b, ne => by
      have : ¬ h = h1 := fun e => ne e.symm
      simp [setBucket, bucketOf, this]
  | (h', b') :: r, h, h1, b, ne => by
      simp only [setBucket]
      by_cases e : h' = h
      · subst e
        have : ¬ h' = h1 := fun x => ne x.symm
        simp [bucketOf, this]
      · simp only [beq_iff_eq, e, if_false, bucketOf]
        by_cases e1 : h' = h1
        · simp [e1]
        · simp [e1, bucketOf_setBucket_other r h h1 b ne]

theorem mem_setBucket : ∀ {t : List (UInt32 × List (Slot K))} {h : UInt32} {b : List (Slot K)} {x},
    x ∈ setBucket t h b → x = (h, b) ∨ x ∈ t
  | [], h, b, x, hm => by simp [setBucket] at hm; exact .inl hm
  | (h', b') :: r, h, b, x, hm => by
      simp only [setBucket] at hm
      by_cases e : h' = h
      · simp [e] at hm
        rcases hm with h1 | h1
        · exact .inl h1
        · exact .inr (by simp [h1])
      · simp [e] at hm
        rcases hm with h1 | h1
        · exact .inr (by simp [h1])
        · rcases mem_setBucket h1 with h2 | h2
          · exact .inl h2
          · exact .inr (by simp [h2])

theorem keys_setBucket : ∀ (t : List (UInt32 × List (Slot K))) (h : UInt32) (b : List (Slot K)),
    (setBucket t h b).map (·.1) = if h ∈ t.map (·.1) then t.map (·.1) else t.map (·.1) ++ [h]
  | [], h, b => by simp [setBucket]
  | (h', b') :: r, h, b => by
      simp only [setBucket]
      by_cases e : h' = h
      · simp [e]
      · have e' : ¬ h = h' := fun x => e x.symm
        simp only [e, beq_iff_eq, if_false, List.map_cons, keys_setBucket r h b, List.mem_cons, e', false_or]
        split <;> simp

def cntT (t : List (UInt32 × List (Slot K))) : Nat := ((t.flatMap (·.2)).filterMap id).length

theorem cnt_setBucket : ∀ (t : List (UInt32 × List (Slot K))) (h : UInt32) (b : List (Slot K)),
    cntT (setBucket t h b) + ((bucketOf t h).filterMap id).length = cntT t + (b.filterMap id).length
  | [], h, b => by simp [setBucket, bucketOf, cntT]
  | (h', b') :: r, h, b => by
      simp only [setBucket, bucketOf]
      by_cases e : h' = h
      · simp [e, cntT, List.filterMap_append]; omega
      · have := cnt_setBucket r h b
        simp only [cntT] at this
        simp [e, cntT, List.filterMap_append]; omega

/-- table invariant: every bucket satisfies the bucket invariant for its hash; one bucket per hash -/
def TInv (o : Ops K) (good : K → Prop) (t : List (UInt32 × List (Slot K))) : Prop :=
  (∀ hb ∈ t, BInv o good hb.1 hb.2) ∧ (t.map (·.1)).Nodup

theorem TInv.bucket {o : Ops K} {good} : ∀ {t : List (UInt32 × List (Slot K))}, (∀ hb ∈ t, BInv o good hb.1 hb.2) →
    ∀ h, BInv o good h (bucketOf t h)
  | [], _, _ => trivial
  | (h', b') :: r, ht, h => by
      simp only [bucketOf]
      by_cases e : h' = h
      · simp [e]; have := ht (h', b') (by simp); rw [e] at this; exact this
      · simp [e]; exact TInv.bucket (t := r) (fun hb hm => ht hb (by simp [hm])) h

theorem TInv.set {o : Ops K} {good} {t : List (UInt32 × List (Slot K))} (ht : TInv o good t) {h b}
    (hb : BInv o good h b) : TInv o good (setBucket t h b) := by
  refine ⟨?_, ?_⟩
  · intro x hm
    rcases mem_setBucket hm with e | hm
    · subst e; exact hb
    · exact ht.1 x hm
  · rw [keys_setBucket]
    split
    · exact ht.2
    · rename_i hn
      rw [List.nodup_append]
      exact ⟨ht.2, by simp, by intro a ha b hb; simp at hb; subst hb; intro e; subst e; exact hn ha⟩

theorem bucketOf_of_mem : ∀ {t : List (UInt32 × List (Slot K))} {h b}, (t.map (·.1)).Nodup → (h, b) ∈ t → bucketOf t h = b
  | [], _, _, _, hm => by simp at hm
  | (h', b') :: r, h, b, hn, hm => by
      simp only [List.map_cons, List.nodup_cons] at hn
      simp only [List.mem_cons, Prod.mk.injEq] at hm
      simp only [bucketOf]
      rcases hm with ⟨e1, e2⟩ | hm
      · simp [e1, e2]
      · have : ¬ h' = h := by
          intro e; apply hn.1; rw [e]; exact List.mem_map.mpr ⟨(h, b), hm, rfl⟩
        simp [this]; exact bucketOf_of_mem hn.2 hm

theorem bucketOf_mem : ∀ {t : List (UInt32 × List (Slot K))} {h} {s : Slot K}, s ∈ bucketOf t h → s ∈ t.flatMap (·.2)
  | [], _, _, hm => by simp [bucketOf] at hm
  | (h', b') :: r, h, s, hm => by
      simp only [bucketOf] at hm
      by_cases e : h' = h
      · simp [e] at hm; simp [hm]
      · simp [e] at hm; simp only [List.flatMap_cons, List.mem_append]; exact .inr (bucketOf_mem hm)

/-! ## the map -/

def Inv (o : Ops K) (good : K → Prop) (m : Map K) : Prop :=
  match m.table with
  | none => m.length = 0
  | some t => TInv o good t ∧ m.length = (cntT t : Int)

theorem inv_empty (o : Ops K) (good : K → Prop) : Inv o good (empty : Map K) := by simp [Inv, empty]

section map
variable {o : Ops K} {good : K → Prop}

theorem inv_set (E : Equiv o good) {m : Map K} {k : K} (v : Nat) (hi : Inv o good m) (gk : good k) : Inv o good (set o m k v).1 := by
  unfold set
  cases ht : m.table with
  | none =>
    simp only [Inv, ht] at hi
    simp only [Inv]
    refine ⟨⟨?_, by simp⟩, by simp [hi, cntT]⟩
    intro hb hm
    simp at hm; subst hm
    exact ⟨gk, rfl, by simp, trivial⟩
  | some t =>
    simp only [Inv, ht] at hi
    obtain ⟨hT, hl⟩ := hi
    have hB := TInv.bucket hT.1 (o.hash k)
    simp only
    cases hs : setScan o k v (bucketOf t (o.hash k)) with
    | some r =>
      obtain ⟨b', p⟩ := r
      simp only [Inv]
      refine ⟨hT.set (BInv_setScan hs hB), ?_⟩
      have := cnt_setBucket t (o.hash k) b'
      rw [cnt_setScan hs] at this
      omega
    | none =>
      have hnone : atBucket o k (bucketOf t (o.hash k)) = none := by rw [← setScan_prev (v := v), hs]; rfl
      have hn := atBucket_none hnone
      cases hf : fillLastHole (k, v) (bucketOf t (o.hash k)) with
      | some b' =>
        simp only [Inv]
        have hins := Ins_fill _ hf
        refine ⟨hT.set (BInv_Ins E gk rfl hins hB hn), ?_⟩
        have := cnt_setBucket t (o.hash k) b'
        rw [cnt_Ins hins] at this
        omega
      | none =>
        simp only [Inv]
        have hins := Ins_append (k, v) (bucketOf t (o.hash k))
        refine ⟨hT.set (BInv_Ins E gk rfl hins hB hn), ?_⟩
        have := cnt_setBucket t (o.hash k) (bucketOf t (o.hash k) ++ [some (k, v)])
        rw [cnt_Ins hins] at this
        omega

theorem set_prev (m : Map K) (k : K) (v : Nat) : (set o m k v).2 = get o m k := by
  unfold set get
  cases ht : m.table with
  | none => rfl
  | some t =>
    simp only
    rw [← setScan_prev (v := v)]
    cases hs : setScan o k v (bucketOf t (o.hash k)) with
    | some r => rfl
    | none => rfl

theorem get_set (E : Equiv o good) {m : Map K} {k k' : K} (v : Nat) (hi : Inv o good m) (gk : good k) (gk' : good k') :
    get o (set o m k v).1 k' = if o.ident k k' then some v else get o m k' := by
  unfold set get
  cases ht : m.table with
  | none =>
    simp only [bucketOf]
    cases e1 : o.ident k k' with
    | true =>
      have := E.hash k k' gk gk' e1
      simp [this, atBucket, E.symm k k' gk gk' e1]
    | false =>
      by_cases hh : o.hash k = o.hash k'
      · simp [hh, atBucket, E.symm_false gk gk' e1]
      · simp [hh, atBucket]
  | some t =>
    simp only [Inv, ht] at hi
    obtain ⟨hT, _⟩ := hi
    have hB := TInv.bucket hT.1 (o.hash k)
    simp only
    by_cases hh : o.hash k' = o.hash k
    · -- same bucket
      cases hs : setScan o k v (bucketOf t (o.hash k)) with
      | some r =>
        obtain ⟨b', p⟩ := r
        simp only [hh, bucketOf_setBucket_same]
        exact atBucket_setScan E gk gk' hs hB
      | none =>
        have hnone : atBucket o k (bucketOf t (o.hash k)) = none := by rw [← setScan_prev (v := v), hs]; rfl
        have hn := atBucket_none hnone
        cases hf : fillLastHole (k, v) (bucketOf t (o.hash k)) with
        | some b' =>
          simp only [hh, bucketOf_setBucket_same]
          exact atBucket_Ins E gk gk' (Ins_fill _ hf) hB hn
        | none =>
          simp only [hh, bucketOf_setBucket_same]
          exact atBucket_Ins E gk gk' (Ins_append _ _) hB hn
    · -- another bucket: not identical (hash consistency), bucket untouched
      have e1 : o.ident k k' = false := by
        cases e : o.ident k k' with
        | false => rfl
        | true => exact absurd (E.hash k k' gk gk' e).symm hh
      cases hs : setScan o k v (bucketOf t (o.hash k)) with
      | some r => simp [e1, bucketOf_setBucket_other _ _ _ _ hh]
      | none => simp [e1, bucketOf_setBucket_other _ _ _ _ hh]

theorem inv_delete {m : Map K} {k : K} (hi : Inv o good m) : Inv o good (delete o m k).1 := by
  unfold delete
  cases ht : m.table with
  | none => simpa [Inv, ht] using hi
  | some t =>
    have hi' := hi
    simp only [Inv, ht] at hi
    obtain ⟨hT, hl⟩ := hi
    have hB := TInv.bucket hT.1 (o.hash k)
    simp only
    cases hd : delBucket o k (bucketOf t (o.hash k)) with
    | none => exact hi'
    | some b' =>
      simp only [Inv]
      refine ⟨hT.set (BInv_delBucket hd hB), ?_⟩
      have := cnt_setBucket t (o.hash k) b'
      have := cnt_delBucket hd
      omega

theorem delete_found (m : Map K) (k : K) : (delete o m k).2 = (get o m k).isSome := by
  unfold delete get
  cases ht : m.table with
  | none => rfl
  | some t =>
    simp only
    rw [← delBucket_found]
    cases hd : delBucket o k (bucketOf t (o.hash k)) <;> rfl

theorem get_delete (E : Equiv o good) {m : Map K} {k k' : K} (hi : Inv o good m) (gk : good k) (gk' : good k') :
    get o (delete o m k).1 k' = if o.ident k k' then none else get o m k' := by
  unfold delete
  cases ht : m.table with
  | none => simp [get, ht]
  | some t =>
    simp only [Inv, ht] at hi
    obtain ⟨hT, _⟩ := hi
    have hB := TInv.bucket hT.1 (o.hash k)
    simp only
    cases hd : delBucket o k (bucketOf t (o.hash k)) with
    | none =>
      simp only [get, ht]
      cases e1 : o.ident k k' with
      | false => simp
      | true =>
        have hnone : atBucket o k (bucketOf t (o.hash k)) = none := by
          have := delBucket_found (o := o) (k := k) (bucketOf t (o.hash k))
          rw [hd] at this
          cases h : atBucket o k (bucketOf t (o.hash k)) with
          | none => rfl
          | some x => rw [h] at this; cases this
        rw [← E.hash k k' gk gk' e1, ← atBucket_congr E gk gk' e1 hB, hnone]; simp
    | some b' =>
      simp only [get, ht]
      by_cases hh : o.hash k' = o.hash k
      · simp only [hh, bucketOf_setBucket_same]
        exact atBucket_delBucket E gk gk' hd hB
      · have e1 : o.ident k k' = false := by
          cases e : o.ident k k' with
          | false => rfl
          | true => exact absurd (E.hash k k' gk gk' e).symm hh
        simp [e1, bucketOf_setBucket_other _ _ _ _ hh, ht]

theorem len_iterate {m : Map K} (hi : Inv o good m) : len m = (iterate m).length := by
  unfold len iterate slots
  cases ht : m.table with
  | none => simp only [Inv, ht] at hi; simp [hi]
  | some t => simp only [Inv, ht] at hi; simp [hi.2, cntT]

/-- every pair Iterate visits is what At returns for its key -/
theorem iterate_get (E : Equiv o good) {m : Map K} (hi : Inv o good m) {k : K} {v : Nat} (hm : (k, v) ∈ iterate m) : get o m k = some v := by
  unfold iterate slots at hm
  unfold get
  cases ht : m.table with
  | none => simp [ht] at hm
  | some t =>
    simp only [Inv, ht] at hi
    simp only [ht, List.mem_filterMap, List.mem_flatMap, id] at hm
    obtain ⟨s, ⟨hb, hbt, hs⟩, e⟩ := hm
    subst e
    have hB := hi.1.1 hb hbt
    have hh := BInv.hash hB hs
    have : bucketOf t hb.1 = hb.2 := bucketOf_of_mem hi.1.2 hbt
    simp only
    rw [hh, this]
    exact atBucket_mem E hB hs

/-- every key At finds is visited by Iterate (under an identical key, with that value) -/
theorem get_iterate {m : Map K} {k : K} {v : Nat} (hg : get o m k = some v) :
    ∃ k', o.ident k k' = true ∧ (k', v) ∈ iterate m := by
  unfold get at hg
  unfold iterate slots
  cases ht : m.table with
  | none => simp [ht] at hg
  | some t =>
    simp only [ht] at hg
    obtain ⟨k', hm, hi⟩ := atBucket_some hg
    refine ⟨k', hi, ?_⟩
    simp only [List.mem_filterMap, id]
    exact ⟨some (k', v), bucketOf_mem hm, rfl⟩

theorem iterate_good {m : Map K} (hi : Inv o good m) {k : K} {v : Nat} (hm : (k, v) ∈ iterate m) : good k := by
  unfold iterate slots at hm
  cases ht : m.table with
  | none => simp [ht] at hm
  | some t =>
    simp only [Inv, ht] at hi
    simp only [ht, List.mem_filterMap, List.mem_flatMap, id] at hm
    obtain ⟨s, ⟨hb, hbt, hs⟩, e⟩ := hm
    subst e
    exact BInv.good (hi.1.1 hb hbt) hs

end map
end TypeMap
