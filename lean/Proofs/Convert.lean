import Model.Convert
import Proofs.Utf8
import Proofs.UntypedConv
/-! Helper lemmas for `Props.C03`. -/
namespace Convert
open GoSpec GoSpec.Str

/-! ### integer conversions -/

theorem setWidth_ext64 {w : Nat} (hw : w ≤ 64) (signed : Bool) (y : BitVec w) :
    (ext64 signed y).setWidth w = y := by
  unfold ext64
  cases signed
  · simp only [Bool.false_eq_true, if_false]
    ext i hi
    have h64 : i < 64 := by omega
    simp [BitVec.getElem_setWidth, h64, BitVec.getLsbD_eq_getElem hi]
  · simp only [if_true]
    ext i hi
    have h64 : i < 64 := by omega
    simp only [BitVec.getElem_setWidth, BitVec.getLsbD_signExtend, h64, decide_true, Bool.true_and, hi, if_true]
    exact BitVec.getLsbD_eq_getElem hi

theorem ext64_setWidth {w w' : Nat} (hw' : w' ≤ 64) (signed : Bool) (x : BitVec w) :
    (ext64 signed x).setWidth w' = I.conv signed x w' := by
  unfold ext64 I.conv
  cases signed
  · simp only [Bool.false_eq_true, if_false]
    ext i hi
    have h64 : i < 64 := by omega
    simp [BitVec.getElem_setWidth, h64]
  · simp only [if_true]
    ext i hi
    have h64 : i < 64 := by omega
    simp only [BitVec.getElem_setWidth, BitVec.getLsbD_signExtend, BitVec.getElem_signExtend, h64, decide_true, Bool.true_and]
    split
    · rename_i h; exact BitVec.getLsbD_eq_getElem h
    · rfl

theorem readInt_cvtIntBits {w w' : Nat} (hw' : w' ≤ 64) (srcSigned : Bool) (acc : Acc) (x : BitVec w) :
    readInt acc (cvtIntBits srcSigned x w') = I.conv srcSigned x w' := by
  unfold readInt cvtIntBits makeInt
  rw [setWidth_ext64 hw', ext64_setWidth hw']

/-! ### string(i) -/

theorem toInt64_cases (X : BitVec 64) :
    (X.toNat < 9223372036854775808 ∧ X.toInt = (X.toNat : Int)) ∨
    (9223372036854775808 ≤ X.toNat ∧ X.toInt = (X.toNat : Int) - 18446744073709551616) := by
  rw [BitVec.toInt_eq_toNat_cond]
  have h := X.isLt
  by_cases c : 2 * X.toNat < 2 ^ 64
  · left; rw [if_pos c]; exact ⟨by omega, rfl⟩
  · right; rw [if_neg c]; refine ⟨by omega, ?_⟩; simp only [Nat.reducePow]; omega

theorem toInt32_cases (r : BitVec 32) :
    (r.toNat < 2147483648 ∧ r.toInt = (r.toNat : Int)) ∨
    (2147483648 ≤ r.toNat ∧ r.toInt = (r.toNat : Int) - 4294967296) := by
  rw [BitVec.toInt_eq_toNat_cond]
  have h := r.isLt
  by_cases c : 2 * r.toNat < 2 ^ 32
  · left; rw [if_pos c]; exact ⟨by omega, rfl⟩
  · right; rw [if_neg c]; refine ⟨by omega, ?_⟩; simp only [Nat.reducePow]; omega

theorem sanitize_invalid (c : Int) (h : ¬ validRune c) : sanitize c = runeError := by
  unfold sanitize; rw [if_neg h]

theorem sanitize_toNat_eq_toInt (X : BitVec 64) : sanitize (X.toNat : Int) = sanitize X.toInt := by
  rcases toInt64_cases X with ⟨_, h⟩ | ⟨h1, h2⟩
  · rw [h]
  · rw [sanitize_invalid _ (by unfold validRune; omega), sanitize_invalid _ (by unfold validRune; omega)]

theorem cvtIntStringBits_eq (X : BitVec 64) : cvtIntStringBits X = encodeRune X.toInt := by
  unfold cvtIntStringBits encodeRune
  simp only []
  have hrn : (X.setWidth 32).toNat = X.toNat % 4294967296 := by simp [BitVec.toNat_setWidth]
  have hs : ((X.setWidth 32).signExtend 64).toInt = (X.setWidth 32).toInt :=
    BitVec.toInt_signExtend_of_le (by omega)
  have hlt := X.isLt
  split
  · rename_i h
    have : X.toInt = (X.setWidth 32).toInt := by rw [← hs, h]
    rw [this]
  · rename_i h
    have hne : ((X.setWidth 32).signExtend 64).toInt ≠ X.toInt := fun e => h (BitVec.toInt_inj.mp e)
    rw [hs] at hne
    rw [sanitize_invalid]
    unfold validRune
    rcases toInt64_cases X with ⟨a1, a2⟩ | ⟨a1, a2⟩ <;>
    rcases toInt32_cases (X.setWidth 32) with ⟨b1, b2⟩ | ⟨b1, b2⟩ <;>
    rw [hrn] at b1 b2 <;> omega
/-! bytes of an encoding are bytes -/
theorem encodeNat_lt (c : Nat) (hc : validNat c) : ∀ b ∈ encodeNat c, b < 256 := by
  unfold validNat at hc
  unfold encodeNat
  intro b hb
  split at hb
  · simp at hb; omega
  · split at hb
    · simp at hb; omega
    · split at hb
      · simp at hb; omega
      · simp at hb; omega

theorem encode_lt (rs : List Int) : ∀ b ∈ encode rs, b < 256 := by
  induction rs with
  | nil => intro b hb; simp [encode] at hb
  | cons c rs ih =>
    intro b hb
    simp only [encode, List.mem_append] at hb
    rcases hb with h | h
    · exact encodeNat_lt _ (sanitize_valid c) b h
    · exact ih b h

theorem strBytes_ofBytes (l : List Nat) (h : ∀ b ∈ l, b < 256) : strBytes (ofBytes l) = l := by
  unfold strBytes ofBytes
  induction l with
  | nil => rfl
  | cons b l ih =>
    simp only [List.map_cons, List.map_map] at ih ⊢
    have hb : b < 256 := h b (by simp)
    have hl : ∀ b ∈ l, b < 256 := fun x hx => h x (by simp [hx])
    rw [ih hl]
    congr 1
    simp [Nat.mod_eq_of_lt hb]


end Convert
