import Model.ParseTop
/-! C24: the fork's top-level loop on a valid file = go/parser's parseFile (same productions). -/
namespace ParseTop

variable {τ ν : Type}

/-- What the theorem assumes about the shared productions (all are facts about the real code that hold for
    both parsers; see notes/C24.md):
    * `pkgStart`: the package clause reports an error unless the current token is `package` (`expect(PACKAGE)`);
    * `declStart`: parseDecl reports "expected declaration" unless the current token starts a declaration
      (default arm of the switch of parseDecl, both parsers);
    * progress: a production that reports no error consumes at least one token. -/
structure Sane (P : Parsers τ ν) : Prop where
  pkgStart : ∀ toks, (P.pkg toks).errs = 0 → ∃ t ts, toks = t :: ts ∧ P.kind t = .package
  declStart : ∀ t ts, (P.decl (t :: ts)).errs = 0 → dispatch (P.kind t) = .decl
  progPkg : ∀ t ts, (P.pkg (t :: ts)).errs = 0 → (P.pkg (t :: ts)).rest.length ≤ ts.length
  progImp : ∀ t ts, (P.imp (t :: ts)).errs = 0 → (P.imp (t :: ts)).rest.length ≤ ts.length
  progDecl : ∀ t ts, (P.decl (t :: ts)).errs = 0 → (P.decl (t :: ts)).rest.length ≤ ts.length

/-- loop invariant on the two remembered positions: they are not ahead of the current one -/
def Inv (s : St τ ν) : Prop :=
  (∀ l, s.last1 = some l → s.toks.length ≤ l) ∧ (∀ l, s.last2 = some l → s.toks.length ≤ l)

/-- one iteration of Parser.Parse's loop on a token that starts a package clause, import or declaration -/
theorem forkLoop_step (P : Parsers τ ν) (f : Nat) (s : St τ ν) (t : τ) (ts : List τ)
    (ht : s.toks = t :: ts) (he : s.errs = 0) (hk : dispatch (P.kind t) ≠ .stmt)
    (hprog : (P.run (dispatch (P.kind t)) (t :: ts)).rest.length ≤ ts.length) (hinv : Inv s) :
    forkLoop P (f+1) s =
      forkLoop P f { toks := (P.run (dispatch (P.kind t)) (t :: ts)).rest,
                     errs := (P.run (dispatch (P.kind t)) (t :: ts)).errs,
                     last1 := s.last2,
                     last2 := some (P.run (dispatch (P.kind t)) (t :: ts)).rest.length,
                     out := s.out ++ [(P.run (dispatch (P.kind t)) (t :: ts)).node],
                     prods := s.prods ++ [dispatch (P.kind t)] } := by
  have hnc : P.kind t ≠ .comment := by
    intro h; rw [h] at hk; simp [dispatch] at hk
  have hany : parseAny P (t :: ts) = (dispatch (P.kind t), P.run (dispatch (P.kind t)) (t :: ts)) := by
    simp [parseAny, hnc]
  have hne : ¬ (some (P.run (dispatch (P.kind t)) (t :: ts)).rest.length = s.last1) := by
    intro h
    have := hinv.1 _ h.symm
    rw [ht] at this
    simp at this; omega
  rw [forkLoop]
  simp only [ht, he, hany]
  simp [hne]

theorem Inv_step (s : St τ ν) (t : τ) (ts rest : List τ) (ht : s.toks = t :: ts) (hinv : Inv s)
    (hprog : rest.length ≤ ts.length) (e : Nat) (o : List ν) (pr : List Prod) :
    Inv ({ toks := rest, errs := e, last1 := s.last2, last2 := some rest.length, out := o, prods := pr } : St τ ν) := by
  constructor
  · intro l hl
    have := hinv.2 l hl
    rw [ht] at this; simp at this ⊢; omega
  · intro l hl
    simp at hl; simp; omega

/-- the import loop of parseFile is followed step by step by Parser.Parse's loop -/
theorem fork_follows_imports (P : Parsers τ ν) (hs : Sane P) :
    ∀ (g : Nat) (toks : List τ) (is : List ν) (rest : List τ),
      stdImports P g toks = (is, rest, 0) → toks.length < g →
      ∀ (f : Nat) (s : St τ ν), s.toks = toks → s.errs = 0 → Inv s → toks.length < f →
        ∃ f' s', forkLoop P f s = forkLoop P f' s' ∧ s'.toks = rest ∧ s'.errs = 0 ∧ Inv s' ∧ rest.length < f' ∧
          s'.out = s.out ++ is ∧ (∀ p ∈ s'.prods, p ∈ s.prods ∨ p ≠ .stmt) ∧
          (∀ t ts, rest = t :: ts → P.kind t ≠ .import_) ∧ rest.length ≤ toks.length := by
  intro g
  induction g with
  | zero => intro toks is rest _ hlt; omega
  | succ g ih =>
    intro toks is rest hstd hlt f s ht he hinv hf
    cases toks with
    | nil =>
      simp [stdImports] at hstd
      obtain ⟨rfl, rfl⟩ := hstd
      exact ⟨f, s, rfl, ht, he, hinv, hf, by simp, fun p hp => Or.inl hp, by simp, by simp⟩
    | cons t ts =>
      by_cases hk : P.kind t = .import_
      · simp only [stdImports, hk, if_true] at hstd
        generalize hrr : stdImports P g (P.imp (t :: ts)).rest = rr at hstd
        obtain ⟨ns, rest', e⟩ := rr
        simp only [Prod.mk.injEq] at hstd
        obtain ⟨rfl, rfl, hz⟩ := hstd
        have he0 : (P.imp (t :: ts)).errs = 0 := by omega
        have hez : e = 0 := by omega
        subst hez
        have hprog := hs.progImp t ts he0
        have hd : dispatch (P.kind t) = .imp := by rw [hk]; rfl
        cases f with
        | zero => omega
        | succ f =>
          have hstep := forkLoop_step P f s t ts ht he (by rw [hd]; simp) (by rw [hd]; exact hprog) hinv
          rw [hd] at hstep
          simp only [Parsers.run] at hstep
          have hinv' := Inv_step s t ts (P.imp (t :: ts)).rest ht hinv hprog (P.imp (t :: ts)).errs
            (s.out ++ [(P.imp (t :: ts)).node]) (s.prods ++ [Prod.imp])
          obtain ⟨f', s', h1, h2, h3, h4, h5, h6, h7, h8, h9⟩ :=
            ih _ _ _ hrr (by simp at hlt; omega) f _ rfl he0 hinv' (by simp at hf; omega)
          refine ⟨f', s', by rw [hstep, h1], h2, h3, h4, h5, ?_, ?_, h8, by simp; omega⟩
          · rw [h6]; simp
          · intro p hp
            rcases h7 p hp with h | h
            · simp at h
              rcases h with h | h
              · exact Or.inl h
              · right; rw [h]; simp
            · exact Or.inr h
      · simp only [stdImports, hk, if_false] at hstd
        simp only [Prod.mk.injEq] at hstd
        obtain ⟨rfl, rfl, _⟩ := hstd
        exact ⟨f, s, rfl, ht, he, hinv, hf, by simp, fun p hp => Or.inl hp,
          fun t' ts' h => by simp at h; rw [← h.1]; exact hk, by simp⟩

/-- the declaration loop of parseFile, when it reports no error, is followed step by step by Parser.Parse's
    loop, which then stops at EOF -/
theorem fork_follows_decls (P : Parsers τ ν) (hs : Sane P) :
    ∀ (g : Nat) (prev : Bool) (toks : List τ) (ds : List ν),
      stdDecls P g prev toks = (ds, 0) → toks.length < g →
      ∀ (f : Nat) (s : St τ ν), s.toks = toks → s.errs = 0 → Inv s → toks.length < f →
        (forkLoop P f s).out = s.out ++ ds ∧ (forkLoop P f s).errs = 0 ∧ (forkLoop P f s).toks = [] ∧
        (∀ p ∈ (forkLoop P f s).prods, p ∈ s.prods ∨ p ≠ .stmt) := by
  intro g
  induction g with
  | zero => intro prev toks ds _ hlt; omega
  | succ g ih =>
    intro prev toks ds hstd hlt f s ht he hinv hf
    cases f with
    | zero => omega
    | succ f =>
    cases toks with
    | nil =>
      simp [stdDecls] at hstd
      subst hstd
      have : forkLoop P (f+1) s = s := by rw [forkLoop]; simp [ht]
      rw [this]
      exact ⟨by simp, he, ht, fun p hp => Or.inl hp⟩
    | cons t ts =>
      by_cases hk : P.kind t = .import_
      · simp only [stdDecls, hk, if_true] at hstd
        generalize hrr : stdDecls P g true (P.imp (t :: ts)).rest = rr at hstd
        obtain ⟨ns, e⟩ := rr
        simp only [Prod.mk.injEq] at hstd
        obtain ⟨rfl, hz⟩ := hstd
        have he0 : (P.imp (t :: ts)).errs = 0 := by omega
        have hez : e = 0 := by omega
        subst hez
        have hprog := hs.progImp t ts he0
        have hd : dispatch (P.kind t) = .imp := by rw [hk]; rfl
        have hstep := forkLoop_step P f s t ts ht he (by rw [hd]; simp) (by rw [hd]; exact hprog) hinv
        rw [hd] at hstep
        simp only [Parsers.run] at hstep
        have hinv' := Inv_step s t ts (P.imp (t :: ts)).rest ht hinv hprog (P.imp (t :: ts)).errs
          (s.out ++ [(P.imp (t :: ts)).node]) (s.prods ++ [Prod.imp])
        obtain ⟨h1, h2, h3, h4⟩ := ih _ _ _ hrr (by simp at hlt; omega) f _ rfl he0 hinv' (by simp at hf; omega)
        rw [hstep]
        refine ⟨by rw [h1]; simp, h2, h3, ?_⟩
        intro p hp
        rcases h4 p hp with h | h
        · simp at h
          rcases h with h | h
          · exact Or.inl h
          · right; rw [h]; simp
        · exact Or.inr h
      · simp only [stdDecls, hk, if_false] at hstd
        generalize hrr : stdDecls P g false (P.decl (t :: ts)).rest = rr at hstd
        obtain ⟨ns, e⟩ := rr
        simp only [Prod.mk.injEq] at hstd
        obtain ⟨rfl, hz⟩ := hstd
        have he0 : (P.decl (t :: ts)).errs = 0 := by omega
        have hez : e = 0 := by omega
        subst hez
        have hprog := hs.progDecl t ts he0
        have hd : dispatch (P.kind t) = .decl := hs.declStart t ts he0
        have hstep := forkLoop_step P f s t ts ht he (by rw [hd]; simp) (by rw [hd]; exact hprog) hinv
        rw [hd] at hstep
        simp only [Parsers.run] at hstep
        have hinv' := Inv_step s t ts (P.decl (t :: ts)).rest ht hinv hprog (P.decl (t :: ts)).errs
          (s.out ++ [(P.decl (t :: ts)).node]) (s.prods ++ [Prod.decl])
        obtain ⟨h1, h2, h3, h4⟩ := ih _ _ _ hrr (by simp at hlt; omega) f _ rfl he0 hinv' (by simp at hf; omega)
        rw [hstep]
        refine ⟨by rw [h1]; simp, h2, h3, ?_⟩
        intro p hp
        rcases h4 p hp with h | h
        · simp at h
          rcases h with h | h
          · exact Or.inl h
          · right; rw [h]; simp
        · exact Or.inr h

/-- **Parser.Parse on a valid file.**  If go/parser's parseFile accepts the token stream without error, the fork's
    loop returns the package clause followed by exactly parseFile's `Decls`, in order, reports no error, stops at EOF,
    and never takes the statement/expression branch of parseAny. -/
theorem fork_eq_std_on_valid (P : Parsers τ ν) (hs : Sane P) (toks : List τ) (pk : ν) (ds : List ν)
    (hstd : stdFile P toks = some (pk, ds, 0)) :
    (forkParse P toks).out = pk :: ds ∧ (forkParse P toks).errs = 0 ∧ (forkParse P toks).toks = [] ∧
    (∀ p ∈ (forkParse P toks).prods, p ≠ .stmt) := by
  unfold stdFile at hstd
  simp only at hstd
  split at hstd
  · simp at hstd
  · rename_i he0
    have he0 : (P.pkg toks).errs = 0 := by simpa using he0
    generalize hi : stdImports P (toks.length + 1) (P.pkg toks).rest = ri at hstd
    obtain ⟨is, rest, e1⟩ := ri
    generalize hd : stdDecls P (toks.length + 1) true rest = rd at hstd
    obtain ⟨dd, e2⟩ := rd
    simp only [Option.some.injEq, Prod.mk.injEq] at hstd
    obtain ⟨rfl, rfl, hz⟩ := hstd
    have hz1 : e1 = 0 := by omega
    have hz2 : e2 = 0 := by omega
    subst hz1; subst hz2
    obtain ⟨t, ts, rfl, hk⟩ := hs.pkgStart toks he0
    have hprog := hs.progPkg t ts he0
    have hdp : dispatch (P.kind t) = .pkg := by rw [hk]; rfl
    have hinv0 : Inv (forkInit (t :: ts) : St τ ν) := by constructor <;> intro l hl <;> simp [forkInit] at hl
    have hstep := forkLoop_step P (3 * (t :: ts).length + 2) (forkInit (t :: ts)) t ts rfl rfl
      (by rw [hdp]; simp) (by rw [hdp]; exact hprog) hinv0
    rw [hdp] at hstep
    simp only [Parsers.run] at hstep
    have hinv1 := Inv_step (forkInit (t :: ts) : St τ ν) t ts (P.pkg (t :: ts)).rest rfl hinv0 hprog
      (P.pkg (t :: ts)).errs ((forkInit (t :: ts) : St τ ν).out ++ [(P.pkg (t :: ts)).node])
      ((forkInit (t :: ts) : St τ ν).prods ++ [Prod.pkg])
    obtain ⟨f', s', h1, h2, h3, h4, h5, h6, h7, _, h9⟩ :=
      fork_follows_imports P hs _ _ _ _ hi (by simp; omega) (3 * (t :: ts).length + 2) _ rfl he0 hinv1 (by simp; omega)
    obtain ⟨g1, g2, g3, g4⟩ :=
      fork_follows_decls P hs _ _ _ _ hd (by simp at h9 ⊢; omega) f' s' h2 h3 h4 h5
    have hfp : forkParse P (t :: ts) = forkLoop P f' s' := by
      unfold forkParse
      have : 3 * (t :: ts).length + 3 = (3 * (t :: ts).length + 2) + 1 := by omega
      rw [this, hstep, h1]
    rw [hfp]
    refine ⟨?_, g2, g3, ?_⟩
    · rw [g1, h6]; simp [forkInit]
    · intro p hp
      rcases g4 p hp with h | h
      · rcases h7 p h with h' | h'
        · simp [forkInit] at h'; rw [h']; simp
        · exact h'
      · exact h

end ParseTop
