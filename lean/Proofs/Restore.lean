import Model.Restore
/-! Helper lemmas for C12: which `Run` fields every executor frame leaves as it found them. -/
namespace Restore

/-- `advance` touches nothing but `run.Interrupt` -/
theorem advance_frame (U : Unroll) : ∀ k (a : Act) (s : St),
    ∃ i, (advance U k a s).2 = { s with run := { s.run with interrupt := i } } := by
  intro k
  induction k with
  | zero => intro a s; exact ⟨s.run.interrupt, rfl⟩
  | succ k ih =>
    intro a s
    simp only [advance]
    split
    · exact ih _ s
    · split
      · exact ih _ s
      · simp only [nextRound]
        split
        · exact ih _ s
        · obtain ⟨i, hi⟩ := ih { a with j := a.j + 1, i := 0, ph2 := true } { s with run := { s.run with interrupt := .spin } }
          exact ⟨i, by rw [hi]⟩

theorem nextRound_frame (U : Unroll) (a : Act) (s : St) :
    ∃ i, (nextRound U a s).2 = { s with run := { s.run with interrupt := i } } := by
  simp only [nextRound]
  split
  · exact ⟨s.run.interrupt, rfl⟩
  · exact ⟨.spin, rfl⟩

/-- the fields a frame must leave as it found them (`EFDefer`, `DeferOfFun`; `EFStartDefer` stays clear) -/
def Bal (r r' : Run) : Prop :=
  r'.efDefer = r.efDefer ∧ r'.deferOfFun = r.deferOfFun ∧ (r.efStart = false → r'.efStart = false)

theorem Bal.refl (r : Run) : Bal r r := ⟨rfl, rfl, id⟩

theorem Bal.trans {a b c : Run} (h1 : Bal a b) (h2 : Bal b c) : Bal a c :=
  ⟨h2.1.trans h1.1, h2.2.1.trans h1.2.1, fun h => h2.2.2 (h1.2.2 h)⟩

theorem bal_of_intr (s : St) (i : Intr) : Bal s.run ({ s with run := { s.run with interrupt := i } } : St).run :=
  ⟨rfl, rfl, id⟩

theorem recoverOp_bal (s : St) : Bal s.run (recoverOp s).run := by
  unfold recoverOp
  simp only
  split
  · exact Bal.refl _
  · split
    · exact Bal.refl _
    · split
      · exact Bal.refl _
      · exact ⟨rfl, rfl, id⟩


theorem after_adv (P : Prog) (fuel k : Nat) (rest : List Op) (a : Act) (s s0 : St)
    (h : ∀ a' s', Bal s'.run (runOps P fuel rest a' s').2.2.run) (hb : Bal s.run s0.run) :
    Bal s.run (match advance P.U k a s0 with | (a1, s1) => runOps P fuel rest a1 s1).2.2.run := by
  obtain ⟨i, hi⟩ := advance_frame P.U k a s0
  rcases hadv : advance P.U k a s0 with ⟨a1, s1⟩
  rw [hadv] at hi
  simp only at hi ⊢
  subst hi
  exact Bal.trans hb (Bal.trans (bal_of_intr s0 i) (h _ _))

theorem after_round (P : Prog) (fuel : Nat) (rest : List Op) (a : Act) (s s0 : St)
    (h : ∀ a' s', Bal s'.run (runOps P fuel rest a' s').2.2.run) (hb : Bal s.run s0.run) :
    Bal s.run (match nextRound P.U a s0 with | (a1, s1) => runOps P fuel rest a1 s1).2.2.run := by
  obtain ⟨i, hi⟩ := nextRound_frame P.U a s0
  rcases hadv : nextRound P.U a s0 with ⟨a1, s1⟩
  rw [hadv] at hi
  simp only at hi ⊢
  subst hi
  exact Bal.trans hb (Bal.trans (bal_of_intr s0 i) (h _ _))

/-- **every frame is balanced**: statements, the function-call wrapper, the executor closure and the
    deferred calls of a frame leave `EFDefer` and `DeferOfFun` as they found them and `EFStartDefer`
    clear -- whatever the outcome (normal return, panic at any statement, nested panics, recovered or not). -/
theorem frame_all (P : Prog) : ∀ fuel,
    (∀ ops a s, Bal s.run (runOps P fuel ops a s).2.2.run) ∧
    (∀ f s, Bal s.run (callFn P fuel f s).2.run) ∧
    (∀ f env s, Bal s.run (execFn P fuel f env s).2.run) ∧
    (∀ funenv ds o sv s, Bal s.run (runDefers P fuel funenv ds o sv s).2.2.run) := by
  intro fuel
  induction fuel with
  | zero =>
    refine ⟨?_, ?_, ?_, ?_⟩ <;> intros <;> simp only [runOps, callFn, execFn, runDefers] <;> exact Bal.refl _
  | succ fuel ih =>
    obtain ⟨ihO, ihC, ihE, ihD⟩ := ih
    refine ⟨?_, ?_, ?_, ?_⟩
    · intro ops a s
      cases ops with
      | nil => simp only [runOps]; split <;> exact ⟨rfl, rfl, id⟩
      | cons op rest =>
        cases op with
        | pad k => simp only [runOps]; exact after_adv P fuel k rest a s s (ihO rest) (Bal.refl _)
        | hook =>
          simp only [runOps]
          split
          · exact ⟨rfl, rfl, id⟩
          · exact after_adv P fuel 1 rest a s _ (ihO rest) ⟨rfl, rfl, id⟩
        | panic v => simp only [runOps]; exact Bal.refl _
        | recover => simp only [runOps]; exact after_adv P fuel 1 rest a s _ (ihO rest) (recoverOp_bal s)
        | call f =>
          simp only [runOps]
          have hc := ihC f s
          rcases hcf : callFn P fuel f s with ⟨o, s1⟩
          rw [hcf] at hc
          cases o with
          | ok => exact after_adv P fuel 1 rest a s s1 (ihO rest) hc
          | panic v => exact hc
        | try_ f =>
          simp only [runOps]
          have hc := ihC f s
          rcases hcf : callFn P fuel f s with ⟨o, s1⟩
          rw [hcf] at hc
          cases o with
          | ok => exact after_adv P fuel 1 rest a s _ (ihO rest) hc
          | panic v => exact after_adv P fuel 1 rest a s _ (ihO rest) hc
        | dfr f =>
          simp only [runOps]
          split
          · exact Bal.refl _
          · split
            · exact ihO rest _ s
            · exact after_round P fuel rest _ s s (ihO rest) (Bal.refl _)
    · intro f s
      simp only [callFn]
      have he := ihE f s.nextEnv { s with nextEnv := s.nextEnv + 1, run := { s.run with currEnv := some s.nextEnv } }
      rcases hef : execFn P fuel f s.nextEnv { s with nextEnv := s.nextEnv + 1, run := { s.run with currEnv := some s.nextEnv } } with ⟨o, s1⟩
      rw [hef] at he
      cases o with
      | ok => exact ⟨he.1, he.2.1, he.2.2⟩
      | panic v => exact he
    · intro f env s
      simp only [execFn]
      split
      · -- reExecWithFlags
        rcases hro : runOps P fuel (P.body f) { env := env, flags := true }
          { s with run := { s.run with sync := .none, efDefer := s.run.efStart, efStart := false, interrupt := .nil } } with ⟨o, a1, s1⟩
        have h1 := ihO (P.body f) { env := env, flags := true }
          { s with run := { s.run with sync := .none, efDefer := s.run.efStart, efStart := false, interrupt := .nil } }
        rw [hro] at h1
        have h2 := ihD env a1.defers o none s1
        rcases hrd : runDefers P fuel env a1.defers o none s1 with ⟨o2, sv2, s2⟩
        rw [hrd] at h2
        obtain ⟨_, h1b, h1c⟩ := h1
        obtain ⟨_, h2b, h2c⟩ := h2
        cases sv2 with
        | none =>
          refine ⟨rfl, ?_, ?_⟩
          · exact h2b.trans h1b
          · intro _; exact h2c (h1c rfl)
        | some pp =>
          refine ⟨rfl, ?_, ?_⟩
          · exact h2b.trans h1b
          · intro _; exact h2c (h1c rfl)
      · rcases hro : runOps P fuel (P.body f) { env := env, flags := false }
          { s with run := { s.run with sync := .none, interrupt := .nil } } with ⟨o, a1, s1⟩
        have h1 := ihO (P.body f) { env := env, flags := false } { s with run := { s.run with sync := .none, interrupt := .nil } }
        rw [hro] at h1
        cases o with
        | ok => exact ⟨h1.1, h1.2.1, h1.2.2⟩
        | panic v => exact h1
    · intro funenv ds o sv s
      cases ds with
      | nil => simp only [runDefers]; exact Bal.refl _
      | cons f ds =>
        rw [runDefers.eq_def]
        cases o with
        | ok =>
          simp only
          rcases hcf : callFn P fuel f _ with ⟨o2, s1⟩
          simp only
          refine Bal.trans ?_ (ihD funenv ds _ _ _)
          exact ⟨rfl, rfl, fun _ => rfl⟩
        | panic v =>
          simp only
          rcases hcf : callFn P fuel f _ with ⟨o2, s1⟩
          simp only
          refine Bal.trans ?_ (ihD funenv ds _ _ _)
          exact ⟨rfl, rfl, fun _ => rfl⟩

end Restore
