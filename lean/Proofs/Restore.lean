import Model.Restore
/-! Helper lemmas for C12: which `Run` fields every executor frame leaves as it found them. -/
namespace Restore

/-- `advance` touches nothing but `run.Interrupt` -/
theorem advance_frame (U : Unroll) : ∀ k (a : Act) (s : St),
    ∃ i, (advance U k a s).2 = { s with run := { s.run with interrupt := i } } := by
  intro k
  induction k with
  | zero => intro a s; exact ⟨s.run.interrupt, rfl⟩
  | succ k ih =>
    intro a s
    simp only [advance]
    split
    · exact ih _ s
    · split
      · exact ih _ s
      · simp only [nextRound]
        split
        · exact ih _ s
        · obtain ⟨i, hi⟩ := ih { a with j := a.j + 1, i := 0, ph2 := true } { s with run := { s.run with interrupt := .spin } }
          exact ⟨i, by rw [hi]⟩

theorem nextRound_frame (U : Unroll) (a : Act) (s : St) :
    ∃ i, (nextRound U a s).2 = { s with run := { s.run with interrupt := i } } := by
  simp only [nextRound]
  split
  · exact ⟨s.run.interrupt, rfl⟩
  · exact ⟨.spin, rfl⟩

/-- the fields a frame must leave as it found them (`EFDefer`, `DeferOfFun`; `EFStartDefer` stays clear) -/
def Bal (r r' : Run) : Prop :=
  r'.efDefer = r.efDefer ∧ r'.deferOfFun = r.deferOfFun ∧ (r.efStart = false → r'.efStart = false)

theorem Bal.refl (r : Run) : Bal r r := ⟨rfl, rfl, id⟩

theorem Bal.trans {a b c : Run} (h1 : Bal a b) (h2 : Bal b c) : Bal a c :=
  ⟨h2.1.trans h1.1, h2.2.1.trans h1.2.1, fun h => h2.2.2 (h1.2.2 h)⟩

theorem bal_of_intr (s : St) (i : Intr) : Bal s.run ({ s with run := { s.run with interrupt := i } } : St).run :=
  ⟨rfl, rfl, id⟩

theorem recoverOp_bal (s : St) : Bal s.run (recoverOp s).run := by
  unfold recoverOp
  simp only
  split
  · exact Bal.refl _
  · split
    · exact Bal.refl _
    · split
      · exact Bal.refl _
      · exact ⟨rfl, rfl, id⟩


theorem after_adv (P : Prog) (fuel k : Nat) (rest : List Op) (a : Act) (s s0 : St)
    (h : ∀ a' s', Bal s'.run (runOps P fuel rest a' s').2.2.run) (hb : Bal s.run s0.run) :
    Bal s.run (match advance P.U k a s0 with | (a1, s1) => runOps P fuel rest a1 s1).2.2.run := by
  obtain ⟨i, hi⟩ := advance_frame P.U k a s0
  rcases hadv : advance P.U k a s0 with ⟨a1, s1⟩
  rw [hadv] at hi
  simp only at hi ⊢
  subst hi
  exact Bal.trans hb (Bal.trans (bal_of_intr s0 i) (h _ _))

theorem after_round (P : Prog) (fuel : Nat) (rest : List Op) (a : Act) (s s0 : St)
    (h : ∀ a' s', Bal s'.run (runOps P fuel rest a' s').2.2.run) (hb : Bal s.run s0.run) :
    Bal s.run (match nextRound P.U a s0 with | (a1, s1) => runOps P fuel rest a1 s1).2.2.run := by
  obtain ⟨i, hi⟩ := nextRound_frame P.U a s0
  rcases hadv : nextRound P.U a s0 with ⟨a1, s1⟩
  rw [hadv] at hi
  simp only at hi ⊢
  subst hi
  exact Bal.trans hb (Bal.trans (bal_of_intr s0 i) (h _ _))

/-- **every frame is balanced**: statements, the function-call wrapper, the executor closure and the
    deferred calls of a frame leave `EFDefer` and `DeferOfFun` as they found them and `EFStartDefer`
    clear -- whatever the outcome (normal return, panic at any statement, nested panics, recovered or not). -/
theorem frame_all (P : Prog) : ∀ fuel,
    (∀ ops a s, Bal s.run (runOps P fuel ops a s).2.2.run) ∧
    (∀ f s, Bal s.run (callFn P fuel f s).2.run) ∧
    (∀ f env s, Bal s.run (execFn P fuel f env s).2.run) ∧
    (∀ funenv ds o sv s, Bal s.run (runDefers P fuel funenv ds o sv s).2.2.run) := by
  intro fuel
  induction fuel with
  | zero =>
    refine ⟨?_, ?_, ?_, ?_⟩ <;> intros <;> simp only [runOps, callFn, execFn, runDefers] <;> exact Bal.refl _
  | succ fuel ih =>
    obtain ⟨ihO, ihC, ihE, ihD⟩ := ih
    refine ⟨?_, ?_, ?_, ?_⟩
    · intro ops a s
      cases ops with
      | nil => simp only [runOps]; split <;> exact ⟨rfl, rfl, id⟩
      | cons op rest =>
        cases op with
        | pad k => simp only [runOps]; exact after_adv P fuel k rest a s s (ihO rest) (Bal.refl _)
        | hook =>
          simp only [runOps]
          split
          · exact ⟨rfl, rfl, id⟩
          · exact after_adv P fuel 1 rest a s _ (ihO rest) ⟨rfl, rfl, id⟩
        | panic v => simp only [runOps]; exact Bal.refl _
        | recover => simp only [runOps]; exact after_adv P fuel 1 rest a s _ (ihO rest) (recoverOp_bal s)
        | call f =>
          simp only [runOps]
          have hc := ihC f s
          rcases hcf : callFn P fuel f s with ⟨o, s1⟩
          rw [hcf] at hc
          cases o with
          | ok => exact after_adv P fuel 1 rest a s s1 (ihO rest) hc
          | panic v => exact hc
        | try_ f =>
          simp only [runOps]
          have hc := ihC f s
          rcases hcf : callFn P fuel f s with ⟨o, s1⟩
          rw [hcf] at hc
          cases o with
          | ok => exact after_adv P fuel 1 rest a s _ (ihO rest) hc
          | panic v => exact after_adv P fuel 1 rest a s _ (ihO rest) hc
        | dfr f =>
          simp only [runOps]
          split
          · exact Bal.refl _
          · split
            · exact ihO rest _ s
            · exact after_round P fuel rest _ s s (ihO rest) (Bal.refl _)
    · intro f s
      simp only [callFn]
      have he := ihE f s.nextEnv { s with nextEnv := s.nextEnv + 1, run := { s.run with currEnv := some s.nextEnv } }
      rcases hef : execFn P fuel f s.nextEnv { s with nextEnv := s.nextEnv + 1, run := { s.run with currEnv := some s.nextEnv } } with ⟨o, s1⟩
      rw [hef] at he
      cases o with
      | ok => exact ⟨he.1, he.2.1, he.2.2⟩
      | panic v => exact he
    · intro f env s
      simp only [execFn]
      split
      · -- reExecWithFlags
        rcases hro : runOps P fuel (P.body f) { env := env, flags := true }
          { s with run := { s.run with sync := .none, efDefer := s.run.efStart, efStart := false, interrupt := .nil, efDebug := s.run.sigDebug }, atc := s.atc || s.run.sigDebug } with ⟨o, a1, s1⟩
        have h1 := ihO (P.body f) { env := env, flags := true }
          { s with run := { s.run with sync := .none, efDefer := s.run.efStart, efStart := false, interrupt := .nil, efDebug := s.run.sigDebug }, atc := s.atc || s.run.sigDebug }
        rw [hro] at h1
        have h2 := ihD env a1.defers o none s1
        rcases hrd : runDefers P fuel env a1.defers o none s1 with ⟨o2, sv2, s2⟩
        rw [hrd] at h2
        obtain ⟨_, h1b, h1c⟩ := h1
        obtain ⟨_, h2b, h2c⟩ := h2
        cases sv2 with
        | none =>
          refine ⟨rfl, ?_, ?_⟩
          · exact h2b.trans h1b
          · intro _; exact h2c (h1c rfl)
        | some pp =>
          refine ⟨rfl, ?_, ?_⟩
          · exact h2b.trans h1b
          · intro _; exact h2c (h1c rfl)
      · rcases hro : runOps P fuel (P.body f) { env := env, flags := false }
          { s with run := { s.run with sync := .none, interrupt := .nil }, atc := s.atc || s.run.sigDebug } with ⟨o, a1, s1⟩
        have h1 := ihO (P.body f) { env := env, flags := false } { s with run := { s.run with sync := .none, interrupt := .nil }, atc := s.atc || s.run.sigDebug }
        rw [hro] at h1
        cases o with
        | ok => exact ⟨h1.1, h1.2.1, h1.2.2⟩
        | panic v => exact h1
    · intro funenv ds o sv s
      cases ds with
      | nil => simp only [runDefers]; exact Bal.refl _
      | cons f ds =>
        rw [runDefers.eq_def]
        cases o with
        | ok =>
          simp only
          rcases hcf : callFn P fuel f _ with ⟨o2, s1⟩
          simp only
          refine Bal.trans ?_ (ihD funenv ds _ _ _)
          exact ⟨rfl, rfl, fun _ => rfl⟩
        | panic v =>
          simp only
          rcases hcf : callFn P fuel f _ with ⟨o2, s1⟩
          simp only
          refine Bal.trans ?_ (ihD funenv ds _ _ _)
          exact ⟨rfl, rfl, fun _ => rfl⟩


/-- `PanicFun` / `Panic` as found -/
def Pair (r r' : Run) : Prop := r'.panicFun = r.panicFun ∧ r'.panicVal = r.panicVal
theorem Pair.refl (r : Run) : Pair r r := ⟨rfl, rfl⟩
theorem Pair.trans {a b c : Run} (h1 : Pair a b) (h2 : Pair b c) : Pair a c := ⟨h2.1.trans h1.1, h2.2.trans h1.2⟩

/-- `pan`: Envs of the enclosing frames that are running their deferred calls because of a panic.
    `PanicFun` only ever names one of them, and they are older than every Env still to be allocated. -/
def Inv (pan : List Nat) (s : St) : Prop :=
  (∀ e, s.run.panicFun = some e → e ∈ pan) ∧ (∀ e ∈ pan, e < s.nextEnv)

/-- `recover()` cannot fire in the running function body -/
def NoFire (pan : List Nat) (r : Run) : Prop := r.efDefer = true → ∀ e, r.deferOfFun = some e → e ∉ pan

def Good3 (pan : List Nat) (s s' : St) (pairOK : Prop) : Prop :=
  Inv pan s' ∧ s.nextEnv ≤ s'.nextEnv ∧ (pairOK → Pair s.run s'.run)

theorem Good3.refl (pan : List Nat) (s : St) (h : Inv pan s) (p : Prop) : Good3 pan s s p :=
  ⟨h, Nat.le_refl _, fun _ => Pair.refl _⟩

theorem Good3.trans {pan : List Nat} {a b c : St} {p q : Prop} (h1 : Good3 pan a b p) (h2 : Good3 pan b c q)
    (hq : p → q) : Good3 pan a c p :=
  ⟨h2.1, Nat.le_trans h1.2.1 h2.2.1, fun hp => Pair.trans (h1.2.2 hp) (h2.2.2 (hq hp))⟩

theorem inv_of_intr {pan : List Nat} {s : St} (h : Inv pan s) (i : Intr) :
    Inv pan { s with run := { s.run with interrupt := i } } := h

theorem recoverOp_good (pan : List Nat) (s : St) (h : Inv pan s) :
    Good3 pan s (recoverOp s) (NoFire pan s.run) := by
  unfold recoverOp
  simp only
  split
  · exact ⟨h, Nat.le_refl _, fun _ => Pair.refl _⟩
  · rename_i hd
    split
    · exact ⟨h, Nat.le_refl _, fun _ => Pair.refl _⟩
    · rename_i pf hpf
      split
      · exact ⟨h, Nat.le_refl _, fun _ => Pair.refl _⟩
      · rename_i hne
        refine ⟨⟨fun e he => by simp at he, h.2⟩, Nat.le_refl _, fun hnf => ?_⟩
        exfalso
        have hd' : s.run.efDefer = true := by simpa using hd
        have : s.run.deferOfFun = some pf := by simpa using hne
        exact hnf hd' pf this (h.1 pf hpf)

def Inv' (pan : List Nat) (funenv : Nat) (o : Out) (s : St) : Prop :=
  (∀ e, s.run.panicFun = some e → e ∈ pan ∨ (e = funenv ∧ o ≠ .ok)) ∧ (∀ e ∈ pan, e < s.nextEnv)

def DPost (pan : List Nat) (funenv : Nat) (sv : Option (Option Nat × Option Nat)) (s : St)
    (r : Out × Option (Option Nat × Option Nat) × St) : Prop :=
  Inv' pan funenv r.1 r.2.2 ∧ s.nextEnv ≤ r.2.2.nextEnv ∧
  (match sv with
   | some p => r.2.1 = some p
   | none => match r.2.1 with
     | none => Pair s.run r.2.2.run
     | some p => p = (s.run.panicFun, s.run.panicVal))

abbrev CallCond (pan : List Nat) (r : Run) : Prop := r.efStart = true → ∀ e, r.deferOfFun = some e → e ∉ pan

theorem after_adv3 (P : Prog) (fuel k : Nat) (rest : List Op) (a : Act) (pan : List Nat) (s s0 : St)
    (h : ∀ a' s', Inv pan s' → s'.run.efStart = false → Good3 pan s' (runOps P fuel rest a' s').2.2 (NoFire pan s'.run))
    (hg : Good3 pan s s0 (NoFire pan s.run)) (hb : Bal s.run s0.run) (hs : s.run.efStart = false) :
    Good3 pan s (match advance P.U k a s0 with | (a1, s1) => runOps P fuel rest a1 s1).2.2 (NoFire pan s.run) := by
  obtain ⟨i, hi⟩ := advance_frame P.U k a s0
  rcases hadv : advance P.U k a s0 with ⟨a1, s1⟩
  rw [hadv] at hi
  simp only at hi ⊢
  subst hi
  have h2 := h a1 { s0 with run := { s0.run with interrupt := i } } hg.1 (hb.2.2 hs)
  refine Good3.trans hg h2 ?_
  intro hnf hd e he
  exact hnf (hb.1 ▸ hd) e (hb.2.1 ▸ he)

theorem after_round3 (P : Prog) (fuel : Nat) (rest : List Op) (a : Act) (pan : List Nat) (s s0 : St)
    (h : ∀ a' s', Inv pan s' → s'.run.efStart = false → Good3 pan s' (runOps P fuel rest a' s').2.2 (NoFire pan s'.run))
    (hg : Good3 pan s s0 (NoFire pan s.run)) (hb : Bal s.run s0.run) (hs : s.run.efStart = false) :
    Good3 pan s (match nextRound P.U a s0 with | (a1, s1) => runOps P fuel rest a1 s1).2.2 (NoFire pan s.run) := by
  obtain ⟨i, hi⟩ := nextRound_frame P.U a s0
  rcases hadv : nextRound P.U a s0 with ⟨a1, s1⟩
  rw [hadv] at hi
  simp only at hi ⊢
  subst hi
  have h2 := h a1 { s0 with run := { s0.run with interrupt := i } } hg.1 (hb.2.2 hs)
  refine Good3.trans hg h2 ?_
  intro hnf hd e he
  exact hnf (hb.1 ▸ hd) e (hb.2.1 ▸ he)


def afterOk (o2 : Out) : Out := match o2 with | .panic v2 => .panic v2 | .ok => .ok
def afterPanic (o2 : Out) (r : Run) : Out :=
  match o2 with
  | .panic v2 => .panic v2
  | .ok => if r.panicFun.isSome then .panic (r.panicVal.getD 0) else .ok
/-- popDefer -/
def popD (s1 s : St) : St :=
  { s1 with run := { s1.run with deferOfFun := s.run.deferOfFun, efStart := false, efDefer := s.run.efDefer } }
def pushOk (funenv : Nat) (s : St) : St := { s with run := { s.run with deferOfFun := some funenv, efStart := true } }
def pushPanic (funenv v : Nat) (s : St) : St :=
  { s with run := { s.run with panicVal := some v, panicFun := some funenv, deferOfFun := some funenv, efStart := true } }
def svNext (sv : Option (Option Nat × Option Nat)) (s : St) : Option (Option Nat × Option Nat) :=
  if sv.isNone then some (s.run.panicFun, s.run.panicVal) else sv

theorem runDefers_cons_ok (P : Prog) (fuel funenv f : Nat) (ds : List Nat) (sv : Option (Option Nat × Option Nat)) (s : St) :
    runDefers P (fuel + 1) funenv (f :: ds) .ok sv s =
      runDefers P fuel funenv ds (afterOk (callFn P fuel f (pushOk funenv s)).1) sv
        (popD (callFn P fuel f (pushOk funenv s)).2 s) := by
  rw [runDefers.eq_def]
  simp only [Bool.false_and, Bool.false_eq_true, if_false, pushOk, popD, afterOk]
  rcases callFn P fuel f { s with run := { s.run with deferOfFun := some funenv, efStart := true } } with ⟨o2, s1⟩
  cases o2 <;> rfl

theorem runDefers_cons_panic (P : Prog) (hfix : P.savesPanic = true) (fuel funenv f v : Nat) (ds : List Nat)
    (sv : Option (Option Nat × Option Nat)) (s : St) :
    runDefers P (fuel + 1) funenv (f :: ds) (.panic v) sv s =
      runDefers P fuel funenv ds
        (afterPanic (callFn P fuel f (pushPanic funenv v s)).1 (callFn P fuel f (pushPanic funenv v s)).2.run)
        (svNext sv s) (popD (callFn P fuel f (pushPanic funenv v s)).2 s) := by
  rw [runDefers.eq_def]
  simp only [hfix, Bool.true_and, Bool.and_true, if_true, pushPanic, popD, afterPanic, svNext]
  rfl

theorem pair_all (P : Prog) (hfix : P.savesPanic = true) : ∀ fuel,
    (∀ pan ops a s, Inv pan s → s.run.efStart = false →
      Good3 pan s (runOps P fuel ops a s).2.2 (NoFire pan s.run)) ∧
    (∀ pan f s, Inv pan s → Good3 pan s (callFn P fuel f s).2 (CallCond pan s.run)) ∧
    (∀ pan f env s, Inv pan s → env ∉ pan → env < s.nextEnv →
      Good3 pan s (execFn P fuel f env s).2 (CallCond pan s.run)) ∧
    (∀ pan funenv ds o sv s, funenv ∉ pan → funenv < s.nextEnv → Inv' pan funenv o s →
      DPost pan funenv sv s (runDefers P fuel funenv ds o sv s)) := by
  intro fuel
  induction fuel with
  | zero =>
    refine ⟨?_, ?_, ?_, ?_⟩
    · intro pan ops a s hi _; simp only [runOps]; exact Good3.refl pan s hi _
    · intro pan f s hi; simp only [callFn]; exact Good3.refl pan s hi _
    · intro pan f env s hi _ _; simp only [execFn]; exact Good3.refl pan s hi _
    · intro pan funenv ds o sv s _ _ hi
      simp only [runDefers]
      refine ⟨⟨fun e he => Or.elim (hi.1 e he) Or.inl (fun h => Or.inr ⟨h.1, by simp [noFuel]⟩), hi.2⟩, Nat.le_refl _, ?_⟩
      cases sv <;> simp [Pair]
  | succ fuel ih =>
    obtain ⟨ihO, ihC, ihE, ihD⟩ := ih
    have fr := frame_all P fuel
    refine ⟨?_, ?_, ?_, ?_⟩
    · -- runOps
      intro pan ops a s hi hs
      cases ops with
      | nil =>
        simp only [runOps]
        split <;> exact ⟨hi, Nat.le_refl _, fun _ => ⟨rfl, rfl⟩⟩
      | cons op rest =>
        cases op with
        | pad k =>
          simp only [runOps]
          exact after_adv3 P fuel k rest a pan s s (ihO pan rest) (Good3.refl pan s hi _) (Bal.refl _) hs
        | hook =>
          simp only [runOps]
          split
          · exact ⟨hi, Nat.le_refl _, fun _ => ⟨rfl, rfl⟩⟩
          · exact after_adv3 P fuel 1 rest a pan s _ (ihO pan rest) ⟨hi, Nat.le_refl _, fun _ => ⟨rfl, rfl⟩⟩ ⟨rfl, rfl, id⟩ hs
        | panic v => simp only [runOps]; exact Good3.refl pan s hi _
        | recover =>
          simp only [runOps]
          exact after_adv3 P fuel 1 rest a pan s _ (ihO pan rest) (recoverOp_good pan s hi) (recoverOp_bal s) hs
        | call f =>
          simp only [runOps]
          have hc := ihC pan f s hi
          have hb := fr.2.1 f s
          rcases hcf : callFn P fuel f s with ⟨o, s1⟩
          rw [hcf] at hc hb
          have hc' : Good3 pan s s1 (NoFire pan s.run) :=
            ⟨hc.1, hc.2.1, fun _ => hc.2.2 (fun h => by rw [hs] at h; cases h)⟩
          cases o with
          | ok => exact after_adv3 P fuel 1 rest a pan s s1 (ihO pan rest) hc' hb hs
          | panic v => exact hc'
        | try_ f =>
          simp only [runOps]
          have hc := ihC pan f s hi
          have hb := fr.2.1 f s
          rcases hcf : callFn P fuel f s with ⟨o, s1⟩
          rw [hcf] at hc hb
          have hc' : Good3 pan s s1 (NoFire pan s.run) :=
            ⟨hc.1, hc.2.1, fun _ => hc.2.2 (fun h => by rw [hs] at h; cases h)⟩
          cases o with
          | ok =>
            exact after_adv3 P fuel 1 rest a pan s { s1 with log := 0 :: s1.log } (ihO pan rest) hc' hb hs
          | panic v =>
            exact after_adv3 P fuel 1 rest a pan s { s1 with log := v :: s1.log } (ihO pan rest) hc' hb hs
        | dfr f =>
          simp only [runOps]
          split
          · exact Good3.refl pan s hi _
          · split
            · exact ihO pan rest _ s hi hs
            · exact after_round3 P fuel rest _ pan s s (ihO pan rest) (Good3.refl pan s hi _) (Bal.refl _) hs
    · -- callFn
      intro pan f s hi
      simp only [callFn]
      have hnew : s.nextEnv ∉ pan := fun hm => Nat.lt_irrefl _ (hi.2 _ hm)
      have he := ihE pan f s.nextEnv { s with nextEnv := s.nextEnv + 1, run := { s.run with currEnv := some s.nextEnv } }
        ⟨hi.1, fun e he => Nat.lt_succ_of_lt (hi.2 e he)⟩ hnew (Nat.lt_succ_self _)
      rcases hef : execFn P fuel f s.nextEnv { s with nextEnv := s.nextEnv + 1, run := { s.run with currEnv := some s.nextEnv } } with ⟨o, s1⟩
      rw [hef] at he
      simp only at he
      cases o with
      | ok => exact ⟨⟨he.1.1, he.1.2⟩, Nat.le_trans (Nat.le_succ _) he.2.1, fun hc => ⟨(he.2.2 hc).1, (he.2.2 hc).2⟩⟩
      | panic v => exact ⟨he.1, Nat.le_trans (Nat.le_succ _) he.2.1, he.2.2⟩
    · -- execFn
      intro pan f env s hi henv hlt
      simp only [execFn]
      split
      · -- reExecWithFlags
        have hO := ihO pan (P.body f) { env := env, flags := true }
          { s with run := { s.run with sync := .none, efDefer := s.run.efStart, efStart := false, interrupt := .nil, efDebug := s.run.sigDebug }, atc := s.atc || s.run.sigDebug } hi rfl
        rcases hro : runOps P fuel (P.body f) { env := env, flags := true }
          { s with run := { s.run with sync := .none, efDefer := s.run.efStart, efStart := false, interrupt := .nil, efDebug := s.run.sigDebug }, atc := s.atc || s.run.sigDebug } with ⟨o, a1, s1⟩
        rw [hro] at hO
        simp only at hO
        have hD := ihD pan env a1.defers o none s1 henv (Nat.lt_of_lt_of_le hlt hO.2.1)
          ⟨fun e he => Or.inl (hO.1.1 e he), hO.1.2⟩
        rcases hrd : runDefers P fuel env a1.defers o none s1 with ⟨o2, sv2, s2⟩
        rw [hrd] at hD
        obtain ⟨hI, hM, hP⟩ := hD
        simp only at hI hM hP
        cases sv2 with
        | none =>
          simp only at hP ⊢
          refine ⟨⟨?_, hI.2⟩, Nat.le_trans hO.2.1 hM, fun hc => ?_⟩
          · intro e he
            have : s1.run.panicFun = some e := by rw [← hP.1]; exact he
            exact hO.1.1 e this
          · have hp1 := hO.2.2 (fun hd e he => hc hd e he)
            exact ⟨hP.1.trans hp1.1, hP.2.trans hp1.2⟩
        | some p =>
          simp only at hP ⊢
          subst hP
          refine ⟨⟨fun e he => hO.1.1 e he, hI.2⟩, Nat.le_trans hO.2.1 hM, fun hc => ?_⟩
          have hp1 := hO.2.2 (fun hd e he => hc hd e he)
          exact ⟨hp1.1, hp1.2⟩
      · rename_i hcnd
        have hs : s.run.efStart = false := by
          cases h : s.run.efStart
          · rfl
          · simp [h] at hcnd
        have hd : s.run.efDefer = false := by
          cases h : s.run.efDefer
          · rfl
          · simp [h] at hcnd
        have hO := ihO pan (P.body f) { env := env, flags := false }
          { s with run := { s.run with sync := .none, interrupt := .nil }, atc := s.atc || s.run.sigDebug } hi hs
        rcases hro : runOps P fuel (P.body f) { env := env, flags := false }
          { s with run := { s.run with sync := .none, interrupt := .nil }, atc := s.atc || s.run.sigDebug } with ⟨o, a1, s1⟩
        rw [hro] at hO
        simp only at hO
        have hnf : NoFire pan s.run := fun h => by rw [hd] at h; cases h
        cases o with
        | ok => exact ⟨hO.1, hO.2.1, fun _ => ⟨(hO.2.2 hnf).1, (hO.2.2 hnf).2⟩⟩
        | panic v => exact ⟨hO.1, hO.2.1, fun _ => hO.2.2 hnf⟩
    · -- runDefers
      intro pan funenv ds o sv s hfe hlt hi
      cases ds with
      | nil =>
        simp only [runDefers]
        refine ⟨hi, Nat.le_refl _, ?_⟩
        cases sv <;> simp [Pair]
      | cons f ds =>
        cases o with
        | ok =>
          rw [runDefers_cons_ok]
          have hinv : Inv pan (pushOk funenv s) :=
            ⟨fun e he => (hi.1 e he).elim id (fun h => absurd rfl h.2), hi.2⟩
          have hc := ihC pan f _ hinv
          have hpair := hc.2.2 (fun _ e he => by simp [pushOk] at he; rw [← he]; exact hfe)
          have hnext := ihD pan funenv ds (afterOk (callFn P fuel f (pushOk funenv s)).1) sv
            (popD (callFn P fuel f (pushOk funenv s)).2 s)
            hfe (Nat.lt_of_lt_of_le hlt hc.2.1) ⟨fun e he => Or.inl (hc.1.1 e he), hc.1.2⟩
          generalize runDefers P fuel funenv ds (afterOk (callFn P fuel f (pushOk funenv s)).1) sv
            (popD (callFn P fuel f (pushOk funenv s)).2 s) = res at hnext ⊢
          obtain ⟨o3, sv3, s3⟩ := res
          obtain ⟨hI, hM, hP⟩ := hnext
          refine ⟨hI, Nat.le_trans hc.2.1 hM, ?_⟩
          have hp0 : Pair s.run (popD (callFn P fuel f (pushOk funenv s)).2 s).run := ⟨hpair.1, hpair.2⟩
          cases sv with
          | some p => exact hP
          | none =>
            cases sv3 with
            | none => exact ⟨hP.1.trans hp0.1, hP.2.trans hp0.2⟩
            | some p3 =>
              simp only at hP ⊢
              rw [hP]
              exact Prod.ext hp0.1 hp0.2
        | panic v =>
          rw [runDefers_cons_panic P hfix]
          have hinv : Inv (funenv :: pan) (pushPanic funenv v s) :=
            ⟨fun e he => by simp [pushPanic] at he; simp [he], fun e he => by
              simp at he; rcases he with he | he
              · rw [he]; exact hlt
              · exact hi.2 e he⟩
          have hc := ihC (funenv :: pan) f _ hinv
          have hI' : Inv' pan funenv
              (afterPanic (callFn P fuel f (pushPanic funenv v s)).1 (callFn P fuel f (pushPanic funenv v s)).2.run)
              (popD (callFn P fuel f (pushPanic funenv v s)).2 s) := by
            refine ⟨fun e he => ?_, fun e he => hc.1.2 e (List.mem_cons_of_mem _ he)⟩
            have he' : (callFn P fuel f (pushPanic funenv v s)).2.run.panicFun = some e := he
            have hm := hc.1.1 e he'
            simp at hm
            rcases hm with hm | hm
            · right
              refine ⟨hm, ?_⟩
              unfold afterPanic
              cases (callFn P fuel f (pushPanic funenv v s)).1 with
              | panic v2 => simp
              | ok => simp [he']
            · exact Or.inl hm
          have hnext := ihD pan funenv ds
            (afterPanic (callFn P fuel f (pushPanic funenv v s)).1 (callFn P fuel f (pushPanic funenv v s)).2.run)
            (svNext sv s) (popD (callFn P fuel f (pushPanic funenv v s)).2 s) hfe (Nat.lt_of_lt_of_le hlt hc.2.1) hI'
          generalize runDefers P fuel funenv ds
            (afterPanic (callFn P fuel f (pushPanic funenv v s)).1 (callFn P fuel f (pushPanic funenv v s)).2.run)
            (svNext sv s) (popD (callFn P fuel f (pushPanic funenv v s)).2 s) = res at hnext ⊢
          obtain ⟨o3, sv3, s3⟩ := res
          obtain ⟨hI, hM, hP⟩ := hnext
          refine ⟨hI, Nat.le_trans hc.2.1 hM, ?_⟩
          cases sv with
          | some p => simpa [svNext] using hP
          | none =>
            simp only [svNext, Option.isNone_none, if_true] at hP
            simp only at hP ⊢
            rw [hP]



/-- the debugger mode: `Signals.Debug` and `DebugDepth` as found, `EFDebug` equal to `Signals.Debug` if it was -/
def Dbg (r r' : Run) : Prop :=
  r'.sigDebug = r.sigDebug ∧ r'.debugDepth = r.debugDepth ∧ (r.efDebug = r.sigDebug → r'.efDebug = r.sigDebug)

theorem Dbg.refl (r : Run) : Dbg r r := ⟨rfl, rfl, id⟩

theorem Dbg.trans {a b c : Run} (h1 : Dbg a b) (h2 : Dbg b c) : Dbg a c :=
  ⟨h2.1.trans h1.1, h2.2.1.trans h1.2.1, fun h => (h2.2.2 ((h1.2.2 h).trans h1.1.symm)).trans h1.1⟩

theorem dbg_of_intr (s : St) (i : Intr) : Dbg s.run ({ s with run := { s.run with interrupt := i } } : St).run :=
  ⟨rfl, rfl, id⟩

theorem recoverOp_dbg (s : St) : Dbg s.run (recoverOp s).run := by
  unfold recoverOp
  simp only
  split
  · exact Dbg.refl _
  · split
    · exact Dbg.refl _
    · split
      · exact Dbg.refl _
      · exact ⟨rfl, rfl, id⟩

theorem after_adv_dbg (P : Prog) (fuel k : Nat) (rest : List Op) (a : Act) (s s0 : St)
    (h : ∀ a' s', Dbg s'.run (runOps P fuel rest a' s').2.2.run) (hb : Dbg s.run s0.run) :
    Dbg s.run (match advance P.U k a s0 with | (a1, s1) => runOps P fuel rest a1 s1).2.2.run := by
  obtain ⟨i, hi⟩ := advance_frame P.U k a s0
  rcases hadv : advance P.U k a s0 with ⟨a1, s1⟩
  rw [hadv] at hi
  simp only at hi ⊢
  subst hi
  exact Dbg.trans hb (Dbg.trans (dbg_of_intr s0 i) (h _ _))

theorem after_round_dbg (P : Prog) (fuel : Nat) (rest : List Op) (a : Act) (s s0 : St)
    (h : ∀ a' s', Dbg s'.run (runOps P fuel rest a' s').2.2.run) (hb : Dbg s.run s0.run) :
    Dbg s.run (match nextRound P.U a s0 with | (a1, s1) => runOps P fuel rest a1 s1).2.2.run := by
  obtain ⟨i, hi⟩ := nextRound_frame P.U a s0
  rcases hadv : nextRound P.U a s0 with ⟨a1, s1⟩
  rw [hadv] at hi
  simp only at hi ⊢
  subst hi
  exact Dbg.trans hb (Dbg.trans (dbg_of_intr s0 i) (h _ _))

/-- nothing that runs inside an evaluation changes the debugger mode (`Signals.Debug`, `DebugDepth`; `EFDebug`
    follows `Signals.Debug`): the scripted debugger keeps answering "step", breakpoints are not modelled -/
theorem debug_all (P : Prog) : ∀ fuel,
    (∀ ops a s, Dbg s.run (runOps P fuel ops a s).2.2.run) ∧
    (∀ f s, Dbg s.run (callFn P fuel f s).2.run) ∧
    (∀ f env s, Dbg s.run (execFn P fuel f env s).2.run) ∧
    (∀ funenv ds o sv s, Dbg s.run (runDefers P fuel funenv ds o sv s).2.2.run) := by
  intro fuel
  induction fuel with
  | zero =>
    refine ⟨?_, ?_, ?_, ?_⟩ <;> intros <;> simp only [runOps, callFn, execFn, runDefers] <;> exact Dbg.refl _
  | succ fuel ih =>
    obtain ⟨ihO, ihC, ihE, ihD⟩ := ih
    refine ⟨?_, ?_, ?_, ?_⟩
    · intro ops a s
      cases ops with
      | nil => simp only [runOps]; split <;> exact ⟨rfl, rfl, id⟩
      | cons op rest =>
        cases op with
        | pad k => simp only [runOps]; exact after_adv_dbg P fuel k rest a s s (ihO rest) (Dbg.refl _)
        | hook =>
          simp only [runOps]
          split
          · exact ⟨rfl, rfl, id⟩
          · exact after_adv_dbg P fuel 1 rest a s _ (ihO rest) ⟨rfl, rfl, id⟩
        | panic v => simp only [runOps]; exact Dbg.refl _
        | recover => simp only [runOps]; exact after_adv_dbg P fuel 1 rest a s _ (ihO rest) (recoverOp_dbg s)
        | call f =>
          simp only [runOps]
          have hc := ihC f s
          rcases hcf : callFn P fuel f s with ⟨o, s1⟩
          rw [hcf] at hc
          cases o with
          | ok => exact after_adv_dbg P fuel 1 rest a s s1 (ihO rest) hc
          | panic v => exact hc
        | try_ f =>
          simp only [runOps]
          have hc := ihC f s
          rcases hcf : callFn P fuel f s with ⟨o, s1⟩
          rw [hcf] at hc
          cases o with
          | ok => exact after_adv_dbg P fuel 1 rest a s _ (ihO rest) hc
          | panic v => exact after_adv_dbg P fuel 1 rest a s _ (ihO rest) hc
        | dfr f =>
          simp only [runOps]
          split
          · exact Dbg.refl _
          · split
            · exact ihO rest _ s
            · exact after_round_dbg P fuel rest _ s s (ihO rest) (Dbg.refl _)
    · intro f s
      simp only [callFn]
      have he := ihE f s.nextEnv { s with nextEnv := s.nextEnv + 1, run := { s.run with currEnv := some s.nextEnv } }
      rcases hef : execFn P fuel f s.nextEnv { s with nextEnv := s.nextEnv + 1, run := { s.run with currEnv := some s.nextEnv } } with ⟨o, s1⟩
      rw [hef] at he
      cases o with
      | ok => exact ⟨he.1, he.2.1, he.2.2⟩
      | panic v => exact he
    · intro f env s
      simp only [execFn]
      split
      · -- reExecWithFlags
        rcases hro : runOps P fuel (P.body f) { env := env, flags := true }
          { s with run := { s.run with sync := .none, efDefer := s.run.efStart, efStart := false, interrupt := .nil, efDebug := s.run.sigDebug }, atc := s.atc || s.run.sigDebug } with ⟨o, a1, s1⟩
        have h1 := ihO (P.body f) { env := env, flags := true }
          { s with run := { s.run with sync := .none, efDefer := s.run.efStart, efStart := false, interrupt := .nil, efDebug := s.run.sigDebug }, atc := s.atc || s.run.sigDebug }
        rw [hro] at h1
        have h2 := ihD env a1.defers o none s1
        rcases hrd : runDefers P fuel env a1.defers o none s1 with ⟨o2, sv2, s2⟩
        rw [hrd] at h2
        obtain ⟨h1a, h1b, h1c⟩ := h1
        obtain ⟨h2a, h2b, h2c⟩ := h2
        have e1 : s1.run.efDebug = s1.run.sigDebug := (h1c rfl).trans h1a.symm
        cases sv2 with
        | none => exact ⟨h2a.trans h1a, h2b.trans h1b, fun _ => (h2c e1).trans h1a⟩
        | some pp => exact ⟨h2a.trans h1a, h2b.trans h1b, fun _ => (h2c e1).trans h1a⟩
      · rcases hro : runOps P fuel (P.body f) { env := env, flags := false }
          { s with run := { s.run with sync := .none, interrupt := .nil }, atc := s.atc || s.run.sigDebug } with ⟨o, a1, s1⟩
        have h1 := ihO (P.body f) { env := env, flags := false } { s with run := { s.run with sync := .none, interrupt := .nil }, atc := s.atc || s.run.sigDebug }
        rw [hro] at h1
        cases o with
        | ok => exact ⟨h1.1, h1.2.1, h1.2.2⟩
        | panic v => exact h1
    · intro funenv ds o sv s
      cases ds with
      | nil => simp only [runDefers]; exact Dbg.refl _
      | cons f ds =>
        rw [runDefers.eq_def]
        cases o with
        | ok =>
          simp only
          rcases hcf : callFn P fuel f _ with ⟨o2, s1⟩
          have hc : Dbg s.run s1.run := by
            have h := congrArg (fun r => r.2.run) hcf
            simp only at h
            rw [← h]
            exact ihC f _
          simp only at hc ⊢
          refine Dbg.trans ?_ (ihD funenv ds _ _ _)
          exact ⟨hc.1, hc.2.1, hc.2.2⟩
        | panic v =>
          simp only
          rcases hcf : callFn P fuel f _ with ⟨o2, s1⟩
          have hc : Dbg s.run s1.run := by
            have h := congrArg (fun r => r.2.run) hcf
            simp only at h
            rw [← h]
            exact ihC f _
          simp only at hc ⊢
          refine Dbg.trans ?_ (ihD funenv ds _ _ _)
          exact ⟨hc.1, hc.2.1, hc.2.2⟩



end Restore
