import Proofs.DepDet
/-! The graph built by `Sorter.popDecls` is well-formed. -/
namespace Dep
open DepScope (Name Kind Decl)

theorem addEdges_nodup (ds es : List Name) (h : es.Nodup) : (addEdges es ds).Nodup := by
  induction ds generalizing es with
  | nil => exact h
  | cons d r ih =>
    simp only [addEdges]
    apply ih
    split
    · exact h
    · rename_i hc
      have : d ∉ es := by simpa using hc
      exact List.nodup_append.mpr ⟨h, by simp, by
        intro a ha b hb
        have : b = d := by simpa using hb
        subst this
        intro hab; subst hab; exact this ha⟩

/-- the entries of `addDecl d g` -/
theorem mem_addDecl {d : Decl} {g : Graph} {e' : Entry} (h : e' ∈ addDecl d g) :
    e' ∈ g ∨
    (∃ e ∈ g, e.name = d.name ∧ e' = { e with decls := e.decls ++ [d], edges := addEdges e.edges d.deps }) ∨
    e' = { name := d.name, decls := [d], edges := addEdges [] d.deps } := by
  induction g with
  | nil =>
    right; right
    simpa [addDecl] using h
  | cons a r ih =>
    simp only [addDecl] at h
    split at h
    · rename_i hname
      rcases List.mem_cons.mp h with h | h
      · right; left; exact ⟨a, List.mem_cons_self, hname, h⟩
      · left; exact List.mem_cons_of_mem _ h
    · rcases List.mem_cons.mp h with h | h
      · left; subst h; exact List.mem_cons_self
      · rcases ih h with h1 | ⟨e, he, h2⟩ | h4
        · left; exact List.mem_cons_of_mem _ h1
        · right; left; exact ⟨e, List.mem_cons_of_mem _ he, h2⟩
        · right; right; exact h4

theorem names_addDecl (d : Decl) (g : Graph) :
    names (addDecl d g) = if d.name ∈ names g then names g else names g ++ [d.name] := by
  induction g with
  | nil => simp [addDecl, names]
  | cons a r ih =>
    simp only [addDecl]
    by_cases hname : a.name = d.name
    · simp [hname, names]
    · have hne : d.name ≠ a.name := fun h => hname h.symm
      simp only [hname, if_false]
      have : names (a :: addDecl d r) = a.name :: names (addDecl d r) := rfl
      rw [this, ih]
      have hmem : d.name ∈ names (a :: r) ↔ d.name ∈ names r := by
        show d.name ∈ a.name :: names r ↔ _
        simp [hne]
      by_cases hm : d.name ∈ names r
      · rw [if_pos hm, if_pos (hmem.mpr hm)]; rfl
      · rw [if_neg hm, if_neg (fun h => hm (hmem.mp h))]; rfl

theorem allDecls_addDecl (d : Decl) (g : Graph) : (allDecls (addDecl d g)).Perm (allDecls g ++ [d]) := by
  induction g with
  | nil => simp [addDecl, allDecls]
  | cons a r ih =>
    simp only [addDecl]
    split
    · simp only [allDecls, List.flatMap_cons]
      rw [List.append_assoc, List.append_assoc]
      exact List.Perm.append_left _ List.perm_append_comm
    · simp only [allDecls, List.flatMap_cons] at ih ⊢
      rw [List.append_assoc]
      exact List.Perm.append_left _ ih

/-- well-formed, and every position is below the bound -/
def BW (g : Graph) (bound : Nat) : Prop := WF g ∧ ∀ d ∈ allDecls g, d.pos < bound

theorem BW.addDecl {g : Graph} {bound : Nat} (h : BW g bound) (d : Decl) (hd : bound ≤ d.pos) :
    BW (addDecl d g) (d.pos + 1) := by
  obtain ⟨hwf, hb⟩ := h
  have hperm := allDecls_addDecl d g
  have entry : ∀ e' ∈ Dep.addDecl d g,
      e'.decls ≠ [] ∧ e'.decls.Pairwise (fun a b => a.pos < b.pos) ∧ (∀ x ∈ e'.decls, x.name = e'.name) ∧ e'.edges.Nodup := by
    intro e' he'
    rcases mem_addDecl he' with h1 | ⟨e, he, hn, rfl⟩ | rfl
    · exact ⟨hwf.nonempty _ h1, hwf.ascending _ h1, hwf.decl_name _ h1, hwf.edges_nodup _ h1⟩
    · refine ⟨by simp, ?_, ?_, addEdges_nodup _ _ (hwf.edges_nodup e he)⟩
      · apply List.pairwise_append.mpr
        refine ⟨hwf.ascending e he, by simp, ?_⟩
        intro a ha b hb'
        have : b = d := by simpa using hb'
        subst this
        have := hb a (mem_allDecls.mpr ⟨e, he, ha⟩)
        omega
      · intro x hx
        rcases List.mem_append.mp hx with hx | hx
        · exact hwf.decl_name e he x hx
        · have : x = d := by simpa using hx
          rw [this]; exact hn.symm
    · exact ⟨by simp, by simp, by simp, addEdges_nodup _ _ List.nodup_nil⟩
  refine ⟨⟨?_, ?_, fun e he => (entry e he).1, fun e he => (entry e he).2.1,
    fun e he => (entry e he).2.2.1, fun e he => (entry e he).2.2.2⟩, ?_⟩
  · rw [names_addDecl]
    split
    · exact hwf.names_nodup
    · rename_i hm
      exact List.nodup_append.mpr ⟨hwf.names_nodup, by simp, by
        intro a ha b hb'
        have : b = d.name := by simpa using hb'
        subst this
        intro hab; subst hab; exact hm ha⟩
  · intro a ha b hb' hab
    have ha' := List.mem_append.mp (hperm.mem_iff.mp ha)
    have hb'' := List.mem_append.mp (hperm.mem_iff.mp hb')
    rcases ha' with ha' | ha' <;> rcases hb'' with hb'' | hb''
    · exact hwf.pos_inj a ha' b hb'' hab
    · have : b = d := by simpa using hb''
      subst this; have := hb a ha'; omega
    · have : a = d := by simpa using ha'
      subst this; have := hb b hb''; omega
    · have h1 : a = d := by simpa using ha'
      have h2 : b = d := by simpa using hb''
      rw [h1, h2]
  · intro x hx
    rcases List.mem_append.mp (hperm.mem_iff.mp hx) with hx | hx
    · have := hb x hx; omega
    · have : x = d := by simpa using hx
      subst this; omega

theorem BW.nil : BW [] 0 := by
  refine ⟨⟨?_, ?_, ?_, ?_, ?_, ?_⟩, ?_⟩
  · simp [names]
  · intro a ha; cases ha
  · intro e he; cases he
  · intro e he; cases he
  · intro e he; cases he
  · intro e he; cases he
  · intro d hd; cases hd

/-- declarations in creation order: ascending positions -/
def GoodDecls (ds : List Decl) : Prop := ds.Pairwise (fun a b => a.pos < b.pos)

theorem build_foldl_bw (ds : List Decl) (g : Graph) (bound : Nat) (h : BW g bound)
    (hasc : ds.Pairwise (fun a b => a.pos < b.pos)) (hb : ∀ d ∈ ds, bound ≤ d.pos) :
    ∃ b', BW (ds.foldl (fun g d => addDecl d g) g) b' := by
  induction ds generalizing g bound with
  | nil => exact ⟨bound, h⟩
  | cons d r ih =>
    simp only [List.foldl_cons]
    have hasc' := List.pairwise_cons.mp hasc
    apply ih _ (d.pos + 1) (h.addDecl d (hb d List.mem_cons_self)) hasc'.2
    intro x hx; have := hasc'.1 x hx; omega

/-- the graph `Sorter.popDecls` builds is well-formed -/
theorem build_wf {ds : List Decl} (h : GoodDecls ds) : WF (build (resolve ds)) := by
  have hres : GoodDecls (resolve ds) := by
    unfold resolve
    exact List.pairwise_map.mpr (List.Pairwise.imp (fun hab => hab) h)
  obtain ⟨b, hb⟩ := build_foldl_bw (resolve ds) [] 0 BW.nil hres (fun _ _ => Nat.zero_le _)
  exact hb.1

end Dep
