import Model.C01Arms
import Model.C01Prologue
import Gen.C01Binary
import Gen.C01BinaryEqlneq
import Gen.C01BinaryOps
import Gen.C01BinaryRelops
import Gen.C01BinaryShifts
import Gen.C01Compile
import Gen.C01Identifier
import Gen.C01Literal
import Gen.C01Unary
import Gen.C01UnaryOps
import Gen.C01Util
/-! # Table obligations of C01: every table regenerated from the Go source equals the expected
table (arm templates instantiated at every kind / the transcribed prologue), by kernel evaluation,
one obligation per Go function. -/
namespace C01Tables
open ClosureIR C01Arms
set_option maxRecDepth 100000

theorem table_binaryops_add : Gen.C01BinaryOps.add = binTable addFn := by decide +kernel
theorem table_binaryops_sub : Gen.C01BinaryOps.sub = binTable subFn := by decide +kernel
theorem table_binaryops_mul : Gen.C01BinaryOps.mul = binTable mulFn := by decide +kernel
theorem table_binaryops_quo : Gen.C01BinaryOps.quo = binTable quoFn := by decide +kernel
theorem table_binaryops_rem : Gen.C01BinaryOps.rem = binTable remFn := by decide +kernel
theorem table_binaryops_and : Gen.C01BinaryOps.and = binTable andFn := by decide +kernel
theorem table_binaryops_or : Gen.C01BinaryOps.or = binTable orFn := by decide +kernel
theorem table_binaryops_xor : Gen.C01BinaryOps.xor = binTable xorFn := by decide +kernel
theorem table_binaryops_andnot : Gen.C01BinaryOps.andnot = binTable andnotFn := by decide +kernel
theorem table_binaryops_mulPow2 : Gen.C01BinaryOps.mulPow2 = mulPow2Table := by decide +kernel
theorem table_binaryops_quoPow2 : Gen.C01BinaryOps.quoPow2 = quoPow2Table := by decide +kernel
theorem table_binaryops_remPow2 : Gen.C01BinaryOps.remPow2 = remPow2Table := by decide +kernel
theorem table_binaryops_exprZero : Gen.C01BinaryOps.exprZero = exprZeroTable := by decide +kernel
theorem table_binaryshifts_shl : Gen.C01BinaryShifts.shl = shiftTable "Shl" .shl := by decide +kernel
theorem table_binaryshifts_shr : Gen.C01BinaryShifts.shr = shiftTable "Shr" .shr := by decide +kernel
theorem table_binaryrelops_lss : Gen.C01BinaryRelops.lss = binTable lssFn := by decide +kernel
theorem table_binaryrelops_gtr : Gen.C01BinaryRelops.gtr = binTable gtrFn := by decide +kernel
theorem table_binaryrelops_leq : Gen.C01BinaryRelops.leq = binTable leqFn := by decide +kernel
theorem table_binaryrelops_geq : Gen.C01BinaryRelops.geq = binTable geqFn := by decide +kernel
theorem table_binaryeqlneq_eql : Gen.C01BinaryEqlneq.eql = binTable eqlFn := by decide +kernel
theorem table_binaryeqlneq_neq : Gen.C01BinaryEqlneq.neq = binTable neqFn := by decide +kernel
theorem table_unaryops_unaryPlus : Gen.C01UnaryOps.unaryPlus = [] := by decide +kernel
theorem table_unaryops_unaryMinus : Gen.C01UnaryOps.unaryMinus = unaryMinusTable := by decide +kernel
theorem table_unaryops_unaryXor : Gen.C01UnaryOps.unaryXor = unaryXorTable := by decide +kernel
theorem table_unaryops_unaryNot : Gen.C01UnaryOps.unaryNot = unaryNotTable := by decide +kernel
theorem table_binary_land : Gen.C01Binary.land = landTable := by decide +kernel
theorem table_binary_lor : Gen.C01Binary.lor = lorTable := by decide +kernel
theorem table_binary_binaryExpr1 : Gen.C01Binary.binaryExpr1 = [] := by decide +kernel
theorem table_binary_prepareShift : Gen.C01Binary.prepareShift = [] := by decide +kernel
theorem table_binary_toSameFuncType : Gen.C01Binary.toSameFuncType = [] := by decide +kernel
theorem table_unary_unaryExpr : Gen.C01Unary.unaryExpr = [] := by decide +kernel
theorem table_util_asUint64 : Gen.C01Util.asUint64 = asUint64Table := by decide +kernel
theorem table_identifier_bind_expr : Gen.C01Identifier.bind_expr = bindExprTable := by decide +kernel
theorem table_identifier_bind_intExpr : Gen.C01Identifier.bind_intExpr = bindIntExprTable := by decide +kernel
theorem table_identifier_symbol_expr : Gen.C01Identifier.symbol_expr = symbolExprTable := by decide +kernel
theorem table_identifier_symbol_intExpr : Gen.C01Identifier.symbol_intExpr = symbolIntExprTable := by decide +kernel

theorem prologue_binary_binaryExpr1Actions : Gen.C01Binary.binaryExpr1Actions = C01Prologue.binary_binaryExpr1Actions := by decide +kernel
theorem prologue_binary_landActions : Gen.C01Binary.landActions = C01Prologue.binary_landActions := by decide +kernel
theorem prologue_binary_lorActions : Gen.C01Binary.lorActions = C01Prologue.binary_lorActions := by decide +kernel
theorem prologue_binary_prepareShiftActions : Gen.C01Binary.prepareShiftActions = C01Prologue.binary_prepareShiftActions := by decide +kernel
theorem prologue_binary_toSameFuncTypeActions : Gen.C01Binary.toSameFuncTypeActions = C01Prologue.binary_toSameFuncTypeActions := by decide +kernel
theorem prologue_binaryeqlneq_eqlActions : Gen.C01BinaryEqlneq.eqlActions = C01Prologue.binaryeqlneq_eqlActions := by decide +kernel
theorem prologue_binaryeqlneq_neqActions : Gen.C01BinaryEqlneq.neqActions = C01Prologue.binaryeqlneq_neqActions := by decide +kernel
theorem prologue_binaryops_addActions : Gen.C01BinaryOps.addActions = C01Prologue.binaryops_addActions := by decide +kernel
theorem prologue_binaryops_subActions : Gen.C01BinaryOps.subActions = C01Prologue.binaryops_subActions := by decide +kernel
theorem prologue_binaryops_mulActions : Gen.C01BinaryOps.mulActions = C01Prologue.binaryops_mulActions := by decide +kernel
theorem prologue_binaryops_quoActions : Gen.C01BinaryOps.quoActions = C01Prologue.binaryops_quoActions := by decide +kernel
theorem prologue_binaryops_remActions : Gen.C01BinaryOps.remActions = C01Prologue.binaryops_remActions := by decide +kernel
theorem prologue_binaryops_andActions : Gen.C01BinaryOps.andActions = C01Prologue.binaryops_andActions := by decide +kernel
theorem prologue_binaryops_orActions : Gen.C01BinaryOps.orActions = C01Prologue.binaryops_orActions := by decide +kernel
theorem prologue_binaryops_xorActions : Gen.C01BinaryOps.xorActions = C01Prologue.binaryops_xorActions := by decide +kernel
theorem prologue_binaryops_andnotActions : Gen.C01BinaryOps.andnotActions = C01Prologue.binaryops_andnotActions := by decide +kernel
theorem prologue_binaryops_mulPow2Actions : Gen.C01BinaryOps.mulPow2Actions = C01Prologue.binaryops_mulPow2Actions := by decide +kernel
theorem prologue_binaryops_quoPow2Actions : Gen.C01BinaryOps.quoPow2Actions = C01Prologue.binaryops_quoPow2Actions := by decide +kernel
theorem prologue_binaryops_remPow2Actions : Gen.C01BinaryOps.remPow2Actions = C01Prologue.binaryops_remPow2Actions := by decide +kernel
theorem prologue_binaryops_exprZeroActions : Gen.C01BinaryOps.exprZeroActions = C01Prologue.binaryops_exprZeroActions := by decide +kernel
theorem prologue_binaryops_isPowerOfTwoSrc : Gen.C01BinaryOps.isPowerOfTwoSrc = C01Prologue.binaryops_isPowerOfTwoSrc := by decide +kernel
theorem prologue_binaryops_integerLenSrc : Gen.C01BinaryOps.integerLenSrc = C01Prologue.binaryops_integerLenSrc := by decide +kernel
theorem prologue_binaryrelops_lssActions : Gen.C01BinaryRelops.lssActions = C01Prologue.binaryrelops_lssActions := by decide +kernel
theorem prologue_binaryrelops_gtrActions : Gen.C01BinaryRelops.gtrActions = C01Prologue.binaryrelops_gtrActions := by decide +kernel
theorem prologue_binaryrelops_leqActions : Gen.C01BinaryRelops.leqActions = C01Prologue.binaryrelops_leqActions := by decide +kernel
theorem prologue_binaryrelops_geqActions : Gen.C01BinaryRelops.geqActions = C01Prologue.binaryrelops_geqActions := by decide +kernel
theorem prologue_binaryshifts_shlActions : Gen.C01BinaryShifts.shlActions = C01Prologue.binaryshifts_shlActions := by decide +kernel
theorem prologue_binaryshifts_shrActions : Gen.C01BinaryShifts.shrActions = C01Prologue.binaryshifts_shrActions := by decide +kernel
theorem prologue_compile_upSrc : Gen.C01Compile.upSrc = C01Prologue.compile_upSrc := by decide +kernel
theorem prologue_identifier_bind_exprActions : Gen.C01Identifier.bind_exprActions = C01Prologue.identifier_bind_exprActions := by decide +kernel
theorem prologue_identifier_symbol_exprActions : Gen.C01Identifier.symbol_exprActions = C01Prologue.identifier_symbol_exprActions := by decide +kernel
theorem prologue_identifier_bind_intExprActions : Gen.C01Identifier.bind_intExprActions = C01Prologue.identifier_bind_intExprActions := by decide +kernel
theorem prologue_identifier_symbol_intExprActions : Gen.C01Identifier.symbol_intExprActions = C01Prologue.identifier_symbol_intExprActions := by decide +kernel
theorem prologue_identifier_outerEnv3Src : Gen.C01Identifier.outerEnv3Src = C01Prologue.identifier_outerEnv3Src := by decide +kernel
theorem prologue_literal_isLiteralNumberSrc : Gen.C01Literal.isLiteralNumberSrc = C01Prologue.literal_isLiteralNumberSrc := by decide +kernel
theorem prologue_unary_unaryExprActions : Gen.C01Unary.unaryExprActions = C01Prologue.unary_unaryExprActions := by decide +kernel
theorem prologue_unaryops_unaryPlusActions : Gen.C01UnaryOps.unaryPlusActions = C01Prologue.unaryops_unaryPlusActions := by decide +kernel
theorem prologue_unaryops_unaryMinusActions : Gen.C01UnaryOps.unaryMinusActions = C01Prologue.unaryops_unaryMinusActions := by decide +kernel
theorem prologue_unaryops_unaryXorActions : Gen.C01UnaryOps.unaryXorActions = C01Prologue.unaryops_unaryXorActions := by decide +kernel
theorem prologue_unaryops_unaryNotActions : Gen.C01UnaryOps.unaryNotActions = C01Prologue.unaryops_unaryNotActions := by decide +kernel
theorem prologue_util_asUint64Actions : Gen.C01Util.asUint64Actions = C01Prologue.util_asUint64Actions := by decide +kernel
theorem prologue_util_constAsUint64Src : Gen.C01Util.constAsUint64Src = C01Prologue.util_constAsUint64Src := by decide +kernel

end C01Tables
