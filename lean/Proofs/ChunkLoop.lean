import Proofs.FileSet
/-! Lemmas for C27: the chunk loop (`Globals.Line` bookkeeping, one file per parsed chunk). -/
namespace FileSet

/-! ## newline counts and the linear-scan specification -/

theorem nl_append (a b : Bytes) : nl (a ++ b) = nl a + nl b := by
  induction a with
  | nil => simp [nl]
  | cons x xs ih => simp only [List.cons_append, nl, ih]; omega

theorem nl_take_drop (a : Bytes) (n : Nat) : nl (a.take n) + nl (a.drop n) = nl a := by
  rw [← nl_append, List.take_append_drop]

theorem nl_replicate_32 (n : Nat) : nl (List.replicate n 32) = 0 := by
  induction n with
  | zero => rfl
  | succ n ih => simp [List.replicate_succ, nl, ih]

theorem lcStep_nl (s : Nat × Nat) : lcStep s 10 = (s.1 + 1, 1) := by simp [lcStep]
theorem lcStep_other (s : Nat × Nat) {b : Nat} (h : b ≠ 10) : lcStep s b = (s.1, s.2 + 1) := by simp [lcStep, h]

theorem foldl_lc_fst (xs : Bytes) (l c : Nat) : (xs.foldl lcStep (l, c)).1 = l + nl xs := by
  induction xs generalizing l c with
  | nil => simp [nl]
  | cons x xs ih =>
    simp only [List.foldl_cons, nl]
    by_cases hx : x = 10
    · subst hx
      rw [lcStep_nl, ih]; simp only [if_true]; omega
    · rw [lcStep_other _ hx, ih]; simp only [hx, if_false]; omega

theorem foldl_lc_shift (xs : Bytes) (l d c : Nat) :
    xs.foldl lcStep (l + d, c) = ((xs.foldl lcStep (l, c)).1 + d, (xs.foldl lcStep (l, c)).2) := by
  induction xs generalizing l c with
  | nil => simp
  | cons x xs ih =>
    simp only [List.foldl_cons]
    by_cases hx : x = 10
    · subst hx
      rw [lcStep_nl, lcStep_nl]
      simp only
      have : l + d + 1 = (l + 1) + d := by omega
      rw [this, ih]
    · rw [lcStep_other _ hx, lcStep_other _ hx]
      simp only
      rw [ih]

theorem foldl_lc_endnl (xs : Bytes) (l c : Nat) (h : xs.getLast? = some 10) :
    xs.foldl lcStep (l, c) = (l + nl xs, 1) := by
  obtain ⟨ys, rfl⟩ := List.getLast?_eq_some_iff.mp h
  rw [List.foldl_append, nl_append]
  simp only [List.foldl_cons, List.foldl_nil]
  rw [lcStep_nl, foldl_lc_fst]
  simp only [nl, if_true]
  have : l + nl ys + 1 = l + (nl ys + (1 + 0)) := by omega
  rw [this]

theorem foldl_lc_flatten (pre : List Bytes) (h : ∀ x ∈ pre, x.getLast? = some 10) (l : Nat) :
    pre.flatten.foldl lcStep (l, 1) = (l + nl pre.flatten, 1) := by
  induction pre generalizing l with
  | nil => simp [nl]
  | cons x xs ih =>
    rw [List.flatten_cons, List.foldl_append, foldl_lc_endnl x l 1 (h x (List.mem_cons_self ..)),
      ih (fun y hy => h y (List.mem_cons_of_mem _ hy)), nl_append]
    simp only [Prod.mk.injEq, and_true]; omega

/-- line and column in a concatenation whose earlier pieces end with a newline -/
theorem lineCol_concat (pre : List Bytes) (h : ∀ x ∈ pre, x.getLast? = some 10) (src post : Bytes)
    (o : Nat) (ho : o ≤ src.length) :
    lineCol (pre.flatten ++ src ++ post) (pre.flatten.length + o) =
      ((lineCol src o).1 + nl pre.flatten, (lineCol src o).2) := by
  rw [lineCol_eq, lineCol_eq, List.append_assoc, List.take_append]
  have h1 : List.take (pre.flatten.length + o) pre.flatten = pre.flatten := List.take_of_length_le (by omega)
  have h2 : pre.flatten.length + o - pre.flatten.length = o := by omega
  rw [h1, h2, List.take_append, List.foldl_append, foldl_lc_flatten pre h 1]
  have h3 : o - src.length = 0 := by omega
  rw [h3, List.take_zero, List.append_nil]
  have h4 : (1 + nl pre.flatten, 1) = ((1 : Nat) + nl pre.flatten, (1 : Nat)) := rfl
  rw [foldl_lc_shift]

/-! ## one parsed text -/

/-- the file `Globals.ParseBytes` adds for `text` -/
def mkFile (name : String) (base : Nat) (line : Nat) (copySrc : Bool) (text : Bytes) : File :=
  let f := (File.mk name base text.length [0] line []).scan text
  if copySrc then { f with source := splitLines text [] } else f

theorem mkFile_props (name : String) (base line : Nat) (cp : Bool) (text : Bytes) :
    (mkFile name base line cp text).name = name ∧ (mkFile name base line cp text).base = base ∧
    (mkFile name base line cp text).size = text.length ∧ (mkFile name base line cp text).line = line ∧
    LineTable text (mkFile name base line cp text).lines := by
  have hf := scanFrom_fields text (File.mk name base text.length [0] line []) 0
  have hl := scan_lineTable text (File.mk name base text.length [0] line []) rfl rfl
  unfold mkFile
  simp only
  cases cp
  · simp only [Bool.false_eq_true, if_false]
    exact ⟨hf.1, hf.2.1, hf.2.2.1, hf.2.2.2.1, hl⟩
  · simp only [if_true]
    exact ⟨hf.1, hf.2.1, hf.2.2.1, hf.2.2.2.1, hl⟩

structure Good (st : LoopSt) : Prop where
  wf : st.fs.WF
  base : 1 ≤ st.fs.base

theorem parseBytes_spec (st : LoopSt) (name : String) (cp : Bool) (text : Bytes) (cut : Nat) (hg : Good st) :
    Good (parseBytes st name cp text cut) ∧
    (parseBytes st name cp text cut).fs.files = st.fs.files ++ [mkFile name st.fs.base st.line cp text] ∧
    (parseBytes st name cp text cut).parsed = st.parsed ++ [some ⟨st.fs.files.length, cut⟩] ∧
    (parseBytes st name cp text cut).line = st.line := by
  let f0 : File := File.mk name st.fs.base text.length [0] st.line []
  let fs1 : FSet := ⟨st.fs.base + text.length + 1, st.fs.files ++ [f0], some st.fs.files.length⟩
  have hadd : st.fs.addFile name (-1) text.length st.line = some (f0, fs1) :=
    addFileAuto_eq st.fs name text.length st.line
  obtain ⟨hwf', hb', _⟩ := addFile_wf hg.wf hg.base hadd
  have hfiles' : fs1.files = st.fs.files ++ [f0] := rfl
  have hidx : st.fs.files.length < fs1.files.length := by
    rw [hfiles']; simp
  have hget : fs1.files[st.fs.files.length]'hidx = f0 := by
    simp [hfiles']
  have hmk := mkFile_props name st.fs.base st.line cp text
  have hset : (fs1.setFile st.fs.files.length (mkFile name st.fs.base st.line cp text)).WF := by
    apply setFile_wf hwf' hidx
    · rw [hget]; exact hmk.2.1
    · rw [hget]; exact hmk.2.2.1
  have hdef : parseBytes st name cp text cut =
      { st with fs := fs1.setFile st.fs.files.length (mkFile name st.fs.base st.line cp text),
                parsed := st.parsed ++ [some ⟨st.fs.files.length, cut⟩] } := by
    unfold parseBytes mkFile FSet.addFileAuto
    simp only
    cases cp <;> rfl
  rw [hdef]
  refine ⟨⟨hset, ?_⟩, ?_, rfl, rfl⟩
  · simp only [FSet.setFile]; exact hb'
  · simp only [FSet.setFile, hfiles']
    simp

/-- every byte of a parsed text is reported at its line (shifted by the `Line` of the parse) and
    column, by any later state of the file set that still holds the file -/
theorem parsed_position {fs : FSet} (hwf : fs.WF) {idx : Nat} (hi : idx < fs.files.length)
    {name : String} {base line : Nat} {cp : Bool} {text : Bytes}
    (hf : fs.files[idx]'hi = mkFile name base line cp text) (o : Nat) (ho : o < text.length) :
    (fs.positionFor ((base : Int) + o)).1 =
      ⟨name, o, ((lineCol text o).1 : Int) + line, ((lineCol text o).2 : Int)⟩ := by
  obtain ⟨hn, hb, hs, hl, hlt⟩ := mkFile_props name base line cp text
  have hb1 : 1 ≤ (fs.files[idx]'hi).base := (hwf.bound _ (List.getElem_mem hi)).1
  have hin : inFile (fs.files[idx]'hi) ((base : Int) + o) = true := by
    rw [inFile_iff, hf, hb, hs]; omega
  rw [positionFor_in hwf hi hin, hf]
  have hb2 : 1 ≤ (mkFile name base line cp text).base := by rw [← hf]; exact hb1
  have := file_position_exact hlt hs hb2 o ho
  rw [hb, hn, hl] at this
  exact this

/-! ## the steps of the loop -/

/-- lines added to `Globals.Line` by ParseEvalPrint -/
def pepCount (cfg : Cfg) (src : Bytes) : Nat :=
  if isBlank src then (if cfg.blankIncLine then nl src else 0) else nl src

/-- does the chunk reach the parser -/
def reaches (src : Bytes) : Bool := !isBlank src && !isPackageClause src

theorem parseEvalPrint_spec (cfg : Cfg) (name : String) (cp : Bool) (st : LoopSt) (src : Bytes) (cut : Nat)
    (hg : Good st) :
    Good (parseEvalPrint cfg name cp st src cut) ∧
    st.fs.files <+: (parseEvalPrint cfg name cp st src cut).fs.files ∧
    (parseEvalPrint cfg name cp st src cut).line = st.line + pepCount cfg src ∧
    (∃ e, (parseEvalPrint cfg name cp st src cut).parsed = st.parsed ++ [e] ∧
      (reaches src = true → e = some ⟨st.fs.files.length, cut⟩ ∧
        (parseEvalPrint cfg name cp st src cut).fs.files = st.fs.files ++ [mkFile name st.fs.base st.line cp src])) := by
  unfold parseEvalPrint pepCount reaches
  cases hb : isBlank src with
  | true =>
    simp only [if_true]
    refine ⟨⟨hg.wf, hg.base⟩, List.prefix_refl _, ?_, none, rfl, ?_⟩
    · cases cfg.blankIncLine <;> simp
    · intro h; simp at h
  | false =>
    simp only [Bool.false_eq_true, if_false]
    cases hp : isPackageClause src with
    | true =>
      simp only [if_true]
      refine ⟨⟨hg.wf, hg.base⟩, List.prefix_refl _, by simp, none, by simp, ?_⟩
      intro h; simp at h
    | false =>
      simp only [Bool.false_eq_true, if_false]
      obtain ⟨hg', hfiles, hparsed, hline⟩ := parseBytes_spec st name cp src cut hg
      refine ⟨⟨hg'.wf, hg'.base⟩, ?_, ?_, some ⟨st.fs.files.length, cut⟩, hparsed, ?_⟩
      · simp only [hfiles]; exact List.prefix_append _ _
      · simp only [hline]
      · intro _; exact ⟨rfl, hfiles⟩

/-- lines added to `Globals.Line` for one chunk consumed through `Interp.Read` -/
def counted (cfg : Cfg) (c : Chunk) : Nat :=
  if c.ft < 0 then nl c.src
  else (if cfg.readIncPrefix = true ∧ c.ft > 0 then nl (c.src.take c.ft.toNat) else 0) + pepCount cfg c.src

/-- what `Interp.Read` has already added when the chunk is parsed -/
def prefixInc (cfg : Cfg) (c : Chunk) : Nat :=
  if cfg.readIncPrefix = true ∧ c.ft > 0 then nl (c.src.take c.ft.toNat) else 0

theorem readStep_spec (cfg : Cfg) (name : String) (cp : Bool) (st : LoopSt) (c : Chunk) (hg : Good st) :
    Good (readStep cfg name cp st c) ∧
    st.fs.files <+: (readStep cfg name cp st c).fs.files ∧
    (readStep cfg name cp st c).line = st.line + counted cfg c ∧
    (∃ e, (readStep cfg name cp st c).parsed = st.parsed ++ [e] ∧
      (c.ft ≥ 0 → reaches c.src = true → e = some ⟨st.fs.files.length, 0⟩ ∧
        (readStep cfg name cp st c).fs.files =
          st.fs.files ++ [mkFile name st.fs.base (st.line + prefixInc cfg c) cp c.src])) := by
  unfold readStep counted prefixInc
  by_cases hft : c.ft < 0
  · simp only [hft, if_true]
    refine ⟨⟨hg.wf, hg.base⟩, List.prefix_refl _, by simp, none, by simp, ?_⟩
    intro h; omega
  · simp only [hft, if_false]
    by_cases hp : cfg.readIncPrefix = true ∧ c.ft > 0
    · simp only [hp, and_self, if_true]
      have hg1 : Good { st with line := st.line + nl (List.take c.ft.toNat c.src) } := ⟨hg.wf, hg.base⟩
      obtain ⟨h1, h2, h3, e, h4, h5⟩ := parseEvalPrint_spec cfg name cp
        { st with line := st.line + nl (List.take c.ft.toNat c.src) } c.src 0 hg1
      refine ⟨h1, h2, ?_, e, h4, ?_⟩
      · rw [h3]; simp only; omega
      · intro _ hr; exact h5 hr
    · simp only [hp, if_false]
      obtain ⟨h1, h2, h3, e, h4, h5⟩ := parseEvalPrint_spec cfg name cp st c.src 0 hg
      refine ⟨h1, h2, ?_, e, h4, ?_⟩
      · rw [h3]; omega
      · intro _ hr
        have := h5 hr
        simpa using this

/-- what a run of `readStep`s preserves and adds -/
theorem foldl_readStep_spec (cfg : Cfg) (name : String) (cp : Bool) (cs : List Chunk) :
    ∀ st, Good st →
      Good (cs.foldl (readStep cfg name cp) st) ∧
      st.fs.files <+: (cs.foldl (readStep cfg name cp) st).fs.files ∧
      st.parsed <+: (cs.foldl (readStep cfg name cp) st).parsed ∧
      (cs.foldl (readStep cfg name cp) st).parsed.length = st.parsed.length + cs.length ∧
      (cs.foldl (readStep cfg name cp) st).line = st.line + (cs.map (counted cfg)).sum := by
  induction cs with
  | nil => intro st hg; exact ⟨hg, List.prefix_refl _, List.prefix_refl _, rfl, rfl⟩
  | cons c cs ih =>
    intro st hg
    obtain ⟨h1, h2, h3, e, h4, _⟩ := readStep_spec cfg name cp st c hg
    obtain ⟨i1, i2, i3, i4, i5⟩ := ih _ h1
    simp only [List.foldl_cons, List.map_cons, List.sum_cons, List.length_cons]
    refine ⟨i1, List.IsPrefix.trans h2 i2, List.IsPrefix.trans ?_ i3, ?_, ?_⟩
    · rw [h4]; exact List.prefix_append _ _
    · rw [i4, h4]; simp only [List.length_append, List.length_singleton]; omega
    · rw [i5, h3]; omega

theorem prefix_getElem? {α : Type} {a b : List α} (h : a <+: b) {i : Nat} (hi : i < a.length) :
    b[i]? = some (a[i]'hi) := by
  obtain ⟨t, rfl⟩ := h
  rw [List.getElem?_append_left hi, List.getElem?_eq_getElem hi]

/-- the general position formula of the REPL loop, for every configuration of the repairable
    places: a byte of a chunk that reaches the parser is reported at its line within the chunk plus
    everything `Globals.Line` has accumulated before the parse -/
theorem repl_position (cfg : Cfg) (name : String) (cp : Bool) (st0 : LoopSt) (hg : Good st0)
    (pre : List Chunk) (c : Chunk) (post : List Chunk)
    (hft : c.ft ≥ 0) (hr : reaches c.src = true) (o : Nat) (ho : o < c.src.length) :
    let st := (pre ++ c :: post).foldl (readStep cfg name cp) st0
    ∃ p, posOf st (st0.parsed.length + pre.length) o = some p ∧
      (st.fs.positionFor p).1 =
        ⟨name, o, ((lineCol c.src o).1 : Int) + ((st0.line + (pre.map (counted cfg)).sum + prefixInc cfg c : Nat) : Int),
          ((lineCol c.src o).2 : Int)⟩ := by
  intro st
  -- after the chunks before
  obtain ⟨g1, _, _, l1, n1⟩ := foldl_readStep_spec cfg name cp pre st0 hg
  -- the chunk itself
  obtain ⟨g2, _, _, e, p2, f2⟩ := readStep_spec cfg name cp (pre.foldl (readStep cfg name cp) st0) c g1
  obtain ⟨he, hfiles⟩ := f2 hft hr
  -- the chunks after
  obtain ⟨g3, f3, p3, _, _⟩ := foldl_readStep_spec cfg name cp post _ g2
  have hst : st = post.foldl (readStep cfg name cp) (readStep cfg name cp (pre.foldl (readStep cfg name cp) st0) c) := by
    simp only [st, List.foldl_append, List.foldl_cons]
  generalize hs1 : pre.foldl (readStep cfg name cp) st0 = s1 at *
  generalize hs2 : readStep cfg name cp s1 c = s2 at *
  rw [← hst] at g3 f3 p3
  -- the entry of the chunk in `parsed`
  have hk : st0.parsed.length + pre.length < s2.parsed.length := by
    rw [p2, List.length_append, List.length_singleton, l1]; omega
  have hpe : st.parsed[st0.parsed.length + pre.length]? = some (some ⟨s1.fs.files.length, 0⟩) := by
    rw [prefix_getElem? p3 hk]
    congr 1
    simp only [p2]
    rw [List.getElem_append_right (by omega)]
    simp only [l1, Nat.sub_self, List.getElem_cons_zero, he]
  -- its file
  have hidx : s1.fs.files.length < s2.fs.files.length := by rw [hfiles]; simp
  have hfe : st.fs.files[s1.fs.files.length]? = some (mkFile name s1.fs.base (s1.line + prefixInc cfg c) cp c.src) := by
    rw [prefix_getElem? f3 hidx]
    congr 1
    simp only [hfiles]
    rw [List.getElem_append_right (by omega)]
    simp
  have hlt : s1.fs.files.length < st.fs.files.length := by
    have := List.IsPrefix.length_le f3; omega
  have hfe' : st.fs.files[s1.fs.files.length]'hlt = mkFile name s1.fs.base (s1.line + prefixInc cfg c) cp c.src := by
    rw [List.getElem?_eq_getElem hlt] at hfe
    exact Option.some.inj hfe
  have hbase := (mkFile_props name s1.fs.base (s1.line + prefixInc cfg c) cp c.src).2.1
  refine ⟨(s1.fs.base : Int) + o, ?_, ?_⟩
  · unfold posOf
    rw [hpe]
    simp only [Nat.not_lt_zero, if_false, hfe, hbase, Nat.sub_zero]
  · have := parsed_position g3.wf hlt hfe' o ho
    rw [this, n1]

end FileSet
