import Model.Cti
/-! Soundness of the arm templates of `Model/Cti.lean`: the IR of the expected arm of (kind, method),
    run on ANY argument values of the declared parameter kinds, computes the Go operator / builtin
    the method name denotes (`Cti.spec`), and that operator is defined at the kind. -/
namespace CtiProofs
open GoSpec GoSpec.Outcome ClosureIR Cti

theorem ofName_name (k : Kind) : Kind.ofName k.name = some k := by cases k <;> rfl

theorem declKinds_map (ps : List (String × Kind)) : declKinds (ps.map declOf) = some (ps.map (·.2)) := by
  induction ps with
  | nil => rfl
  | cons p ps ih => simp [declKinds, declOf, ofName_name, ih]

theorem declKinds_arm (k : Kind) (m : Meth) : declKinds (arm k m).binds = some (paramKinds k m) := by
  simp [arm, paramKinds, declKinds_map]

/-- `run` on an expected arm = kind check of the arguments, then the raw evaluation -/
theorem run_arm (F : FloatOps) (k : Kind) (m : Meth) (args : List Val) :
    run F (arm k m) args = if argsHaveKinds (paramKinds k m) args then runRaw F (arm k m) args else none := by
  simp [run, declKinds_arm]

theorem liftVal_ret (o : Option (Outcome Val)) :
    (match liftVal o with
      | none => none
      | some (Outcome.panic p) => some (Outcome.panic p)
      | some (ok v) => retVal v) = o := by
  cases o with
  | none => rfl
  | some r => cases r <;> rfl

/-! ### inversion of `hasKind` -/

theorem inv_int {v : Val} {k : Kind} {ik : IKind} (hk : k.ikind? = some ik) (h : v.hasKind k = true) :
    ∃ x : BitVec ik.w, v = .int ik x := by
  cases v with
  | int k' x =>
    simp [Val.hasKind, hk] at h
    subst h
    exact ⟨x, rfl⟩
  | bool b => cases k <;> simp [Val.hasKind, Kind.ikind?] at h hk
  | f32 b => cases k <;> simp [Val.hasKind, Kind.ikind?] at h hk
  | f64 b => cases k <;> simp [Val.hasKind, Kind.ikind?] at h hk
  | c64 r i => cases k <;> simp [Val.hasKind, Kind.ikind?] at h hk
  | c128 r i => cases k <;> simp [Val.hasKind, Kind.ikind?] at h hk
  | str s => cases k <;> simp [Val.hasKind, Kind.ikind?] at h hk

theorem inv_bool {v : Val} (h : v.hasKind .bool = true) : ∃ b, v = .bool b := by
  cases v <;> simp [Val.hasKind, Kind.ikind?] at h
  exact ⟨_, rfl⟩

theorem inv_f32 {v : Val} (h : v.hasKind .float32 = true) : ∃ b, v = .f32 b := by
  cases v <;> simp [Val.hasKind, Kind.ikind?] at h
  exact ⟨_, rfl⟩

theorem inv_f64 {v : Val} (h : v.hasKind .float64 = true) : ∃ b, v = .f64 b := by
  cases v <;> simp [Val.hasKind, Kind.ikind?] at h
  exact ⟨_, rfl⟩

theorem inv_c64 {v : Val} (h : v.hasKind .complex64 = true) : ∃ r i, v = .c64 r i := by
  cases v <;> simp [Val.hasKind, Kind.ikind?] at h
  exact ⟨_, _, rfl⟩

theorem inv_c128 {v : Val} (h : v.hasKind .complex128 = true) : ∃ r i, v = .c128 r i := by
  cases v <;> simp [Val.hasKind, Kind.ikind?] at h
  exact ⟨_, _, rfl⟩

theorem inv_str {v : Val} (h : v.hasKind .string = true) : ∃ s, v = .str s := by
  cases v <;> simp [Val.hasKind, Kind.ikind?] at h
  exact ⟨_, rfl⟩

/-! ### the operator families: the raw evaluation equals `spec` for ALL argument values -/

/-- the methods whose body is `return a <op> b` / `return <op> a` on the parameters -/
def opMeths : List Meth := [.equal, .less, .add, .sub, .mul, .quo, .rem, .and, .andNot, .or, .xor, .neg, .not, .lsh, .rsh]

theorem raw2 (F : FloatOps) (k : Kind) (m : Meth) (hm : m = .equal ∨ m = .less) (a b : Val) :
    runRaw F (arm k m) [a, b] = spec F k m [a, b] := by
  rcases hm with rfl | rfl <;>
    simp [runRaw, arm, params, declOf, mkStore, body, va, vb, evalBuiltin, evalArm, evalBinds, lookup, execBody, execS, evalE, okV,
      bindR, evalBin, spec] <;> exact congrArg liftX (liftVal_ret _)

theorem raw3 (F : FloatOps) (k : Kind) (m : Meth)
    (hm : m = .add ∨ m = .sub ∨ m = .mul ∨ m = .quo ∨ m = .rem ∨ m = .and ∨ m = .andNot ∨ m = .or ∨ m = .xor ∨ m = .lsh ∨ m = .rsh)
    (z a b : Val) :
    runRaw F (arm k m) [z, a, b] = spec F k m [z, a, b] := by
  rcases hm with rfl | rfl | rfl | rfl | rfl | rfl | rfl | rfl | rfl | rfl | rfl <;>
    simp [runRaw, arm, params, declOf, mkStore, body, va, vb, evalBuiltin, evalArm, evalBinds, lookup, execBody, execS, evalE, okV,
      bindR, evalBin, spec] <;> exact congrArg liftX (liftVal_ret _)

theorem raw1 (F : FloatOps) (k : Kind) (m : Meth) (hm : m = .neg ∨ m = .not) (z a : Val) :
    runRaw F (arm k m) [z, a] = spec F k m [z, a] := by
  rcases hm with rfl | rfl <;>
    simp [runRaw, arm, params, declOf, mkStore, body, va, evalBuiltin, evalArm, evalBinds, lookup, execBody, execS, evalE, okV,
      bindR, evalUn, spec] <;> exact congrArg liftX (liftVal_ret _)


theorem rawCmp (F : FloatOps) (k : Kind) (a b : Val) :
    runRaw F (arm k .cmp) [a, b] = spec F k .cmp [a, b] := by
  have hrun : runRaw F (arm k .cmp) [a, b] = liftX (execBody F none [("a", V.val a), ("b", V.val b)] (body k .cmp)) := by
    simp [runRaw, arm, params, declOf, mkStore, body, evalArm, evalBinds, lookup]
  have e1 : evalE F [("a", V.val a), ("b", V.val b)] (.bin .lss va vb) = liftVal (binop F .lss a b) := by
    simp [va, vb, evalE, lookup, okV, bindR, evalBin]
  have e2 : evalE F [("a", V.val a), ("b", V.val b)] (.bin .gtr va vb) = liftVal (binop F .gtr a b) := by
    simp [va, vb, evalE, lookup, okV, bindR, evalBin]
  have rc (n : Int) : evalE F [("a", V.val a), ("b", V.val b)] (.conv .int (.int n)) =
      some (ok (.val (.int ⟨64, true⟩ (BitVec.ofInt 64 n)))) := by
    simp [evalE, okV, bindR, evalConv, Kind.ikind?, okVal]
  rw [hrun]
  simp only [body, execBody, execS, e1, e2, rc, retVal, spec, cmp3]
  rcases h1 : binop F BinOp.lss a b with _ | ⟨v1 | p1⟩
  · simp [liftVal, liftX]
  · cases v1 <;> simp [liftVal, liftX]
    rename_i bb
    cases bb
    · simp only [execBody, execS, e2, rc, retVal]
      rcases h2 : binop F BinOp.gtr a b with _ | ⟨v2 | p2⟩
      · simp [liftVal, liftX]
      · cases v2 <;> simp [liftVal, liftX]
        rename_i b2
        cases b2 <;> simp [liftX, execBody, execS, rc, retVal]
      · cases p2 <;> simp [liftVal, liftX]
    · simp [liftX, rc]
  · cases p1 <;> simp [liftVal, liftX]


/-! ### the builtin forms (typed operands) -/

theorem raw_real (F : FloatOps) (k : Kind) (a : Val) : runRaw F (arm k .real) [a] = spec F k .real [a] := by
  cases a <;> simp [runRaw, arm, params, declOf, mkStore, body, va, evalBuiltin, evalE, lookup, okV, spec]

theorem raw_imag (F : FloatOps) (k : Kind) (a : Val) : runRaw F (arm k .imag) [a] = spec F k .imag [a] := by
  cases a <;> simp [runRaw, arm, params, declOf, mkStore, body, va, evalBuiltin, evalE, lookup, okV, spec]

theorem raw_len (F : FloatOps) (k : Kind) (a : Val) : runRaw F (arm k .len) [a] = spec F k .len [a] := by
  cases a <;> simp [runRaw, arm, params, declOf, mkStore, body, va, evalBuiltin, evalE, lookup, okV, spec, asStr]

theorem raw_index (F : FloatOps) (k : Kind) (s : List UInt8) (i : BitVec 64) :
    runRaw F (arm k .index) [.str s, .int ⟨64, true⟩ i] = spec F k .index [.str s, .int ⟨64, true⟩ i] := by
  simp [runRaw, arm, params, declOf, mkStore, body, va, vb, evalBuiltin, evalE, lookup, okV, spec, asStr, asInt64]

theorem raw_slice (F : FloatOps) (k : Kind) (s : List UInt8) (i j : BitVec 64) :
    runRaw F (arm k .slice) [.str s, .int ⟨64, true⟩ i, .int ⟨64, true⟩ j] =
      spec F k .slice [.str s, .int ⟨64, true⟩ i, .int ⟨64, true⟩ j] := by
  simp [runRaw, arm, params, declOf, mkStore, body, va, vb, vc, evalBuiltin, evalE, lookup, okV, spec, asStr, asInt64]

/-! ### arity -/

theorem ahk1 {k1 : Kind} {args : List Val} (h : argsHaveKinds [k1] args = true) :
    ∃ a, args = [a] ∧ a.hasKind k1 = true := by
  rcases args with _ | ⟨a, _ | ⟨b, r⟩⟩ <;> simp [argsHaveKinds] at h
  exact ⟨a, rfl, h⟩

theorem ahk2 {k1 k2 : Kind} {args : List Val} (h : argsHaveKinds [k1, k2] args = true) :
    ∃ a b, args = [a, b] ∧ a.hasKind k1 = true ∧ b.hasKind k2 = true := by
  rcases args with _ | ⟨a, _ | ⟨b, _ | ⟨c, r⟩⟩⟩ <;> simp [argsHaveKinds] at h
  exact ⟨a, b, rfl, h⟩

theorem ahk3 {k1 k2 k3 : Kind} {args : List Val} (h : argsHaveKinds [k1, k2, k3] args = true) :
    ∃ a b c, args = [a, b, c] ∧ a.hasKind k1 = true ∧ b.hasKind k2 = true ∧ c.hasKind k3 = true := by
  rcases args with _ | ⟨a, _ | ⟨b, _ | ⟨c, _ | ⟨d, r⟩⟩⟩⟩ <;> simp [argsHaveKinds] at h
  exact ⟨a, b, c, rfl, h⟩

/-! ### integer kinds, generically in the kind -/

theorem methodsOf_int {k : Kind} {ik : IKind} (hk : k.ikind? = some ik) :
    methodsOf k = [.equal, .cmp, .less, .add, .sub, .mul, .quo, .neg, .rem, .and, .andNot, .or, .xor, .not, .lsh, .rsh] := by
  cases k <;> simp [Kind.ikind?] at hk <;> rfl

theorem sound_int (F : FloatOps) (k : Kind) (ik : IKind) (hk : k.ikind? = some ik) (m : Meth) (hm : m ∈ methodsOf k)
    (args : List Val) (h : argsHaveKinds (paramKinds k m) args = true) :
    runRaw F (arm k m) args = spec F k m args ∧ (spec F k m args).isSome = true := by
  have hkb : k ≠ .bool := by intro e; subst e; simp [Kind.ikind?] at hk
  rw [methodsOf_int hk] at hm
  simp only [List.mem_cons, List.mem_nil_iff, or_false] at hm
  rcases hm with rfl | rfl | rfl | rfl | rfl | rfl | rfl | rfl | rfl | rfl | rfl | rfl | rfl | rfl | rfl | rfl <;>
    simp only [paramKinds, params, List.map] at h
  -- equal
  · obtain ⟨a, b, rfl, ha, hb⟩ := ahk2 h
    obtain ⟨x, rfl⟩ := inv_int hk ha
    obtain ⟨y, rfl⟩ := inv_int hk hb
    exact ⟨raw2 F k _ (Or.inl rfl) _ _, by simp [spec, binop, BinOp.isShift, intBin, liftX]⟩
  -- cmp
  · obtain ⟨a, b, rfl, ha, hb⟩ := ahk2 h
    obtain ⟨x, rfl⟩ := inv_int hk ha
    obtain ⟨y, rfl⟩ := inv_int hk hb
    refine ⟨rawCmp F k _ _, ?_⟩
    simp only [spec, cmp3, binop, BinOp.isShift, intBin, dite_true, Bool.false_eq_true, if_false]
    cases I.lt ik.signed x y <;> simp [liftX, I.gt]
    cases I.lt ik.signed y x <;> simp [liftX]
  -- less
  · obtain ⟨a, b, rfl, ha, hb⟩ := ahk2 h
    obtain ⟨x, rfl⟩ := inv_int hk ha
    obtain ⟨y, rfl⟩ := inv_int hk hb
    exact ⟨raw2 F k _ (Or.inr rfl) _ _, by simp [spec, binop, BinOp.isShift, intBin, liftX]⟩
  -- add sub mul
  iterate 3
    · obtain ⟨z, a, b, rfl, _, ha, hb⟩ := ahk3 h
      obtain ⟨x, rfl⟩ := inv_int hk ha
      obtain ⟨y, rfl⟩ := inv_int hk hb
      exact ⟨raw3 F k _ (by simp) _ _ _, by simp [spec, binop, BinOp.isShift, intBin, liftX]⟩
  -- quo
  · obtain ⟨z, a, b, rfl, _, ha, hb⟩ := ahk3 h
    obtain ⟨x, rfl⟩ := inv_int hk ha
    obtain ⟨y, rfl⟩ := inv_int hk hb
    refine ⟨raw3 F k _ (by simp) _ _ _, ?_⟩
    simp only [spec, binop, BinOp.isShift, intBin, dite_true, Bool.false_eq_true, if_false, I.quo]
    split <;> simp [Outcome.map, liftX]
  -- neg
  · obtain ⟨z, a, rfl, _, ha⟩ := ahk2 h
    obtain ⟨x, rfl⟩ := inv_int hk ha
    exact ⟨raw1 F k _ (Or.inl rfl) _ _, by simp [spec, unop, liftX]⟩
  -- rem
  · obtain ⟨z, a, b, rfl, _, ha, hb⟩ := ahk3 h
    obtain ⟨x, rfl⟩ := inv_int hk ha
    obtain ⟨y, rfl⟩ := inv_int hk hb
    refine ⟨raw3 F k _ (by simp) _ _ _, ?_⟩
    simp only [spec, binop, BinOp.isShift, intBin, dite_true, Bool.false_eq_true, if_false, I.rem]
    split <;> simp [Outcome.map, liftX]
  -- and andNot or xor
  iterate 4
    · obtain ⟨z, a, b, rfl, _, ha, hb⟩ := ahk3 h
      obtain ⟨x, rfl⟩ := inv_int hk ha
      obtain ⟨y, rfl⟩ := inv_int hk hb
      exact ⟨raw3 F k _ (by simp) _ _ _, by simp [spec, binop, BinOp.isShift, intBin, liftX]⟩
  -- not
  · obtain ⟨z, a, rfl, _, ha⟩ := ahk2 h
    obtain ⟨x, rfl⟩ := inv_int hk ha
    exact ⟨raw1 F k _ (Or.inr rfl) _ _, by simp [spec, unop, liftX, hkb]⟩
  -- lsh rsh
  iterate 2
    · obtain ⟨z, a, c, rfl, _, ha, hc⟩ := ahk3 h
      obtain ⟨x, rfl⟩ := inv_int hk ha
      obtain ⟨n, rfl⟩ := inv_int (k := .uint8) (ik := ⟨8, false⟩) rfl hc
      exact ⟨raw3 F k _ (by simp) _ _ _, by simp [spec, binop, BinOp.isShift, intShift, I.shiftCount, Outcome.map, liftX]⟩


/-! ### bool, float, complex and string kinds -/

theorem cmp3_defined (F : FloatOps) (a b : Val) (h1 : ∃ p, binop F .lss a b = some (ok (.bool p)))
    (h2 : ∃ q, binop F .gtr a b = some (ok (.bool q))) : (liftX (cmp3 F a b)).isSome = true := by
  obtain ⟨p, hp⟩ := h1
  obtain ⟨q, hq⟩ := h2
  simp only [cmp3, hp, hq]
  cases p <;> cases q <;> simp [liftX]

theorem sound_other (F : FloatOps) (k : Kind) (hk : k.ikind? = none) (m : Meth) (hm : m ∈ methodsOf k)
    (args : List Val) (h : argsHaveKinds (paramKinds k m) args = true) :
    runRaw F (arm k m) args = spec F k m args ∧ (spec F k m args).isSome = true := by
  cases k <;> simp [Kind.ikind?] at hk <;>
    simp only [methodsOf, List.mem_cons, List.mem_nil_iff, or_false] at hm
  -- bool
  · rcases hm with rfl | rfl <;> simp only [paramKinds, params, List.map] at h
    · obtain ⟨a, b, rfl, ha, hb⟩ := ahk2 h
      obtain ⟨x, rfl⟩ := inv_bool ha
      obtain ⟨y, rfl⟩ := inv_bool hb
      exact ⟨raw2 F _ _ (Or.inl rfl) _ _, by simp [spec, binop, liftX]⟩
    · obtain ⟨z, a, rfl, _, ha⟩ := ahk2 h
      obtain ⟨x, rfl⟩ := inv_bool ha
      exact ⟨raw1 F _ _ (Or.inr rfl) _ _, by simp [spec, unop, liftX]⟩
  -- float32
  · rcases hm with rfl | rfl | rfl | rfl | rfl | rfl | rfl | rfl <;> simp only [paramKinds, params, List.map] at h
    · obtain ⟨a, b, rfl, ha, hb⟩ := ahk2 h
      obtain ⟨x, rfl⟩ := inv_f32 ha
      obtain ⟨y, rfl⟩ := inv_f32 hb
      exact ⟨raw2 F _ _ (Or.inl rfl) _ _, by simp [spec, binop, liftX]⟩
    · obtain ⟨a, b, rfl, ha, hb⟩ := ahk2 h
      obtain ⟨x, rfl⟩ := inv_f32 ha
      obtain ⟨y, rfl⟩ := inv_f32 hb
      exact ⟨rawCmp F _ _ _, cmp3_defined F _ _ ⟨_, rfl⟩ ⟨_, rfl⟩⟩
    · obtain ⟨a, b, rfl, ha, hb⟩ := ahk2 h
      obtain ⟨x, rfl⟩ := inv_f32 ha
      obtain ⟨y, rfl⟩ := inv_f32 hb
      exact ⟨raw2 F _ _ (Or.inr rfl) _ _, by simp [spec, binop, liftX]⟩
    iterate 4
      · obtain ⟨z, a, b, rfl, _, ha, hb⟩ := ahk3 h
        obtain ⟨x, rfl⟩ := inv_f32 ha
        obtain ⟨y, rfl⟩ := inv_f32 hb
        exact ⟨raw3 F _ _ (by simp) _ _ _, by simp [spec, binop, liftX]⟩
    · obtain ⟨z, a, rfl, _, ha⟩ := ahk2 h
      obtain ⟨x, rfl⟩ := inv_f32 ha
      exact ⟨raw1 F _ _ (Or.inl rfl) _ _, by simp [spec, unop, liftX]⟩
  -- float64
  · rcases hm with rfl | rfl | rfl | rfl | rfl | rfl | rfl | rfl <;> simp only [paramKinds, params, List.map] at h
    · obtain ⟨a, b, rfl, ha, hb⟩ := ahk2 h
      obtain ⟨x, rfl⟩ := inv_f64 ha
      obtain ⟨y, rfl⟩ := inv_f64 hb
      exact ⟨raw2 F _ _ (Or.inl rfl) _ _, by simp [spec, binop, liftX]⟩
    · obtain ⟨a, b, rfl, ha, hb⟩ := ahk2 h
      obtain ⟨x, rfl⟩ := inv_f64 ha
      obtain ⟨y, rfl⟩ := inv_f64 hb
      exact ⟨rawCmp F _ _ _, cmp3_defined F _ _ ⟨_, rfl⟩ ⟨_, rfl⟩⟩
    · obtain ⟨a, b, rfl, ha, hb⟩ := ahk2 h
      obtain ⟨x, rfl⟩ := inv_f64 ha
      obtain ⟨y, rfl⟩ := inv_f64 hb
      exact ⟨raw2 F _ _ (Or.inr rfl) _ _, by simp [spec, binop, liftX]⟩
    iterate 4
      · obtain ⟨z, a, b, rfl, _, ha, hb⟩ := ahk3 h
        obtain ⟨x, rfl⟩ := inv_f64 ha
        obtain ⟨y, rfl⟩ := inv_f64 hb
        exact ⟨raw3 F _ _ (by simp) _ _ _, by simp [spec, binop, liftX]⟩
    · obtain ⟨z, a, rfl, _, ha⟩ := ahk2 h
      obtain ⟨x, rfl⟩ := inv_f64 ha
      exact ⟨raw1 F _ _ (Or.inl rfl) _ _, by simp [spec, unop, liftX]⟩
  -- complex64
  · rcases hm with rfl | rfl | rfl | rfl | rfl | rfl | rfl | rfl <;> simp only [paramKinds, params, List.map] at h
    · obtain ⟨a, b, rfl, ha, hb⟩ := ahk2 h
      obtain ⟨xr, xi, rfl⟩ := inv_c64 ha
      obtain ⟨yr, yi, rfl⟩ := inv_c64 hb
      exact ⟨raw2 F _ _ (Or.inl rfl) _ _, by simp [spec, binop, liftX]⟩
    iterate 4
      · obtain ⟨z, a, b, rfl, _, ha, hb⟩ := ahk3 h
        obtain ⟨xr, xi, rfl⟩ := inv_c64 ha
        obtain ⟨yr, yi, rfl⟩ := inv_c64 hb
        exact ⟨raw3 F _ _ (by simp) _ _ _, by simp [spec, binop, liftX]⟩
    · obtain ⟨z, a, rfl, _, ha⟩ := ahk2 h
      obtain ⟨xr, xi, rfl⟩ := inv_c64 ha
      exact ⟨raw1 F _ _ (Or.inl rfl) _ _, by simp [spec, unop, liftX]⟩
    · obtain ⟨a, rfl, ha⟩ := ahk1 h
      obtain ⟨xr, xi, rfl⟩ := inv_c64 ha
      exact ⟨raw_real F _ _, by simp [spec]⟩
    · obtain ⟨a, rfl, ha⟩ := ahk1 h
      obtain ⟨xr, xi, rfl⟩ := inv_c64 ha
      exact ⟨raw_imag F _ _, by simp [spec]⟩
  -- complex128
  · rcases hm with rfl | rfl | rfl | rfl | rfl | rfl | rfl | rfl <;> simp only [paramKinds, params, List.map] at h
    · obtain ⟨a, b, rfl, ha, hb⟩ := ahk2 h
      obtain ⟨xr, xi, rfl⟩ := inv_c128 ha
      obtain ⟨yr, yi, rfl⟩ := inv_c128 hb
      exact ⟨raw2 F _ _ (Or.inl rfl) _ _, by simp [spec, binop, liftX]⟩
    iterate 4
      · obtain ⟨z, a, b, rfl, _, ha, hb⟩ := ahk3 h
        obtain ⟨xr, xi, rfl⟩ := inv_c128 ha
        obtain ⟨yr, yi, rfl⟩ := inv_c128 hb
        exact ⟨raw3 F _ _ (by simp) _ _ _, by simp [spec, binop, liftX]⟩
    · obtain ⟨z, a, rfl, _, ha⟩ := ahk2 h
      obtain ⟨xr, xi, rfl⟩ := inv_c128 ha
      exact ⟨raw1 F _ _ (Or.inl rfl) _ _, by simp [spec, unop, liftX]⟩
    · obtain ⟨a, rfl, ha⟩ := ahk1 h
      obtain ⟨xr, xi, rfl⟩ := inv_c128 ha
      exact ⟨raw_real F _ _, by simp [spec]⟩
    · obtain ⟨a, rfl, ha⟩ := ahk1 h
      obtain ⟨xr, xi, rfl⟩ := inv_c128 ha
      exact ⟨raw_imag F _ _, by simp [spec]⟩
  -- string
  · rcases hm with rfl | rfl | rfl | rfl | rfl | rfl | rfl <;> simp only [paramKinds, params, List.map] at h
    · obtain ⟨a, b, rfl, ha, hb⟩ := ahk2 h
      obtain ⟨x, rfl⟩ := inv_str ha
      obtain ⟨y, rfl⟩ := inv_str hb
      exact ⟨raw2 F _ _ (Or.inl rfl) _ _, by simp [spec, binop, liftX]⟩
    · obtain ⟨a, b, rfl, ha, hb⟩ := ahk2 h
      obtain ⟨x, rfl⟩ := inv_str ha
      obtain ⟨y, rfl⟩ := inv_str hb
      exact ⟨rawCmp F _ _ _, cmp3_defined F _ _ ⟨_, rfl⟩ ⟨_, rfl⟩⟩
    · obtain ⟨a, b, rfl, ha, hb⟩ := ahk2 h
      obtain ⟨x, rfl⟩ := inv_str ha
      obtain ⟨y, rfl⟩ := inv_str hb
      exact ⟨raw2 F _ _ (Or.inr rfl) _ _, by simp [spec, binop, liftX]⟩
    · obtain ⟨z, a, b, rfl, _, ha, hb⟩ := ahk3 h
      obtain ⟨x, rfl⟩ := inv_str ha
      obtain ⟨y, rfl⟩ := inv_str hb
      exact ⟨raw3 F _ _ (by simp) _ _ _, by simp [spec, binop, liftX]⟩
    · obtain ⟨a, b, rfl, ha, hb⟩ := ahk2 h
      obtain ⟨x, rfl⟩ := inv_str ha
      obtain ⟨i, rfl⟩ := inv_int (k := .int) (ik := ⟨64, true⟩) rfl hb
      exact ⟨raw_index F _ _ _, by simp [spec]⟩
    · obtain ⟨a, rfl, ha⟩ := ahk1 h
      obtain ⟨x, rfl⟩ := inv_str ha
      exact ⟨raw_len F _ _, by simp [spec]⟩
    · obtain ⟨a, b, c, rfl, ha, hb, hc⟩ := ahk3 h
      obtain ⟨x, rfl⟩ := inv_str ha
      obtain ⟨i, rfl⟩ := inv_int (k := .int) (ik := ⟨64, true⟩) rfl hb
      obtain ⟨j, rfl⟩ := inv_int (k := .int) (ik := ⟨64, true⟩) rfl hc
      exact ⟨raw_slice F _ _ _ _, by simp [spec]⟩

/-- every expected arm, on all arguments of the declared kinds -/
theorem table_sound (F : FloatOps) (k : Kind) (m : Meth) (hm : m ∈ methodsOf k) (args : List Val)
    (h : argsHaveKinds (paramKinds k m) args = true) :
    run F (arm k m) args = spec F k m args ∧ (spec F k m args).isSome = true := by
  rw [run_arm, if_pos h]
  cases hk : k.ikind? with
  | none => exact sound_other F k hk m hm args h
  | some ik => exact sound_int F k ik hk m hm args h

end CtiProofs
