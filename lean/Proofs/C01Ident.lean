import Proofs.C01Sound
/-! Variable reads (identifier.go): every arm of `Bind.expr`, `Symbol.expr`, `Bind.intExpr`,
    `Symbol.intExpr` reads slot/box `idx` of exactly the frame named by its path. -/
namespace C01Ident
open ClosureIR GoSpec C01Arms GoSpec.Outcome C01Sound

/-- the frame `n` hops above the current one -/
def frameAt (cur : List Frame) (n : Nat) : Option Frame := cur[n]?

/-- which frame an arm of `Symbol.expr/intExpr`, `Bind.expr/intExpr` reads -/
def hopsFrame (h : Hops) (upn : Nat) (cur file : List Frame) : Option Frame :=
  match h with
  | .h0 => cur[0]?
  | .h1 => cur[1]?
  | .h2 => cur[2]?
  | .file => file[0]?
  | .top => file[1]?
  | .up => cur[upn]?

theorem dropFrames_get (n : Nat) (cur : List Frame) (fr : Frame) (h : cur[n]? = some fr) :
    ∃ rest, dropFrames n cur = some (fr :: rest) := by
  induction n generalizing cur with
  | zero =>
    cases cur with
    | nil => simp at h
    | cons a t => simp at h; exact ⟨t, by simp [dropFrames, h]⟩
  | succ m ih =>
    cases cur with
    | nil => simp at h
    | cons a t =>
      simp at h
      obtain ⟨rest, hr⟩ := ih t h
      exact ⟨rest, by simp [dropFrames, hr]⟩

/-- **boxed read**: every `Vals` arm returns the value stored at `idx` in exactly the frame its path
    names (hop count of the arm = `upn` of the path), at the kind of the arm -/
theorem vals_read_sound (F : FloatOps) (hF : FloatRoundTrip F) (obj : String) (hobj : obj = "bind" ∨ obj = "sym")
    (h : Hops) (k : Kind) (upn idx : Nat)
    (cur file : List Frame) (fr : Frame) (v : Val) (hv : v.hasKind k = true)
    (hfr : hopsFrame h upn cur file = some fr) (hval : fr.vals[idx]? = some v) (ρ : Store)
    (henv : lookup ρ "env" = some (.env cur file))
    (hidx : lookup ρ (obj ++ ".Desc.Index()") = some (.nat idx))
    (hupn : lookup ρ (obj ++ ".Upn") = some (.nat upn)) :
    evalArm F ρ (valsRead obj h k) = some (.ok v) := by
  have key : ∀ (ρ' : Store) (rv : E), evalE F ρ' rv = okV (.rvalue v) →
      (match evalE F ρ' (constOf k rv) with
        | none => none
        | some (Outcome.panic p) => some (Outcome.panic p)
        | some (ok v) => retVal v) = some (ok v) := by
    intro ρ' rv hrv
    rw [constOf_eval F hF ρ' k v rv hv hrv]; rfl
  rcases hobj with rfl | rfl <;>
  · cases h with
    | h0 =>
      cases cur with
      | nil => simp [hopsFrame] at hfr
      | cons a t =>
        simp [hopsFrame] at hfr; subst hfr
        simp [valsRead, evalArm, evalBinds, evalE, methKey, isCompileTimeGetter, fieldKey, hidx, okV, update, execBody, execS] at *
        apply key
        simp [hopsEnv, evalE, fieldKey, lookup, henv, okV, evalSel, evalIndex, hval]
    | h1 =>
      match cur, hfr with
      | a :: b :: t, hfr =>
        simp [hopsFrame] at hfr; subst hfr
        simp [valsRead, evalArm, evalBinds, evalE, methKey, isCompileTimeGetter, fieldKey, hidx, okV, update, execBody, execS] at *
        apply key
        simp [hopsEnv, evalE, fieldKey, lookup, henv, okV, evalSel, evalIndex, hval]
      | [_], hfr => simp [hopsFrame] at hfr
      | [], hfr => simp [hopsFrame] at hfr
    | h2 =>
      match cur, hfr with
      | a :: b :: c :: t, hfr =>
        simp [hopsFrame] at hfr; subst hfr
        simp [valsRead, evalArm, evalBinds, evalE, methKey, isCompileTimeGetter, fieldKey, hidx, okV, update, execBody, execS] at *
        apply key
        simp [hopsEnv, evalE, fieldKey, lookup, henv, okV, evalSel, evalIndex, hval]
      | [_, _], hfr => simp [hopsFrame] at hfr
      | [_], hfr => simp [hopsFrame] at hfr
      | [], hfr => simp [hopsFrame] at hfr
    | file =>
      match file, hfr with
      | a :: t, hfr =>
        simp [hopsFrame] at hfr; subst hfr
        simp [valsRead, evalArm, evalBinds, evalE, methKey, isCompileTimeGetter, fieldKey, hidx, okV, update, execBody, execS] at *
        apply key
        simp [hopsEnv, evalE, fieldKey, lookup, henv, okV, evalSel, evalIndex, hval]
      | [], hfr => simp [hopsFrame] at hfr
    | top =>
      match file, hfr with
      | a :: b :: t, hfr =>
        simp [hopsFrame] at hfr; subst hfr
        simp [valsRead, evalArm, evalBinds, evalE, methKey, isCompileTimeGetter, fieldKey, hidx, okV, update, execBody, execS] at *
        apply key
        simp [hopsEnv, evalE, fieldKey, lookup, henv, okV, evalSel, evalIndex, hval]
      | [_], hfr => simp [hopsFrame] at hfr
      | [], hfr => simp [hopsFrame] at hfr
    | up =>
      simp only [hopsFrame] at hfr
      obtain ⟨rest, hd⟩ := dropFrames_get upn cur fr hfr
      simp [valsRead, evalArm, evalBinds, evalE, methKey, isCompileTimeGetter, fieldKey, hidx, hupn, okV, update, execBody, execS,
        lookup, henv, evalMeth1, hd] at *
      apply key
      simp [hopsEnv, evalE, fieldKey, lookup, okV, evalSel, evalIndex, hval]

theorem readSlot_u64 (l : List (BitVec 64)) (idx : Nat) : Option.map Outcome.ok (readSlot .uint64 l idx) =
    Option.map (fun w => ok (Val.int ⟨64, false⟩ w)) (l[idx]?) := by
  unfold readSlot; cases l[idx]? <;> simp [Kind.ikind?]

/-- the slot expression of an `Ints` arm designates slot `idx` of the frame named by the path -/
theorem slot_eval (F : FloatOps) (h : Hops) (hup : h ≠ .up) (upn idx : Nat) (cur file : List Frame) (fr : Frame)
    (hfr : hopsFrame h upn cur file = some fr) (ρ : Store)
    (henv : lookup ρ "env" = some (.env cur file)) (hidx : lookup ρ "idx" = some (.nat idx)) :
    evalE F ρ (.index (.sel (hopsEnv h) "Ints") (.var "idx")) = okV (.slot fr.ints idx) := by
  cases h with
  | up => exact absurd rfl hup
  | h0 =>
    match cur, hfr with
    | a :: t, hfr =>
      simp [hopsFrame] at hfr; subst hfr
      simp [hopsEnv, evalE, fieldKey, lookup, henv, hidx, okV, evalSel, evalIndex]
    | [], hfr => simp [hopsFrame] at hfr
  | h1 =>
    match cur, hfr with
    | a :: b :: t, hfr =>
      simp [hopsFrame] at hfr; subst hfr
      simp [hopsEnv, evalE, fieldKey, lookup, henv, hidx, okV, evalSel, evalIndex]
    | [_], hfr => simp [hopsFrame] at hfr
    | [], hfr => simp [hopsFrame] at hfr
  | h2 =>
    match cur, hfr with
    | a :: b :: c :: t, hfr =>
      simp [hopsFrame] at hfr; subst hfr
      simp [hopsEnv, evalE, fieldKey, lookup, henv, hidx, okV, evalSel, evalIndex]
    | [_, _], hfr => simp [hopsFrame] at hfr
    | [_], hfr => simp [hopsFrame] at hfr
    | [], hfr => simp [hopsFrame] at hfr
  | file =>
    match file, hfr with
    | a :: t, hfr =>
      simp [hopsFrame] at hfr; subst hfr
      simp [hopsEnv, evalE, fieldKey, lookup, henv, hidx, okV, evalSel, evalIndex]
    | [], hfr => simp [hopsFrame] at hfr
  | top =>
    match file, hfr with
    | a :: b :: t, hfr =>
      simp [hopsFrame] at hfr; subst hfr
      simp [hopsEnv, evalE, fieldKey, lookup, henv, hidx, okV, evalSel, evalIndex]
    | [_], hfr => simp [hopsFrame] at hfr
    | [], hfr => simp [hopsFrame] at hfr

/-- reading through the slot expression at kind `k` -/
theorem read_of_slot (F : FloatOps) (k : Kind) (hk : k ∈ intsKinds) (ρ : Store) (slot : E) (l : List (BitVec 64)) (idx : Nat)
    (hs : evalE F ρ slot = okV (.slot l idx)) :
    (match evalE F ρ (if k = .uint64 then slot else .deref (.ptrCast k (.call1 "unsafe.Pointer" (.addr slot)))) with
      | none => none
      | some (Outcome.panic p) => some (Outcome.panic p)
      | some (ok v) => retVal v) = (readSlot k l idx).map Outcome.ok := by
  simp only [intsKinds, numKinds, intKinds, sintKinds, uintKinds, List.cons_append, List.nil_append, List.mem_cons,
    List.mem_nil_iff, or_false] at hk
  rcases hk with rfl | rfl | rfl | rfl | rfl | rfl | rfl | rfl | rfl | rfl | rfl | rfl | rfl | rfl | rfl | rfl <;>
  simp [evalE, hs, okV, okVal, evalCall1, retVal, readSlot_u64] <;>
  (first | done | (cases h1 : readSlot _ l idx <;> simp [h1]))

set_option maxHeartbeats 1000000 in
theorem ints_read_h0 (F : FloatOps) (obj : String) (hobj : obj = "bind" ∨ obj = "sym")
    (k : Kind) (hk : k ∈ intsKinds) (upn idx : Nat) (cur file : List Frame) (fr : Frame)
    (hfr : hopsFrame .h0 upn cur file = some fr) (ρ : Store)
    (henv : lookup ρ "env" = some (.env cur file))
    (hidx : lookup ρ (obj ++ ".Desc.Index()") = some (.nat idx)) :
    evalArm F ρ (intsRead obj .h0 k) = (readSlot k fr.ints idx).map Outcome.ok := by
  rcases hobj with rfl | rfl <;>
  · simp at hidx
    simp only [intsRead, evalArm, evalBinds, evalE, methKey, isCompileTimeGetter, fieldKey, hidx, okV, update,
      execBody, execS, lookup, bindR, String.reduceAppend, beq_self_eq_true, Bool.or_true, Bool.true_or,
      if_true, Option.bind, String.reduceEq, if_false, String.reduceBEq, Bool.false_eq_true]
    apply read_of_slot F k hk
    exact slot_eval F .h0 (by decide) upn idx cur file fr hfr _ (by simp [lookup, henv]) (by simp [lookup])

set_option maxHeartbeats 1000000 in
theorem ints_read_h1 (F : FloatOps) (obj : String) (hobj : obj = "bind" ∨ obj = "sym")
    (k : Kind) (hk : k ∈ intsKinds) (upn idx : Nat) (cur file : List Frame) (fr : Frame)
    (hfr : hopsFrame .h1 upn cur file = some fr) (ρ : Store)
    (henv : lookup ρ "env" = some (.env cur file))
    (hidx : lookup ρ (obj ++ ".Desc.Index()") = some (.nat idx)) :
    evalArm F ρ (intsRead obj .h1 k) = (readSlot k fr.ints idx).map Outcome.ok := by
  rcases hobj with rfl | rfl <;>
  · simp at hidx
    simp only [intsRead, evalArm, evalBinds, evalE, methKey, isCompileTimeGetter, fieldKey, hidx, okV, update,
      execBody, execS, lookup, bindR, String.reduceAppend, beq_self_eq_true, Bool.or_true, Bool.true_or,
      if_true, Option.bind, String.reduceEq, if_false, String.reduceBEq, Bool.false_eq_true]
    apply read_of_slot F k hk
    exact slot_eval F .h1 (by decide) upn idx cur file fr hfr _ (by simp [lookup, henv]) (by simp [lookup])

set_option maxHeartbeats 1000000 in
theorem ints_read_h2 (F : FloatOps) (obj : String) (hobj : obj = "bind" ∨ obj = "sym")
    (k : Kind) (hk : k ∈ intsKinds) (upn idx : Nat) (cur file : List Frame) (fr : Frame)
    (hfr : hopsFrame .h2 upn cur file = some fr) (ρ : Store)
    (henv : lookup ρ "env" = some (.env cur file))
    (hidx : lookup ρ (obj ++ ".Desc.Index()") = some (.nat idx)) :
    evalArm F ρ (intsRead obj .h2 k) = (readSlot k fr.ints idx).map Outcome.ok := by
  rcases hobj with rfl | rfl <;>
  · simp at hidx
    simp only [intsRead, evalArm, evalBinds, evalE, methKey, isCompileTimeGetter, fieldKey, hidx, okV, update,
      execBody, execS, lookup, bindR, String.reduceAppend, beq_self_eq_true, Bool.or_true, Bool.true_or,
      if_true, Option.bind, String.reduceEq, if_false, String.reduceBEq, Bool.false_eq_true]
    apply read_of_slot F k hk
    exact slot_eval F .h2 (by decide) upn idx cur file fr hfr _ (by simp [lookup, henv]) (by simp [lookup])

set_option maxHeartbeats 1000000 in
theorem ints_read_file (F : FloatOps) (obj : String) (hobj : obj = "bind" ∨ obj = "sym")
    (k : Kind) (hk : k ∈ intsKinds) (upn idx : Nat) (cur file : List Frame) (fr : Frame)
    (hfr : hopsFrame .file upn cur file = some fr) (ρ : Store)
    (henv : lookup ρ "env" = some (.env cur file))
    (hidx : lookup ρ (obj ++ ".Desc.Index()") = some (.nat idx)) :
    evalArm F ρ (intsRead obj .file k) = (readSlot k fr.ints idx).map Outcome.ok := by
  rcases hobj with rfl | rfl <;>
  · simp at hidx
    simp only [intsRead, evalArm, evalBinds, evalE, methKey, isCompileTimeGetter, fieldKey, hidx, okV, update,
      execBody, execS, lookup, bindR, String.reduceAppend, beq_self_eq_true, Bool.or_true, Bool.true_or,
      if_true, Option.bind, String.reduceEq, if_false, String.reduceBEq, Bool.false_eq_true]
    apply read_of_slot F k hk
    exact slot_eval F .file (by decide) upn idx cur file fr hfr _ (by simp [lookup, henv]) (by simp [lookup])

set_option maxHeartbeats 1000000 in
theorem ints_read_up (F : FloatOps) (obj : String) (hobj : obj = "bind" ∨ obj = "sym")
    (k : Kind) (hk : k ∈ intsKinds) (upn idx : Nat) (cur file : List Frame) (fr : Frame)
    (hfr : hopsFrame .up upn cur file = some fr) (ρ : Store)
    (henv : lookup ρ "env" = some (.env cur file))
    (hidx : lookup ρ (obj ++ ".Desc.Index()") = some (.nat idx))
    (hupn : lookup ρ (obj ++ ".Upn") = some (.nat upn)) :
    evalArm F ρ (intsRead obj .up k) = (readSlot k fr.ints idx).map Outcome.ok := by
  simp only [hopsFrame] at hfr
  obtain ⟨rest, hd⟩ := dropFrames_get upn cur fr hfr
  rcases hobj with rfl | rfl <;>
  · simp at hidx hupn
    simp only [intsRead, evalArm, evalBinds, evalE, methKey, isCompileTimeGetter, fieldKey, hidx, hupn, okV, update,
      execBody, execS, lookup, henv, evalMeth1, hd, bindR, String.reduceAppend, beq_self_eq_true, Bool.true_or,
      if_true, Option.bind, String.reduceEq, if_false, String.reduceBEq, Bool.false_eq_true]
    apply read_of_slot F k hk
    simp [hopsEnv, evalE, fieldKey, lookup, okV, evalSel, evalIndex]

/-- **unboxed read**: every `Ints` arm reinterprets slot `idx` of exactly the frame its path names
    at the kind of the arm (`uint64` reads the slot itself) -/
theorem ints_read_sound (F : FloatOps) (obj : String) (hobj : obj = "bind" ∨ obj = "sym")
    (h : Hops) (htop : h ≠ .top) (k : Kind) (hk : k ∈ intsKinds) (upn idx : Nat)
    (cur file : List Frame) (fr : Frame)
    (hfr : hopsFrame h upn cur file = some fr) (ρ : Store)
    (henv : lookup ρ "env" = some (.env cur file))
    (hidx : lookup ρ (obj ++ ".Desc.Index()") = some (.nat idx))
    (hupn : lookup ρ (obj ++ ".Upn") = some (.nat upn)) :
    evalArm F ρ (intsRead obj h k) = (readSlot k fr.ints idx).map Outcome.ok := by
  cases h with
  | top => exact absurd rfl htop
  | h0 => exact ints_read_h0 F obj hobj k hk upn idx cur file fr hfr ρ henv hidx
  | h1 => exact ints_read_h1 F obj hobj k hk upn idx cur file fr hfr ρ henv hidx
  | h2 => exact ints_read_h2 F obj hobj k hk upn idx cur file fr hfr ρ henv hidx
  | file => exact ints_read_file F obj hobj k hk upn idx cur file fr hfr ρ henv hidx
  | up => exact ints_read_up F obj hobj k hk upn idx cur file fr hfr ρ henv hidx hupn

end C01Ident
