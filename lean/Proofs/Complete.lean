import Model.Complete
/-! Lemmas about `Model/Complete.lean` (core Lean only). -/
namespace Complete

/-! ## the order on strings -/

theorem ltS_irrefl : ∀ a : Str, ltS a a = false
  | [] => rfl
  | a :: as => by simp [ltS, ltS_irrefl as]

theorem ltS_trans : ∀ {a b c : Str}, ltS a b = true → ltS b c = true → ltS a c = true
  | [], [], _, h, _ => by simp [ltS] at h
  | [], _ :: _, [], _, h => by simp [ltS] at h
  | [], _ :: _, _ :: _, _, _ => by simp [ltS]
  | _ :: _, [], _, h, _ => by simp [ltS] at h
  | _ :: _, _ :: _, [], _, h => by simp [ltS] at h
  | a :: as, b :: bs, c :: cs, h1, h2 => by
    simp only [ltS] at h1 h2 ⊢
    by_cases hab : a < b
    · by_cases hbc : b < c
      · have : a < c := Nat.lt_trans hab hbc
        simp [this]
      · simp only [hbc, if_false] at h2
        by_cases hcb : c < b
        · simp [hcb] at h2
        · have : b = c := by omega
          subst this; simp [hab]
    · simp only [hab, if_false] at h1
      by_cases hba : b < a
      · simp [hba] at h1
      · simp only [hba, if_false] at h1
        have : a = b := by omega
        subst this
        by_cases hac : a < c
        · simp [hac]
        · simp only [hac, if_false] at h2 ⊢
          by_cases hca : c < a
          · simp [hca] at h2
          · simp only [hca, if_false] at h2 ⊢
            exact ltS_trans h1 h2

theorem ltS_asymm {a b : Str} (h : ltS a b = true) : ltS b a = false := by
  cases hb : ltS b a with
  | false => rfl
  | true => have := ltS_trans h hb; rw [ltS_irrefl] at this; cases this

theorem ltS_total : ∀ {a b : Str}, ltS a b = false → ltS b a = false → a = b
  | [], [], _, _ => rfl
  | [], _ :: _, h, _ => by simp [ltS] at h
  | _ :: _, [], _, h => by simp [ltS] at h
  | a :: as, b :: bs, h1, h2 => by
    simp only [ltS] at h1 h2
    by_cases hab : a < b
    · simp [hab] at h1
    · by_cases hba : b < a
      · simp [hba] at h2
      · simp only [hab, hba, if_false] at h1 h2
        have : a = b := by omega
        subst this
        rw [ltS_total h1 h2]

/-- `¬ b < a` is transitive -/
theorem leS_trans {a b c : Str} (h1 : ltS b a = false) (h2 : ltS c b = false) : ltS c a = false := by
  cases h : ltS c a with
  | false => rfl
  | true =>
    -- c < a, ¬ b < a, ¬ c < b
    cases hab : ltS a b with
    | true => have := ltS_trans h hab; rw [h2] at this; cases this
    | false => have := ltS_total hab h1; subst this; rw [h2] at h; cases h

/-- strictly increasing -/
def StrictSorted (l : List Str) : Prop := l.Pairwise (fun a b => ltS a b = true)
/-- non-decreasing -/
def SortedLe (l : List Str) : Prop := l.Pairwise (fun a b => ltS b a = false)

theorem StrictSorted.nodup {l : List Str} (h : StrictSorted l) : l.Nodup := by
  unfold StrictSorted at h
  refine List.Pairwise.imp ?_ h
  intro a b hab heq
  subst heq; rw [ltS_irrefl] at hab; cases hab

/-- a strictly sorted list is determined by its set of members -/
theorem strictSorted_ext : ∀ {l1 l2 : List Str}, StrictSorted l1 → StrictSorted l2 →
    (∀ y, y ∈ l1 ↔ y ∈ l2) → l1 = l2
  | [], [], _, _, _ => rfl
  | [], b :: _, _, _, h => by have := (h b).2 (by simp); simp at this
  | a :: _, [], _, _, h => by have := (h a).1 (by simp); simp at this
  | a :: t1, b :: t2, h1, h2, h => by
    have h1' := List.pairwise_cons.1 h1
    have h2' := List.pairwise_cons.1 h2
    have hab : a = b := by
      have ha := (h a).1 (by simp)
      have hb := (h b).2 (by simp)
      rcases List.mem_cons.1 ha with e | m
      · exact e
      · rcases List.mem_cons.1 hb with e | m'
        · exact e.symm
        · have x := h2'.1 a m
          have y := h1'.1 b m'
          rw [ltS_asymm x] at y; cases y
    subst hab
    have : t1 = t2 := by
      apply strictSorted_ext h1'.2 h2'.2
      intro y
      constructor
      · intro m
        rcases List.mem_cons.1 ((h y).1 (List.mem_cons_of_mem _ m)) with e | m'
        · subst e; have := h1'.1 y m; rw [ltS_irrefl] at this; cases this
        · exact m'
      · intro m
        rcases List.mem_cons.1 ((h y).2 (List.mem_cons_of_mem _ m)) with e | m'
        · subst e; have := h2'.1 y m; rw [ltS_irrefl] at this; cases this
        · exact m'
    rw [this]

/-! ## sort.Strings -/

theorem mem_insertS {x y : Str} : ∀ {l : List Str}, y ∈ insertS x l ↔ y = x ∨ y ∈ l
  | [] => by simp [insertS]
  | z :: zs => by
    simp only [insertS]
    split
    · simp [mem_insertS (l := zs)]; constructor
      · rintro (h | h | h) <;> simp [h]
      · rintro (h | h | h) <;> simp [h]
    · simp

theorem sortedLe_insertS {x : Str} : ∀ {l : List Str}, SortedLe l → SortedLe (insertS x l)
  | [], _ => by simp [insertS, SortedLe]
  | z :: zs, h => by
    have h' := List.pairwise_cons.1 h
    simp only [insertS]
    split
    · rename_i hzx
      refine List.pairwise_cons.2 ⟨?_, sortedLe_insertS h'.2⟩
      intro y hy
      rcases mem_insertS.1 hy with e | m
      · subst e; exact ltS_asymm hzx
      · exact h'.1 y m
    · rename_i hzx
      have hzx : ltS z x = false := by simpa using hzx
      refine List.pairwise_cons.2 ⟨?_, h⟩
      intro y hy
      rcases List.mem_cons.1 hy with e | m
      · subst e; exact hzx
      · exact leS_trans hzx (h'.1 y m)

theorem mem_sortS {y : Str} : ∀ {l : List Str}, y ∈ sortS l ↔ y ∈ l
  | [] => by simp [sortS]
  | x :: xs => by simp [sortS, mem_insertS, mem_sortS (l := xs)]

theorem sortedLe_sortS : ∀ (l : List Str), SortedLe (sortS l)
  | [] => by simp [sortS, SortedLe]
  | _ :: xs => sortedLe_insertS (sortedLe_sortS xs)

theorem length_insertS {x : Str} : ∀ (l : List Str), (insertS x l).length = l.length + 1
  | [] => rfl
  | z :: zs => by simp only [insertS]; split <;> simp [length_insertS zs]

theorem length_sortS : ∀ (l : List Str), (sortS l).length = l.length
  | [] => rfl
  | _ :: xs => by simp [sortS, length_insertS, length_sortS xs]

/-! ## the compaction loop -/

/-- what the loop computes: drop every element equal to its predecessor -/
def dedupFrom (prev : Str) : List Str → List Str
  | [] => []
  | s :: rest => if s != prev then s :: dedupFrom s rest else dedupFrom prev rest

def dedupAdj : List Str → List Str
  | [] => []
  | x :: xs => x :: dedupFrom x xs

/-- invariant of the in-place loop: `vec = out ++ junk ++ rest`, `j = |out|`, `i = |out ++ junk|` -/
theorem compact_spec : ∀ (k : Nat) (out junk rest : List Str) (prev : Str),
    rest.length = k →
    let r := compact (out ++ junk ++ rest) prev out.length (out ++ junk).length k
    r.1.take r.2 = out ++ dedupFrom prev rest
  | 0, out, junk, rest, prev, hk => by
    have : rest = [] := List.eq_nil_of_length_eq_zero hk
    subst this
    simp [compact, dedupFrom]
  | k + 1, out, junk, rest, prev, hk => by
    match rest, hk with
    | s :: rest', hk =>
      have hk' : rest'.length = k := by simpa using hk
      have hget : (out ++ junk ++ s :: rest').getD (out ++ junk).length [] = s := by
        simp [List.getD_eq_getElem?_getD]
      simp only [compact, hget, dedupFrom]
      by_cases hs : (s != prev) = true
      · simp only [hs, if_true]
        cases junk with
        | nil =>
          have hset : (out ++ [] ++ s :: rest').set out.length s = (out ++ [s]) ++ [] ++ rest' := by
            simp
          have := compact_spec k (out ++ [s]) [] rest' s hk'
          simp only [List.append_nil] at this hset ⊢
          rw [hset]
          simpa using this
        | cons x junk0 =>
          have hset : (out ++ x :: junk0 ++ s :: rest').set out.length s
              = (out ++ [s]) ++ (junk0 ++ [s]) ++ rest' := by
            simp
          have := compact_spec k (out ++ [s]) (junk0 ++ [s]) rest' s hk'
          rw [hset]
          have hl : (out ++ x :: junk0).length + 1 = (out ++ [s] ++ (junk0 ++ [s])).length := by
            simp; omega
          have hl2 : out.length + 1 = (out ++ [s]).length := by simp
          rw [hl, hl2]
          simpa using this
      · have hs' : (s != prev) = false := by simpa using hs
        simp only [hs', Bool.false_eq_true, if_false]
        have := compact_spec k out (junk ++ [s]) rest' prev hk'
        have e1 : out ++ junk ++ s :: rest' = out ++ (junk ++ [s]) ++ rest' := by simp
        have e2 : (out ++ junk).length + 1 = (out ++ (junk ++ [s])).length := by simp; omega
        rw [e1, e2]
        exact this

theorem sortUnique_eq (v : List Str) : sortUnique v = dedupAdj (sortS v) := by
  unfold sortUnique
  by_cases hn : v.length > 1
  · simp only [hn, if_true]
    have hl := length_sortS v
    match hs : sortS v, hl with
    | [], hl => simp at hl; omega
    | x :: xs, hl =>
      have hk : xs.length = v.length - 1 := by simp at hl; omega
      have := compact_spec (v.length - 1) [x] [] xs x hk
      simpa [dedupAdj] using this
  · simp only [hn, if_false]
    match v, hn with
    | [], _ => rfl
    | [x], _ => rfl
    | _ :: _ :: _, hn => simp at hn

theorem dedupFrom_spec : ∀ (l : List Str) (prev : Str), SortedLe (prev :: l) →
    StrictSorted (prev :: dedupFrom prev l) ∧ ∀ y, y ∈ prev :: dedupFrom prev l ↔ y ∈ prev :: l
  | [], prev, _ => by simp [dedupFrom, StrictSorted]
  | s :: rest, prev, h => by
    have h' := List.pairwise_cons.1 h
    simp only [dedupFrom]
    by_cases hs : (s != prev) = true
    · simp only [hs, if_true]
      have hne : s ≠ prev := by simpa using hs
      have hle : ltS s prev = false := h'.1 s (by simp)
      have hlt : ltS prev s = true := by
        cases hp : ltS prev s with
        | true => rfl
        | false => exact absurd (ltS_total hp hle).symm hne
      have ih := dedupFrom_spec rest s h'.2
      constructor
      · refine List.pairwise_cons.2 ⟨?_, ih.1⟩
        intro y hy
        rcases List.mem_cons.1 hy with e | m
        · subst e; exact hlt
        · exact ltS_trans hlt ((List.pairwise_cons.1 ih.1).1 y m)
      · intro y
        simp only [List.mem_cons] at ih ⊢
        rw [ih.2 y]
    · have hs' : s = prev := by simpa using hs
      subst hs'
      simp only [bne_self_eq_false, Bool.false_eq_true, if_false]
      have ih := dedupFrom_spec rest s h'.2
      refine ⟨ih.1, ?_⟩
      intro y
      rw [ih.2 y]; simp

theorem dedupAdj_spec {l : List Str} (h : SortedLe l) :
    StrictSorted (dedupAdj l) ∧ ∀ y, y ∈ dedupAdj l ↔ y ∈ l := by
  cases l with
  | nil => simp [dedupAdj, StrictSorted]
  | cons x xs => exact dedupFrom_spec xs x h

theorem strictSorted_sortUnique (v : List Str) : StrictSorted (sortUnique v) := by
  rw [sortUnique_eq]; exact (dedupAdj_spec (sortedLe_sortS v)).1

theorem mem_sortUnique {v : List Str} {y : Str} : y ∈ sortUnique v ↔ y ∈ v := by
  rw [sortUnique_eq, (dedupAdj_spec (sortedLe_sortS v)).2 y, mem_sortS]

/-! ## prefixes -/

theorem hasPrefix_iff {w n : Str} : hasPrefix w n = true ↔ w <+: n := by
  unfold hasPrefix
  constructor
  · intro h
    simp only [Bool.and_eq_true, decide_eq_true_eq, beq_iff_eq] at h
    rw [List.prefix_iff_eq_take]; exact h.2.symm
  · intro h
    simp only [Bool.and_eq_true, decide_eq_true_eq, beq_iff_eq]
    exact ⟨h.length_le, (List.prefix_iff_eq_take.1 h).symm⟩

theorem mem_prefixed {w y : Str} {l : List Str} : y ∈ prefixed w l ↔ y ∈ l ∧ w <+: y := by
  simp [prefixed, hasPrefix_iff]

theorem mem_scopeNames {w y : Str} : ∀ {chain : List Scope},
    y ∈ scopeNames w chain ↔ w <+: y ∧ ∃ s ∈ chain, y ∈ s.binds.map (·.1) ∨ y ∈ s.types.map (·.1)
  | [] => by simp [scopeNames]
  | co :: outer => by
    simp only [scopeNames, List.mem_append, mem_prefixed, mem_scopeNames (chain := outer)]
    constructor
    · rintro ((⟨h, p⟩ | ⟨h, p⟩) | ⟨p, s, hs, h⟩)
      · exact ⟨p, co, by simp, Or.inl h⟩
      · exact ⟨p, co, by simp, Or.inr h⟩
      · exact ⟨p, s, by simp [hs], h⟩
    · rintro ⟨p, s, hs, h⟩
      rcases List.mem_cons.1 hs with e | hs
      · subst e
        rcases h with h | h
        · exact Or.inl (Or.inl ⟨h, p⟩)
        · exact Or.inl (Or.inr ⟨h, p⟩)
      · exact Or.inr ⟨p, s, hs, h⟩

/-! ## fields and methods: VisitFields computes the closure of the embedding relation -/

/-- the fields of the struct type number `id` -/
def fieldsOf (tbl : Table) (id : Nat) : Option (List Field) :=
  match tbl[id]? with
  | some ⟨.struct fs, _⟩ => some fs
  | _ => none

theorem structOf_some {tbl : Table} {t : Ty} {id : Nat} {fs : List Field}
    (h : structOf tbl t = some (id, fs)) : fieldsOf tbl id = some fs ∧ id < tbl.length := by
  unfold structOf at h
  unfold fieldsOf
  split at h
  · rename_i id'
    split at h
    · rename_i fs' ms heq
      simp only [Option.some.injEq, Prod.mk.injEq] at h
      obtain ⟨rfl, rfl⟩ := h
      rw [heq]
      refine ⟨rfl, ?_⟩
      have := List.getElem?_eq_some_iff.1 heq
      exact this.1
    · cases h
  · rename_i id'
    split at h
    · rename_i fs' ms heq
      simp only [Option.some.injEq, Prod.mk.injEq] at h
      obtain ⟨rfl, rfl⟩ := h
      rw [heq]
      refine ⟨rfl, ?_⟩
      have := List.getElem?_eq_some_iff.1 heq
      exact this.1
    · cases h
  · cases h

/-- struct `a` embeds (a pointer to) struct `b` -/
def Embeds (tbl : Table) (a b : Nat) : Prop :=
  ∃ fs f fs', fieldsOf tbl a = some fs ∧ f ∈ fs ∧ f.anon = true ∧ structOf tbl f.ty = some (b, fs')

/-- reflexive transitive closure of `Embeds` -/
inductive Reach (tbl : Table) : Nat → Nat → Prop
  | refl (a : Nat) : Reach tbl a a
  | head {a b c : Nat} : Embeds tbl a b → Reach tbl b c → Reach tbl a c

theorem mem_anonTypes {fs : List Field} {t : Ty} :
    t ∈ anonTypes fs ↔ ∃ f ∈ fs, f.anon = true ∧ f.ty = t := by
  simp [anonTypes, and_assoc]

theorem nextUnseen_none {tbl : Table} {seen : List Nat} : ∀ {q : List Ty},
    nextUnseen tbl seen q = none →
    ∀ t ∈ q, ∀ id fs, structOf tbl t = some (id, fs) → id ∈ seen
  | [], _, t, ht, _, _, _ => by cases ht
  | t0 :: rest, h, t, ht, id, fs, hs => by
    simp only [nextUnseen] at h
    split at h
    · rename_i hnone
      rcases List.mem_cons.1 ht with e | m
      · subst e; rw [hnone] at hs; cases hs
      · exact nextUnseen_none h t m id fs hs
    · rename_i id0 fs0 hsome
      split at h
      · rename_i hin
        rcases List.mem_cons.1 ht with e | m
        · subst e; rw [hsome] at hs; cases hs; exact hin
        · exact nextUnseen_none h t m id fs hs
      · cases h

theorem nextUnseen_some {tbl : Table} {seen : List Nat} {id : Nat} {fs : List Field} {rest : List Ty} :
    ∀ {q : List Ty}, nextUnseen tbl seen q = some (id, fs, rest) →
    id ∉ seen ∧ ∃ skipped t0, q = skipped ++ t0 :: rest ∧ structOf tbl t0 = some (id, fs) ∧
      ∀ t ∈ skipped, ∀ id' fs', structOf tbl t = some (id', fs') → id' ∈ seen
  | [], h => by cases h
  | t0 :: q', h => by
    simp only [nextUnseen] at h
    split at h
    · rename_i hnone
      obtain ⟨hid, sk, t1, hq, hs, hsk⟩ := nextUnseen_some h
      refine ⟨hid, t0 :: sk, t1, by simp [hq], hs, ?_⟩
      intro t ht id' fs' hst
      rcases List.mem_cons.1 ht with e | m
      · subst e; rw [hnone] at hst; cases hst
      · exact hsk t m id' fs' hst
    · rename_i id0 fs0 hsome
      split at h
      · rename_i hin
        obtain ⟨hid, sk, t1, hq, hs, hsk⟩ := nextUnseen_some h
        refine ⟨hid, t0 :: sk, t1, by simp [hq], hs, ?_⟩
        intro t ht id' fs' hst
        rcases List.mem_cons.1 ht with e | m
        · subst e; rw [hsome] at hst; cases hst; exact hin
        · exact hsk t m id' fs' hst
      · rename_i hnin
        simp only [Option.some.injEq, Prod.mk.injEq] at h
        obtain ⟨rfl, rfl, rfl⟩ := h
        exact ⟨hnin, [], t0, by simp, hsome, by intro t ht; cases ht⟩

/-- soundness: everything VisitFields emits belongs to a struct reachable from the queue -/
theorem visitFields_sound {tbl : Table} {pre y : Str} : ∀ (fuel : Nat) (queue : List Ty) (seen : List Nat),
    y ∈ visitFields tbl pre fuel queue seen →
    ∃ t ∈ queue, ∃ id0 fs0, structOf tbl t = some (id0, fs0) ∧
      ∃ id fs, Reach tbl id0 id ∧ fieldsOf tbl id = some fs ∧ y ∈ emitFields tbl pre fs
  | 0, _, _, h => by simp [visitFields] at h
  | fuel + 1, queue, seen, h => by
    simp only [visitFields] at h
    split at h
    · cases h
    · rename_i id fs rest hnext
      obtain ⟨_, sk, t0, hq, hs, _⟩ := nextUnseen_some hnext
      rcases List.mem_append.1 h with h | h
      · exact ⟨t0, by simp [hq], id, fs, hs, id, fs, Reach.refl id, (structOf_some hs).1, h⟩
      · obtain ⟨t, ht, id0, fs0, hs0, id1, fs1, hr, hf, hy⟩ := visitFields_sound fuel _ _ h
        rcases List.mem_append.1 ht with ht | ht
        · exact ⟨t, by simp [hq, ht], id0, fs0, hs0, id1, fs1, hr, hf, hy⟩
        · obtain ⟨f, hfm, hanon, hty⟩ := mem_anonTypes.1 ht
          subst hty
          have hemb : Embeds tbl id id0 := ⟨fs, f, fs0, (structOf_some hs).1, hfm, hanon, hs0⟩
          exact ⟨t0, by simp [hq], id, fs, hs, id1, fs1, Reach.head hemb hr, hf, hy⟩

/-- number of table entries not yet seen: the fuel measure -/
def unseen (n : Nat) (seen : List Nat) : Nat :=
  ((List.range n).filter (fun i => decide (i ∉ seen))).length

theorem filter_unseen_le (id : Nat) (seen : List Nat) : ∀ (l : List Nat),
    (l.filter (fun i => decide (i ∉ id :: seen))).length ≤ (l.filter (fun i => decide (i ∉ seen))).length
  | [] => by simp
  | x :: xs => by
    have ih := filter_unseen_le id seen xs
    simp only [List.filter_cons]
    by_cases h1 : x ∈ seen
    · have h2 : x ∈ id :: seen := List.mem_cons_of_mem _ h1
      simp [h1, h2]; simpa using ih
    · by_cases h2 : x = id
      · subst h2; simp [h1]; have := ih; simp at this; omega
      · have h3 : x ∉ id :: seen := by simp [h1, h2]
        simp [h1, h3]; simpa using ih

theorem filter_unseen_lt (id : Nat) (seen : List Nat) (hid : id ∉ seen) : ∀ (l : List Nat), id ∈ l →
    (l.filter (fun i => decide (i ∉ id :: seen))).length < (l.filter (fun i => decide (i ∉ seen))).length
  | [], h => by cases h
  | x :: xs, h => by
    simp only [List.filter_cons]
    by_cases hx : x = id
    · subst hx
      have := filter_unseen_le x seen xs
      simp [hid]; simp at this; omega
    · have hm : id ∈ xs := by
        rcases List.mem_cons.1 h with e | m
        · exact absurd e.symm hx
        · exact m
      have ih := filter_unseen_lt id seen hid xs hm
      by_cases h1 : x ∈ seen
      · have h2 : x ∈ id :: seen := List.mem_cons_of_mem _ h1
        simp [h1, h2]; simpa using ih
      · have h3 : x ∉ id :: seen := by simp [h1, hx]
        simp [h1, h3]; simpa using ih

theorem unseen_lt {n id : Nat} {seen : List Nat} (hid : id ∉ seen) (hn : id < n) :
    unseen n (id :: seen) < unseen n seen :=
  filter_unseen_lt id seen hid _ (List.mem_range.2 hn)

theorem unseen_nil (n : Nat) : unseen n [] = n := by
  unfold unseen
  rw [List.filter_eq_self.2 (by intro a _; simp)]
  simp

/-- completeness core: with enough fuel there is a final seen-set `S` that contains the queue,
    is closed under `Embeds` for the newly visited structs, and whose new members were emitted -/
theorem visitFields_closure {tbl : Table} {pre : Str} : ∀ (fuel : Nat) (queue : List Ty) (seen : List Nat),
    unseen tbl.length seen < fuel →
    ∃ S : List Nat, (∀ x ∈ seen, x ∈ S) ∧
      (∀ x ∈ S, x ∈ seen ∨ ∀ fs, fieldsOf tbl x = some fs →
          ∀ y ∈ emitFields tbl pre fs, y ∈ visitFields tbl pre fuel queue seen) ∧
      (∀ t ∈ queue, ∀ id fs, structOf tbl t = some (id, fs) → id ∈ S) ∧
      (∀ x ∈ S, x ∉ seen → ∀ b, Embeds tbl x b → b ∈ S)
  | 0, _, _, h => by omega
  | fuel + 1, queue, seen, hfuel => by
    simp only [visitFields]
    cases hnext : nextUnseen tbl seen queue with
    | none =>
      refine ⟨seen, fun x hx => hx, fun x hx => Or.inl hx, ?_, fun x hx hnx => absurd hx hnx⟩
      exact nextUnseen_none hnext
    | some r =>
      obtain ⟨id, fs, rest⟩ := r
      obtain ⟨hid, sk, t0, hq, hs, hsk⟩ := nextUnseen_some hnext
      have hso := structOf_some hs
      have hlt : unseen tbl.length (id :: seen) < fuel := by
        have := unseen_lt hid hso.2; omega
      obtain ⟨S, h1, h2, h3, h4⟩ :=
        visitFields_closure (pre := pre) fuel (rest ++ anonTypes fs) (id :: seen) hlt
      refine ⟨S, fun x hx => h1 x (List.mem_cons_of_mem _ hx), ?_, ?_, ?_⟩
      · intro x hx
        by_cases hxs : x ∈ seen
        · exact Or.inl hxs
        · right
          intro fs' hfs' y hy
          simp only
          by_cases hxid : x = id
          · subst hxid
            rw [hso.1] at hfs'; cases hfs'
            exact List.mem_append_left _ hy
          · rcases h2 x hx with hm | hm
            · rcases List.mem_cons.1 hm with e | m
              · exact absurd e hxid
              · exact absurd m hxs
            · exact List.mem_append_right _ (hm fs' hfs' y hy)
      · intro t ht id' fs' hst
        rw [hq] at ht
        rcases List.mem_append.1 ht with m | m
        · exact h1 id' (List.mem_cons_of_mem _ (hsk t m id' fs' hst))
        · rcases List.mem_cons.1 m with e | m
          · subst e; rw [hs] at hst; cases hst; exact h1 _ (by simp)
          · exact h3 t (List.mem_append_left _ m) id' fs' hst
      · intro x hx hxs b hemb
        by_cases hxid : x = id
        · subst hxid
          obtain ⟨fs1, f, fs2, hf1, hfm, hanon, hst⟩ := hemb
          rw [hso.1] at hf1; cases hf1
          exact h3 f.ty (List.mem_append_right _ (mem_anonTypes.2 ⟨f, hfm, hanon, rfl⟩)) b fs2 hst
        · exact h4 x hx (by simp [hxs, hxid]) b hemb

theorem reach_closed {tbl : Table} {S : List Nat} (hcl : ∀ x ∈ S, ∀ b, Embeds tbl x b → b ∈ S) :
    ∀ {a c : Nat}, Reach tbl a c → a ∈ S → c ∈ S := by
  intro a c h
  induction h with
  | refl a => exact id
  | head hemb _ ih => intro ha; exact ih (hcl _ ha _ hemb)

/-- VisitFields from a struct type emits exactly the fields (and the methods promoted by embedded
    fields) of every struct reachable through embedded fields -/
theorem mem_visitFields {tbl : Table} {pre y : Str} {t : Ty} {id0 : Nat} {fs0 : List Field}
    (ht : structOf tbl t = some (id0, fs0)) :
    y ∈ visitFields tbl pre (tbl.length + 1) [t] [] ↔
      ∃ id fs, Reach tbl id0 id ∧ fieldsOf tbl id = some fs ∧ y ∈ emitFields tbl pre fs := by
  constructor
  · intro h
    obtain ⟨t', ht', id0', fs0', hs, id, fs, hr, hf, hy⟩ := visitFields_sound _ _ _ h
    have : t' = t := by simpa using ht'
    subst this
    rw [ht] at hs; cases hs
    exact ⟨id, fs, hr, hf, hy⟩
  · rintro ⟨id, fs, hr, hf, hy⟩
    obtain ⟨S, _, h2, h3, h4⟩ := visitFields_closure (tbl := tbl) (pre := pre) (tbl.length + 1) [t] []
      (by rw [unseen_nil]; omega)
    have h0 : id0 ∈ S := h3 t (by simp) id0 fs0 ht
    have hid : id ∈ S := reach_closed (fun x hx b hb => h4 x hx (by simp) b hb) hr h0
    rcases h2 id hid with hm | hm
    · cases hm
    · exact hm fs hf y hy

/-- methods offered for (an embedded field of) type `typ`: `collectMethods` without the prefix filter -/
def methodsVia (tbl : Table) (typ : Ty) : List Str :=
  if kindOf tbl typ == .ptr then
    if kindOf tbl (elemOf typ) == .iface then [] else methodNames tbl (elemOf typ)
  else methodNames tbl typ

theorem mem_collectMethods {tbl : Table} {pre y : Str} {typ : Ty} :
    y ∈ collectMethods tbl pre typ ↔ pre <+: y ∧ y ∈ methodsVia tbl typ := by
  unfold collectMethods methodsVia
  by_cases h1 : (kindOf tbl typ == Kind.ptr) = true
  · by_cases h2 : (kindOf tbl (elemOf typ) == Kind.iface) = true
    · simp [h1, h2]
    · simp [h1, h2, hasPrefix_iff]; exact And.comm
  · simp [h1, hasPrefix_iff]; exact And.comm

theorem mem_emitFields {tbl : Table} {pre y : Str} : ∀ {fs : List Field},
    y ∈ emitFields tbl pre fs ↔
      pre <+: y ∧ ∃ f ∈ fs, y = f.name ∨ (f.anon = true ∧ y ∈ methodsVia tbl f.ty)
  | [] => by simp [emitFields]
  | f :: fs => by
    simp only [emitFields, List.mem_append, mem_emitFields (fs := fs)]
    constructor
    · rintro ((h | h) | ⟨p, g, hg, h⟩)
      · by_cases hp : hasPrefix pre f.name = true
        · simp only [hp, if_true, List.mem_singleton] at h
          subst h
          exact ⟨hasPrefix_iff.1 hp, f, by simp, Or.inl rfl⟩
        · simp [hp] at h
      · by_cases ha : f.anon = true
        · simp only [ha, if_true] at h
          have := mem_collectMethods.1 h
          exact ⟨this.1, f, by simp, Or.inr ⟨ha, this.2⟩⟩
        · simp [ha] at h
      · exact ⟨p, g, by simp [hg], h⟩
    · rintro ⟨p, g, hg, h⟩
      rcases List.mem_cons.1 hg with e | hg
      · subst e
        rcases h with h | ⟨ha, h⟩
        · subst h
          left; left
          simp [hasPrefix_iff.2 p]
        · left; right
          simp only [ha, if_true]
          exact mem_collectMethods.2 ⟨p, h⟩
      · exact Or.inr ⟨p, g, hg, h⟩

/-! ## strings: TailIdentifier, Split, the word loop -/

def identCh (cl : Classes) (c : Nat) : Bool := isLetterCh cl c || isDigitCh cl c

/-- the assumption on unicode.IsSpace / IsLetter / IsDigit: a blank is neither a letter nor a digit -/
def Classes.Sane (cl : Classes) : Prop :=
  ∀ c, cl.space c = true → cl.letter c = false ∧ cl.digit c = false

theorem space_not_ident {cl : Classes} (hcl : cl.Sane) {c : Nat} (h : isSpaceCh cl c = true) :
    identCh cl c = false := by
  unfold isSpaceCh at h
  unfold identCh isLetterCh isDigitCh
  by_cases hc : c < 0x80
  · simp only [hc, if_true] at h ⊢
    simp only [Bool.or_eq_true, beq_iff_eq, Bool.and_eq_true, decide_eq_true_eq] at h
    simp only [Bool.or_eq_false_iff, Bool.and_eq_false_iff, decide_eq_false_iff_not, beq_eq_false_iff_ne]
    omega
  · simp only [hc, if_false] at h ⊢
    have := hcl c h
    simp [this.1, this.2]

theorem dot_not_ident (cl : Classes) : identCh cl 46 = false := by
  simp [identCh, isLetterCh, isDigitCh]

theorem tailLoop_stop {cl : Classes} {b : Nat} (hb : identCh cl b = false) (r' : Str) :
    ∀ (r : Str) (k m : Nat), tailLoop cl (r ++ b :: r') k m = tailLoop cl r k m
  | [], k, m => by
    have h := hb
    simp only [identCh, Bool.or_eq_false_iff] at h
    simp [tailLoop, h.1, h.2]
  | c :: r, k, m => by
    simp only [List.cons_append, tailLoop]
    split
    · exact tailLoop_stop hb r' r (k + 1) (k + 1)
    · split
      · exact tailLoop_stop hb r' r (k + 1) m
      · rfl

theorem tailLoop_bounds {cl : Classes} : ∀ (r : Str) (k m : Nat), m ≤ k →
    m ≤ tailLoop cl r k m ∧ tailLoop cl r k m ≤ k + r.length
  | [], k, m, h => by simp [tailLoop]; omega
  | c :: r, k, m, h => by
    simp only [tailLoop]
    split
    · have := tailLoop_bounds (cl := cl) r (k + 1) (k + 1) (Nat.le_refl _); simp; omega
    · split
      · have := tailLoop_bounds (cl := cl) r (k + 1) m (by omega); simp; omega
      · simp; omega

theorem tailLoop_all {cl : Classes} : ∀ (r : Str) (k m : Nat), m ≤ k →
    ∀ c ∈ r.take (tailLoop cl r k m - k), identCh cl c = true
  | [], k, m, _ => by simp
  | x :: r, k, m, hm => by
    simp only [tailLoop]
    split
    · rename_i hl
      have hb := tailLoop_bounds (cl := cl) r (k + 1) (k + 1) (Nat.le_refl _)
      have ih := tailLoop_all (cl := cl) r (k + 1) (k + 1) (Nat.le_refl _)
      intro c hc
      have e : tailLoop cl r (k + 1) (k + 1) - k = (tailLoop cl r (k + 1) (k + 1) - (k + 1)) + 1 := by omega
      rw [e, List.take_succ_cons] at hc
      rcases List.mem_cons.1 hc with e | m
      · subst e; simp [identCh, hl]
      · exact ih c m
    · split
      · rename_i hl hd
        have ih := tailLoop_all (cl := cl) r (k + 1) m (by omega)
        intro c hc
        by_cases hle : tailLoop cl r (k + 1) m ≤ k
        · rw [Nat.sub_eq_zero_of_le hle] at hc; simp at hc
        · have e : tailLoop cl r (k + 1) m - k = (tailLoop cl r (k + 1) m - (k + 1)) + 1 := by omega
          rw [e, List.take_succ_cons] at hc
          rcases List.mem_cons.1 hc with e | m
          · subst e; simp [identCh, hd]
          · exact ih c m
      · intro c hc
        rw [Nat.sub_eq_zero_of_le hm] at hc; simp at hc

/-- the result is the old `m`, or it ends at a letter: `TailIdentifier` never starts with a digit -/
theorem tailLoop_letter {cl : Classes} : ∀ (r : Str) (k m : Nat),
    tailLoop cl r k m = m ∨
      ∃ j c, tailLoop cl r k m = k + j + 1 ∧ r[j]? = some c ∧ isLetterCh cl c = true
  | [], _, _ => Or.inl rfl
  | x :: r, k, m => by
    simp only [tailLoop]
    split
    · rename_i hl
      rcases tailLoop_letter (cl := cl) r (k + 1) (k + 1) with h | ⟨j, c, h, hg, hc⟩
      · exact Or.inr ⟨0, x, by rw [h], by simp, hl⟩
      · exact Or.inr ⟨j + 1, c, by rw [h]; omega, by simpa using hg, hc⟩
    · split
      · rcases tailLoop_letter (cl := cl) r (k + 1) m with h | ⟨j, c, h, hg, hc⟩
        · exact Or.inl h
        · exact Or.inr ⟨j + 1, c, by rw [h]; omega, by simpa using hg, hc⟩
      · exact Or.inl rfl

theorem tailIdentifier_suffix (cl : Classes) (s : Str) : tailIdentifier cl s <:+ s := by
  unfold tailIdentifier
  split
  · exact List.suffix_refl s
  · exact List.drop_suffix _ _

/-- `head = head[:fixed] ++ TailIdentifier(head)` -/
theorem take_append_tailIdentifier (cl : Classes) (s : Str) :
    s.take (s.length - (tailIdentifier cl s).length) ++ tailIdentifier cl s = s := by
  obtain ⟨pre, h⟩ := tailIdentifier_suffix cl s
  have hl : s.length = pre.length + (tailIdentifier cl s).length := by
    conv => lhs; rw [← h]
    simp
  have : s.length - (tailIdentifier cl s).length = pre.length := by omega
  rw [this]
  have e := congrArg (List.take pre.length) h
  simp at e
  rw [← e]; exact h

/-- the length of the result of TailIdentifier -/
def tailCount (cl : Classes) (s : Str) : Nat := tailLoop cl s.reverse 0 0

theorem tailIdentifier_eq (cl : Classes) (s : Str) :
    tailIdentifier cl s = s.drop (s.length - tailCount cl s) := by
  unfold tailIdentifier tailCount
  by_cases h : s.isEmpty = true
  · have : s = [] := by simpa using h
    subst this; simp
  · simp only [h]
    rfl

theorem tailCount_le (cl : Classes) (s : Str) : tailCount cl s ≤ s.length := by
  unfold tailCount
  have := tailLoop_bounds (cl := cl) s.reverse 0 0 (Nat.le_refl _)
  simp only [List.length_reverse] at this
  omega

theorem tailIdentifier_all_ident (cl : Classes) (s : Str) :
    ∀ c ∈ tailIdentifier cl s, identCh cl c = true := by
  intro c hc
  rw [tailIdentifier_eq] at hc
  have hle := tailCount_le cl s
  have hall := tailLoop_all (cl := cl) s.reverse 0 0 (Nat.le_refl _)
  simp only [Nat.sub_zero] at hall
  have e2 : s.drop (s.length - tailCount cl s) = (s.reverse.take (tailCount cl s)).reverse := by
    rw [List.reverse_take]; simp
  rw [e2, List.mem_reverse] at hc
  exact hall c hc

/-- `TailIdentifier` returns a valid identifier or nothing: it never starts with a digit -/
theorem tailIdentifier_head_letter (cl : Classes) (s : Str) (c : Nat) (rest : Str)
    (h : tailIdentifier cl s = c :: rest) : isLetterCh cl c = true := by
  rw [tailIdentifier_eq] at h
  have hle := tailCount_le cl s
  rcases tailLoop_letter (cl := cl) s.reverse 0 0 with h0 | ⟨j, x, hj, hg, hx⟩
  · have : tailCount cl s = 0 := h0
    rw [this] at h; simp at h
  · have hc : tailCount cl s = j + 1 := by unfold tailCount; omega
    have hget : (s.drop (s.length - tailCount cl s))[0]? = some c := by rw [h]; rfl
    rw [List.getElem?_drop, hc] at hget
    rw [List.getElem?_reverse (by rw [hc] at hle; omega)] at hg
    have : s.length - 1 - j = s.length - (j + 1) + 0 := by omega
    rw [this, hget] at hg
    cases hg; exact hx

/-- TailIdentifier only looks at the text after the last non-identifier character -/
theorem tailIdentifier_append {cl : Classes} {pre w : Str} (hw : w ≠ [])
    (hpre : pre = [] ∨ ∃ p b, pre = p ++ [b] ∧ identCh cl b = false) :
    tailIdentifier cl (pre ++ w) = tailIdentifier cl w := by
  rcases hpre with rfl | ⟨p, b, rfl, hb⟩
  · simp
  · have hc : tailCount cl (p ++ [b] ++ w) = tailCount cl w := by
      unfold tailCount
      have : (p ++ [b] ++ w).reverse = w.reverse ++ b :: p.reverse := by simp
      rw [this, tailLoop_stop hb]
    rw [tailIdentifier_eq, tailIdentifier_eq, hc]
    have hle := tailCount_le cl w
    have : (p ++ [b] ++ w).length - tailCount cl w = (p ++ [b]).length + (w.length - tailCount cl w) := by
      simp; omega
    rw [this, List.drop_append]
    simp

theorem tailIdentifier_nonident_end {cl : Classes} {p : Str} {b : Nat} (hb : identCh cl b = false) :
    tailIdentifier cl (p ++ [b]) = [] := by
  have hc : tailCount cl (p ++ [b]) = 0 := by
    unfold tailCount
    have h := hb
    simp only [identCh, Bool.or_eq_false_iff] at h
    simp [tailLoop, h.1, h.2]
  rw [tailIdentifier_eq, hc]; simp

theorem tailIdentifier_nil (cl : Classes) : tailIdentifier cl [] = [] := by
  simp [tailIdentifier]

/-! ### strings.Split -/

theorem splitOn_ne_nil (sep : Nat) : ∀ s : Str, splitOn sep s ≠ []
  | [] => by simp [splitOn]
  | c :: cs => by
    simp only [splitOn]
    split
    · simp
    · split <;> simp

/-- the last element of `strings.Split(s, sep)` is the text after the last separator -/
theorem splitOn_last (sep : Nat) : ∀ s : Str, ∃ first rest pre last,
    splitOn sep s = first :: rest ∧ (first :: rest).getLast? = some last ∧ s = pre ++ last ∧
    ((rest = [] ∧ pre = []) ∨ (rest ≠ [] ∧ ∃ p, pre = p ++ [sep]))
  | [] => ⟨[], [], [], [], by simp [splitOn], by simp, by simp, Or.inl ⟨rfl, rfl⟩⟩
  | c :: cs => by
    obtain ⟨first, rest, pre, last, hsp, hlast, hcs, hor⟩ := splitOn_last sep cs
    simp only [splitOn]
    by_cases hc : (c == sep) = true
    · have hce : c = sep := by simpa using hc
      simp only [hc, if_true]
      refine ⟨[], first :: rest, c :: pre, last, by rw [hsp], ?_, by simp [hcs], Or.inr ⟨by simp, ?_⟩⟩
      · rw [List.getLast?_cons_cons]; exact hlast
      · rcases hor with ⟨_, rfl⟩ | ⟨_, p, rfl⟩
        · exact ⟨[], by simp [hce]⟩
        · exact ⟨c :: p, by simp⟩
    · simp only [hc, Bool.false_eq_true, if_false, hsp]
      rcases hor with ⟨rfl, rfl⟩ | ⟨hne, p, rfl⟩
      · have : last = first := by simpa using hlast.symm
        subst this
        exact ⟨c :: last, [], [], c :: last, rfl, by simp, by simp [hcs], Or.inl ⟨rfl, rfl⟩⟩
      · refine ⟨c :: first, rest, c :: (p ++ [sep]), last, rfl, ?_, by simp [hcs], Or.inr ⟨hne, c :: p, by simp⟩⟩
        match rest, hne with
        | r :: rs, _ =>
          rw [List.getLast?_cons_cons] at hlast ⊢
          exact hlast

/-! ### the loop over the words -/

theorem getLast?_set_ne {α} (l : List α) (i : Nat) (a : α) (h : i + 1 < l.length) :
    (l.set i a).getLast? = l.getLast? := by
  rw [List.getLast?_eq_getElem?, List.getLast?_eq_getElem?, List.length_set,
    List.getElem?_set_ne (by omega)]

theorem getLast?_drop_lt {α} (l : List α) (k : Nat) (h : k < l.length) :
    (l.drop k).getLast? = l.getLast? := by
  rw [List.getLast?_eq_getElem?, List.getLast?_eq_getElem?, List.length_drop, List.getElem?_drop]
  congr 1; omega

/-- iterations below the last word leave the last word in place -/
theorem scanWords_keeps_last (cl : Classes) (n : Nat) : ∀ (m : Nat) (words : List Str),
    words.length = n → m < n → (scanWords cl n words m).getLast? = words.getLast?
  | 0, words, _, _ => rfl
  | i + 1, words, hl, hm => by
    have hi : (i == n - 1) = false := by
      simp only [beq_eq_false_iff_ne]; omega
    simp only [scanWords, hi, Bool.false_and, Bool.false_eq_true, if_false]
    split
    · split
      · rw [getLast?_drop_lt _ _ (by simp; omega), getLast?_set_ne _ _ _ (by simp; omega),
          getLast?_set_ne _ _ _ (by omega)]
      · rw [getLast?_drop_lt _ _ (by simp; omega), getLast?_set_ne _ _ _ (by omega)]
    · rw [scanWords_keeps_last cl n i _ (by simp [hl]) (by omega), getLast?_set_ne _ _ _ (by omega)]

theorem suffix_same_length {α} {a b : List α} (h : a <:+ b) (hl : a.length = b.length) : a = b := by
  obtain ⟨t, ht⟩ := h
  have : t.length = 0 := by
    have := congrArg List.length ht
    simp at this; omega
  have : t = [] := List.eq_nil_of_length_eq_zero this
  subst this; simpa using ht

theorem mem_takeWhile_true {p : Nat → Bool} : ∀ {l : List Nat} {x : Nat}, x ∈ l.takeWhile p → p x = true
  | [], _, h => by simp at h
  | a :: l, x, h => by
    by_cases ha : p a = true
    · simp only [List.takeWhile_cons, ha, if_true] at h
      rcases List.mem_cons.1 h with e | m
      · subst e; exact ha
      · exact mem_takeWhile_true m
    · simp [List.takeWhile_cons, ha] at h

/-- the words handed to `Comp.CompleteWords` are empty, or end with `TailIdentifier(head)`:
    the typed prefix that the returned head drops -/
theorem scan_last {cl : Classes} (hcl : cl.Sane) (head : Str) :
    scanWords cl (splitOn 46 head).length (splitOn 46 head) (splitOn 46 head).length = [] ∨
    (scanWords cl (splitOn 46 head).length (splitOn 46 head) (splitOn 46 head).length).getLast?
      = some (tailIdentifier cl head) := by
  obtain ⟨first, rest, pre, last, hsp, hlast, hhead, hor⟩ := splitOn_last 46 head
  rw [hsp]
  have hget : (first :: rest).getD rest.length [] = last := by
    rw [List.getLast?_eq_getElem?] at hlast
    simp only [List.length_cons, Nat.add_sub_cancel] at hlast
    rw [List.getD_eq_getElem?_getD, hlast]; rfl
  -- the text before the trimmed last word ends with '.', with a blank, or is empty
  have hsplit : last = last.takeWhile (isSpaceCh cl) ++ trimLeft cl last := by
    unfold trimLeft; exact (List.takeWhile_append_dropWhile).symm
  have hbefore : ∀ P, P = pre ++ last.takeWhile (isSpaceCh cl) →
      P = [] ∨ ∃ p b, P = p ++ [b] ∧ identCh cl b = false := by
    intro P hP
    by_cases hsp0 : last.takeWhile (isSpaceCh cl) = []
    · rw [hsp0, List.append_nil] at hP
      rcases hor with ⟨_, rfl⟩ | ⟨_, p, rfl⟩
      · exact Or.inl hP
      · exact Or.inr ⟨p, 46, hP, dot_not_ident cl⟩
    · right
      obtain ⟨q, b, hq⟩ : ∃ q b, last.takeWhile (isSpaceCh cl) = q ++ [b] :=
        ⟨_, _, (List.dropLast_concat_getLast hsp0).symm⟩
      have hbm : b ∈ last.takeWhile (isSpaceCh cl) := by rw [hq]; simp
      have hbs : isSpaceCh cl b = true := mem_takeWhile_true hbm
      exact ⟨pre ++ q, b, by rw [hP, hq]; simp, space_not_ident hcl hbs⟩
  have hheadW : head = (pre ++ last.takeWhile (isSpaceCh cl)) ++ trimLeft cl last := by
    rw [List.append_assoc, ← hsplit]; exact hhead
  simp only [List.length_cons, scanWords, Nat.add_sub_cancel, beq_self_eq_true, if_true, Bool.true_and, hget]
  by_cases hW : (trimLeft cl last).length = 0
  · -- TAB right after a dot (or on an empty line): the last word is empty
    have hW0 : trimLeft cl last = [] := List.eq_nil_of_length_eq_zero hW
    simp only [hW0, List.length_nil, beq_self_eq_true, if_true]
    right
    rw [scanWords_keeps_last cl _ _ _ (by simp) (by omega)]
    have hl : ((first :: rest).set rest.length ([] : Str)).getLast? = some [] := by
      rw [List.getLast?_eq_getElem?]; simp
    rw [hl]
    have : tailIdentifier cl head = [] := by
      rw [hheadW, hW0, List.append_nil]
      rcases hbefore _ rfl with h | ⟨p, b, h, hb⟩
      · rw [h]; exact tailIdentifier_nil cl
      · rw [h]; exact tailIdentifier_nonident_end hb
    rw [this]
  · have hWne : trimLeft cl last ≠ [] := by
      intro h; rw [h] at hW; simp at hW
    have hb : ((trimLeft cl last).length == 0) = false := by simpa using hW
    have htail : tailIdentifier cl head = tailIdentifier cl (trimLeft cl last) := by
      conv => lhs; rw [hheadW]
      exact tailIdentifier_append hWne (hbefore _ rfl)
    simp only [hb, Bool.false_eq_true, if_false]
    split
    · split
      · right
        rw [htail, List.getLast?_eq_getElem?]
        simp
      · left
        apply List.drop_eq_nil_of_le
        simp
    · rename_i hlen
      right
      have hlen' : (tailIdentifier cl (trimLeft cl last)).length = (trimLeft cl last).length := by
        simpa using hlen
      have heq := suffix_same_length (tailIdentifier_suffix cl _) hlen'
      rw [scanWords_keeps_last cl _ _ _ (by simp) (by omega)]
      rw [htail, heq, List.getLast?_eq_getElem?]
      simp

/-! ### strings.LastIndexByte -/

theorem lastIndexFrom_spec (c : Nat) : ∀ (s : Str) (i : Nat) (acc : Option Nat) (p : Nat),
    lastIndexFrom c s i acc = some p → acc = some p ∨ (i ≤ p ∧ s[p - i]? = some c)
  | [], _, acc, p, h => Or.inl (by simpa [lastIndexFrom] using h)
  | x :: xs, i, acc, p, h => by
    simp only [lastIndexFrom] at h
    rcases lastIndexFrom_spec c xs (i + 1) _ p h with h' | ⟨hle, hget⟩
    · by_cases hx : (x == c) = true
      · simp only [hx, if_true, Option.some.injEq] at h'
        subst h'
        right; exact ⟨Nat.le_refl _, by simpa using hx⟩
      · simp only [hx, Bool.false_eq_true, if_false] at h'
        exact Or.inl h'
    · right
      refine ⟨by omega, ?_⟩
      have : p - i = (p - (i + 1)) + 1 := by omega
      rw [this, List.getElem?_cons_succ]; exact hget

theorem lastIndex_spec {c : Nat} {s : Str} {p : Nat} (h : lastIndex c s = some p) : s[p]? = some c := by
  rcases lastIndexFrom_spec c s 0 none p h with h' | ⟨_, h'⟩
  · cases h'
  · simpa using h'

/-- the branch `pos >= fixed` of the head computation is dead: the last '.' of head cannot lie
    inside the trailing identifier -/
theorem lastIndex_lt_fixed (cl : Classes) (head : Str) (p : Nat) (h : lastIndex 46 head = some p) :
    p < head.length - (tailIdentifier cl head).length := by
  have hget := lastIndex_spec h
  have hsplit := take_append_tailIdentifier cl head
  by_cases hp : p < head.length - (tailIdentifier cl head).length
  · exact hp
  · exfalso
    have hsuf := tailIdentifier_suffix cl head
    have hle : (tailIdentifier cl head).length ≤ head.length := hsuf.length_le
    rw [← hsplit, List.getElem?_append_right (by simp; omega)] at hget
    have hm : (46 : Nat) ∈ tailIdentifier cl head := List.mem_of_getElem? hget
    have := tailIdentifier_all_ident cl head 46 hm
    rw [dot_not_ident] at this; cases this

end Complete
