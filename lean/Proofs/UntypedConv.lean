import Proofs.Untyped
/-! Typed contexts: `Lit.Convert` (integer, float, complex targets) and the math/big cascade,
    characterised against `GoSpec.Const` representability. -/
namespace Untyped
open GoSpec.Const

def IntT.std (t : IntT) : Prop := t.bits = 8 ∨ t.bits = 16 ∨ t.bits = 32 ∨ t.bits = 64

theorem convertInt_iff (t : IntT) (ht : IntT.std t) (n : Int) :
    (extractReal (.int n) (.int t)).bind (fun v => convertCheck v (.int t)) =
      if t.min ≤ n ∧ n ≤ t.max then some (.int n) else none := by
  obtain ⟨sg, bits⟩ := t
  rcases ht with h | h | h | h <;> simp only at h <;> subst h <;> cases sg <;>
  simp only [extractReal, convertCheck, wrapTo, inInt64, inUint64, IntT.min, IntT.max] <;>
  simp only [Int.reducePow, Nat.reduceSub, Bool.false_eq_true, if_false, if_true, Bool.and_eq_true, decide_eq_true_eq] <;>
  split <;> split <;> simp_all <;> omega
theorem convertFlt_iff (t : IntT) (ht : IntT.std t) (q : Rat) :
    (extractNumber (.flt q) (.int t)).bind (fun v => convertCheck v (.int t)) =
      if q.den = 1 ∧ t.min ≤ q.num ∧ q.num ≤ t.max then some (.int q.num) else none := by
  by_cases hd : q.den = 1
  · have := convertInt_iff t ht q.num
    simp only [extractNumber, extractReal, hd, if_true] at this ⊢
    simpa using this
  · simp only [extractNumber, extractReal, hd, if_false, false_and]
    cases hf : isFloat64 q <;> simp [convertCheck]

/-- `Lit.Convert` to an integer type, completely characterised -/
theorem convert_int_eq (l : Lit) (hl : l.wf = true) (t : IntT) (ht : IntT.std t) :
    convert l (.int t) =
      match abs l with
      | .num _ v => if v.im = 0 ∧ v.re.den = 1 ∧ t.min ≤ v.re.num ∧ v.re.num ≤ t.max then some (.int v.re.num) else none
      | _ => none := by
  rcases Lit.wf_cases hl with ⟨b, rfl⟩ | ⟨s, rfl⟩ | ⟨n, rfl⟩ | ⟨n, rfl⟩ | ⟨q, rfl⟩ | ⟨a, b, rfl⟩
  · simp [convert, abs]
  · simp [convert, abs]
  · have := convertInt_iff t ht n
    simp [convert, abs, extractNumber, Cx.ofInt, this]
  · have := convertInt_iff t ht n
    simp [convert, abs, extractNumber, Cx.ofInt, this]
  · have := convertFlt_iff t ht q
    simp [convert, abs, Cx.ofRat, this]
  · by_cases hb : b = 0
    · have := convertFlt_iff t ht a
      simp [convert, abs, hb, this]
    · simp only [convert, abs, hb, if_false, false_and]
      simp only [extractNumber]
      split <;> simp [convertCheck]
theorem floatLimit_pos (bits : Nat) : Rat.abs' 0 < floatLimit bits := by
  have h0 : Rat.abs' 0 = 0 := by simp [Rat.abs']
  rw [h0]
  unfold floatLimit
  split
  · decide
  · apply Rat.intCast_pos.mpr
    have h1 : (2:Int)^1024 = 2^970 * 2^54 := by rw [← Int.pow_add]
    have h2 : (0:Int) < 2^970 := Int.pow_pos (by decide)
    have h3 : (2:Int)^54 = 18014398509481984 := by decide
    rw [h1, h3]
    generalize (2:Int)^970 = p at h2 ⊢
    omega

theorem ratAbs_eq (q : Rat) : ratAbs q = Rat.abs' q := rfl

/-- `Lit.Convert` to float32/float64: accepted iff real and rounding to a finite value -/
theorem convert_float_eq (l : Lit) (hl : l.wf = true) (bits : Nat) :
    convert l (.float bits) =
      match abs l with
      | .num _ v => if v.im = 0 ∧ Rat.abs' v.re < floatLimit bits then some (.float v.re) else none
      | _ => none := by
  rcases Lit.wf_cases hl with ⟨b, rfl⟩ | ⟨s, rfl⟩ | ⟨n, rfl⟩ | ⟨n, rfl⟩ | ⟨q, rfl⟩ | ⟨a, b, rfl⟩
  · simp [convert, abs]
  · simp [convert, abs]
  · simp only [convert, abs, extractNumber, extractReal, extractFloat, ratAbs_eq, nkind, Cx.ofInt]
    by_cases h1 : Rat.abs' (n : Rat) < floatLimit bits <;> simp [h1, convertCheck]
  · simp only [convert, abs, extractNumber, extractReal, extractFloat, ratAbs_eq, nkind, Cx.ofInt]
    by_cases h1 : Rat.abs' (n : Rat) < floatLimit bits <;> simp [h1, convertCheck]
  · simp only [convert, abs, extractNumber, extractReal, extractFloat, ratAbs_eq, nkind, Cx.ofRat]
    by_cases h1 : Rat.abs' q < floatLimit bits <;> simp [h1, convertCheck]
  · by_cases hb : b = 0
    · simp only [convert, abs, hb, extractNumber, extractReal, extractFloat, ratAbs_eq, nkind, if_true]
      by_cases h1 : Rat.abs' a < floatLimit bits <;> simp [h1, convertCheck]
    · simp only [convert, abs, hb, if_false, false_and]
      simp only [extractNumber]
      split <;> simp [convertCheck]

/-- `Lit.Convert` to complex64/complex128: accepted iff both parts round to finite values -/
theorem convert_complex_eq (l : Lit) (hl : l.wf = true) (bits : Nat) :
    convert l (.complex bits) =
      match abs l with
      | .num _ v => if Rat.abs' v.re < floatLimit (bits / 2) ∧ Rat.abs' v.im < floatLimit (bits / 2)
                    then some (.complex v.re v.im) else none
      | _ => none := by
  have h0 := floatLimit_pos (bits / 2)
  rcases Lit.wf_cases hl with ⟨b, rfl⟩ | ⟨s, rfl⟩ | ⟨n, rfl⟩ | ⟨n, rfl⟩ | ⟨q, rfl⟩ | ⟨a, b, rfl⟩
  · simp [convert, abs]
  · simp [convert, abs]
  · simp only [convert, abs, extractNumber, extractReal, extractFloat, ratAbs_eq, nkind, Cx.ofInt]
    by_cases h1 : Rat.abs' (n : Rat) < floatLimit (bits / 2) <;> simp [h0, h1, convertCheck]
  · simp only [convert, abs, extractNumber, extractReal, extractFloat, ratAbs_eq, nkind, Cx.ofInt]
    by_cases h1 : Rat.abs' (n : Rat) < floatLimit (bits / 2) <;> simp [h0, h1, convertCheck]
  · simp only [convert, abs, extractNumber, extractReal, extractFloat, ratAbs_eq, nkind, Cx.ofRat]
    by_cases h1 : Rat.abs' q < floatLimit (bits / 2) <;> simp [h0, h1, convertCheck]
  · simp only [convert, abs, extractNumber, extractReal, extractFloat, ratAbs_eq, nkind]
    by_cases h1 : Rat.abs' a < floatLimit (bits / 2) <;> by_cases h2 : Rat.abs' b < floatLimit (bits / 2) <;>
    simp [h1, h2, convertCheck]

/-- a value accepted by the float64 fast path has a power-of-two denominator -/
theorem isFloatFmt_pow2 (p : Nat) (emin emax : Int) (q : Rat) (h : isFloatFmt p emin emax q = true) :
    isPow2 q.den = true := by
  by_cases h0 : q.num = 0
  · have hr := q.reduced
    rw [h0] at hr
    have : q.den = 1 := by simpa using hr
    rw [this]; decide
  · by_cases h2 : 2 ^ q.den.log2 = q.den
    · simp [isPow2, h2]
    · simp [isFloatFmt, h0, h2] at h

/-- `Lit.BigInt/BigRat/BigFloat` through `toMathBig`: whichever fast path fires, the result is the
    exact value, or the conversion is refused / flagged as rounded -/
theorem toMathBig_eq (l : Lit) (hl : l.wf = true) :
    (toMathBig l .int = match abs l with
      | .num k v => if k ≠ .complex ∧ v.re.den = 1 then some (.int v.re.num) else none
      | _ => none) ∧
    (toMathBig l .rat = match abs l with
      | .num k v => if k ≠ .complex then some (.rat v.re) else none
      | _ => none) ∧
    (match abs l with
      | .num k v =>
        if k = .complex then toMathBig l .float = none
        else (toMathBig l .float = some (.floatExact v.re) ∧ (isPow2 v.re.den = false → False)) ∨
             (toMathBig l .float = some .floatRounded ∧ isPow2 v.re.den = false)
      | _ => toMathBig l .float = none) := by
  rcases Lit.wf_cases hl with ⟨b, rfl⟩ | ⟨s, rfl⟩ | ⟨n, rfl⟩ | ⟨n, rfl⟩ | ⟨q, rfl⟩ | ⟨a, b, rfl⟩
  · simp [toMathBig, abs]
  · simp [toMathBig, abs]
  · refine ⟨?_, ?_, ?_⟩ <;> simp [toMathBig, bigInt, bigRat, bigFloat, abs, nkind, Cx.ofInt, isPow2] <;> decide
  · refine ⟨?_, ?_, ?_⟩ <;> simp [toMathBig, bigInt, bigRat, bigFloat, abs, nkind, Cx.ofInt, isPow2] <;> decide
  · refine ⟨?_, ?_, ?_⟩
    · simp [toMathBig, bigInt, abs, nkind, Cx.ofRat]
    · simp [toMathBig, bigRat, abs, nkind, Cx.ofRat]
    · simp only [abs, nkind, Cx.ofRat, toMathBig, bigFloat]
      by_cases h64 : isFloat64 q = true
      · have := isFloatFmt_pow2 _ _ _ q h64
        simp [h64, this]
      · by_cases hp : isPow2 q.den = true
        · simp [h64, hp]
        · simp [h64, hp]
  · simp [toMathBig, abs, nkind]

end Untyped
