import Proofs.Dep
/-! Determinism: the result of the graph sort does not depend on the iteration order of the Go maps. -/
namespace Dep
open DepScope (Name Kind Decl)

def headPos (e : Entry) : Nat :=
  match e.decls with
  | [] => 0
  | d :: _ => d.pos

/-- well-formedness of a graph as built by `build`: distinct keys; every key has declarations, in
    ascending position, all carrying the key as name; positions identify declarations; edge sets
    without duplicates -/
structure WF (g : Graph) : Prop where
  names_nodup : (names g).Nodup
  pos_inj : PosInj (allDecls g)
  nonempty : ∀ e ∈ g, e.decls ≠ []
  ascending : ∀ e ∈ g, e.decls.Pairwise (fun a b => a.pos < b.pos)
  decl_name : ∀ e ∈ g, ∀ d ∈ e.decls, d.name = e.name
  edges_nodup : ∀ e ∈ g, e.edges.Nodup

theorem mem_allDecls {g : Graph} {d : Decl} : d ∈ allDecls g ↔ ∃ e ∈ g, d ∈ e.decls := by
  simp [allDecls, List.mem_flatMap]

theorem eq_of_name_eq {g : Graph} (hn : (names g).Nodup) {e1 e2 : Entry} (h1 : e1 ∈ g) (h2 : e2 ∈ g)
    (h : e1.name = e2.name) : e1 = e2 := by
  induction g with
  | nil => cases h1
  | cons a r ih =>
    have hn' : a.name ∉ names r ∧ (names r).Nodup := List.nodup_cons.mp hn
    have key : ∀ x y : Entry, x = a → y ∈ r → x.name = y.name → False := by
      intro x y hx hy hxy
      apply hn'.1
      rw [← hx, hxy]
      exact List.mem_map.mpr ⟨y, hy, rfl⟩
    rcases List.mem_cons.mp h1 with e1a | h1r
    · rcases List.mem_cons.mp h2 with e2a | h2r
      · rw [e1a, e2a]
      · exact (key e1 e2 e1a h2r h).elim
    · rcases List.mem_cons.mp h2 with e2a | h2r
      · exact (key e2 e1 e2a h1r h.symm).elim
      · exact ih hn'.2 h1r h2r

/-! ## RemoveNodesNoDeps chooses the dependency-free node with the least position, whatever the order -/

theorem scanDecls_asc {ds : List Decl} (hne : ds ≠ []) (hasc : ds.Pairwise (fun a b => a.pos < b.pos))
    (cur : Option Nat) (e : Entry) (he : e.decls = ds) :
    scanDecls cur ds = match cur with
      | none => some (headPos e)
      | some p => if headPos e < p then some (headPos e) else none := by
  cases ds with
  | nil => exact absurd rfl hne
  | cons d r =>
    have hh : headPos e = d.pos := by simp [headPos, he]
    cases cur with
    | none => simp [scanDecls, hh]
    | some p =>
      simp only [scanDecls, hh]
      split
      · rfl
      · rename_i hge
        have hr := (List.pairwise_cons.mp hasc).1
        clear hasc hne he hh
        induction r with
        | nil => simp [scanDecls]
        | cons x r ih =>
          have : ¬ x.pos < p := by have := hr x List.mem_cons_self; omega
          simp only [scanDecls, this, if_false]
          exact ih (fun y hy => hr y (List.mem_cons_of_mem _ hy))

def GoodList (l : Graph) : Prop :=
  ∀ e ∈ l, e.decls ≠ [] ∧ e.decls.Pairwise (fun a b => a.pos < b.pos)

theorem pickStep_good {e : Entry} (hne : e.decls ≠ []) (hasc : e.decls.Pairwise (fun a b => a.pos < b.pos))
    (best : Option (Entry × Nat)) :
    pickStep best e =
      if e.edges = [] then
        match best with
        | none => some (e, headPos e)
        | some (b, p) => if headPos e < p then some (e, headPos e) else some (b, p)
      else best := by
  unfold pickStep
  by_cases hemp : e.edges = []
  · simp only [hemp, List.isEmpty_nil, if_true]
    rw [scanDecls_asc hne hasc _ e rfl]
    cases best with
    | none => simp
    | some bp =>
      obtain ⟨b, p⟩ := bp
      simp only [Option.map_some]
      by_cases h : headPos e < p <;> simp [h]
  · have : e.edges.isEmpty = false := by simpa using hemp
    simp [this, hemp]

/-- what the fold computes, for any start value -/
theorem foldl_pickStep_spec (l : Graph) (hl : GoodList l) (b : Option (Entry × Nat)) :
    match l.foldl pickStep b with
    | none => b = none ∧ ∀ e ∈ l, e.edges ≠ []
    | some (e, p) =>
      (b = some (e, p) ∨ (e ∈ l ∧ e.edges = [] ∧ p = headPos e)) ∧
      (∀ b' p', b = some (b', p') → p ≤ p') ∧
      (∀ e' ∈ l, e'.edges = [] → p ≤ headPos e') := by
  induction l generalizing b with
  | nil =>
    cases b with
    | none => simp
    | some bp => obtain ⟨b', p'⟩ := bp; simp
  | cons a r ih =>
    have ha := hl a List.mem_cons_self
    have hr : GoodList r := fun e he => hl e (List.mem_cons_of_mem _ he)
    simp only [List.foldl_cons]
    have hstep := pickStep_good ha.1 ha.2 b
    have := ih hr (pickStep b a)
    cases hf : r.foldl pickStep (pickStep b a) with
    | none =>
      rw [hf] at this
      obtain ⟨h1, h2⟩ := this
      rw [hstep] at h1
      by_cases hemp : a.edges = []
      · simp only [hemp, if_true] at h1
        cases b with
        | none => simp at h1
        | some bp => obtain ⟨b', p'⟩ := bp; simp only at h1; split at h1 <;> cases h1
      · simp only [hemp, if_false] at h1
        refine ⟨h1, ?_⟩
        intro e he
        rcases List.mem_cons.mp he with rfl | he
        · exact hemp
        · exact h2 e he
    | some ep =>
      obtain ⟨e, p⟩ := ep
      rw [hf] at this
      obtain ⟨h1, h2, h3⟩ := this
      rw [hstep] at h1 h2
      by_cases hemp : a.edges = []
      · simp only [hemp, if_true] at h1 h2
        cases b with
        | none =>
          simp only at h1 h2
          refine ⟨?_, by simp, ?_⟩
          · right
            rcases h1 with h1 | h1
            · injection h1 with h1; injection h1 with h1 h1'; subst h1; subst h1'
              exact ⟨List.mem_cons_self, hemp, rfl⟩
            · exact ⟨List.mem_cons_of_mem _ h1.1, h1.2⟩
          · intro e' he' hemp'
            rcases List.mem_cons.mp he' with rfl | he'
            · exact h2 _ _ rfl
            · exact h3 e' he' hemp'
        | some bp =>
          obtain ⟨b', p'⟩ := bp
          simp only at h1 h2
          by_cases hlt : headPos a < p'
          · simp only [hlt, if_true] at h1 h2
            refine ⟨?_, ?_, ?_⟩
            · right
              rcases h1 with h1 | h1
              · injection h1 with h1; injection h1 with h1 h1'; subst h1; subst h1'
                exact ⟨List.mem_cons_self, hemp, rfl⟩
              · exact ⟨List.mem_cons_of_mem _ h1.1, h1.2⟩
            · intro b'' p'' hb
              injection hb with hb; injection hb with _ hb; subst hb
              have := h2 _ _ rfl; omega
            · intro e' he' hemp'
              rcases List.mem_cons.mp he' with rfl | he'
              · exact h2 _ _ rfl
              · exact h3 e' he' hemp'
          · simp only [hlt, if_false] at h1 h2
            refine ⟨?_, ?_, ?_⟩
            · rcases h1 with h1 | h1
              · left; exact h1
              · right; exact ⟨List.mem_cons_of_mem _ h1.1, h1.2⟩
            · intro b'' p'' hb
              injection hb with hb; injection hb with _ hb; subst hb
              exact h2 _ _ rfl
            · intro e' he' hemp'
              rcases List.mem_cons.mp he' with rfl | he'
              · have := h2 _ _ rfl; omega
              · exact h3 e' he' hemp'
      · simp only [hemp, if_false] at h1 h2
        refine ⟨?_, h2, ?_⟩
        · rcases h1 with h1 | h1
          · left; exact h1
          · right; exact ⟨List.mem_cons_of_mem _ h1.1, h1.2⟩
        · intro e' he' hemp'
          rcases List.mem_cons.mp he' with rfl | he'
          · exact absurd hemp' hemp
          · exact h3 e' he' hemp'

theorem WF.goodList {g : Graph} (h : WF g) : GoodList g := fun e he => ⟨h.nonempty e he, h.ascending e he⟩

/-- `RemoveNodesNoDeps`: the chosen node is a dependency-free node of least position -/
theorem pickNoDeps_spec {l : Graph} (hl : GoodList l) :
    match pickNoDeps l with
    | none => ∀ e ∈ l, e.edges ≠ []
    | some e => e ∈ l ∧ e.edges = [] ∧ ∀ e' ∈ l, e'.edges = [] → headPos e ≤ headPos e' := by
  have := foldl_pickStep_spec l hl none
  unfold pickNoDeps
  cases hf : l.foldl pickStep none with
  | none => rw [hf] at this; simpa using this.2
  | some ep =>
    obtain ⟨e, p⟩ := ep
    rw [hf] at this
    obtain ⟨h1, _, h3⟩ := this
    rcases h1 with h1 | ⟨hm, he, hp⟩
    · cases h1
    · simp only [Option.map_some]
      exact ⟨hm, he, fun e' he' hemp => hp ▸ h3 e' he' hemp⟩

theorem headPos_inj {g : Graph} (h : WF g) {e1 e2 : Entry} (h1 : e1 ∈ g) (h2 : e2 ∈ g)
    (hp : headPos e1 = headPos e2) : e1 = e2 := by
  have n1 := h.nonempty e1 h1
  have n2 := h.nonempty e2 h2
  cases hd1 : e1.decls with
  | nil => exact absurd hd1 n1
  | cons d1 r1 =>
    cases hd2 : e2.decls with
    | nil => exact absurd hd2 n2
    | cons d2 r2 =>
      have m1 : d1 ∈ e1.decls := by rw [hd1]; exact List.mem_cons_self
      have m2 : d2 ∈ e2.decls := by rw [hd2]; exact List.mem_cons_self
      have : d1 = d2 := h.pos_inj d1 (mem_allDecls.mpr ⟨e1, h1, m1⟩) d2 (mem_allDecls.mpr ⟨e2, h2, m2⟩)
        (by simpa [headPos, hd1, hd2] using hp)
      apply eq_of_name_eq h.names_nodup h1 h2
      rw [← h.decl_name e1 h1 d1 m1, ← h.decl_name e2 h2 d2 m2, this]

/-- the choice of `RemoveNodesNoDeps` does not depend on the iteration order of `g.Nodes` -/
theorem pickNoDeps_perm {g l : Graph} (h : WF g) (hp : l.Perm g) : pickNoDeps l = pickNoDeps g := by
  have hl : GoodList l := fun e he => h.goodList e (hp.mem_iff.mp he)
  have s1 := pickNoDeps_spec hl
  have s2 := pickNoDeps_spec h.goodList
  cases h1 : pickNoDeps l with
  | none =>
    rw [h1] at s1
    cases h2 : pickNoDeps g with
    | none => rfl
    | some e2 =>
      rw [h2] at s2
      exact absurd s2.2.1 (s1 e2 (hp.mem_iff.mpr s2.1))
  | some e1 =>
    rw [h1] at s1
    cases h2 : pickNoDeps g with
    | none =>
      rw [h2] at s2
      exact absurd s1.2.1 (s2 e1 (hp.mem_iff.mp s1.1))
    | some e2 =>
      rw [h2] at s2
      have a := s1.2.2 e2 (hp.mem_iff.mpr s2.1) s2.2.1
      have b := s2.2.2 e1 (hp.mem_iff.mp s1.1) s1.2.1
      rw [headPos_inj h (hp.mem_iff.mp s1.1) s2.1 (by omega)]

/-! ## the candidate loop of RemoveTypeFwd -/

def typeDecls (g : Graph) (n : Name) : List Decl := (declsOf g n).filter (·.kind == Kind.type)

def candInner (c : Nat) (acc : Nat × List Decl) (d : Decl) : Nat × List Decl :=
  if d.kind != Kind.type || c < acc.1 then acc
  else (c, (if c > acc.1 then [] else acc.2) ++ [d])

theorem candStep_eq (g : Graph) (used : List Name) (acc : Nat × List Decl) (nc : Name × Nat) :
    candStep g used acc nc = if !used.contains nc.1 then acc else (declsOf g nc.1).foldl (candInner nc.2) acc := rfl

theorem candInner_foldl (c : Nat) (ds : List Decl) (m : Nat) (L : List Decl) :
    ds.foldl (candInner c) (m, L) =
      if c < m ∨ ds.filter (·.kind == Kind.type) = [] then (m, L)
      else if c > m then (c, ds.filter (·.kind == Kind.type))
      else (m, L ++ ds.filter (·.kind == Kind.type)) := by
  induction ds generalizing m L with
  | nil => simp
  | cons d r ih =>
    simp only [List.foldl_cons]
    by_cases hk : d.kind = Kind.type
    · by_cases hlt : c < m
      · have : candInner c (m, L) d = (m, L) := by simp [candInner, hlt]
        rw [this, ih]; simp [hlt]
      · by_cases hgt : c > m
        · have : candInner c (m, L) d = (c, [d]) := by simp [candInner, hk, hlt, hgt]
          rw [this, ih]
          simp [hk, hlt, hgt, List.filter_cons]
        · have hcm : c = m := by omega
          subst hcm
          have : candInner c (c, L) d = (c, L ++ [d]) := by simp [candInner, hk]
          rw [this, ih]
          simp [hk, List.filter_cons]
    · have : candInner c (m, L) d = (m, L) := by simp [candInner, hk]
      rw [this, ih]
      simp [hk, List.filter_cons]

/-- the running maximum `most` -/
def candMaxStep (g : Graph) (used : List Name) (m : Nat) (nc : Name × Nat) : Nat :=
  if used.contains nc.1 ∧ typeDecls g nc.1 ≠ [] ∧ nc.2 > m then nc.2 else m

def candSel (g : Graph) (used : List Name) (M : Nat) (nc : Name × Nat) : List Decl :=
  if used.contains nc.1 ∧ nc.2 = M then typeDecls g nc.1 else []

theorem candMax_ge (g : Graph) (used : List Name) (l : List (Name × Nat)) (m : Nat) :
    m ≤ l.foldl (candMaxStep g used) m := by
  induction l generalizing m with
  | nil => simp
  | cons a r ih =>
    simp only [List.foldl_cons]
    have h1 : m ≤ candMaxStep g used m a := by
      unfold candMaxStep
      by_cases h : used.contains a.1 = true ∧ typeDecls g a.1 ≠ [] ∧ a.2 > m
      · rw [if_pos h]; omega
      · rw [if_neg h]; omega
    exact Nat.le_trans h1 (ih (candMaxStep g used m a))

theorem cand_foldl (g : Graph) (used : List Name) (l : List (Name × Nat)) (m0 : Nat) (L0 : List Decl) :
    l.foldl (candStep g used) (m0, L0) =
      (l.foldl (candMaxStep g used) m0,
       (if l.foldl (candMaxStep g used) m0 = m0 then L0 else []) ++
         l.flatMap (candSel g used (l.foldl (candMaxStep g used) m0))) := by
  induction l generalizing m0 L0 with
  | nil => simp
  | cons a r ih =>
    simp only [List.foldl_cons, List.flatMap_cons]
    have hge := candMax_ge g used r (candMaxStep g used m0 a)
    rw [candStep_eq]
    by_cases hu : used.contains a.1 = true
    · have hu2 : a.1 ∈ used := by simpa using hu
      simp only [hu, Bool.not_true, Bool.false_eq_true, if_false]
      rw [candInner_foldl]
      have htd : (declsOf g a.1).filter (·.kind == Kind.type) = typeDecls g a.1 := rfl
      rw [htd]
      by_cases hc : a.2 < m0 ∨ typeDecls g a.1 = []
      · have hm : candMaxStep g used m0 a = m0 := by
          unfold candMaxStep
          rcases hc with hc | hc
          · simp [hu2]; intro _ h; omega
          · simp [hc]
        rw [if_pos hc, ih]
        simp only [hm]
        congr 1
        have : candSel g used (List.foldl (candMaxStep g used) m0 r) a = [] := by
          unfold candSel
          rcases hc with hc | hc
          · rw [hm] at hge
            have : a.2 ≠ List.foldl (candMaxStep g used) m0 r := by omega
            simp [this]
          · simp [hc]
        rw [this]; simp
      · rw [if_neg hc]
        have hc' : ¬ a.2 < m0 ∧ typeDecls g a.1 ≠ [] := by
          constructor
          · intro h; exact hc (Or.inl h)
          · intro h; exact hc (Or.inr h)
        by_cases hgt : a.2 > m0
        · have hm : candMaxStep g used m0 a = a.2 := by
            unfold candMaxStep; simp [hu2, hc'.2, hgt]
          rw [if_pos hgt, ih]
          simp only [hm]
          rw [hm] at hge
          congr 1
          have hne : List.foldl (candMaxStep g used) a.2 r ≠ m0 := by omega
          simp only [hne, if_false, List.nil_append]
          unfold candSel
          by_cases heq : List.foldl (candMaxStep g used) a.2 r = a.2
          · simp [heq, hu2]
          · have : a.2 ≠ List.foldl (candMaxStep g used) a.2 r := fun h => heq h.symm
            simp [heq, this]
        · have heq : a.2 = m0 := by omega
          have hm : candMaxStep g used m0 a = m0 := by
            unfold candMaxStep; simp [hu2, hc'.2]; omega
          rw [if_neg hgt, ih]
          simp only [hm]
          congr 1
          unfold candSel
          by_cases hM : List.foldl (candMaxStep g used) m0 r = m0
          · simp [hM, hu2, heq]
          · have : a.2 ≠ List.foldl (candMaxStep g used) m0 r := by rw [heq]; exact fun h => hM h.symm
            simp [hM, this]
    · have hu' : used.contains a.1 = false := by simpa using hu
      have hu2 : a.1 ∉ used := by simpa using hu'
      simp only [hu', Bool.not_false, if_true]
      have hm : candMaxStep g used m0 a = m0 := by unfold candMaxStep; simp [hu2]
      rw [ih]
      simp only [hm]
      congr 1
      have : candSel g used (List.foldl (candMaxStep g used) m0 r) a = [] := by
        unfold candSel; simp [hu2]
      rw [this]; simp

theorem candMaxStep_eq (g : Graph) (used : List Name) (m : Nat) (a : Name × Nat) :
    candMaxStep g used m a =
      if used.contains a.1 = true ∧ typeDecls g a.1 ≠ [] then max m a.2 else m := by
  unfold candMaxStep
  by_cases h : used.contains a.1 = true ∧ typeDecls g a.1 ≠ []
  · rw [if_pos h]
    by_cases h2 : a.2 > m
    · rw [if_pos ⟨h.1, h.2, h2⟩]; omega
    · rw [if_neg (fun hh => h2 hh.2.2)]; omega
  · rw [if_neg h, if_neg (fun hh => h ⟨hh.1, hh.2.1⟩)]

theorem candMaxStep_comm (g : Graph) (used : List Name) (m : Nat) (a b : Name × Nat) :
    candMaxStep g used (candMaxStep g used m a) b = candMaxStep g used (candMaxStep g used m b) a := by
  simp only [candMaxStep_eq]
  by_cases ha : used.contains a.1 = true ∧ typeDecls g a.1 ≠ [] <;>
  by_cases hb : used.contains b.1 = true ∧ typeDecls g b.1 ≠ []
  · simp only [if_pos ha, if_pos hb]; omega
  · simp only [if_pos ha, if_neg hb]
  · simp only [if_neg ha, if_pos hb]
  · simp only [if_neg ha, if_neg hb]

theorem candMax_perm (g : Graph) (used : List Name) {l1 l2 : List (Name × Nat)} (hp : l1.Perm l2) (m : Nat) :
    l1.foldl (candMaxStep g used) m = l2.foldl (candMaxStep g used) m := by
  induction hp generalizing m with
  | nil => rfl
  | cons a _ ih => simp only [List.foldl_cons]; exact ih _
  | swap a b l => simp only [List.foldl_cons]; rw [candMaxStep_comm]
  | trans _ _ ih1 ih2 => rw [ih1, ih2]

/-- the candidates chosen by RemoveTypeFwd: the same declarations whatever the iteration order of `ctx.visited` -/
theorem cand_perm (g : Graph) (used : List Name) {l1 l2 : List (Name × Nat)} (hp : l1.Perm l2) :
    (l1.foldl (candStep g used) (1, [])).2.Perm (l2.foldl (candStep g used) (1, [])).2 := by
  rw [cand_foldl, cand_foldl, candMax_perm g used hp]
  simp only [ite_self, List.nil_append]
  exact hp.flatMap_right _

/-! ## WF is preserved by the steps of the loop -/

theorem WF.map_edges {g : Graph} (h : WF g) (f : Entry → List Name) (hf : ∀ e ∈ g, (f e).Nodup) :
    WF (g.map fun e => { e with edges := f e }) where
  names_nodup := by simpa [names, List.map_map, Function.comp_def] using h.names_nodup
  pos_inj := by rw [allDecls_map_edges]; exact h.pos_inj
  nonempty := by
    intro e' he'; obtain ⟨e, he, rfl⟩ := List.mem_map.mp he'; exact h.nonempty e he
  ascending := by
    intro e' he'; obtain ⟨e, he, rfl⟩ := List.mem_map.mp he'; exact h.ascending e he
  decl_name := by
    intro e' he'; obtain ⟨e, he, rfl⟩ := List.mem_map.mp he'; exact h.decl_name e he
  edges_nodup := by
    intro e' he'; obtain ⟨e, he, rfl⟩ := List.mem_map.mp he'; exact hf e he

theorem WF.removeUnresolvable {g : Graph} (h : WF g) : WF (removeUnresolvable g) :=
  h.map_edges _ fun e he => (h.edges_nodup e he).sublist List.filter_sublist |> fun x => x

theorem WF.removeNode {g : Graph} (h : WF g) (n : Name) : WF (removeNode g n) where
  names_nodup := (names_removeNode_sublist g n).nodup h.names_nodup
  pos_inj := h.pos_inj.of_subset fun d hd => by
    obtain ⟨e, he, hde⟩ := mem_allDecls.mp hd
    exact mem_allDecls.mpr ⟨e, (List.mem_filter.mp he).1, hde⟩
  nonempty := fun e he => h.nonempty e (List.mem_filter.mp he).1
  ascending := fun e he => h.ascending e (List.mem_filter.mp he).1
  decl_name := fun e he => h.decl_name e (List.mem_filter.mp he).1
  edges_nodup := fun e he => h.edges_nodup e (List.mem_filter.mp he).1

/-- the candidate list of `removeTypeFwd` -/
def fwdCands (ord : Ord) (k : Nat) (g : Graph) : List Decl :=
  let roots := (sortByPos (allDecls (ord.sh k g))).reverse.map (·.name)
  let children := fun n => childrenOf g (ord.sh (k + 1) (edgesOf g n))
  let ctx := visitRoots children g.length (dfsFuel g) roots {}
  ((ord.sh (k + 2) ctx.visited).foldl (candStep g (usedByTypes g)) (1, [])).2

theorem removeTypeFwd_snd (ord : Ord) (k : Nat) (g : Graph) :
    (removeTypeFwd ord k g).2 =
      g.map fun e => { e with edges :=
        (if isTypeEntry e = true then e.edges.filter (fun n => !(fwdCands ord k g).any (·.name == n)) else e.edges) } := by
  simp only [removeTypeFwd, fwdCands]
  apply List.map_congr_left
  intro e _
  split <;> rfl

theorem WF.removeTypeFwd {g : Graph} (h : WF g) (ord : Ord) (k : Nat) : WF (removeTypeFwd ord k g).2 := by
  rw [removeTypeFwd_snd]
  apply h.map_edges
  intro e he
  split
  · exact (h.edges_nodup e he).sublist List.filter_sublist
  · exact h.edges_nodup e he

/-! ## RemoveTypeFwd does not depend on the iteration orders -/

theorem declsOf_subset {g : Graph} {n : Name} {d : Decl} (hd : d ∈ declsOf g n) : d ∈ allDecls g := by
  unfold declsOf at hd
  split at hd
  · rename_i e hf
    exact mem_allDecls.mpr ⟨e, List.mem_of_find?_eq_some hf, hd⟩
  · cases hd

theorem childrenOf_perm {g : Graph} (h : WF g) {es1 es2 : List Name} (hp : es1.Perm es2) :
    childrenOf g es1 = childrenOf g es2 := by
  unfold childrenOf
  rw [sortByPos_eq_of_perm (hp.flatMap_right _)]
  exact h.pos_inj.of_subset fun d hd => by
    obtain ⟨n, _, hdn⟩ := List.mem_flatMap.mp hd
    exact declsOf_subset hdn

theorem cand_mem (g : Graph) (used : List Name) (l : List (Name × Nat)) {d : Decl}
    (hd : d ∈ (l.foldl (candStep g used) (1, [])).2) : d ∈ allDecls g := by
  rw [cand_foldl] at hd
  simp only [ite_self, List.nil_append] at hd
  obtain ⟨nc, _, hdn⟩ := List.mem_flatMap.mp hd
  unfold candSel at hdn
  split at hdn
  · exact declsOf_subset (List.mem_filter.mp hdn).1
  · cases hdn

theorem removeTypeFwd_ord {g : Graph} (h : WF g) (ord : Ord) (hord : ord.OK) (k : Nat) :
    (removeTypeFwd ord k g).2 = (removeTypeFwd Ord.id k g).2 ∧
    sortByPos (removeTypeFwd ord k g).1 = sortByPos (removeTypeFwd Ord.id k g).1 := by
  have hroots : sortByPos (allDecls (ord.sh k g)) = sortByPos (allDecls g) := by
    apply sortByPos_eq_of_perm ((hord k g).flatMap_right _)
    exact h.pos_inj.of_subset fun d hd => by
      obtain ⟨e, he, hde⟩ := mem_allDecls.mp hd
      exact mem_allDecls.mpr ⟨e, (hord k g).mem_iff.mp he, hde⟩
  have hchildren : (fun n => childrenOf g (ord.sh (k + 1) (edgesOf g n))) = (fun n => childrenOf g (edgesOf g n)) := by
    funext n; exact childrenOf_perm h (hord _ _)
  simp only [removeTypeFwd, Ord.id, hroots, hchildren]
  generalize visitRoots (fun n => childrenOf g (edgesOf g n)) g.length (dfsFuel g)
    (List.map (fun x => x.name) (sortByPos (allDecls g)).reverse) {} = ctx
  have hperm := cand_perm g (usedByTypes g) (hord (k + 2) ctx.visited)
  constructor
  · apply List.map_congr_left
    intro e _
    have : ∀ n, (List.foldl (candStep g (usedByTypes g)) (1, []) (ord.sh (k + 2) ctx.visited)).2.any (·.name == n) =
        (List.foldl (candStep g (usedByTypes g)) (1, []) ctx.visited).2.any (·.name == n) := fun n => hperm.any_eq
    simp only [this]
  · apply sortByPos_eq_of_perm (hperm.map _)
    intro a ha b hb hab
    obtain ⟨a', ha', rfl⟩ := List.mem_map.mp ha
    obtain ⟨b', hb', rfl⟩ := List.mem_map.mp hb
    have := h.pos_inj a' (cand_mem g _ _ ha') b' (cand_mem g _ _ hb') hab
    rw [this]

/-! ## sort_deterministic -/

theorem sortLoop_det (ord : Ord) (hord : ord.OK) :
    ∀ (fuel round round' : Nat) (g : Graph) (acc : List Decl), WF g →
      sortLoop ord fuel round g acc = sortLoop Ord.id fuel round' g acc := by
  intro fuel
  induction fuel with
  | zero => intros; rfl
  | succ fuel ih =>
    intro round round' g acc hwf
    simp only [sortLoop]
    split
    · rfl
    · have hpick : pickNoDeps (ord.sh (4 * round) g) = pickNoDeps (Ord.id.sh (4 * round') g) :=
        pickNoDeps_perm hwf (hord _ g)
      rw [hpick]
      cases hp : pickNoDeps (Ord.id.sh (4 * round') g) with
      | some e =>
        simp only
        exact ih _ _ _ _ (hwf.removeNode e.name).removeUnresolvable
      | none =>
        simp only
        obtain ⟨h1, h2⟩ := removeTypeFwd_ord hwf ord hord (4 * round + 1)
        have h3 : (removeTypeFwd Ord.id (4 * round + 1) g) = (removeTypeFwd Ord.id (4 * round' + 1) g) := rfl
        have hemp : (removeTypeFwd ord (4 * round + 1) g).1.isEmpty = (removeTypeFwd Ord.id (4 * round' + 1) g).1.isEmpty := by
          rw [← h3]
          have := congrArg List.length h2
          rw [(sortByPos_perm _).length_eq, (sortByPos_perm _).length_eq] at this
          cases ha : (removeTypeFwd ord (4 * round + 1) g).1 <;>
            cases hb : (removeTypeFwd Ord.id (4 * round + 1) g).1 <;> simp_all
        rw [hemp, h2, h1, ← h3]
        split
        · rfl
        · exact ih _ _ _ _ (hwf.removeTypeFwd Ord.id _).removeUnresolvable

end Dep
