import Model.Dispatch
/-! Soundness of the arm templates (`Model/C01Arms.lean`): evaluating the IR of an expected arm on
    ANY operand values gives the Go-specification operator (`GoSpec.binop`/`unop`), including
    the panic outcomes and the left-to-right evaluation of the operand closures.  Proved once per
    arm family, generically in the kind. -/
namespace C01Sound
open ClosureIR GoSpec C01Arms GoSpec.Outcome

theorem zext_trunc (w : Nat) (hw : w ≤ 64) (x : BitVec w) : (x.setWidth 64).setWidth w = x := by
  rw [BitVec.setWidth_setWidth_of_le x hw]; simp

theorem sext_trunc (w : Nat) (hw : w ≤ 64) (x : BitVec w) : (x.signExtend 64).setWidth w = x := by
  ext i h
  simp [BitVec.getLsbD_signExtend, h]
  intro _
  omega

theorem sext_sext (w : Nat) (hw : w ≤ 64) (x : BitVec w) : (x.signExtend 64).signExtend w = x := by
  rw [BitVec.signExtend_eq_setWidth_of_le _ hw, sext_trunc w hw]

/-- float conversions used for constants are exact round trips (hardware fact, hypothesis) -/
def FloatRoundTrip (F : FloatOps) : Prop := ∀ b : BitVec 32, F.narrow (F.widen b) = b

theorem constOf_eval (F : FloatOps) (hF : FloatRoundTrip F) (ρ : Store) (k : Kind) (v : Val) (rv : E)
    (hv : v.hasKind k = true) (hrv : evalE F ρ rv = okV (.rvalue v)) :
    evalE F ρ (constOf k rv) = okVal v := by
  cases v with
  | int ik x =>
    cases k <;> simp [Val.hasKind, Kind.ikind?] at hv <;> subst hv <;>
      simp [constOf, needsConv, getter, evalE, methKey, isCompileTimeGetter, hrv, evalMeth0, rvalueGet, evalConv, convVal, Kind.ikind?, I.conv,
        okV, okVal, sext_sext, zext_trunc]
  | bool b => cases k <;> simp [Val.hasKind, Kind.ikind?] at hv <;>
      simp [constOf, needsConv, getter, evalE, methKey, isCompileTimeGetter, hrv, evalMeth0, rvalueGet, okV, okVal]
  | str s => cases k <;> simp [Val.hasKind, Kind.ikind?] at hv <;>
      simp [constOf, needsConv, getter, evalE, methKey, isCompileTimeGetter, hrv, evalMeth0, rvalueGet, okV, okVal]
  | f32 b => cases k <;> simp [Val.hasKind, Kind.ikind?] at hv <;>
      simp [constOf, needsConv, getter, evalE, methKey, isCompileTimeGetter, hrv, evalMeth0, rvalueGet, evalConv, convVal, okV, okVal, hF b]
  | f64 b => cases k <;> simp [Val.hasKind, Kind.ikind?] at hv <;>
      simp [constOf, needsConv, getter, evalE, methKey, isCompileTimeGetter, hrv, evalMeth0, rvalueGet, okV, okVal]
  | c64 r i => cases k <;> simp [Val.hasKind, Kind.ikind?] at hv <;>
      simp [constOf, needsConv, getter, evalE, methKey, isCompileTimeGetter, hrv, evalMeth0, rvalueGet, evalConv, convVal, okV, okVal, hF r, hF i]
  | c128 r i => cases k <;> simp [Val.hasKind, Kind.ikind?] at hv <;>
      simp [constOf, needsConv, getter, evalE, methKey, isCompileTimeGetter, hrv, evalMeth0, rvalueGet, okV, okVal]

/-- left-to-right evaluation of two operand closures, then `f` -/
def seq2 (rx ry : Outcome Val) (f : Val → Val → Option (Outcome Val)) : Option (Outcome Val) :=
  match rx with
  | .panic p => some (.panic p)
  | .ok x => match ry with
    | .panic p => some (.panic p)
    | .ok y => f x y

theorem liftVal_ret (o : Option (Outcome Val)) :
    (match liftVal o with
      | none => none
      | some (Outcome.panic p) => some (Outcome.panic p)
      | some (ok v) => retVal v) = o := by
  cases o with
  | none => rfl
  | some r => cases r <;> rfl

@[simp] theorem liftVal_ok (v : Val) : liftVal (some (ok v)) = some (ok (.val v)) := rfl
@[simp] theorem liftVal_panic (p : Panic) : liftVal (some (Outcome.panic p)) = some (Outcome.panic p) := rfl
@[simp] theorem evalBin_val (F : FloatOps) (op : BinOp) (x y : Val) :
    evalBin F op (.val x) (.val y) = liftVal (binop F op x y) := rfl

theorem bin_vv_sound (F : FloatOps) (f : BinFn) (hf : f ∈ binFns) (k : Kind) (rx ry : Outcome Val) (ρ : Store)
    (hx : lookup ρ "xe.Fun" = some (.closure k rx)) (hy : lookup ρ "ye.Fun" = some (.closure k ry)) :
    evalArm F ρ (binArm f .vv k) = seq2 rx ry (binop F f.op) := by
  simp only [binFns, List.mem_cons, List.mem_nil_iff, or_false] at hf
  rcases hf with rfl | rfl | rfl | rfl | rfl | rfl | rfl | rfl | rfl | rfl | rfl | rfl | rfl | rfl | rfl <;>
  · cases rx <;> cases ry <;>
    simp [binArm, binBinds, binBody, addFn, subFn, mulFn, quoFn, remFn, andFn, orFn, xorFn, andnotFn, lssFn, gtrFn, leqFn, geqFn,
      relFn, eqlFn, neqFn, xFun, yFun, xAssert, yAssert, xApp, yApp,
      evalArm, evalBinds, evalE, fieldKey, lookup, update, hx, hy, okV, okVal, execBody, execS, seq2,
      liftVal_ret] <;> first | done | exact liftVal_ret _

theorem constOf_inline (F : FloatOps) (hF : FloatRoundTrip F) (ρ : Store) (k : Kind) (c : Val) (n : String)
    (hc : c.hasKind k = true) (h : lookup ρ n = some (.iface c)) :
    evalE F ρ (constOf k (.call1 "xr.ValueOf" (.var n))) = okVal c :=
  constOf_eval F hF ρ k c _ hc (by simp [evalE, h, evalCall1, okV])

theorem constOf_var (F : FloatOps) (hF : FloatRoundTrip F) (ρ : Store) (k : Kind) (c : Val) (n : String)
    (hc : c.hasKind k = true) (h : lookup ρ n = some (.rvalue c)) :
    evalE F ρ (constOf k (.var n)) = okVal c :=
  constOf_eval F hF ρ k c _ hc (by simp [evalE, h, okV])

theorem evalBinds_constOf (F : FloatOps) (ρ : Store) (n : String) (k : Kind) (rv : E) (rest : List (String × E)) :
    evalBinds F ρ ((n, constOf k rv) :: rest) =
      match evalE F ρ (constOf k rv) with
      | some (ok v) => evalBinds F (update ρ n v) rest
      | _ => none := by
  unfold constOf
  split
  · simp only [evalBinds]
    cases evalE F ρ (E.conv k (rv.meth0 (getter k))) with
    | none => rfl
    | some r => cases r <;> rfl
  · simp only [evalBinds]
    cases evalE F ρ (rv.meth0 (getter k)) with
    | none => rfl
    | some r => cases r <;> rfl

theorem bin_vc_sound (F : FloatOps) (hF : FloatRoundTrip F) (f : BinFn) (hf : f ∈ binFns) (k : Kind) (rx : Outcome Val) (c : Val)
    (ρ : Store) (hc : c.hasKind k = true)
    (hx : lookup ρ "xe.Fun" = some (.closure k rx)) (hy : lookup ρ "ye.Value" = some (.iface c)) :
    evalArm F ρ (binArm f .vc k) = seq2 rx (.ok c) (binop F f.op) := by
  simp only [binFns, List.mem_cons, List.mem_nil_iff, or_false] at hf
  rcases hf with rfl | rfl | rfl | rfl | rfl | rfl | rfl | rfl | rfl | rfl | rfl | rfl | rfl | rfl | rfl <;>
  · cases rx <;>
    simp [binArm, binBinds, binBody, addFn, subFn, mulFn, quoFn, remFn, andFn, orFn, xorFn, andnotFn, lssFn, gtrFn, leqFn, geqFn,
      relFn, eqlFn, neqFn, xFun, yFun, xVal, yVal, xAssert, yAssert, xApp, yApp,
      evalArm, evalBinds, evalE, fieldKey, lookup, update, hx, hy, okV, okVal, execBody, execS, seq2, evalCall1, evalBinds_constOf,
      constOf_inline F hF _ k c _ hc, constOf_var F hF _ k c _ hc] <;> first | done | exact liftVal_ret _

theorem bin_cv_sound (F : FloatOps) (hF : FloatRoundTrip F) (f : BinFn) (hf : f ∈ binFns) (k : Kind) (ry : Outcome Val) (c : Val)
    (ρ : Store) (hc : c.hasKind k = true)
    (hx : lookup ρ "xe.Value" = some (.iface c)) (hy : lookup ρ "ye.Fun" = some (.closure k ry)) :
    evalArm F ρ (binArm f .cv k) = seq2 (.ok c) ry (binop F f.op) := by
  simp only [binFns, List.mem_cons, List.mem_nil_iff, or_false] at hf
  rcases hf with rfl | rfl | rfl | rfl | rfl | rfl | rfl | rfl | rfl | rfl | rfl | rfl | rfl | rfl | rfl <;>
  · cases ry <;>
    simp [binArm, binBinds, binBody, addFn, subFn, mulFn, quoFn, remFn, andFn, orFn, xorFn, andnotFn, lssFn, gtrFn, leqFn, geqFn,
      relFn, eqlFn, neqFn, xFun, yFun, xVal, yVal, xAssert, yAssert, xApp, yApp,
      evalArm, evalBinds, evalE, fieldKey, lookup, update, hx, hy, okV, okVal, execBody, execS, seq2, evalCall1, evalBinds_constOf,
      constOf_inline F hF _ k c _ hc, constOf_var F hF _ k c _ hc] <;> first | done | exact liftVal_ret _

end C01Sound
