import Model.Eval
/-! Order independence of the abstract evaluator. -/
namespace Eval
open DepScope (Name)

variable {V : Type}

def namesA (ds : List (ADecl V)) : List Name := ds.map (·.name)

/-- the value of a declaration depends only on the values of the names it depends on -/
def Respects (d : ADecl V) : Prop :=
  ∀ e1 e2 : Name → Option V, (∀ n ∈ d.deps, e1 n = e2 n) → d.val e1 = d.val e2

/-- in the order `ds`, every dependency that is one of the names `N` comes earlier -/
def TopoOn (N : List Name) (ds : List (ADecl V)) : Prop :=
  ∀ pre d post, ds = pre ++ d :: post → ∀ n ∈ d.deps, n ∈ N → n ∈ namesA pre

theorem runA_append (a b : List (ADecl V)) (env : Name → Option V) :
    runA (a ++ b) env = runA b (runA a env) := by
  simp [runA, List.foldl_append]

theorem runA_cons (d : ADecl V) (r : List (ADecl V)) (env : Name → Option V) :
    runA (d :: r) env = runA r (update env d.name (d.val env)) := rfl

theorem runA_not_mem (ds : List (ADecl V)) (env : Name → Option V) (n : Name) (h : n ∉ namesA ds) :
    runA ds env n = env n := by
  induction ds generalizing env with
  | nil => rfl
  | cons d r ih =>
    have h' : n ≠ d.name ∧ n ∉ namesA r := by simpa [namesA] using h
    rw [runA_cons, ih _ h'.2]
    simp [update, h'.1]

/-- the final environment satisfies the defining equation of every declaration -/
theorem runA_fixpoint (ds : List (ADecl V)) (env : Name → Option V) (hnd : (namesA ds).Nodup)
    (htopo : TopoOn (namesA ds) ds) (hresp : ∀ d ∈ ds, Respects d) :
    ∀ d ∈ ds, runA ds env d.name = some (d.val (runA ds env)) := by
  intro d hd
  obtain ⟨pre, post, rfl⟩ := List.append_of_mem hd
  have hnd' : (namesA pre ++ d.name :: namesA post).Nodup := by simpa [namesA] using hnd
  have hdpost : d.name ∉ namesA post := by
    have := (List.nodup_append.mp hnd').2.1
    exact (List.nodup_cons.mp this).1
  rw [runA_append, runA_cons, runA_not_mem _ _ _ hdpost]
  simp only [update, if_true]
  congr 1
  apply hresp d hd
  intro n hn
  by_cases hdecl : n ∈ namesA (pre ++ d :: post)
  · have hpre := htopo pre d post rfl n hn hdecl
    have hn_ne : n ≠ d.name := by
      intro h; subst h
      exact (List.nodup_append.mp hnd').2.2 _ hpre _ List.mem_cons_self rfl
    have hn_post : n ∉ namesA post := by
      intro h
      exact (List.nodup_append.mp hnd').2.2 _ hpre _ (List.mem_cons_of_mem _ h) rfl
    rw [runA_not_mem _ _ _ hn_post]
    simp [update, hn_ne]
  · have h2 : n ≠ d.name := fun h => hdecl (by simp [namesA, h])
    have h3 : n ∉ namesA post := fun h => hdecl (by simp [namesA] at h ⊢; exact Or.inr (Or.inr h))
    rw [runA_not_mem _ _ _ h3]
    simp only [update, h2, if_false]

/-- two environments that satisfy the equations of the same declarations and agree outside them are
    equal, provided the declarations can be listed in an order in which dependencies come first -/
theorem fixpoint_unique (ds : List (ADecl V)) (N : List Name) (hN : ∀ d ∈ ds, d.name ∈ N)
    (htopo : TopoOn N ds) (hresp : ∀ d ∈ ds, Respects d) (E1 E2 : Name → Option V)
    (h1 : ∀ d ∈ ds, E1 d.name = some (d.val E1)) (h2 : ∀ d ∈ ds, E2 d.name = some (d.val E2))
    (hout : ∀ n, n ∉ namesA ds → E1 n = E2 n) (hNsub : ∀ n ∈ N, n ∈ namesA ds) :
    ∀ n, E1 n = E2 n := by
  have key : ∀ (rest pre : List (ADecl V)), ds = pre ++ rest → (∀ d ∈ pre, E1 d.name = E2 d.name) →
      ∀ d ∈ ds, E1 d.name = E2 d.name := by
    intro rest
    induction rest with
    | nil => intro pre h hp d hd; rw [h, List.append_nil] at hd; exact hp d hd
    | cons x rest ih =>
      intro pre h hp
      apply ih (pre ++ [x]) (by rw [h]; simp)
      intro d hd
      rcases List.mem_append.mp hd with hd | hd
      · exact hp d hd
      · have hx : d = x := by simpa using hd
        subst hx
        have hdm : d ∈ ds := by rw [h]; simp
        rw [h1 d hdm, h2 d hdm]
        congr 1
        apply hresp d hdm
        intro n hn
        by_cases hnN : n ∈ N
        · have := htopo pre d rest h n hn hnN
          obtain ⟨d', hd', rfl⟩ := List.mem_map.mp this
          exact hp d' hd'
        · apply hout
          intro hc
          obtain ⟨d', hd', rfl⟩ := List.mem_map.mp hc
          exact hnN (hN d' hd')
  intro n
  by_cases hn : n ∈ namesA ds
  · obtain ⟨d, hd, rfl⟩ := List.mem_map.mp hn
    exact key ds [] rfl (by intro d hd; cases hd) d hd
  · exact hout n hn

end Eval
