import Model.Generic
namespace Generic

theorem findEntry_some {c : List Entry} {g : Nat} {k : Ty} {e : Entry}
    (h : findEntry c g k = some e) : e ∈ c ∧ e.gid = g ∧ e.key = k := by
  induction c with
  | nil => simp [findEntry] at h
  | cons a rest ih =>
    simp only [findEntry] at h
    split at h
    · rename_i hc
      cases h
      exact ⟨List.mem_cons_self, hc.1, hc.2⟩
    · have := ih h
      exact ⟨List.mem_cons_of_mem _ this.1, this.2⟩

theorem findEntry_none {c : List Entry} {g : Nat} {k : Ty}
    (h : findEntry c g k = none) : ∀ e ∈ c, ¬ (e.gid = g ∧ e.key = k) := by
  induction c with
  | nil => intro e he; cases he
  | cons a rest ih =>
    simp only [findEntry] at h
    split at h
    · cases h
    · rename_i hc
      intro e he
      rcases List.mem_cons.mp he with rfl | he
      · exact hc
      · exact ih h e he

theorem mem_removeEntry {c : List Entry} {g : Nat} {k : Ty} {e : Entry} :
    e ∈ removeEntry c g k ↔ e ∈ c ∧ ¬ (e.gid = g ∧ e.key = k) := by
  simp only [removeEntry, List.mem_filter, decide_eq_true_eq]

theorem mem_setUnder_of_ne {c : List Entry} {g : Nat} {k u : Ty} {e : Entry}
    (he : e ∈ c) (hne : ¬ (e.gid = g ∧ e.key = k)) : e ∈ setUnder c g k u := by
  simp only [setUnder, List.mem_map]
  exact ⟨e, he, by simp [hne]⟩

theorem mem_insert_of_ne {st : St} {g : Nat} {k res : Ty} {e : Entry}
    (he : e ∈ st.cache) (hne : ¬ (e.gid = g ∧ e.key = k)) : e ∈ (st.insert g k res).cache := by
  simp only [St.insert]
  exact List.mem_cons_of_mem _ (mem_removeEntry.mpr ⟨he, hne⟩)

/-- the property "entries already cached survive" of a resolver -/
def Stable (r : St → Env → TExpr → St × Option Ty) : Prop :=
  ∀ st E x e, e ∈ st.cache → e ∈ (r st E x).1.cache

theorem instantiate_stable (rec : Option (St → Env → TExpr → St × Option Ty))
    (hrec : ∀ r, rec = some r → Stable r)
    (st : St) (U : Env) (gid : Nat) (d : GenDecl) (key : Ty)
    (hmiss : findEntry st.cache gid key = none) (e : Entry) (he : e ∈ st.cache) :
    e ∈ (instantiate rec st U gid d key).1.cache := by
  have hne : ¬ (e.gid = gid ∧ e.key = key) := findEntry_none hmiss e he
  unfold instantiate
  cases rec with
  | none => exact he
  | some r =>
    have hr := hrec r rfl
    simp only
    cases d.kind with
    | named =>
      simp only
      have h1 := hr (st.insert gid key (.inst gid key)) (bindParams d.params key ⟨[], []⟩ :: U) d.body e
        (mem_insert_of_ne he hne)
      split
      · exact mem_removeEntry.mpr ⟨h1, hne⟩
      · exact mem_setUnder_of_ne h1 hne
    | func =>
      simp only
      have h0 := hr st (bindParams d.params key ⟨[], []⟩ :: U) d.body e he
      split
      · exact h0
      · rename_i t _
        have h1 := hr _ (bindParams d.params key ⟨[], []⟩ :: U) d.refs e
          (mem_insert_of_ne (g := gid) (k := key) (res := t) h0 hne)
        split
        · exact mem_removeEntry.mpr ⟨h1, hne⟩
        · exact mem_setUnder_of_ne h1 hne

theorem resolveX_stable (G : List GenDecl) (rec : Option (St → Env → TExpr → St × Option Ty))
    (hrec : ∀ r, rec = some r → Stable r) : Stable (resolveX G rec) := by
  intro st E x
  induction x generalizing st with
  | name s => intro e he; simpa [resolveX] using he
  | lit t => intro e he; simpa [resolveX] using he
  | bad => intro e he; simpa [resolveX] using he
  | fnil => intro e he; simpa [resolveX] using he
  | anil => intro e he; simpa [resolveX] using he
  | cst c => intro e he; simpa [resolveX] using he
  | slice a ih => intro e he; simpa [resolveX] using ih st e he
  | ptr a ih => intro e he; simpa [resolveX] using ih st e he
  | strct a ih => intro e he; simpa [resolveX] using ih st e he
  | array n a ih =>
    intro e he
    simp only [resolveX]
    split <;> exact ih st e he
  | map k v ihk ihv =>
    intro e he
    simp only [resolveX]
    split
    · exact ihk st e he
    · exact ihv _ e (ihk st e he)
  | func1 k v ihk ihv =>
    intro e he
    simp only [resolveX]
    split
    · exact ihk st e he
    · exact ihv _ e (ihk st e he)
  | fcons n k v ihk ihv =>
    intro e he
    simp only [resolveX]
    split
    · exact ihk st e he
    · exact ihv _ e (ihk st e he)
  | acons k v ihk ihv =>
    intro e he
    simp only [resolveX]
    have h1 : e ∈ (argPick (argExpr G E k) st (resolveX G rec st E k)).1.cache := by
      unfold argPick
      split
      · exact he
      · exact ihk st e he
    split
    · exact h1
    · exact ihv _ e h1
  | gen fn g args ih =>
    intro e he
    simp only [resolveX]
    split
    · split
      · exact he
      · split
        · exact he
        · split
          · exact he
          · split
            · exact ih st e he
            · split
              · exact ih st e he
              · rename_i hmiss
                exact instantiate_stable rec hrec _ _ _ _ _ hmiss e (ih st e he)
    · exact he

/-- an entry that is in the cache is never evicted, replaced or modified by any compilation -/
theorem resolve_stable (G : List GenDecl) (fuel : Nat) : Stable (resolve G fuel) := by
  induction fuel with
  | zero =>
    show Stable (resolveX G none)
    exact resolveX_stable G none (by intro r h; cases h)
  | succ n ih =>
    show Stable (resolveX G (some (resolve G n)))
    exact resolveX_stable G _ (by intro r h; cases h; exact ih)

/-! ## the cache invariant: no two entries for the same (generic, arguments); object ids unique -/

structure Inv (st : St) : Prop where
  lt : ∀ e ∈ st.cache, e.obj < st.next
  keys : st.cache.Pairwise (fun a b => ¬ (a.gid = b.gid ∧ a.key = b.key))
  objs : st.cache.Pairwise (fun a b => a.obj ≠ b.obj)

theorem inv_empty : Inv St.empty := by
  refine ⟨?_, List.Pairwise.nil, List.Pairwise.nil⟩
  intro e he
  simp [St.empty] at he

theorem inv_remove {n : Nat} {c : List Entry} (g : Nat) (k : Ty) (h : Inv ⟨n, c⟩) :
    Inv ⟨n, removeEntry c g k⟩ := by
  refine ⟨?_, ?_, ?_⟩
  · intro e he; exact h.lt e (mem_removeEntry.mp he).1
  · exact h.keys.sublist (List.filter_sublist)
  · exact h.objs.sublist (List.filter_sublist)

theorem inv_setUnder {n : Nat} {c : List Entry} (g : Nat) (k u : Ty) (h : Inv ⟨n, c⟩) :
    Inv ⟨n, setUnder c g k u⟩ := by
  refine ⟨?_, ?_, ?_⟩
  · intro e he
    simp only [setUnder, List.mem_map] at he
    obtain ⟨a, ha, rfl⟩ := he
    have := h.lt a ha
    split <;> simpa using this
  · simp only [setUnder]
    refine List.Pairwise.map _ ?_ h.keys
    intro a b hab
    split <;> split <;> simpa using hab
  · simp only [setUnder]
    refine List.Pairwise.map _ ?_ h.objs
    intro a b hab
    split <;> split <;> simpa using hab

theorem inv_insert {st : St} (g : Nat) (k res : Ty) (h : Inv st) : Inv (st.insert g k res) := by
  have hr := inv_remove g k (n := st.next) (c := st.cache) h
  refine ⟨?_, ?_, ?_⟩
  · intro e he
    simp only [St.insert] at he ⊢
    rcases List.mem_cons.mp he with rfl | he
    · exact Nat.lt_succ_self _
    · exact Nat.lt_succ_of_lt (hr.lt e he)
  · simp only [St.insert]
    refine List.Pairwise.cons ?_ hr.keys
    intro b hb
    have := (mem_removeEntry.mp hb).2
    intro hc
    exact this ⟨hc.1.symm, hc.2.symm⟩
  · simp only [St.insert]
    refine List.Pairwise.cons ?_ hr.objs
    intro b hb hc
    have := hr.lt b hb
    simp only at hc this
    omega

def PresInv (r : St → Env → TExpr → St × Option Ty) : Prop :=
  ∀ st E x, Inv st → Inv (r st E x).1

theorem instantiate_inv (rec : Option (St → Env → TExpr → St × Option Ty))
    (hrec : ∀ r, rec = some r → PresInv r)
    (st : St) (U : Env) (gid : Nat) (d : GenDecl) (key : Ty) (h : Inv st) :
    Inv (instantiate rec st U gid d key).1 := by
  unfold instantiate
  cases rec with
  | none => exact h
  | some r =>
    have hr := hrec r rfl
    simp only
    cases d.kind with
    | named =>
      simp only
      have h1 := hr (st.insert gid key (.inst gid key)) (bindParams d.params key ⟨[], []⟩ :: U) d.body
        (inv_insert gid key _ h)
      split
      · exact inv_remove gid key h1
      · exact inv_setUnder gid key _ h1
    | func =>
      simp only
      have h0 := hr st (bindParams d.params key ⟨[], []⟩ :: U) d.body h
      split
      · exact h0
      · rename_i t _
        have h1 := hr _ (bindParams d.params key ⟨[], []⟩ :: U) d.refs (inv_insert gid key t h0)
        split
        · exact inv_remove gid key h1
        · exact inv_setUnder gid key _ h1

theorem resolveX_inv (G : List GenDecl) (rec : Option (St → Env → TExpr → St × Option Ty))
    (hrec : ∀ r, rec = some r → PresInv r) : PresInv (resolveX G rec) := by
  intro st E x
  induction x generalizing st with
  | name s => intro h; simpa [resolveX] using h
  | lit t => intro h; simpa [resolveX] using h
  | bad => intro h; simpa [resolveX] using h
  | fnil => intro h; simpa [resolveX] using h
  | anil => intro h; simpa [resolveX] using h
  | cst c => intro h; simpa [resolveX] using h
  | slice a ih => intro h; simpa [resolveX] using ih st h
  | ptr a ih => intro h; simpa [resolveX] using ih st h
  | strct a ih => intro h; simpa [resolveX] using ih st h
  | array n a ih =>
    intro h
    simp only [resolveX]
    split <;> exact ih st h
  | map k v ihk ihv =>
    intro h
    simp only [resolveX]
    split
    · exact ihk st h
    · exact ihv _ (ihk st h)
  | func1 k v ihk ihv =>
    intro h
    simp only [resolveX]
    split
    · exact ihk st h
    · exact ihv _ (ihk st h)
  | fcons n k v ihk ihv =>
    intro h
    simp only [resolveX]
    split
    · exact ihk st h
    · exact ihv _ (ihk st h)
  | acons k v ihk ihv =>
    intro h
    simp only [resolveX]
    have h1 : Inv (argPick (argExpr G E k) st (resolveX G rec st E k)).1 := by
      unfold argPick
      split
      · exact h
      · exact ihk st h
    split
    · exact h1
    · exact ihv _ h1
  | gen fn g args ih =>
    intro h
    simp only [resolveX]
    split
    · split
      · exact h
      · split
        · exact h
        · split
          · exact h
          · split
            · exact ih st h
            · split
              · exact ih st h
              · exact instantiate_inv rec hrec _ _ _ _ _ (ih st h)
    · exact h

theorem resolve_inv (G : List GenDecl) (fuel : Nat) : PresInv (resolve G fuel) := by
  induction fuel with
  | zero =>
    show PresInv (resolveX G none)
    exact resolveX_inv G none (by intro r h; cases h)
  | succ n ih =>
    show PresInv (resolveX G (some (resolve G n)))
    exact resolveX_inv G _ (by intro r h; cases h; exact ih)

/-! ## memoization -/

theorem findEntry_of_mem {c : List Entry} {e : Entry}
    (hk : c.Pairwise (fun a b => ¬ (a.gid = b.gid ∧ a.key = b.key))) (he : e ∈ c) :
    findEntry c e.gid e.key = some e := by
  induction c with
  | nil => cases he
  | cons a rest ih =>
    simp only [findEntry]
    rcases List.mem_cons.mp he with rfl | he'
    · simp
    · have hne : ¬ (a.gid = e.gid ∧ a.key = e.key) := (List.pairwise_cons.mp hk).1 e he'
      simp only [hne, if_false]
      exact ih (List.pairwise_cons.mp hk).2 he'

theorem mem_setUnder_self {c : List Entry} {g : Nat} {k u : Ty} {e : Entry}
    (he : e ∈ c) (hg : e.gid = g) (hk : e.key = k) :
    { e with under := some u } ∈ setUnder c g k u := by
  simp only [setUnder, List.mem_map]
  exact ⟨e, he, by simp [hg, hk]⟩

/-- a successful instantiation leaves an entry for (generic, key) whose cached type is the result -/
theorem instantiate_registers (r : St → Env → TExpr → St × Option Ty) (hr : Stable r)
    (st : St) (U : Env) (gid : Nat) (d : GenDecl) (key : Ty) (st1 : St) (t : Ty)
    (h : instantiate (some r) st U gid d key = (st1, some t)) :
    ∃ e ∈ st1.cache, e.gid = gid ∧ e.key = key ∧ e.res = t := by
  unfold instantiate at h
  simp only at h
  cases hk : d.kind with
  | named =>
    simp only [hk] at h
    split at h
    · cases h
    · rename_i u hu
      cases h
      have hin : (⟨gid, key, st.next, .inst gid key, none⟩ : Entry) ∈ (st.insert gid key (.inst gid key)).cache := by
        simp [St.insert]
      have := hr _ (bindParams d.params key ⟨[], []⟩ :: U) d.body _ hin
      exact ⟨_, mem_setUnder_self (u := u) this rfl rfl, rfl, rfl, rfl⟩
  | func =>
    simp only [hk] at h
    split at h
    · cases h
    · rename_i t0 ht0
      split at h
      · cases h
      · cases h
        have hin : (⟨gid, key, (r st (bindParams d.params key ⟨[], []⟩ :: U) d.body).1.next, t, none⟩ : Entry) ∈
            ((r st (bindParams d.params key ⟨[], []⟩ :: U) d.body).1.insert gid key t).cache := by
          simp [St.insert]
        have := hr _ (bindParams d.params key ⟨[], []⟩ :: U) d.refs _ hin
        exact ⟨_, mem_setUnder_self (u := t) this rfl rfl, rfl, rfl, rfl⟩

/-- the states reachable from `st` by any sequence of compilations (any fuel, scope, expression) -/
inductive Reach (G : List GenDecl) : St → St → Prop where
  | refl (st : St) : Reach G st st
  | step {st st' : St} (fuel : Nat) (E : Env) (x : TExpr) :
      Reach G st st' → Reach G st (resolve G fuel st' E x).1

theorem reach_inv {G : List GenDecl} {st st' : St} (h : Reach G st st') (hi : Inv st) : Inv st' := by
  induction h with
  | refl => exact hi
  | step fuel E x _ ih => exact resolve_inv G fuel _ E x ih

theorem reach_mem {G : List GenDecl} {st st' : St} (h : Reach G st st') {e : Entry} (he : e ∈ st.cache) :
    e ∈ st'.cache := by
  induction h with
  | refl => exact he
  | step fuel E x _ ih => exact resolve_stable G fuel _ E x e ih

end Generic
