import Model.Collect
/-! Lemmas for C39: `collectAst` is a left fold over the leaves that stops at the first error; on error-free leaves the four
    components are `filterMap`s of the leaves. -/
namespace Collect

/-- one leaf: a node, or a `bad` Ast -/
def stepLeaf (o : Opts) (s : State) : Option Node → State × Option Err
  | some n => collectNode o s n
  | none => (s, some .badAst)

/-- fold that stops at the first error -/
def foldLeaves (o : Opts) (s : State) : List (Option Node) → State × Option Err
  | [] => (s, none)
  | l :: rest =>
    match stepLeaf o s l with
    | (s', none) => foldLeaves o s' rest
    | (s', some e) => (s', some e)

theorem foldLeaves_append (o : Opts) (s : State) (xs ys : List (Option Node)) :
    foldLeaves o s (xs ++ ys) =
      match foldLeaves o s xs with
      | (s', none) => foldLeaves o s' ys
      | (s', some e) => (s', some e) := by
  induction xs generalizing s with
  | nil => simp [foldLeaves]
  | cons x xs ih =>
    simp only [List.cons_append, foldLeaves]
    cases h : stepLeaf o s x with
    | mk s' e =>
      cases e with
      | none => simp [ih]
      | some e => simp

mutual
theorem collectAst_fold (o : Opts) (s : State) : (a : Ast) → collectAst o s a = foldLeaves o s (flatten a)
  | .node n => by
    cases h : collectNode o s n with
    | mk s' e => cases e <;> simp [collectAst, flatten, foldLeaves, stepLeaf, h]
  | .bad => by simp [collectAst, flatten, foldLeaves, stepLeaf]
  | .slice l => by
    simp only [collectAst, flatten]
    exact collectAst_go_fold o s l
theorem collectAst_go_fold (o : Opts) (s : State) : (l : List Ast) → collectAst.go o s l = foldLeaves o s (flatten.go l)
  | [] => by simp [collectAst.go, flatten.go, foldLeaves]
  | a :: rest => by
    simp only [collectAst.go, flatten.go, foldLeaves_append]
    rw [collectAst_fold o s a]
    cases h : foldLeaves o s (flatten a) with
    | mk s' e =>
      cases e with
      | none => simp [collectAst_go_fold o s' rest]
      | some e => simp
end

/-! ### classification of one node -/

/-- the node does not make `CollectNode` panic -/
def okNode (o : Opts) : Node → Bool
  | .genDecl .other _ _ => !o.decl
  | .spec .otherSpec _ => false
  | .assign true false _ => !o.decl
  | .other _ => false
  | _ => true

def okLeaf (o : Opts) : Option Node → Bool
  | some n => okNode o n
  | none => false

def asImport (o : Opts) : Node → Option Item
  | .genDecl .import_ _ id => if o.decl then some (.orig id) else none
  | .spec .importSpec id => if o.decl then some (.wrapSpec .import_ id) else none
  | _ => none

def asDecl (o : Opts) : Node → Option Item
  | .genDecl .type_ _ id | .genDecl .var_ _ id | .genDecl .const_ _ id => if o.decl then some (.orig id) else none
  | .funcDecl recv id => if o.decl && recv != .empty then some (.orig id) else none
  | .spec .typeSpec id => if o.decl then some (.wrapSpec .type_ id) else none
  | .spec .valueSpec id => if o.decl then some (.wrapSpec .var_ id) else none
  | .otherDecl id => if o.decl then some (.orig id) else none
  | .assign true true id => if o.decl then some (.wrapDefine id) else none
  | _ => none

def asStmt (o : Opts) : Node → Option Item
  | .assign false _ id | .stmt id => if o.stmt then some (.orig id) else none
  | .pkgExpr name id => if o.decl && name.isSome then none else if o.stmt then some (.wrapExpr id) else none
  | .unaryExpr id | .expr id => if o.stmt then some (.wrapExpr id) else none
  | _ => none

def asPkg (o : Opts) : Node → Option String
  | .genDecl .package_ (some n) _ => if o.decl then some n else none
  | .pkgExpr (some n) _ => if o.decl then some n else none
  | _ => none

/-- the package name after a run: the last package clause wins -/
def lastPkg (o : Opts) (p : String) : List Node → String
  | [] => p
  | n :: rest => lastPkg o (match asPkg o n with | some q => q | none => p) rest

/-- specification of a run over error-free nodes -/
def specState (o : Opts) (s : State) (ns : List Node) : State :=
  { pkg := lastPkg o s.pkg ns,
    imports := s.imports ++ ns.filterMap (asImport o),
    decls := s.decls ++ ns.filterMap (asDecl o),
    stmts := s.stmts ++ ns.filterMap (asStmt o) }

theorem specState_nil (o : Opts) (s : State) : specState o s [] = s := by
  simp [specState, lastPkg]

theorem collectNode_ok (o : Opts) (s : State) (n : Node) (h : okNode o n = true) :
    collectNode o s n = (specState o s [n], none) := by
  cases s with
  | mk pkg imports decls stmts =>
  cases o with
  | mk od os =>
  cases n with
  | genDecl tok pkgn id =>
    cases tok <;> cases od <;> cases pkgn <;>
      simp_all [okNode, collectNode, collectGenDecl, specState, lastPkg, asPkg, asImport, asDecl, asStmt, addImport, addDecl]
  | funcDecl recv id =>
    cases recv <;> cases od <;>
      simp [collectNode, specState, lastPkg, asPkg, asImport, asDecl, asStmt, addDecl]
  | spec k id =>
    cases k <;> cases od <;>
      simp_all [okNode, collectNode, collectGenDecl, specState, lastPkg, asPkg, asImport, asDecl, asStmt, addImport, addDecl]
  | otherDecl id =>
    cases od <;> simp [collectNode, specState, lastPkg, asPkg, asImport, asDecl, asStmt, addDecl]
  | assign d li id =>
    cases d <;> cases li <;> cases od <;> cases os <;>
      simp_all [okNode, collectNode, specState, lastPkg, asPkg, asImport, asDecl, asStmt, addDecl, addStmt]
  | stmt id =>
    cases os <;> simp [collectNode, specState, lastPkg, asPkg, asImport, asDecl, asStmt, addStmt]
  | pkgExpr name id =>
    cases name <;> cases od <;> cases os <;>
      simp [collectNode, specState, lastPkg, asPkg, asImport, asDecl, asStmt, addStmt]
  | unaryExpr id =>
    cases os <;> simp [collectNode, specState, lastPkg, asPkg, asImport, asDecl, asStmt, addStmt]
  | expr id =>
    cases os <;> simp [collectNode, specState, lastPkg, asPkg, asImport, asDecl, asStmt, addStmt]
  | other id => simp [okNode] at h

theorem collectNode_bad (o : Opts) (s : State) (n : Node) (h : okNode o n = false) :
    ∃ e, collectNode o s n = (s, some e) := by
  cases o with
  | mk od os =>
  cases n with
  | genDecl tok pkgn id => cases tok <;> cases od <;> simp_all [okNode, collectNode, collectGenDecl]
  | funcDecl recv id => simp [okNode] at h
  | spec k id => cases k <;> simp_all [okNode, collectNode]
  | otherDecl id => simp [okNode] at h
  | assign d li id => cases d <;> cases li <;> cases od <;> simp_all [okNode, collectNode]
  | stmt id => simp [okNode] at h
  | pkgExpr name id => simp [okNode] at h
  | unaryExpr id => simp [okNode] at h
  | expr id => simp [okNode] at h
  | other id => simp [collectNode]

theorem specState_cons (o : Opts) (s : State) (n : Node) (ns : List Node) :
    specState o s (n :: ns) = specState o (specState o s [n]) ns := by
  simp only [specState, lastPkg, List.filterMap_cons, List.filterMap_nil]
  cases asImport o n <;> cases asDecl o n <;> cases asStmt o n <;> simp

theorem specState_append (o : Opts) (s : State) (xs ys : List Node) :
    specState o s (xs ++ ys) = specState o (specState o s xs) ys := by
  induction xs generalizing s with
  | nil => simp [specState_nil]
  | cons x xs ih => rw [List.cons_append, specState_cons, ih, ← specState_cons]

/-- error-free leaves: the fold is the specification -/
theorem foldLeaves_ok (o : Opts) (s : State) (ns : List Node) (h : ∀ n ∈ ns, okNode o n = true) :
    foldLeaves o s (ns.map some) = (specState o s ns, none) := by
  induction ns generalizing s with
  | nil => simp [foldLeaves, specState_nil]
  | cons n ns ih =>
    have hn : okNode o n = true := h n (by simp)
    simp only [List.map_cons, foldLeaves, stepLeaf, collectNode_ok o s n hn]
    rw [ih _ (fun m hm => h m (by simp [hm])), ← specState_cons]

/-- first failing leaf: everything before it is collected, the leaf itself and everything after it is not -/
theorem foldLeaves_stop (o : Opts) (s : State) (ns : List Node) (l : Option Node) (rest : List (Option Node))
    (h : ∀ n ∈ ns, okNode o n = true) (hl : okLeaf o l = false) :
    ∃ e, foldLeaves o s (ns.map some ++ l :: rest) = (specState o s ns, some e) := by
  rw [foldLeaves_append, foldLeaves_ok o s ns h]
  simp only [foldLeaves]
  cases l with
  | none => exact ⟨.badAst, by simp [stepLeaf]⟩
  | some n =>
    obtain ⟨e, he⟩ := collectNode_bad o (specState o s ns) n (by simpa [okLeaf] using hl)
    exact ⟨e, by simp [stepLeaf, he]⟩

end Collect
