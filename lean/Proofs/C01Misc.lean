import Proofs.C01Sound
import Proofs.Pow2
/-! Unary arms, `exprZero`, `Land`/`Lor`, and the evaluation of the power-of-two arms
    (their IR computes exactly the `Pow2` functions whose correctness is proved in Proofs/Pow2.lean). -/
namespace C01Misc
open ClosureIR GoSpec C01Arms GoSpec.Outcome C01Sound

/-- operand result of an integer kind -/
def unopR (rx : Outcome Val) (f : Val → Option (Outcome Val)) : Option (Outcome Val) :=
  match rx with
  | .panic p => some (.panic p)
  | .ok x => f x

theorem unary_sound (F : FloatOps) (fn : String) (op : UnOp) (k : Kind) (rx : Outcome Val) (ρ : Store)
    (hx : lookup ρ "xe.Fun" = some (.closure k rx)) :
    evalArm F ρ (unEntry fn op k).arm = unopR rx (unop F op) := by
  cases rx <;>
    simp [unEntry, xFun, xAssert, xApp, evalArm, evalBinds, evalE, fieldKey, lookup, update, hx, okV, execBody, execS, unopR, evalUn]
  exact liftVal_ret _

theorem exprZero_sound (F : FloatOps) (k : Kind) (rx : Outcome Val) (ρ : Store)
    (hx : lookup ρ "xe.Fun" = some (.closure k rx)) :
    evalArm F ρ (exprZeroEntry k).arm = unopR rx (fun _ => some (.ok (Val.zero k))) := by
  cases rx <;>
    simp [exprZeroEntry, xFun, xAssert, xApp, evalArm, evalBinds, evalE, fieldKey, lookup, update, hx, okV, execBody, execS, unopR]

/-- Go's `&&`, `||`: the right operand is evaluated only when needed -/
def logicSpec (isAnd : Bool) (rx ry : Outcome Val) : Option (Outcome Val) :=
  match rx with
  | .panic p => some (.panic p)
  | .ok (.bool a) =>
    if a == isAnd then
      (match ry with
       | .panic p => some (.panic p)
       | .ok (.bool b) => some (.ok (.bool b))
       | _ => none)
    else some (.ok (.bool a))
  | _ => none

theorem land_sound (F : FloatOps) (rx ry : Outcome Val) (ρ : Store) (vx vy : V)
    (hx : lookup ρ "x.TryAsPred()" = some (.pair vx (.closure .bool rx)))
    (hy : lookup ρ "y.TryAsPred()" = some (.pair vy (.closure .bool ry))) :
    evalArm F ρ (landTable.getD 1 default).arm = logicSpec true rx ry ∧
    evalArm F ρ (lorTable.getD 1 default).arm = logicSpec false rx ry := by
  constructor <;>
  · cases rx with
    | panic p =>
      simp [landTable, lorTable, xfunBind, yfunBind, evalArm, evalBinds, evalE, methKey, isCompileTimeGetter, lookup, update, hx, hy, okV,
        execBody, execS, logicSpec]
    | ok vx =>
      cases vx <;> try (simp [landTable, lorTable, xfunBind, yfunBind, evalArm, evalBinds, evalE, methKey, isCompileTimeGetter, lookup, update, hx, hy, okV,
        execBody, execS, logicSpec])
      rename_i a
      cases a <;> cases ry with
      | panic p =>
        simp [landTable, lorTable, xfunBind, yfunBind, evalArm, evalBinds, evalE, methKey, isCompileTimeGetter, lookup, update, hx, hy, okV, okVal,
          execBody, execS, logicSpec, retVal]
      | ok vy =>
        cases vy <;>
        simp [landTable, lorTable, xfunBind, yfunBind, evalArm, evalBinds, evalE, methKey, isCompileTimeGetter, lookup, update, hx, hy, okV, okVal,
          execBody, execS, logicSpec, retVal]

/-- the prologue variables an arm of mulPow2/quoPow2/remPow2 captures -/
def pow2Ctx (ρ : Store) (k : Kind) (rx : Outcome Val) (y : BitVec 64) (L : BitVec 8) : Prop :=
  lookup ρ "xe.Fun" = some (.closure k rx) ∧ lookup ρ "y" = some (.val (.int ⟨64, false⟩ y)) ∧
  lookup ρ "integerLen(y)" = some (.val (.int ⟨8, false⟩ L))

def intR (ik : IKind) (rx : Outcome Val) (f : BitVec ik.w → BitVec ik.w) : Option (Outcome Val) :=
  match rx with
  | .panic p => some (.panic p)
  | .ok (.int ik' x) => if h : ik' = ik then some (.ok (.int ik (f (h ▸ x)))) else none
  | _ => none

theorem mulPow2_default_eval (F : FloatOps) (k : Kind) (ik : IKind) (sub : List String) (x : BitVec ik.w)
    (y : BitVec 64) (L : BitVec 8) (ρ : Store) (h : pow2Ctx ρ k (.ok (.int ik x)) y L) :
    evalArm F ρ (mulPow2Default k sub).arm = some (.ok (.int ik (Pow2.mulPow2 x (L - 1).toNat true))) ∧
    evalArm F ρ (mulPow2Neg k).arm = some (.ok (.int ik (Pow2.mulPow2 x (L - 1).toNat false))) := by
  obtain ⟨hx, hy, hl⟩ := h
  constructor <;>
  simp [mulPow2Default, mulPow2Neg, yDecl, shiftBind, xFun, xAssert, xApp, evalArm, evalBinds, evalE, fieldKey, lookup, update, hx, hy, hl,
    okV, okVal, execBody, execS, evalCall1, evalBin, BinOp.isShift, coerce, binop, intBin, I.sub, intShift, I.shiftCount, Outcome.map,
    retVal, Pow2.mulPow2, I.shl_eq, evalUn, unop, I.neg]

theorem mulPow2_lit_eval (F : FloatOps) (k : Kind) (ik : IKind) (sub : List String) (x : BitVec ik.w) (n : Nat) (hn : n < 64)
    (ρ : Store) (hx : lookup ρ "xe.Fun" = some (.closure k (.ok (.int ik x)))) :
    evalArm F ρ (mulPow2Lit k sub n).arm = some (.ok (.int ik (Pow2.mulPow2 x n true))) := by
  have : ¬ ((n : Int) < 0) := by omega
  have h2 : ((n : Int) % 18446744073709551616).toNat = n := by omega
  simp [mulPow2Lit, xFun, xAssert, xApp, evalArm, evalBinds, evalE, fieldKey, lookup, update, hx,
    okV, okVal, execBody, execS, evalBin, BinOp.isShift, this, intShift, I.shiftCount, Outcome.map,
    retVal, Pow2.mulPow2, I.shl_eq, h2]

theorem y1_eval (F : FloatOps) (k : Kind) (ik : IKind) (hk : k.ikind? = some ik) (y : BitVec 64) (ρ : Store)
    (hy : lookup ρ "y" = some (.val (.int ⟨64, false⟩ y))) :
    evalE F ρ (y1Bind k).2 = okVal (.int ik ((y - 1#64).setWidth ik.w)) := by
  simp [y1Bind, evalE, lookup, hy, okV, okVal, evalBin, BinOp.isShift, coerce, binop, intBin, I.sub, evalConv, convVal, hk, I.conv]

theorem quoPow2_eval (F : FloatOps) (k : Kind) (ik : IKind) (hk : k.ikind? = some ik) (hs : ik.signed = true) (x : BitVec ik.w)
    (y : BitVec 64) (L : BitVec 8) (ρ : Store) (h : pow2Ctx ρ k (.ok (.int ik x)) y L) (neg : Bool) :
    evalArm F ρ ((quoPow2Signed k).getD (if neg then 1 else 0) default).arm =
      some (.ok (.int ik (Pow2.quoPow2 x ((y - 1#64).setWidth ik.w) (L - 1).toNat (!neg)))) := by
  obtain ⟨hx, hy, hl⟩ := h
  cases neg <;> cases hlt : x.slt 0#ik.w <;>
  simp [quoPow2Signed, quoBody, yDecl, shiftBind, y1Bind, xFun, xAssert, xApp, evalArm, evalBinds, evalE, fieldKey, lookup, update, hx, hy, hl,
    okV, okVal, execBody, execS, evalCall1, evalBin, BinOp.isShift, coerce, binop, intBin, I.sub, I.add, I.lt, hs, intShift, I.shiftCount,
    Outcome.map, retVal, Pow2.quoPow2, I.shr_eq, evalUn, unop, I.neg, evalConv, convVal, hk, I.conv, hlt]

theorem quoPow2U_eval (F : FloatOps) (k : Kind) (ik : IKind) (hs : ik.signed = false) (x : BitVec ik.w)
    (y : BitVec 64) (L : BitVec 8) (ρ : Store) (h : pow2Ctx ρ k (.ok (.int ik x)) y L) :
    evalArm F ρ (quoPow2Unsigned k).arm = some (.ok (.int ik (Pow2.quoPow2U x (L - 1).toNat))) := by
  obtain ⟨hx, hy, hl⟩ := h
  simp [quoPow2Unsigned, yDecl, shiftBind, xFun, xAssert, xApp, evalArm, evalBinds, evalE, fieldKey, lookup, update, hx, hy, hl,
    okV, okVal, execBody, execS, evalCall1, evalBin, BinOp.isShift, coerce, binop, intBin, I.sub, intShift, I.shiftCount,
    Outcome.map, retVal, Pow2.quoPow2U, I.shr_eq, hs]

theorem remPow2_eval (F : FloatOps) (k : Kind) (ik : IKind) (hk : k.ikind? = some ik) (hs : ik.signed = true) (x : BitVec ik.w)
    (y : BitVec 64) (ρ : Store)
    (hx : lookup ρ "xe.Fun" = some (.closure k (.ok (.int ik x)))) (hy : lookup ρ "y" = some (.val (.int ⟨64, false⟩ y))) :
    evalArm F ρ (remPow2Signed k).arm = some (.ok (.int ik (Pow2.remPow2 x ((y - 1#64).setWidth ik.w)))) := by
  have hge : (!x.slt 0#ik.w) = (0#ik.w).sle x := by
    rw [BitVec.sle_eq_not_slt]
  cases hlt : x.slt 0#ik.w <;>
  simp [remPow2Signed, yDecl, y1Bind, xFun, xAssert, xApp, evalArm, evalBinds, evalE, fieldKey, lookup, update, hx, hy,
    okV, okVal, execBody, execS, evalBin, BinOp.isShift, coerce, binop, intBin, I.sub, I.and, I.ge, I.le, hs,
    retVal, Pow2.remPow2, evalUn, unop, I.neg, evalConv, convVal, hk, I.conv, hlt, BitVec.sle_eq_not_slt]

theorem remPow2U_eval (F : FloatOps) (k : Kind) (ik : IKind) (hk : k.ikind? = some ik) (hs : ik.signed = false) (x : BitVec ik.w)
    (y : BitVec 64) (ρ : Store)
    (hx : lookup ρ "xe.Fun" = some (.closure k (.ok (.int ik x)))) (hy : lookup ρ "y" = some (.val (.int ⟨64, false⟩ y))) :
    evalArm F ρ (remPow2Unsigned k).arm = some (.ok (.int ik (Pow2.remPow2U x ((y - 1#64).setWidth ik.w)))) := by
  simp [remPow2Unsigned, yDecl, y1Bind, xFun, xAssert, xApp, evalArm, evalBinds, evalE, fieldKey, lookup, update, hx, hy,
    okV, okVal, execBody, execS, evalBin, BinOp.isShift, coerce, binop, intBin, I.sub, I.and, hs,
    retVal, Pow2.remPow2U, evalConv, convVal, hk, I.conv]

end C01Misc
