import Model.Composite
import GoSpec.Heap

/-! Helper lemmas for Props/C08.lean -/

namespace Composite

/-! ### conversion to int -/

theorem fits_range {k : IKind} {v : Int} (hk : k ≠ .untyped) (hf : k.fits v) :
    -9223372036854775808 ≤ v ∧ v ≤ 18446744073709551615 := by
  unfold IKind.fits at hf
  rcases hf with h | ⟨h1, h2⟩
  · exact absurd h hk
  · cases k <;> simp [IKind.lo, IKind.hi] at h1 h2 <;> omega

theorem wrapInt_small {v : Int} (h1 : -9223372036854775808 ≤ v) (h2 : v ≤ 9223372036854775807) :
    wrapInt v = v := by
  unfold wrapInt; omega

theorem wrapInt_big {v : Int} (h1 : 9223372036854775808 ≤ v) (h2 : v ≤ 18446744073709551615) :
    wrapInt v = v - 18446744073709551616 := by
  unfold wrapInt; omega

theorem indexToInt_typed (ck : Bool) (a : Arg) (h : a.kind ≠ .untyped) (hv : a.const = false) :
    indexToInt ck a = some (wrapInt a.val) := by
  unfold indexToInt
  cases hk : a.kind <;> simp_all

/-- a typed constant under the representability check: its own value, or a compile error -/
theorem indexToInt_const (a : Arg) (h : a.kind ≠ .untyped) (hc : a.const = true) :
    indexToInt true a = if minInt ≤ a.val ∧ a.val ≤ maxInt then some a.val else none := by
  unfold indexToInt
  cases hk : a.kind <;> simp_all

/-- the decisive fact: after conversion a value is inside `[0, n]` (n an `int`) iff it was before -/
theorem wrap_in_range {v : Int} {n : Int} (h1 : -9223372036854775808 ≤ v) (h2 : v ≤ 18446744073709551615)
    (hn : n ≤ 9223372036854775807) :
    (0 ≤ wrapInt v ∧ wrapInt v ≤ n) ↔ (0 ≤ v ∧ v ≤ n) := by
  by_cases hb : v ≤ 9223372036854775807
  · rw [wrapInt_small h1 hb]
  · rw [wrapInt_big (by omega) h2]; omega

/-! ### composite literals -/

/-- index of one element given the previous index (Go: "an element without a key uses the previous
    element's index plus one") -/
def idxOf (prev : Int) : Elt → Int
  | .keyed _ k => k
  | _ => prev + 1

/-- the indices of all elements, `prev` = index before the first one -/
def runIdx : Int → List Elt → List Int
  | _, [] => []
  | p, e :: es => idxOf p e :: runIdx (idxOf p e) es

/-- invariant of the loop of `compositeLitElements` -/
structure LitInv (arrLen : Option Nat) (st : LitState) : Prop where
  seenKeys : ∀ k, k ∈ st.seen ↔ k ∈ st.keys
  nodup : st.keys.Nodup
  bound : ∀ k ∈ st.keys, 0 ≤ k ∧ k < st.size
  empty : st.keys = [] → st.size = 0
  maxIn : st.keys ≠ [] → st.size - 1 ∈ st.keys
  arr : ∀ n, arrLen = some n → ∀ k ∈ st.keys, k < (n : Int)
  repr : ∀ k ∈ st.keys, k < maxInt
  lastNil : st.keys = [] → st.lastkey = -1
  lastIn : st.keys ≠ [] → st.lastkey ∈ st.keys

theorem litInv_init (arrLen : Option Nat) : LitInv arrLen {} := by
  constructor <;> simp

theorem eltKey_ok {p : Int} {e : Elt} {k : Int} (h : eltKey p e = .ok k) :
    k = idxOf p e ∧ e ≠ .nonconst ∧ (minInt ≤ k ∧ k ≤ maxInt ∨ e = .pos) := by
  cases e with
  | pos => simp [eltKey] at h; simp [idxOf, h]
  | nonconst => simp [eltKey] at h
  | keyed kk key =>
    simp only [eltKey] at h
    split at h
    · rename_i hr
      simp at h
      subst h
      simp [idxOf, hr]
    · simp at h

theorem oobArr_false {arrLen : Option Nat} {k : Int} (h : oobArr arrLen k = false) :
    ∀ n, arrLen = some n → k < (n : Int) := by
  intro n hn
  subst hn
  simp [oobArr] at h
  omega

theorem oobArr_false_of {arrLen : Option Nat} {k : Int} (h : ∀ n, arrLen = some n → k < (n : Int)) :
    oobArr arrLen k = false := by
  cases arrLen with
  | none => simp [oobArr]
  | some n => have := h n rfl; simp [oobArr]; omega

/-- exact characterisation of the checks -/
theorem litCheck_ok_iff (arrLen : Option Nat) (st : LitState) (k : Int) (st' : LitState) :
    litCheck arrLen st k = .ok st' ↔
      (0 ≤ k ∧ oobArr arrLen k = false ∧ k ∉ st.seen ∧ ¬ (st.size ≤ k ∧ k = maxInt)) ∧
      st' = { size := if st.size ≤ k then k + 1 else st.size, lastkey := k,
              seen := k :: st.seen, keys := st.keys ++ [k] } := by
  unfold litCheck
  by_cases h1 : k < 0
  · rw [if_pos h1]
    constructor
    · intro h; cases h
    · rintro ⟨⟨h0, _⟩, _⟩; omega
  · by_cases h2 : oobArr arrLen k = true
    · rw [if_neg h1, if_pos h2]
      constructor
      · intro h; cases h
      · rintro ⟨⟨_, h, _⟩, _⟩; rw [h2] at h; cases h
    · by_cases h3 : st.seen.contains k = true
      · have hm : k ∈ st.seen := by simpa using h3
        rw [if_neg h1, if_neg h2, if_pos h3]
        constructor
        · intro h; cases h
        · rintro ⟨⟨_, _, h, _⟩, _⟩; exact absurd hm h
      · have h3' : k ∉ st.seen := by simpa using h3
        by_cases h4 : st.size ≤ k ∧ k = maxInt
        · rw [if_neg h1, if_neg h2, if_neg h3, if_pos h4]
          constructor
          · intro h; cases h
          · rintro ⟨⟨_, _, _, h⟩, _⟩; exact absurd h4 h
        · have h1' : 0 ≤ k := by omega
          have h2' : oobArr arrLen k = false := by simpa using h2
          rw [if_neg h1, if_neg h2, if_neg h3, if_neg h4]
          constructor
          · intro h
            injection h with h
            exact ⟨⟨h1', h2', h3', h4⟩, h.symm⟩
          · intro h
            rw [h.2]

theorem litStep_inv {arrLen : Option Nat} {st st' : LitState} {e : Elt}
    (inv : LitInv arrLen st) (h : litStep arrLen st e = .ok st') :
    LitInv arrLen st' ∧ st'.keys = st.keys ++ [idxOf st.lastkey e] ∧ st'.lastkey = idxOf st.lastkey e := by
  unfold litStep at h
  cases hk : eltKey st.lastkey e with
  | error x => simp [hk] at h
  | ok k =>
    simp only [hk] at h
    obtain ⟨hidx, _, _⟩ := eltKey_ok hk
    obtain ⟨⟨h0, hoob, hseen, hmax⟩, hst⟩ := (litCheck_ok_iff arrLen st k st').1 h
    have hnk : k ∉ st.keys := fun hc => hseen ((inv.seenKeys k).2 hc)
    subst hst
    refine ⟨?_, by simp [hidx], by simp [hidx]⟩
    constructor
    · intro x
      show x ∈ k :: st.seen ↔ x ∈ st.keys ++ [k]
      rw [List.mem_cons, List.mem_append, List.mem_singleton, inv.seenKeys x]
      exact Or.comm
    · simp only
      rw [List.nodup_append]
      refine ⟨inv.nodup, by simp, ?_⟩
      intro a ha b hb
      simp at hb
      subst hb
      intro hab
      subst hab
      exact hnk ha
    · intro x hx
      simp only [List.mem_append, List.mem_singleton] at hx
      simp only
      rcases hx with hx | hx
      · have := inv.bound x hx
        split <;> omega
      · subst hx
        split <;> omega
    · intro he; simp at he
    · intro _
      simp only [List.mem_append, List.mem_singleton]
      by_cases hs : st.size ≤ k
      · simp [hs]
      · simp only [hs, if_false]
        left
        apply inv.maxIn
        intro hnil
        have := inv.empty hnil
        omega
    · intro n hn x hx
      simp only [List.mem_append, List.mem_singleton] at hx
      rcases hx with hx | hx
      · exact inv.arr n hn x hx
      · subst hx; exact oobArr_false hoob n hn
    · intro x hx
      simp only [List.mem_append, List.mem_singleton] at hx
      rcases hx with hx | hx
      · exact inv.repr x hx
      · subst hx
        have hM : maxInt = 9223372036854775807 := rfl
        have hm : minInt = -9223372036854775808 := rfl
        by_cases hs : st.size ≤ x
        · have hne : x ≠ maxInt := fun hc => hmax ⟨hs, hc⟩
          rcases eltKey_ok hk with ⟨hi, _, hr | hp⟩
          · omega
          · subst hp
            simp only [idxOf] at hi
            by_cases hkeys : st.keys = []
            · have := inv.lastNil hkeys; omega
            · have := inv.repr _ (inv.lastIn hkeys); omega
        · by_cases hkeys : st.keys = []
          · have := inv.empty hkeys; omega
          · have := inv.repr _ (inv.maxIn hkeys); omega
    · intro he; simp at he
    · intro _
      show k ∈ st.keys ++ [k]
      simp

theorem litLoop_inv {arrLen : Option Nat} : ∀ (es : List Elt) {st st' : LitState},
    LitInv arrLen st → litLoop arrLen st es = .ok st' →
    LitInv arrLen st' ∧ st'.keys = st.keys ++ runIdx st.lastkey es
  | [], st, st', inv, h => by
    simp [litLoop] at h; subst h; exact ⟨inv, by simp [runIdx]⟩
  | e :: es, st, st', inv, h => by
    simp only [litLoop] at h
    cases hs : litStep arrLen st e with
    | error x => simp [hs] at h
    | ok st1 =>
      simp only [hs] at h
      obtain ⟨inv1, hk1, hl1⟩ := litStep_inv inv hs
      obtain ⟨inv2, hk2⟩ := litLoop_inv es inv1 h
      refine ⟨inv2, ?_⟩
      rw [hk2, hk1, hl1]
      simp [runIdx]

/-- completeness of one step -/
theorem litStep_complete {arrLen : Option Nat} {st : LitState} {e : Elt}
    (inv : LitInv arrLen st) (hne : e ≠ .nonconst)
    (h0 : 0 ≤ idxOf st.lastkey e) (hmax : idxOf st.lastkey e < maxInt)
    (harr : ∀ n, arrLen = some n → idxOf st.lastkey e < (n : Int))
    (hnew : idxOf st.lastkey e ∉ st.keys) :
    ∃ st', litStep arrLen st e = .ok st' := by
  have hk : eltKey st.lastkey e = .ok (idxOf st.lastkey e) := by
    cases e with
    | pos => simp [eltKey, idxOf]
    | nonconst => exact absurd rfl hne
    | keyed kk key =>
      simp only [idxOf] at h0 hmax
      simp only [eltKey, idxOf]
      have : minInt ≤ key ∧ key ≤ maxInt := by simp [minInt, maxInt] at *; omega
      simp [this]
  have hM : maxInt = 9223372036854775807 := rfl
  refine ⟨{ size := if st.size ≤ idxOf st.lastkey e then idxOf st.lastkey e + 1 else st.size,
            lastkey := idxOf st.lastkey e, seen := idxOf st.lastkey e :: st.seen,
            keys := st.keys ++ [idxOf st.lastkey e] }, ?_⟩
  unfold litStep
  rw [hk]
  apply (litCheck_ok_iff arrLen st _ _).2
  refine ⟨⟨h0, oobArr_false_of harr, ?_, ?_⟩, rfl⟩
  · intro hc; exact hnew ((inv.seenKeys _).1 hc)
  · intro hc; omega

end Composite

/-! ### heap -/

namespace GoSpec.Heap

theorem writeBlock_length (a : Arr) (pos : Nat) (vs : List Int) : (writeBlock a pos vs).length = a.length := by
  simp [writeBlock]

theorem writeBlock_getD (a : Arr) (pos : Nat) (vs : List Int) (k : Nat) :
    (writeBlock a pos vs).getD k 0 =
      if k < a.length then (if pos ≤ k ∧ k - pos < vs.length then vs.getD (k - pos) 0 else a.getD k 0) else 0 := by
  unfold writeBlock
  by_cases hk : k < a.length
  · simp [List.getD_eq_getElem?_getD, hk]
  · simp [List.getD_eq_getElem?_getD, hk]

theorem readBlock_length (a : Arr) (pos n : Nat) : (readBlock a pos n).length = n := by
  simp [readBlock]

theorem readBlock_getD (a : Arr) (pos n k : Nat) (hk : k < n) :
    (readBlock a pos n).getD k 0 = a.getD (pos + k) 0 := by
  unfold readBlock
  simp [List.getD_eq_getElem?_getD, hk]

theorem getArr_setArr (h : Heap) (a b : Nat) (x : Arr) :
    getArr (setArr h a x) b = if a = b ∧ a < h.length then x else getArr h b := by
  unfold getArr setArr
  simp only [List.getD_eq_getElem?_getD, List.getElem?_set]
  by_cases hab : a = b
  · subst hab
    by_cases hl : a < h.length
    · simp [hl]
    · simp [hl]
  · simp [hab]

theorem setArr_length (h : Heap) (a : Nat) (x : Arr) : (setArr h a x).length = h.length := by
  simp [setArr]

theorem getArr_append_left (h : Heap) (x : Arr) (a : Nat) (ha : a < h.length) :
    getArr (h ++ [x]) a = getArr h a := by
  unfold getArr
  simp [List.getD_eq_getElem?_getD, List.getElem?_append_left ha]

theorem getArr_append_new (h : Heap) (x : Arr) : getArr (h ++ [x]) h.length = x := by
  unfold getArr
  simp [List.getD_eq_getElem?_getD]

end GoSpec.Heap
