import Model.Generic
namespace Generic

/-- the scope built by `injectBinds`: every bind is a typed constant -/
def ParamScope (P : Scope) : Prop :=
  ∀ n b, P.binds.lookup n = some b → ∃ v t, b = Bind.cst v (some t)

theorem lookupBind_cons_none {P : Scope} {U : Env} {s : String} (h : P.binds.lookup s = none) :
    lookupBind (P :: U) s = lookupBind U s := by
  simp [lookupBind, h]

theorem lookupBind_cons_some {P : Scope} {U : Env} {s : String} {b : Bind} (h : P.binds.lookup s = some b) :
    lookupBind (P :: U) s = some (b, P :: U) := by
  simp [lookupBind, h]

theorem lookupType_cons_none {P : Scope} {U : Env} {s : String} (h : P.types.lookup s = none) :
    lookupType (P :: U) s = lookupType U s := by
  simp [lookupType, h]

theorem lookupType_cons_some {P : Scope} {U : Env} {s : String} {t : Ty} (h : P.types.lookup s = some t) :
    lookupType (P :: U) s = some t := by
  simp [lookupType, h]

theorem evalC_subst {P : Scope} (hP : ParamScope P) (U : Env) (c : CExpr) :
    evalC (P :: U) c = evalC U (substC P c) := by
  induction c with
  | num v => simp [evalC, substC]
  | clit v t => simp [evalC, substC]
  | cname s =>
    cases hb : P.binds.lookup s with
    | none => simp [evalC, substC, hb, lookupBind_cons_none hb]
    | some b =>
      obtain ⟨v, t, rfl⟩ := hP s b hb
      simp [evalC, substC, hb, lookupBind_cons_some hb]
  | add a b iha ihb => simp [evalC, substC, iha, ihb]

theorem evalLen_subst {P : Scope} (hP : ParamScope P) (U : Env) (c : CExpr) :
    evalLen (P :: U) c = evalLen U (substC P c) := by
  simp [evalLen, evalC_subst hP]

theorem arity_subst (P : Scope) (x : TExpr) : arity (subst P x) = arity x := by
  induction x with
  | acons a rest _ ih => simp [subst, arity, ih]
  | name s => simp only [subst]; split <;> simp [arity]
  | gen fn g args _ => simp only [subst]; split <;> simp [arity]
  | _ => simp [subst, arity]

/-! ### classification of an argument under the parameter scope -/

theorem classify_cons_bind {G : List GenDecl} {P : Scope} {U : Env} {s : String} {b : Bind}
    (h : P.binds.lookup s = some b) :
    classify G (P :: U) s = if isGenType G b then .type else .expr := by
  simp [classify, h]

theorem classify_cons_type {G : List GenDecl} {P : Scope} {U : Env} {s : String} {t : Ty}
    (hb : P.binds.lookup s = none) (ht : P.types.lookup s = some t) :
    classify G (P :: U) s = .type := by
  simp [classify, hb, ht]

theorem classify_cons_none {G : List GenDecl} {P : Scope} {U : Env} {s : String}
    (hb : P.binds.lookup s = none) (ht : P.types.lookup s = none) :
    classify G (P :: U) s = classify G U s := by
  simp [classify, hb, ht]

/-- "expression" means: the nearest declaration of the name is a bind that is no generic type -/
theorem classify_expr {G : List GenDecl} {U : Env} {s : String} (h : classify G U s = .expr) :
    ∃ b U', lookupBind U s = some (b, U') ∧ isGenType G b = false := by
  induction U with
  | nil => simp [classify] at h
  | cons sc rest ih =>
    simp only [classify] at h
    cases hb : sc.binds.lookup s with
    | some b =>
      simp only [hb] at h
      refine ⟨b, sc :: rest, lookupBind_cons_some hb, ?_⟩
      cases hg : isGenType G b with
      | false => rfl
      | true => simp [hg] at h
    | none =>
      simp only [hb] at h
      cases ht : sc.types.lookup s with
      | some t => simp [ht] at h
      | none =>
        simp only [ht] at h
        obtain ⟨b, U', h1, h2⟩ := ih h
        exact ⟨b, U', by rw [lookupBind_cons_none hb]; exact h1, h2⟩

/-- a generic reference in type position whose name is classified "expression" does not compile -/
theorem resolveX_gen_expr (G : List GenDecl) (rec : Option (St → Env → TExpr → St × Option Ty))
    (st : St) (U : Env) (s : String) (args : TExpr) (h : classify G U s = .expr) :
    resolveX G rec st U (.gen false s args) = (st, none) := by
  obtain ⟨b, U', h1, h2⟩ := classify_expr h
  simp only [resolveX, h1]
  cases b with
  | cst v t => rfl
  | other => rfl
  | gen gid =>
    simp only
    cases hd : G[gid]? with
    | none => rfl
    | some d =>
      simp only
      have : d.kind = .func := by
        simp only [isGenType, hd] at h2
        cases hk : d.kind with
        | named => simp [hk] at h2
        | func => rfl
      simp [this, classOK]

theorem argExpr_of_head_none {G : List GenDecl} {E : Env} {a : TExpr} (h : argHead a = none) :
    argExpr G E a = none := by
  simp [argExpr, h]

/-- head in the parameter types (not a constant parameter): after substitution the argument is
    compiled as a type, or it is an expression that does not compile either way -/
theorem subst_head_type (G : List GenDecl) (rec : Option (St → Env → TExpr → St × Option Ty))
    (P : Scope) (U : Env) (s : String) (t0 : Ty)
    (hb : P.binds.lookup s = none) (ht : P.types.lookup s = some t0) (a : TExpr)
    (ha : argHead a = some s) :
    argExpr G U (subst P a) = none ∨
    (argExpr G U (subst P a) = some none ∧ ∀ st, resolveX G rec st U (subst P a) = (st, none)) := by
  induction a with
  | name n =>
    simp only [argHead, Option.some.injEq] at ha
    subst ha
    left
    simp [subst, ht, argExpr, argHead]
  | ptr e ih =>
    simp only [argHead] at ha
    rcases ih ha with h | ⟨h1, h2⟩
    · left
      simp only [subst, argExpr, argHead]
      simp only [argExpr] at h
      cases hh : argHead (subst P e) with
      | none => rfl
      | some s' =>
        simp only [hh] at h ⊢
        cases hc : classify G U s' with
        | type => rfl
        | expr =>
          simp only [hc] at h
          split at h <;> (try split at h) <;> simp at h
    · right
      constructor
      · simp only [subst, argExpr, argHead]
        simp only [argExpr] at h1
        cases hh : argHead (subst P e) with
        | none => simp [hh] at h1
        | some s' =>
          simp only [hh] at h1 ⊢
          cases hc : classify G U s' with
          | type => simp [hc] at h1
          | expr => simp [isName]
      · intro st
        simp [subst, resolveX, h2 st]
  | gen fn g args _ =>
    cases fn with
    | true => simp [argHead] at ha
    | false =>
      simp only [argHead, Option.some.injEq] at ha
      subst ha
      simp only [subst, hb]
      cases hc : classify G U g with
      | type => left; simp [argExpr, argHead, hc]
      | expr =>
        right
        constructor
        · simp [argExpr, argHead, hc, isName]
        · intro st; exact resolveX_gen_expr G rec st U g _ hc
  | _ => simp [argHead] at ha

/-- head not bound by the parameter scope at all: substitution keeps head and shape -/
theorem subst_head_free (P : Scope) (s : String)
    (hb : P.binds.lookup s = none) (ht : P.types.lookup s = none) (a : TExpr)
    (ha : argHead a = some s) :
    argHead (subst P a) = some s ∧ isName (subst P a) = isName a := by
  induction a with
  | name n =>
    simp only [argHead, Option.some.injEq] at ha
    subst ha
    simp [subst, ht, argHead, isName]
  | ptr e ih =>
    simp only [argHead] at ha
    simp [subst, argHead, isName, (ih ha).1]
  | gen fn g args _ =>
    cases fn with
    | true => simp [argHead] at ha
    | false =>
      simp only [argHead, Option.some.injEq] at ha
      subst ha
      simp [subst, hb, argHead, isName]
  | _ => simp [argHead] at ha

theorem subst_head_none (P : Scope) (a : TExpr) (ha : argHead a = none) :
    argHead (subst P a) = none := by
  induction a with
  | name n => simp [argHead] at ha
  | ptr e ih =>
    simp only [argHead] at ha
    simp [subst, argHead, ih ha]
  | gen fn g args _ =>
    cases fn with
    | false => simp [argHead] at ha
    | true =>
      simp only [subst]
      split <;> simp [argHead]
  | _ => simp [subst, argHead]

/-- one generic argument: compiling it under the parameter scope = compiling its substitution -/
theorem arg_subst (G : List GenDecl) (rec : Option (St → Env → TExpr → St × Option Ty))
    (P : Scope) (hP : ParamScope P) (U : Env) (a : TExpr) (st : St)
    (ih : ∀ st, resolveX G rec st (P :: U) a = resolveX G rec st U (subst P a)) :
    argPick (argExpr G (P :: U) a) st (resolveX G rec st (P :: U) a) =
    argPick (argExpr G U (substArg P a (subst P a))) st
      (resolveX G rec st U (substArg P a (subst P a))) := by
  unfold argPick
  cases hh : argHead a with
  | none =>
    have h2 := subst_head_none P a hh
    simp [substArg, hh, argExpr_of_head_none hh, argExpr_of_head_none h2, ih]
  | some s =>
    cases hb : P.binds.lookup s with
    | some b =>
      obtain ⟨v, t, rfl⟩ := hP s b hb
      have hcl : classify G (P :: U) s = .expr := by
        rw [classify_cons_bind hb]; simp [isGenType]
      cases hn : isName a with
      | true =>
        simp [substArg, hh, hb, hn, argExpr, hcl, lookupBind_cons_some hb, argHead, resolveX, evalC, toCval]
      | false =>
        simp [substArg, hh, hb, hn, argExpr, hcl, argHead, resolveX]
    | none =>
      cases ht : P.types.lookup s with
      | some t0 =>
        have hcl : classify G (P :: U) s = .type := classify_cons_type hb ht
        have hl : argExpr G (P :: U) a = none := by simp [argExpr, hh, hcl]
        have hs : substArg P a (subst P a) = subst P a := by simp [substArg, hh, hb]
        rw [hl, hs]
        rcases subst_head_type G rec P U s t0 hb ht a hh with h | ⟨h1, h2⟩
        · rw [h]; simp [ih]
        · rw [h1]; simp [ih, h2]
      | none =>
        have hcl : classify G (P :: U) s = classify G U s := classify_cons_none hb ht
        have hs : substArg P a (subst P a) = subst P a := by simp [substArg, hh, hb]
        obtain ⟨h1, h2⟩ := subst_head_free P s hb ht a hh
        have : argExpr G U (subst P a) = argExpr G (P :: U) a := by
          simp [argExpr, hh, h1, h2, hcl, lookupBind_cons_none hb]
        rw [hs, this]
        cases argExpr G (P :: U) a with
        | some r => rfl
        | none => simp [ih]

/-- **alias = substitution** for one level of the resolver: compiling a template body in a scope
    that binds the parameters (as `injectBinds` does) on top of the declaring scope chain `U`
    has the same result AND the same effect on the instance caches as compiling, in `U` itself,
    the body with the parameters textually replaced by the (already resolved) arguments -/
theorem resolveX_subst (G : List GenDecl) (rec : Option (St → Env → TExpr → St × Option Ty))
    (P : Scope) (hP : ParamScope P) (U : Env) (x : TExpr) :
    ∀ st, resolveX G rec st (P :: U) x = resolveX G rec st U (subst P x) := by
  induction x with
  | name s =>
    intro st
    cases ht : P.types.lookup s with
    | none => simp [resolveX, subst, ht, lookupType_cons_none ht]
    | some t => simp [resolveX, subst, ht, lookupType_cons_some ht]
  | lit t => intro st; simp [resolveX, subst]
  | bad => intro st; simp [resolveX, subst]
  | fnil => intro st; simp [resolveX, subst]
  | anil => intro st; simp [resolveX, subst]
  | cst c => intro st; simp [resolveX, subst, evalC_subst hP]
  | slice e ih => intro st; simp [resolveX, subst, ih]
  | ptr e ih => intro st; simp [resolveX, subst, ih]
  | strct e ih => intro st; simp [resolveX, subst, ih]
  | array n e ih => intro st; simp [resolveX, subst, ih, evalLen_subst hP]
  | map k v ihk ihv => intro st; simp [resolveX, subst, ihk, ihv]
  | func1 k v ihk ihv => intro st; simp [resolveX, subst, ihk, ihv]
  | fcons n k v ihk ihv => intro st; simp [resolveX, subst, ihk, ihv]
  | acons a rest iha ihr =>
    intro st
    simp only [resolveX, subst]
    rw [arg_subst G rec P hP U a st iha]
    simp [ihr]
  | gen fn g args ih =>
    intro st
    cases hb : P.binds.lookup g with
    | some b =>
      obtain ⟨v, t, rfl⟩ := hP g b hb
      simp [resolveX, subst, hb, lookupBind_cons_some hb]
    | none =>
      simp only [resolveX, subst, hb, lookupBind_cons_none hb, arity_subst, ih]

/-! ### the scope built by `injectBinds` -/

theorem paramScope_empty : ParamScope ⟨[], []⟩ := by
  intro n b h; simp at h

theorem paramScope_bindParams (ps : List String) (key : Ty) (sc : Scope) (h : ParamScope sc) :
    ParamScope (bindParams ps key sc) := by
  induction ps generalizing key sc with
  | nil => simpa [bindParams] using h
  | cons p ps ih =>
    cases key with
    | acons a rest =>
      cases a with
      | cval v t =>
        simp only [bindParams]
        apply ih
        intro n b hb
        simp only [List.lookup] at hb
        split at hb
        · cases hb; exact ⟨v, t, rfl⟩
        · exact h n b hb
      | _ =>
        simp only [bindParams]
        apply ih
        intro n b hb
        exact h n b hb
    | _ => simpa [bindParams] using h

theorem substC_empty (c : CExpr) : substC ⟨[], []⟩ c = c := by
  induction c with
  | add a b iha ihb => simp [substC, iha, ihb]
  | _ => simp [substC]

theorem subst_empty (x : TExpr) : subst ⟨[], []⟩ x = x := by
  induction x with
  | acons a rest iha ihr =>
    simp only [subst, iha, ihr, substArg]
    cases argHead a <;> simp
  | name s => simp [subst]
  | gen fn g args ih => simp [subst, ih]
  | array n e ih => simp [subst, ih, substC_empty]
  | cst c => simp [subst, substC_empty]
  | slice e ih => simp [subst, ih]
  | ptr e ih => simp [subst, ih]
  | strct e ih => simp [subst, ih]
  | map k v ihk ihv => simp [subst, ihk, ihv]
  | func1 k v ihk ihv => simp [subst, ihk, ihv]
  | fcons n k v ihk ihv => simp [subst, ihk, ihv]
  | _ => simp [subst]

/-- full resolver, any fuel -/
theorem resolve_subst (G : List GenDecl) (fuel : Nat) (P : Scope) (hP : ParamScope P) (U : Env)
    (x : TExpr) (st : St) :
    resolve G fuel st (P :: U) x = resolve G fuel st U (subst P x) := by
  cases fuel with
  | zero => exact resolveX_subst G none P hP U x st
  | succ n => exact resolveX_subst G (some (resolve G n)) P hP U x st

/-- an empty scope on top of the chain changes nothing -/
theorem resolve_empty_scope (G : List GenDecl) (fuel : Nat) (U : Env) (x : TExpr) (st : St) :
    resolve G fuel st (⟨[], []⟩ :: U) x = resolve G fuel st U x := by
  rw [resolve_subst G fuel ⟨[], []⟩ paramScope_empty U x st, subst_empty]

end Generic
