import Proofs.Flow

/-! Simulation proof for C05: every terminating run of the reference semantics `Ref.exec` on a Core
    statement is reproduced by the flat machine on `compile s` (same trace, same frames, the jump
    leaves exactly the Envs the structured semantics leaves). -/

namespace Flow
open Ref

/-! ### flat machine: multi-step execution -/

def steps (C : Code) : Nat → Cfg → Option Cfg
  | 0, c => some c
  | n + 1, c =>
    match step C c with
    | .next c' => steps C n c'
    | _ => none

theorem steps_add (C : Code) : ∀ (a b : Nat) (c : Cfg), steps C (a + b) c = (steps C a c).bind (steps C b) := by
  intro a
  induction a with
  | zero => intro b c; simp [steps]
  | succ a ih =>
    intro b c
    rw [Nat.succ_add]
    simp only [steps]
    split
    · exact ih b _
    · rfl

def Reaches (C : Code) (c c' : Cfg) : Prop := ∃ k, steps C k c = some c'

theorem Reaches.refl (C : Code) (c : Cfg) : Reaches C c c := ⟨0, rfl⟩

theorem Reaches.trans {C : Code} {a b c : Cfg} (h1 : Reaches C a b) (h2 : Reaches C b c) : Reaches C a c := by
  obtain ⟨k1, h1⟩ := h1
  obtain ⟨k2, h2⟩ := h2
  exact ⟨k1 + k2, by rw [steps_add, h1]; exact h2⟩

theorem Reaches.cast_ip {C : Code} {a b a' b' : Nat} {s t : St} (h : Reaches C ⟨a, s⟩ ⟨b, t⟩)
    (ea : a = a') (eb : b = b') : Reaches C ⟨a', s⟩ ⟨b', t⟩ := by subst ea; subst eb; exact h

theorem Reaches.single {C : Code} {a b : Cfg} (h : step C a = .next b) : Reaches C a b :=
  ⟨1, by simp [steps, h]⟩

/-- at least one step -/
def ReachesPos (C : Code) (c c' : Cfg) : Prop := ∃ k, 1 ≤ k ∧ steps C k c = some c'

theorem ReachesPos.reaches {C : Code} {a b : Cfg} (h : ReachesPos C a b) : Reaches C a b := by
  obtain ⟨k, _, h⟩ := h; exact ⟨k, h⟩

theorem Reaches.trans_pos {C : Code} {a b c : Cfg} (h1 : Reaches C a b) (h2 : ReachesPos C b c) : ReachesPos C a c := by
  obtain ⟨k1, h1⟩ := h1
  obtain ⟨k2, hk, h2⟩ := h2
  exact ⟨k1 + k2, by omega, by rw [steps_add, h1]; exact h2⟩

theorem ReachesPos.single {C : Code} {a b : Cfg} (h : step C a = .next b) : ReachesPos C a b :=
  ⟨1, Nat.le_refl 1, by simp [steps, h]⟩

/-- the run function follows `steps` -/
theorem runCfg_steps {C : Code} : ∀ (k : Nat) {c c' : Cfg}, steps C k c = some c' →
    ∀ n, Flat.runCfg C (k + n) c = Flat.runCfg C n c' := by
  intro k
  induction k with
  | zero => intro c c' h n; simp [steps] at h; subst h; simp
  | succ k ih =>
    intro c c' h n
    simp only [steps] at h
    split at h
    · rename_i c1 hs
      rw [Nat.succ_add]
      simp only [Flat.runCfg, hs]
      exact ih h n
    · cases h

/-! ### code placement -/

def CodeAt (C : Code) (base : Nat) (code : Code) : Prop :=
  ∀ i, i < code.length → C[base + i]? = code[i]?

theorem CodeAt.left {C : Code} {base : Nat} {a b : Code} (h : CodeAt C base (a ++ b)) : CodeAt C base a := by
  intro i hi
  have := h i (by simp; omega)
  rw [List.getElem?_append_left hi] at this
  exact this

theorem CodeAt.right {C : Code} {base : Nat} {a b : Code} (h : CodeAt C base (a ++ b)) :
    CodeAt C (base + a.length) b := by
  intro i hi
  have := h (a.length + i) (by simp; omega)
  rw [List.getElem?_append_right (by omega)] at this
  simp at this
  rw [← this]
  congr 1
  omega

theorem CodeAt.head {C : Code} {base : Nat} {i : Instr} {r : Code} (h : CodeAt C base (i :: r)) :
    C[base]? = some i := by
  have := h 0 (by simp)
  simpa using this

theorem CodeAt.tail {C : Code} {base : Nat} {i : Instr} {r : Code} (h : CodeAt C base (i :: r)) :
    CodeAt C (base + 1) r := by
  have := CodeAt.right (a := [i]) (b := r) (by simpa using h)
  simpa using this

theorem CodeAt.self (code : Code) : CodeAt code 0 code := by
  intro i _; simp

/-! ### single instructions -/

section instr
variable {C : Code} {ip : Nat} {st : St}

theorem reach_emit {t : Nat} {e : Expr} (h : C[ip]? = some (.emit t e)) :
    Reaches C ⟨ip, st⟩ ⟨ip + 1, st.emit t e⟩ := Reaches.single (by simp [step, h])
theorem reach_assign {x : Var} {e : Expr} (h : C[ip]? = some (.assign x e)) :
    Reaches C ⟨ip, st⟩ ⟨ip + 1, st.assign x e⟩ := Reaches.single (by simp [step, h])
theorem reach_define {x : Var} {e : Expr} (h : C[ip]? = some (.define x e)) :
    Reaches C ⟨ip, st⟩ ⟨ip + 1, st.define x e⟩ := Reaches.single (by simp [step, h])
theorem reach_push (h : C[ip]? = some .push) :
    Reaches C ⟨ip, st⟩ ⟨ip + 1, st.push⟩ := Reaches.single (by simp [step, h])
theorem reach_pop (h : C[ip]? = some .pop) :
    Reaches C ⟨ip, st⟩ ⟨ip + 1, st.dropn 1⟩ := Reaches.single (by simp [step, h])
theorem reach_jmp {u t : Nat} (h : C[ip]? = some (.jmp u t)) :
    Reaches C ⟨ip, st⟩ ⟨t, st.dropn u⟩ := Reaches.single (by simp [step, h])
theorem reachpos_jmp {u t : Nat} (h : C[ip]? = some (.jmp u t)) :
    ReachesPos C ⟨ip, st⟩ ⟨t, st.dropn u⟩ := ReachesPos.single (by simp [step, h])
theorem reach_cjmp {c : Cond} {a b : Nat} (h : C[ip]? = some (.cjmp c a b)) :
    Reaches C ⟨ip, st⟩ ⟨if c.eval st.stack then a else b, st⟩ := Reaches.single (by simp [step, h])
end instr

/-! ### states -/

@[simp] theorem St.dropn_zero (st : St) : st.dropn 0 = st := by cases st; simp [St.dropn]
theorem St.dropn_dropn (st : St) (a b : Nat) : (st.dropn a).dropn b = st.dropn (b + a) := by
  cases st; simp [St.dropn, List.drop_drop]; omega
theorem St.popIf_eq (st : St) (b : Bool) : st.popIf b = st.dropn (b2n b) := by
  cases b <;> simp [St.popIf]
@[simp] theorem St.push_dropn_one (st : St) : st.push.dropn 1 = st := by cases st; simp [St.push, St.dropn]
@[simp] theorem St.pushIf_false (st : St) : st.pushIf false = st := rfl
@[simp] theorem St.pushIf_true (st : St) : st.pushIf true = st.push := rfl
@[simp] theorem St.dropn_trace (st : St) (n : Nat) : (st.dropn n).trace = st.trace := rfl
@[simp] theorem St.dropn_stack (st : St) (n : Nat) : (st.dropn n).stack = st.stack.drop n := rfl

/-! ### jump resolution: the `upn` accumulated along the Comp chain -/

theorem resolveBreak_acc : ∀ (ctx : Ctx) (l : Option Label) (u : Nat),
    resolveBreak ctx l u = (resolveBreak ctx l 0).map (fun p => (p.1 + u, p.2)) := by
  intro ctx
  induction ctx with
  | nil => intro l u; simp [resolveBreak]
  | cons f rest ih =>
    intro l u
    simp only [resolveBreak]
    split
    · simp
    · split
      · split
        · simp
        · rw [ih l (u + f.upCost), ih l (0 + f.upCost)]
          cases resolveBreak rest l 0 <;> simp; omega
      · rw [ih l (u + f.upCost), ih l (0 + f.upCost)]
        cases resolveBreak rest l 0 <;> simp; omega

theorem resolveCont_acc : ∀ (ctx : Ctx) (l : Option Label) (u : Nat),
    resolveCont ctx l u = (resolveCont ctx l 0).map (fun p => (p.1 + u, p.2)) := by
  intro ctx
  induction ctx with
  | nil => intro l u; simp [resolveCont]
  | cons f rest ih =>
    intro l u
    have key : resolveCont rest l (u + f.upCost) =
        (resolveCont rest l (0 + f.upCost)).map (fun p => (p.1 + u, p.2)) := by
      rw [ih l (u + f.upCost), ih l (0 + f.upCost)]
      cases resolveCont rest l 0 <;> simp; omega
    simp only [resolveCont]
    split
    · simp
    · split
      · split
        · split
          · simp
          · exact key
        · exact key
      · exact key

@[simp] theorem resolveBreak_addLabels (ctx : Ctx) (ls : List (Label × Nat)) (l : Option Label) (u : Nat) :
    resolveBreak (addLabels ctx ls) l u = resolveBreak ctx l u := by
  cases ctx <;> simp [addLabels, resolveBreak]

@[simp] theorem resolveCont_addLabels (ctx : Ctx) (ls : List (Label × Nat)) (l : Option Label) (u : Nat) :
    resolveCont (addLabels ctx ls) l u = resolveCont ctx l u := by
  cases ctx <;> simp [addLabels, resolveCont]

/-! ### what the machine must do for each outcome of the structured semantics -/

/-- the jump emitted for `break`/`continue`: lands on the target having left `k` Envs;
    an unresolvable jump is a compile error (`invalid`) -/
def JumpTo (C : Code) (c : Cfg) (r : Option (Nat × Nat)) (st' : St) : Prop :=
  match r with
  | some (k, t) => ReachesPos C c ⟨t, st'.dropn k⟩   -- at least the jump instruction itself
  | none => ∃ c', Reaches C c c' ∧ C[c'.ip]? = some .invalid

/-- `return`: the machine reaches a `stmtReturn` with the same trace; the frames the structured
    semantics has already left are still on the Env chain, above the ones it kept -/
def RetAt (C : Code) (c : Cfg) (st' : St) : Prop :=
  ∃ c', Reaches C c c' ∧ C[c'.ip]? = some .ret ∧ c'.st.trace = st'.trace ∧ ∃ pre, c'.st.stack = pre ++ st'.stack

def Post (C : Code) (ctx : Ctx) (u : Nat) (c : Cfg) (e : Nat) (o : Outcome) (st' : St) : Prop :=
  match o with
  | .normal => Reaches C c ⟨e, st'⟩
  | .brk l => JumpTo C c (resolveBreak ctx l u) st'
  | .cont l => JumpTo C c (resolveCont ctx l u) st'
  | .ret => RetAt C c st'
  | .goto _ => True

theorem JumpTo.prepend {C : Code} {c c1 : Cfg} {r : Option (Nat × Nat)} {st' : St}
    (h : Reaches C c c1) (hj : JumpTo C c1 r st') : JumpTo C c r st' := by
  unfold JumpTo at *
  split
  · rename_i k t
    simp only at hj
    exact h.trans_pos hj
  · simp only at hj
    obtain ⟨c', h1, h2⟩ := hj
    exact ⟨c', h.trans h1, h2⟩

theorem RetAt.prepend {C : Code} {c c1 : Cfg} {st' : St}
    (h : Reaches C c c1) (hj : RetAt C c1 st') : RetAt C c st' := by
  obtain ⟨c', h1, h2⟩ := hj
  exact ⟨c', h.trans h1, h2⟩

theorem Post.prepend {C : Code} {ctx : Ctx} {u : Nat} {c c1 : Cfg} {e : Nat} {o : Outcome} {st' : St}
    (h : Reaches C c c1) (hp : Post C ctx u c1 e o st') : Post C ctx u c e o st' := by
  cases o with
  | normal => exact h.trans hp
  | brk l => exact JumpTo.prepend h hp
  | cont l => exact JumpTo.prepend h hp
  | ret => exact RetAt.prepend h hp
  | goto l => trivial

/-- leaving `u` more Envs: the accumulated `upn` of the enclosing Comps equals the run-time hops
    (`jumpOut_depth`) -/
theorem JumpTo.shift {C : Code} {c : Cfg} {ctxr : Option (Nat × Nat)} {u : Nat} {st1 : St}
    (h : JumpTo C c (ctxr.map (fun p => (p.1 + u, p.2))) st1) : JumpTo C c ctxr (st1.dropn u) := by
  cases ctxr with
  | none => exact h
  | some p =>
    obtain ⟨k, t⟩ := p
    simp only [JumpTo, Option.map] at h ⊢
    rw [St.dropn_dropn]
    exact h

theorem RetAt.shift {C : Code} {c : Cfg} {u : Nat} {st1 : St} (h : RetAt C c st1) : RetAt C c (st1.dropn u) := by
  obtain ⟨c', h1, h2, h3, pre, h4⟩ := h
  refine ⟨c', h1, h2, by simpa using h3, pre ++ st1.stack.take u, ?_⟩
  rw [h4]
  simp [List.append_assoc, List.take_append_drop]

/-- an abrupt outcome leaves a construct that owns `u` Envs: same target, `u` more hops -/
theorem Post.shift {C : Code} {ctx : Ctx} {u : Nat} {c : Cfg} {e e' : Nat} {o : Outcome} {st1 : St}
    (ho : o ≠ .normal) (h : Post C ctx u c e o st1) : Post C ctx 0 c e' o (st1.dropn u) := by
  cases o with
  | normal => exact absurd rfl ho
  | brk l =>
    simp only [Post] at h ⊢
    rw [resolveBreak_acc] at h
    exact JumpTo.shift h
  | cont l =>
    simp only [Post] at h ⊢
    rw [resolveCont_acc] at h
    exact JumpTo.shift h
  | ret => exact RetAt.shift h
  | goto l => trivial

/-- entering the Comp chain of a plain (loop-free, non-function) Comp adds its `UpCost` -/
theorem Post.intoFrame {C : Code} {ctx : Ctx} {fr : CFrame} {c : Cfg} {e : Nat} {o : Outcome} {st1 : St}
    (hf : fr.isFunc = false) (hl : fr.loop = none)
    (h : Post C (fr :: ctx) 0 c e o st1) : Post C ctx fr.upCost c e o st1 := by
  cases o with
  | normal => exact h
  | brk l => simpa [Post, resolveBreak, hf, hl] using h
  | cont l => simpa [Post, resolveCont, hf, hl] using h
  | ret => exact h
  | goto l => trivial

/-- generic wrapper: `[pushEnv] ... inner ... [popEnv]` -/
theorem Post.wrapUp {C : Code} {ctx : Ctx} {loc : Bool} {base endIn endOut : Nat} {st st3 : St} {cIn : Cfg}
    {o : Outcome}
    (hpre : Reaches C ⟨base, st⟩ cIn)
    (hin : Post C ctx (b2n loc) cIn endIn o st3)
    (hpost : Reaches C ⟨endIn, st3⟩ ⟨endOut, st3.popIf loc⟩) :
    Post C ctx 0 ⟨base, st⟩ endOut o (st3.popIf loc) := by
  by_cases ho : o = .normal
  · subst ho
    exact hpre.trans (Reaches.trans hin hpost)
  · rw [St.popIf_eq]
    exact Post.prepend hpre (Post.shift ho hin)

theorem Post.wrap {C : Code} {ctx : Ctx} {loc : Bool} {base endIn endOut : Nat} {st st3 : St} {cIn : Cfg}
    {o : Outcome}
    (hpre : Reaches C ⟨base, st⟩ cIn)
    (hin : Post C ({ upCost := b2n loc } :: ctx) 0 cIn endIn o st3)
    (hpost : Reaches C ⟨endIn, st3⟩ ⟨endOut, st3.popIf loc⟩) :
    Post C ctx 0 ⟨base, st⟩ endOut o (st3.popIf loc) :=
  Post.wrapUp hpre (Post.intoFrame (fr := { upCost := b2n loc }) rfl rfl hin) hpost

theorem Post.addLabels {C : Code} {ctx : Ctx} {ls : List (Label × Nat)} {u : Nat} {c : Cfg} {e : Nat}
    {o : Outcome} {st1 : St} (h : Post C (addLabels ctx ls) u c e o st1) : Post C ctx u c e o st1 := by
  cases o <;> simp_all [Post]


/-! ### the fragment covered by the proof -/

/-- simple statements (init / post position) -/
def SimpleS : Stmt → Bool
  | .skip | .emit _ _ | .assign _ _ | .define _ _ => true
  | _ => false

/-- Core fragment: emit, assign, declarations, blocks with/without locals, if/else with init,
    the three `for` forms (labelled or not), labelled and unlabelled break/continue, return -/
def Core : Stmt → Bool
  | .skip | .emit _ _ | .assign _ _ | .define _ _ | .brk _ | .cont _ | .ret => true
  | .seq a b => Core a && Core b
  | .block b => Core b
  | .ite init _ thn els => SimpleS init && Core thn && Core els
  | .for _ init _ post body => SimpleS init && SimpleS post && Core body
  | _ => false

theorem SimpleS.core {s : Stmt} (h : SimpleS s = true) : Core s = true := by
  cases s <;> simp_all [SimpleS, Core]

theorem SimpleS.exec_normal {s : Stmt} (h : SimpleS s = true) {n : Nat} {st st' : St} {o : Outcome}
    (he : exec n s st = .ok o st') : o = .normal := by
  cases n with
  | zero => simp [exec] at he
  | succ n => cases s <;> simp_all [SimpleS, exec]

theorem Core.findLabel_none {l : Label} : ∀ {s : Stmt}, Core s = true → findLabel l s = none := by
  intro s
  induction s with
  | seq a b iha ihb =>
    intro h
    simp only [Core, Bool.and_eq_true] at h
    have ha : hasLabel l a = false := by cases a <;> simp_all [hasLabel, Core]
    simp [findLabel, ha, ihb h.2]
  | _ => intro h; simp_all [findLabel, hasLabel, Core]

theorem Stmt.isSkip_eq {s : Stmt} (h : s.isSkip = true) : s = .skip := by
  cases s <;> simp_all [Stmt.isSkip]

theorem Cond.isConst_eq {c : Cond} (h : c.isConst = true) : ∃ b, c = .const b := by
  cases c <;> simp_all [Cond.isConst]

/-! ### the four mutually dependent claims, indexed by the fuel of the reference semantics -/

def StmtOK (n : Nat) : Prop :=
  ∀ (s : Stmt) (st : St) (o : Outcome) (st' : St) (C : Code) (base : Nat) (ctx : Ctx),
    Core s = true → exec n s st = .ok o st' → CodeAt C base (compile s base ctx) →
    Post C ctx 0 ⟨base, st⟩ (base + size s) o st'

def BlockOK (n : Nat) : Prop :=
  ∀ (b : Stmt) (st : St) (o : Outcome) (st' : St) (C : Code) (base : Nat) (ctx : Ctx),
    Core b = true → execBlock n b st = .ok o st' → CodeAt C base (compile (.block b) base ctx) →
    Post C ctx 0 ⟨base, st⟩ (base + sizeBlock b) o st'

def FromOK (n : Nat) : Prop :=
  ∀ (b : Stmt) (st : St) (o : Outcome) (st' : St) (C : Code) (base : Nat) (ctx : Ctx),
    Core b = true → execFrom n b b st = .ok o st' → CodeAt C base (compile b base ctx) →
    Post C ctx 0 ⟨base, st⟩ (base + size b) o st'

/-- addresses of the loop part of `for` (the fields of the `jump` struct) -/
def loopBodyAddr (c : Option Cond) (condAddr : Nat) : Nat := condAddr + b2n (loopCondInstr c)
def loopPost0 (c : Option Cond) (body : Stmt) (condAddr : Nat) : Nat := loopBodyAddr c condAddr + sizeBlock body
def loopPostAddr (c : Option Cond) (post body : Stmt) (condAddr : Nat) : Nat :=
  if post.isSkip then condAddr else loopPost0 c body condAddr
def loopJmpAddr (c : Option Cond) (post body : Stmt) (condAddr : Nat) : Nat := loopPost0 c body condAddr + size post
def loopBrk (c : Option Cond) (post body : Stmt) (condAddr : Nat) : Nat := loopJmpAddr c post body condAddr + 1
def loopCtx (upc : Nat) (ls : List Label) (c : Option Cond) (post body : Stmt) (condAddr : Nat) (ctx : Ctx) : Ctx :=
  { upCost := upc, loop := some { labels := ls, brk := loopBrk c post body condAddr,
                                  cont := some (loopPostAddr c post body condAddr) } } :: ctx
def loopCondCode (c : Option Cond) (condAddr brk : Nat) : Code :=
  match c with
  | some cc => if cc.isConst then [] else [.cjmp cc (condAddr + 1) brk]
  | none => []
def loopCode (upc : Nat) (ls : List Label) (c : Option Cond) (post body : Stmt) (condAddr : Nat) (ctx : Ctx) : Code :=
  loopCondCode c condAddr (loopBrk c post body condAddr) ++
  compile (.block body) (loopBodyAddr c condAddr) (loopCtx upc ls c post body condAddr ctx) ++
  compile post (loopPost0 c body condAddr) (loopCtx upc ls c post body condAddr ctx) ++
  [.jmp 0 condAddr]

def LoopOK (n : Nat) : Prop :=
  ∀ (ls : List Label) (c : Option Cond) (post body : Stmt) (st : St) (o : Outcome) (st' : St)
    (C : Code) (condAddr upc : Nat) (ctx : Ctx),
    SimpleS post = true → Core body = true → loopCondConstFalse c = false →
    execLoop n ls c post body st = .ok o st' →
    CodeAt C condAddr (loopCode upc ls c post body condAddr ctx) →
    Post C ctx upc ⟨condAddr, st⟩ (loopBrk c post body condAddr) o st'

theorem compile_block (b : Stmt) (base : Nat) (ctx : Ctx) :
    compile (.block b) base ctx =
      pushIf (hasDefs b) ++ compile b (base + b2n (hasDefs b)) ({ upCost := b2n (hasDefs b) } :: ctx) ++ popIf (hasDefs b) := by
  simp [compile]

theorem compile_for (ls : List Label) (init : Stmt) (c : Option Cond) (post body : Stmt) (base : Nat) (ctx : Ctx)
    (hc : loopCondConstFalse c = false) :
    compile (.for ls init c post body) base ctx =
      pushIf (hasDefs init) ++ compile init (base + b2n (hasDefs init)) ({ upCost := b2n (hasDefs init) } :: ctx) ++
      loopCode (b2n (hasDefs init)) ls c post body (base + b2n (hasDefs init) + size init) ctx ++
      popIf (hasDefs init) := by
  rcases c with _ | cc <;>
    simp [compile, hc, loopCode, loopCondCode, loopCtx, loopBrk, loopJmpAddr, loopPostAddr, loopPost0, loopBodyAddr, sizeBlock]

theorem compile_for_false (ls : List Label) (init : Stmt) (c : Option Cond) (post body : Stmt) (base : Nat) (ctx : Ctx)
    (hc : loopCondConstFalse c = true) :
    compile (.for ls init c post body) base ctx =
      pushIf (hasDefs init) ++ compile init (base + b2n (hasDefs init)) ({ upCost := b2n (hasDefs init) } :: ctx) ++
      popIf (hasDefs init) := by
  simp [compile, hc]

theorem reach_pushIf {C : Code} {a : Nat} {st : St} {loc : Bool} (h : CodeAt C a (pushIf loc)) :
    Reaches C ⟨a, st⟩ ⟨a + b2n loc, st.pushIf loc⟩ := by
  cases loc
  · exact Reaches.refl _ _
  · exact reach_push (CodeAt.head (by simpa [pushIf] using h))

theorem reach_popIf {C : Code} {a : Nat} {st : St} {loc : Bool} (h : CodeAt C a (popIf loc)) :
    Reaches C ⟨a, st⟩ ⟨a + b2n loc, st.popIf loc⟩ := by
  cases loc
  · exact Reaches.refl _ _
  · exact reach_pop (CodeAt.head (by simpa [popIf] using h))

theorem FromOK_succ {n : Nat} (hs : StmtOK n) : FromOK (n + 1) := by
  intro b st o st' C base ctx hcore he hcode
  simp only [execFrom] at he
  split at he
  · rw [Core.findLabel_none hcore] at he
    simp only [XRes.ok.injEq] at he
    obtain ⟨rfl, rfl⟩ := he
    trivial
  · exact hs b st o st' C base ctx hcore he hcode

theorem BlockOK_succ {n : Nat} (hf : FromOK n) : BlockOK (n + 1) := by
  intro b st o st' C base ctx hcore he hcode
  simp only [execBlock] at he
  split at he
  · rename_i o1 st1 hx
    simp only [XRes.ok.injEq] at he
    obtain ⟨rfl, rfl⟩ := he
    rw [compile_block] at hcode
    have h1 := hcode.left.left
    have h2 := hcode.left.right
    have h3 := hcode.right
    simp only [pushIf_length, List.length_append, compile_length] at h2 h3
    have hin := hf b _ o1 st1 C _ _ hcore hx h2
    have hw := Post.wrap (endOut := base + sizeBlock b) (reach_pushIf (st := st) h1) hin
      (by
        have := reach_popIf (st := st1) h3
        have e : base + (b2n (hasDefs b) + size b) + b2n (hasDefs b) = base + sizeBlock b := by
          simp [sizeBlock]; omega
        rw [e] at this
        have e2 : base + b2n (hasDefs b) + size b = base + (b2n (hasDefs b) + size b) := by omega
        rw [e2]
        exact this)
    exact hw
  · cases he

theorem Post.end_irrel {C : Code} {ctx : Ctx} {u : Nat} {c : Cfg} {e e' : Nat} {o : Outcome} {st1 : St}
    (ho : o ≠ .normal) (h : Post C ctx u c e o st1) : Post C ctx u c e' o st1 := by
  cases o with
  | normal => exact absurd rfl ho
  | _ => exact h

theorem CodeAt.cast {C : Code} {a b : Nat} {code : Code} (h : CodeAt C a code) (e : a = b) : CodeAt C b code := e ▸ h

theorem size_block (b : Stmt) : size (.block b) = sizeBlock b := rfl

@[simp] theorem ite_singleton_length (p : Bool) (i : Instr) : (if p = true then [i] else []).length = b2n p := by
  cases p <;> rfl

/-! ### if / else -/

def iteInner (c : Cond) (thn els : Stmt) (condAddr : Nat) (ctx' : Ctx) : Code :=
  let thenAddr := condAddr + b2n (!c.isConst)
  let thenSz := if c.isFalse then 0 else sizeBlock thn
  let hasGoto := !c.isConst && !els.isSkip
  let elseAddr := thenAddr + thenSz + b2n hasGoto
  let elseSz := if c.isTrue then 0 else size els
  let endAddr := elseAddr + elseSz
  (if c.isConst then [] else [.cjmp c thenAddr elseAddr]) ++
  (if c.isFalse then [] else compile (.block thn) thenAddr ctx') ++
  (if hasGoto then [.jmp 0 endAddr] else []) ++
  (if c.isTrue then [] else compile els elseAddr ctx')

def iteInnerSize (c : Cond) (thn els : Stmt) : Nat :=
  b2n (!c.isConst) + (if c.isFalse then 0 else sizeBlock thn) + b2n (!c.isConst && !els.isSkip)
    + (if c.isTrue then 0 else size els)

theorem compile_ite (init : Stmt) (c : Cond) (thn els : Stmt) (base : Nat) (ctx : Ctx) :
    compile (.ite init c thn els) base ctx =
      pushIf (hasDefs init) ++ compile init (base + b2n (hasDefs init)) ({ upCost := b2n (hasDefs init) } :: ctx) ++
      iteInner c thn els (base + b2n (hasDefs init) + size init) ({ upCost := b2n (hasDefs init) } :: ctx) ++
      popIf (hasDefs init) := by
  simp [compile, iteInner, sizeBlock, List.append_assoc]

theorem size_ite (init : Stmt) (c : Cond) (thn els : Stmt) :
    size (.ite init c thn els) = 2 * b2n (hasDefs init) + size init + iteInnerSize c thn els := by
  simp [size, iteInnerSize, sizeBlock]; omega

theorem ite_inner {n : Nat} (hs : StmtOK n) (hb : BlockOK n) (c : Cond) (thn els : Stmt) (st2 : St)
    (o : Outcome) (st3 : St) (C : Code) (condAddr : Nat) (ctx' : Ctx)
    (ht : Core thn = true) (hels : Core els = true)
    (hx : (if c.eval st2.stack then execBlock n thn st2 else exec n els st2) = .ok o st3)
    (hcode : CodeAt C condAddr (iteInner c thn els condAddr ctx')) :
    Post C ctx' 0 ⟨condAddr, st2⟩ (condAddr + iteInnerSize c thn els) o st3 := by
  by_cases hc : c.isConst = true
  · obtain ⟨b, rfl⟩ := Cond.isConst_eq hc
    cases b
    · -- `if false`: then-branch truncated
      simp [iteInner, iteInnerSize, Cond.isConst, Cond.isFalse, Cond.isTrue, Cond.eval] at hcode hx ⊢
      exact hs els st2 o st3 C condAddr ctx' hels hx hcode
    · -- `if true`: else-branch truncated
      simp [iteInner, iteInnerSize, Cond.isConst, Cond.isFalse, Cond.isTrue, Cond.eval] at hcode hx ⊢
      exact hb thn st2 o st3 C condAddr ctx' ht hx hcode
  · have hc' : c.isConst = false := by simpa using hc
    have hF : c.isFalse = false := by cases c <;> simp_all [Cond.isFalse, Cond.isConst]
    have hT : c.isTrue = false := by cases c <;> simp_all [Cond.isTrue, Cond.isConst]
    simp only [iteInner, iteInnerSize, hc', hF, hT, Bool.not_false, Bool.true_and, b2n_true,
      Bool.false_eq_true, if_false] at hcode ⊢
    have hcj := hcode.left.left.left
    have hthen := hcode.left.left.right
    have hgoto := hcode.left.right
    have helse := hcode.right
    simp only [List.length_append, List.length_cons, List.length_nil, compile_length, size_block,
      ite_singleton_length] at hthen hgoto helse
    have hthen' : CodeAt C (condAddr + 1) (compile (.block thn) (condAddr + 1) ctx') := hthen.cast (by omega)
    have helse' : CodeAt C (condAddr + 1 + sizeBlock thn + b2n (!els.isSkip))
        (compile els (condAddr + 1 + sizeBlock thn + b2n (!els.isSkip)) ctx') := helse.cast (by omega)
    have hcj' := reach_cjmp (st := st2) (CodeAt.head hcj)
    by_cases hev : c.eval st2.stack = true
    · simp only [hev, if_true] at hx hcj'
      have hin := hb thn st2 o st3 C (condAddr + 1) ctx' ht hx hthen'
      by_cases ho : o = .normal
      · subst ho
        refine hcj'.trans (Reaches.trans hin ?_)
        cases hsk : els.isSkip
        · -- an else branch exists: jump over it
          simp only [hsk, Bool.not_false, b2n_true, if_true] at hgoto ⊢
          have hj := reach_jmp (st := st3) (CodeAt.head (hgoto.cast (b := condAddr + 1 + sizeBlock thn) (by omega)))
          simp only [St.dropn_zero] at hj
          have e2 : condAddr + 1 + sizeBlock thn + 1 + size els = condAddr + (1 + sizeBlock thn + 1 + size els) := by omega
          rw [e2] at hj
          exact hj
        · have := Stmt.isSkip_eq hsk
          subst this
          simp only [size, Bool.not_true, b2n_false]
          have e : condAddr + 1 + sizeBlock thn = condAddr + (1 + sizeBlock thn + 0 + 0) := by omega
          rw [e]
          exact Reaches.refl _ _
      · exact Post.prepend hcj' (Post.end_irrel ho hin)
    · have hev' : c.eval st2.stack = false := by simpa using hev
      simp only [hev', Bool.false_eq_true, if_false] at hx hcj'
      have hin := hs els st2 o st3 C _ ctx' hels hx helse'
      have e : condAddr + 1 + sizeBlock thn + b2n (!els.isSkip) + size els
          = condAddr + (1 + sizeBlock thn + b2n (!els.isSkip) + size els) := by omega
      rw [e] at hin
      exact Post.prepend hcj' hin

theorem execLoop_constFalse {n : Nat} {ls : List Label} {c : Option Cond} {post body : Stmt} {st st3 : St} {o : Outcome}
    (hc : loopCondConstFalse c = true) (he : execLoop n ls c post body st = .ok o st3) : o = .normal ∧ st3 = st := by
  cases n with
  | zero => simp [execLoop] at he
  | succ n =>
    rcases c with _ | cc
    · simp [loopCondConstFalse] at hc
    · cases cc with
      | const b =>
        cases b
        · simp [execLoop, loopGo, Cond.eval] at he
          exact ⟨he.1.symm, he.2.symm⟩
        · simp [loopCondConstFalse, Cond.isFalse] at hc
      | _ => simp [loopCondConstFalse, Cond.isFalse] at hc

theorem size_for (ls : List Label) (init : Stmt) (c : Option Cond) (post body : Stmt) (hc : loopCondConstFalse c = false) (base : Nat) :
    base + size (.for ls init c post body) =
      loopBrk c post body (base + b2n (hasDefs init) + size init) + b2n (hasDefs init) := by
  simp [size, hc, loopBrk, loopJmpAddr, loopPost0, loopBodyAddr, sizeBlock]; omega

theorem StmtOK_succ {n : Nat} (hs : StmtOK n) (hb : BlockOK n) (hl : LoopOK n) : StmtOK (n + 1) := by
  intro s st o st' C base ctx hcore he hcode
  cases s with
  | skip =>
    simp only [exec, XRes.ok.injEq] at he
    obtain ⟨rfl, rfl⟩ := he
    exact Reaches.refl _ _
  | emit t e =>
    simp only [exec, XRes.ok.injEq] at he
    obtain ⟨rfl, rfl⟩ := he
    exact reach_emit (CodeAt.head (by simpa [compile] using hcode))
  | assign x e =>
    simp only [exec, XRes.ok.injEq] at he
    obtain ⟨rfl, rfl⟩ := he
    exact reach_assign (CodeAt.head (by simpa [compile] using hcode))
  | define x e =>
    simp only [exec, XRes.ok.injEq] at he
    obtain ⟨rfl, rfl⟩ := he
    exact reach_define (CodeAt.head (by simpa [compile] using hcode))
  | brk l =>
    simp only [exec, XRes.ok.injEq] at he
    obtain ⟨rfl, rfl⟩ := he
    simp only [compile] at hcode
    simp only [Post]
    cases hr : resolveBreak ctx l 0 with
    | none =>
      rw [hr] at hcode
      exact ⟨⟨base, st⟩, Reaches.refl _ _, CodeAt.head hcode⟩
    | some p =>
      obtain ⟨k, t⟩ := p
      rw [hr] at hcode
      exact reachpos_jmp (CodeAt.head hcode)
  | cont l =>
    simp only [exec, XRes.ok.injEq] at he
    obtain ⟨rfl, rfl⟩ := he
    simp only [compile] at hcode
    simp only [Post]
    cases hr : resolveCont ctx l 0 with
    | none =>
      rw [hr] at hcode
      exact ⟨⟨base, st⟩, Reaches.refl _ _, CodeAt.head hcode⟩
    | some p =>
      obtain ⟨k, t⟩ := p
      rw [hr] at hcode
      exact reachpos_jmp (CodeAt.head hcode)
  | ret =>
    simp only [exec, XRes.ok.injEq] at he
    obtain ⟨rfl, rfl⟩ := he
    exact ⟨⟨base, st⟩, Reaches.refl _ _, CodeAt.head (by simpa [compile] using hcode), rfl, [], rfl⟩
  | seq a b =>
    simp only [Core, Bool.and_eq_true] at hcore
    simp only [compile] at hcode
    have hca := hcode.left
    have hcb := hcode.right
    simp only [compile_length] at hcb
    simp only [exec] at he
    split at he
    · rename_i st1 hx
      have h1 := hs a st .normal st1 C base _ hcore.1 hx hca
      have h2 := hs b st1 o st' C _ _ hcore.2 he hcb
      have e : base + size (.seq a b) = base + size a + size b := by simp [size]; omega
      rw [e]
      exact Post.addLabels (Post.prepend h1 h2)
    · rename_i hne
      have h1 := hs a st o st' C base _ hcore.1 he hca
      have ho : o ≠ .normal := by
        intro h; subst h; exact hne st' he
      exact Post.addLabels (Post.end_irrel ho h1)
  | block b =>
    simp only [Core] at hcore
    simp only [exec] at he
    exact hb b st o st' C base ctx hcore he hcode
  | ite init c thn els =>
    simp only [Core, Bool.and_eq_true] at hcore
    obtain ⟨⟨hi, ht⟩, hels⟩ := hcore
    rw [compile_ite] at hcode
    have h1 := hcode.left.left.left
    have h2 := hcode.left.left.right
    have h3 := hcode.left.right
    have h4 := hcode.right
    simp only [List.length_append, pushIf_length, compile_length] at h2 h3 h4
    simp only [exec] at he
    split at he
    · rename_i st2 hx
      split at he
      · rename_i o1 st3 hy
        simp only [XRes.ok.injEq] at he
        obtain ⟨rfl, rfl⟩ := he
        have hinit := hs init _ .normal st2 C _ _ (SimpleS.core hi) hx h2
        have hin := ite_inner hs hb c thn els st2 o1 st3 C _ _ ht hels hy (h3.cast (by omega))
        rw [size_ite]
        refine Post.wrap ((reach_pushIf h1).trans hinit) hin ?_
        have hp := reach_popIf (st := st3) h4
        have hlen : (iteInner c thn els (base + b2n (hasDefs init) + size init)
            ({ upCost := b2n (hasDefs init) } :: ctx)).length = iteInnerSize c thn els := by
          simp only [iteInner, iteInnerSize, List.length_append]
          cases c.isConst <;> cases c.isFalse <;> cases c.isTrue <;> cases els.isSkip <;>
            simp [compile_length, size_block]
        rw [hlen] at hp
        have e1 : base + (b2n (hasDefs init) + size init + iteInnerSize c thn els)
            = base + b2n (hasDefs init) + size init + iteInnerSize c thn els := by omega
        have e2 : base + (b2n (hasDefs init) + size init + iteInnerSize c thn els) + b2n (hasDefs init)
            = base + (2 * b2n (hasDefs init) + size init + iteInnerSize c thn els) := by omega
        rw [e2, e1] at hp
        exact hp
      · cases he
    · rename_i o1 st2 hne hx
      exact (hne (SimpleS.exec_normal hi hx)).elim
    · cases he
  | «for» ls init c post body =>
    simp only [Core, Bool.and_eq_true] at hcore
    obtain ⟨⟨hi, hp⟩, hbody⟩ := hcore
    simp only [exec] at he
    split at he
    · rename_i st2 hx
      split at he
      · rename_i o1 st3 hy
        simp only [XRes.ok.injEq] at he
        obtain ⟨rfl, rfl⟩ := he
        cases hc : loopCondConstFalse c
        · rw [compile_for _ _ _ _ _ _ _ hc] at hcode
          have h1 := hcode.left.left.left
          have h2 := hcode.left.left.right
          have h3 := hcode.left.right
          have h4 := hcode.right
          simp only [List.length_append, pushIf_length, compile_length] at h2 h3 h4
          have hinit := hs init _ .normal st2 C _ _ (SimpleS.core hi) hx h2
          have hloop := hl ls c post body st2 o1 st3 C _ (b2n (hasDefs init)) ctx hp hbody hc hy
            (h3.cast (by omega))
          rw [size_for _ _ _ _ _ hc]
          refine Post.wrapUp ((reach_pushIf h1).trans hinit) hloop ?_
          have hpp := reach_popIf (st := st3) h4
          have hlen : (loopCode (b2n (hasDefs init)) ls c post body (base + b2n (hasDefs init) + size init) ctx).length
              = loopBrk c post body (base + b2n (hasDefs init) + size init) - (base + b2n (hasDefs init) + size init) := by
            simp only [loopCode, loopCondCode, List.length_append, compile_length, size_block, loopBrk, loopJmpAddr, loopPost0,
              loopBodyAddr, List.length_cons, List.length_nil]
            rcases c with _ | cc
            · simp [loopCondInstr]; omega
            · cases hcc : cc.isConst <;> simp [loopCondInstr, hcc] <;> omega
          have hge : base + b2n (hasDefs init) + size init ≤ loopBrk c post body (base + b2n (hasDefs init) + size init) := by
            simp only [loopBrk, loopJmpAddr, loopPost0, loopBodyAddr]; omega
          rw [hlen] at hpp
          exact hpp.cast_ip (by omega) (by omega)
        · obtain ⟨rfl, rfl⟩ := execLoop_constFalse hc hy
          rw [compile_for_false _ _ _ _ _ _ _ hc] at hcode
          have h1 := hcode.left.left
          have h2 := hcode.left.right
          have h4 := hcode.right
          simp only [List.length_append, pushIf_length, compile_length] at h2 h4
          have hinit := hs init _ .normal st3 C _ _ (SimpleS.core hi) hx h2
          have hpp := reach_popIf (st := st3) h4
          have e : base + size (.for ls init c post body) = base + (b2n (hasDefs init) + size init) + b2n (hasDefs init) := by
            simp [size, hc]; omega
          rw [e]
          exact ((reach_pushIf h1).trans hinit).trans (hpp.cast_ip (by omega) (by omega))
      · cases he
    · rename_i o1 st2 hne hx
      exact (hne (SimpleS.exec_normal hi hx)).elim
    · cases he
  | labeled l s => simp [Core] at hcore
  | goto l => simp [Core] at hcore
  | range ls str dfn key val keys vals body => simp [Core] at hcore
  | switch ls init tag cls => simp [Core] at hcore
  | clause g ft body rest => simp [Core] at hcore

/-! ### the loop part of `for`: `jump.Cond`, `jump.Post`, `jump.Break` point at the right instructions -/

theorem labelMatch_eq (l : Option Label) (ls : List Label) (b : Nat) (ct : Option Nat) :
    labelMatch l { labels := ls, brk := b, cont := ct } = labelIn l ls := by
  cases l <;> rfl

theorem loop_cond {C : Code} (c : Option Cond) (condAddr brk : Nat) (st : St)
    (hc : loopCondConstFalse c = false)
    (hcode : CodeAt C condAddr (loopCondCode c condAddr brk)) :
    Reaches C ⟨condAddr, st⟩ ⟨if loopGo c st.stack then loopBodyAddr c condAddr else brk, st⟩ := by
  rcases c with _ | cc
  · simp [loopGo, loopBodyAddr, loopCondInstr]
    exact Reaches.refl _ _
  · cases hcc : cc.isConst
    · simp only [loopCondCode, hcc, Bool.false_eq_true, if_false] at hcode
      have := reach_cjmp (st := st) (CodeAt.head hcode)
      simpa [loopGo, loopBodyAddr, loopCondInstr, hcc] using this
    · obtain ⟨b, rfl⟩ := Cond.isConst_eq hcc
      cases b
      · simp [loopCondConstFalse, Cond.isFalse] at hc
      · simp [loopGo, loopBodyAddr, loopCondInstr, Cond.eval, Cond.isConst]
        exact Reaches.refl _ _

theorem LoopOK_succ {n : Nat} (hs : StmtOK n) (hb : BlockOK n) (hl : LoopOK n) : LoopOK (n + 1) := by
  intro ls c post body st o st' C condAddr upc ctx hpost hbody hc he hcode
  simp only [loopCode] at hcode
  have hcond := hcode.left.left.left
  have hblock := hcode.left.left.right
  have hpostc := hcode.left.right
  have hjmp := hcode.right
  have hclen : (loopCondCode c condAddr (loopBrk c post body condAddr)).length = b2n (loopCondInstr c) := by
    rcases c with _ | cc
    · rfl
    · cases hcc : cc.isConst <;> simp [loopCondCode, loopCondInstr, hcc]
  simp only [List.length_append, compile_length, size_block, hclen] at hblock hpostc hjmp
  have hblock' : CodeAt C (loopBodyAddr c condAddr)
      (compile (.block body) (loopBodyAddr c condAddr) (loopCtx upc ls c post body condAddr ctx)) := hblock
  have hpostc' : CodeAt C (loopPost0 c body condAddr)
      (compile post (loopPost0 c body condAddr) (loopCtx upc ls c post body condAddr ctx)) :=
    hpostc.cast (by simp [loopPost0, loopBodyAddr]; omega)
  have hjmp' : C[loopJmpAddr c post body condAddr]? = some (.jmp 0 condAddr) :=
    CodeAt.head (hjmp.cast (by simp [loopJmpAddr, loopPost0, loopBodyAddr]; omega))
  have hgo := loop_cond c condAddr (loopBrk c post body condAddr) st hc hcond
  -- what happens from `jump.Post` on: post statement, jump back, remaining iterations
  have fromPost : ∀ st1 : St, (match exec n post st1 with
        | .ok .normal st2 => execLoop n ls c post body st2
        | r => r) = .ok o st' →
      Post C ctx upc ⟨loopPost0 c body condAddr, st1⟩ (loopBrk c post body condAddr) o st' := by
    intro st1 h
    split at h
    · rename_i st2 hx
      have hp := hs post st1 .normal st2 C _ _ (SimpleS.core hpost) hx hpostc'
      have hj := reach_jmp (st := st2) hjmp'
      simp only [St.dropn_zero] at hj
      have hrest := hl ls c post body st2 o st' C condAddr upc ctx hpost hbody hc h
        (by simpa only [loopCode] using hcode)
      exact Post.prepend (Reaches.trans hp hj) hrest
    · rename_i hne
      cases hr : exec n post st1 with
      | timeout => rw [hr] at h; cases h
      | ok o2 st2 =>
        have := SimpleS.exec_normal hpost hr
        subst this
        exact (hne st2 hr).elim
  simp only [execLoop] at he
  split at he
  · rename_i hgo1
    simp only [hgo1, if_true] at hgo
    split at he
    · rename_i ob st1 hx
      have hbody1 := hb body st ob st1 C _ _ hbody hx hblock'
      split at he
      · -- the loop goes on
        rename_i hnext
        cases ob with
        | normal => exact Post.prepend (hgo.trans hbody1) (fromPost st1 he)
        | cont l =>
          simp only [loopNext] at hnext
          simp only [Post, loopCtx, resolveCont, labelMatch_eq, hnext, if_true, Bool.false_eq_true,
            if_false] at hbody1
          simp only [JumpTo, St.dropn_zero] at hbody1
          replace hbody1 := hbody1.reaches
          cases hsk : post.isSkip
          · simp only [loopPostAddr, hsk, Bool.false_eq_true, if_false] at hbody1
            exact Post.prepend (hgo.trans hbody1) (fromPost st1 he)
          · have := Stmt.isSkip_eq hsk
            subst this
            simp only [loopPostAddr, Stmt.isSkip, if_true] at hbody1
            -- `continue` jumps to the condition; an absent post statement does nothing
            cases n with
            | zero => simp [exec] at he
            | succ m =>
              simp only [exec] at he
              have hrest := hl ls c .skip body st1 o st' C condAddr upc ctx hpost hbody hc he
                (by simpa only [loopCode] using hcode)
              exact Post.prepend (hgo.trans hbody1) hrest
        | brk l => simp [loopNext] at hnext
        | ret => simp [loopNext] at hnext
        | goto l => simp [loopNext] at hnext
      · -- the loop ends or the outcome propagates
        rename_i hnext
        simp only [XRes.ok.injEq] at he
        obtain ⟨rfl, rfl⟩ := he
        cases ob with
        | normal => simp [loopNext] at hnext
        | cont l =>
          have hnl : labelIn l ls = false := by simpa [loopNext] using hnext
          simp only [loopExit]
          simp only [Post, loopCtx, resolveCont, labelMatch_eq, hnl, Bool.false_eq_true, if_false,
            Nat.zero_add] at hbody1 ⊢
          exact JumpTo.prepend hgo hbody1
        | brk l =>
          cases hlab : labelIn l ls
          · simp only [loopExit, hlab, Bool.false_eq_true, if_false]
            simp only [Post, loopCtx, resolveBreak, labelMatch_eq, hlab, Bool.false_eq_true, if_false,
              Nat.zero_add] at hbody1 ⊢
            exact JumpTo.prepend hgo hbody1
          · simp only [loopExit, hlab, if_true]
            simp only [Post, loopCtx, resolveBreak, labelMatch_eq, hlab, if_true, Bool.false_eq_true,
              if_false] at hbody1
            simp only [JumpTo, St.dropn_zero] at hbody1
            exact hgo.trans hbody1.reaches
        | ret => exact RetAt.prepend hgo hbody1
        | goto l => trivial
    · cases he
  · rename_i hgo1
    simp only [hgo1, if_false] at hgo
    simp only [XRes.ok.injEq] at he
    obtain ⟨rfl, rfl⟩ := he
    exact hgo

/-- all four claims hold for every fuel -/
theorem sim_all : ∀ n, StmtOK n ∧ BlockOK n ∧ FromOK n ∧ LoopOK n := by
  intro n
  induction n with
  | zero =>
    refine ⟨?_, ?_, ?_, ?_⟩
    · intro s st o st' C base ctx _ he; simp [exec] at he
    · intro b st o st' C base ctx _ he; simp [execBlock] at he
    · intro b st o st' C base ctx _ he; simp [execFrom] at he
    · intro ls c post body st o st' C condAddr upc ctx _ _ _ he; simp [execLoop] at he
  | succ n ih =>
    obtain ⟨hs, hb, hf, hl⟩ := ih
    exact ⟨StmtOK_succ hs hb hl, BlockOK_succ hf, FromOK_succ hs, LoopOK_succ hs hb hl⟩

end Flow
