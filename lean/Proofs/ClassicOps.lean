import Model.ClassicOps

/-! Proofs for C38, operators: computing in int64 / uint64 and converting back to the operand kind
    (`evalBinaryExprIntInt`, `evalBinaryExprUintUint`, `valueToType`) is the Go operator at that kind,
    for every width `w ≤ 64` and ALL operand values. -/

namespace Classic
open GoSpec GoSpec.Outcome

variable {w : Nat}

/-! ### widening then truncating -/

theorem zext_trunc (hw : w ≤ 64) (x : BitVec w) : (x.setWidth 64).setWidth w = x := by
  rw [BitVec.setWidth_setWidth_of_le x hw]; simp

theorem sext_trunc (hw : w ≤ 64) (x : BitVec w) : (x.signExtend 64).setWidth w = x := by
  ext i h
  simp [BitVec.getLsbD_signExtend, h]
  intro _
  omega

theorem conv_true (hw : w ≤ 64) (v : BitVec 64) : I.conv true v w = v.setWidth w := by
  simp [I.conv, BitVec.signExtend_eq_setWidth_of_le _ hw]

theorem conv_false (v : BitVec 64) : I.conv false v w = v.setWidth w := by
  simp [I.conv]

/-- the extension used for an operand of signedness `s` -/
def ext (s : Bool) (x : BitVec w) : BitVec 64 := if s then x.signExtend 64 else x.setWidth 64

theorem ext_trunc (hw : w ≤ 64) (s : Bool) (x : BitVec w) : (ext s x).setWidth w = x := by
  cases s
  · exact zext_trunc hw x
  · exact sext_trunc hw x

theorem ext_inj (hw : w ≤ 64) (s : Bool) (x y : BitVec w) : (ext s x = ext s y) ↔ x = y := by
  constructor
  · intro h
    have := congrArg (fun v => v.setWidth w) h
    simpa [ext_trunc hw] using this
  · intro h; rw [h]

theorem toInt_sext (hw : w ≤ 64) (x : BitVec w) : (x.signExtend 64).toInt = x.toInt :=
  BitVec.toInt_signExtend_of_le hw

theorem ext_zero (hw : w ≤ 64) (s : Bool) : ext s (0#w) = 0#64 := by
  cases s
  · simp [ext]
  · simp only [ext, if_true]
    apply BitVec.eq_of_toInt_eq
    rw [toInt_sext hw]
    simp

theorem ext_eq_zero (hw : w ≤ 64) (s : Bool) (y : BitVec w) : (ext s y = 0#64) ↔ y = 0#w := by
  rw [← ext_zero (w := w) hw s, ext_inj hw]

theorem trunc_add (hw : w ≤ 64) (s : Bool) (x y : BitVec w) : (ext s x + ext s y).setWidth w = x + y := by
  rw [BitVec.setWidth_add _ _ hw, ext_trunc hw, ext_trunc hw]

theorem trunc_mul (hw : w ≤ 64) (s : Bool) (x y : BitVec w) : (ext s x * ext s y).setWidth w = x * y := by
  rw [BitVec.setWidth_mul _ _ hw, ext_trunc hw, ext_trunc hw]

theorem trunc_sub (hw : w ≤ 64) (s : Bool) (x y : BitVec w) : (ext s x - ext s y).setWidth w = x - y := by
  rw [BitVec.sub_eq_add_neg, BitVec.setWidth_add _ _ hw, BitVec.setWidth_neg_of_le hw, ext_trunc hw, ext_trunc hw,
    ← BitVec.sub_eq_add_neg]

theorem trunc_and (hw : w ≤ 64) (s : Bool) (x y : BitVec w) : (ext s x &&& ext s y).setWidth w = x &&& y := by
  rw [BitVec.setWidth_and, ext_trunc hw, ext_trunc hw]

theorem trunc_or (hw : w ≤ 64) (s : Bool) (x y : BitVec w) : (ext s x ||| ext s y).setWidth w = x ||| y := by
  rw [BitVec.setWidth_or, ext_trunc hw, ext_trunc hw]

theorem trunc_xor (hw : w ≤ 64) (s : Bool) (x y : BitVec w) : (ext s x ^^^ ext s y).setWidth w = x ^^^ y := by
  rw [BitVec.setWidth_xor, ext_trunc hw, ext_trunc hw]

theorem trunc_andNot (hw : w ≤ 64) (s : Bool) (x y : BitVec w) :
    (ext s x &&& ~~~(ext s y)).setWidth w = x &&& ~~~y := by
  rw [BitVec.setWidth_and, BitVec.setWidth_not hw, ext_trunc hw, ext_trunc hw]

/-! ### division and remainder (Int / Nat level) -/

theorem toInt_trunc (hw : w ≤ 64) (v : BitVec 64) : (v.setWidth w).toInt = v.toInt.bmod (2 ^ w) := by
  rw [BitVec.toInt_setWidth, BitVec.toInt_eq_toNat_bmod v]
  have hd : (2 ^ w : Nat) ∣ 2 ^ 64 := Nat.pow_dvd_pow 2 hw
  exact (Int.bmod_bmod_of_dvd (by exact_mod_cast hd)).symm

theorem trunc_sdiv (hw : w ≤ 64) (x y : BitVec w) :
    ((x.signExtend 64).sdiv (y.signExtend 64)).setWidth w = x.sdiv y := by
  apply BitVec.eq_of_toInt_eq
  rw [toInt_trunc hw, BitVec.toInt_sdiv, BitVec.toInt_sdiv, toInt_sext hw, toInt_sext hw]
  have hd : (2 ^ w : Nat) ∣ 2 ^ 64 := Nat.pow_dvd_pow 2 hw
  exact Int.bmod_bmod_of_dvd (by exact_mod_cast hd)

theorem trunc_srem (hw : w ≤ 64) (x y : BitVec w) :
    ((x.signExtend 64).srem (y.signExtend 64)).setWidth w = x.srem y := by
  apply BitVec.eq_of_toInt_eq
  rw [toInt_trunc hw, BitVec.toInt_srem, toInt_sext hw, toInt_sext hw, ← BitVec.toInt_srem]
  exact BitVec.toInt_bmod_cancel _

theorem trunc_udiv (hw : w ≤ 64) (x y : BitVec w) :
    ((x.setWidth 64).udiv (y.setWidth 64)).setWidth w = x.udiv y := by
  apply BitVec.eq_of_toNat_eq
  simp only [BitVec.udiv_eq, BitVec.toNat_setWidth, BitVec.toNat_udiv]
  have hx := x.isLt
  have hy := y.isLt
  have h64 : (2 : Nat) ^ w ≤ 2 ^ 64 := Nat.pow_le_pow_right (by omega) hw
  rw [Nat.mod_eq_of_lt (by omega : x.toNat < 2 ^ 64), Nat.mod_eq_of_lt (by omega : y.toNat < 2 ^ 64)]
  exact Nat.mod_eq_of_lt (Nat.lt_of_le_of_lt (Nat.div_le_self _ _) hx)

theorem trunc_umod (hw : w ≤ 64) (x y : BitVec w) :
    ((x.setWidth 64).umod (y.setWidth 64)).setWidth w = x.umod y := by
  apply BitVec.eq_of_toNat_eq
  simp only [BitVec.umod_eq, BitVec.toNat_setWidth, BitVec.toNat_umod]
  have hx := x.isLt
  have hy := y.isLt
  have h64 : (2 : Nat) ^ w ≤ 2 ^ 64 := Nat.pow_le_pow_right (by omega) hw
  rw [Nat.mod_eq_of_lt (by omega : x.toNat < 2 ^ 64), Nat.mod_eq_of_lt (by omega : y.toNat < 2 ^ 64)]
  exact Nat.mod_eq_of_lt (Nat.lt_of_le_of_lt (Nat.mod_le _ _) hx)

/-! ### comparisons -/

theorem slt_sext (hw : w ≤ 64) (x y : BitVec w) : (x.signExtend 64).slt (y.signExtend 64) = x.slt y := by
  simp only [BitVec.slt_eq_decide, toInt_sext hw]

theorem sle_sext (hw : w ≤ 64) (x y : BitVec w) : (x.signExtend 64).sle (y.signExtend 64) = x.sle y := by
  simp only [BitVec.sle_eq_decide, toInt_sext hw]

theorem ult_zext (hw : w ≤ 64) (x y : BitVec w) : (x.setWidth 64).ult (y.setWidth 64) = x.ult y := by
  simp only [BitVec.ult_eq_decide, BitVec.toNat_setWidth_of_le hw]

theorem ule_zext (hw : w ≤ 64) (x y : BitVec w) : (x.setWidth 64).ule (y.setWidth 64) = x.ule y := by
  simp only [BitVec.ule_eq_decide, BitVec.toNat_setWidth_of_le hw]

theorem beq_ext (hw : w ≤ 64) (s : Bool) (x y : BitVec w) : (ext s x == ext s y) = (x == y) := by
  by_cases h : x = y
  · subst h; simp
  · have : ext s x ≠ ext s y := fun h' => h ((ext_inj hw s x y).mp h')
    rw [beq_eq_false_iff_ne.mpr this, beq_eq_false_iff_ne.mpr h]

theorem bne_ext (hw : w ≤ 64) (s : Bool) (x y : BitVec w) : (ext s x != ext s y) = (x != y) := by
  simp only [bne, beq_ext hw]

/-! ### the tables: which clause serves which token -/

theorem arm_int (op : BinOp) (assign : Bool) (h : op.isShift = false) (hl : op ≠ .land ∧ op ≠ .lor) :
    (findArm goldenIntInt (tokOf op assign)).map headStmt = (findArm goldenUintUint (tokOf op assign)).map headStmt := by
  cases op <;> cases assign <;> simp_all [BinOp.isShift] <;> decide

/-- projection of a result on its value (the kind is stated separately) -/
def projV : Option (Outcome Opnd) → Option (Outcome Val)
  | none => none
  | some (.ok o) => some (.ok o.v)
  | some (.panic p) => some (.panic p)

def projK : Option (Outcome Opnd) → Option Kind
  | some (.ok o) => some o.k
  | _ => none

/-- signed operands of the same kind: `evalBinaryExprIntInt` on the widened operands, then `valueToType` -/
theorem intInt_sound (op : BinOp) (hs : op.isShift = false) (hl : op ≠ .land ∧ op ≠ .lor)
    (k : Kind) (ik : IKind) (hw : ik.w ≤ 64) (hsg : ik.signed = true) (x y : BitVec ik.w) :
    projV (evalIntInt golden (tokOf op false) k ik (x.signExtend 64) (y.signExtend 64) true) = intBin op ik x y := by
  have e0 := ext_eq_zero hw true y
  have h1 := trunc_add hw true x y
  have h2 := trunc_sub hw true x y
  have h3 := trunc_mul hw true x y
  have h4 := trunc_and hw true x y
  have h5 := trunc_or hw true x y
  have h6 := trunc_xor hw true x y
  have h7 := trunc_andNot hw true x y
  have h8 := beq_ext hw true x y
  have h9 := bne_ext hw true x y
  have h10 := beq_ext hw true y x
  simp only [ext, if_true] at e0 h1 h2 h3 h4 h5 h6 h7 h8 h9 h10
  have q1 := trunc_sdiv hw x y
  have q2 := trunc_srem hw x y
  have c1 := slt_sext hw x y
  have c2 := sle_sext hw x y
  have c3 := slt_sext hw y x
  have c4 := sle_sext hw y x
  cases op <;> simp [BinOp.isShift] at hs hl <;>
    simp [evalIntInt, golden, goldenIntInt, arith, cmpArms, findArm, tokOf, BinOp.name, headStmt, rhsInt, keepX, projV, intBin,
      conv_true hw, I.add, I.sub, I.mul, I.and, I.or, I.xor, I.andNot, I.quo, I.rem, I.eq, I.ne, I.lt, I.le, I.gt, I.ge, hsg, Outcome.map,
      e0, h1, h2, h3, h4, h5, h6, h7, h8, h9, q1, q2, c1, c2, c3, c4]
  all_goals (by_cases hy : y = 0#ik.w <;> simp [hy, q1, q2])

/-- unsigned operands of the same kind: `evalBinaryExprUintUint` -/
theorem uintUint_sound (op : BinOp) (hs : op.isShift = false) (hl : op ≠ .land ∧ op ≠ .lor)
    (k : Kind) (ik : IKind) (hw : ik.w ≤ 64) (hsg : ik.signed = false) (x y : BitVec ik.w) :
    projV (evalUintUint golden (tokOf op false) k ik (x.setWidth 64) (y.setWidth 64) true) = intBin op ik x y := by
  have e0 := ext_eq_zero hw false y
  have h1 := trunc_add hw false x y
  have h2 := trunc_sub hw false x y
  have h3 := trunc_mul hw false x y
  have h4 := trunc_and hw false x y
  have h5 := trunc_or hw false x y
  have h6 := trunc_xor hw false x y
  have h7 := trunc_andNot hw false x y
  have h8 := beq_ext hw false x y
  have h9 := bne_ext hw false x y
  simp only [ext, Bool.false_eq_true, if_false] at e0 h1 h2 h3 h4 h5 h6 h7 h8 h9
  have q1 := trunc_udiv hw x y
  have q2 := trunc_umod hw x y
  simp only [BitVec.udiv_eq, BitVec.umod_eq] at q1 q2
  have c1 := ult_zext hw x y
  have c2 := ule_zext hw x y
  have c3 := ult_zext hw y x
  have c4 := ule_zext hw y x
  cases op <;> simp [BinOp.isShift] at hs hl <;>
    simp [evalUintUint, golden, goldenUintUint, arith, cmpArms, findArm, tokOf, BinOp.name, headStmt, rhsInt, keepX, projV, intBin,
      conv_false, I.add, I.sub, I.mul, I.and, I.or, I.xor, I.andNot, I.quo, I.rem, I.eq, I.ne, I.lt, I.le, I.gt, I.ge, hsg, Outcome.map,
      e0, h1, h2, h3, h4, h5, h6, h7, h8, h9, q1, q2, c1, c2, c3, c4]
  all_goals (by_cases hy : y = 0#ik.w <;> simp [hy, q1, q2])

/-- `evalBinaryExpr` on two integer operands of the same kind = the Go operator at that kind, for every
    code variant, every operator except the shifts, every width up to 64 and ALL operand values:
    wrap-around, division by zero (panic), MinInt / -1, signed and unsigned comparisons. -/
theorem binary_int_sound (c : Cfg) (F : FloatOps) (op : BinOp) (hs : op.isShift = false) (hl : op ≠ .land ∧ op ≠ .lor)
    (k : Kind) (ik : IKind) (hw : ik.w ≤ 64) (x y : BitVec ik.w) :
    projV (binary c golden F op false ⟨k, .int ik x⟩ ⟨k, .int ik y⟩) = GoSpec.binop F op (.int ik x) (.int ik y) := by
  simp only [binary, GoSpec.binop, hs, Bool.and_false, Bool.false_eq_true, if_false, dite_true, beq_self_eq_true]
  cases hsg : ik.signed
  · simp only [Bool.false_eq_true, if_false]
    exact uintUint_sound op hs hl k ik hw hsg x y
  · simp only [if_true]
    exact intInt_sound op hs hl k ik hw hsg x y

/-! ### shifts (the repaired tree: `evalShift`) -/

theorem trunc_shl (hw : w ≤ 64) (s : Bool) (x : BitVec w) (n : Nat) : (ext s x <<< n).setWidth w = x <<< n := by
  rw [BitVec.shiftLeft_eq_mul_twoPow, BitVec.shiftLeft_eq_mul_twoPow, BitVec.setWidth_mul _ _ hw, ext_trunc hw]
  congr 1
  apply BitVec.eq_of_toNat_eq
  simp [BitVec.toNat_twoPow]
  exact Nat.mod_mod_of_dvd _ (Nat.pow_dvd_pow 2 hw)
theorem trunc_ushr (hw : w ≤ 64) (x : BitVec w) (n : Nat) : ((x.setWidth 64) >>> n).setWidth w = x >>> n := by
  apply BitVec.eq_of_toNat_eq
  simp only [BitVec.toNat_setWidth, BitVec.toNat_ushiftRight]
  have hx := x.isLt
  have h64 : (2 : Nat) ^ w ≤ 2 ^ 64 := Nat.pow_le_pow_right (by omega) hw
  rw [Nat.mod_eq_of_lt (by omega : x.toNat < 2 ^ 64)]
  apply Nat.mod_eq_of_lt
  exact Nat.lt_of_le_of_lt (Nat.shiftRight_le _ _) hx
theorem trunc_sshr (hw : w ≤ 64) (x : BitVec w) (n : Nat) : ((x.signExtend 64).sshiftRight n).setWidth w = x.sshiftRight n := by
  apply BitVec.eq_of_toInt_eq
  rw [toInt_trunc hw, BitVec.toInt_sshiftRight, toInt_sext hw, ← BitVec.toInt_sshiftRight]
  exact BitVec.toInt_bmod_cancel _

/-- `evalShift` = Go's shift for every operand kind, every count kind and ALL values: negative signed count
    panics, counts of 64 and more (up to 2^64-1) give 0 / the sign, the result has the kind of `x` -/
theorem shift_sound (F : FloatOps) (op : BinOp) (hop : op = .shl ∨ op = .shr) (assign : Bool)
    (kx ky : Kind) (ikx iky : IKind) (hwx : ikx.w ≤ 64) (hwy : iky.w ≤ 64) (x : BitVec ikx.w) (y : BitVec iky.w) :
    projV (binary fixedCfg golden F op assign ⟨kx, .int ikx x⟩ ⟨ky, .int iky y⟩) = GoSpec.binop F op (.int ikx x) (.int iky y) := by
  have hmsb : (y.signExtend 64).msb = y.msb := by
    rw [BitVec.msb_signExtend]
    by_cases h0 : 64 ≥ iky.w
    · simp [h0]
      intro _
      rfl
    · omega
  have hcnt : (widen iky y).toNat = y.toNat ∨ (iky.signed = true ∧ y.msb = true) := by
    unfold widen
    cases hs : iky.signed
    · left; simp [BitVec.toNat_setWidth_of_le hwy]
    · by_cases hm : y.msb = true
      · right; exact ⟨rfl, hm⟩
      · left
        simp only [if_true]
        have hm' : y.msb = false := by simpa using hm
        rw [BitVec.signExtend_eq_setWidth_of_msb_false hm', BitVec.toNat_setWidth_of_le hwy]
  have hshl := trunc_shl hwx ikx.signed x
  have hushr := trunc_ushr hwx x
  have hsshr := trunc_sshr hwx x
  rcases hop with rfl | rfl
  · simp only [binary, fixedCfg, BinOp.isShift, Bool.and_self, if_true, GoSpec.binop, intShift, evalShift, hmsb, I.shiftCount,
      projV, beq_self_eq_true]
    by_cases hneg : (iky.signed && y.msb) = true
    · simp [hneg, projV, Outcome.map]
    · have hn' : (iky.signed && y.msb) = false := by simpa using hneg
      have hc : (widen iky y).toNat = y.toNat := by
        rcases hcnt with h | ⟨h1, h2⟩
        · exact h
        · simp [h1, h2] at hn'
      simp only [hn', Bool.false_eq_true, if_false, projV, Outcome.map, hc, I.shl_eq]
      cases hs : ikx.signed
      · simp only [hs, ext, Bool.false_eq_true, if_false] at hshl
        simp [widen, hs, conv_false, hshl]
      · simp only [hs, ext, if_true] at hshl
        simp [widen, hs, conv_true hwx, hshl]
  · simp only [binary, fixedCfg, BinOp.isShift, Bool.and_self, if_true, GoSpec.binop, intShift, evalShift, hmsb, I.shiftCount,
      projV]
    by_cases hneg : (iky.signed && y.msb) = true
    · simp [hneg, projV, Outcome.map]
    · have hn' : (iky.signed && y.msb) = false := by simpa using hneg
      have hc : (widen iky y).toNat = y.toNat := by
        rcases hcnt with h | ⟨h1, h2⟩
        · exact h
        · simp [h1, h2] at hn'
      simp only [hn', Bool.false_eq_true, if_false, projV, Outcome.map, hc, I.shr_eq]
      cases hs : ikx.signed
      · simp [widen, hs, conv_false, hushr]
      · simp [widen, hs, conv_true hwx, hsshr]

end Classic
