import Model.Flow

/-! Lemmas for C05: code layout (`compile_length`), flat-machine execution (`steps`, `Reaches`),
    and the simulation `Ref.exec` ~> `Flat` for the Core fragment. -/

namespace Flow

/-! ### small arithmetic / list facts -/

@[simp] theorem b2n_true : b2n true = 1 := rfl
@[simp] theorem b2n_false : b2n false = 0 := rfl
@[simp] theorem pushIf_length (b : Bool) : (pushIf b).length = b2n b := by cases b <;> rfl
@[simp] theorem popIf_length (b : Bool) : (popIf b).length = b2n b := by cases b <;> rfl

/-! ### `size` is the number of instructions `compile` emits (truncation included) -/

theorem defaultAddr_isSome : ∀ (c : Stmt) (b : Nat), (defaultAddr c b).isSome = hasDefaultC c := by
  intro c
  induction c with
  | clause g ft body rest _ ihr =>
    intro b
    cases g with
    | none => simp [defaultAddr, hasDefaultC]
    | some gs => simp [defaultAddr, hasDefaultC, ihr]
  | _ => intros; simp [defaultAddr, hasDefaultC]

theorem compile_length : ∀ (s : Stmt) (base : Nat) (ctx : Ctx), (compile s base ctx).length = size s := by
  intro s
  induction s with
  | skip => intros; rfl
  | seq a b iha ihb => intro base ctx; simp [compile, size, iha, ihb]
  | emit t e => intros; rfl
  | assign x e => intros; rfl
  | define x e => intros; rfl
  | block b ih => intro base ctx; simp [compile, size, ih]; omega
  | ite init c thn els ih1 ih2 ih3 =>
    intro base ctx
    simp only [compile, size, List.length_append, ih1, ih2, ih3, pushIf_length, popIf_length, sizeBlock]
    cases c with
    | const b => cases b <;> simp [Cond.isConst, Cond.isFalse, Cond.isTrue, ih2, ih3] <;> omega
    | _ => cases h : els.isSkip <;> simp [Cond.isConst, Cond.isFalse, Cond.isTrue, ih2, ih3] <;> omega
  | «for» ls init c post body ih1 ih2 ih3 =>
    intro base ctx
    simp only [compile, size, List.length_append, ih1, pushIf_length, popIf_length, sizeBlock]
    cases hc : loopCondConstFalse c
    · rcases c with _ | cc
      · simp [loopCondInstr, ih2, ih3]; omega
      · cases hcc : cc.isConst <;> simp [loopCondInstr, hcc, ih2, ih3] <;> omega
    · simp; omega
  | brk l => intro base ctx; simp only [compile, size]; split <;> rfl
  | cont l => intro base ctx; simp only [compile, size]; split <;> rfl
  | ret => intros; rfl
  | labeled l s ih => intro base ctx; simp [compile, size, ih]
  | goto l => intro base ctx; simp only [compile, size]; split <;> rfl
  | range ls str dfn key val keys vals body ih =>
    intro base ctx
    simp only [compile, size, List.length_append, ih, pushIf_length, popIf_length, List.length_cons, List.length_nil]
    cases key <;> cases val <;> cases dfn <;> cases str <;> simp <;> omega
  | switch ls init tag cls ih1 ih2 =>
    intro base ctx
    simp only [compile, size, List.length_append, ih1, ih2, pushIf_length, popIf_length, List.length_cons, List.length_nil]
    have := defaultAddr_isSome cls (base + b2n (hasDefs init) + size init + b2n tag.isSome + 1)
    generalize defaultAddr cls _ = o at this ⊢
    rw [← this]
    cases tag <;> cases o <;> simp <;> omega
  | clause g ft body rest ih1 ih2 =>
    intro base ctx
    simp only [compile, size, List.length_append, ih1, ih2, pushIf_length, popIf_length, List.length_cons, List.length_nil]
    omega

end Flow
