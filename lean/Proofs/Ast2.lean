import Model.Ast2
/-! Lemmas for C22: the fold of `Set(i, Get(i))` over all indices, wrap/unwrap, list rebuild. -/
namespace Ast2

theorem Node.set_same (n : Node) (f : String) (v : Val) : (n.set f v) f = v := by
  simp [Node.set]

theorem Node.set_other (n : Node) (f g : String) (v : Val) (h : g ≠ f) : (n.set f v) g = n g := by
  simp [Node.set, h]

/-- unwrapping what `Get` wrapped gives the field value back (also for a wrapper around nil) -/
theorem unwrap_wrapVal (c : Ctx) (gty via : String) (g : Bool) (v : Val) :
    (wrapVal c gty via g v).unwrap = v := by
  unfold wrapVal
  by_cases h : v = .zero
  · subst h; by_cases h2 : nilSafe c gty via g = true <;> simp [h2, Ast.unwrap]
  · simp [h, Ast.unwrap]

theorem unwrapElem_wrapElem (c : Ctx) (ety via conv : String) (e : Elem) (hc : convOk ety conv = true) :
    unwrapElem ety conv (wrapElem c ety via e) = e := by
  cases e with
  | nil =>
    unfold wrapElem unwrapElem
    by_cases h2 : nilSafe c ety via false = true <;> simp [h2, hc, Ast.unwrap]
  | ref id => simp [wrapElem, unwrapElem, hc, Ast.unwrap]

/-! ### the inner fold: the writes of one Set arm -/

theorem lastWrite_cons (f : String) (a : Write) (rest : List Write) :
    lastWrite f (a :: rest) =
      match lastWrite f rest with
      | some r => some r
      | none => if a.field = f then some a else none := by
  rfl

theorem lastWriter_cons (f : String) (a : Arm) (rest : List Arm) :
    lastWriter f (a :: rest) =
      match lastWriter f rest with
      | some r => some r
      | none =>
        match a.set with
        | .writes ws =>
          match lastWrite f ws with
          | some w => some (a, w)
          | none => none
        | _ => none := by
  rfl

theorem lastWrite_field {f : String} {ws : List Write} {w : Write} (h : lastWrite f ws = some w) :
    w.field = f ∧ w ∈ ws := by
  induction ws with
  | nil => simp [lastWrite] at h
  | cons a rest ih =>
    rw [lastWrite_cons] at h
    cases hr : lastWrite f rest with
    | some r =>
      rw [hr] at h; simp at h; subst h
      exact ⟨(ih hr).1, List.mem_cons_of_mem _ (ih hr).2⟩
    | none =>
      rw [hr] at h; simp at h
      obtain ⟨h1, h2⟩ := h
      subst h2; exact ⟨h1, List.mem_cons_self⟩

theorem foldl_writes (F : Write → Val) (f : String) (ws : List Write) (m : Node) :
    (ws.foldl (fun m w => m.set w.field (F w)) m) f =
      match lastWrite f ws with
      | some w => F w
      | none => m f := by
  induction ws generalizing m with
  | nil => simp [lastWrite]
  | cons a rest ih =>
    simp only [List.foldl_cons]
    rw [ih, lastWrite_cons]
    cases hr : lastWrite f rest with
    | some r => simp
    | none =>
      by_cases hf : a.field = f
      · simp [hf, Node.set]
      · have : f ≠ a.field := fun h => hf h.symm
        simp [hf, Node.set, this]

/-! ### the outer fold over the arms -/

/-- value stored by write `wr` of arm `arm` when the arm is fed its own child -/
def armVal (c : Ctx) (sd : StructDef) (n : Node) (p : Arm × Write) : Val :=
  p.2.kind.eval (writeTy sd p.1.get p.2) (evalGet c sd p.1.get n)

theorem applySet_field (c : Ctx) (sd : StructDef) (n : Node) (arm : Arm) (m : Node) (f : String) :
    (applySet sd arm (evalGet c sd arm.get n) m) f =
      match (match arm.set with
             | .writes ws => (match lastWrite f ws with | some w => some (arm, w) | none => none)
             | _ => none) with
      | some p => armVal c sd n p
      | none => m f := by
  unfold applySet
  cases hs : arm.set with
  | writes ws =>
    simp only
    rw [foldl_writes (fun w => w.kind.eval (writeTy sd arm.get w) (evalGet c sd arm.get n))]
    cases lastWrite f ws <;> simp [armVal]
  | bad => simp
  | opq why => simp

theorem foldl_arms (c : Ctx) (sd : StructDef) (n : Node) (f : String) (arms : List Arm) (m : Node) :
    (arms.foldl (fun m arm => applySet sd arm (evalGet c sd arm.get n) m) m) f =
      match lastWriter f arms with
      | some p => armVal c sd n p
      | none => m f := by
  induction arms generalizing m with
  | nil => simp [lastWriter]
  | cons a rest ih =>
    simp only [List.foldl_cons]
    rw [ih, lastWriter_cons]
    cases hr : lastWriter f rest with
    | some r => simp
    | none =>
      simp only
      rw [applySet_field]

theorem lastWriter_mem {f : String} {arms : List Arm} {arm : Arm} {wr : Write}
    (h : lastWriter f arms = some (arm, wr)) :
    arm ∈ arms ∧ wr.field = f ∧ ∃ ws, arm.set = .writes ws ∧ wr ∈ ws := by
  induction arms with
  | nil => simp [lastWriter] at h
  | cons a rest ih =>
    rw [lastWriter_cons] at h
    cases hr : lastWriter f rest with
    | some r =>
      rw [hr] at h; simp at h; subst h
      obtain ⟨h1, h2, h3⟩ := ih hr
      exact ⟨List.mem_cons_of_mem _ h1, h2, h3⟩
    | none =>
      rw [hr] at h
      simp only at h
      cases hs : a.set with
      | writes ws =>
        rw [hs] at h
        simp only at h
        cases hw : lastWrite f ws with
        | none => rw [hw] at h; simp at h
        | some w =>
          rw [hw] at h; simp at h
          obtain ⟨h1, h2⟩ := h
          subst h1; subst h2
          exact ⟨List.mem_cons_self, (lastWrite_field hw).1, ws, hs, (lastWrite_field hw).2⟩
      | bad => rw [hs] at h; simp at h
      | opq why => rw [hs] at h; simp at h

theorem newNode_copied (w : Wrapper) (n : Node) (f : String) (h : copied w f = true) : newNode w n f = n f := by
  unfold copied at h
  unfold newNode
  have : w.newCopies.find? (·.1 == f) = some (f, f) := by simpa using h
  rw [this]

/-- a derived write found by `lastWriter` is one of the wrapper's derived pairs -/
theorem derived_mem {w : Wrapper} {f g via : String} {gd : Bool} {arm : Arm} {wr : Write} {cv : String}
    (h : lastWriter f w.arms = some (arm, wr)) (hg : arm.get = .read g via gd) (hk : wr.kind = .nonNil cv) :
    (f, g) ∈ derivedPairs w := by
  obtain ⟨h1, h2, ws, h3, h4⟩ := lastWriter_mem h
  unfold derivedPairs
  rw [List.mem_flatMap]
  refine ⟨arm, h1, ?_⟩
  rw [hg, h3]
  simp only [List.mem_filterMap]
  exact ⟨wr, h4, by rw [hk, h2]⟩

/-! ### fixed-size wrappers -/

theorem rebuildFixed_field (c : Ctx) (sd : StructDef) (w : Wrapper) (n : Node) (fd : FieldDef)
    (hok : fieldOk sd w fd = true) (hd : DerivedOK w n) :
    rebuildFixed c sd w n fd.name = n fd.name := by
  unfold rebuildFixed
  rw [foldl_arms]
  unfold fieldOk at hok
  simp only [Bool.and_eq_true] at hok
  obtain ⟨_, hok⟩ := hok
  cases hl : lastWriter fd.name w.arms with
  | none =>
    rw [hl] at hok
    exact newNode_copied w n fd.name hok
  | some p =>
    obtain ⟨arm, wr⟩ := p
    rw [hl] at hok
    simp only at hok
    have hmem := lastWriter_mem hl
    cases hg : arm.get with
    | read g via gd =>
      rw [hg] at hok
      cases hk : wr.kind with
      | conv cv =>
        rw [hk] at hok
        simp only [Bool.and_eq_true, beq_iff_eq] at hok
        obtain ⟨hgf, hcv⟩ := hok
        subst hgf
        simp only [armVal, hg, hk, writeTy, WriteKind.eval, evalGet, hmem.2.1, hcv, if_true]
        exact unwrap_wrapVal ..
      | nonNil cv =>
        rw [hk] at hok
        simp only [Bool.and_eq_true] at hok
        obtain ⟨_, hcv⟩ := hok
        have hp := hd (fd.name, g) (derived_mem hl hg hk)
        simp only at hp
        rw [hp]
        simp only [armVal, hg, hk, writeTy, WriteKind.eval, evalGet, hcv, if_true, unwrap_wrapVal, flagOf]
      | opq why => rw [hk] at hok; simp at hok
    | none_ => rw [hg] at hok; simp at hok
    | bad => rw [hg] at hok; simp at hok
    | opq why => rw [hg] at hok; simp at hok

/-! ### variable-length wrappers -/

def listShaped (v : Val) : Prop := v = .zero ∨ ∃ es, v = .list es

theorem rebuildList_equiv (c : Ctx) (ety gv sc ac : String) (v : Val) (hv : listShaped v)
    (hsc : convOk ety sc = true) (hac : convOk ety ac = true) :
    Val.equiv (rebuildList c ety gv sc ac v) v := by
  rcases hv with hv | ⟨es, hv⟩
  · subst hv; left; simp [rebuildList, Val.elems]
  · subst hv
    cases es with
    | nil => right; simp [rebuildList, Val.elems]
    | cons e rest =>
      left
      simp only [rebuildList, Val.elems, hac, if_true]
      congr 1
      have : ∀ l : List Elem, l.map (fun e => unwrapElem ety sc (wrapElem c ety gv e)) = l := by
        intro l
        induction l with
        | nil => rfl
        | cons a t ih => simp [List.map, unwrapElem_wrapElem c ety gv sc a hsc, ih]
      exact this (e :: rest)

theorem filter_map_nil {α β : Type} {p : α → Bool} {g : α → β} {l : List α}
    (h : (l.filter p).map g = []) : ∀ x ∈ l, p x = false := by
  intro x hx
  cases hp : p x with
  | false => rfl
  | true =>
    have : x ∈ l.filter p := List.mem_filter.mpr ⟨hx, hp⟩
    have h2 : l.filter p = [] := by simpa using h
    rw [h2] at this
    simp at this

end Ast2
