import Proofs.TypeId
/-! `Identical x y → IdenticalIgnoreTags x y`: the relation with `cmpTags = true` is finer. -/
namespace TypeId

mutual
theorem ident_tags : ∀ x y, ident true x y = true → ident false x y = true
  | .basic k, y, h => by
      cases y with
      | basic k' => simpa only [ident] using h
      | _ => simp [ident] at h
  | .array n e, y, h => by
      cases y with
      | array n' e' =>
          simp only [ident, Bool.and_eq_true] at *
          exact ⟨h.1, ident_tags e e' h.2⟩
      | _ => simp [ident] at h
  | .slice e, y, h => by
      cases y with
      | slice e' => simp only [ident] at *; exact ident_tags e e' h
      | _ => simp [ident] at h
  | .struct fs, y, h => by
      cases y with
      | struct gs => simp only [ident] at *; exact identFs_tags fs gs h
      | _ => simp [ident] at h
  | .pointer e, y, h => by
      cases y with
      | pointer e' => simp only [ident] at *; exact ident_tags e e' h
      | _ => simp [ident] at h
  | .tuple ts, y, h => by
      cases y with
      | tuple us => simp only [ident] at *; exact identL_tags ts us h
      | _ => simp [ident] at h
  | .sig v r ps rs, y, h => by
      cases y with
      | sig v' r' ps' rs' =>
          simp only [ident, Bool.and_eq_true] at *
          obtain ⟨⟨⟨a1, a2⟩, a3⟩, a4⟩ := h
          exact ⟨⟨⟨a1, identO_tags r r' a2⟩, identL_tags ps ps' a3⟩, identL_tags rs rs' a4⟩
      | _ => simp [ident] at h
  | .iface xa _ xe, y, h => by
      cases y with
      | iface ya _ ye =>
          simp only [ident, Bool.and_eq_true] at *
          exact ⟨identMs_tags xa ya h.1, h.2⟩
      | _ => simp [ident] at h
  | .map k e, y, h => by
      cases y with
      | map k' e' =>
          simp only [ident, Bool.and_eq_true] at *
          exact ⟨ident_tags k k' h.1, ident_tags e e' h.2⟩
      | _ => simp [ident] at h
  | .chan d e, y, h => by
      cases y with
      | chan d' e' =>
          simp only [ident, Bool.and_eq_true] at *
          exact ⟨h.1, ident_tags e e' h.2⟩
      | _ => simp [ident] at h
  | .named i, y, h => by
      cases y with
      | named j => simpa only [ident] using h
      | _ => simp [ident] at h
  | .nil, y, h => by
      cases y with
      | nil => simp [ident]
      | _ => simp [ident] at h
theorem identO_tags : ∀ x y, identO true x y = true → identO false x y = true
  | none, none, _ => by simp [identO]
  | none, some _, h => by simp [identO] at h
  | some _, none, h => by simp [identO] at h
  | some a, some b, h => by simp only [identO] at *; exact ident_tags a b h
theorem identL_tags : ∀ xs ys, identL true xs ys = true → identL false xs ys = true
  | [], [], _ => by simp [identL]
  | [], _ :: _, h => by simp [identL] at h
  | _ :: _, [], h => by simp [identL] at h
  | t :: ts, u :: us, h => by
      simp only [identL, Bool.and_eq_true] at *
      exact ⟨ident_tags t u h.1, identL_tags ts us h.2⟩
theorem identFs_tags : ∀ xs ys, identFs true xs ys = true → identFs false xs ys = true
  | [], [], _ => by simp [identFs]
  | [], _ :: _, h => by simp [identFs] at h
  | _ :: _, [], h => by simp [identFs] at h
  | .mk n p a tg t :: fs, .mk n' p' a' tg' t' :: gs, h => by
      simp only [identFs, Bool.and_eq_true] at *
      obtain ⟨⟨⟨⟨a1, _⟩, a3⟩, a4⟩, a5⟩ := h
      exact ⟨⟨⟨⟨a1, by simp⟩, a3⟩, ident_tags t t' a4⟩, identFs_tags fs gs a5⟩
theorem identMs_tags : ∀ xs ys, identMs true xs ys = true → identMs false xs ys = true
  | [], [], _ => by simp [identMs]
  | [], _ :: _, h => by simp [identMs] at h
  | _ :: _, [], h => by simp [identMs] at h
  | .mk n p v r ps rs :: ms, .mk n' p' v' r' ps' rs' :: ms', h => by
      simp only [identMs, Bool.and_eq_true] at *
      obtain ⟨⟨⟨⟨⟨a1, a2⟩, a3⟩, a4⟩, a5⟩, a6⟩ := h
      exact ⟨⟨⟨⟨⟨a1, a2⟩, identRv_tags r r' a3⟩, identL_tags ps ps' a4⟩, identL_tags rs rs' a5⟩, identMs_tags ms ms' a6⟩
theorem identRv_tags : ∀ x y, identRv true x y = true → identRv false x y = true
  | .none, y, h => by cases y <;> simp_all [identRv]
  | .self, y, h => by cases y <;> simp_all [identRv]
  | .ty a, y, h => by
      cases y with
      | ty b => simp only [identRv] at *; exact ident_tags a b h
      | _ => simp [identRv] at h
end

end TypeId
