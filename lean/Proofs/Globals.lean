import Model.Globals
/-!
Helper lemmas for Props/C14.lean (and Props/C15.lean): frames of the primitives of Model/Globals.lean.
-/
namespace Globals

/-! ## arithmetic and arrays -/

theorem growCap_ge (cap min delta : Nat) : min ≤ growCap cap min delta := by
  unfold growCap
  simp only []
  split <;> split <;> omega

theorem mod_glue (m w a : Nat) : (w - w % m + a % m) % m = a % m := by
  have h := Nat.div_add_mod w m
  have h2 : w - w % m = m * (w / m) := by omega
  rw [h2, Nat.mul_add_mod, Nat.mod_mod]

theorem getD_set (a : Array Nat) (i j v : Nat) :
    (a.setIfInBounds i v).getD j 0 = if i = j ∧ i < a.size then v else a.getD j 0 := by
  simp only [Array.getD_eq_getD_getElem?, Array.getElem?_setIfInBounds]
  by_cases h : i = j
  · subst h
    by_cases h2 : i < a.size
    · simp [h2]
    · simp [h2, Array.getElem?_eq_none (Nat.le_of_not_lt h2)]
  · simp [h]

theorem putWord_size (a : Array Nat) (i m v : Nat) : (putWord a i m v).size = a.size := by
  simp [putWord]

theorem putWord_same (a : Array Nat) (i m v : Nat) (h : i < a.size) :
    (putWord a i m v).getD i 0 % m = v % m := by
  simp only [putWord, getD_set, h, and_self, if_true]
  exact mod_glue m _ v

theorem putWord_ne (a : Array Nat) (i j m v : Nat) (h : i ≠ j) :
    (putWord a i m v).getD j 0 = a.getD j 0 := by
  simp [putWord, getD_set, h]

theorem growInts_size (a : Array Nat) (len cap : Nat) : (growInts a len cap).size = cap := by
  simp [growInts]

theorem growInts_get (a : Array Nat) (len cap i : Nat) (h1 : i < len) (h2 : i < cap) :
    (growInts a len cap).getD i 0 = a.getD i 0 := by
  simp [growInts, Array.getD_eq_getD_getElem?, Array.getElem?_ofFn, h1, h2]

theorem growVals_size (a : Array (Option Nat)) (n : Nat) : (growVals a n).size = n := by
  simp [growVals]

theorem growVals_get (a : Array (Option Nat)) (n i : Nat) (h : i < n) :
    (growVals a n).getD i none = a.getD i none := by
  simp [growVals, Array.getD_eq_getD_getElem?, Array.getElem?_ofFn, h]

/-! ## prepareEnv -/

theorem prepareVals_frame (c : Comp) (e : Env) :
    (prepareVals c e).ints = e.ints ∧ (prepareVals c e).intsLen = e.intsLen ∧ (prepareVals c e).gen = e.gen ∧
    (prepareVals c e).taken = e.taken ∧ (prepareVals c e).boxes = e.boxes := by
  simp [prepareVals]

theorem prepareVals_size (c : Comp) (e : Env) :
    c.bindNum ≤ (prepareVals c e).vals.size ∧ e.vals.size ≤ (prepareVals c e).vals.size := by
  unfold prepareVals
  simp only []
  split
  · simp [growVals_size]; omega
  · omega

theorem prepareVals_get (c : Comp) (e : Env) (i : Nat) (h : i < e.vals.size) :
    (prepareVals c e).vals.getD i none = e.vals.getD i none := by
  by_cases hc : e.vals.size < c.bindNum
  · have : (prepareVals c e).vals = growVals e.vals c.bindNum := by simp [prepareVals, hc]
    rw [this]; exact growVals_get _ _ _ (by omega)
  · have : (prepareVals c e).vals = e.vals := by simp [prepareVals, hc]
    rw [this]

/-- everything prepareEnv leaves alone -/
theorem prepareEnv_frame (c : Comp) (e : Env) :
    (prepareEnv c e).1.binds = c.binds ∧ (prepareEnv c e).1.bindNum = c.bindNum ∧
    (prepareEnv c e).1.intBindNum = c.intBindNum ∧
    (prepareEnv c e).2.1.taken = e.taken ∧ (prepareEnv c e).2.1.boxes = e.boxes ∧
    (prepareEnv c e).2.1.vals = (prepareVals c e).vals := by
  unfold prepareEnv
  simp only [(prepareVals_frame c e)]
  split
  · split <;> simp [prepareVals_frame]
  · split <;> split <;> simp [prepareVals_frame]

/-- no reallocation when the slots fit -/
theorem prepareEnv_fits (c : Comp) (e : Env) (h : c.intBindNum ≤ e.ints.size) :
    (prepareEnv c e).2.2 = true ∧ (prepareEnv c e).2.1.gen = e.gen ∧ (prepareEnv c e).2.1.ints = e.ints ∧
    c.intBindNum ≤ (prepareEnv c e).2.1.intsLen ∧ e.intsLen ≤ (prepareEnv c e).2.1.intsLen ∧
    ((prepareEnv c e).2.1.intsLen = e.intsLen ∨ (prepareEnv c e).2.1.intsLen = c.intBindNum) ∧
    (prepareEnv c e).1.intBindMax = (if e.taken then e.ints.size else c.intBindMax) := by
  unfold prepareEnv
  have hf := prepareVals_frame c e
  simp only [hf]
  rw [if_neg (by omega)]
  split <;> split <;> simp_all [prepareVals_frame] <;> omega

/-- reallocation (only when no address was taken): new identity, contents copied -/
theorem prepareEnv_grows (c : Comp) (e : Env) (h : e.ints.size < c.intBindNum) (ht : e.taken = false) :
    (prepareEnv c e).2.2 = true ∧ (prepareEnv c e).2.1.gen = e.gen + 1 ∧
    c.intBindNum ≤ (prepareEnv c e).2.1.ints.size ∧ (prepareEnv c e).2.1.intsLen = c.intBindNum ∧
    (prepareEnv c e).1.intBindMax = c.intBindMax ∧
    (∀ i, i < e.intsLen → i < c.intBindNum → (prepareEnv c e).2.1.ints.getD i 0 = e.ints.getD i 0) := by
  unfold prepareEnv
  have hf := prepareVals_frame c e
  simp only [hf]
  rw [if_pos h]
  simp only [ht]
  have hg := growCap_ge e.ints.size c.intBindNum 1024
  refine ⟨rfl, rfl, ?_, rfl, rfl, ?_⟩
  · simp [growInts_size]; exact hg
  · intro i h1 h2
    exact growInts_get _ _ _ _ h1 (by omega)

theorem prepareEnv_fails (c : Comp) (e : Env) (h : (prepareEnv c e).2.2 = false) :
    e.ints.size < c.intBindNum ∧ e.taken = true := by
  by_cases h1 : c.intBindNum ≤ e.ints.size
  · have := (prepareEnv_fits c e h1).1; simp_all
  · by_cases ht : e.taken = true
    · exact ⟨by omega, ht⟩
    · have := (prepareEnv_grows c e (by omega) (by simpa using ht)).1; simp_all

/-! ## run-time primitives only touch contents -/

/-- sizes, identity and the flag (monotonically) are kept -/
def EFrame (e e' : Env) : Prop :=
  e'.ints.size = e.ints.size ∧ e'.intsLen = e.intsLen ∧ e'.vals.size = e.vals.size ∧ e'.gen = e.gen ∧
  e'.valsCap = e.valsCap ∧ (e.taken = true → e'.taken = true) ∧ e.boxes.size ≤ e'.boxes.size

theorem EFrame.refl (e : Env) : EFrame e e := by simp [EFrame]

theorem EFrame.trans {a b c : Env} (h1 : EFrame a b) (h2 : EFrame b c) : EFrame a c := by
  simp only [EFrame] at *
  refine ⟨by omega, by omega, by omega, by omega, by omega, fun h => h2.2.2.2.2.2.1 (h1.2.2.2.2.2.1 h), by omega⟩

theorem storeSlot_frame {e e' : Env} {i : Nat} {k : K} {v : SV} (h : storeSlot e i k v = .ok e') :
    EFrame e e' ∧ e'.taken = e.taken ∧ e'.vals = e.vals ∧ e'.boxes = e.boxes := by
  unfold storeSlot at h
  split at h
  · split at h
    · split at h
      · cases h; simp [EFrame, putWord_size]
      · cases h
    · split at h
      · cases h; simp [EFrame, putWord_size]
      · cases h
  · cases h

theorem store_frame {e e' : Env} {l : Loc} {k : K} {v : SV} (h : store e l k v = .ok e') :
    EFrame e e' ∧ e'.taken = e.taken ∧ e'.vals = e.vals := by
  unfold store at h
  split at h
  · split at h
    · have := storeSlot_frame h; exact ⟨this.1, this.2.1, this.2.2.1⟩
    · cases h
  · split at h
    · cases h; simp [EFrame]
    · cases h

theorem newBox_frame {e e' : Env} {i : Nat} {v : SV} (h : newBox e i v = .ok e') :
    EFrame e e' ∧ e'.taken = e.taken ∧ e'.ints = e.ints := by
  unfold newBox at h
  split at h
  · cases h; simp [EFrame]
  · cases h

theorem runAssign_frame (s : St) (l : Loc) (k : K) (o : Op) (r : Rhs) :
    (runAssign s l k o r).1.c = s.c ∧ EFrame s.e (runAssign s l k o r).1.e ∧
    (runAssign s l k o r).1.e.taken = s.e.taken ∧ (runAssign s l k o r).2 ≠ .ierr ∧
    (runAssign s l k o r).1.ptab = s.ptab ∧ (runAssign s l k o r).1.nvid = s.nvid := by
  unfold runAssign
  split
  · simp [EFrame.refl]
  · simp [EFrame.refl]
  · split
    · split
      · rename_i e' he; have := store_frame he; simp [this.1, this.2.1]
      · simp [EFrame.refl]
      · simp [EFrame.refl]
    · split
      · simp [EFrame.refl]
      · simp [EFrame.refl]
      · split
        · simp [EFrame.refl]
        · split
          · rename_i e' he; have := store_frame he; simp [this.1, this.2.1]
          · simp [EFrame.refl]
          · simp [EFrame.refl]

theorem runRead_frame (s : St) (l : Loc) (k : K) : (runRead s l k).1 = s ∧ (runRead s l k).2 ≠ .ierr := by
  unfold runRead; split <;> simp

theorem runDecl_frame (s : St) (b : Bind) (k : K) (init : Option SV) :
    (runDecl s b k init).1.c = s.c ∧ EFrame s.e (runDecl s b k init).1.e ∧
    (runDecl s b k init).1.e.taken = s.e.taken ∧ (runDecl s b k init).2 ≠ .ierr ∧
    (runDecl s b k init).1.ptab = s.ptab ∧ (runDecl s b k init).1.nvid = s.nvid := by
  unfold runDecl
  split
  · split
    · rename_i e' he; have := storeSlot_frame he; simp [this.1, this.2.1]
    · simp [EFrame.refl]
  · split
    · rename_i e' he; have := newBox_frame he; simp [this.1, this.2.1]
    · simp [EFrame.refl]

theorem runAddr_frame (s : St) (tb b : Bind) (p : Nat) (k : K) :
    (runAddr s tb b p k).1.c = s.c ∧ EFrame s.e (runAddr s tb b p k).1.e ∧
    ((runAddr s tb b p k).1.e.taken = true → s.e.taken = true ∨ tb.cls = .intb) ∧
    (runAddr s tb b p k).2 ≠ .ierr ∧ (runAddr s tb b p k).1.nvid = s.nvid := by
  unfold runAddr
  have h3 : EFrame s.e (takeAddr s.e tb) := by
    unfold takeAddr; split <;> simp [EFrame]
  have h4 : (takeAddr s.e tb).taken = true → s.e.taken = true ∨ tb.cls = .intb := by
    unfold takeAddr; split <;> simp_all
  split
  · exact ⟨rfl, h3, h4, by simp, rfl⟩
  · split
    · rename_i e4 he
      have := newBox_frame he
      refine ⟨rfl, h3.trans this.1, ?_, by simp, rfl⟩
      intro ht; simp only at ht; rw [this.2.1] at ht; exact h4 ht
    · exact ⟨rfl, h3, h4, by simp, rfl⟩

/-! ## the bind table -/

theorem findBind_cons (n m : Nat) (b : Bind) (bs : List (Nat × Bind)) :
    findBind ((n, b) :: bs) m = if m = n then some b else findBind bs m := by
  simp only [findBind, List.lookup_cons]
  by_cases h : m = n
  · simp [h]
  · have : (m == n) = false := by simp [h]
    simp [this, h]

theorem Ty.slots_pos (t : Ty) : 1 ≤ t.slots ∧ t.slots ≤ 2 := by
  unfold Ty.slots; split <;> omega

theorem cls_cases (c : Class) : c = .intb ∨ c = .varb := by cases c <;> simp

theorem chooseClass_intb_fixed {c : Comp} {t : Ty} (h : chooseClass Cfg.fixed c t = .intb) :
    t.intLike = true ∧ (c.intBindMax = 0 ∨ c.intBindNum + t.slots ≤ c.intBindMax) := by
  unfold chooseClass at h
  simp only [Cfg.fixed, if_true] at h
  split at h
  · rename_i hc; exact ⟨hc.2, hc.1⟩
  · cases h

theorem reuseIdx_some {cfg : Cfg} {c : Comp} {n : Nat} {cls : Class} {t : Ty} {i : Nat}
    (h : reuseIdx cfg c n cls t = some i) :
    ∃ old, findBind c.binds n = some old ∧ old.idx = i ∧ ((old.cls = .intb) ↔ (cls = .intb)) ∧
      t.slots ≤ old.ty.slots ∧ ¬ (cfg.reuseGuard = true ∧ cls = .intb ∧ c.intBindMax ≠ 0) := by
  unfold reuseIdx at h
  split at h
  · cases h
  · rename_i old hold
    refine ⟨old, hold, ?_⟩
    split at h
    · rename_i hc
      split at h
      · cases h
      · rename_i hg
        split at h
        · rename_i hs
          cases h
          refine ⟨rfl, by rw [hc], ?_, hg⟩
          unfold Ty.slots
          rcases hs with hs | hs
          · simp [hs]; split <;> omega
          · simp [hs]; split <;> omega
        · cases h
    · cases h

theorem newBind_cases (cfg : Cfg) (c : Comp) (n : Nat) (t : Ty) (v : Nat) :
    (reuseIdx cfg c n (chooseClass cfg c t) t = none ∧ chooseClass cfg c t = .intb ∧
      newBind cfg c n t v = ({ c with binds := (n, ⟨.intb, t, c.intBindNum, v⟩) :: c.binds,
                                      intBindNum := c.intBindNum + t.slots }, ⟨.intb, t, c.intBindNum, v⟩)) ∨
    (reuseIdx cfg c n (chooseClass cfg c t) t = none ∧ chooseClass cfg c t = .varb ∧
      newBind cfg c n t v = ({ c with binds := (n, ⟨.varb, t, c.bindNum, v⟩) :: c.binds,
                                      bindNum := c.bindNum + 1 }, ⟨.varb, t, c.bindNum, v⟩)) ∨
    (∃ i, reuseIdx cfg c n (chooseClass cfg c t) t = some i ∧
      newBind cfg c n t v = ({ c with binds := (n, ⟨chooseClass cfg c t, t, i, v⟩) :: c.binds },
                             ⟨chooseClass cfg c t, t, i, v⟩)) := by
  simp only [newBind]
  cases hr : reuseIdx cfg c n (chooseClass cfg c t) t with
  | some i => right; right; exact ⟨i, rfl, by simp⟩
  | none =>
    cases hc : chooseClass cfg c t with
    | intb => left; simp
    | varb => right; left; simp

/-- compile-time invariant of the bind table: every live bind is inside the allocated range of its
    array and two different names never share storage -/
structure CInv (c : Comp) : Prop where
  bInt : ∀ n b, findBind c.binds n = some b → b.cls = .intb → b.idx + b.ty.slots ≤ c.intBindNum
  bVar : ∀ n b, findBind c.binds n = some b → b.cls = .varb → b.idx < c.bindNum
  disj : ∀ n m b b', n ≠ m → findBind c.binds n = some b → findBind c.binds m = some b' → b.cls = b'.cls →
    (b.cls = .intb → b.idx + b.ty.slots ≤ b'.idx ∨ b'.idx + b'.ty.slots ≤ b.idx) ∧ (b.cls = .varb → b.idx ≠ b'.idx)

theorem CInv_init : CInv St.init.c := by
  constructor <;> intro n <;> simp [St.init, findBind]

theorem newBind_CInv (cfg : Cfg) (c : Comp) (n : Nat) (t : Ty) (v : Nat) (h : CInv c) :
    CInv (newBind cfg c n t v).1 := by
  have hs := Ty.slots_pos t
  rcases newBind_cases cfg c n t v with ⟨_, _, he⟩ | ⟨_, _, he⟩ | ⟨i, hr, he⟩
  · rw [he]
    constructor
    · intro m b hb hc
      simp only [findBind_cons] at hb
      split at hb
      · cases hb; simp
      · have := h.bInt m b hb hc; simp; omega
    · intro m b hb hc
      simp only [findBind_cons] at hb
      split at hb
      · cases hb; cases hc
      · exact h.bVar m b hb hc
    · intro m m' b b' hne hb hb' hcc
      simp only [findBind_cons] at hb hb'
      split at hb
      · cases hb
        split at hb'
        · omega
        · have := h.bInt m' b' hb' (by rw [← hcc])
          exact ⟨fun _ => Or.inr (by simpa using this), fun hx => (by cases hx)⟩
      · split at hb'
        · cases hb'
          have := h.bInt m b hb (by rw [hcc])
          exact ⟨fun _ => Or.inl (by simpa using this), fun hx => (by rw [hcc] at hx; cases hx)⟩
        · exact h.disj m m' b b' hne hb hb' hcc
  · rw [he]
    constructor
    · intro m b hb hc
      simp only [findBind_cons] at hb
      split at hb
      · cases hb; cases hc
      · exact h.bInt m b hb hc
    · intro m b hb hc
      simp only [findBind_cons] at hb
      split at hb
      · cases hb; simp
      · have := h.bVar m b hb hc; simp; omega
    · intro m m' b b' hne hb hb' hcc
      simp only [findBind_cons] at hb hb'
      split at hb
      · cases hb
        split at hb'
        · omega
        · have := h.bVar m' b' hb' (by rw [← hcc])
          exact ⟨fun hx => (by cases hx), fun _ => by simp at this ⊢; omega⟩
      · split at hb'
        · cases hb'
          have := h.bVar m b hb (by rw [hcc])
          exact ⟨fun hx => (by rw [hcc] at hx; cases hx), fun _ => by simp at this ⊢; omega⟩
        · exact h.disj m m' b b' hne hb hb' hcc
  · obtain ⟨old, hold, hidx, hcls, hsl, _⟩ := reuseIdx_some hr
    rw [he]
    subst hidx
    constructor
    · intro m b hb hc
      simp only [findBind_cons] at hb
      split at hb
      · cases hb
        have := h.bInt n old hold (hcls.2 hc)
        simp; omega
      · exact h.bInt m b hb hc
    · intro m b hb hc
      simp only [findBind_cons] at hb
      split at hb
      · cases hb
        have hov : old.cls = .varb := by
          rcases cls_cases old.cls with ho | ho
          · have := hcls.1 ho; simp only at hc; rw [this] at hc; cases hc
          · exact ho
        exact h.bVar n old hold hov
      · exact h.bVar m b hb hc
    · intro m m' b b' hne hb hb' hcc
      simp only [findBind_cons] at hb hb'
      split at hb
      · rename_i hm
        cases hb
        split at hb'
        · omega
        · simp only at hcc
          have hoc : old.cls = b'.cls := by
            rcases cls_cases old.cls with ho | ho
            · rw [ho, ← hcc, hcls.1 ho]
            · rcases cls_cases (chooseClass cfg c t) with hx | hx
              · have := hcls.2 hx; rw [this] at ho; cases ho
              · rw [ho, ← hcc, hx]
          have := h.disj n m' old b' (by omega) hold hb' hoc
          refine ⟨fun hx => ?_, fun hx => ?_⟩
          · have := this.1 (hcls.2 hx); simp; omega
          · simp only at hx
            have hov : old.cls = .varb := by rw [hoc, ← hcc, hx]
            simpa using this.2 hov
      · split at hb'
        · cases hb'
          simp only at hcc
          have hoc : b.cls = old.cls := by
            rcases cls_cases old.cls with ho | ho
            · rw [ho, hcc, hcls.1 ho]
            · rcases cls_cases (chooseClass cfg c t) with hx | hx
              · have := hcls.2 hx; rw [this] at ho; cases ho
              · rw [ho, hcc, hx]
          have := h.disj m n b old (by omega) hb hold hoc
          refine ⟨fun hx => ?_, fun hx => ?_⟩
          · have := this.1 hx; simp; omega
          · simpa using this.2 hx
        · exact h.disj m m' b b' hne hb hb' hcc

/-! ## one evaluation keeps the allocation invariant (repaired code) -/

/-- between two evaluations: the bind table is sound, both arrays are long enough for it, and an
    address can only have been taken when env.Ints is non-empty -/
structure AInv (s : St) : Prop where
  cinv : CInv s.c
  fits : s.c.intBindNum ≤ s.e.ints.size
  lenI : s.c.intBindNum ≤ s.e.intsLen
  lenV : s.c.bindNum ≤ s.e.vals.size
  takenPos : s.e.taken = true → 0 < s.e.ints.size

theorem AInv_init : AInv St.init := by
  refine ⟨CInv_init, ?_, ?_, ?_, ?_⟩ <;> simp [St.init, Env.init]

theorem pre_facts (s : St) :
    (pre Cfg.fixed s).e = s.e ∧ (pre Cfg.fixed s).c.binds = s.c.binds ∧ (pre Cfg.fixed s).c.bindNum = s.c.bindNum ∧
    (pre Cfg.fixed s).c.intBindNum = s.c.intBindNum ∧ (pre Cfg.fixed s).ptab = s.ptab ∧ (pre Cfg.fixed s).nvid = s.nvid ∧
    (s.e.taken = true → (pre Cfg.fixed s).c.intBindMax = s.e.ints.size) ∧
    (s.e.taken = false → (pre Cfg.fixed s).c.intBindMax = s.c.intBindMax) := by
  unfold pre updateIntBindMax
  simp only [Cfg.fixed, true_and]
  split <;> simp_all

theorem CInv_congr {c c' : Comp} (h : CInv c) (hb : c'.binds = c.binds) (h1 : c'.bindNum = c.bindNum)
    (h2 : c'.intBindNum = c.intBindNum) : CInv c' := by
  constructor
  · intro n b; rw [hb, h2]; exact h.bInt n b
  · intro n b; rw [hb, h1]; exact h.bVar n b
  · intro n m b b'; rw [hb]; exact h.disj n m b b'

theorem newBind_fits (c : Comp) (n : Nat) (t : Ty) (v M : Nat) (hM : c.intBindMax = M) (hpos : 0 < M)
    (h : c.intBindNum ≤ M) : (newBind Cfg.fixed c n t v).1.intBindNum ≤ M := by
  rcases newBind_cases Cfg.fixed c n t v with ⟨_, hc, he⟩ | ⟨_, _, he⟩ | ⟨i, _, he⟩
  · rw [he]
    rcases (chooseClass_intb_fixed hc).2 with h0 | h1
    · omega
    · simp; omega
  · rw [he]; exact h
  · rw [he]; exact h

theorem newBind_mono (cfg : Cfg) (c : Comp) (n : Nat) (t : Ty) (v : Nat) :
    c.intBindNum ≤ (newBind cfg c n t v).1.intBindNum ∧ c.bindNum ≤ (newBind cfg c n t v).1.bindNum ∧
    (newBind cfg c n t v).1.intBindMax = c.intBindMax ∧
    (newBind cfg c n t v).1.binds = (n, (newBind cfg c n t v).2) :: c.binds ∧
    (newBind cfg c n t v).2.ty = t ∧ (newBind cfg c n t v).2.vid = v := by
  rcases newBind_cases cfg c n t v with ⟨_, _, he⟩ | ⟨_, _, he⟩ | ⟨i, _, he⟩ <;> rw [he] <;> simp

/-- prepareEnv succeeds whenever an address-taken env.Ints is large enough, and re-establishes the
    size half of the invariant -/
theorem prep_good (s : St) (hfit : s.e.taken = true → s.c.intBindNum ≤ s.e.ints.size) :
    (prep s).2 = true ∧ (prep s).1.c.intBindNum ≤ (prep s).1.e.ints.size ∧
    (prep s).1.c.intBindNum ≤ (prep s).1.e.intsLen ∧ (prep s).1.c.bindNum ≤ (prep s).1.e.vals.size ∧
    (prep s).1.e.taken = s.e.taken ∧ (prep s).1.c.binds = s.c.binds ∧ (prep s).1.c.bindNum = s.c.bindNum ∧
    (prep s).1.c.intBindNum = s.c.intBindNum ∧ (prep s).1.ptab = s.ptab ∧ (prep s).1.nvid = s.nvid ∧
    (prep s).1.e.boxes = s.e.boxes ∧ s.e.ints.size ≤ (prep s).1.e.ints.size ∧
    (s.c.intBindNum ≤ s.e.ints.size → (prep s).1.e.gen = s.e.gen ∧ (prep s).1.e.ints = s.e.ints) := by
  unfold prep
  have hf := prepareEnv_frame s.c s.e
  have hv := prepareVals_size s.c s.e
  simp only []
  by_cases h1 : s.c.intBindNum ≤ s.e.ints.size
  · have := prepareEnv_fits s.c s.e h1
    refine ⟨this.1, ?_, ?_, ?_, hf.2.2.2.1, hf.1, hf.2.1, hf.2.2.1, trivial, trivial, hf.2.2.2.2.1, ?_, fun _ => ⟨this.2.1, this.2.2.1⟩⟩
    · rw [hf.2.2.1, this.2.2.1]; exact h1
    · rw [hf.2.2.1]; exact this.2.2.2.1
    · rw [hf.2.1, hf.2.2.2.2.2]; exact hv.1
    · rw [this.2.2.1]; exact Nat.le_refl _
  · have ht : s.e.taken = false := by
      cases h : s.e.taken with
      | false => rfl
      | true => exact absurd (hfit h) h1
    have := prepareEnv_grows s.c s.e (by omega) ht
    refine ⟨this.1, ?_, ?_, ?_, hf.2.2.2.1, hf.1, hf.2.1, hf.2.2.1, trivial, trivial, hf.2.2.2.2.1, ?_, fun h => absurd h h1⟩
    · rw [hf.2.2.1]; exact this.2.2.1
    · rw [hf.2.2.1, this.2.2.2.1]; exact Nat.le_refl _
    · rw [hf.2.1, hf.2.2.2.2.2]; exact hv.1
    · omega

theorem AInv_pre {s : St} (h : AInv s) : AInv (pre Cfg.fixed s) := by
  have hp := pre_facts s
  refine ⟨CInv_congr h.cinv hp.2.1 hp.2.2.1 hp.2.2.2.1, ?_, ?_, ?_, ?_⟩
  · rw [hp.1, hp.2.2.2.1]; exact h.fits
  · rw [hp.1, hp.2.2.2.1]; exact h.lenI
  · rw [hp.1, hp.2.2.1]; exact h.lenV
  · rw [hp.1]; exact h.takenPos

/-- a run phase (contents only) keeps the invariant -/
theorem AInv_of_run {s s' : St} (h : AInv s) (hc : s'.c = s.c) (hf : EFrame s.e s'.e)
    (ht : s'.e.taken = true → s.e.taken = true ∨ 0 < s.e.ints.size) : AInv s' := by
  obtain ⟨h1, h2, h3, _, _, _, _⟩ := hf
  refine ⟨by rw [hc]; exact h.cinv, ?_, ?_, ?_, ?_⟩
  · rw [hc, h1]; exact h.fits
  · rw [hc, h2]; exact h.lenI
  · rw [hc, h3]; exact h.lenV
  · intro htk
    rw [h1]
    rcases ht htk with h' | h'
    · exact h.takenPos h'
    · exact h'

/-- prepareEnv without a new declaration: nothing is reallocated -/
theorem plain_prep {s : St} (h : AInv s) :
    (prep s).2 = true ∧ AInv (prep s).1 ∧ (prep s).1.e.taken = s.e.taken ∧ (prep s).1.e.gen = s.e.gen ∧
    (prep s).1.c.binds = s.c.binds ∧ (prep s).1.ptab = s.ptab := by
  have hg := prep_good s (fun _ => h.fits)
  obtain ⟨g1, g2, g3, g4, g5, g6, g7, g8, g9, g10, g11, g12, g13⟩ := hg
  have hsame := g13 h.fits
  refine ⟨g1, ⟨CInv_congr h.cinv g6 g7 g8, g2, g3, g4, ?_⟩, g5, hsame.1, g6, g9⟩
  rw [g5, hsame.2]; exact h.takenPos

/-- compile of one declaration followed by prepareEnv (repaired code): never the internal error,
    and no reallocation once an address was taken -/
theorem compile_prep {s : St} (h : AInv s) (n : Nat) (t : Ty) :
    let s0 := pre Cfg.fixed s
    let nb := newBind Cfg.fixed s0.c n t s0.nvid
    let r := prep { s0 with c := nb.1, nvid := s0.nvid + 1 }
    r.2 = true ∧ AInv r.1 ∧ r.1.e.taken = s.e.taken ∧ (s.e.taken = true → r.1.e.gen = s.e.gen) ∧
    r.1.c.binds = (n, nb.2) :: s.c.binds ∧ r.1.ptab = s.ptab ∧ s.c.intBindNum ≤ r.1.c.intBindNum := by
  intro s0 nb r
  have hp := pre_facts s
  have h0 : AInv s0 := AInv_pre h
  have hm := newBind_mono Cfg.fixed s0.c n t s0.nvid
  have hfit : s.e.taken = true → nb.1.intBindNum ≤ s.e.ints.size := by
    intro ht
    exact newBind_fits s0.c n t s0.nvid s.e.ints.size (hp.2.2.2.2.2.2.1 ht) (h.takenPos ht)
      (by rw [hp.2.2.2.1]; exact h.fits)
  have hg := prep_good { s0 with c := nb.1, nvid := s0.nvid + 1 } (by
    intro ht; simp only at ht ⊢; rw [hp.1] at ht ⊢; exact hfit ht)
  obtain ⟨g1, g2, g3, g4, g5, g6, g7, g8, g9, g10, g11, g12, g13⟩ := hg
  simp only at g5 g6 g7 g8 g9 g10 g11 g12 g13
  have hc1 : CInv nb.1 := newBind_CInv Cfg.fixed s0.c n t s0.nvid h0.cinv
  refine ⟨g1, ⟨CInv_congr hc1 g6 g7 g8, g2, g3, g4, ?_⟩, ?_, ?_, ?_, ?_, ?_⟩
  · intro ht
    rw [g5, hp.1] at ht
    have := h.takenPos ht
    rw [hp.1] at g12
    exact Nat.lt_of_lt_of_le this g12
  · rw [g5, hp.1]
  · intro ht
    have := g13 (by rw [hp.1]; exact hfit ht)
    rw [this.1, hp.1]
  · rw [g6, hm.2.2.2.1, hp.2.1]
  · rw [g9, hp.2.2.2.2.1]
  · rw [g8, ← hp.2.2.2.1]; exact hm.1

theorem scalarBind_find {c : Comp} {n : Nat} {b : Bind} {k : K} (h : scalarBind c n = some (b, k)) :
    findBind c.binds (vkey n) = some b ∧ b.ty = .sc k := by
  unfold scalarBind at h
  split at h
  · rename_i b' hb
    split at h
    · rename_i k' hk; cases h; exact ⟨hb, hk⟩
    · cases h
  · cases h

theorem declared_prep {s : St} (h : AInv s) (key : Nat) (k : K) :
    (prep (declared Cfg.fixed s key k)).2 = true ∧ AInv (prep (declared Cfg.fixed s key k)).1 ∧
    (prep (declared Cfg.fixed s key k)).1.e.taken = s.e.taken ∧
    (s.e.taken = true → (prep (declared Cfg.fixed s key k)).1.e.gen = s.e.gen) ∧
    (prep (declared Cfg.fixed s key k)).1.c.binds =
      (key, (newBind Cfg.fixed (pre Cfg.fixed s).c key (.ptr k) (pre Cfg.fixed s).nvid).2) :: s.c.binds ∧
    (prep (declared Cfg.fixed s key k)).1.ptab = s.ptab ∧
    s.c.intBindNum ≤ (prep (declared Cfg.fixed s key k)).1.c.intBindNum := by
  have := compile_prep h key (.ptr k)
  simpa [declared] using this

theorem stepAddr_AInv (s : St) (p name : Nat) (h : AInv s) :
    AInv (stepAddr Cfg.fixed s p name).1 ∧ (stepAddr Cfg.fixed s p name).2 ≠ .ierr ∧
    (s.e.taken = true → (stepAddr Cfg.fixed s p name).1.e.gen = s.e.gen ∧ (stepAddr Cfg.fixed s p name).1.e.taken = true) := by
  have hp := pre_facts s
  have h0 : AInv (pre Cfg.fixed s) := AInv_pre h
  unfold stepAddr
  split
  · exact ⟨h0, by simp, fun ht => ⟨by rw [hp.1], by rw [hp.1]; exact ht⟩⟩
  · rename_i tb k hsb
    obtain ⟨c1, c2, c3, c4, c5, c6, c7⟩ := declared_prep h (pkey p) k
    rw [c1]
    simp only [Bool.not_true, Bool.false_eq_true, if_false]
    have hf := runAddr_frame (prep (declared Cfg.fixed s (pkey p) k)).1
      tb (newBind Cfg.fixed (pre Cfg.fixed s).c (pkey p) (.ptr k) (pre Cfg.fixed s).nvid).2 p k
    obtain ⟨f1, f2, f3, f4, _⟩ := hf
    have htb := scalarBind_find hsb
    refine ⟨AInv_of_run c2 f1 f2 ?_, f4, fun ht => ⟨?_, ?_⟩⟩
    · intro ht
      rcases f3 ht with h' | h'
      · exact Or.inl h'
      · right
        have hb := h0.cinv.bInt (vkey name) tb htb.1 h'
        have hs := Ty.slots_pos tb.ty
        have := c2.fits
        rw [hp.2.2.2.1] at hb
        omega
    · rw [f2.2.2.2.1, c4 ht]
    · exact f2.2.2.2.2.2.1 (by rw [c3]; exact ht)

theorem stepFunc_AInv (s : St) (fid : Nat) (k : K) (h : AInv s) :
    AInv (stepFunc Cfg.fixed s fid k).1 ∧ (stepFunc Cfg.fixed s fid k).2 ≠ .ierr ∧
    (s.e.taken = true → (stepFunc Cfg.fixed s fid k).1.e.gen = s.e.gen ∧ (stepFunc Cfg.fixed s fid k).1.e.taken = true) := by
  unfold stepFunc
  obtain ⟨c1, c2, c3, c4, c5, c6, c7⟩ := declared_prep h (fkey fid) k
  rw [c1]
  simp only [Bool.not_true, Bool.false_eq_true, if_false]
  split
  · rename_i e he
    have hf := newBox_frame he
    refine ⟨AInv_of_run (s' := { (prep (declared Cfg.fixed s (fkey fid) k)).1 with e := e }) c2 rfl hf.1
      (fun ht => Or.inl (by rw [← hf.2.1]; exact ht)), by simp, fun ht => ⟨?_, ?_⟩⟩
    · simp only []; rw [hf.1.2.2.2.1, c4 ht]
    · simp only []; rw [hf.2.1, c3]; exact ht
  · exact ⟨c2, by simp, fun ht => ⟨c4 ht, by rw [c3]; exact ht⟩⟩

theorem rngAssign_frame (s : St) (k : K) (v : SV) (on : Option Nat) :
    (rngAssign s k v on).1.c = s.c ∧ EFrame s.e (rngAssign s k v on).1.e ∧
    (rngAssign s k v on).1.e.taken = s.e.taken ∧ (rngAssign s k v on).2 ≠ .ierr := by
  unfold rngAssign
  split
  · simp [EFrame.refl]
  · split
    · split
      · rename_i l hl
        have := runAssign_frame s l k .set (.c v)
        exact ⟨this.1, this.2.1, this.2.2.1, this.2.2.2.1⟩
      · simp [EFrame.refl]
    · simp [EFrame.refl]

/-- One evaluation on the repaired code: the invariant is kept, `prepareEnv` never raises its internal
    error, and once an address of env.Ints was taken the backing array keeps its identity. -/
theorem step_AInv (s : St) (a : Action) (h : AInv s) :
    AInv (step Cfg.fixed s a).1 ∧ (step Cfg.fixed s a).2 ≠ .ierr ∧
    (s.e.taken = true → (step Cfg.fixed s a).1.e.gen = s.e.gen ∧ (step Cfg.fixed s a).1.e.taken = true) := by
  have hp := pre_facts s
  have h0 : AInv (pre Cfg.fixed s) := AInv_pre h
  cases a with
  | box =>
    simp only [step]
    refine ⟨⟨CInv_congr h.cinv rfl rfl rfl, h.fits, h.lenI, h.lenV, h.takenPos⟩, by simp, fun ht => ⟨trivial, ht⟩⟩
  | stat =>
    simp only [step]
    have := plain_prep h
    refine ⟨this.2.1, ?_, fun ht => ⟨this.2.2.2.1, by rw [this.2.2.1]; exact ht⟩⟩
    rw [this.1]; simp
  | decl name k init =>
    simp only [step]
    have hcp := compile_prep h (vkey name) (.sc k)
    simp only at hcp
    obtain ⟨c1, c2, c3, c4, c5, c6, c7⟩ := hcp
    rw [c1]
    simp only [Bool.not_true, Bool.false_eq_true, if_false]
    have hf := runDecl_frame (prep { pre Cfg.fixed s with c := (newBind Cfg.fixed (pre Cfg.fixed s).c (vkey name) (.sc k) (pre Cfg.fixed s).nvid).1, nvid := (pre Cfg.fixed s).nvid + 1 }).1
      (newBind Cfg.fixed (pre Cfg.fixed s).c (vkey name) (.sc k) (pre Cfg.fixed s).nvid).2 k init
    obtain ⟨f1, f2, f3, f4, _, _⟩ := hf
    refine ⟨AInv_of_run c2 f1 f2 (fun ht => Or.inl (by rw [← f3]; exact ht)), f4, fun ht => ⟨?_, ?_⟩⟩
    · rw [f2.2.2.2.1, c4 ht]
    · rw [f3, c3]; exact ht
  | addr p name => simp only [step]; exact stepAddr_AInv s p name h
  | addrf p name fid =>
    simp only [step]
    split
    · exact ⟨h0, by simp, fun ht => ⟨by rw [hp.1], by rw [hp.1]; exact ht⟩⟩
    · rename_i tb k hsb
      have h1 := stepFunc_AInv s fid k h
      split
      · have h2 := stepAddr_AInv (stepFunc Cfg.fixed s fid k).1 p name h1.1
        refine ⟨h2.1, h2.2.1, fun ht => ?_⟩
        have a1 := h1.2.2 ht
        have a2 := h2.2.2 a1.2
        exact ⟨by rw [a2.1, a1.1], a2.2⟩
      · rename_i o hne
        refine ⟨h1.1, ?_, h1.2.2⟩
        intro ho; exact h1.2.1 ho
  | rng kn vn kv last =>
    simp only [step]
    split
    · exact ⟨h0, by simp, fun ht => ⟨by rw [hp.1], by rw [hp.1]; exact ht⟩⟩
    · have hpp := plain_prep h0
      obtain ⟨p1, p2, p3, p4, p5, p6⟩ := hpp
      rw [p1]
      simp only [Bool.not_true, Bool.false_eq_true, if_false]
      have base : ∀ ht : s.e.taken = true, (prep (pre Cfg.fixed s)).1.e.gen = s.e.gen ∧ (prep (pre Cfg.fixed s)).1.e.taken = true :=
        fun ht => ⟨by rw [p4, hp.1], by rw [p3, hp.1]; exact ht⟩
      split
      · exact ⟨p2, by simp, base⟩
      · rename_i i v
        have f1 := rngAssign_frame (prep (pre Cfg.fixed s)).1 .int (.n i) kn
        have i1 : AInv (rngAssign (prep (pre Cfg.fixed s)).1 .int (.n i) kn).1 :=
          AInv_of_run p2 f1.1 f1.2.1 (fun ht => Or.inl (by rw [← f1.2.2.1]; exact ht))
        split
        · have f2 := rngAssign_frame (rngAssign (prep (pre Cfg.fixed s)).1 .int (.n i) kn).1 kv v vn
          refine ⟨AInv_of_run i1 f2.1 f2.2.1 (fun ht => Or.inl (by rw [← f2.2.2.1]; exact ht)), f2.2.2.2, fun ht => ⟨?_, ?_⟩⟩
          · rw [f2.2.1.2.2.2.1, f1.2.1.2.2.2.1]; exact (base ht).1
          · rw [f2.2.2.1, f1.2.2.1]; exact (base ht).2
        · rename_i o hne
          refine ⟨i1, ?_, fun ht => ⟨?_, ?_⟩⟩
          · intro ho; exact f1.2.2.2 ho
          · rw [f1.2.1.2.2.2.1]; exact (base ht).1
          · rw [f1.2.2.1]; exact (base ht).2
  | asg name o r =>
    simp only [step]
    split
    · exact ⟨h0, by simp, fun ht => ⟨by rw [hp.1], by rw [hp.1]; exact ht⟩⟩
    · rename_i b k hsb
      split
      · exact ⟨h0, by simp, fun ht => ⟨by rw [hp.1], by rw [hp.1]; exact ht⟩⟩
      · have hpp := plain_prep h0
        obtain ⟨p1, p2, p3, p4, p5, p6⟩ := hpp
        rw [p1]
        simp only [Bool.not_true, Bool.false_eq_true, if_false]
        split
        · exact ⟨p2, by simp, fun ht => ⟨by rw [p4, hp.1], by rw [p3, hp.1]; exact ht⟩⟩
        · rename_i l hl
          have hf := runAssign_frame (prep (pre Cfg.fixed s)).1 l k o r
          obtain ⟨f1, f2, f3, f4, _, _⟩ := hf
          refine ⟨AInv_of_run p2 f1 f2 (fun ht => Or.inl (by rw [← f3]; exact ht)), f4, fun ht => ⟨?_, ?_⟩⟩
          · rw [f2.2.2.2.1, p4, hp.1]
          · rw [f3, p3, hp.1]; exact ht
  | wrp p o r =>
    simp only [step]
    split
    · exact ⟨h0, by simp, fun ht => ⟨by rw [hp.1], by rw [hp.1]; exact ht⟩⟩
    · rename_i l k vid hsb
      split
      · exact ⟨h0, by simp, fun ht => ⟨by rw [hp.1], by rw [hp.1]; exact ht⟩⟩
      · have hpp := plain_prep h0
        obtain ⟨p1, p2, p3, p4, p5, p6⟩ := hpp
        rw [p1]
        simp only [Bool.not_true, Bool.false_eq_true, if_false]
        have hf := runAssign_frame (prep (pre Cfg.fixed s)).1 l k o r
        obtain ⟨f1, f2, f3, f4, _, _⟩ := hf
        refine ⟨AInv_of_run p2 f1 f2 (fun ht => Or.inl (by rw [← f3]; exact ht)), f4, fun ht => ⟨?_, ?_⟩⟩
        · rw [f2.2.2.2.1, p4, hp.1]
        · rw [f3, p3, hp.1]; exact ht
  | read name =>
    simp only [step]
    split
    · exact ⟨h0, by simp, fun ht => ⟨by rw [hp.1], by rw [hp.1]; exact ht⟩⟩
    · rename_i b k hsb
      have hpp := plain_prep h0
      obtain ⟨p1, p2, p3, p4, p5, p6⟩ := hpp
      rw [p1]
      simp only [Bool.not_true, Bool.false_eq_true, if_false]
      split
      · exact ⟨p2, by simp, fun ht => ⟨by rw [p4, hp.1], by rw [p3, hp.1]; exact ht⟩⟩
      · rename_i l hl
        have hf := runRead_frame (prep (pre Cfg.fixed s)).1 l k
        rw [hf.1]
        exact ⟨p2, hf.2, fun ht => ⟨by rw [p4, hp.1], by rw [p3, hp.1]; exact ht⟩⟩
  | rdp p =>
    simp only [step]
    split
    · exact ⟨h0, by simp, fun ht => ⟨by rw [hp.1], by rw [hp.1]; exact ht⟩⟩
    · rename_i l k vid hsb
      have hpp := plain_prep h0
      obtain ⟨p1, p2, p3, p4, p5, p6⟩ := hpp
      rw [p1]
      simp only [Bool.not_true, Bool.false_eq_true, if_false]
      have hf := runRead_frame (prep (pre Cfg.fixed s)).1 l k
      rw [hf.1]
      exact ⟨p2, hf.2, fun ht => ⟨by rw [p4, hp.1], by rw [p3, hp.1]; exact ht⟩⟩

end Globals
