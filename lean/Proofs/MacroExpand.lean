import Model.MacroExpand
/-! Lemmas about the macro expansion model (property C20). -/
set_option linter.unusedSimpArgs false
set_option linter.unusedVariables false
namespace MacroExpand
open Tree

/-! ## Except helpers -/

theorem bind_ok {α β} {x : R α} {f : α → R β} {b : β} (h : (x >>= f) = .ok b) :
    ∃ a, x = .ok a ∧ f a = .ok b := by
  cases x with
  | error e => simp [bind, Except.bind] at h
  | ok a => exact ⟨a, rfl, by simpa [bind, Except.bind] using h⟩

/-! ## scan: consumption of arguments -/

theorem scan_nomacro (tbl : Tbl) (es : Slot) (x : Tree) (rest : List Tree) (h : macroOf tbl x = none) :
    scan tbl es (x :: rest) = (do
      let x' ← conv es x
      let (o, e) ← scan tbl es rest
      pure (x' :: o, e)) := by
  rw [scan]; simp [h]; rfl

theorem scan_macro (tbl : Tbl) (es : Slot) (x : Tree) (rest : List Tree) (m : Macro)
    (h : macroOf tbl x = some m) (hle : m.arity ≤ rest.length) :
    scan tbl es (x :: rest) = (do
      let args ← (rest.take m.arity).mapM toNode
      let rs ← (spliceResults (m.run args)).mapM (conv es)
      let (o, _) ← scan tbl es (rest.drop m.arity)
      pure (rs ++ o, true)) := by
  rw [scan]; simp [h]
  have : ¬ (rest.length < m.arity) := by omega
  simp [this]; rfl

theorem scan_too_few (tbl : Tbl) (es : Slot) (x : Tree) (rest : List Tree) (m : Macro)
    (h : macroOf tbl x = some m) (hlt : rest.length < m.arity) :
    scan tbl es (x :: rest) = .error .notEnoughArgs := by
  rw [scan]; simp [h, hlt]

/-- a scan that reports "nothing expanded" met no macro call -/
theorem scan_false (tbl : Tbl) (es : Slot) :
    ∀ (xs o : List Tree), scan tbl es xs = .ok (o, false) → ∀ x ∈ xs, macroOf tbl x = none := by
  intro xs
  induction xs with
  | nil => intro o _ x hx; cases hx
  | cons y ys ih =>
    intro o h x hx
    cases hm : macroOf tbl y with
    | some m =>
      by_cases hlt : ys.length < m.arity
      · rw [scan_too_few tbl es y ys m hm hlt] at h; cases h
      · rw [scan_macro tbl es y ys m hm (by omega)] at h
        obtain ⟨a, _, h⟩ := bind_ok h
        obtain ⟨b, _, h⟩ := bind_ok h
        obtain ⟨c, _, h⟩ := bind_ok h
        obtain ⟨c1, c2⟩ := c
        simp [pure, Except.pure] at h
    | none =>
      rw [scan_nomacro tbl es y ys hm] at h
      obtain ⟨a, _, h⟩ := bind_ok h
      obtain ⟨c, hc, h⟩ := bind_ok h
      obtain ⟨c1, c2⟩ := c
      simp [pure, Except.pure] at h
      obtain ⟨_, rfl⟩ := h
      cases hx with
      | head => exact hm
      | tail _ hx => exact ih c1 hc x hx

end MacroExpand

namespace MacroExpand
open Tree

/-! ## consume_exact -/

/-- the elements before the first macro call are copied (converted for the list), the call takes
    exactly `arity` following elements and is replaced by its results in order, the scan goes on
    behind the consumed elements -/
theorem scan_consume (tbl : Tbl) (es : Slot) (m : Macro) (head : Tree) (args rest : List Tree) :
    ∀ (pre : List Tree), (∀ x ∈ pre, macroOf tbl x = none) → macroOf tbl head = some m →
    args.length = m.arity →
    scan tbl es (pre ++ head :: (args ++ rest)) = (do
      let pre' ← pre.mapM (conv es)
      let args' ← args.mapM toNode
      let rs ← (spliceResults (m.run args')).mapM (conv es)
      let (o, _) ← scan tbl es rest
      pure (pre' ++ (rs ++ o), true)) := by
  intro pre
  induction pre with
  | nil =>
    intro _ hm hlen
    have hle : m.arity ≤ (args ++ rest).length := by simp [List.length_append]; omega
    rw [List.nil_append, scan_macro tbl es head (args ++ rest) m hm hle]
    have h1 : (args ++ rest).take m.arity = args := by rw [← hlen]; simp
    have h2 : (args ++ rest).drop m.arity = rest := by rw [← hlen]; simp
    rw [h1, h2]
    simp [List.mapM_nil, pure, Except.pure, bind, Except.bind]
  | cons y ys ih =>
    intro hpre hm hlen
    have hy : macroOf tbl y = none := hpre y (List.mem_cons_self ..)
    have hys : ∀ x ∈ ys, macroOf tbl x = none := fun x hx => hpre x (List.mem_cons_of_mem _ hx)
    rw [List.cons_append, scan_nomacro tbl es y _ hy, ih hys hm hlen]
    simp only [List.mapM_cons, bind, Except.bind, pure, Except.pure]
    cases conv es y with
    | error e => rfl
    | ok y' =>
      simp only []
      cases List.mapM (conv es) ys with
      | error e => rfl
      | ok ys' =>
        simp only []
        cases List.mapM toNode args with
        | error e => rfl
        | ok args' =>
          simp only []
          cases List.mapM (conv es) (spliceResults (m.run args')) with
          | error e => rfl
          | ok rs =>
            simp only []
            cases scan tbl es rest with
            | error e => rfl
            | ok p => obtain ⟨o, b⟩ := p; simp

/-! ## unwrap -/

theorem unwrap_idem (b : Bool) (t : Tree) : unwrap b (unwrap b t) = unwrap b t := by
  induction t using unwrap.induct b with
  | case1 c a s x h ih => rw [unwrap]; simp [h, ih]
  | case2 c a s x h => rw [unwrap]; simp [h]; rw [unwrap]; simp [h]
  | case3 _ _ _ x ih => rw [unwrap]; exact ih
  | case4 _ _ _ x ih => rw [unwrap]; exact ih
  | case5 _ _ _ x ih => rw [unwrap]; exact ih
  | case6 t h1 h2 h3 h4 =>
    have e : unwrap b t = t := by rw [unwrap] <;> assumption
    rw [e, e]

end MacroExpand

namespace MacroExpand
open Tree

theorem unwrap_true_false (t : Tree) : unwrap true (unwrap false t) = unwrap true t := by
  induction t using unwrap.induct false with
  | case1 c a s x h ih => simp at h
  | case2 c a s x h => rw [unwrap]; simp
  | case3 _ _ _ x ih => rw [unwrap, unwrap, ih]
  | case4 _ _ _ x ih => rw [unwrap, unwrap, ih]
  | case5 _ _ _ x ih => rw [unwrap, unwrap, ih]
  | case6 t h1 h2 h3 h4 =>
    have e : unwrap false t = t := by rw [unwrap] <;> assumption
    rw [e]

/-- what `unwrap` returns is never one of the wrappers it removes -/
theorem unwrap_not_wrapper (b : Bool) (t : Tree) :
    (∀ c a s x, unwrap b t ≠ .node .parenExpr c a s [x]) ∧
    (∀ c a s x, unwrap b t ≠ .node .exprStmt c a s [x]) ∧
    (∀ c a s x, unwrap b t ≠ .node .declStmt c a s [x]) := by
  induction t using unwrap.induct b with
  | case1 c a s x h ih => rw [unwrap]; simp [h]; exact ih
  | case2 c a s x h => rw [unwrap]; simp [h]
  | case3 _ _ _ x ih => rw [unwrap]; exact ih
  | case4 _ _ _ x ih => rw [unwrap]; exact ih
  | case5 _ _ _ x ih => rw [unwrap]; exact ih
  | case6 t h1 h2 h3 h4 =>
    have e : unwrap b t = t := by rw [unwrap] <;> assumption
    rw [e]
    exact ⟨fun c a s x h => h2 c a s x h, fun c a s x h => h3 c a s x h, fun c a s x h => h4 c a s x h⟩

/-! ## fixpoint -/

theorem expand1_false_nomacro (tbl : Tbl) :
    ∀ (f : Nat) (t t' : Tree), expand1 tbl f t = .ok (t', false) →
      ∀ k c a es ks, t' = .list k c a es ks → ∀ x ∈ ks, macroOf tbl x = none := by
  intro f
  induction f with
  | zero => intro t t' h; simp [expand1] at h
  | succ f ih =>
    intro t t' h
    rw [expand1] at h
    split at h
    · rename_i k c a es kids hu
      obtain ⟨p, hp, h⟩ := bind_ok h
      obtain ⟨o, e⟩ := p
      cases e with
      | true =>
        simp at h
        split at h <;> simp [pure, Except.pure] at h
      | false =>
        simp at h
        have hk := scan_false tbl es kids o hp
        split at h
        · split at h
          · exact ih _ _ h
          · simp [pure, Except.pure] at h
            intro k' c' a' es' ks' ht'
            rw [← h] at ht'
            injection ht' with _ _ _ _ hks
            subst hks; exact hk
        · simp [pure, Except.pure] at h
          intro k' c' a' es' ks' ht'
          rw [← h] at ht'
          injection ht' with _ _ _ _ hks
          subst hks; exact hk
    · rename_i hnl
      simp [pure, Except.pure] at h
      intro k c a es ks ht'
      rw [← h] at ht'
      exact absurd ht' (hnl k c a es ks)

theorem macroExpandLoop_fixpoint (tbl : Tbl) :
    ∀ (f : Nat) (t t' : Tree) (ever e : Bool), macroExpandLoop tbl f t ever = .ok (t', e) →
      ∀ k c a es ks, t' = .list k c a es ks → ∀ x ∈ ks, macroOf tbl x = none := by
  intro f
  induction f with
  | zero => intro t t' ever e h; simp [macroExpandLoop] at h
  | succ f ih =>
    intro t t' ever e h
    rw [macroExpandLoop] at h
    obtain ⟨p, hp, h⟩ := bind_ok h
    obtain ⟨t1, e1⟩ := p
    cases e1 with
    | true => simp at h; exact ih _ _ _ _ h
    | false =>
      simp [pure, Except.pure] at h
      obtain ⟨rfl, _⟩ := h
      exact expand1_false_nomacro tbl f t t1 hp

end MacroExpand

namespace MacroExpand
open Tree

/-! ## quote -/

theorem expand1_nonlist (tbl : Tbl) (f : Nat) (t : Tree) (hu : unwrap false t = t)
    (hnl : ∀ k c a es ks, t ≠ .list k c a es ks) : expand1 tbl (f+1) t = .ok (t, false) := by
  rw [expand1, hu]
  split
  · exact absurd rfl (hnl _ _ _ _ _)
  · rfl

theorem macroExpand_nonlist (tbl : Tbl) (f : Nat) (t : Tree) (hu : unwrap false t = t)
    (hnl : ∀ k c a es ks, t ≠ .list k c a es ks) : macroExpand tbl (f+2) t = .ok (t, false) := by
  simp [macroExpand, macroExpandLoop, expand1_nonlist tbl f t hu hnl, bind, Except.bind, pure, Except.pure]

theorem quote_walk (tbl : Tbl) (f : Nat) (c : Cat) (ss : List Slot) (k0 : Tree) (ks : List Tree) :
    codewalk tbl (f+3) (.node .unaryExpr c opQuote ss (k0 :: ks)) 0
      = .ok (.node .unaryExpr c opQuote ss (k0 :: ks), false) := by
  have hu : ∀ b, unwrap b (.node .unaryExpr c opQuote ss (k0 :: ks)) = .node .unaryExpr c opQuote ss (k0 :: ks) := by
    intro b; rw [unwrap] <;> simp
  have hm := macroExpand_nonlist tbl f (.node .unaryExpr c opQuote ss (k0 :: ks)) (hu false) (by simp)
  have hu1 := hu true
  simp only [opQuote] at hm hu1
  rw [codewalk]
  simp [Tree.size, hm, hu1, bind, Except.bind, quoteOp, opQuote, opMacro, opQuasiquote, opUnquote, opUnquoteSplice]

end MacroExpand

namespace MacroExpand
open Tree

/-! ## quasiquote: what is not unquoted does not depend on the macros -/

def isQuoteAttr (a : String) : Bool :=
  a = opMacro ∨ a = opQuote ∨ a = opQuasiquote ∨ a = opUnquote ∨ a = opUnquoteSplice

def firstIsUnary : List Tree → Bool
  | .node .unaryExpr _ _ _ _ :: _ => true
  | _ => false

mutual
/-- `escapes t d`: walking `t` at quasiquote depth `d` can reach depth `≤ 0`, i.e. some chain of
    `~unquote`s inside `t` is at least as long as the quasiquotes around it.  (An operator form whose
    operand is again an operator node, which the parser never builds, counts as escaping.) -/
def escapes : Tree → Int → Bool
  | .nil, _ => false
  | .node k _ a _ ks, d =>
    if k = .unaryExpr ∧ isQuoteAttr a then
      depthAfter a d ≤ 0 || firstIsUnary ks || escapesL ks (depthAfter a d)
    else escapesL ks d
  | .list _ _ _ _ ks, d => escapesL ks d
def escapesL : List Tree → Int → Bool
  | [], _ => false
  | t :: ts, d => escapes t d || escapesL ts d
end

theorem escapesL_mem : ∀ (ks : List Tree) (d : Int), escapesL ks d = false → ∀ x ∈ ks, escapes x d = false := by
  intro ks
  induction ks with
  | nil => intro d _ x hx; cases hx
  | cons y ys ih =>
    intro d h x hx
    rw [escapesL] at h
    simp at h
    cases hx with
    | head => exact h.1
    | tail _ hx => exact ih d h.2 x hx

theorem escapes_unwrap (b : Bool) (d : Int) (t : Tree) (h : escapes t d = false) :
    escapes (unwrap b t) d = false := by
  induction t using unwrap.induct b with
  | case1 c a s x hb ih =>
    rw [unwrap]; simp [hb]
    apply ih
    rw [escapes] at h
    exact escapesL_mem _ _ h x (List.mem_cons_self ..)
  | case2 c a s x hb => rw [unwrap]; simp [hb]; exact h
  | case3 _ _ _ x ih =>
    rw [unwrap]; apply ih
    rw [escapes] at h; simp at h
    exact escapesL_mem _ _ h x (List.mem_cons_self ..)
  | case4 _ _ _ x ih =>
    rw [unwrap]; apply ih
    rw [escapes] at h; simp at h
    exact escapesL_mem _ _ h x (List.mem_cons_self ..)
  | case5 _ _ _ x ih =>
    rw [unwrap]; apply ih
    rw [escapes] at h; simp at h
    exact escapesL_mem _ _ h x (List.mem_cons_self ..)
  | case6 t h1 h2 h3 h4 =>
    have e : unwrap b t = t := by rw [unwrap] <;> assumption
    rw [e]; exact h

theorem walkKids_congr (w1 w2 : Tree → R (Tree × Bool)) :
    ∀ (ss : List Slot) (ks : List Tree), (∀ k ∈ ks, w1 k = w2 k) → walkKids w1 ss ks = walkKids w2 ss ks := by
  intro ss
  induction ss with
  | nil => intro ks _; cases ks <;> simp [walkKids]
  | cons s ss ih =>
    intro ks h
    cases ks with
    | nil => simp [walkKids]
    | cons k ks =>
      simp only [walkKids]
      rw [h k (List.mem_cons_self ..), ih ks (fun x hx => h x (List.mem_cons_of_mem _ hx))]

theorem walkElems_congr (w1 w2 : Tree → R (Tree × Bool)) (es : Slot) :
    ∀ (ks : List Tree), (∀ k ∈ ks, w1 k = w2 k) → walkElems w1 es ks = walkElems w2 es ks := by
  intro ks
  induction ks with
  | nil => intro _; simp [walkElems]
  | cons k ks ih =>
    intro h
    simp only [walkElems]
    rw [h k (List.mem_cons_self ..), ih (fun x hx => h x (List.mem_cons_of_mem _ hx))]

/-- below a quasiquote (depth ≥ 1), as long as no chain of unquotes leads back to depth 0,
    the walk does not look at the macro table at all -/
theorem codewalk_indep (tbl tbl' : Tbl) :
    ∀ (f : Nat) (t : Tree) (d : Int), 1 ≤ d → escapes t d = false →
      codewalk tbl f t d = codewalk tbl' f t d := by
  intro f
  induction f with
  | zero => intro t d _ _; simp [codewalk]
  | succ f ih =>
    intro t d hd he
    have hd' : ¬ d ≤ 0 := by omega
    rw [codewalk, codewalk]
    by_cases hs : t.size = 0
    · simp [hs]
    · simp only [hs, if_false, hd', bind, Except.bind]
      have he2 := escapes_unwrap true d t he
      generalize unwrap true t = t2 at he2
      cases t2 with
      | nil => rfl
      | list k c a es ks =>
        simp only []
        rw [escapes] at he2
        rw [walkElems_congr _ (fun k => codewalk tbl' f k d) es ks
          (fun x hx => ih x d hd (escapesL_mem _ _ he2 x hx))]
      | node k c a ss ks =>
        simp only []
        cases hq : quoteOp (.node k c a ss ks) with
        | none =>
          simp only []
          have hk : ∀ x ∈ ks, escapes x d = false := by
            rw [escapes] at he2
            split at he2
            · rename_i hcond
              exfalso
              simp [quoteOp, isQuoteAttr] at hq hcond
              obtain ⟨rfl, hc⟩ := hcond
              simp at hq
              rcases hc with h | h | h | h | h <;> simp [h] at hq
            · exact escapesL_mem _ _ he2
          rw [walkKids_congr _ (fun k => codewalk tbl' f k d) ss ks (fun x hx => ih x d hd (hk x hx))]
        | some op =>
          simp only []
          have hkq : k = .unaryExpr ∧ isQuoteAttr a = true ∧ op = a := by
            simp [quoteOp] at hq
            split at hq
            · rename_i heq
              injection heq with h1 h2 h3 h4 h5
              subst h1; subst h3
              split at hq
              · rename_i hc
                simp at hq
                exact ⟨rfl, by simp [isQuoteAttr, hc], hq.symm⟩
              · simp at hq
            · simp at hq
          obtain ⟨rfl, hqa, rfl⟩ := hkq
          rw [escapes] at he2
          simp [hqa] at he2
          obtain ⟨⟨hda, hfu⟩, hks⟩ := he2
          by_cases hq0 : op = opQuote ∧ d = 0
          · simp [hq0]
          · simp only [hq0, if_false]
            cases hb : bodyOf (.node .unaryExpr c op ss ks) with
            | error e => rfl
            | ok body =>
              simp only []
              have hbody : escapes body (depthAfter op d) = false := by
                simp [bodyOf, kidsOf] at hb
                cases ks with
                | nil => simp at hb
                | cons k0 ks' =>
                  simp at hb
                  have hk0 := escapesL_mem _ _ hks k0 (List.mem_cons_self ..)
                  cases k0 with
                  | nil => simp [kidsOf] at hb
                  | node k1 c1 a1 s1 ks1 =>
                    have hk1 : k1 ≠ .unaryExpr := by
                      intro hh; subst hh; simp [firstIsUnary] at hfu
                    rw [escapes] at hk0
                    simp [hk1] at hk0
                    simp [kidsOf] at hb
                    cases ks1 with
                    | nil => simp at hb
                    | cons x1 r1 =>
                      cases r1 with
                      | nil => simp at hb
                      | cons x2 r2 =>
                        simp [pure, Except.pure] at hb
                        subst hb
                        exact escapesL_mem _ _ hk0 x2 (by simp)
                  | list k1 c1 a1 s1 ks1 =>
                    rw [escapes] at hk0
                    simp [kidsOf] at hb
                    cases ks1 with
                    | nil => simp at hb
                    | cons x1 r1 =>
                      cases r1 with
                      | nil => simp at hb
                      | cons x2 r2 =>
                        simp [pure, Except.pure] at hb
                        subst hb
                        exact escapesL_mem _ _ hk0 x2 (by simp)
              rw [ih body (depthAfter op d) (by omega) hbody]

end MacroExpand

namespace MacroExpand
open Tree

/-! ## macro-free code -/

/-- no name is bound to a macro -/
def noMac : Tbl := fun _ => none

theorem macroOf_noMac (x : Tree) : macroOf noMac x = none := by
  unfold macroOf; split <;> rfl

theorem scan_noMac (es : Slot) : ∀ (ks o : List Tree) (e : Bool), scan noMac es ks = .ok (o, e) → e = false := by
  intro ks
  induction ks with
  | nil => intro o e h; rw [scan] at h; simp at h; exact h.2
  | cons y ys ih =>
    intro o e h
    rw [scan_nomacro noMac es y ys (macroOf_noMac y)] at h
    obtain ⟨a, _, h⟩ := bind_ok h
    obtain ⟨p, hp, h⟩ := bind_ok h
    obtain ⟨o1, e1⟩ := p
    simp [pure, Except.pure] at h
    rw [← h.2]; exact ih o1 e1 hp

theorem expand1_noMac : ∀ (f : Nat) (t t' : Tree) (e : Bool), expand1 noMac f t = .ok (t', e) →
    e = false ∧ unwrap true t' = unwrap true t := by
  intro f
  induction f with
  | zero => intro t t' e h; simp [expand1] at h
  | succ f ih =>
    intro t t' e h
    rw [expand1] at h
    split at h
    · rename_i k c a es kids hu
      obtain ⟨p, hp, h⟩ := bind_ok h
      obtain ⟨o, e1⟩ := p
      have he1 := scan_noMac es kids o e1 hp
      subst he1
      simp at h
      have hut : unwrap true t = unwrap true (.list k c a es kids) := by rw [← hu, unwrap_true_false]
      split at h
      · rename_i x
        split at h
        · rename_i hd
          obtain ⟨h1, h2⟩ := ih _ _ _ h
          refine ⟨h1, ?_⟩
          rw [h2, unwrap_idem, hut, unwrap]
          simp [hd]
        · simp [pure, Except.pure] at h
          obtain ⟨rfl, rfl⟩ := h
          exact ⟨rfl, hut.symm⟩
      · simp [pure, Except.pure] at h
        obtain ⟨rfl, rfl⟩ := h
        exact ⟨rfl, hut.symm⟩
    · rename_i hnl
      simp [pure, Except.pure] at h
      obtain ⟨rfl, rfl⟩ := h
      exact ⟨rfl, unwrap_true_false t⟩

theorem macroExpandLoop_noMac : ∀ (f : Nat) (t t' : Tree) (ever e : Bool),
    macroExpandLoop noMac f t ever = .ok (t', e) → e = ever ∧ unwrap true t' = unwrap true t := by
  intro f
  induction f with
  | zero => intro t t' ever e h; simp [macroExpandLoop] at h
  | succ f ih =>
    intro t t' ever e h
    rw [macroExpandLoop] at h
    obtain ⟨p, hp, h⟩ := bind_ok h
    obtain ⟨t1, e1⟩ := p
    obtain ⟨he1, hu1⟩ := expand1_noMac f t t1 e1 hp
    subst he1
    simp [pure, Except.pure] at h
    exact ⟨h.2.symm, by rw [← h.1]; exact hu1⟩

end MacroExpand

namespace MacroExpand
open Tree

/-! ### the wrappers that do not change meaning, erased -/

/-- node case of `erase`; the children are already erased -/
def eraseNode (k : Kind) (c : Cat) (a : String) (ss : List Slot) (ks : List Tree) : Tree :=
  match k, ks with
  | .parenExpr, [x] => x
  | .exprStmt, [x] => x
  | .declStmt, [x] => x
  | .emptyStmt, _ => emptyStmt
  | .ident, _ => if a = "nnil" then emptyStmt else .node k c a ss ks
  | .unaryExpr, [k0] =>
    if a = opMacro then
      match kidsOf k0 with
      | _ :: b :: _ => b
      | _ => .node k c a ss ks
    else .node k c a ss ks
  | _, _ => .node k c a ss ks

def eraseList (k : Kind) (c : Cat) (a : String) (es : Slot) (ks : List Tree) : Tree :=
  match k, ks with
  | .blockStmt, [] => emptyStmt
  | .blockStmt, [x] => x
  | .fieldList, [x] => x
  | _, _ => .list k c a es ks

mutual
/-- `erase t`: `t` without parentheses, `ExprStmt`/`DeclStmt` wrappers, one-element blocks and field lists,
    `~macro{..}` block expressions; `;`, `{}` and `nil` are the same "no value" -/
def erase : Tree → Tree
  | .nil => .nil
  | .node k c a ss ks => eraseNode k c a ss (eraseL ks)
  | .list k c a es ks => eraseList k c a es (eraseL ks)
def eraseL : List Tree → List Tree
  | [] => []
  | t :: ts => erase t :: eraseL ts
end

theorem eraseL_length : ∀ ks : List Tree, (eraseL ks).length = ks.length := by
  intro ks; induction ks with
  | nil => simp [eraseL]
  | cons k ks ih => simp [eraseL, ih]

theorem erase_unwrap (b : Bool) (t : Tree) : erase (unwrap b t) = erase t := by
  induction t using unwrap.induct b with
  | case1 c a s x h ih => rw [unwrap]; simp [h]; rw [ih]; simp [erase, eraseL, eraseList]
  | case2 c a s x h => rw [unwrap]; simp [h]
  | case3 _ _ _ x ih => rw [unwrap, ih]; simp [erase, eraseL, eraseNode]
  | case4 _ _ _ x ih => rw [unwrap, ih]; simp [erase, eraseL, eraseNode]
  | case5 _ _ _ x ih => rw [unwrap, ih]; simp [erase, eraseL, eraseNode]
  | case6 t h1 h2 h3 h4 =>
    have e : unwrap b t = t := by rw [unwrap] <;> assumption
    rw [e]

theorem erase_mkQuoteMacro (blk : Tree) : erase (mkQuoteForm opMacro blk) = erase blk := by
  simp [mkQuoteForm, erase, eraseL, eraseNode, kidsOf]

theorem toNode_ok (x n : Tree) (h : toNode x = .ok n) : n = x := by
  unfold toNode at h; split at h <;> simp at h; exact h.symm

theorem erase_toStmt (x y : Tree) (h : toStmt x = .ok y) : erase y = erase x := by
  unfold toStmt at h
  obtain ⟨n, hn, h2⟩ := bind_ok h
  have hnx := toNode_ok x n hn
  subst hnx
  clear h
  split at h2 <;> simp at h2 <;> subst h2 <;> simp [mkDeclStmt, mkExprStmt, erase, eraseL, eraseNode]
  · cases n <;> simp [Tree.cat] at *
    rfl

end MacroExpand

namespace MacroExpand
open Tree

theorem erase_blockToExpr (c : Cat) (a : String) (s : Slot) (ks : List Tree) :
    erase (blockToExpr (.list .blockStmt c a s ks) ks) = erase (.list .blockStmt c a s ks) := by
  unfold blockToExpr
  split
  · simp [identNil, erase, eraseL, eraseNode, eraseList]
  · simp [erase, eraseL, eraseNode, eraseList]
  · simp [identNil, erase, eraseL, eraseNode, eraseList]
  · exact erase_mkQuoteMacro _

theorem erase_toExpr (x y : Tree) (h : toExpr x = .ok y) : erase y = erase x := by
  unfold toExpr at h
  obtain ⟨n, hn, h2⟩ := bind_ok h
  have hnx := toNode_ok x n hn
  subst hnx
  clear h
  split at h2 <;> simp at h2 <;> subst h2
  · rfl
  · rfl
  · rfl
  · exact erase_blockToExpr _ _ _ _
  · simp [identNil, erase, eraseNode]
  · simp [erase, eraseL, eraseNode]
  · rw [erase_mkQuoteMacro]; simp [mkBlock, erase, eraseL, eraseList]
  · rw [erase_mkQuoteMacro]; simp [mkBlock, erase, eraseL, eraseList]

theorem erase_toBlock (x y : Tree) (h : toBlock x = .ok y) : erase y = erase x := by
  unfold toBlock at h
  split at h
  · simp at h; subst h; rfl
  · simp at h; subst h; rfl
  · obtain ⟨s, hs, h2⟩ := bind_ok h
    simp at h2; subst h2
    have := erase_toStmt _ _ hs
    simp [mkBlock, erase, eraseL, eraseList]
    simpa [erase] using this

theorem erase_exactKind (k : Kind) (x y : Tree) (h : exactKind k x = .ok y) : erase y = erase x := by
  unfold exactKind at h
  obtain ⟨n, hn, h2⟩ := bind_ok h
  have hnx := toNode_ok x n hn
  subst hnx
  split at h2
  · simp at h2; subst h2; cases n <;> simp [Tree.kind] at *
  · split at h2 <;> simp at h2; subst h2; rfl

theorem erase_exactCat (c : Cat) (x y : Tree) (h : exactCat c x = .ok y) : erase y = erase x := by
  unfold exactCat at h
  obtain ⟨n, hn, h2⟩ := bind_ok h
  have hnx := toNode_ok x n hn
  subst hnx
  split at h2
  · simp at h2; subst h2; cases n <;> simp [Tree.cat] at *
  · split at h2 <;> simp at h2; subst h2; rfl

theorem erase_toFieldList (x y : Tree) (h : toFieldList x = .ok y) : erase y = erase x := by
  unfold toFieldList at h
  obtain ⟨n, hn, h2⟩ := bind_ok h
  have hnx := toNode_ok x n hn
  subst hnx
  split at h2 <;> simp at h2 <;> subst h2
  · cases n <;> simp [Tree.kind] at *
  · rfl
  · simp [mkFieldList, erase, eraseL, eraseList]

theorem erase_exactWrapper (k : Kind) (x y : Tree) (h : exactWrapper k x = .ok y) : erase y = erase x := by
  unfold exactWrapper at h
  split at h
  · simp at h; subst h; rfl
  · split at h <;> simp at h; subst h; rfl
  · simp at h

/-- converting a node for a (non-slice) slot only adds or removes erased wrappers -/
theorem erase_convOne (s : Slot) (x y : Tree) (h : convOne s x = .ok y) : erase y = erase x := by
  cases s <;> simp only [convOne] at h
  · exact erase_toExpr _ _ h
  · exact erase_toStmt _ _ h
  · exact erase_toBlock _ _ h
  · simp at h
  · simp at h
  · simp at h
  · exact erase_exactKind _ _ _ h
  · exact erase_exactCat _ _ _ h
  · exact erase_exactCat _ _ _ h
  · exact erase_exactKind _ _ _ h
  · exact erase_toFieldList _ _ h
  · exact erase_exactKind _ _ _ h
  · exact erase_exactWrapper _ _ _ h
  · exact erase_exactWrapper _ _ _ h
  · rw [toNode_ok _ _ h]
  · simp at h; subst h; rfl

end MacroExpand

namespace MacroExpand
open Tree

/-! ### well-slotted trees (what the parser and the ast2 constructors build) -/

def isSliceSlot : Slot → Bool
  | .exprs | .stmts | .idents => true
  | _ => false

/-- a slice-typed slot holds nil or the slice of its own type -/
def slotOk : Slot → Tree → Bool
  | .exprs, .nil => true
  | .exprs, .list .exprSlice _ _ _ _ => true
  | .exprs, _ => false
  | .stmts, .nil => true
  | .stmts, .list .stmtSlice _ _ _ _ => true
  | .stmts, _ => false
  | .idents, .nil => true
  | .idents, .list .identSlice _ _ _ _ => true
  | .idents, _ => false
  | _, _ => true

def slotsOk : List Slot → List Tree → Bool
  | s :: ss, k :: ks => slotOk s k && slotsOk ss ks
  | _, _ => true

def kindOk (k : Kind) (ks : List Tree) : Bool :=
  match k with
  | .emptyStmt => ks.isEmpty
  | .ident => ks.isEmpty
  | .unaryExpr => ks.length == 1
  | _ => true

mutual
def ws : Tree → Bool
  | .nil => true
  | .node k _ _ ss ks => ss.length == ks.length && slotsOk ss ks && kindOk k ks && wsL ks
  | .list _ _ _ es ks => !isSliceSlot es && wsL ks
def wsL : List Tree → Bool
  | [] => true
  | t :: ts => ws t && wsL ts
end

theorem wsL_mem : ∀ ks : List Tree, wsL ks = true → ∀ x ∈ ks, ws x = true := by
  intro ks; induction ks with
  | nil => intro _ x hx; cases hx
  | cons y ys ih =>
    intro h x hx
    rw [wsL] at h; simp at h
    cases hx with
    | head => exact h.1
    | tail _ hx => exact ih h.2 x hx

theorem ws_unwrap (b : Bool) (t : Tree) (h : ws t = true) : ws (unwrap b t) = true := by
  induction t using unwrap.induct b with
  | case1 c a s x hb ih =>
    rw [unwrap]; simp [hb]; apply ih
    rw [ws] at h; simp at h
    exact wsL_mem _ h.2 x (List.mem_cons_self ..)
  | case2 c a s x hb => rw [unwrap]; simp [hb]; exact h
  | case3 _ _ _ x ih =>
    rw [unwrap]; apply ih; rw [ws] at h; simp at h
    exact wsL_mem _ h.2 x (List.mem_cons_self ..)
  | case4 _ _ _ x ih =>
    rw [unwrap]; apply ih; rw [ws] at h; simp at h
    exact wsL_mem _ h.2 x (List.mem_cons_self ..)
  | case5 _ _ _ x ih =>
    rw [unwrap]; apply ih; rw [ws] at h; simp at h
    exact wsL_mem _ h.2 x (List.mem_cons_self ..)
  | case6 t h1 h2 h3 h4 =>
    have e : unwrap b t = t := by rw [unwrap] <;> assumption
    rw [e]; exact h

theorem unwrap_size0 (b : Bool) (t : Tree) (h : t.size = 0) : unwrap b t = t := by
  cases t with
  | nil => rw [unwrap] <;> simp
  | node k c a ss ks =>
    simp [Tree.size] at h; subst h
    rw [unwrap] <;> simp
  | list k c a es ks =>
    simp [Tree.size] at h; subst h
    rw [unwrap] <;> simp

theorem codewalk_nil (tbl : Tbl) (f : Nat) (d : Int) (r : Tree × Bool)
    (h : codewalk tbl f .nil d = .ok r) : r = (.nil, false) := by
  cases f with
  | zero => simp [codewalk] at h
  | succ f => simp [codewalk, Tree.size] at h; exact h.symm

/-- the statement proved for every child, used as induction hypothesis -/
def WalkOk (w : Tree → R (Tree × Bool)) : Prop :=
  (∀ r, w .nil = .ok r → r = (.nil, false)) ∧
  ∀ t t' e, ws t = true → w t = .ok (t', e) →
    e = false ∧ erase t' = erase t ∧
    ∀ k c a es ks, unwrap true t = .list k c a es ks → ∃ ks', t' = .list k c a es ks'

theorem conv_after_walk (w : Tree → R (Tree × Bool)) (hw : WalkOk w) (s : Slot) (k k' k'' : Tree) (e : Bool)
    (hws : ws k = true) (hso : slotOk s k = true) (h1 : w k = .ok (k', e)) (h2 : conv s k' = .ok k'') :
    e = false ∧ erase k'' = erase k := by
  obtain ⟨he, her, hshape⟩ := hw.2 k k' e hws h1
  refine ⟨he, ?_⟩
  have scalar : ∀ s', conv s' k' = convOne s' k' → conv s' k' = .ok k'' → erase k'' = erase k := by
    intro s' hc hk; rw [hc] at hk; rw [erase_convOne _ _ _ hk, her]
  have slice : ∀ K es, (k = .nil ∨ ∃ c a e' ks, k = .list K c a e' ks) → K ≠ .blockStmt →
      toSlice K es k' = .ok k'' → erase k'' = erase k := by
    intro K es hk hK hts
    rcases hk with rfl | ⟨c, a, e', ks, rfl⟩
    · have := hw.1 _ h1
      simp at this
      obtain ⟨rfl, _⟩ := this
      simp [toSlice] at hts; subst hts; rfl
    · have hu : unwrap true (.list K c a e' ks) = .list K c a e' ks := by
        rw [unwrap] <;> simp [hK]
      obtain ⟨ks', rfl⟩ := hshape K c a e' ks hu
      simp [toSlice] at hts; subst hts; exact her
  cases s with
  | exprs =>
    simp only [conv] at h2
    apply slice .exprSlice .expr _ (by simp) h2
    cases k with
    | nil => exact Or.inl rfl
    | node => simp [slotOk] at hso
    | list K c a e' ks =>
      cases K <;> simp [slotOk] at hso
      exact Or.inr ⟨c, a, e', ks, rfl⟩
  | stmts =>
    simp only [conv] at h2
    apply slice .stmtSlice .stmt _ (by simp) h2
    cases k with
    | nil => exact Or.inl rfl
    | node => simp [slotOk] at hso
    | list K c a e' ks =>
      cases K <;> simp [slotOk] at hso
      exact Or.inr ⟨c, a, e', ks, rfl⟩
  | idents =>
    simp only [conv] at h2
    apply slice .identSlice .ident _ (by simp) h2
    cases k with
    | nil => exact Or.inl rfl
    | node => simp [slotOk] at hso
    | list K c a e' ks =>
      cases K <;> simp [slotOk] at hso
      exact Or.inr ⟨c, a, e', ks, rfl⟩
  | _ => exact scalar _ (by simp [conv]) h2

theorem walkKids_macrofree (w : Tree → R (Tree × Bool)) (hw : WalkOk w) :
    ∀ (ss : List Slot) (ks ks' : List Tree) (e : Bool), ss.length = ks.length → wsL ks = true → slotsOk ss ks = true →
      walkKids w ss ks = .ok (ks', e) → e = false ∧ eraseL ks' = eraseL ks := by
  intro ss
  induction ss with
  | nil =>
    intro ks ks' e hl _ _ h
    cases ks with
    | nil => simp [walkKids] at h; obtain ⟨rfl, rfl⟩ := h; simp [eraseL]
    | cons k ks => simp at hl
  | cons s ss ih =>
    intro ks ks' e hl hws hso h
    cases ks with
    | nil => simp at hl
    | cons k ks =>
      simp at hl
      rw [wsL] at hws; simp at hws
      rw [slotsOk] at hso; simp at hso
      simp only [walkKids] at h
      obtain ⟨p, hp, h⟩ := bind_ok h
      obtain ⟨k', e1⟩ := p
      obtain ⟨k'', hk'', h⟩ := bind_ok h
      obtain ⟨q, hq, h⟩ := bind_ok h
      obtain ⟨rest, e2⟩ := q
      simp at h
      obtain ⟨rfl, rfl⟩ := h
      obtain ⟨he1, her⟩ := conv_after_walk w hw s k k' k'' e1 hws.1 hso.1 hp hk''
      obtain ⟨he2, hrest⟩ := ih ks rest e2 hl hws.2 hso.2 hq
      simp [he1, he2, eraseL, her, hrest]

theorem walkElems_macrofree (w : Tree → R (Tree × Bool)) (hw : WalkOk w) (es : Slot) (hes : isSliceSlot es = false) :
    ∀ (ks ks' : List Tree) (e : Bool), wsL ks = true →
      walkElems w es ks = .ok (ks', e) → e = false ∧ eraseL ks' = eraseL ks := by
  intro ks
  induction ks with
  | nil => intro ks' e _ h; simp [walkElems] at h; obtain ⟨rfl, rfl⟩ := h; simp [eraseL]
  | cons k ks ih =>
    intro ks' e hws h
    rw [wsL] at hws; simp at hws
    simp only [walkElems] at h
    obtain ⟨p, hp, h⟩ := bind_ok h
    obtain ⟨k', e1⟩ := p
    obtain ⟨k'', hk'', h⟩ := bind_ok h
    obtain ⟨q, hq, h⟩ := bind_ok h
    obtain ⟨rest, e2⟩ := q
    simp at h
    obtain ⟨rfl, rfl⟩ := h
    have hso : slotOk es k = true := by cases es <;> simp [isSliceSlot] at hes <;> simp [slotOk]
    obtain ⟨he1, her⟩ := conv_after_walk w hw es k k' k'' e1 hws.1 hso hp hk''
    obtain ⟨he2, hrest⟩ := ih rest e2 hws.2 hq
    simp [he1, he2, eraseL, her, hrest]

end MacroExpand

namespace MacroExpand
open Tree

theorem kidsOf_erase_two (k0 : Tree) (x b : Tree) (r : List Tree) (hws : ws k0 = true)
    (hk : kidsOf k0 = x :: b :: r) : ∃ x' r', kidsOf (erase k0) = x' :: erase b :: r' := by
  cases k0 with
  | nil => simp [kidsOf] at hk
  | node k c a ss ks =>
    simp [kidsOf] at hk; subst hk
    rw [ws] at hws; simp at hws
    have hko := hws.1.2
    cases k <;> simp [kindOk] at hko <;>
      exact ⟨erase x, eraseL r, by simp [erase, eraseL, eraseNode, kidsOf]⟩
  | list k c a es ks =>
    simp [kidsOf] at hk; subst hk
    cases k <;> exact ⟨erase x, eraseL r, by simp [erase, eraseL, eraseList, kidsOf]⟩

theorem bodyOf_single (k : Kind) (c : Cat) (a : String) (ss : List Slot) (k0 body : Tree)
    (h : bodyOf (.node k c a ss [k0]) = .ok body) : ∃ x r, kidsOf k0 = x :: body :: r := by
  cases k0 with
  | nil => simp [bodyOf, kidsOf] at h
  | node k1 c1 a1 s1 ks1 =>
    cases ks1 with
    | nil => simp [bodyOf, kidsOf] at h
    | cons x r =>
      cases r with
      | nil => simp [bodyOf, kidsOf] at h
      | cons b r2 => simp [bodyOf, kidsOf] at h; subst h; exact ⟨x, r2, rfl⟩
  | list k1 c1 a1 s1 ks1 =>
    cases ks1 with
    | nil => simp [bodyOf, kidsOf] at h
    | cons x r =>
      cases r with
      | nil => simp [bodyOf, kidsOf] at h
      | cons b r2 => simp [bodyOf, kidsOf] at h; subst h; exact ⟨x, r2, rfl⟩

/-- macro-free code: nothing is reported as expanded, the result is the input up to erased wrappers,
    and a list comes out as a list of the same kind -/
theorem codewalk_macrofree : ∀ (f : Nat) (d : Int), WalkOk (fun t => codewalk noMac f t d) := by
  intro f
  induction f with
  | zero => intro d; exact ⟨fun r h => by simp [codewalk] at h, fun t t' e _ h => by simp [codewalk] at h⟩
  | succ f ih =>
    intro d
    refine ⟨fun r h => codewalk_nil _ _ _ _ h, ?_⟩
    intro t t' e hws h
    simp only [] at h
    rw [codewalk] at h
    by_cases hs : t.size = 0
    · simp [hs] at h
      obtain ⟨rfl, rfl⟩ := h
      refine ⟨rfl, rfl, ?_⟩
      intro k c a es ks hu
      rw [unwrap_size0 true t hs] at hu
      exact ⟨ks, hu⟩
    · simp only [hs, if_false] at h
      obtain ⟨p, hp, h⟩ := bind_ok h
      obtain ⟨t1, e1⟩ := p
      have h1 : e1 = false ∧ unwrap true t1 = unwrap true t := by
        by_cases hd : d ≤ 0
        · simp only [hd, if_true] at hp
          exact macroExpandLoop_noMac f t t1 false e1 hp
        · simp only [hd, if_false] at hp
          simp at hp; obtain ⟨rfl, rfl⟩ := hp; exact ⟨rfl, rfl⟩
      obtain ⟨rfl, hu1⟩ := h1
      simp only [] at h
      rw [hu1] at h
      have hwu := ws_unwrap true t hws
      have heu := erase_unwrap true t
      generalize unwrap true t = u at h hwu heu
      cases u with
      | nil =>
        simp at h; obtain ⟨rfl, rfl⟩ := h
        exact ⟨rfl, heu, fun k c a es ks hu => by cases hu⟩
      | list k c a es ks =>
        simp only [] at h
        obtain ⟨q, hq, h⟩ := bind_ok h
        obtain ⟨ks', e2⟩ := q
        simp at h; obtain ⟨rfl, rfl⟩ := h
        rw [ws] at hwu; simp at hwu
        obtain ⟨he2, hks⟩ := walkElems_macrofree _ (ih d) es hwu.1 ks ks' e2 hwu.2 hq
        refine ⟨by simp [he2], ?_, ?_⟩
        · rw [← heu]; simp [erase, hks]
        · intro k1 c1 a1 es1 ks1 hu
          injection hu with h1 h2 h3 h4 h5
          subst h1; subst h2; subst h3; subst h4
          exact ⟨ks', rfl⟩
      | node k c a ss ks =>
        simp only [] at h
        rw [ws] at hwu; simp at hwu
        obtain ⟨⟨⟨hlen, hso⟩, hko⟩, hwk⟩ := hwu
        cases hq : quoteOp (.node k c a ss ks) with
        | none =>
          rw [hq] at h
          simp only [] at h
          obtain ⟨q, hq2, h⟩ := bind_ok h
          obtain ⟨ks', e2⟩ := q
          simp at h; obtain ⟨rfl, rfl⟩ := h
          obtain ⟨he2, hks⟩ := walkKids_macrofree _ (ih d) ss ks ks' e2 hlen hwk hso hq2
          refine ⟨by simp [he2], ?_, fun k1 c1 a1 es1 ks1 hu => by cases hu⟩
          rw [← heu]; simp [erase, hks]
        | some op =>
          rw [hq] at h
          simp only [] at h
          have hkq : k = .unaryExpr ∧ op = a := by
            simp [quoteOp] at hq
            split at hq
            · rename_i heq
              injection heq with h1 h2 h3 h4 h5
              subst h1; subst h3
              split at hq
              · simp at hq; exact ⟨rfl, hq.symm⟩
              · simp at hq
            · simp at hq
          obtain ⟨rfl, rfl⟩ := hkq
          by_cases hq0 : op = opQuote ∧ d = 0
          · obtain ⟨rfl, rfl⟩ := hq0
            simp at h
            obtain ⟨rfl, rfl⟩ := h
            exact ⟨rfl, heu, fun k1 c1 a1 es1 ks1 hu => by cases hu⟩
          · simp only [hq0, if_false] at h
            obtain ⟨body, hb, h⟩ := bind_ok h
            obtain ⟨q, hq2, h⟩ := bind_ok h
            obtain ⟨oc, e2⟩ := q
            -- the operand of the operator form
            simp [kindOk] at hko
            obtain ⟨k0, rfl⟩ := List.length_eq_one_iff.mp hko
            have hwk0 := wsL_mem _ hwk k0 (List.mem_cons_self ..)
            obtain ⟨x1, r2, hkk⟩ := bodyOf_single _ _ _ _ _ _ hb
            have hwb : ws body = true := by
              cases k0 with
              | nil => simp [kidsOf] at hkk
              | node k1 c1 a1 s1 ks1 =>
                simp [kidsOf] at hkk; subst hkk
                rw [ws] at hwk0; simp at hwk0
                exact wsL_mem _ hwk0.2 body (by simp)
              | list k1 c1 a1 s1 ks1 =>
                simp [kidsOf] at hkk; subst hkk
                rw [ws] at hwk0; simp at hwk0
                exact wsL_mem _ hwk0.2 body (by simp)
            obtain ⟨he2, hoc, _⟩ := (ih (depthAfter op d)).2 body oc e2 hwb hq2
            subst he2
            by_cases hm : op = opMacro
            · simp [hm] at h
              obtain ⟨rfl, rfl⟩ := h
              refine ⟨rfl, ?_, fun k1 c1 a1 es1 ks1 hu => by cases hu⟩
              rw [hoc, ← heu]
              obtain ⟨x', r', hke⟩ := kidsOf_erase_two k0 x1 body r2 hwk0 hkk
              subst hm
              simp [erase, eraseL, eraseNode, hke]
            · simp [hm] at h
              obtain ⟨rfl, rfl⟩ := h
              exact ⟨rfl, heu, fun k1 c1 a1 es1 ks1 hu => by cases hu⟩

end MacroExpand
