import Proofs.DepTopo
/-! The fuel `sortFuel` of the loop of `graph.Sort` always suffices: every round removes a node or
    at least one edge. -/
namespace Dep
open DepScope (Name Kind Decl)

def measure (g : Graph) : Nat := g.length + edgeCount g

theorem edgeCount_cons (e : Entry) (g : Graph) : edgeCount (e :: g) = e.edges.length + edgeCount g := by
  simp [edgeCount]

theorem edgeCount_filter_le (p : Entry → Bool) (g : Graph) : edgeCount (g.filter p) ≤ edgeCount g := by
  induction g with
  | nil => simp [edgeCount]
  | cons e r ih =>
    simp only [List.filter_cons]
    split
    · rw [edgeCount_cons, edgeCount_cons]; omega
    · rw [edgeCount_cons]; omega

theorem edgeCount_map_le (f : Entry → List Name) (g : Graph) (h : ∀ e ∈ g, (f e).length ≤ e.edges.length) :
    edgeCount (g.map fun e => { e with edges := f e }) ≤ edgeCount g := by
  induction g with
  | nil => simp [edgeCount]
  | cons e r ih =>
    simp only [List.map_cons]
    rw [edgeCount_cons, edgeCount_cons]
    have := h e List.mem_cons_self
    have := ih (fun x hx => h x (List.mem_cons_of_mem _ hx))
    simp only at *
    omega

theorem edgeCount_map_lt (f : Entry → List Name) (g : Graph) (h : ∀ e ∈ g, (f e).length ≤ e.edges.length)
    (hs : ∃ e ∈ g, (f e).length < e.edges.length) :
    edgeCount (g.map fun e => { e with edges := f e }) < edgeCount g := by
  induction g with
  | nil => obtain ⟨e, he, _⟩ := hs; cases he
  | cons e r ih =>
    simp only [List.map_cons]
    rw [edgeCount_cons, edgeCount_cons]
    have h1 := h e List.mem_cons_self
    have h2 := edgeCount_map_le f r (fun x hx => h x (List.mem_cons_of_mem _ hx))
    obtain ⟨x, hx, hlt⟩ := hs
    rcases List.mem_cons.mp hx with rfl | hx
    · simp only at *; omega
    · have := ih (fun y hy => h y (List.mem_cons_of_mem _ hy)) ⟨x, hx, hlt⟩
      simp only at *; omega

theorem measure_removeUnresolvable_le (g : Graph) : measure (removeUnresolvable g) ≤ measure g := by
  unfold measure removeUnresolvable
  have := edgeCount_map_le (fun e => e.edges.filter (hasNode g)) g (fun e _ => List.length_filter_le _ _)
  simp only [List.length_map]
  omega

theorem measure_removeNode_lt {g : Graph} {e : Entry} (he : e ∈ g) : measure (removeNode g e.name) < measure g := by
  unfold measure removeNode
  have h1 : (g.filter (·.name != e.name)).length < g.length :=
    List.length_filter_lt_length_iff_exists.mpr ⟨e, he, by simp⟩
  have h2 := edgeCount_filter_le (·.name != e.name) g
  omega

theorem declsOf_name {g : Graph} (h : WF g) {n : Name} {d : Decl} (hd : d ∈ declsOf g n) : d.name = n := by
  unfold declsOf at hd
  split at hd
  · rename_i e hf
    have hm := List.mem_of_find?_eq_some hf
    have hp := List.find?_some hf
    rw [h.decl_name e hm d hd]
    simpa using hp
  · cases hd

/-- a non-empty batch of forward declarations removes at least one edge -/
theorem measure_removeTypeFwd_lt {g : Graph} (h : WF g) (ord : Ord) (k : Nat)
    (hne : (removeTypeFwd ord k g).1 ≠ []) : measure (removeTypeFwd ord k g).2 < measure g := by
  rw [removeTypeFwd_fst] at hne
  rw [removeTypeFwd_snd]
  have hne' : fwdCands ord k g ≠ [] := fun hc => hne (by rw [hc]; rfl)
  obtain ⟨d, hd⟩ := List.exists_mem_of_ne_nil _ hne'
  -- d is a type declaration named nc.1, and some type entry has an edge to nc.1
  have hd' := hd
  unfold fwdCands at hd'
  simp only at hd'
  rw [cand_foldl] at hd'
  simp only [ite_self, List.nil_append] at hd'
  obtain ⟨nc, _, hdn⟩ := List.mem_flatMap.mp hd'
  unfold candSel at hdn
  split at hdn
  · rename_i hcond
    have hname : d.name = nc.1 := declsOf_name h (List.mem_filter.mp hdn).1
    have hused : nc.1 ∈ usedByTypes g := by simpa using hcond.1
    unfold usedByTypes at hused
    obtain ⟨e, he, hne⟩ := List.mem_flatMap.mp hused
    obtain ⟨heg, hty⟩ := List.mem_filter.mp he
    unfold measure
    have hlt := edgeCount_map_lt (fun e =>
      (if isTypeEntry e = true then e.edges.filter (fun n => !(fwdCands ord k g).any (·.name == n)) else e.edges)) g
      (by intro x _; split
          · exact List.length_filter_le _ _
          · exact Nat.le_refl _)
      ⟨e, heg, by
        simp only [hty, if_true]
        apply List.length_filter_lt_length_iff_exists.mpr
        refine ⟨nc.1, hne, ?_⟩
        have : (fwdCands ord k g).any (·.name == nc.1) = true :=
          List.any_eq_true.mpr ⟨d, hd, by simp [hname]⟩
        simp [this]⟩
    simp only [List.length_map]
    omega
  · cases hdn

/-- **sort_fuel_sufficient**: any two amounts of fuel above the measure give the same result, so
    `none` from `sortLoop` with `sortFuel` always is the declaration-loop branch. -/
theorem sortLoop_fuel (ord : Ord) (hord : ord.OK) :
    ∀ (fuel1 fuel2 round : Nat) (g : Graph) (acc : List Decl), WF g → measure g < fuel1 → measure g < fuel2 →
      sortLoop ord fuel1 round g acc = sortLoop ord fuel2 round g acc := by
  intro fuel1
  induction fuel1 with
  | zero => intro fuel2 round g acc _ h; omega
  | succ f1 ih =>
    intro fuel2 round g acc hwf h1 h2
    cases fuel2 with
    | zero => omega
    | succ f2 =>
      simp only [sortLoop]
      split
      · rfl
      · split
        · rename_i e hpick
          have heg : e ∈ g := (hord _ g).mem_iff.mp (pickNoDeps_mem hpick).1
          have hm := measure_removeNode_lt heg
          have hm2 := measure_removeUnresolvable_le (removeNode g e.name)
          exact ih f2 _ _ _ (hwf.removeNode e.name).removeUnresolvable (by omega) (by omega)
        · split
          · rfl
          · rename_i hemp
            have hne : (removeTypeFwd ord (4 * round + 1) g).1 ≠ [] := by
              intro hc; rw [hc] at hemp; simp at hemp
            have hm := measure_removeTypeFwd_lt hwf ord (4 * round + 1) hne
            have hm2 := measure_removeUnresolvable_le (removeTypeFwd ord (4 * round + 1) g).2
            exact ih f2 _ _ _ (hwf.removeTypeFwd ord _).removeUnresolvable (by omega) (by omega)

end Dep
