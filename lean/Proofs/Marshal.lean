import Model.Marshal
/-!
# Lemmas for C32: decimal printer/parser round trip, splitting, literal parsing
-/
namespace Marshal

/-! ## decimal printer / parser -/

theorem natToDecAux_append (f n : Nat) (acc r : Bytes) :
    natToDecAux f n acc ++ r = natToDecAux f n (acc ++ r) := by
  induction f generalizing n acc with
  | zero => rfl
  | succ f ih =>
    unfold natToDecAux
    split
    · rfl
    · rw [ih]; rfl

theorem isDigit_add {n : Nat} (h : n < 10) : isDigit (48 + n) = true := by
  simp [isDigit]; omega

theorem parseDigits_natToDecAux (f n : Nat) (acc : Bytes) (h : n < f) :
    parseDigits 0 (natToDecAux f n acc) = parseDigits n acc := by
  induction f generalizing n acc with
  | zero => omega
  | succ f ih =>
    unfold natToDecAux
    split
    · rename_i h10
      simp [parseDigits, isDigit_add h10]
    · rename_i h10
      rw [ih (n / 10) _ (by omega)]
      have hd : isDigit (48 + n % 10) = true := isDigit_add (by omega)
      simp only [parseDigits, hd, if_true]
      congr 1
      omega

/-- the parser inverts the printer, whatever follows -/
theorem parseDigits_natToDec (n : Nat) (r : Bytes) :
    parseDigits 0 (natToDec n ++ r) = parseDigits n r := by
  unfold natToDec
  rw [natToDecAux_append, parseDigits_natToDecAux _ _ _ (by omega)]
  rfl

theorem parseDigits_natToDec' (n : Nat) : parseDigits 0 (natToDec n) = some n := by
  have := parseDigits_natToDec n []
  simpa [parseDigits] using this

theorem natToDecAux_all (f n : Nat) (acc : Bytes) :
    (natToDecAux f n acc).all isDigit = acc.all isDigit := by
  induction f generalizing n acc with
  | zero => rfl
  | succ f ih =>
    unfold natToDecAux
    split
    · rename_i h10; simp [isDigit_add h10]
    · rw [ih]
      have hd : isDigit (48 + n % 10) = true := isDigit_add (by omega)
      simp [hd]

theorem natToDec_all (n : Nat) : (natToDec n).all isDigit = true := by
  unfold natToDec; rw [natToDecAux_all]; rfl

theorem natToDecAux_ne_nil (f n : Nat) (acc : Bytes) (h : acc ≠ []) : natToDecAux f n acc ≠ [] := by
  induction f generalizing n acc with
  | zero => exact h
  | succ f ih =>
    unfold natToDecAux
    split
    · simp
    · exact ih _ _ (by simp)

/-- for n > 0 the first digit is not '0' -/
theorem natToDecAux_head (f n : Nat) (acc : Bytes) (h : n < f) (hn : 0 < n) :
    ∃ c t, natToDecAux f n acc = c :: t ∧ c ≠ 48 := by
  induction f generalizing n acc with
  | zero => omega
  | succ f ih =>
    unfold natToDecAux
    split
    · exact ⟨48 + n, acc, rfl, by omega⟩
    · exact ih (n / 10) _ (by omega) (by omega)

theorem natToDec_cons (n : Nat) : ∃ c t, natToDec n = c :: t ∧ isDigit c = true ∧ t.all isDigit = true
    ∧ (c = 48 → t = []) := by
  have hall := natToDec_all n
  by_cases hn : n = 0
  · subst hn
    exact ⟨48, [], by decide, by decide, by decide, fun _ => rfl⟩
  · obtain ⟨c, t, h, hc⟩ := natToDecAux_head (n + 1) n [] (by omega) (by omega)
    have h' : natToDec n = c :: t := h
    rw [h'] at hall
    simp only [List.all_cons, Bool.and_eq_true] at hall
    exact ⟨c, t, h', hall.1, hall.2, fun h0 => absurd h0 hc⟩

theorem isDecimal_natToDec (n : Nat) : isDecimal (natToDec n) = true := by
  obtain ⟨c, t, h, hc, ht, h0⟩ := natToDec_cons n
  rw [h]
  cases t with
  | nil => simpa [isDecimal] using hc
  | cons a t =>
    have : c ≠ 48 := fun e => by have := h0 e; simp at this
    simp [isDecimal, hc, this]
    simpa using ht

theorem natToDec_not_mem (n c : Nat) (hc : isDigit c = false) : ∀ x ∈ natToDec n, x ≠ c := by
  intro x hx e
  have := natToDec_all n
  rw [List.all_eq_true] at this
  have := this x hx
  rw [e, hc] at this
  exact Bool.noConfusion this

/-! ## splitting at the first occurrence of a byte -/

theorem splitFirst_append (c : Nat) (l r : Bytes) (h : ∀ x ∈ l, x ≠ c) :
    splitFirst c (l ++ c :: r) = some (l, r) := by
  induction l with
  | nil => simp [splitFirst]
  | cons a l ih =>
    have ha : a ≠ c := h a (by simp)
    have := ih (fun x hx => h x (by simp [hx]))
    simp [splitFirst, ha, this]

theorem splitFirst_none (c : Nat) (l : Bytes) (h : ∀ x ∈ l, x ≠ c) : splitFirst c l = none := by
  induction l with
  | nil => rfl
  | cons a l ih =>
    have ha : a ≠ c := h a (by simp)
    have := ih (fun x hx => h x (by simp [hx]))
    simp [splitFirst, ha, this]

/-! ## signed decimal -/

theorem splitSign_intToDec (i : Int) :
    splitSign (intToDec i) = (decide (i < 0), natToDec i.natAbs) := by
  unfold intToDec
  split
  · rename_i h; simp [splitSign, cMinus, h]
  · rename_i h
    obtain ⟨c, t, hct, hc, _, _⟩ := natToDec_cons i.natAbs
    rw [hct]
    have h1 : c ≠ 45 := by intro e; subst e; revert hc; decide
    have h2 : c ≠ 43 := by intro e; subst e; revert hc; decide
    simp [splitSign, h1, h2, h]

theorem applySign_natAbs (i : Int) : applySign (decide (i < 0)) i.natAbs = i := by
  unfold applySign
  by_cases h : i < 0 <;> simp [h] <;> omega

theorem parseIntLit_intToDec (i : Int) : parseIntLit (intToDec i) = .val i := by
  unfold parseIntLit
  rw [splitSign_intToDec]
  simp only [isDecimal_natToDec, if_true, parseDigits_natToDec', applySign_natAbs]

theorem intToDec_not_mem (i : Int) (c : Nat) (hc : isDigit c = false) (h45 : c ≠ 45) :
    ∀ x ∈ intToDec i, x ≠ c := by
  intro x hx
  unfold intToDec at hx
  split at hx
  · rcases List.mem_cons.mp hx with h | h
    · rw [h]; exact fun e => h45 e.symm
    · exact natToDec_not_mem _ c hc x h
  · exact natToDec_not_mem _ c hc x hx


/-! ## bit lengths and the 512-bit rounding: only upper bounds are needed -/

theorem bitlen_le_iff (x b : Nat) : bitlen x ≤ b ↔ x < 2 ^ b := by
  unfold bitlen
  by_cases h : x = 0
  · subst h; simp; exact Nat.two_pow_pos _
  · simp only [h, if_false]
    rw [← Nat.log2_lt h]
    omega

theorem lt_pow_bitlen (x : Nat) : x < 2 ^ bitlen x := (bitlen_le_iff x _).mp (Nat.le_refl _)

theorem bitlen_shiftRight (x s : Nat) : bitlen (x >>> s) ≤ bitlen x - s := by
  rw [bitlen_le_iff, Nat.shiftRight_eq_div_pow]
  have hx := lt_pow_bitlen x
  rw [Nat.div_lt_iff_lt_mul (Nat.two_pow_pos _), ← Nat.pow_add]
  exact Nat.lt_of_lt_of_le hx (Nat.pow_le_pow_right (by decide) (by omega))

theorem bitlen_div_pow (x s : Nat) : bitlen (x / 2 ^ s) ≤ bitlen x - s := by
  rw [← Nat.shiftRight_eq_div_pow]; exact bitlen_shiftRight x s

theorem bitlen_succ (x : Nat) : bitlen (x + 1) ≤ bitlen x + 1 := by
  rw [bitlen_le_iff, Nat.pow_succ]
  have := lt_pow_bitlen x
  omega

theorem bitlen_shiftLeft (x k : Nat) : bitlen (x <<< k) ≤ bitlen x + k := by
  rw [bitlen_le_iff, Nat.shiftLeft_eq, Nat.pow_add]
  exact Nat.mul_lt_mul_of_pos_right (lt_pow_bitlen x) (Nat.two_pow_pos _)

theorem bitlen_one : bitlen 1 = 1 := by decide

/-- the binary exponent of the rounded value of an integer exceeds its bit length by at most one -/
theorem expOf_roundRat_int (m : Nat) :
    expOf (roundRat m 1).1 (roundRat m 1).2 ≤ (bitlen m : Int) + 1 ∧
    -516 ≤ expOf (roundRat m 1).1 (roundRat m 1).2 := by
  unfold roundRat expOf
  simp only [bitlen_one, prec]
  generalize hL : bitlen m = L
  by_cases hk : (515 + ((1 : Nat) : Int) - (L : Int)) ≥ 0
  · simp only [hk, if_true, Nat.div_one]
    generalize hq0 : m <<< (515 + ((1 : Nat) : Int) - (L : Int)).toNat = q0
    have hb0 : bitlen q0 ≤ L + (515 + ((1 : Nat) : Int) - (L : Int)).toNat := by
      rw [← hq0, ← hL]; exact bitlen_shiftLeft _ _
    have hb1 := bitlen_shiftRight q0 (bitlen q0 - 512)
    have hb2 := bitlen_succ (q0 >>> (bitlen q0 - 512))
    split <;> constructor <;> omega
  · simp only [hk, if_false]
    rw [Nat.shiftLeft_eq, Nat.one_mul]
    generalize hq0 : m / 2 ^ (-(515 + ((1 : Nat) : Int) - (L : Int))).toNat = q0
    have hb0 : bitlen q0 ≤ L - (-(515 + ((1 : Nat) : Int) - (L : Int))).toNat := by
      rw [← hq0, ← hL]; exact bitlen_div_pow _ _
    have hb1 := bitlen_shiftRight q0 (bitlen q0 - 512)
    have hb2 := bitlen_succ (q0 >>> (bitlen q0 - 512))
    split <;> constructor <;> omega

/-- an integer literal below 2^4094 is re-read exactly by makeFloatFromLiteral -/
theorem floatOfShift_small (neg : Bool) (m : Nat) (h : m < 2 ^ 4094) :
    floatOfShift neg m 0 = .rat (applySign neg m) 1 := by
  unfold floatOfShift
  by_cases hm : m = 0
  · subst hm; cases neg <;> rfl
  · simp only [hm, if_false]
    have hb : bitlen m ≤ 4094 := (bitlen_le_iff m 4094).mpr h
    obtain ⟨h1, h2⟩ := expOf_roundRat_int m
    have hs : smallExp (expOf (roundRat m 1).1 ((roundRat m 1).2 + 0)) = true := by
      simp only [Int.add_zero]
      unfold smallExp maxExp
      simp only [Bool.and_eq_true, decide_eq_true_eq]
      constructor <;> omega
    simp only [hs, if_true]
    simp [ratOfShift]

theorem smallInt_of_lt (m : Nat) (h : m < 2 ^ 4094) : smallInt m = true := by
  unfold smallInt maxExp
  have hb : bitlen m ≤ 4094 := (bitlen_le_iff m 4094).mpr h
  simp; omega

/-! ## float literals, fractions -/

theorem parseFloatLit_intToDec (i : Int) :
    parseFloatLit (intToDec i) = .val (floatOfShift (decide (i < 0)) i.natAbs 0) := by
  unfold parseFloatLit
  rw [splitSign_intToDec]
  obtain ⟨c, t, hct, _, _, _⟩ := natToDec_cons i.natAbs
  have hne : (natToDec i.natAbs).isEmpty = false := by rw [hct]; rfl
  simp only [hne, natToDec_all, Bool.not_false, Bool.and_self, if_true, parseDigits_natToDec']

theorem parseFloatLit_small (i : Int) (h : i.natAbs < 2 ^ 4094) :
    parseFloatLit (intToDec i) = .val (.rat i 1) := by
  rw [parseFloatLit_intToDec, floatOfShift_small _ _ h, applySign_natAbs]

theorem intToDec_ofNat (d : Nat) : intToDec (d : Int) = natToDec d := by
  unfold intToDec
  have : ¬ ((d : Int) < 0) := by omega
  simp [this]

theorem mkRat_coprime (n : Int) (d : Nat) (h : Nat.gcd n.natAbs d = 1) : mkRat n d = .rat n d := by
  unfold mkRat
  simp [h]

/-- a/b in lowest terms, both below 2^4094: BinaryOp(a, QUO, b) is the exact fraction -/
theorem quo_small (n : Int) (d : Nat) (hd : 0 < d) (hg : Nat.gcd n.natAbs d = 1)
    (hn : n.natAbs < 2 ^ 4094) (hd' : d < 2 ^ 4094) :
    quo (.rat n 1) (.rat (d : Int) 1) = .val (.rat n d) := by
  unfold quo
  have h0 : (d : Int) ≠ 0 := by omega
  have h1 : ¬ ((d : Int) < 0) := by omega
  simp only [h0, if_false, h1, Int.mul_one, Nat.one_mul, Int.natAbs_natCast]
  have e : n * ((1 : Nat) : Int) = n := by simp
  rw [e, mkRat_coprime n d hg]
  simp [makeRat, smallInt_of_lt _ hn, smallInt_of_lt _ hd']

def Flt.WF : Flt → Prop
  | .rat n d => 0 < d ∧ Nat.gcd n.natAbs d = 1
  | .big neg m e => (m = 0 ∧ neg = false ∧ e = 0) ∨ (m % 2 = 1 ∧ m < 2 ^ 512)

/-- exact rational whose numerator and denominator are below 2^4094 -/
def Flt.Small : Flt → Prop
  | .rat n d => n.natAbs < 2 ^ 4094 ∧ d < 2 ^ 4094
  | .big _ _ _ => False

theorem unmarshalFloat_exactString (f : Flt) (hw : f.WF) (hs : f.Small) :
    unmarshalFloat (exactString f) = .val f := by
  cases f with
  | big neg m e => exact absurd hs (by simp [Flt.Small])
  | rat n d =>
    obtain ⟨hd, hg⟩ := hw
    obtain ⟨hn, hd'⟩ := hs
    unfold exactString
    by_cases h1 : d = 1
    · subst h1
      simp only [if_true]
      unfold unmarshalFloat
      simp only [splitFirst_none cSlash _ (intToDec_not_mem n cSlash (by decide) (by decide)),
        parseFloatLit_small n hn, ofLit]
    · simp only [h1, if_false]
      unfold unmarshalFloat
      have := parseFloatLit_small (d : Int) (by simpa using hd')
      rw [intToDec_ofNat] at this
      simp only [splitFirst_append cSlash _ _ (intToDec_not_mem n cSlash (by decide) (by decide)),
        parseFloatLit_small n hn, this, quo_small n d hd hg hn hd']

theorem exactString_rat_not_mem_colon (n : Int) (d : Nat) : ∀ x ∈ exactString (.rat n d), x ≠ cColon := by
  intro x hx
  simp only [exactString] at hx
  split at hx
  · exact intToDec_not_mem n cColon (by decide) (by decide) x hx
  · rcases List.mem_append.mp hx with h | h
    · exact intToDec_not_mem n cColon (by decide) (by decide) x h
    · rcases List.mem_cons.mp h with h | h
      · rw [h]; decide
      · exact natToDec_not_mem d cColon (by decide) x h

theorem addZero_small (f : Flt) (hs : f.Small) : addZero f = f := by
  cases f with
  | big neg m e => rfl
  | rat n d =>
    unfold addZero makeRat
    simp [smallInt_of_lt _ hs.1, smallInt_of_lt _ hs.2]
end Marshal
