import Model.Marshal
/-!
# Lemmas for C32: decimal printer/parser round trip, splitting, literal parsing
-/
set_option exponentiation.threshold 5000
namespace Marshal

/-! ## decimal printer / parser -/

theorem natToDecAux_append (f n : Nat) (acc r : Bytes) :
    natToDecAux f n acc ++ r = natToDecAux f n (acc ++ r) := by
  induction f generalizing n acc with
  | zero => rfl
  | succ f ih =>
    unfold natToDecAux
    split
    · rfl
    · rw [ih]; rfl

theorem isDigit_add {n : Nat} (h : n < 10) : isDigit (48 + n) = true := by
  simp [isDigit]; omega

theorem parseDigits_natToDecAux (f n : Nat) (acc : Bytes) (h : n < f) :
    parseDigits 0 (natToDecAux f n acc) = parseDigits n acc := by
  induction f generalizing n acc with
  | zero => omega
  | succ f ih =>
    unfold natToDecAux
    split
    · rename_i h10
      simp [parseDigits, isDigit_add h10]
    · rename_i h10
      rw [ih (n / 10) _ (by omega)]
      have hd : isDigit (48 + n % 10) = true := isDigit_add (by omega)
      simp only [parseDigits, hd, if_true]
      congr 1
      omega

/-- the parser inverts the printer, whatever follows -/
theorem parseDigits_natToDec (n : Nat) (r : Bytes) :
    parseDigits 0 (natToDec n ++ r) = parseDigits n r := by
  unfold natToDec
  rw [natToDecAux_append, parseDigits_natToDecAux _ _ _ (by omega)]
  rfl

theorem parseDigits_natToDec' (n : Nat) : parseDigits 0 (natToDec n) = some n := by
  have := parseDigits_natToDec n []
  simpa [parseDigits] using this

theorem natToDecAux_all (f n : Nat) (acc : Bytes) :
    (natToDecAux f n acc).all isDigit = acc.all isDigit := by
  induction f generalizing n acc with
  | zero => rfl
  | succ f ih =>
    unfold natToDecAux
    split
    · rename_i h10; simp [isDigit_add h10]
    · rw [ih]
      have hd : isDigit (48 + n % 10) = true := isDigit_add (by omega)
      simp [hd]

theorem natToDec_all (n : Nat) : (natToDec n).all isDigit = true := by
  unfold natToDec; rw [natToDecAux_all]; rfl

theorem natToDecAux_ne_nil (f n : Nat) (acc : Bytes) (h : acc ≠ []) : natToDecAux f n acc ≠ [] := by
  induction f generalizing n acc with
  | zero => exact h
  | succ f ih =>
    unfold natToDecAux
    split
    · simp
    · exact ih _ _ (by simp)

/-- for n > 0 the first digit is not '0' -/
theorem natToDecAux_head (f n : Nat) (acc : Bytes) (h : n < f) (hn : 0 < n) :
    ∃ c t, natToDecAux f n acc = c :: t ∧ c ≠ 48 := by
  induction f generalizing n acc with
  | zero => omega
  | succ f ih =>
    unfold natToDecAux
    split
    · exact ⟨48 + n, acc, rfl, by omega⟩
    · exact ih (n / 10) _ (by omega) (by omega)

theorem natToDec_cons (n : Nat) : ∃ c t, natToDec n = c :: t ∧ isDigit c = true ∧ t.all isDigit = true
    ∧ (c = 48 → t = []) := by
  have hall := natToDec_all n
  by_cases hn : n = 0
  · subst hn
    exact ⟨48, [], by decide, by decide, by decide, fun _ => rfl⟩
  · obtain ⟨c, t, h, hc⟩ := natToDecAux_head (n + 1) n [] (by omega) (by omega)
    have h' : natToDec n = c :: t := h
    rw [h'] at hall
    simp only [List.all_cons, Bool.and_eq_true] at hall
    exact ⟨c, t, h', hall.1, hall.2, fun h0 => absurd h0 hc⟩

theorem isDecimal_natToDec (n : Nat) : isDecimal (natToDec n) = true := by
  obtain ⟨c, t, h, hc, ht, h0⟩ := natToDec_cons n
  rw [h]
  cases t with
  | nil => simpa [isDecimal] using hc
  | cons a t =>
    have : c ≠ 48 := fun e => by have := h0 e; simp at this
    simp [isDecimal, hc, this]
    simpa using ht

theorem natToDec_not_mem (n c : Nat) (hc : isDigit c = false) : ∀ x ∈ natToDec n, x ≠ c := by
  intro x hx e
  have := natToDec_all n
  rw [List.all_eq_true] at this
  have := this x hx
  rw [e, hc] at this
  exact Bool.noConfusion this

/-! ## splitting at the first occurrence of a byte -/

theorem splitFirst_append (c : Nat) (l r : Bytes) (h : ∀ x ∈ l, x ≠ c) :
    splitFirst c (l ++ c :: r) = some (l, r) := by
  induction l with
  | nil => simp [splitFirst]
  | cons a l ih =>
    have ha : a ≠ c := h a (by simp)
    have := ih (fun x hx => h x (by simp [hx]))
    simp [splitFirst, ha, this]

theorem splitFirst_none (c : Nat) (l : Bytes) (h : ∀ x ∈ l, x ≠ c) : splitFirst c l = none := by
  induction l with
  | nil => rfl
  | cons a l ih =>
    have ha : a ≠ c := h a (by simp)
    have := ih (fun x hx => h x (by simp [hx]))
    simp [splitFirst, ha, this]

/-! ## signed decimal -/

theorem splitSign_intToDec (i : Int) :
    splitSign (intToDec i) = (decide (i < 0), natToDec i.natAbs) := by
  unfold intToDec
  split
  · rename_i h; simp [splitSign, cMinus, h]
  · rename_i h
    obtain ⟨c, t, hct, hc, _, _⟩ := natToDec_cons i.natAbs
    rw [hct]
    have h1 : c ≠ 45 := by intro e; subst e; revert hc; decide
    have h2 : c ≠ 43 := by intro e; subst e; revert hc; decide
    simp [splitSign, h1, h2, h]

theorem applySign_natAbs (i : Int) : applySign (decide (i < 0)) i.natAbs = i := by
  unfold applySign
  by_cases h : i < 0 <;> simp [h] <;> omega

theorem parseIntLit_intToDec (i : Int) : parseIntLit (intToDec i) = .val i := by
  unfold parseIntLit
  rw [splitSign_intToDec]
  simp only [isDecimal_natToDec, if_true, parseDigits_natToDec', applySign_natAbs]

theorem intToDec_not_mem (i : Int) (c : Nat) (hc : isDigit c = false) (h45 : c ≠ 45) :
    ∀ x ∈ intToDec i, x ≠ c := by
  intro x hx
  unfold intToDec at hx
  split at hx
  · rcases List.mem_cons.mp hx with h | h
    · rw [h]; exact fun e => h45 e.symm
    · exact natToDec_not_mem _ c hc x h
  · exact natToDec_not_mem _ c hc x hx


/-! ## bit lengths and the 512-bit rounding: only upper bounds are needed -/

theorem bitlen_le_iff (x b : Nat) : bitlen x ≤ b ↔ x < 2 ^ b := by
  unfold bitlen
  by_cases h : x = 0
  · subst h; simp; exact Nat.two_pow_pos _
  · simp only [h, if_false]
    rw [← Nat.log2_lt h]
    omega

theorem lt_pow_bitlen (x : Nat) : x < 2 ^ bitlen x := (bitlen_le_iff x _).mp (Nat.le_refl _)

theorem bitlen_shiftRight (x s : Nat) : bitlen (x >>> s) ≤ bitlen x - s := by
  rw [bitlen_le_iff, Nat.shiftRight_eq_div_pow]
  have hx := lt_pow_bitlen x
  rw [Nat.div_lt_iff_lt_mul (Nat.two_pow_pos _), ← Nat.pow_add]
  exact Nat.lt_of_lt_of_le hx (Nat.pow_le_pow_right (by decide) (by omega))

theorem bitlen_div_pow (x s : Nat) : bitlen (x / 2 ^ s) ≤ bitlen x - s := by
  rw [← Nat.shiftRight_eq_div_pow]; exact bitlen_shiftRight x s

theorem bitlen_succ (x : Nat) : bitlen (x + 1) ≤ bitlen x + 1 := by
  rw [bitlen_le_iff, Nat.pow_succ]
  have := lt_pow_bitlen x
  omega

theorem bitlen_shiftLeft (x k : Nat) : bitlen (x <<< k) ≤ bitlen x + k := by
  rw [bitlen_le_iff, Nat.shiftLeft_eq, Nat.pow_add]
  exact Nat.mul_lt_mul_of_pos_right (lt_pow_bitlen x) (Nat.two_pow_pos _)

theorem bitlen_one : bitlen 1 = 1 := by decide

/-- the binary exponent of the rounded value of an integer exceeds its bit length by at most one -/
theorem expOf_roundRat_int (m : Nat) :
    expOf (roundRat m 1).1 (roundRat m 1).2 ≤ (bitlen m : Int) + 1 ∧
    -516 ≤ expOf (roundRat m 1).1 (roundRat m 1).2 := by
  unfold roundRat expOf
  simp only [bitlen_one, prec]
  generalize hL : bitlen m = L
  by_cases hk : (515 + ((1 : Nat) : Int) - (L : Int)) ≥ 0
  · simp only [hk, if_true, Nat.div_one]
    generalize hq0 : m <<< (515 + ((1 : Nat) : Int) - (L : Int)).toNat = q0
    have hb0 : bitlen q0 ≤ L + (515 + ((1 : Nat) : Int) - (L : Int)).toNat := by
      rw [← hq0, ← hL]; exact bitlen_shiftLeft _ _
    have hb1 := bitlen_shiftRight q0 (bitlen q0 - 512)
    have hb2 := bitlen_succ (q0 >>> (bitlen q0 - 512))
    split <;> constructor <;> omega
  · simp only [hk, if_false]
    rw [Nat.shiftLeft_eq, Nat.one_mul]
    generalize hq0 : m / 2 ^ (-(515 + ((1 : Nat) : Int) - (L : Int))).toNat = q0
    have hb0 : bitlen q0 ≤ L - (-(515 + ((1 : Nat) : Int) - (L : Int))).toNat := by
      rw [← hq0, ← hL]; exact bitlen_div_pow _ _
    have hb1 := bitlen_shiftRight q0 (bitlen q0 - 512)
    have hb2 := bitlen_succ (q0 >>> (bitlen q0 - 512))
    split <;> constructor <;> omega

/-- an integer literal below 2^4094 is re-read exactly by makeFloatFromLiteral -/
theorem floatOfShift_small (neg : Bool) (m : Nat) (h : m < 2 ^ 4094) :
    floatOfShift neg m 0 = .rat (applySign neg m) 1 := by
  unfold floatOfShift
  by_cases hm : m = 0
  · subst hm; cases neg <;> rfl
  · simp only [hm, if_false]
    have hb : bitlen m ≤ 4094 := (bitlen_le_iff m 4094).mpr h
    obtain ⟨h1, h2⟩ := expOf_roundRat_int m
    have hs : smallExp (expOf (roundRat m 1).1 ((roundRat m 1).2 + 0)) = true := by
      simp only [Int.add_zero]
      unfold smallExp maxExp
      simp only [Bool.and_eq_true, decide_eq_true_eq]
      constructor <;> omega
    simp only [hs, if_true]
    simp [ratOfShift]

theorem smallInt_of_lt (m : Nat) (h : m < 2 ^ 4094) : smallInt m = true := by
  unfold smallInt maxExp
  have hb : bitlen m ≤ 4094 := (bitlen_le_iff m 4094).mpr h
  simp; omega

/-! ## float literals, fractions -/

theorem parseFloatLit_intToDec (cfg : Bool) (i : Int) :
    parseFloatLit cfg (intToDec i) =
      .val (if cfg then decimalIntToFloat (decide (i < 0)) i.natAbs
            else floatOfShift (decide (i < 0)) i.natAbs 0) := by
  unfold parseFloatLit
  rw [splitSign_intToDec]
  obtain ⟨c, t, hct, _, _, _⟩ := natToDec_cons i.natAbs
  have hne : (natToDec i.natAbs).isEmpty = false := by rw [hct]; rfl
  simp only [hne, natToDec_all, Bool.not_false, Bool.and_self, if_true, parseDigits_natToDec']

/-- The integers that the literal reader of `unmarshalFloat` returns unchanged:
    code as found (`cfg = false`): below 2^4094 (sufficient; the exact limit is 2^4095 - 2^3582);
    with the fix (`cfg = true`): exactly those go/constant keeps as fractions (fewer than 4096 bits). -/
def okNat (cfg : Bool) (n : Nat) : Prop := if cfg = true then smallInt n = true else n < 2 ^ 4094

theorem okNat_of_lt (cfg : Bool) (n : Nat) (h : n < 2 ^ 4094) : okNat cfg n := by
  unfold okNat; split
  · exact smallInt_of_lt n h
  · exact h

theorem okNat_smallInt (cfg : Bool) (n : Nat) (h : okNat cfg n) : smallInt n = true := by
  unfold okNat at h; split at h
  · exact h
  · exact smallInt_of_lt n h

theorem parseFloatLit_ok (cfg : Bool) (i : Int) (h : okNat cfg i.natAbs) :
    parseFloatLit cfg (intToDec i) = .val (.rat i 1) := by
  rw [parseFloatLit_intToDec]
  cases cfg with
  | false =>
    have h' : i.natAbs < 2 ^ 4094 := by simpa [okNat] using h
    simp [floatOfShift_small _ _ h', applySign_natAbs]
  | true =>
    have h' : smallInt i.natAbs = true := by simpa [okNat] using h
    simp [decimalIntToFloat, h', applySign_natAbs]

theorem intToDec_ofNat (d : Nat) : intToDec (d : Int) = natToDec d := by
  unfold intToDec
  have : ¬ ((d : Int) < 0) := by omega
  simp [this]

theorem mkRat_coprime (n : Int) (d : Nat) (h : Nat.gcd n.natAbs d = 1) : mkRat n d = .rat n d := by
  unfold mkRat
  simp [h]

/-- a/b in lowest terms, both with fewer than 4096 bits: BinaryOp(a, QUO, b) is the exact fraction -/
theorem quo_small (n : Int) (d : Nat) (hd : 0 < d) (hg : Nat.gcd n.natAbs d = 1)
    (hn : smallInt n.natAbs = true) (hd' : smallInt d = true) :
    quo (.rat n 1) (.rat (d : Int) 1) = .val (.rat n d) := by
  unfold quo
  have h0 : (d : Int) ≠ 0 := by omega
  have h1 : ¬ ((d : Int) < 0) := by omega
  simp only [h0, if_false, h1, Int.mul_one, Nat.one_mul, Int.natAbs_natCast]
  have e : n * ((1 : Nat) : Int) = n := by simp
  rw [e, mkRat_coprime n d hg]
  simp [makeRat, hn, hd']

def Flt.WF : Flt → Prop
  | .rat n d => 0 < d ∧ Nat.gcd n.natAbs d = 1
  | .big neg m e => (m = 0 ∧ neg = false ∧ e = 0) ∨ (m % 2 = 1 ∧ m < 2 ^ 512)

/-- The float representations for which the round trip is proved:
    an exact fraction whose numerator and denominator are read back unchanged (`okNat`), or a genuine
    floatVal: odd mantissa below 2^512 and a binary exponent outside (-4096, 4096) (a floatVal with a
    small exponent legitimately comes back as the equal fraction) and below 10^9 in magnitude. -/
def Flt.InDomain (cfg : Bool) : Flt → Prop
  | .rat n d => okNat cfg n.natAbs ∧ okNat cfg d
  | .big _ m e => m % 2 = 1 ∧ m < 2 ^ 512 ∧ smallExp (e + (bitlen m : Int)) = false ∧
      (e + (bitlen m : Int)).natAbs < 10 ^ 9

theorem exactString_rat_not_mem_colon (n : Int) (d : Nat) : ∀ x ∈ exactString (.rat n d), x ≠ cColon := by
  intro x hx
  simp only [exactString] at hx
  split at hx
  · exact intToDec_not_mem n cColon (by decide) (by decide) x hx
  · rcases List.mem_append.mp hx with h | h
    · exact intToDec_not_mem n cColon (by decide) (by decide) x h
    · rcases List.mem_cons.mp h with h | h
      · rw [h]; decide
      · exact natToDec_not_mem d cColon (by decide) x h

/-! ## hex printer / parser (mantissa of the floatVal text form) -/

theorem hexDigitsAux_append (f n : Nat) (acc r : Bytes) :
    hexDigitsAux f n acc ++ r = hexDigitsAux f n (acc ++ r) := by
  induction f generalizing n acc with
  | zero => rfl
  | succ f ih =>
    unfold hexDigitsAux
    split
    · rfl
    · rw [ih]; rfl

theorem hexVal_hexChar {d : Nat} (h : d < 16) : hexVal (hexChar d) = some d := by
  unfold hexChar hexVal
  by_cases h10 : d < 10
  · simp [h10]; omega
  · have h1 : (decide (48 ≤ 87 + d) && decide (87 + d ≤ 57)) = false := by simp; omega
    have h2 : (decide (97 ≤ 87 + d) && decide (87 + d ≤ 102)) = true := by simp; omega
    simp [h10, h1, h2]

theorem parseHex_hexDigitsAux (f n : Nat) (acc : Bytes) (h : n < f) :
    parseHex 0 (hexDigitsAux f n acc) = parseHex n acc := by
  induction f generalizing n acc with
  | zero => omega
  | succ f ih =>
    unfold hexDigitsAux
    split
    · rename_i h16
      simp [parseHex, hexVal_hexChar h16]
    · rename_i h16
      rw [ih (n / 16) _ (by omega)]
      have hd : hexVal (hexChar (n % 16)) = some (n % 16) := hexVal_hexChar (by omega)
      simp only [parseHex, hd]
      congr 1
      omega

/-- own hex parser inverts own hex printer, whatever follows -/
theorem parseHex_hexDigits (n : Nat) (r : Bytes) :
    parseHex 0 (hexDigits n ++ r) = parseHex n r := by
  unfold hexDigits
  rw [hexDigitsAux_append, parseHex_hexDigitsAux _ _ _ (by omega)]
  rfl

theorem parseHex_hexDigits' (n : Nat) : parseHex 0 (hexDigits n) = some n := by
  have := parseHex_hexDigits n []
  simpa [parseHex] using this

theorem hexDigitsAux_all (f n : Nat) (acc : Bytes) :
    (hexDigitsAux f n acc).all (fun c => (hexVal c).isSome) = acc.all (fun c => (hexVal c).isSome) := by
  induction f generalizing n acc with
  | zero => rfl
  | succ f ih =>
    unfold hexDigitsAux
    split
    · rename_i h16; simp [hexVal_hexChar h16]
    · rw [ih]
      have hd : hexVal (hexChar (n % 16)) = some (n % 16) := hexVal_hexChar (by omega)
      simp [hd]

theorem hexDigits_all (n : Nat) : (hexDigits n).all (fun c => (hexVal c).isSome) = true := by
  unfold hexDigits; rw [hexDigitsAux_all]; rfl

theorem takeWhile_append_stop (p : Nat → Bool) (l r : Bytes) (c : Nat)
    (hl : l.all p = true) (hc : p c = false) :
    (l ++ c :: r).takeWhile p = l ∧ (l ++ c :: r).dropWhile p = c :: r := by
  induction l with
  | nil => simp [List.takeWhile, List.dropWhile, hc]
  | cons a l ih =>
    simp only [List.all_cons, Bool.and_eq_true] at hl
    have := ih hl.2
    simp [List.takeWhile, List.dropWhile, hl.1, this.1, this.2]

theorem hexDigitsAux_ne_nil (f n : Nat) (acc : Bytes) (h : acc ≠ []) : hexDigitsAux f n acc ≠ [] := by
  induction f generalizing n acc with
  | zero => exact h
  | succ f ih =>
    unfold hexDigitsAux
    split
    · simp
    · exact ih _ _ (by simp)

theorem hexDigits_ne_nil (n : Nat) : hexDigits n ≠ [] := by
  unfold hexDigits hexDigitsAux
  split
  · simp
  · exact hexDigitsAux_ne_nil _ _ _ (by simp)

theorem hexDigitsAux_length (f n : Nat) (acc : Bytes) (k : Nat) (hk : 0 < k) (h : n < 16 ^ k) :
    (hexDigitsAux f n acc).length ≤ k + acc.length := by
  induction f generalizing n acc k with
  | zero => simp [hexDigitsAux]
  | succ f ih =>
    unfold hexDigitsAux
    split
    · simp; omega
    · rename_i h16
      have hk2 : 2 ≤ k := by
        rcases Nat.lt_or_ge k 2 with hlt | hge
        · have : k = 1 := by omega
          subst this; simp at h; omega
        · exact hge
      have hdiv : n / 16 < 16 ^ (k - 1) := by
        apply Nat.div_lt_of_lt_mul
        have : 16 ^ k = 16 * 16 ^ (k - 1) := by
          rw [← Nat.pow_succ']; congr 1; omega
        omega
      have := ih (n / 16) (hexChar (n % 16) :: acc) (k - 1) (by omega) hdiv
      simp only [List.length_cons] at this
      omega

theorem natToDecAux_length (f n : Nat) (acc : Bytes) (k : Nat) (hk : 0 < k) (h : n < 10 ^ k) :
    (natToDecAux f n acc).length ≤ k + acc.length := by
  induction f generalizing n acc k with
  | zero => simp [natToDecAux]
  | succ f ih =>
    unfold natToDecAux
    split
    · simp; omega
    · rename_i h10
      have hk2 : 2 ≤ k := by
        rcases Nat.lt_or_ge k 2 with hlt | hge
        · have : k = 1 := by omega
          subst this; simp at h; omega
        · exact hge
      have hdiv : n / 10 < 10 ^ (k - 1) := by
        apply Nat.div_lt_of_lt_mul
        have : 10 ^ k = 10 * 10 ^ (k - 1) := by
          rw [← Nat.pow_succ']; congr 1; omega
        omega
      have := ih (n / 10) ((48 + n % 10) :: acc) (k - 1) (by omega) hdiv
      simp only [List.length_cons] at this
      omega

theorem mantHex_length (m : Nat) (hm : m < 2 ^ 512) : (mantHex m).length ≤ 128 := by
  unfold mantHex hexDigits
  have hb : bitlen m ≤ 512 := (bitlen_le_iff m 512).mpr hm
  have hM : m <<< ((4 - bitlen m % 4) % 4) < 16 ^ 128 := by
    have h1 := bitlen_shiftLeft m ((4 - bitlen m % 4) % 4)
    have h2 : bitlen (m <<< ((4 - bitlen m % 4) % 4)) ≤ 512 := by omega
    have := (bitlen_le_iff _ 512).mp h2
    have e : (16 : Nat) ^ 128 = 2 ^ 512 := by decide +kernel
    omega
  have := hexDigitsAux_length (m <<< ((4 - bitlen m % 4) % 4) + 1) _ [] 128 (by omega) hM
  simpa using this

theorem splitSign_expToDec (x : Int) :
    splitSign (expToDec x) = (decide (x < 0), natToDec x.natAbs) := by
  unfold expToDec
  split
  · rename_i h
    have : ¬ x < 0 := by omega
    simp [splitSign, cPlus, this]
  · rename_i h
    have : x < 0 := by omega
    simp [splitSign, cMinus, this]

/-- The text of a floatVal (`0x.<mantissa>p±<exp>`, ftoa.go fmtP) is read back by the model's
    literal reader as the same mantissa bits and the same binary exponent. -/
theorem parseHexP_bigText (m : Nat) (x : Int) (hm : m < 2 ^ 512) (hx : x.natAbs < 10 ^ 9) :
    parseHexP (sHexDot ++ mantHex m ++ cP :: expToDec x) =
      some (m <<< ((4 - bitlen m % 4) % 4), x - 4 * ((mantHex m).length : Int)) := by
  have hlen := mantHex_length m hm
  have hne : mantHex m ≠ [] := by unfold mantHex; exact hexDigits_ne_nil _
  have hall : (mantHex m).all (fun c => (hexVal c).isSome) = true := by
    unfold mantHex; exact hexDigits_all _
  have hstop : (fun c => (hexVal c).isSome) cP = false := by decide
  obtain ⟨htw, hdw⟩ := takeWhile_append_stop (fun c => (hexVal c).isSome) (mantHex m) (expToDec x) cP hall hstop
  have hdl : (natToDec x.natAbs).length ≤ 9 := by
    have := natToDecAux_length (x.natAbs + 1) x.natAbs [] 9 (by omega) hx
    simpa [natToDec] using this
  obtain ⟨c, t, hct, _, _, _⟩ := natToDec_cons x.natAbs
  have hdne : (natToDec x.natAbs).isEmpty = false := by rw [hct]; rfl
  have hmne : (mantHex m).isEmpty = false := by
    cases hmm : mantHex m with
    | nil => exact absurd hmm hne
    | cons _ _ => rfl
  have hph : parseHex 0 (mantHex m) = some (m <<< ((4 - bitlen m % 4) % 4)) := by
    unfold mantHex; exact parseHex_hexDigits' _
  have e : sHexDot ++ mantHex m ++ cP :: expToDec x = 48 :: 120 :: 46 :: (mantHex m ++ cP :: expToDec x) := by
    simp [sHexDot]
  rw [e]
  unfold parseHexP
  simp only [htw, hdw]
  have hc : cP = 112 := rfl
  rw [hc]
  simp only [splitSign_expToDec, hmne, hdne, natToDec_all, hph, parseDigits_natToDec',
    applySign_natAbs, Bool.false_or, Bool.not_true, Bool.or_false]
  have h1 : decide ((mantHex m).length > 128) = false := by simp; omega
  have h2 : decide ((natToDec x.natAbs).length > 9) = false := by simp; omega
  simp [h1, h2]

/-! ## floatVal text form: exactness of the 512-bit rounding below 2^512, normalisation -/

theorem pow_bitlen_le (x : Nat) (h : x ≠ 0) : 2 ^ (bitlen x - 1) ≤ x := by
  unfold bitlen
  simp only [h, if_false, Nat.add_sub_cancel]
  exact Nat.log2_self_le h

theorem bitlen_pos (x : Nat) (h : x ≠ 0) : 0 < bitlen x := by
  unfold bitlen; simp [h]

theorem bitlen_shiftLeft_eq (x k : Nat) (h : x ≠ 0) : bitlen (x <<< k) = bitlen x + k := by
  apply Nat.le_antisymm (bitlen_shiftLeft x k)
  apply Nat.le_of_not_lt
  intro hlt
  have h1 : bitlen (x <<< k) ≤ bitlen x + k - 1 := by omega
  rw [bitlen_le_iff, Nat.shiftLeft_eq] at h1
  have h2 := pow_bitlen_le x h
  have hp := bitlen_pos x h
  have h3 : 2 ^ (bitlen x + k - 1) = 2 ^ (bitlen x - 1) * 2 ^ k := by
    rw [← Nat.pow_add]; congr 1; omega
  rw [h3] at h1
  have := Nat.mul_le_mul_right (2 ^ k) h2
  omega

theorem shiftLeft_ne_zero (x k : Nat) (h : x ≠ 0) : x <<< k ≠ 0 := by
  rw [Nat.shiftLeft_eq]
  exact Nat.ne_of_gt (Nat.mul_pos (Nat.pos_of_ne_zero h) (Nat.two_pow_pos k))

/-- an integer of at most 512 bits is its own rounding -/
theorem roundRat_exact (M : Nat) (hM : M ≠ 0) (hb : bitlen M ≤ 512) :
    roundRat M 1 = (M <<< (512 - bitlen M), ((bitlen M : Int) - 512)) := by
  unfold roundRat
  simp only [bitlen_one, prec]
  have hp := bitlen_pos M hM
  have hk : (515 + ((1 : Nat) : Int) - (bitlen M : Int)) ≥ 0 := by omega
  have hkn : (515 + ((1 : Nat) : Int) - (bitlen M : Int)).toNat = 516 - bitlen M := by omega
  simp only [hk, if_true, Nat.div_one, Nat.mod_one, hkn, ne_eq, not_true_eq_false, false_or]
  have hq0 : bitlen (M <<< (516 - bitlen M)) = 516 := by
    rw [bitlen_shiftLeft_eq M _ hM]; omega
  rw [hq0]
  have e4 : 516 - 512 = 4 := rfl
  rw [e4]
  have hsplit : M <<< (516 - bitlen M) = (M <<< (512 - bitlen M)) <<< 4 := by
    rw [← Nat.shiftLeft_add]; congr 1; omega
  have hq : (M <<< (516 - bitlen M)) >>> 4 = M <<< (512 - bitlen M) := by
    rw [hsplit, Nat.shiftLeft_shiftRight]
  have hrem : (M <<< (516 - bitlen M)) % 2 ^ 4 = 0 := by
    rw [hsplit, Nat.shiftLeft_eq]; exact Nat.mul_mod_left _ _
  rw [hq, hrem]
  have hup : ¬ (0 > 2 ^ (4 - 1) ∨ (0 = 2 ^ (4 - 1) ∧ (M <<< (512 - bitlen M)) % 2 = 1)) := by
    intro h
    rcases h with h | h
    · exact absurd h (by decide)
    · exact absurd h.1 (by decide)
  simp only [hup, if_false]
  congr 1
  omega

theorem stripTwos_shift (f j m : Nat) (e : Int) (hm : m % 2 = 1) (hf : j < f) :
    stripTwos f (m <<< j) e = (m, e + j) := by
  induction j generalizing f e with
  | zero =>
    cases f with
    | zero => omega
    | succ f =>
      unfold stripTwos
      have : ¬ ((m <<< 0) % 2 = 0 ∧ m <<< 0 ≠ 0) := by simp; omega
      rw [if_neg this]
      simp
  | succ j ih =>
    cases f with
    | zero => omega
    | succ f =>
      unfold stripTwos
      have h1 : m <<< (j + 1) = (m <<< j) * 2 := by
        rw [Nat.shiftLeft_succ, Nat.mul_comm]
      have h2 : (m <<< (j + 1)) % 2 = 0 := by rw [h1]; exact Nat.mul_mod_left _ _
      have hm0 : m ≠ 0 := by intro h; subst h; simp at hm
      have h3 : m <<< (j + 1) ≠ 0 := shiftLeft_ne_zero m _ hm0
      have h4 : (m <<< (j + 1)) / 2 = m <<< j := by rw [h1]; exact Nat.mul_div_cancel _ (by decide)
      simp only [h2, h3, ne_eq, not_false_eq_true, and_self, if_true, h4]
      rw [ih f (e + 1) (by omega)]
      congr 1
      omega

theorem hexDigitsAux_length_ge (f n : Nat) (acc : Bytes) (k : Nat) (hf : n < f) (h : 16 ^ k ≤ n) :
    k + 1 + acc.length ≤ (hexDigitsAux f n acc).length := by
  induction f generalizing n acc k with
  | zero => omega
  | succ f ih =>
    unfold hexDigitsAux
    split
    · rename_i h16
      have hk : k = 0 := by
        rcases Nat.eq_zero_or_pos k with h0 | hpos
        · exact h0
        · have : 16 ^ 1 ≤ 16 ^ k := Nat.pow_le_pow_right (by decide) hpos
          omega
      subst hk; simp; omega
    · rename_i h16
      rcases Nat.eq_zero_or_pos k with h0 | hpos
      · subst h0
        have := ih (n / 16) (hexChar (n % 16) :: acc) 0 (by omega) (by simp; omega)
        simp only [List.length_cons] at this
        omega
      · have hdiv : 16 ^ (k - 1) ≤ n / 16 := by
          rw [Nat.le_div_iff_mul_le (by decide)]
          have : 16 ^ k = 16 ^ (k - 1) * 16 := by
            rw [← Nat.pow_succ]; congr 1; omega
          omega
        have := ih (n / 16) (hexChar (n % 16) :: acc) (k - 1) (by omega) hdiv
        simp only [List.length_cons] at this
        omega

theorem pow16 (c : Nat) : (16 : Nat) ^ c = 2 ^ (4 * c) := by
  rw [Nat.pow_mul]

/-- the mantissa text has exactly one hex digit per four bits of the left-aligned mantissa -/
theorem mantHex_length_eq (m : Nat) (hm : m ≠ 0) :
    4 * (mantHex m).length = bitlen m + (4 - bitlen m % 4) % 4 := by
  unfold mantHex hexDigits
  generalize hp : (4 - bitlen m % 4) % 4 = pad
  have hM0 : m <<< pad ≠ 0 := shiftLeft_ne_zero m pad hm
  have hB : bitlen (m <<< pad) = bitlen m + pad := bitlen_shiftLeft_eq m pad hm
  have hpos := bitlen_pos m hm
  -- B = 4c
  have hc : ∃ c, bitlen m + pad = 4 * c ∧ 0 < c := ⟨(bitlen m + pad) / 4, by omega, by omega⟩
  obtain ⟨c, hc4, hcpos⟩ := hc
  have hup : m <<< pad < 16 ^ c := by
    rw [pow16, ← hc4, ← hB]; exact lt_pow_bitlen _
  have hlo : 16 ^ (c - 1) ≤ m <<< pad := by
    rw [pow16]
    have := pow_bitlen_le (m <<< pad) hM0
    rw [hB] at this
    exact Nat.le_trans (Nat.pow_le_pow_right (by decide) (by omega)) this
  have h1 := hexDigitsAux_length (m <<< pad + 1) (m <<< pad) [] c hcpos hup
  have h2 := hexDigitsAux_length_ge (m <<< pad + 1) (m <<< pad) [] (c - 1) (by omega) hlo
  simp only [List.length_nil] at h1 h2
  omega

/-- makeFloatFromLiteral on the exact value `±M * 2^sh` that is a genuine floatVal -/
theorem floatOfShift_big (neg : Bool) (m j : Nat) (sh : Int) (hm : m % 2 = 1)
    (hb : bitlen (m <<< j) ≤ 512)
    (hx : smallExp ((bitlen (m <<< j) : Int) + sh) = false) :
    floatOfShift neg (m <<< j) sh = .big neg m (sh + j) := by
  have hm0 : m ≠ 0 := by intro h; subst h; simp at hm
  have hM0 : m <<< j ≠ 0 := shiftLeft_ne_zero m j hm0
  unfold floatOfShift
  simp only [hM0, if_false, roundRat_exact _ hM0 hb]
  have hq : bitlen ((m <<< j) <<< (512 - bitlen (m <<< j))) = 512 := by
    rw [bitlen_shiftLeft_eq _ _ hM0]; omega
  have hexp : expOf ((m <<< j) <<< (512 - bitlen (m <<< j))) ((bitlen (m <<< j) : Int) - 512 + sh)
      = (bitlen (m <<< j) : Int) + sh := by
    unfold expOf; rw [hq]; omega
  rw [hexp, hx]
  simp only [Bool.false_eq_true, if_false]
  unfold mkBig
  have hne : (m <<< j) <<< (512 - bitlen (m <<< j)) ≠ 0 := shiftLeft_ne_zero _ _ hM0
  simp only [hne, if_false, hq]
  rw [← Nat.shiftLeft_add]
  have hj : bitlen (m <<< j) = bitlen m + j := bitlen_shiftLeft_eq m j hm0
  have hpos := bitlen_pos m hm0
  rw [stripTwos_shift 512 (j + (512 - bitlen (m <<< j))) m _ hm (by omega)]
  congr 1
  omega

/-! ## the floatVal text form is read back exactly -/

theorem pad_bound (L : Nat) (h : L ≤ 512) : L + (4 - L % 4) % 4 ≤ 512 := by omega

theorem parseFloatLit_bigText (cfg neg : Bool) (m : Nat) (e : Int) (hm : m % 2 = 1) (hlt : m < 2 ^ 512)
    (hs : smallExp (e + (bitlen m : Int)) = false) (hx : (e + (bitlen m : Int)).natAbs < 10 ^ 9) :
    parseFloatLit cfg (exactString (.big neg m e)) = .val (.big neg m e) := by
  have hm0 : m ≠ 0 := by intro h; subst h; simp at hm
  have hL : bitlen m ≤ 512 := (bitlen_le_iff m 512).mpr hlt
  simp only [exactString, hm0, if_false]
  generalize hbody : sHexDot ++ mantHex m ++ cP :: expToDec (e + (bitlen m : Int)) = body
  have e1 : body = 48 :: 120 :: 46 :: (mantHex m ++ cP :: expToDec (e + (bitlen m : Int))) := by
    rw [← hbody]; simp [sHexDot]
  have hsplit : splitSign ((if neg = true then [cMinus] else []) ++ body) = (neg, body) := by
    cases neg
    · simp [e1, splitSign]
    · simp [splitSign, cMinus]
  have hnd : (!body.isEmpty && body.all isDigit) = false := by
    rw [e1]; simp [isDigit]
  have hp := parseHexP_bigText m (e + (bitlen m : Int)) hlt hx
  rw [hbody] at hp
  unfold parseFloatLit
  rw [show (if neg = true then [cMinus] else []) ++ sHexDot ++ mantHex m ++ cP :: expToDec (e + (bitlen m : Int))
      = (if neg = true then [cMinus] else []) ++ body by rw [← hbody]; simp [List.append_assoc]]
  rw [hsplit]
  simp only [hnd, Bool.false_eq_true, if_false, hp]
  have hlen := mantHex_length_eq m hm0
  have hb : bitlen (m <<< ((4 - bitlen m % 4) % 4)) ≤ 512 := by
    rw [bitlen_shiftLeft_eq m _ hm0]; exact pad_bound _ hL
  have hsh : ((bitlen (m <<< ((4 - bitlen m % 4) % 4)) : Nat) : Int) +
      (e + (bitlen m : Int) - 4 * ((mantHex m).length : Int)) = e + (bitlen m : Int) := by
    rw [bitlen_shiftLeft_eq m _ hm0]; omega
  rw [floatOfShift_big neg m _ _ hm hb (by rw [hsh]; exact hs)]
  congr 2
  omega

theorem mantHex_not_mem (m c : Nat) (hc : hexVal c = none) : ∀ x ∈ mantHex m, x ≠ c := by
  intro x hx e
  have := hexDigits_all (m <<< ((4 - bitlen m % 4) % 4))
  rw [List.all_eq_true] at this
  have := this x hx
  rw [e, hc] at this
  exact Bool.noConfusion this

/-- neither '/' nor ':' occurs in the text of a floatVal -/
theorem exactString_big_not_mem (neg : Bool) (m : Nat) (e : Int) (c : Nat)
    (hd : isDigit c = false) (hh : hexVal c = none)
    (h1 : c ≠ 45) (h2 : c ≠ 43) (h3 : c ≠ 120) (h4 : c ≠ 46) (h5 : c ≠ 112) :
    ∀ x ∈ exactString (.big neg m e), x ≠ c := by
  intro x hx
  simp only [exactString] at hx
  split at hx
  · simp [cZero] at hx; subst hx; intro e48; subst e48; revert hd; decide
  · simp only [List.mem_append, List.mem_cons] at hx
    rcases hx with ((hx | hx) | hx) | hx | hx
    · split at hx
      · simp [cMinus] at hx; omega
      · simp at hx
    · simp [sHexDot] at hx
      rcases hx with hx | hx | hx
      · subst hx; intro e48; subst e48; revert hd; decide
      · omega
      · omega
    · exact mantHex_not_mem m c hh x hx
    · simp [cP] at hx; omega
    · unfold expToDec at hx
      split at hx
      · rcases List.mem_cons.mp hx with h | h
        · simp [cPlus] at h; omega
        · exact natToDec_not_mem _ c hd x h
      · rcases List.mem_cons.mp hx with h | h
        · simp [cMinus] at h; omega
        · exact natToDec_not_mem _ c hd x h

theorem exactString_not_mem_colon (f : Flt) : ∀ x ∈ exactString f, x ≠ cColon := by
  cases f with
  | rat n d => exact exactString_rat_not_mem_colon n d
  | big neg m e =>
    exact exactString_big_not_mem neg m e cColon (by decide) (by decide) (by decide) (by decide)
      (by decide) (by decide) (by decide)

theorem unmarshalFloat_exactString (cfg : Bool) (f : Flt) (hw : f.WF) (hs : f.InDomain cfg) :
    unmarshalFloat cfg (exactString f) = .val f := by
  cases f with
  | big neg m e =>
    obtain ⟨hm, hlt, hsm, hx⟩ := hs
    unfold unmarshalFloat
    rw [splitFirst_none cSlash _ (exactString_big_not_mem neg m e cSlash (by decide) (by decide)
      (by decide) (by decide) (by decide) (by decide) (by decide))]
    simp only [parseFloatLit_bigText cfg neg m e hm hlt hsm hx, ofLit]
  | rat n d =>
    obtain ⟨hd, hg⟩ := hw
    obtain ⟨hn, hd'⟩ := hs
    unfold exactString
    by_cases h1 : d = 1
    · subst h1
      simp only [if_true]
      unfold unmarshalFloat
      simp only [splitFirst_none cSlash _ (intToDec_not_mem n cSlash (by decide) (by decide)),
        parseFloatLit_ok cfg n hn, ofLit]
    · simp only [h1, if_false]
      unfold unmarshalFloat
      have := parseFloatLit_ok cfg (d : Int) (by simpa using hd')
      rw [intToDec_ofNat] at this
      simp only [splitFirst_append cSlash _ _ (intToDec_not_mem n cSlash (by decide) (by decide)),
        parseFloatLit_ok cfg n hn, this,
        quo_small n d hd hg (okNat_smallInt cfg _ hn) (okNat_smallInt cfg _ hd')]

theorem addZero_inDomain (cfg : Bool) (f : Flt) (hs : f.InDomain cfg) : addZero f = f := by
  cases f with
  | big neg m e => rfl
  | rat n d =>
    unfold addZero makeRat
    simp [okNat_smallInt cfg _ hs.1, okNat_smallInt cfg _ hs.2]

end Marshal
