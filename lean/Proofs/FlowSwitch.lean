import Model.Flow

/-! Switch dispatch forms: the jump table (`switchGotoSlice`) and the map (`switchGotoMap`) select the
    same body address for every tag value. -/

namespace Flow

theorem foldl_min_le (t : List (Int × Nat)) : ∀ init : Int,
    t.foldl (fun m p => if p.1 < m then p.1 else m) init ≤ init ∧
    ∀ p ∈ t, t.foldl (fun m p => if p.1 < m then p.1 else m) init ≤ p.1 := by
  induction t with
  | nil => intro init; simp
  | cons q r ih =>
    intro init
    simp only [List.foldl_cons, List.mem_cons, forall_eq_or_imp]
    have h := ih (if q.1 < init then q.1 else init)
    refine ⟨?_, ?_, h.2⟩
    · have := h.1; split at this <;> omega
    · have := h.1; split at this <;> omega

theorem foldl_max_ge (t : List (Int × Nat)) : ∀ init : Int,
    init ≤ t.foldl (fun m p => if p.1 > m then p.1 else m) init ∧
    ∀ p ∈ t, p.1 ≤ t.foldl (fun m p => if p.1 > m then p.1 else m) init := by
  induction t with
  | nil => intro init; simp
  | cons q r ih =>
    intro init
    simp only [List.foldl_cons, List.mem_cons, forall_eq_or_imp]
    have h := ih (if q.1 > init then q.1 else init)
    refine ⟨?_, ?_, h.2⟩
    · have := h.1; split at this <;> omega
    · have := h.1; split at this <;> omega

theorem tableLookup_mem {v : Int} : ∀ {t : List (Int × Nat)} {a : Nat}, tableLookup v t = some a → ∃ p ∈ t, p.1 = v := by
  intro t
  induction t with
  | nil => intro a h; simp [tableLookup] at h
  | cons q r ih =>
    intro a h
    obtain ⟨k, b⟩ := q
    simp only [tableLookup] at h
    split at h
    · rename_i hk
      exact ⟨(k, b), by simp, by simpa using hk⟩
    · obtain ⟨p, hp, hv⟩ := ih h
      exact ⟨p, by simp [hp], hv⟩

/-- jump table and map agree on every tag value -/
theorem sliceLookup_eq_tableLookup (v : Int) (t : List (Int × Nat)) : sliceLookup v t = tableLookup v t := by
  unfold sliceLookup
  simp only
  split
  · rename_i hout
    cases h : tableLookup v t with
    | none => rfl
    | some a =>
      obtain ⟨p, hp, hv⟩ := tableLookup_mem h
      have h1 : tableMin t ≤ p.1 := (foldl_min_le t (t.headD (0, 0)).1).2 p hp
      have h2 : p.1 ≤ tableMax t := (foldl_max_ge t (t.headD (0, 0)).1).2 p hp
      simp at hout
      rcases hout with h | h <;> omega
  · rename_i hin
    simp only [Bool.or_eq_true, decide_eq_true_eq, not_or, Int.not_lt] at hin
    have hidx : (v - tableMin t).toNat < (tableMax t - tableMin t).toNat + 1 := by omega
    have hv : tableMin t + Int.ofNat (v - tableMin t).toNat = v := by
      simp only [Int.ofNat_eq_natCast]; omega
    rw [List.getD_eq_getElem?_getD, List.getElem?_map, List.getElem?_range hidx]
    simp only [Option.map_some, Option.getD_some, hv]
    cases tableLookup v t <;> rfl

end Flow
