import Proofs.Defer
/-!
The simulation between `Interp` (repaired executor bookkeeping, `fixedCfg`) and `Host` (Go semantics):
mutual induction over the call tree.
-/
namespace Defer

theorem recOf_frameEnter (run : Run) : recOf (frameEnter run) = recAtEntry run := rfl

theorem consumed_self (rec : Option Val) (run : Run) : consumed rec rec run = (run.panic, run.panicFun) := by
  unfold consumed; cases rec <;> simp

theorem consumed_none (rec' : Option Val) (run : Run) : consumed none rec' run = (run.panic, run.panicFun) := by
  unfold consumed; simp

/-- an activation (`Interp.frame`) satisfies `FrameOK` as soon as its statements satisfy `StmtsOK` -/
theorem frame_of_stmts (b : List Act) (run : Run) (hinv : Inv run) {P R : Option Val} {S : Sh}
    (h : StmtsOK run.nextEnv (frameEnter run) (recAtEntry run) P R S
      (Interp.stmts fixedCfg run.nextEnv b (frameEnter run)).1
      (Interp.stmts fixedCfg run.nextEnv b (frameEnter run)).2) :
    FrameOK run (recAtEntry run) P R S (Interp.frame fixedCfg b run).1 (Interp.frame fixedCfg b run).2 := by
  rw [Interp.frame_eq]
  generalize (Interp.stmts fixedCfg run.nextEnv b (frameEnter run)).1 = loc at h
  generalize (Interp.stmts fixedCfg run.nextEnv b (frameEnter run)).2 = run1 at h
  have hc : consumed (recAtEntry run) R (frameEnter run) = consumed (recAtEntry run) R run := rfl
  have hmono : run.nextEnv ≤ run1.nextEnv := by
    have := h.mono; simp [frameEnter] at this; omega
  cases hs : loc.saved
  · have hp := h.pairU hs
    rw [hc] at hp
    have hp1 : run1.panic = (consumed (recAtEntry run) R run).1 := by rw [← hp]
    have hp2 : run1.panicFun = (consumed (recAtEntry run) R run).2 := by rw [← hp]
    refine ⟨?_, ?_, ?_, ?_, ?_, ?_, ?_, ?_⟩
    · simpa [frameExit, hs] using h.sh
    · simpa [frameExit, hs] using h.hp
    · simpa [frameExit, hs] using h.sd
    · simp [frameExit, hs]
    · simpa [frameExit, hs, frameEnter] using h.dof
    · simpa [frameExit, hs] using hmono
    · constructor
      · simpa [frameExit, hs] using h.inv.i1
      · simpa [frameExit, hs] using h.inv.ids
    · simp [frameExit, hs, hp1, hp2]
  · have hp := h.pairS hs
    rw [hc] at hp
    have hp1 : loc.savedPanic = (consumed (recAtEntry run) R run).1 := by rw [← hp]
    have hp2 : loc.savedPanicFun = (consumed (recAtEntry run) R run).2 := by rw [← hp]
    refine ⟨?_, ?_, ?_, ?_, ?_, ?_, ?_, ?_⟩
    · simpa [frameExit, hs] using h.sh
    · simpa [frameExit, hs] using h.hp
    · simpa [frameExit, hs] using h.sd
    · simp [frameExit, hs]
    · simpa [frameExit, hs, frameEnter] using h.dof
    · simpa [frameExit, hs] using hmono
    · constructor
      · simp only [frameExit, hs, if_true, hp1, hp2]
        unfold consumed
        split
        · simp
        · exact hinv.i1
      · simp only [frameExit, hs, if_true, hp2]
        unfold consumed
        split
        · simp
        · intro i hi; exact Nat.lt_of_lt_of_le (hinv.ids i hi) hmono
    · simp [frameExit, hs, hp1, hp2]

/-- one `defer rundefer(fun)` run by the host after the rest of the body: the hard case -/
theorem defer_step (funenv : Nat) (run run1 : Run) (loc : Loc) (rec pendR recR : Option Val) (shR : Sh)
    (d : List Act)
    (ih : StmtsOK funenv run rec pendR recR shR loc run1)
    (hfe : funenv < run.nextEnv)
    (hframe : ∀ run2, Inv run2 →
      FrameOK run2 (recAtEntry run2) (Host.stmts d (recAtEntry run2) run2.sh).1
        (Host.stmts d (recAtEntry run2) run2.sh).2.1 (Host.stmts d (recAtEntry run2) run2.sh).2.2
        (Interp.frame fixedCfg d run2).1 (Interp.frame fixedCfg d run2).2) :
    StmtsOK funenv run rec
      (match (Host.stmts d pendR shR).1 with
        | some v2 => some v2
        | none => (Host.stmts d pendR shR).2.1)
      recR (Host.stmts d pendR shR).2.2
      (rundeferExit (Interp.frame fixedCfg d (rundeferEnter fixedCfg funenv loc run1).2).1
        run1.deferOfFun run1.isDefer (rundeferEnter fixedCfg funenv loc run1).1
        (Interp.frame fixedCfg d (rundeferEnter fixedCfg funenv loc run1).2).2).1
      (rundeferExit (Interp.frame fixedCfg d (rundeferEnter fixedCfg funenv loc run1).2).1
        run1.deferOfFun run1.isDefer (rundeferEnter fixedCfg funenv loc run1).1
        (Interp.frame fixedCfg d (rundeferEnter fixedCfg funenv loc run1).2).2).2 := by
  have hfe1 : funenv < run1.nextEnv := Nat.lt_of_lt_of_le hfe ih.mono
  obtain ⟨hp, pk, pk2, saved, sp, spf⟩ := loc
  have ihsh := ih.sh
  have ihhp : hp = pendR := ih.hp
  have ihpk : (pk || pk2) = pendR.isSome := ih.pk
  cases pendR with
  | some v =>
    -- the frame is panicking with v: rundefer recovers the host panic and takes over Panic/PanicFun
    subst ihhp
    have hpk : (pk || pk2) = true := by simpa using ihpk
    -- state handed to the deferred call
    let run2 : Run := { run1 with panic := some v, panicFun := some funenv, deferOfFun := some funenv, startDefer := true }
    let loc2 : Loc := { hp := none, panicking := true, panicking2 := false, saved := true,
                        savedPanic := if saved then sp else run1.panic,
                        savedPanicFun := if saved then spf else run1.panicFun }
    have hE : rundeferEnter fixedCfg funenv ⟨some v, pk, pk2, saved, sp, spf⟩ run1 = (loc2, run2) := by
      cases saved <;> simp [rundeferEnter, fixedCfg, hpk, loc2, run2]
    rw [hE]
    have hinv2 : Inv run2 := ⟨by simp [run2], by intro i hi; simp [run2] at hi; subst hi; simpa [run2] using hfe1⟩
    have hrec2 : recAtEntry run2 = some v := by simp [recAtEntry, run2]
    have hsh2 : run2.sh = shR := by simpa [run2] using ihsh
    have hf := hframe run2 hinv2
    rw [hrec2, hsh2] at hf
    generalize Interp.frame fixedCfg d run2 = F at hf
    obtain ⟨out, run3⟩ := F
    have hout : out = (Host.stmts d (some v) shR).1 := hf.out
    have hpair := hf.pair
    have hpair1 : run3.panic = (consumed (some v) (Host.stmts d (some v) shR).2.1 run2).1 := by rw [← hpair]
    have hpair2 : run3.panicFun = (consumed (some v) (Host.stmts d (some v) shR).2.1 run2).2 := by rw [← hpair]
    have hsaved : (if saved then (sp, spf) else (run1.panic, run1.panicFun)) = consumed rec recR run := by
      cases saved
      · simpa using ih.pairU rfl
      · simpa using ih.pairS rfl
    have hmono : run.nextEnv ≤ run3.nextEnv :=
      Nat.le_trans ih.mono (by simpa [run2] using hf.mono)
    simp only []
    cases hD : (Host.stmts d (some v) shR).1 with
    | some v2 =>
      -- the deferred call panicked: the new panic replaces the old one
      rw [hD] at hout; subst hout
      refine ⟨?_, ?_, ?_, ?_, ?_, ?_, ?_, ?_, ?_, ?_, ?_⟩
      · simpa [rundeferExit] using hf.sh
      · simp [rundeferExit, loc2]
      · simp [rundeferExit, loc2]
      · simp [rundeferExit]
      · simpa [rundeferExit] using ih.isd
      · simpa [rundeferExit] using ih.dof
      · simpa [rundeferExit] using hmono
      · exact ⟨by simpa [rundeferExit] using hf.inv.i1, by simpa [rundeferExit] using hf.inv.ids⟩
      · simp [rundeferExit, loc2]
      · intro _
        cases saved <;> simpa [rundeferExit, loc2] using hsaved
      · intro h; cases h
    | none =>
      rw [hD] at hout; subst hout
      rcases Host.rec_mono d (some v) shR with hdr | hdr
      · -- not recovered: maybeRepanic panics again with run.Panic = v
        rw [hdr] at hpair1 hpair2 ⊢
        have h3p : run3.panic = some v := by simpa [consumed, run2] using hpair1
        have h3f : run3.panicFun = some funenv := by simpa [consumed, run2] using hpair2
        refine ⟨?_, ?_, ?_, ?_, ?_, ?_, ?_, ?_, ?_, ?_, ?_⟩
        · simpa [rundeferExit] using hf.sh
        · simp [rundeferExit, loc2, h3p, h3f]
        · simp [rundeferExit, loc2, h3f]
        · simp [rundeferExit]
        · simpa [rundeferExit] using ih.isd
        · simpa [rundeferExit] using ih.dof
        · simpa [rundeferExit] using hmono
        · exact ⟨by simpa [rundeferExit] using hf.inv.i1, by simpa [rundeferExit] using hf.inv.ids⟩
        · simp [rundeferExit, loc2, h3f]
        · intro _
          cases saved <;> simpa [rundeferExit, loc2, h3f] using hsaved
        · intro h; cases h
      · -- recovered by the deferred call: PanicFun is nil, the frame stops panicking
        rw [hdr] at hpair1 hpair2 ⊢
        have h3p : run3.panic = none := by simpa [consumed] using hpair1
        have h3f : run3.panicFun = none := by simpa [consumed] using hpair2
        refine ⟨?_, ?_, ?_, ?_, ?_, ?_, ?_, ?_, ?_, ?_, ?_⟩
        · simpa [rundeferExit] using hf.sh
        · simp [rundeferExit, loc2, h3f]
        · simp [rundeferExit, loc2, h3f]
        · simp [rundeferExit]
        · simpa [rundeferExit] using ih.isd
        · simpa [rundeferExit] using ih.dof
        · simpa [rundeferExit] using hmono
        · exact ⟨by simpa [rundeferExit] using hf.inv.i1, by simpa [rundeferExit] using hf.inv.ids⟩
        · simp [rundeferExit, loc2, h3f]
        · intro _
          cases saved <;> simpa [rundeferExit, loc2, h3f] using hsaved
        · intro _; simp [rundeferExit, h3f]
  | none =>
    -- the frame is returning normally: the deferred call is an ordinary call, recover() gives nil in it
    subst ihhp
    have hpk0 : pk = false ∧ pk2 = false := by
      cases pk <;> cases pk2 <;> simp_all
    obtain ⟨rfl, rfl⟩ := hpk0
    have hdone : run1.panicFun ≠ some funenv := ih.done rfl
    let run2 : Run := { run1 with deferOfFun := some funenv, startDefer := true }
    have hE : rundeferEnter fixedCfg funenv ⟨none, false, false, saved, sp, spf⟩ run1 =
        (⟨none, false, false, saved, sp, spf⟩, run2) := by
      simp [rundeferEnter, run2]
    rw [hE]
    have hinv2 : Inv run2 := ⟨by simpa [run2] using ih.inv.i1, by simpa [run2] using ih.inv.ids⟩
    have hrec2 : recAtEntry run2 = none := by
      simp only [recAtEntry, run2]
      cases hpf : run1.panicFun with
      | none => simp
      | some i =>
        have : i ≠ funenv := by intro h; apply hdone; rw [hpf, h]
        simp [Ne.symm this]
    have hsh2 : run2.sh = shR := by simpa [run2] using ihsh
    have hf := hframe run2 hinv2
    rw [hrec2, hsh2] at hf
    generalize Interp.frame fixedCfg d run2 = F at hf
    obtain ⟨out, run3⟩ := F
    have hout : out = (Host.stmts d none shR).1 := hf.out
    have hpair := hf.pair
    rw [consumed_none] at hpair
    have hpair1 : run3.panic = run1.panic := by have := congrArg Prod.fst hpair; simpa [run2] using this
    have hpair2 : run3.panicFun = run1.panicFun := by have := congrArg Prod.snd hpair; simpa [run2] using this
    have hmono : run.nextEnv ≤ run3.nextEnv :=
      Nat.le_trans ih.mono (by simpa [run2] using hf.mono)
    simp only []
    cases hD : (Host.stmts d none shR).1 with
    | some v2 =>
      rw [hD] at hout; subst hout
      refine ⟨?_, ?_, ?_, ?_, ?_, ?_, ?_, ?_, ?_, ?_, ?_⟩
      · simpa [rundeferExit] using hf.sh
      · simp [rundeferExit]
      · simp [rundeferExit]
      · simp [rundeferExit]
      · simpa [rundeferExit] using ih.isd
      · simpa [rundeferExit] using ih.dof
      · simpa [rundeferExit] using hmono
      · exact ⟨by simpa [rundeferExit] using hf.inv.i1, by simpa [rundeferExit] using hf.inv.ids⟩
      · intro hs
        have := ih.pairU (by simpa [rundeferExit] using hs)
        simpa [rundeferExit, hpair1, hpair2] using this
      · intro hs
        have := ih.pairS (by simpa [rundeferExit] using hs)
        simpa [rundeferExit] using this
      · intro h; cases h
    | none =>
      rw [hD] at hout; subst hout
      rw [Host.rec_none]
      refine ⟨?_, ?_, ?_, ?_, ?_, ?_, ?_, ?_, ?_, ?_, ?_⟩
      · simpa [rundeferExit] using hf.sh
      · simp [rundeferExit]
      · simp [rundeferExit]
      · simp [rundeferExit]
      · simpa [rundeferExit] using ih.isd
      · simpa [rundeferExit] using ih.dof
      · simpa [rundeferExit] using hmono
      · exact ⟨by simpa [rundeferExit] using hf.inv.i1, by simpa [rundeferExit] using hf.inv.ids⟩
      · intro hs
        have := ih.pairU (by simpa [rundeferExit] using hs)
        simpa [rundeferExit, hpair1, hpair2] using this
      · intro hs
        have := ih.pairS (by simpa [rundeferExit] using hs)
        simpa [rundeferExit] using this
      · intro _; simpa [rundeferExit, hpair2] using hdone


theorem Inv.withSh {run : Run} (h : Inv run) (sh : Sh) : Inv { run with sh := sh } := ⟨h.i1, h.ids⟩

theorem recOf_sh (run : Run) (sh : Sh) : recOf { run with sh := sh } = recOf run := rfl

/-- straight-line statements that only touch the observable state -/
theorem stmts_ok_sh {funenv : Nat} {run : Run} {sh : Sh} {P R : Option Val} {S : Sh} {loc : Loc} {run' : Run}
    (h : StmtsOK funenv { run with sh := sh } (recOf run) P R S loc run') :
    StmtsOK funenv run (recOf run) P R S loc run' :=
  ⟨h.sh, h.hp, h.pk, h.sd, h.isd, h.dof, h.mono, h.inv, h.pairU, h.pairS, h.done⟩

mutual
theorem stmts_ok (funenv : Nat) : ∀ (l : List Act) (run : Run),
    run.startDefer = false → Inv run → funenv < run.nextEnv → run.panicFun ≠ some funenv →
    StmtsOK funenv run (recOf run)
      (Host.stmts l (recOf run) run.sh).1 (Host.stmts l (recOf run) run.sh).2.1
      (Host.stmts l (recOf run) run.sh).2.2
      (Interp.stmts fixedCfg funenv l run).1 (Interp.stmts fixedCfg funenv l run).2
  | [], run, hsd, hinv, hfe, hpf => by
    simp only [Host.stmts_nil, Interp.stmts_nil]
    exact ⟨rfl, rfl, rfl, hsd, rfl, rfl, Nat.le_refl _, hinv,
      fun _ => (consumed_self _ _).symm, (fun h => by cases h), fun _ => hpf⟩
  | a :: rest, run, hsd, hinv, hfe, hpf => by
    cases a with
    | emit n =>
      simp only [Host.stmts_emit, Interp.stmts_emit]
      exact stmts_ok_sh (stmts_ok funenv rest { run with sh := run.sh.log (.emit n) } hsd (hinv.withSh _) hfe hpf)
    | setRes v =>
      simp only [Host.stmts_setRes, Interp.stmts_setRes]
      exact stmts_ok_sh (stmts_ok funenv rest { run with sh := run.sh.setRes v } hsd (hinv.withSh _) hfe hpf)
    | addRes v =>
      simp only [Host.stmts_addRes, Interp.stmts_addRes]
      exact stmts_ok_sh (stmts_ok funenv rest { run with sh := run.sh.addRes v } hsd (hinv.withSh _) hfe hpf)
    | panic v =>
      simp only [Host.stmts_panic, Interp.stmts_panic]
      exact ⟨rfl, rfl, rfl, hsd, rfl, rfl, Nat.le_refl _, hinv,
        fun _ => (consumed_self _ _).symm, (fun h => by cases h), (fun h => by cases h)⟩
    | ret =>
      simp only [Host.stmts_ret, Interp.stmts_ret]
      exact ⟨rfl, rfl, rfl, hsd, rfl, rfl, Nat.le_refl _, hinv,
        fun _ => (consumed_self _ _).symm, (fun h => by cases h), fun _ => hpf⟩
    | retv v =>
      simp only [Host.stmts_retv, Interp.stmts_retv]
      exact ⟨rfl, rfl, rfl, hsd, rfl, rfl, Nat.le_refl _, hinv.withSh _,
        fun _ => (consumed_self _ _).symm, (fun h => by cases h), fun _ => hpf⟩
    | recover =>
      simp only [Host.stmts_recover, Interp.stmts_recover, callRecover_eq]
      by_cases hc : canRec run = true
      · -- the panic is consumed: Panic = PanicFun = nil
        have hsome : run.panic.isSome = true := by
          apply hinv.i1
          simp only [canRec, Bool.and_eq_true] at hc
          exact hc.1.2
        let run1 : Run := { run with panic := none, panicFun := none, sh := run.sh.log (.recov (recOf run)) }
        have hr1 : recOf run1 = none := by simp [recOf, canRec, run1]
        have ih := stmts_ok funenv rest run1 hsd ⟨by simp [run1], by simp [run1]⟩ hfe (by simp [run1])
        rw [hr1] at ih
        simp only [hc, if_true]
        have hrest := Host.rec_none rest (run.sh.log (.recov (recOf run)))
        have hrs : (recOf run).isSome = true := by simpa [recOf, hc] using hsome
        refine ⟨ih.sh, ih.hp, ih.pk, ih.sd, ih.isd, ih.dof, ih.mono, ih.inv, ?_, ?_, ih.done⟩
        · intro hs
          have := ih.pairU hs
          rw [consumed_none] at this
          rw [this]; simp [consumed, hrs, hrest, run1]
        · intro hs
          have := ih.pairS hs
          rw [consumed_none] at this
          rw [this]; simp [consumed, hrs, hrest, run1]
      · -- recover() returns nil and changes nothing
        have hc' : canRec run = false := by simpa using hc
        have hr : recOf run = none := by simp [recOf, hc']
        simp only [hc', Bool.false_eq_true, if_false]
        rw [hr]
        let run1 : Run := { run with sh := run.sh.log (.recov none) }
        have ih := stmts_ok funenv rest run1 hsd (hinv.withSh _) hfe hpf
        have hr1 : recOf run1 = none := hr
        rw [hr1] at ih
        exact ⟨ih.sh, ih.hp, ih.pk, ih.sd, ih.isd, ih.dof, ih.mono, ih.inv, ih.pairU, ih.pairS, ih.done⟩
    | call b =>
      rw [Host.stmts_call, Interp.stmts_call]
      let run0 : Run := { run with sh := run.sh.push }
      have hrec0 : recAtEntry run0 = none := by simp [recAtEntry, run0, hsd]
      have hf := sub_ok (.call b) run0 (hinv.withSh _)
      simp only [Host.sub_call, Interp.sub_call] at hf
      rw [hrec0] at hf
      have hfo := hf.out
      have hpair := hf.pair
      rw [consumed_none] at hpair
      have hpair1 : (Interp.frame fixedCfg b run0).2.panic = run.panic := congrArg Prod.fst hpair
      have hpair2 : (Interp.frame fixedCfg b run0).2.panicFun = run.panicFun := congrArg Prod.snd hpair
      have hmono : run.nextEnv ≤ (Interp.frame fixedCfg b run0).2.nextEnv := hf.mono
      cases hD : (Host.stmts b none run.sh.push).1 with
      | some v =>
        have hfo' : (Interp.frame fixedCfg b run0).1 = some v := by rw [hfo]; exact hD
        simp only [run0] at hfo'
        simp only [hfo']
        refine ⟨?_, rfl, rfl, hf.sd, hf.isd, hf.dof, hmono, ⟨hf.inv.i1, hf.inv.ids⟩, ?_, (fun h => by cases h), (fun h => by cases h)⟩
        · show (Interp.frame fixedCfg b run0).2.sh.pop = _
          rw [hf.sh]
        · intro _
          rw [consumed_self]
          show ((Interp.frame fixedCfg b run0).2.panic, (Interp.frame fixedCfg b run0).2.panicFun) = _
          rw [hpair1, hpair2]
      | none =>
        have hfo' : (Interp.frame fixedCfg b run0).1 = none := by rw [hfo]; exact hD
        simp only [run0] at hfo'
        simp only [hfo']
        let run1 : Run := { (Interp.frame fixedCfg b run0).2 with
          sh := (Interp.frame fixedCfg b run0).2.sh.pop.log (.ret (Interp.frame fixedCfg b run0).2.sh.top) }
        have e1 : (Interp.frame fixedCfg b run0).2.isDefer = run.isDefer := hf.isd
        have e2 : (Interp.frame fixedCfg b run0).2.deferOfFun = run.deferOfFun := hf.dof
        have hcan : canRec run1 = canRec run := by
          simp only [canRec, run1, e1, e2, hpair2]
        have hp1 : run1.panic = run.panic := hpair1
        have hrec1 : recOf run1 = recOf run := by
          unfold recOf; rw [hcan, hp1]
        have hsh1 : run1.sh = (Host.stmts b none run.sh.push).2.2.pop.log (.ret (Host.stmts b none run.sh.push).2.2.top) := by
          simp only [run1]; rw [hf.sh]
        have ih := stmts_ok funenv rest run1 hf.sd ⟨hf.inv.i1, hf.inv.ids⟩
          (Nat.lt_of_lt_of_le hfe hmono) (by simp only [run1]; rw [hpair2]; exact hpf)
        rw [hrec1, hsh1] at ih
        refine ⟨ih.sh, ih.hp, ih.pk, ih.sd, ?_, ?_, Nat.le_trans hmono ih.mono, ih.inv, ?_, ?_, ih.done⟩
        · rw [ih.isd]; exact hf.isd
        · rw [ih.dof]; exact hf.dof
        · intro hs
          rw [ih.pairU hs]
          simp only [consumed, run1]; rw [hpair1, hpair2]
        · intro hs
          rw [ih.pairS hs]
          simp only [consumed, run1]; rw [hpair1, hpair2]
    | deferFn d =>
      rw [Host.stmts_defer, Interp.stmts_defer]
      have ih := stmts_ok funenv rest run hsd hinv hfe hpf
      have := defer_step funenv run _ _ _ _ _ _ d ih hfe
        (fun run2 hinv2 => by
          have h := sub_ok (.deferFn d) run2 hinv2
          simpa only [Host.sub_deferFn, Interp.sub_deferFn] using h)
      exact this

theorem sub_ok : ∀ (a : Act) (run : Run), Inv run →
    match a with
    | .call _ | .deferFn _ =>
      FrameOK run (recAtEntry run) (Host.sub a (recAtEntry run) run.sh).1
        (Host.sub a (recAtEntry run) run.sh).2.1 (Host.sub a (recAtEntry run) run.sh).2.2
        (Interp.sub fixedCfg a run).1 (Interp.sub fixedCfg a run).2
    | _ => True
  | .call b, run, hinv => by
    simp only [Host.sub_call, Interp.sub_call]
    apply frame_of_stmts b run hinv
    have h := stmts_ok run.nextEnv b (frameEnter run) rfl
      ⟨hinv.i1, fun i hi => Nat.lt_succ_of_lt (hinv.ids i hi)⟩ (Nat.lt_succ_self _)
      (fun h => Nat.lt_irrefl _ (hinv.ids _ h))
    rw [recOf_frameEnter] at h
    exact h
  | .deferFn b, run, hinv => by
    simp only [Host.sub_deferFn, Interp.sub_deferFn]
    apply frame_of_stmts b run hinv
    have h := stmts_ok run.nextEnv b (frameEnter run) rfl
      ⟨hinv.i1, fun i hi => Nat.lt_succ_of_lt (hinv.ids i hi)⟩ (Nat.lt_succ_self _)
      (fun h => Nat.lt_irrefl _ (hinv.ids _ h))
    rw [recOf_frameEnter] at h
    exact h
  | .emit _, _, _ => trivial
  | .panic _, _, _ => trivial
  | .recover, _, _ => trivial
  | .setRes _, _, _ => trivial
  | .addRes _, _, _ => trivial
  | .ret, _, _ => trivial
  | .retv _, _, _ => trivial
end

end Defer
