/-! # C02Trunc — what `reflect.Value.SetInt/SetUint` narrowing does to 64-bit arithmetic

The boxed arms compute `lhs.SetInt(lhs.Int() OP int64(y))`: both operands are sign-extended
(`Value.Int()`, `int64(..)`) resp. zero-extended (`Value.Uint()`, `uint64(..)`) to 64 bits, the
operator is applied at 64 bits and `SetInt`/`SetUint` truncates to the width `w` of the variable.
For every operator this equals the operator applied at width `w` — including `sdiv` at
`MinInt / -1` (no overflow at 64 bits for `w < 64`, truncation restores `MinInt`), `srem`, and
shifts by counts `≥ w`.  Width-generic, `w ≤ 64`.  Core only. -/

namespace C02Trunc

theorem setWidth_signExtend {w v : Nat} (x : BitVec w) (h : w ≤ v) : (x.signExtend v).setWidth w = x := by
  ext i hi
  simp [BitVec.getLsbD_signExtend, hi]
  omega

theorem setWidth_zeroExtend {w v : Nat} (x : BitVec w) (h : w ≤ v) : (x.setWidth v).setWidth w = x := by
  ext i hi
  simp [hi]
  intro _; omega

theorem setWidth_ofInt {w v : Nat} (t : Int) (h : w ≤ v) : (BitVec.ofInt v t).setWidth w = BitVec.ofInt w t := by
  apply BitVec.eq_of_toNat_eq
  simp only [BitVec.toNat_setWidth, BitVec.toNat_ofInt]
  have dvd : ((2 ^ w : Nat) : Int) ∣ ((2 ^ v : Nat) : Int) := Int.natCast_dvd_natCast.mpr (Nat.pow_dvd_pow 2 h)
  have h1 : (t % ((2 ^ v : Nat) : Int)) % ((2 ^ w : Nat) : Int) = t % ((2 ^ w : Nat) : Int) := Int.emod_emod_of_dvd t dvd
  have hq : (0 : Int) ≤ ((2 ^ w : Nat) : Int) := Int.natCast_nonneg _
  have hp : (0 : Int) < ((2 ^ v : Nat) : Int) := by exact_mod_cast Nat.two_pow_pos v
  have h2 : 0 ≤ t % ((2 ^ v : Nat) : Int) := Int.emod_nonneg _ (by omega)
  rw [← h1, Int.toNat_emod h2 hq, Int.toNat_natCast]

theorem sdiv_ofInt {w : Nat} (x y : BitVec w) : x.sdiv y = BitVec.ofInt w (x.toInt.tdiv y.toInt) := by
  apply BitVec.eq_of_toInt_eq
  rw [BitVec.toInt_sdiv, BitVec.toInt_ofInt]

section signed
variable {w : Nat} (x y : BitVec w) (h : w ≤ 64)
include h

theorem add_s : (x.signExtend 64 + y.signExtend 64).setWidth w = x + y := by
  rw [BitVec.setWidth_add _ _ h, setWidth_signExtend x h, setWidth_signExtend y h]

theorem sub_s : (x.signExtend 64 - y.signExtend 64).setWidth w = x - y := by
  rw [BitVec.sub_eq_add_neg, BitVec.setWidth_add _ _ h, BitVec.setWidth_neg_of_le h,
    setWidth_signExtend x h, setWidth_signExtend y h, ← BitVec.sub_eq_add_neg]

theorem mul_s : (x.signExtend 64 * y.signExtend 64).setWidth w = x * y := by
  rw [BitVec.setWidth_mul _ _ h, setWidth_signExtend x h, setWidth_signExtend y h]

theorem and_s : (x.signExtend 64 &&& y.signExtend 64).setWidth w = x &&& y := by
  rw [BitVec.setWidth_and, setWidth_signExtend x h, setWidth_signExtend y h]

theorem or_s : (x.signExtend 64 ||| y.signExtend 64).setWidth w = x ||| y := by
  rw [BitVec.setWidth_or, setWidth_signExtend x h, setWidth_signExtend y h]

theorem xor_s : (x.signExtend 64 ^^^ y.signExtend 64).setWidth w = x ^^^ y := by
  rw [BitVec.setWidth_xor, setWidth_signExtend x h, setWidth_signExtend y h]

theorem andNot_s : (x.signExtend 64 &&& ~~~ y.signExtend 64).setWidth w = x &&& ~~~ y := by
  rw [BitVec.setWidth_and, BitVec.setWidth_not h, setWidth_signExtend x h, setWidth_signExtend y h]

/-- includes `MinInt / -1`: at 64 bits the quotient `2^(w-1)` does not overflow (for `w < 64`),
    truncation to `w` bits gives `MinInt` again, which is what `BitVec.sdiv` (and Go) yield -/
theorem sdiv_s : ((x.signExtend 64).sdiv (y.signExtend 64)).setWidth w = x.sdiv y := by
  rw [sdiv_ofInt, sdiv_ofInt, BitVec.toInt_signExtend_of_le h, BitVec.toInt_signExtend_of_le h, setWidth_ofInt _ h]

theorem srem_signExtend : (x.signExtend 64).srem (y.signExtend 64) = (x.srem y).signExtend 64 := by
  apply BitVec.eq_of_toInt_eq
  rw [BitVec.toInt_srem, BitVec.toInt_signExtend_of_le h, BitVec.toInt_signExtend_of_le h,
    BitVec.toInt_signExtend_of_le h, BitVec.toInt_srem]

theorem srem_s : ((x.signExtend 64).srem (y.signExtend 64)).setWidth w = x.srem y := by
  rw [srem_signExtend x y h, setWidth_signExtend _ h]

theorem shl_s (n : Nat) : (x.signExtend 64 <<< n).setWidth w = x <<< n := by
  rw [BitVec.setWidth_shiftLeft_of_le h, setWidth_signExtend x h]

theorem sshr_signExtend (n : Nat) : (x.signExtend 64).sshiftRight n = (x.sshiftRight n).signExtend 64 := by
  apply BitVec.eq_of_toInt_eq
  rw [BitVec.toInt_sshiftRight, BitVec.toInt_signExtend_of_le h, BitVec.toInt_signExtend_of_le h, BitVec.toInt_sshiftRight]

/-- arithmetic shift right, any count (counts `≥ w` give all sign bits on both sides) -/
theorem sshr_s (n : Nat) : ((x.signExtend 64).sshiftRight n).setWidth w = x.sshiftRight n := by
  rw [sshr_signExtend x h n, setWidth_signExtend _ h]

end signed

section unsigned
variable {w : Nat} (x y : BitVec w) (h : w ≤ 64)
include h

theorem add_u : (x.setWidth 64 + y.setWidth 64).setWidth w = x + y := by
  rw [BitVec.setWidth_add _ _ h, setWidth_zeroExtend x h, setWidth_zeroExtend y h]

theorem sub_u : (x.setWidth 64 - y.setWidth 64).setWidth w = x - y := by
  rw [BitVec.sub_eq_add_neg, BitVec.setWidth_add _ _ h, BitVec.setWidth_neg_of_le h,
    setWidth_zeroExtend x h, setWidth_zeroExtend y h, ← BitVec.sub_eq_add_neg]

theorem mul_u : (x.setWidth 64 * y.setWidth 64).setWidth w = x * y := by
  rw [BitVec.setWidth_mul _ _ h, setWidth_zeroExtend x h, setWidth_zeroExtend y h]

theorem and_u : (x.setWidth 64 &&& y.setWidth 64).setWidth w = x &&& y := by
  rw [BitVec.setWidth_and, setWidth_zeroExtend x h, setWidth_zeroExtend y h]

theorem or_u : (x.setWidth 64 ||| y.setWidth 64).setWidth w = x ||| y := by
  rw [BitVec.setWidth_or, setWidth_zeroExtend x h, setWidth_zeroExtend y h]

theorem xor_u : (x.setWidth 64 ^^^ y.setWidth 64).setWidth w = x ^^^ y := by
  rw [BitVec.setWidth_xor, setWidth_zeroExtend x h, setWidth_zeroExtend y h]

theorem andNot_u : (x.setWidth 64 &&& ~~~ y.setWidth 64).setWidth w = x &&& ~~~ y := by
  rw [BitVec.setWidth_and, BitVec.setWidth_not h, setWidth_zeroExtend x h, setWidth_zeroExtend y h]

theorem udiv_u : ((x.setWidth 64) / (y.setWidth 64)).setWidth w = x / y := by
  apply BitVec.eq_of_toNat_eq
  simp only [BitVec.toNat_setWidth, BitVec.toNat_udiv]
  have hx := x.isLt
  have hy := y.isLt
  have hp : 2 ^ w ≤ 2 ^ 64 := Nat.pow_le_pow_right (by omega) h
  rw [Nat.mod_eq_of_lt (by omega : x.toNat < 2 ^ 64), Nat.mod_eq_of_lt (by omega : y.toNat < 2 ^ 64)]
  apply Nat.mod_eq_of_lt
  exact Nat.lt_of_le_of_lt (Nat.div_le_self _ _) hx

theorem umod_u : ((x.setWidth 64) % (y.setWidth 64)).setWidth w = x % y := by
  apply BitVec.eq_of_toNat_eq
  simp only [BitVec.toNat_setWidth, BitVec.toNat_umod]
  have hx := x.isLt
  have hy := y.isLt
  have hp : 2 ^ w ≤ 2 ^ 64 := Nat.pow_le_pow_right (by omega) h
  rw [Nat.mod_eq_of_lt (by omega : x.toNat < 2 ^ 64), Nat.mod_eq_of_lt (by omega : y.toNat < 2 ^ 64)]
  apply Nat.mod_eq_of_lt
  exact Nat.lt_of_le_of_lt (Nat.mod_le _ _) hx

theorem shl_u (n : Nat) : (x.setWidth 64 <<< n).setWidth w = x <<< n := by
  rw [BitVec.setWidth_shiftLeft_of_le h, setWidth_zeroExtend x h]

theorem ushr_u (n : Nat) : ((x.setWidth 64) >>> n).setWidth w = x >>> n := by
  rw [← BitVec.setWidth_ushiftRight h, setWidth_zeroExtend _ h]

end unsigned

end C02Trunc
