import Model.Defer
/-!
Helper lemmas for C07: equation lemmas of the two layers in projection form, the monotonicity of
the specification's `rec`, and the simulation invariant `StmtsOK` with its mutual induction.
-/
namespace Defer

/-! ## equation lemmas -/

section eqns
variable (rest b d : List Act) (rec : Option Val) (sh : Sh)

@[simp] theorem Host.stmts_nil : Host.stmts [] rec sh = (none, rec, sh) := rfl
@[simp] theorem Host.stmts_emit (n) : Host.stmts (.emit n :: rest) rec sh = Host.stmts rest rec (sh.log (.emit n)) := rfl
@[simp] theorem Host.stmts_panic (v) : Host.stmts (.panic v :: rest) rec sh = (some v, rec, sh) := rfl
@[simp] theorem Host.stmts_recover : Host.stmts (.recover :: rest) rec sh = Host.stmts rest none (sh.log (.recov rec)) := rfl
@[simp] theorem Host.stmts_setRes (v) : Host.stmts (.setRes v :: rest) rec sh = Host.stmts rest rec (sh.setRes v) := rfl
@[simp] theorem Host.stmts_addRes (v) : Host.stmts (.addRes v :: rest) rec sh = Host.stmts rest rec (sh.addRes v) := rfl
@[simp] theorem Host.stmts_ret : Host.stmts (.ret :: rest) rec sh = (none, rec, sh) := rfl
@[simp] theorem Host.stmts_retv (v) : Host.stmts (.retv v :: rest) rec sh = (none, rec, sh.setRes v) := rfl
@[simp] theorem Host.sub_call : Host.sub (.call b) rec sh = Host.stmts b rec sh := rfl
@[simp] theorem Host.sub_deferFn : Host.sub (.deferFn b) rec sh = Host.stmts b rec sh := rfl

theorem Host.stmts_call :
    Host.stmts (.call b :: rest) rec sh =
      match (Host.stmts b none sh.push).1 with
      | some v => (some v, rec, (Host.stmts b none sh.push).2.2.pop)
      | none => Host.stmts rest rec
          ((Host.stmts b none sh.push).2.2.pop.log (.ret (Host.stmts b none sh.push).2.2.top)) := by
  show (match Host.sub (.call b) none sh.push with
      | (some v, _, sh1) => (some v, rec, sh1.pop)
      | (none, _, sh1) => Host.stmts rest rec (sh1.pop.log (.ret sh1.top))) = _
  rw [Host.sub_call]
  rcases Host.stmts b none sh.push with ⟨_ | v, r, s⟩ <;> rfl

theorem Host.stmts_defer :
    Host.stmts (.deferFn d :: rest) rec sh =
      (match (Host.stmts d (Host.stmts rest rec sh).1 (Host.stmts rest rec sh).2.2).1 with
        | some v2 => some v2
        | none => (Host.stmts d (Host.stmts rest rec sh).1 (Host.stmts rest rec sh).2.2).2.1,
       (Host.stmts rest rec sh).2.1,
       (Host.stmts d (Host.stmts rest rec sh).1 (Host.stmts rest rec sh).2.2).2.2) := by
  show (match Host.stmts rest rec sh with
      | (pend, rec1, sh1) =>
        match Host.sub (.deferFn d) pend sh1 with
        | (some v2, _, sh2) => (some v2, rec1, sh2)
        | (none, drec, sh2) => (drec, rec1, sh2)) = _
  rcases Host.stmts rest rec sh with ⟨pend, rec1, sh1⟩
  simp only [Host.sub_deferFn]
  rcases Host.stmts d pend sh1 with ⟨_ | v, r, s⟩ <;> rfl
end eqns

section ieqns
variable (cfg : Cfg) (funenv : Nat) (rest b d : List Act) (run : Run)

@[simp] theorem Interp.stmts_nil : Interp.stmts cfg funenv [] run = (Loc.returned, run) := rfl
@[simp] theorem Interp.stmts_emit (n) : Interp.stmts cfg funenv (.emit n :: rest) run =
    Interp.stmts cfg funenv rest { run with sh := run.sh.log (.emit n) } := rfl
@[simp] theorem Interp.stmts_panic (v) : Interp.stmts cfg funenv (.panic v :: rest) run = (Loc.paniced v, run) := rfl
@[simp] theorem Interp.stmts_recover : Interp.stmts cfg funenv (.recover :: rest) run =
    Interp.stmts cfg funenv rest
      { (callRecover run).2 with sh := (callRecover run).2.sh.log (.recov (callRecover run).1) } := rfl
@[simp] theorem Interp.stmts_setRes (v) : Interp.stmts cfg funenv (.setRes v :: rest) run =
    Interp.stmts cfg funenv rest { run with sh := run.sh.setRes v } := rfl
@[simp] theorem Interp.stmts_addRes (v) : Interp.stmts cfg funenv (.addRes v :: rest) run =
    Interp.stmts cfg funenv rest { run with sh := run.sh.addRes v } := rfl
@[simp] theorem Interp.stmts_ret : Interp.stmts cfg funenv (.ret :: rest) run = (Loc.returned, run) := rfl
@[simp] theorem Interp.stmts_retv (v) : Interp.stmts cfg funenv (.retv v :: rest) run =
    (Loc.returned, { run with sh := run.sh.setRes v }) := rfl
@[simp] theorem Interp.sub_call : Interp.sub cfg (.call b) run = Interp.frame cfg b run := rfl
@[simp] theorem Interp.sub_deferFn : Interp.sub cfg (.deferFn b) run = Interp.frame cfg b run := rfl

theorem Interp.frame_eq : Interp.frame cfg b run =
    frameExit run.isDefer (Interp.stmts cfg run.nextEnv b (frameEnter run)).1
      (Interp.stmts cfg run.nextEnv b (frameEnter run)).2 := rfl

theorem Interp.stmts_call :
    Interp.stmts cfg funenv (.call b :: rest) run =
      match (Interp.frame cfg b { run with sh := run.sh.push }).1 with
      | some v => (Loc.paniced v,
          { (Interp.frame cfg b { run with sh := run.sh.push }).2 with
            sh := (Interp.frame cfg b { run with sh := run.sh.push }).2.sh.pop })
      | none => Interp.stmts cfg funenv rest
          { (Interp.frame cfg b { run with sh := run.sh.push }).2 with
            sh := (Interp.frame cfg b { run with sh := run.sh.push }).2.sh.pop.log
              (.ret (Interp.frame cfg b { run with sh := run.sh.push }).2.sh.top) } := by
  show (match Interp.sub cfg (.call b) { run with sh := run.sh.push } with
      | (some v, run1) => (Loc.paniced v, { run1 with sh := run1.sh.pop })
      | (none, run1) => Interp.stmts cfg funenv rest { run1 with sh := run1.sh.pop.log (.ret run1.sh.top) }) = _
  rw [Interp.sub_call]
  rcases Interp.frame cfg b { run with sh := run.sh.push } with ⟨_ | v, r⟩ <;> rfl

theorem Interp.stmts_defer :
    Interp.stmts cfg funenv (.deferFn d :: rest) run =
      rundeferExit
        (Interp.frame cfg d (rundeferEnter cfg funenv (Interp.stmts cfg funenv rest run).1
          (Interp.stmts cfg funenv rest run).2).2).1
        (Interp.stmts cfg funenv rest run).2.deferOfFun
        (Interp.stmts cfg funenv rest run).2.isDefer
        (rundeferEnter cfg funenv (Interp.stmts cfg funenv rest run).1 (Interp.stmts cfg funenv rest run).2).1
        (Interp.frame cfg d (rundeferEnter cfg funenv (Interp.stmts cfg funenv rest run).1
          (Interp.stmts cfg funenv rest run).2).2).2 := rfl
end ieqns

/-! ## the specification's `rec` only ever goes from `some v` to `none` -/

theorem Host.rec_mono : ∀ (l : List Act) (rec : Option Val) (sh : Sh),
    (Host.stmts l rec sh).2.1 = rec ∨ (Host.stmts l rec sh).2.1 = none
  | [], rec, sh => by simp
  | a :: rest, rec, sh => by
    cases a with
    | emit n => simpa using Host.rec_mono rest rec _
    | panic v => simp
    | recover => right; simpa using Host.rec_mono rest none _
    | setRes v => simpa using Host.rec_mono rest rec _
    | addRes v => simpa using Host.rec_mono rest rec _
    | ret => simp
    | retv v => simp
    | call b =>
      rw [Host.stmts_call]
      split
      · simp
      · exact Host.rec_mono rest rec _
    | deferFn d =>
      rw [Host.stmts_defer]
      exact Host.rec_mono rest rec sh

theorem Host.rec_none (l : List Act) (sh : Sh) : (Host.stmts l none sh).2.1 = none := by
  rcases Host.rec_mono l none sh with h | h <;> exact h

/-! ## simulation invariant -/

/-- what `callRecover` returns in state `run` -/
def canRec (run : Run) : Bool :=
  run.isDefer && run.panicFun.isSome && (run.deferOfFun == run.panicFun)
def recOf (run : Run) : Option Val := if canRec run then run.panic else none

/-- what a direct recover() will return in the activation about to be entered from `run` -/
def recAtEntry (run : Run) : Option Val :=
  if run.startDefer && run.panicFun.isSome && (run.deferOfFun == run.panicFun) then run.panic else none

theorem callRecover_eq (run : Run) :
    callRecover run = (recOf run, if canRec run then { run with panic := none, panicFun := none } else run) := by
  unfold callRecover recOf canRec
  cases h1 : run.isDefer
  · simp
  · cases h2 : run.panicFun with
    | none => simp
    | some i =>
      by_cases h3 : run.deferOfFun = some i
      · simp [h3]
      · simp [h3]

/-- the Panic/PanicFun pair left behind by an activation entered with `rec` and left with `rec'` -/
def consumed (rec rec' : Option Val) (run : Run) : Option Val × Option Nat :=
  if rec.isSome && rec'.isNone then (none, none) else (run.panic, run.panicFun)

/-- global invariants of `Run` -/
structure Inv (run : Run) : Prop where
  i1 : run.panicFun.isSome = true → run.panic.isSome = true
  ids : ∀ i, run.panicFun = some i → i < run.nextEnv

structure StmtsOK (funenv : Nat) (run : Run) (rec pend rec' : Option Val) (sh' : Sh)
    (loc : Loc) (run' : Run) : Prop where
  sh : run'.sh = sh'
  hp : loc.hp = pend
  pk : (loc.panicking || loc.panicking2) = pend.isSome
  sd : run'.startDefer = false
  isd : run'.isDefer = run.isDefer
  dof : run'.deferOfFun = run.deferOfFun
  mono : run.nextEnv ≤ run'.nextEnv
  inv : Inv run'
  pairU : loc.saved = false → (run'.panic, run'.panicFun) = consumed rec rec' run
  pairS : loc.saved = true → (loc.savedPanic, loc.savedPanicFun) = consumed rec rec' run
  done : pend = none → run'.panicFun ≠ some funenv

structure FrameOK (run : Run) (rec pend rec' : Option Val) (sh' : Sh) (out : Option Val) (run' : Run) : Prop where
  sh : run'.sh = sh'
  out : out = pend
  sd : run'.startDefer = false
  isd : run'.isDefer = run.isDefer
  dof : run'.deferOfFun = run.deferOfFun
  mono : run.nextEnv ≤ run'.nextEnv
  inv : Inv run'
  pair : (run'.panic, run'.panicFun) = consumed rec rec' run

end Defer
