import Model.StmtIR
import Model.C02Arms
/-! # C02Sound — an accepted int-slot variable arm does what its path says (the part of
`var_table_sound` proved so far)

For the template body of `var<Op>Const` / `var<Op>Expr` under `if intbinds` (every operator incl.
shifts, EVERY kind, the four non-loop `switch upn` cases `0`, `1`, `2`, `c.Depth-1`), run in ANY machine
and any store that binds `val` / `fun` and `index`: the result is `specUnboxed` — the slot `index` of
the frame the case names (`hopOf`: 0, 1, 2 hops, or `FileEnv`) is read at kind `k`, `GoSpec.binop` is
applied, the result is written at kind `k` into that slot of that frame and `IP` advances by one; a
run-time panic of the operator (divide, negative shift) happens after the operands were evaluated and
stores nothing; an expression operand is applied exactly once, before the load (its id is appended
to the log).  `writePtr` only touches `frames[h].ints[idx]` (`writePtr_frame`). -/

open GoSpec ClosureIR StmtIR C02Arms
set_option linter.unusedSimpArgs false

namespace C02Sound

/-- the frame a `switch upn` case addresses (`loop`: `upn` hops, `upn ≥ 3`) -/
def hopOf (u : Upn) (m : Mach) (upn : Nat) : Nat :=
  match u with
  | .u0 => 0 | .u1 => 1 | .u2 => 2 | .file => m.fileIdx | .loop => upn

theorem readPtr_log (m : Mach) (l : List Nat) (k : Kind) (h i : Nat) :
    readPtr { m with log := l } k h i = readPtr m k h i := rfl

theorem readPtr_lt {m : Mach} {k : Kind} {h i : Nat} {x : Val} (hx : readPtr m k h i = some x) :
    h < m.frames.length := by
  unfold readPtr at hx
  cases hf : m.frames[h]? with
  | none => simp [hf] at hx
  | some f => exact (List.getElem?_eq_some_iff.mp hf).1

/-- the result of `target op= y` on an int-slot variable, as the specification says it: the slot of
    frame `h` is rewritten at kind `k` with `binop op x y`, IP advances by one; a run-time panic of the
    operator happens before anything is stored -/
def specUnboxed (F : FloatOps) (op : BinOp) (k : Kind) (m : Mach) (h idx : Nat) (x y : Val) : StmtIR.Flow :=
  match binop F op x y with
  | some (.ok v) => (match writePtr m k h idx v with
      | some m' => .done { m' with ip := m'.ip + 1 } | none => .stuck)
  | some (.panic p) => .panic p m
  | none => .stuck

theorem varOp_unboxed_const (F : FloatOps) (op : BinOp) (k : Kind) (u : Upn) (hu : u ≠ .loop)
    (ρ : StmtIR.Store) (m : Mach) (idx : Nat) (c x : Val)
    (hval : StmtIR.lookup ρ "val" = some (.val c)) (hidx : StmtIR.lookup ρ "index" = some (.nat idx))
    (hx : readPtr m k (hopOf u m 0) idx = some x) :
    StmtIR.execBody F (varOpBody op k u true .const) (StmtIR.update ρ "env" (.envp 0)) m =
      specUnboxed F op k m (hopOf u m 0) idx x c := by
  have hlen := readPtr_lt hx
  unfold specUnboxed
  by_cases hk : k = .uint64
  · subst hk
    cases hb : binop F op x c with
    | none => cases u <;> simp only [hopOf] at hx hlen ⊢ <;> (try exact absurd rfl hu) <;>
      (have h0 : 0 < m.frames.length := by omega) <;>
      (first | (have h1 : 1 < m.frames.length := by omega) | skip) <;>
      simp [varOpBody, pre, slotLhs, intsIx, envE, envV, rhsE, C02Arms.tail,
        StmtIR.execBody, StmtIR.execSt, StmtIR.execS, StmtIR.evalE, StmtIR.ctKey, StmtIR.loadFrom,
        StmtIR.assignTo, hval, hidx, StmtIR.lookup, StmtIR.update, Res.bind,
        evalSelSV, envHop, hlen, h0, hx, evalBinSV, liftB, hb, *]
    | some o =>
      cases o with
      | panic p => cases u <;> simp only [hopOf] at hx hlen ⊢ <;> (try exact absurd rfl hu) <;>
      (have h0 : 0 < m.frames.length := by omega) <;>
      (first | (have h1 : 1 < m.frames.length := by omega) | skip) <;>
      simp [varOpBody, pre, slotLhs, intsIx, envE, envV, rhsE, C02Arms.tail,
        StmtIR.execBody, StmtIR.execSt, StmtIR.execS, StmtIR.evalE, StmtIR.ctKey, StmtIR.loadFrom,
        StmtIR.assignTo, hval, hidx, StmtIR.lookup, StmtIR.update, Res.bind,
        evalSelSV, envHop, hlen, h0, hx, evalBinSV, liftB, hb, *]
      | ok v =>
        generalize hw : writePtr m .uint64 (hopOf u m 0) idx v = w
        cases w <;> cases u <;> simp only [hopOf] at hx hlen hw ⊢ <;> (try exact absurd rfl hu) <;>
      (have h0 : 0 < m.frames.length := by omega) <;>
      (first | (have h1 : 1 < m.frames.length := by omega) | skip) <;>
      simp [varOpBody, pre, slotLhs, intsIx, envE, envV, rhsE, C02Arms.tail,
        StmtIR.execBody, StmtIR.execSt, StmtIR.execS, StmtIR.evalE, StmtIR.ctKey, StmtIR.loadFrom,
        StmtIR.assignTo, hval, hidx, StmtIR.lookup, StmtIR.update, Res.bind,
        evalSelSV, envHop, hlen, h0, hx, evalBinSV, liftB, hb, *]
  · cases hb : binop F op x c with
    | none => cases u <;> simp only [hopOf] at hx hlen ⊢ <;> (try exact absurd rfl hu) <;>
      (have h0 : 0 < m.frames.length := by omega) <;>
      (first | (have h1 : 1 < m.frames.length := by omega) | skip) <;>
      simp [varOpBody, pre, slotLhs, hk, intsIx, envE, envV, rhsE, C02Arms.tail,
        StmtIR.execBody, StmtIR.execSt, StmtIR.execS, StmtIR.evalE, StmtIR.ctKey, StmtIR.loadFrom,
        StmtIR.assignTo, hval, hidx, StmtIR.lookup, StmtIR.update, Res.bind,
        evalSelSV, envHop, hlen, h0, hx, evalBinSV, liftB, hb, *]
    | some o =>
      cases o with
      | panic p => cases u <;> simp only [hopOf] at hx hlen ⊢ <;> (try exact absurd rfl hu) <;>
      (have h0 : 0 < m.frames.length := by omega) <;>
      (first | (have h1 : 1 < m.frames.length := by omega) | skip) <;>
      simp [varOpBody, pre, slotLhs, hk, intsIx, envE, envV, rhsE, C02Arms.tail,
        StmtIR.execBody, StmtIR.execSt, StmtIR.execS, StmtIR.evalE, StmtIR.ctKey, StmtIR.loadFrom,
        StmtIR.assignTo, hval, hidx, StmtIR.lookup, StmtIR.update, Res.bind,
        evalSelSV, envHop, hlen, h0, hx, evalBinSV, liftB, hb, *]
      | ok v =>
        generalize hw : writePtr m k (hopOf u m 0) idx v = w
        cases w <;> cases u <;> simp only [hopOf] at hx hlen hw ⊢ <;> (try exact absurd rfl hu) <;>
      (have h0 : 0 < m.frames.length := by omega) <;>
      (first | (have h1 : 1 < m.frames.length := by omega) | skip) <;>
      simp [varOpBody, pre, slotLhs, hk, intsIx, envE, envV, rhsE, C02Arms.tail,
        StmtIR.execBody, StmtIR.execSt, StmtIR.execS, StmtIR.evalE, StmtIR.ctKey, StmtIR.loadFrom,
        StmtIR.assignTo, hval, hidx, StmtIR.lookup, StmtIR.update, Res.bind,
        evalSelSV, envHop, hlen, h0, hx, evalBinSV, liftB, hb, *]


theorem varOp_unboxed_expr (F : FloatOps) (op : BinOp) (k : Kind) (u : Upn) (hu : u ≠ .loop)
    (ρ : StmtIR.Store) (m : Mach) (idx : Nat) (c x : Val) (kf : Kind) (id : Nat)
    (hval : StmtIR.lookup ρ "fun" = some (.clo kf id (.ok c))) (hidx : StmtIR.lookup ρ "index" = some (.nat idx))
    (hx : readPtr m k (hopOf u m 0) idx = some x) :
    StmtIR.execBody F (varOpBody op k u true .expr) (StmtIR.update ρ "env" (.envp 0)) m =
      specUnboxed F op k { m with log := m.log ++ [id] } (hopOf u m 0) idx x c := by
  have hlen := readPtr_lt hx
  unfold specUnboxed
  by_cases hk : k = .uint64
  · subst hk
    cases hb : binop F op x c with
    | none => cases u <;> simp only [hopOf] at hx hlen ⊢ <;> (try exact absurd rfl hu) <;>
      (have h0 : 0 < m.frames.length := by omega) <;>
      (first | (have h1 : 1 < m.frames.length := by omega) | skip) <;>
      simp [varOpBody, pre, slotLhs, intsIx, envE, envV, rhsE, C02Arms.tail,
        StmtIR.execBody, StmtIR.execSt, StmtIR.execS, StmtIR.evalE, StmtIR.ctKey, StmtIR.loadFrom,
        StmtIR.assignTo, hval, hidx, StmtIR.lookup, StmtIR.update, Res.bind,
        evalSelSV, envHop, hlen, h0, hx, evalBinSV, liftB, hb, applyClosure, readPtr_log, *]
    | some o =>
      cases o with
      | panic p => cases u <;> simp only [hopOf] at hx hlen ⊢ <;> (try exact absurd rfl hu) <;>
      (have h0 : 0 < m.frames.length := by omega) <;>
      (first | (have h1 : 1 < m.frames.length := by omega) | skip) <;>
      simp [varOpBody, pre, slotLhs, intsIx, envE, envV, rhsE, C02Arms.tail,
        StmtIR.execBody, StmtIR.execSt, StmtIR.execS, StmtIR.evalE, StmtIR.ctKey, StmtIR.loadFrom,
        StmtIR.assignTo, hval, hidx, StmtIR.lookup, StmtIR.update, Res.bind,
        evalSelSV, envHop, hlen, h0, hx, evalBinSV, liftB, hb, applyClosure, readPtr_log, *]
      | ok v =>
        generalize hw : writePtr { m with log := m.log ++ [id] } .uint64 (hopOf u m 0) idx v = w
        cases w <;> cases u <;> simp only [hopOf] at hx hlen hw ⊢ <;> (try exact absurd rfl hu) <;>
      (have h0 : 0 < m.frames.length := by omega) <;>
      (first | (have h1 : 1 < m.frames.length := by omega) | skip) <;>
      simp [varOpBody, pre, slotLhs, intsIx, envE, envV, rhsE, C02Arms.tail,
        StmtIR.execBody, StmtIR.execSt, StmtIR.execS, StmtIR.evalE, StmtIR.ctKey, StmtIR.loadFrom,
        StmtIR.assignTo, hval, hidx, StmtIR.lookup, StmtIR.update, Res.bind,
        evalSelSV, envHop, hlen, h0, hx, evalBinSV, liftB, hb, applyClosure, readPtr_log, *]
  · cases hb : binop F op x c with
    | none => cases u <;> simp only [hopOf] at hx hlen ⊢ <;> (try exact absurd rfl hu) <;>
      (have h0 : 0 < m.frames.length := by omega) <;>
      (first | (have h1 : 1 < m.frames.length := by omega) | skip) <;>
      simp [varOpBody, pre, slotLhs, hk, intsIx, envE, envV, rhsE, C02Arms.tail,
        StmtIR.execBody, StmtIR.execSt, StmtIR.execS, StmtIR.evalE, StmtIR.ctKey, StmtIR.loadFrom,
        StmtIR.assignTo, hval, hidx, StmtIR.lookup, StmtIR.update, Res.bind,
        evalSelSV, envHop, hlen, h0, hx, evalBinSV, liftB, hb, applyClosure, readPtr_log, *]
    | some o =>
      cases o with
      | panic p => cases u <;> simp only [hopOf] at hx hlen ⊢ <;> (try exact absurd rfl hu) <;>
      (have h0 : 0 < m.frames.length := by omega) <;>
      (first | (have h1 : 1 < m.frames.length := by omega) | skip) <;>
      simp [varOpBody, pre, slotLhs, hk, intsIx, envE, envV, rhsE, C02Arms.tail,
        StmtIR.execBody, StmtIR.execSt, StmtIR.execS, StmtIR.evalE, StmtIR.ctKey, StmtIR.loadFrom,
        StmtIR.assignTo, hval, hidx, StmtIR.lookup, StmtIR.update, Res.bind,
        evalSelSV, envHop, hlen, h0, hx, evalBinSV, liftB, hb, applyClosure, readPtr_log, *]
      | ok v =>
        generalize hw : writePtr { m with log := m.log ++ [id] } k (hopOf u m 0) idx v = w
        cases w <;> cases u <;> simp only [hopOf] at hx hlen hw ⊢ <;> (try exact absurd rfl hu) <;>
      (have h0 : 0 < m.frames.length := by omega) <;>
      (first | (have h1 : 1 < m.frames.length := by omega) | skip) <;>
      simp [varOpBody, pre, slotLhs, hk, intsIx, envE, envV, rhsE, C02Arms.tail,
        StmtIR.execBody, StmtIR.execSt, StmtIR.execS, StmtIR.evalE, StmtIR.ctKey, StmtIR.loadFrom,
        StmtIR.assignTo, hval, hidx, StmtIR.lookup, StmtIR.update, Res.bind,
        evalSelSV, envHop, hlen, h0, hx, evalBinSV, liftB, hb, applyClosure, readPtr_log, *]


/-- `writePtr` changes nothing but the `Ints` array of frame `h`: same number of frames, every other
    frame, the boxed values of frame `h`, heap, maps, log, IP and FileEnv are untouched -/
theorem writePtr_frame {m m' : Mach} {k : Kind} {h i : Nat} {v : Val} (hw : writePtr m k h i v = some m') :
    m'.frames.length = m.frames.length ∧ m'.fileIdx = m.fileIdx ∧ m'.ip = m.ip ∧ m'.heap = m.heap ∧
    m'.maps = m.maps ∧ m'.log = m.log ∧
    (∀ h', h' ≠ h → m'.frames[h']? = m.frames[h']?) ∧
    (∀ f f', m.frames[h]? = some f → m'.frames[h]? = some f' → f'.vals = f.vals) := by
  unfold writePtr at hw
  cases hf : m.frames[h]? with
  | none => simp [hf] at hw
  | some f =>
    simp only [hf, Option.map_eq_some_iff] at hw
    obtain ⟨l, _, rfl⟩ := hw
    have hlt : h < m.frames.length := (List.getElem?_eq_some_iff.mp hf).1
    refine ⟨by simp [setFrame], rfl, rfl, rfl, rfl, rfl, ?_, ?_⟩
    · intro h' hne
      simp [setFrame, List.getElem?_set, Ne.symm hne]
    · intro f1 f2 h1 h2
      simp [setFrame, List.getElem?_set, hlt] at h2
      cases h1
      subst h2
      rfl

/-- `x = val` on an int-slot variable: the slot of the named frame is written at kind `k`, IP advances -/
def specSetUnboxed (k : Kind) (m : Mach) (h idx : Nat) (c : Val) : StmtIR.Flow :=
  match writePtr m k h idx c with
  | some m' => .done { m' with ip := m'.ip + 1 }
  | none => .stuck

theorem varSet_unboxed_const (F : FloatOps) (k : Kind) (u : Upn) (hu : u ≠ .loop)
    (ρ : StmtIR.Store) (m : Mach) (idx : Nat) (c : Val)
    (hval : StmtIR.lookup ρ "val" = some (.val c)) (hidx : StmtIR.lookup ρ "index" = some (.nat idx))
    (hlen : hopOf u m 0 < m.frames.length) :
    StmtIR.execBody F (varSetBody k u true .const) (StmtIR.update ρ "env" (.envp 0)) m =
      specSetUnboxed k m (hopOf u m 0) idx c := by
  unfold specSetUnboxed
  by_cases hk : k = .uint64
  · subst hk
    generalize hw : writePtr m .uint64 (hopOf u m 0) idx c = w
    cases w <;> cases u <;> simp only [hopOf] at hlen hw ⊢ <;> (try exact absurd rfl hu) <;>
      (have h0 : 0 < m.frames.length := by omega) <;>
      (first | (have h1 : 1 < m.frames.length := by omega) | skip) <;>
      simp [varSetBody, pre, slotLhs, intsIx, envE, envV, rhsE, C02Arms.tail,
        StmtIR.execBody, StmtIR.execSt, StmtIR.execS, StmtIR.evalE, StmtIR.ctKey,
        StmtIR.assignTo, hval, hidx, StmtIR.lookup, StmtIR.update, Res.bind,
        evalSelSV, envHop, hlen, h0, *]
  · generalize hw : writePtr m k (hopOf u m 0) idx c = w
    cases w <;> cases u <;> simp only [hopOf] at hlen hw ⊢ <;> (try exact absurd rfl hu) <;>
      (have h0 : 0 < m.frames.length := by omega) <;>
      (first | (have h1 : 1 < m.frames.length := by omega) | skip) <;>
      simp [varSetBody, pre, slotLhs, hk, intsIx, envE, envV, rhsE, C02Arms.tail,
        StmtIR.execBody, StmtIR.execSt, StmtIR.execS, StmtIR.evalE, StmtIR.ctKey,
        StmtIR.assignTo, hval, hidx, StmtIR.lookup, StmtIR.update, Res.bind,
        evalSelSV, envHop, hlen, h0, *]

theorem varSet_unboxed_expr (F : FloatOps) (k : Kind) (u : Upn) (hu : u ≠ .loop)
    (ρ : StmtIR.Store) (m : Mach) (idx : Nat) (c : Val) (kf : Kind) (id : Nat)
    (hval : StmtIR.lookup ρ "fun" = some (.clo kf id (.ok c))) (hidx : StmtIR.lookup ρ "index" = some (.nat idx))
    (hlen : hopOf u m 0 < m.frames.length) :
    StmtIR.execBody F (varSetBody k u true .expr) (StmtIR.update ρ "env" (.envp 0)) m =
      specSetUnboxed k { m with log := m.log ++ [id] } (hopOf u m 0) idx c := by
  unfold specSetUnboxed
  by_cases hk : k = .uint64
  · subst hk
    generalize hw : writePtr { m with log := m.log ++ [id] } .uint64 (hopOf u m 0) idx c = w
    cases w <;> cases u <;> simp only [hopOf] at hlen hw ⊢ <;> (try exact absurd rfl hu) <;>
      (have h0 : 0 < m.frames.length := by omega) <;>
      (first | (have h1 : 1 < m.frames.length := by omega) | skip) <;>
      simp [varSetBody, pre, slotLhs, intsIx, envE, envV, rhsE, C02Arms.tail,
        StmtIR.execBody, StmtIR.execSt, StmtIR.execS, StmtIR.evalE, StmtIR.ctKey,
        StmtIR.assignTo, hval, hidx, StmtIR.lookup, StmtIR.update, Res.bind,
        evalSelSV, envHop, hlen, h0, applyClosure, *]
  · generalize hw : writePtr { m with log := m.log ++ [id] } k (hopOf u m 0) idx c = w
    cases w <;> cases u <;> simp only [hopOf] at hlen hw ⊢ <;> (try exact absurd rfl hu) <;>
      (have h0 : 0 < m.frames.length := by omega) <;>
      (first | (have h1 : 1 < m.frames.length := by omega) | skip) <;>
      simp [varSetBody, pre, slotLhs, hk, intsIx, envE, envV, rhsE, C02Arms.tail,
        StmtIR.execBody, StmtIR.execSt, StmtIR.execS, StmtIR.evalE, StmtIR.ctKey,
        StmtIR.assignTo, hval, hidx, StmtIR.lookup, StmtIR.update, Res.bind,
        evalSelSV, envHop, hlen, h0, applyClosure, *]



end C02Sound
