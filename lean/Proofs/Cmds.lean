import Model.Cmds
/-! Helper lemmas for Props/C37 (core only). -/
namespace Cmds

theorem ltN_irrefl : ∀ a : Name, ltN a a = false
  | [] => rfl
  | a :: as => by simp [ltN, ltN_irrefl as]

theorem ltN_trans : ∀ a b c : Name, ltN a b = true → ltN b c = true → ltN a c = true
  | [], [], _, h, _ => by simp [ltN] at h
  | [], _ :: _, [], _, h => by simp [ltN] at h
  | [], _ :: _, _ :: _, _, _ => by simp [ltN]
  | _ :: _, [], _, h, _ => by simp [ltN] at h
  | _ :: _, _ :: _, [], _, h => by simp [ltN] at h
  | a :: as, b :: bs, c :: cs, h1, h2 => by
    simp only [ltN] at h1 h2 ⊢
    by_cases hab : a < b
    · by_cases hbc : b < c
      · have : a < c := Nat.lt_trans hab hbc
        simp [this]
      · simp [hbc] at h2
        have hcb := h2.1
        have : b = c := by omega
        subst this; simp [hab]
    · simp [hab] at h1
      have hba := h1.1
      have : a = b := by omega
      subst this
      by_cases hac : a < c
      · simp [hac]
      · simp [hac] at h2 ⊢
        exact ⟨h2.1, ltN_trans as bs cs h1.2 h2.2⟩

theorem ltN_asymm (a b : Name) (h : ltN a b = true) : ltN b a = false := by
  cases hb : ltN b a with
  | false => rfl
  | true => have := ltN_trans a b a h hb; simp [ltN_irrefl] at this

theorem ltN_tri : ∀ a b : Name, ltN a b = false → ltN b a = false → a = b
  | [], [], _, _ => rfl
  | [], _ :: _, h, _ => by simp [ltN] at h
  | _ :: _, [], _, h => by simp [ltN] at h
  | a :: as, b :: bs, h1, h2 => by
    simp only [ltN] at h1 h2
    by_cases hab : a < b
    · simp [hab] at h1
    · by_cases hba : b < a
      · simp [hba] at h2
      · simp [hab, hba] at h1 h2
        have : a = b := by omega
        subst this
        rw [ltN_tri as bs h1 h2]

theorem hasPrefix_nil (n : Name) : hasPrefix n [] = true := by cases n <;> rfl

theorem hasPrefix_refl : ∀ n : Name, hasPrefix n n = true
  | [] => rfl
  | a :: as => by simp [hasPrefix, hasPrefix_refl as]

/-- a name with prefix p is not below p -/
theorem hasPrefix_not_lt : ∀ n p : Name, hasPrefix n p = true → ltN n p = false
  | [], [], _ => rfl
  | _ :: _, [], _ => rfl
  | [], _ :: _, h => by simp [hasPrefix] at h
  | a :: as, b :: bs, h => by
    simp only [hasPrefix, Bool.and_eq_true, beq_iff_eq] at h
    obtain ⟨rfl, h2⟩ := h
    simp [ltN, hasPrefix_not_lt as bs h2]

/-- once above p and not prefixed by p, every larger name is too -/
theorem above_stays : ∀ n n' p : Name, hasPrefix n p = false → ltN n p = false →
    ltN n n' = true → hasPrefix n' p = false ∧ ltN n' p = false
  | _, _, [], h, _, _ => by simp [hasPrefix_nil] at h
  | [], _, _ :: _, _, h, _ => by simp [ltN] at h
  | _ :: _, [], _ :: _, _, _, h => by simp [ltN] at h
  | a :: as, a' :: as', b :: bs, hp, hl, hlt => by
    simp only [ltN] at hl hlt
    simp only [hasPrefix] at hp
    by_cases hab : a < b
    · simp [hab] at hl
    · simp [hab] at hl
      by_cases haa : a < a'
      · have h1 : ¬ a' < b := by omega
        have h2 : ¬ a' = b := by omega
        have h3 : b < a' := by omega
        simp [hasPrefix, ltN, h1, h2, h3]
      · simp [haa] at hlt
        have : a = a' := by omega
        subst this
        by_cases hba : b < a
        · have h2 : ¬ a = b := by omega
          simp [hasPrefix, ltN, hab, hba, h2]
        · have : a = b := by omega
          subst this
          simp at hp
          have hl2 : ltN as bs = false := by simpa [hba] using hl
          have := above_stays as as' bs hp hl2 hlt.2
          simp [hasPrefix, ltN, this]

theorem matchN_lt {n p : Name} : matchN n p < 0 ↔ (hasPrefix n p = false ∧ ltN n p = true) := by
  unfold matchN
  cases h1 : hasPrefix n p <;> cases h2 : ltN n p <;> simp

theorem matchN_eq {n p : Name} : matchN n p = 0 ↔ hasPrefix n p = true := by
  unfold matchN
  cases h1 : hasPrefix n p <;> cases h2 : ltN n p <;> simp

theorem matchN_gt {n p : Name} : matchN n p > 0 ↔ (hasPrefix n p = false ∧ ltN n p = false) := by
  unfold matchN
  cases h1 : hasPrefix n p <;> cases h2 : ltN n p <;> simp

abbrev Sorted (v : List Name) : Prop := v.Pairwise (fun a b => ltN a b = true)

end Cmds

namespace Cmds

theorem sorted_get {v : List Name} (hs : Sorted v) {i j : Nat} (hij : i < j) (hj : j < v.length) :
    ltN (v.getD i []) (v.getD j []) = true := by
  have hi : i < v.length := Nat.lt_trans hij hj
  have := (List.pairwise_iff_getElem.mp hs) i j hi hj hij
  simpa [List.getD_eq_getElem?_getD, hi, hj] using this

/-- loop invariant of binarySearch on a sorted vector -/
theorem bsearch_spec (vec : List Name) (x : Name) (hs : Sorted vec) :
    ∀ fuel lo hi, lo ≤ hi → hi ≤ vec.length → hi - lo < fuel →
    (∀ j, j < lo → ltN (vec.getD j []) x = true) →
    (∀ j, hi ≤ j → j < vec.length → ltN x (vec.getD j []) = true) →
    ((bsearch vec x fuel lo hi).2 = true →
        (bsearch vec x fuel lo hi).1 < vec.length ∧ vec.getD (bsearch vec x fuel lo hi).1 [] = x) ∧
    ((bsearch vec x fuel lo hi).2 = false →
        (bsearch vec x fuel lo hi).1 ≤ vec.length ∧
        (∀ j, j < (bsearch vec x fuel lo hi).1 → ltN (vec.getD j []) x = true) ∧
        (∀ j, (bsearch vec x fuel lo hi).1 ≤ j → j < vec.length → ltN x (vec.getD j []) = true)) := by
  intro fuel
  induction fuel with
  | zero => intro lo hi _ _ h; omega
  | succ f ih =>
    intro lo hi hlh hhl hf hlo hhi
    unfold bsearch
    by_cases hlt : lo < hi
    · simp only [hlt, if_true]
      have hmid1 : lo ≤ (lo + hi - 1) / 2 := by omega
      have hmid2 : (lo + hi - 1) / 2 < hi := by omega
      generalize hm : (lo + hi - 1) / 2 = mid at *
      by_cases h1 : ltN (vec.getD mid []) x = true
      · simp only [h1, if_true]
        apply ih (mid + 1) hi (by omega) hhl (by omega) _ hhi
        intro j hj
        by_cases hjm : j = mid
        · subst hjm; exact h1
        · exact ltN_trans _ _ _ (sorted_get hs (by omega) (by omega)) h1
      · simp only [h1]
        by_cases h2 : ltN x (vec.getD mid []) = true
        · simp only [h2, if_true]
          apply ih lo mid hmid1 (by omega) (by omega) hlo
          intro j hj hjl
          by_cases hjm : j = mid
          · subst hjm; exact h2
          · exact ltN_trans _ _ _ h2 (sorted_get hs (by omega) hjl)
        · simp only [h2]
          simp only [Bool.not_eq_true] at h1 h2
          simp
          exact ⟨by omega, ltN_tri _ _ h1 h2⟩
    · simp only [hlt, if_false]
      have : lo = hi := by omega
      subst this
      simp
      exact ⟨hhl, hlo, hhi⟩

theorem binarySearch_found {vec : List Name} {x : Name} (hs : Sorted vec)
    (h : (binarySearch vec x).2 = true) :
    (binarySearch vec x).1 < vec.length ∧ vec.getD (binarySearch vec x).1 [] = x := by
  unfold binarySearch at *
  exact (bsearch_spec vec x hs (vec.length + 1) 0 vec.length (by omega) (by omega) (by omega)
    (by intro j hj; omega) (by intro j h1 h2; omega)).1 h

theorem binarySearch_notfound {vec : List Name} {x : Name} (hs : Sorted vec)
    (h : (binarySearch vec x).2 = false) :
    (binarySearch vec x).1 ≤ vec.length ∧
    (∀ j, j < (binarySearch vec x).1 → ltN (vec.getD j []) x = true) ∧
    (∀ j, (binarySearch vec x).1 ≤ j → j < vec.length → ltN x (vec.getD j []) = true) := by
  unfold binarySearch at *
  exact (bsearch_spec vec x hs (vec.length + 1) 0 vec.length (by omega) (by omega) (by omega)
    (by intro j hj; omega) (by intro j h1 h2; omega)).2 h

theorem mem_getD {vec : List Name} {x : Name} (h : x ∈ vec) : ∃ j, j < vec.length ∧ vec.getD j [] = x := by
  obtain ⟨j, hj, rfl⟩ := List.getElem_of_mem h
  exact ⟨j, hj, by simp [List.getD_eq_getElem?_getD, hj]⟩

/-- binarySearch on a sorted vector reports `found` exactly for members -/
theorem binarySearch_found_iff {vec : List Name} {x : Name} (hs : Sorted vec) :
    (binarySearch vec x).2 = true ↔ x ∈ vec := by
  constructor
  · intro h
    obtain ⟨h1, h2⟩ := binarySearch_found hs h
    rw [← h2, List.getD_eq_getElem?_getD]; simp [h1]
  · intro h
    cases hb : (binarySearch vec x).2 with
    | true => rfl
    | false =>
      obtain ⟨_, h2, h3⟩ := binarySearch_notfound hs hb
      obtain ⟨j, hj, rfl⟩ := mem_getD h
      by_cases hjl : j < (binarySearch vec (vec.getD j [])).1
      · have := h2 j hjl; simp [ltN_irrefl] at this
      · have := h3 j (by omega) hj; simp [ltN_irrefl] at this

end Cmds

namespace Cmds

abbrev pfx (p : Name) : Name → Bool := fun n => hasPrefix n p

/-- the three-way result built from the list of candidates -/
def resOf : List Name → Res
  | [] => .none
  | [x] => .one x
  | xs => .ambig xs

theorem sorted_tail {n : Name} {rest : List Name} (h : Sorted (n :: rest)) : Sorted rest :=
  (List.pairwise_cons.mp h).2

theorem sorted_head {n : Name} {rest : List Name} (h : Sorted (n :: rest)) :
    ∀ m ∈ rest, ltN n m = true := (List.pairwise_cons.mp h).1

/-- S1: after a name above the prefix block nothing matches -/
theorem filter_above (p : Name) : ∀ (n : Name) (rest : List Name), Sorted (n :: rest) →
    hasPrefix n p = false → ltN n p = false → (n :: rest).filter (pfx p) = [] := by
  intro n rest
  induction rest generalizing n with
  | nil => intro _ h _; simp [pfx, h]
  | cons m rest ih =>
    intro hs h1 h2
    have hnm : ltN n m = true := sorted_head hs m (by simp)
    have ⟨h3, h4⟩ := above_stays n m p h1 h2 hnm
    have := ih m (sorted_tail hs) h3 h4
    simp only [List.filter_cons, pfx, h1] at this ⊢
    simpa using this

/-- S2: after the first match the second loop collects exactly the matching names -/
theorem scan2_eq_filter (p : Name) : ∀ (n : Name) (rest : List Name), Sorted (n :: rest) →
    hasPrefix n p = true → scan2 p rest = rest.filter (pfx p) := by
  intro n rest
  induction rest generalizing n with
  | nil => intro _ _; rfl
  | cons m rest ih =>
    intro hs hp
    have hnm : ltN n m = true := sorted_head hs m (by simp)
    have hmp : ltN m p = false := by
      cases h : ltN m p with
      | false => rfl
      | true =>
        have := ltN_trans n m p hnm h
        simp [hasPrefix_not_lt n p hp] at this
    unfold scan2
    by_cases hm : hasPrefix m p = true
    · have h0 : ¬ matchN m p > 0 := by rw [matchN_gt]; simp [hm]
      simp only [h0, if_false, List.filter_cons, pfx, hm, if_true]
      rw [ih m (sorted_tail hs) hm]
    · simp only [Bool.not_eq_true] at hm
      have h0 : matchN m p > 0 := by rw [matchN_gt]; exact ⟨hm, hmp⟩
      simp only [h0, if_true]
      exact (filter_above p m rest (sorted_tail hs) hm hmp).symm

theorem scanRes_spec (p : Name) : ∀ l : List Name, Sorted l → scanRes p l = resOf (l.filter (pfx p)) := by
  intro l
  induction l with
  | nil => intro _; rfl
  | cons n rest ih =>
    intro hs
    unfold scanRes scan1
    by_cases h1 : matchN n p < 0
    · simp only [h1, if_true]
      have := ih (sorted_tail hs)
      unfold scanRes at this
      rw [this]
      have hp := (matchN_lt.mp h1).1
      simp [List.filter_cons, pfx, hp]
    · simp only [h1, if_false]
      by_cases h2 : matchN n p = 0
      · simp only [h2, if_true]
        have hp := matchN_eq.mp h2
        rw [scan2_eq_filter p n rest hs hp]
        simp only [List.filter_cons, pfx, hp, if_true]
        cases rest.filter (pfx p) with
        | nil => rfl
        | cons y ys => rfl
      · simp only [h2, if_false]
        have h3 : matchN n p > 0 := by omega
        obtain ⟨h4, h5⟩ := matchN_gt.mp h3
        rw [filter_above p n rest hs h4 h5]; rfl

theorem sorted_drop {v : List Name} (h : Sorted v) (k : Nat) : Sorted (v.drop k) :=
  List.Pairwise.sublist (List.drop_sublist k v) h

theorem filter_take_below {v : List Name} {p : Name} {k : Nat}
    (h : ∀ j, j < k → ltN (v.getD j []) p = true) (hk : k ≤ v.length) :
    (v.take k).filter (pfx p) = [] := by
  rw [List.filter_eq_nil_iff]
  intro a ha
  obtain ⟨j, hj, rfl⟩ := List.getElem_of_mem ha
  simp only [List.length_take] at hj
  have hjk : j < k := by omega
  have hjv : j < v.length := by omega
  have := h j hjk
  simp only [List.getElem_take, pfx]
  simp only [List.getD_eq_getElem?_getD, hjv, List.getElem?_eq_getElem, Option.getD_some] at this
  cases hp : hasPrefix v[j] p with
  | false => simp
  | true => simp [hasPrefix_not_lt _ _ hp] at this

/-- linear-scan specification of prefix lookup in one vector (repaired code) -/
def specVec (vec : List Name) (p : Name) : Res :=
  if p ∈ vec then .one p else resOf (vec.filter (pfx p))

theorem scan_from {vec : List Name} {p : Name} (hs : Sorted vec) (lo : Nat) (h1 : lo ≤ vec.length)
    (h2 : ∀ j, j < lo → ltN (vec.getD j []) p = true) :
    scanRes p (vec.drop lo) = resOf (vec.filter (pfx p)) := by
  rw [scanRes_spec p (vec.drop lo) (sorted_drop hs lo)]
  conv => rhs; rw [← List.take_append_drop lo vec, List.filter_append, filter_take_below h2 h1]
  simp

theorem binarySearch_below {vec : List Name} {p : Name} (hs : Sorted vec) :
    (binarySearch vec p).1 ≤ vec.length ∧ ∀ j, j < (binarySearch vec p).1 → ltN (vec.getD j []) p = true := by
  cases hb : (binarySearch vec p).2 with
  | false => obtain ⟨h1, h2, _⟩ := binarySearch_notfound hs hb; exact ⟨h1, h2⟩
  | true =>
    obtain ⟨h1, h2⟩ := binarySearch_found hs hb
    refine ⟨by omega, ?_⟩
    intro j hj
    have := sorted_get hs hj h1
    rwa [h2] at this

/-- the two loops alone (the code before the repair of F15) compute the candidate list -/
theorem prefixSearchG_noexact_spec {vec : List Name} {p : Name} (hs : Sorted vec) :
    prefixSearchG false vec p = resOf (vec.filter (pfx p)) := by
  obtain ⟨h1, h2⟩ := binarySearch_below (p := p) hs
  unfold prefixSearchG
  generalize binarySearch vec p = b at *
  obtain ⟨lo, found⟩ := b
  simp only [Bool.false_and, Bool.false_eq_true, if_false]
  exact scan_from hs lo h1 h2

theorem prefixSearchG_false_spec {vec : List Name} {p : Name} (hs : Sorted vec)
    (hnf : (binarySearch vec p).2 = false) (ef : Bool) :
    prefixSearchG ef vec p = resOf (vec.filter (pfx p)) := by
  obtain ⟨h1, h2⟩ := binarySearch_below (p := p) hs
  unfold prefixSearchG
  generalize hb : binarySearch vec p = b at *
  obtain ⟨lo, found⟩ := b
  simp only at hnf h1 h2
  subst hnf
  simp only [Bool.and_false, Bool.false_eq_true, if_false]
  exact scan_from hs lo h1 h2

theorem prefixSearch_spec {vec : List Name} {p : Name} (hs : Sorted vec) :
    prefixSearch vec p = specVec vec p := by
  unfold specVec
  cases hb : (binarySearch vec p).2 with
  | true =>
    have hm := (binarySearch_found_iff hs).mp hb
    obtain ⟨_, h2⟩ := binarySearch_found hs hb
    simp only [hm, if_true]
    unfold prefixSearch prefixSearchG
    generalize hbb : binarySearch vec p = b at *
    obtain ⟨lo, found⟩ := b
    simp only at hb h2
    subst hb
    simp only [Bool.and_self, if_true]
    rw [h2]
  | false =>
    have hm : ¬ p ∈ vec := by
      intro h; have := (binarySearch_found_iff hs).mpr h; simp [hb] at this
    simp only [hm, if_false]
    exact prefixSearchG_false_spec hs hb true

end Cmds

namespace Cmds

/-! ### Add / Del -/

theorem mem_insertSorted {x n : Name} {v : List Name} : n ∈ insertSorted x v ↔ n = x ∨ n ∈ v := by
  induction v with
  | nil => simp [insertSorted]
  | cons y ys ih =>
    unfold insertSorted
    by_cases h : ltN x y = true
    · simp [h]
    · simp only [h, Bool.false_eq_true, if_false, List.mem_cons, ih]
      constructor
      · rintro (h | h | h) <;> simp [h]
      · rintro (h | h | h) <;> simp [h]

theorem sorted_insertSorted {x : Name} : ∀ {v : List Name}, Sorted v → x ∉ v → Sorted (insertSorted x v)
  | [], _, _ => by simp [insertSorted, Sorted]
  | y :: ys, hs, hx => by
    unfold insertSorted
    by_cases h : ltN x y = true
    · simp only [h, if_true]
      refine List.pairwise_cons.mpr ⟨?_, hs⟩
      intro m hm
      rcases List.mem_cons.mp hm with rfl | hm
      · exact h
      · exact ltN_trans _ _ _ h (sorted_head hs m hm)
    · simp only [h, Bool.false_eq_true, if_false]
      have hxy : x ≠ y := by intro e; exact hx (by simp [e])
      have hyx : ltN y x = true := by
        cases h2 : ltN y x with
        | true => rfl
        | false => exact absurd (ltN_tri x y (by simpa using h) h2) hxy
      refine List.pairwise_cons.mpr ⟨?_, sorted_insertSorted (sorted_tail hs) (by intro e; exact hx (by simp [e]))⟩
      intro m hm
      rcases mem_insertSorted.mp hm with rfl | hm
      · exact hyx
      · exact sorted_head hs m hm

theorem copyAt_spec : ∀ (src dst : List Name) (off : Nat), off + src.length ≤ dst.length →
    copyAt dst off src = dst.take off ++ src ++ dst.drop (off + src.length)
  | [], dst, off, _ => by simp [copyAt]
  | x :: xs, dst, off, h => by
    simp only [List.length_cons] at h
    unfold copyAt
    rw [copyAt_spec xs (dst.set off x) (off + 1) (by simp; omega)]
    have hoff : off < dst.length := by omega
    have h1 : (dst.set off x).take (off + 1) = dst.take off ++ [x] := by
      rw [List.take_add_one, List.take_set_of_le (Nat.le_refl _)]
      simp [hoff]
    have h2 : (dst.set off x).drop (off + 1 + xs.length) = dst.drop (off + (xs.length + 1)) := by
      rw [List.drop_set_of_lt (by omega)]; congr 1; omega
    rw [h1, h2]; simp

theorem removeCmd_spec (vec : List Name) (pos : Nat) (h : pos < vec.length) :
    removeCmd vec pos = vec.eraseIdx pos := by
  rw [List.eraseIdx_eq_take_drop_succ]
  unfold removeCmd
  by_cases h1 : pos = vec.length - 1
  · simp only [h1, if_true]
    rw [List.drop_eq_nil_of_le (by omega)]; simp
  · simp only [h1, if_false]
    by_cases h2 : pos = 0
    · subst h2; simp
    · simp only [h2, if_false]
      have hl : (vec.drop (pos + 1)).length = vec.length - (pos + 1) := by simp
      by_cases h3 : pos ≥ (vec.drop (pos + 1)).length
      · simp only [h3, if_true]
        rw [copyAt_spec _ _ _ (by rw [hl]; omega)]
        rw [List.take_append_of_le_length (by simp; omega)]
        rw [List.take_of_length_le (by simp; omega)]
      · simp only [h3, if_false]
        rw [copyAt_spec _ _ _ (by simp; omega)]
        have : (vec.take 1).length = 1 := by simp; omega
        rw [List.append_assoc, List.drop_append_of_le_length (by omega)]
        rw [List.drop_of_length_le (by omega)]
        simp [List.length_take, Nat.min_def, show pos ≤ vec.length by omega, Nat.add_comm]

end Cmds
