import Model.Interrupt
/-! Helper definitions and lemmas for C13 (interrupt polling bound). -/
namespace Interrupt

def isDfr : Stmt → Bool
  | .dfr _ _ => true
  | _ => false

/-- length of the run of consecutive defer statements of function `f` starting at its `n`-th
    executed statement, counted up to `fuel` -/
def defRun (P : Prog) (f : Nat) : Nat → Nat → Nat
  | 0, _ => 0
  | k + 1, n => if isDfr (P.body f n) then defRun P f k (n + 1) + 1 else 0

/-- no activation executes more than `D` defer statements in a row -/
def DeferRunsLE (P : Prog) (D : Nat) : Prop := ∀ f n, defRun P f (D + 1) n ≤ D

/-- every examination of the signal word found in the source is present -/
def LoopOK (L : Loop) : Prop :=
  L.entryPoll = true ∧ L.chainPoll = true ∧ L.spinPoll = true ∧ L.exitPoll = true

def PollsOK (S : Sites) : Prop :=
  LoopOK S.fast ∧ LoopOK S.flags ∧ S.restorePoll = true ∧ S.spinStmtPoll = true

instance (L : Loop) : Decidable (LoopOK L) := by unfold LoopOK; infer_instance
instance (S : Sites) : Decidable (PollsOK S) := by unfold PollsOK; infer_instance

theorem defRun_cap (P : Prog) (f : Nat) : ∀ k m, defRun P f (k + 1) m ≤ k → defRun P f (k + 1) m = defRun P f k m := by
  intro k
  induction k with
  | zero =>
    intro m h
    simp [defRun] at *
    exact h
  | succ k ih =>
    intro m h
    rw [defRun] at h ⊢
    by_cases hd : isDfr (P.body f m) = true
    · simp only [hd, if_true] at h ⊢
      have := ih (m + 1) (by omega)
      rw [this]
      rw [defRun.eq_def P f (k + 1) m]
      simp [hd]
    · simp only [hd] at h ⊢
      rw [defRun.eq_def P f (k + 1) m]
      simp [hd]

def run (P : Prog) (D : Nat) (f n : Nat) : Nat := defRun P f (D + 1) n

theorem run_le {P : Prog} {D : Nat} (hD : DeferRunsLE P D) (f n : Nat) : run P D f n ≤ D := hD f n

theorem run_succ {P : Prog} {D : Nat} (hD : DeferRunsLE P D) (f n : Nat) (h : isDfr (P.body f n) = true) :
    run P D f n = run P D f (n + 1) + 1 := by
  unfold run
  rw [defRun.eq_def P f (D + 1) n]
  simp only [h, if_true]
  have h1 : defRun P f (D + 1) (n + 1) ≤ D := hD f (n + 1)
  rw [defRun_cap P f D (n + 1) h1]

/-! ### potential (statements that may still run before the signals are examined) and step measure -/

def tailSt (P : Prog) (D : Nat) (c : Cfg) (a : Act) : Nat :=
  if c.sync = .dfr then run P D a.fn a.n + 1 else 0

def phi (S : Sites) (P : Prog) (D : Nat) (c : Cfg) (a : Act) : Nat :=
  match a.pos with
  | .chain _ i => (loopOf S a).chain - i
  | .spin i => if a.spinning then tailSt P D c a else ((loopOf S a).spin - i) + D
  | .spinOut => tailSt P D c a
  | .sstep => run P D a.fn a.n + 1
  | _ => 0

def mu (S : Sites) (P : Prog) (D : Nat) (c : Cfg) (a : Act) : Nat :=
  match a.pos with
  | .entry => 1
  | .fin => 1
  | .chainOut _ => 2
  | .exiting => 2
  | .chain _ i => 3 + ((loopOf S a).chain - i)
  | .sstep => 2 * run P D a.fn a.n + 3
  | .spinOut => if c.sync = .dfr then 2 * run P D a.fn a.n + 4 else 2
  | .spin i => 2 * D + 6 + ((loopOf S a).spin - i)

/-- local sanity of the signal word w.r.t. the position of the running activation
    (an invariant of all reachable configurations, see `good_step`) -/
def Good (c : Cfg) (a : Act) : Prop :=
  match a.pos with
  | .sstep => c.sync = .none
  | .spin _ => a.spinning = false → c.sync ≠ .dfr
  | .chain _ _ => c.sync ≠ .dfr
  | _ => True

@[simp] theorem hookCall_async (c : Cfg) (h : c.async = true) : (hookCall c).async = true := by
  unfold hookCall Cfg.interrupt; simp only; split <;> simp [h]
@[simp] theorem hookCall_panic (c : Cfg) : (hookCall c).panic = c.panic := by
  unfold hookCall Cfg.interrupt; simp only; split <;> rfl
@[simp] theorem hookCall_raised (c : Cfg) : (hookCall c).raised = c.raised := by
  unfold hookCall Cfg.interrupt; simp only; split <;> rfl
@[simp] theorem hookCall_stmts (c : Cfg) : (hookCall c).stmts = c.stmts := by
  unfold hookCall Cfg.interrupt; simp only; split <;> rfl
@[simp] theorem hookCall_sync (c : Cfg) : (hookCall c).sync = c.sync := by
  unfold hookCall Cfg.interrupt; simp only; split <;> rfl
@[simp] theorem hookCall_stack (c : Cfg) : (hookCall c).stack = c.stack := by
  unfold hookCall Cfg.interrupt; simp only; split <;> rfl
@[simp] theorem hookCall_clock (c : Cfg) : (hookCall c).clock = c.clock := by
  unfold hookCall Cfg.interrupt; simp only; split <;> rfl

theorem loopOK_of {S : Sites} (hS : PollsOK S) (a : Act) : LoopOK (loopOf S a) := by
  unfold loopOf; split
  · exact hS.2.1
  · exact hS.1

theorem step_progress {S : Sites} {P : Prog} {D : Nat} (hS : PollsOK S) (hD : DeferRunsLE P D)
    (c : Cfg) (a : Act) (rest : List Act) (hst : c.stack = a :: rest) (hp : c.panic = false) (ha : c.async = true)
    (hg : Good c a) :
    ((step S P c).panic = true ∧ (step S P c).raised = c.raised + 1 ∧ (step S P c).stmts = c.stmts) ∨
    ((step S P c).panic = false ∧ (step S P c).async = true ∧ (step S P c).raised = c.raised ∧
      ∃ a' rest', (step S P c).stack = a' :: rest' ∧ Good (step S P c) a' ∧
        mu S P D (step S P c) a' < mu S P D c a ∧
        (step S P c).stmts + phi S P D (step S P c) a' ≤ c.stmts + phi S P D c a) := by
  have he : ∀ a', (loopOf S a').entryPoll = true := fun a' => (loopOK_of hS a').1
  have hcp : ∀ a', (loopOf S a').chainPoll = true := fun a' => (loopOK_of hS a').2.1
  have hsp : ∀ a', (loopOf S a').spinPoll = true := fun a' => (loopOK_of hS a').2.2.1
  have hx : ∀ a', (loopOf S a').exitPoll = true := fun a' => (loopOK_of hS a').2.2.2
  have hrp : S.restorePoll = true := hS.2.2.1
  have hssp : S.spinStmtPoll = true := hS.2.2.2
  obtain ⟨fn, flags, n, pos, spinning, defers, held, savedDefer, pd, birth⟩ := a
  cases pos with
  | entry =>
    left
    simp [step, hst, hp, ha, raise, he]
  | fin =>
    left
    simp [step, hst, hp, ha, raise, hx]
  | chainOut j =>
    right
    simp only [step, hst, hp]
    by_cases hcd : (loopOf S { fn := fn, flags := flags, n := n, pos := Pos.chainOut j, spinning := spinning, defers := defers, held := held, savedDefer := savedDefer, pd := pd, birth := birth }).chainDefer = true
    · by_cases hsd : c.sync = .dfr
      · cases hid : c.installDefer <;>
          simp [hcd, hsd, hid, installDeferred, Cfg.isEmpty, ha, hp, Good, mu, phi]
      · simp [hcd, hsd, Cfg.isEmpty, ha, hp, Good, mu, phi]
    · simp [hcd, ha, hp, Good, mu, phi]
  | exiting =>
    cases defers with
    | nil =>
      left
      cases pd <;> simp [step, hst, hp, ha, raise, hrp]
    | cons f ds =>
      right
      cases pd <;> simp [step, hst, hp, ha, Good, mu, phi]
  | chain j i =>
    right
    simp only [step, hst, hp]
    by_cases hi : i < (loopOf S { fn := fn, flags := flags, n := n, pos := Pos.chain j i, spinning := spinning, defers := defers, held := held, savedDefer := savedDefer, pd := pd, birth := birth }).chain
    · simp only [Good] at hg
      simp only [loopOf] at hi
      cases hs : P.body fn n with
      | simple => simp [hi, execStmt, hs, ha, hp, Good, mu, phi, loopOf, hg]; omega
      | hook b => cases b <;> (simp [hi, execStmt, hs, ha, hp, Good, mu, phi, loopOf, hg, hookdCall]; omega)
      | call f => simp [hi, execStmt, hs, ha, hp, Good, mu, phi, loopOf]; omega
      | ret => simp [hi, execStmt, hs, ha, hp, Good, mu, phi, loopOf]; omega
      | dfr f h => cases h <;> (simp [hi, execStmt, hs, ha, hp, Good, mu, phi, loopOf]; omega)
    · simp [hi, hcp, Cfg.isEmpty, ha, Good, mu, phi]; omega
  | spin i =>
    simp only [step, hst, hp]
    by_cases hi : i < (loopOf S { fn := fn, flags := flags, n := n, pos := Pos.spin i, spinning := spinning, defers := defers, held := held, savedDefer := savedDefer, pd := pd, birth := birth }).spin
    · cases spinning with
      | true =>
        left
        simp [hi, Cfg.isEmpty, ha, hssp, raise]
      | false =>
        right
        simp only [Good] at hg
        simp only [loopOf] at hi
        have h2 := run_le hD fn n
        cases hs : P.body fn n with
        | simple => simp [hi, execStmt, hs, ha, hp, Good, mu, phi, loopOf, hg]; omega
        | hook b => cases b <;> (simp [hi, execStmt, hs, ha, hp, Good, mu, phi, loopOf, hg, hookdCall]; omega)
        | call f => simp [hi, execStmt, hs, ha, hp, Good, mu, phi, loopOf]; omega
        | ret => simp [hi, execStmt, hs, ha, hp, Good, mu, phi, loopOf, tailSt]; omega
        | dfr f h =>
          have h1 := run_succ hD fn n (by simp [hs, isDfr])
          cases h <;> (simp [hi, execStmt, hs, ha, hp, Good, mu, phi, loopOf, tailSt]; omega)
    · right
      have h2 := run_le hD fn n
      simp only [Good] at hg
      cases spinning with
      | true => by_cases hsd : c.sync = .dfr <;> (simp [hi, ha, hp, Good, mu, phi, tailSt, hsd]; omega)
      | false =>
        have hsd : c.sync ≠ .dfr := hg rfl
        simp [hi, ha, hp, Good, mu, phi, tailSt, hsd]; omega
  | spinOut =>
    right
    simp only [step, hst, hp]
    by_cases hsd : c.sync = .dfr
    · by_cases hdl : (loopOf S { fn := fn, flags := flags, n := n, pos := Pos.spinOut, spinning := spinning, defers := defers, held := held, savedDefer := savedDefer, pd := pd, birth := birth }).spinDefer = true
      · cases hid : c.installDefer <;> simp [hsd, hdl, hid, installDeferred, ha, hp, Good, mu, phi, tailSt]
      · simp [hsd, hdl, hsp, Cfg.isEmpty, ha, hp, Good, mu, phi, tailSt]
    · simp [hsd, hsp, Cfg.isEmpty, ha, hp, Good, mu, phi, tailSt]
  | sstep =>
    right
    simp only [step, hst, hp]
    simp only [Good] at hg
    have h2 := run_le hD fn n
    cases hs : P.body fn n with
    | simple => simp [execStmt, hs, ha, hp, Good, mu, phi, hg, tailSt]
    | hook b => cases b <;> simp [execStmt, hs, ha, hp, Good, mu, phi, hg, hookdCall, tailSt]
    | call f => simp [execStmt, hs, ha, hp, Good, mu, phi]
    | ret => simp [execStmt, hs, ha, hp, Good, mu, phi, tailSt]
    | dfr f h =>
      have h1 := run_succ hD fn n (by simp [hs, isDfr])
      cases h <;> (simp [execStmt, hs, ha, hp, Good, mu, phi, tailSt]; omega)


/-- once `Async` is set while an activation runs, the interrupt is raised after finitely many steps,
    the statements executed meanwhile are bounded by the potential, and `Async` stays set until then -/
theorem bound_aux {S : Sites} {P : Prog} {D : Nat} (hS : PollsOK S) (hD : DeferRunsLE P D) :
    ∀ m (c : Cfg) (a : Act) (rest : List Act), c.stack = a :: rest → c.panic = false → c.async = true → Good c a →
      mu S P D c a ≤ m →
      ∃ t, (stepN S P t c).panic = true ∧ (stepN S P t c).raised = c.raised + 1 ∧
        (stepN S P t c).stmts ≤ c.stmts + phi S P D c a ∧
        ∀ u, u < t → (stepN S P u c).async = true ∧ (stepN S P u c).panic = false ∧ (stepN S P u c).raised = c.raised := by
  intro m
  induction m with
  | zero =>
    intro c a rest hst hp ha hg hm
    rcases step_progress hS hD c a rest hst hp ha hg with h | ⟨_, _, _, a', rest', _, _, hmu, _⟩
    · refine ⟨1, h.1, h.2.1, by simp [stepN, h.2.2], ?_⟩
      intro u hu
      have : u = 0 := by omega
      subst this
      simp [stepN, ha, hp]
    · omega
  | succ m ih =>
    intro c a rest hst hp ha hg hm
    rcases step_progress hS hD c a rest hst hp ha hg with h | ⟨hp', ha', hr', a', rest', hst', hg', hmu, hphi⟩
    · refine ⟨1, h.1, h.2.1, by simp [stepN, h.2.2], ?_⟩
      intro u hu
      have : u = 0 := by omega
      subst this
      simp [stepN, ha, hp]
    · obtain ⟨t, h1, h2, h3, h4⟩ := ih (step S P c) a' rest' hst' hp' ha' hg' (by omega)
      refine ⟨t + 1, h1, by simp only [stepN]; omega, by simp only [stepN]; omega, ?_⟩
      intro u hu
      cases u with
      | zero => simp [stepN, ha, hp]
      | succ u =>
        have := h4 u (by omega)
        simp only [stepN]
        exact ⟨this.1, this.2.1, by omega⟩

theorem phi_le {S : Sites} {P : Prog} {D : Nat} (hD : DeferRunsLE P D) (hM : 1 ≤ maxUnroll S) (c : Cfg) (a : Act) :
    phi S P D c a ≤ maxUnroll S + D := by
  have h2 := run_le hD a.fn a.n
  have hf1 : S.fast.chain ≤ maxUnroll S := by unfold maxUnroll; omega
  have hf2 : S.fast.spin ≤ maxUnroll S := by unfold maxUnroll; omega
  have hf3 : S.flags.chain ≤ maxUnroll S := by unfold maxUnroll; omega
  have hf4 : S.flags.spin ≤ maxUnroll S := by unfold maxUnroll; omega
  unfold phi tailSt loopOf
  cases a.pos <;> simp only <;> (repeat' split) <;> omega


@[simp] theorem hookCall_async' (c : Cfg) : (hookCall c).async = true ↔ (c.async = true ∨ c.hooks + 1 = c.intrAt) := by
  unfold hookCall Cfg.interrupt; simp only; split <;> simp_all

theorem execStmt_async (P : Prog) (c : Cfg) (a : Act) (rest : List Act) (nxt out : Pos) (sp : Bool) (ha : c.async = true) :
    (execStmt P c a rest nxt out sp).async = true ∧ (execStmt P c a rest nxt out sp).raised = c.raised := by
  unfold execStmt
  cases P.body a.fn a.n with
  | simple => simp [ha]
  | hook b => cases b <;> simp [ha, hookdCall]
  | call f => simp [ha]
  | ret => simp [ha]
  | dfr f h => cases h <;> simp [ha]

theorem async_kept (S : Sites) (P : Prog) (c : Cfg) (ha : c.async = true) :
    (step S P c).async = true ∨ ((step S P c).raised = c.raised + 1 ∧ (step S P c).panic = true) := by
  cases hst : c.stack with
  | nil => simp [step, hst, ha]
  | cons a rest =>
    obtain ⟨fn, flags, n, pos, spinning, defers, held, savedDefer, pd, birth⟩ := a
    by_cases hp : c.panic = true
    · cases pos <;> simp only [step, hst, hp, if_true] <;> (try split) <;> (try split) <;> simp [ha]
    · have hp' : c.panic = false := by simpa using hp
      cases pos with
      | entry => simp only [step, hst, hp']; simp only [raise]; (repeat' split) <;> simp [ha]
      | chain j i => 
        simp only [step, hst, hp']; (repeat' split) <;> simp [ha, execStmt_async]
      | chainOut j => 
        simp only [step, hst, hp', installDeferred]; (repeat' split) <;> simp_all
      | spin i => simp only [step, hst, hp', raise]; (repeat' split) <;> simp [ha, execStmt_async]
      | spinOut => simp only [step, hst, hp', installDeferred]; (repeat' split) <;> simp_all
      | sstep => simp only [step, hst, hp']; simp [ha, execStmt_async]
      | fin => simp only [step, hst, hp', raise]; (repeat' split) <;> simp [ha]
      | exiting => simp only [step, hst, hp', raise]; (repeat' split) <;> simp_all


/-- `Good` for the running activation whenever no panic is propagating -/
def GoodInv (c : Cfg) : Prop :=
  c.panic = false → match c.stack with
    | [] => True
    | a :: _ => Good c a

theorem good_step {S : Sites} (hS : PollsOK S) (P : Prog) (c : Cfg) (h : GoodInv c) : GoodInv (step S P c) := by
  have hcp : ∀ a', (loopOf S a').chainPoll = true := fun a' => (loopOK_of hS a').2.1
  have hsp : ∀ a', (loopOf S a').spinPoll = true := fun a' => (loopOK_of hS a').2.2.1
  cases hst : c.stack with
  | nil => simpa [step, hst] using h
  | cons a rest =>
    obtain ⟨fn, flags, n, pos, spinning, defers, held, savedDefer, pd, birth⟩ := a
    by_cases hp : c.panic = true
    · cases pos <;> cases flags <;> cases pd <;> simp [step, hst, hp, Good, GoodInv]
    · have hp' : c.panic = false := by simpa using hp
      have hg := h hp'
      simp only [hst] at hg
      clear h
      cases pos with
      | entry =>
        simp only [step, hst, hp', raise, firstPos]; (repeat' split) <;> simp_all [Good, GoodInv]
      | chain j i =>
        simp only [step, hst, hp']
        by_cases hi : i < (loopOf S { fn := fn, flags := flags, n := n, pos := Pos.chain j i, spinning := spinning, defers := defers, held := held, savedDefer := savedDefer, pd := pd, birth := birth }).chain
        · simp only [Good] at hg
          cases hs : P.body fn n with
          | simple => simp [hi, execStmt, hs, hp', Good, GoodInv, hg]
          | hook b => cases b <;> simp [hi, execStmt, hs, hp', Good, GoodInv, hg, hookdCall]
          | call f => simp [hi, execStmt, hs, hp', Good, GoodInv]
          | ret => simp [hi, execStmt, hs, hp', Good, GoodInv]
          | dfr f h => cases h <;> simp [hi, execStmt, hs, hp', Good, GoodInv]
        · simp only [hi, hcp, nextRound, Cfg.isEmpty]; (repeat' split) <;> simp_all [Good, GoodInv]
      | chainOut j =>
        simp only [step, hst, hp']
        by_cases hcd : (loopOf S { fn := fn, flags := flags, n := n, pos := Pos.chainOut j, spinning := spinning, defers := defers, held := held, savedDefer := savedDefer, pd := pd, birth := birth }).chainDefer = true
        · by_cases hsd : c.sync = .dfr
          · cases hid : c.installDefer <;> cases hasy : c.async <;>
              simp [hcd, hsd, hid, hasy, installDeferred, Cfg.isEmpty, hp', Good, GoodInv, nextRound] <;> split <;> simp
          · cases hasy : c.async <;> by_cases hsn : c.sync = .none <;>
              simp [hcd, hsd, hsn, hasy, Cfg.isEmpty, hp', Good, GoodInv, nextRound] <;> split <;> simp [hsn]
        · simp [hcd, hp', Good, GoodInv]
      | spin i =>
        simp only [step, hst, hp']
        by_cases hi : i < (loopOf S { fn := fn, flags := flags, n := n, pos := Pos.spin i, spinning := spinning, defers := defers, held := held, savedDefer := savedDefer, pd := pd, birth := birth }).spin
        · cases spinning with
          | true =>
            cases hasy : c.async <;> by_cases hsn : c.sync = .none <;> cases hq : S.spinStmtPoll <;>
              simp [hi, raise, Cfg.isEmpty, hasy, hsn, hq, hp', Good, GoodInv]
          | false =>
            simp only [Good] at hg
            cases hs : P.body fn n with
            | simple => simp [hi, execStmt, hs, hp', Good, GoodInv, hg]
            | hook b => cases b <;> simp [hi, execStmt, hs, hp', Good, GoodInv, hg, hookdCall]
            | call f => simp [hi, execStmt, hs, hp', Good, GoodInv]
            | ret => simp [hi, execStmt, hs, hp', Good, GoodInv]
            | dfr f h => cases h <;> simp [hi, execStmt, hs, hp', Good, GoodInv]
        · simp [hi, hp', Good, GoodInv]
      | spinOut =>
        simp only [step, hst, hp']
        by_cases hsd : c.sync = .dfr
        · by_cases hdl : (loopOf S { fn := fn, flags := flags, n := n, pos := Pos.spinOut, spinning := spinning, defers := defers, held := held, savedDefer := savedDefer, pd := pd, birth := birth }).spinDefer = true
          · cases hid : c.installDefer <;> simp [hsd, hdl, hid, installDeferred, hp', Good, GoodInv]
          · simp [hsd, hdl, hsp, Cfg.isEmpty, hp', Good, GoodInv]
        · cases hasy : c.async <;> by_cases hsn : c.sync = .none <;>
            simp [hsd, hsn, hasy, hsp, Cfg.isEmpty, hp', Good, GoodInv]
      | sstep =>
        simp only [step, hst, hp']
        cases hs : P.body fn n with
        | simple => simp [execStmt, hs, hp', Good, GoodInv]
        | hook b => cases b <;> simp [execStmt, hs, hp', Good, GoodInv, hookdCall]
        | call f => simp [execStmt, hs, hp', Good, GoodInv]
        | ret => simp [execStmt, hs, hp', Good, GoodInv]
        | dfr f h => cases h <;> simp [execStmt, hs, hp', Good, GoodInv]
      | fin =>
        simp only [step, hst, hp', raise]
        cases rest with
        | nil => (repeat' split) <;> simp_all [Good, GoodInv]
        | cons b rest' =>
          obtain ⟨fn2, flags2, n2, pos2, spinning2, defers2, held2, savedDefer2, pd2, birth2⟩ := b
          cases pos2 <;> (repeat' split) <;> simp_all [Good, GoodInv]
      | exiting =>
        simp only [step, hst, hp', raise]
        cases rest with
        | nil => (repeat' split) <;> simp_all [Good, GoodInv]
        | cons b rest' =>
          obtain ⟨fn2, flags2, n2, pos2, spinning2, defers2, held2, savedDefer2, pd2, birth2⟩ := b
          cases pos2 <;> (repeat' split) <;> simp_all [Good, GoodInv]


theorem step_shape (S : Sites) (P : Prog) (c : Cfg) (a : Act) (rest : List Act) (hst : c.stack = a :: rest) :
    c.clock ≤ (step S P c).clock ∧
    ((step S P c).stack = rest ∨ (∃ a', (step S P c).stack = a' :: rest ∧ a'.birth = a.birth) ∨
      (∃ nw a', (step S P c).stack = nw :: a' :: rest ∧ a'.birth = a.birth ∧ nw.birth = c.clock ∧
        (step S P c).clock = c.clock + 1)) := by
  obtain ⟨fn, flags, n, pos, spinning, defers, held, savedDefer, pd, birth⟩ := a
  by_cases hp : c.panic = true
  · cases pos <;> cases flags <;> cases pd <;> simp [step, hst, hp]
  · have hp' : c.panic = false := by simpa using hp
    cases pos with
    | entry => simp only [step, hst, hp', raise, Bool.false_eq_true, ↓reduceIte]; (repeat' split) <;> simp
    | chain j i =>
      simp only [step, hst, hp', Bool.false_eq_true, ↓reduceIte]
      by_cases hi : i < (loopOf S { fn := fn, flags := flags, n := n, pos := Pos.chain j i, spinning := spinning, defers := defers, held := held, savedDefer := savedDefer, pd := pd, birth := birth }).chain
      · cases hs : P.body fn n with
        | simple => simp [hi, execStmt, hs]
        | hook b => cases b <;> simp [hi, execStmt, hs, hookdCall]
        | call f => simp [hi, execStmt, hs]; right; exact ⟨_, _, ⟨rfl, rfl⟩, rfl, rfl⟩
        | ret => simp [hi, execStmt, hs]
        | dfr f h => cases h <;> simp [hi, execStmt, hs]
      · simp only [hi, if_false]; split <;> simp
    | chainOut j =>
      simp only [step, hst, hp', installDeferred, Bool.false_eq_true, ↓reduceIte]; (repeat' split) <;> simp_all
    | spin i =>
      simp only [step, hst, hp', raise, Bool.false_eq_true, ↓reduceIte]
      by_cases hi : i < (loopOf S { fn := fn, flags := flags, n := n, pos := Pos.spin i, spinning := spinning, defers := defers, held := held, savedDefer := savedDefer, pd := pd, birth := birth }).spin
      · cases spinning with
        | true => simp only [hi, if_true]; (repeat' split) <;> simp
        | false =>
          cases hs : P.body fn n with
          | simple => simp [hi, execStmt, hs]
          | hook b => cases b <;> simp [hi, execStmt, hs, hookdCall]
          | call f => simp [hi, execStmt, hs]; right; exact ⟨_, _, ⟨rfl, rfl⟩, rfl, rfl⟩
          | ret => simp [hi, execStmt, hs]
          | dfr f h => cases h <;> simp [hi, execStmt, hs]
      · simp [hi]
    | spinOut => simp only [step, hst, hp', installDeferred, Bool.false_eq_true, ↓reduceIte]; (repeat' split) <;> simp_all
    | sstep =>
      simp only [step, hst, hp', Bool.false_eq_true, ↓reduceIte]
      cases hs : P.body fn n with
      | simple => simp [execStmt, hs]
      | hook b => cases b <;> simp [execStmt, hs, hookdCall]
      | call f => simp [execStmt, hs]; right; exact ⟨_, _, ⟨rfl, rfl⟩, rfl, rfl⟩
      | ret => simp [execStmt, hs]
      | dfr f h => cases h <;> simp [execStmt, hs]
    | fin => simp only [step, hst, hp', raise, Bool.false_eq_true, ↓reduceIte]; (repeat' split) <;> simp
    | exiting =>
      cases pd <;> cases defers <;> simp only [step, hst, hp', raise, Bool.false_eq_true, ↓reduceIte] <;> (repeat' split) <;> simp <;>
        (right; exact ⟨_, _, ⟨rfl, rfl⟩, rfl, rfl⟩)

/-- the running activation is being unwound: no statement is executed -/
theorem step_old (S : Sites) (P : Prog) (c : Cfg) (o : Act) (os : List Act) (hst : c.stack = o :: os)
    (h : c.panic = true ∨ (o.pos = .exiting ∧ o.held = true)) :
    (step S P c).stmts = c.stmts ∧ c.clock ≤ (step S P c).clock ∧
    (((step S P c).stack = os ∧ (step S P c).panic = true) ∨
     (∃ o', (step S P c).stack = o' :: os ∧ o'.pos = .exiting ∧ o'.held = true) ∨
     (∃ nw o', (step S P c).stack = nw :: o' :: os ∧ o'.pos = .exiting ∧ o'.held = true ∧ nw.birth = c.clock)) := by
  obtain ⟨fn, flags, n, pos, spinning, defers, held, savedDefer, pd, birth⟩ := o
  by_cases hp : c.panic = true
  · cases pos <;> cases flags <;> cases pd <;> simp [step, hst, hp]
  · have hp' : c.panic = false := by simpa using hp
    rcases h with h | ⟨h1, h2⟩
    · exact absurd h hp
    · simp only at h1 h2
      subst h1 h2
      cases pd <;> cases defers <;> simp only [step, hst, hp', raise, Bool.false_eq_true, ↓reduceIte] <;> (repeat' split) <;> simp <;>
        exact ⟨_, _, ⟨rfl, rfl⟩, rfl, rfl, rfl⟩

/-- After an interrupt was raised at clock value `b`: the stack consists of activations opened later
    (`young`, all with `birth ≥ b`) on top of activations that existed before (`old`), and the topmost
    old activation is being unwound (the panic is arriving, or it is running its deferred calls with the
    panic held). -/
def Unwinding (b : Nat) (c : Cfg) : Prop :=
  ∃ young old, c.stack = young ++ old ∧ (∀ a ∈ young, b ≤ a.birth) ∧ b ≤ c.clock ∧
    match old with
    | [] => True
    | o :: _ => (young = [] ∧ c.panic = true) ∨ (o.pos = .exiting ∧ o.held = true)

theorem unwinding_step (S : Sites) (P : Prog) (b : Nat) (c : Cfg) (h : Unwinding b c) :
    Unwinding b (step S P c) ∧
    ((step S P c).stmts ≠ c.stmts → ∃ a rest, c.stack = a :: rest ∧ b ≤ a.birth) := by
  obtain ⟨young, old, hst, hy, hb, ho⟩ := h
  cases young with
  | nil =>
    cases old with
    | nil =>
      have hs : c.stack = [] := by simpa using hst
      have : step S P c = c := by simp [step, hs]
      rw [this]
      exact ⟨⟨[], [], by simp [hs], by simp, hb, trivial⟩, fun h => absurd rfl h⟩
    | cons o os =>
      have hs : c.stack = o :: os := by simpa using hst
      have hcond : c.panic = true ∨ (o.pos = .exiting ∧ o.held = true) := by
        rcases ho with h | h
        · exact Or.inl h.2
        · exact Or.inr h
      obtain ⟨hsm, hc, h1 | ⟨o', h2, h3, h4⟩ | ⟨nw, o', h2, h3, h4, h5⟩⟩ := step_old S P c o os hs hcond
      · refine ⟨⟨[], os, by simp [h1.1], by simp, by omega, ?_⟩, fun h => absurd hsm h⟩
        cases os with
        | nil => trivial
        | cons o2 os2 => exact Or.inl ⟨rfl, h1.2⟩
      · exact ⟨⟨[], o' :: os, by simp [h2], by simp, by omega, Or.inr ⟨h3, h4⟩⟩, fun h => absurd hsm h⟩
      · refine ⟨⟨[nw], o' :: os, by simp [h2], ?_, by omega, Or.inr ⟨h3, h4⟩⟩, fun h => absurd hsm h⟩
        intro a ha
        simp at ha
        subst ha
        omega
  | cons y ys =>
    have hs : c.stack = y :: (ys ++ old) := by simpa using hst
    have hyb : b ≤ y.birth := hy y (by simp)
    have hys : ∀ a ∈ ys, b ≤ a.birth := fun a ha => hy a (by simp [ha])
    have ho' : match old with
        | [] => True
        | o :: _ => (o.pos = .exiting ∧ o.held = true) := by
      cases old with
      | nil => trivial
      | cons o os =>
        rcases ho with h | h
        · simp at h
        · exact h
    refine ⟨?_, fun _ => ⟨y, ys ++ old, hs, hyb⟩⟩
    obtain ⟨hc, h1 | ⟨a', h2, h3⟩ | ⟨nw, a', h2, h3, h4, _⟩⟩ := step_shape S P c y (ys ++ old) hs
    · refine ⟨ys, old, h1, hys, by omega, ?_⟩
      cases old with
      | nil => trivial
      | cons o os => exact Or.inr ho'
    · refine ⟨a' :: ys, old, by simp [h2], ?_, by omega, ?_⟩
      · intro a ha
        simp at ha
        rcases ha with ha | ha
        · subst ha; omega
        · exact hys a ha
      · cases old with
        | nil => trivial
        | cons o os => exact Or.inr ho'
    · refine ⟨nw :: a' :: ys, old, by simp [h2], ?_, by omega, ?_⟩
      · intro a ha
        simp at ha
        rcases ha with ha | ha | ha
        · subst ha; omega
        · subst ha; omega
        · exact hys a ha
      · cases old with
        | nil => trivial
        | cons o os => exact Or.inr ho'

theorem unwinding_stepN (S : Sites) (P : Prog) (b : Nat) : ∀ t (c : Cfg), Unwinding b c → Unwinding b (stepN S P t c) := by
  intro t
  induction t with
  | zero => intro c h; exact h
  | succ t ih => intro c h; exact ih _ (unwinding_step S P b c h).1



theorem execStmt_raised (P : Prog) (c : Cfg) (a : Act) (rest : List Act) (nxt out : Pos) (sp : Bool) :
    (execStmt P c a rest nxt out sp).raised = c.raised := by
  unfold execStmt
  cases P.body a.fn a.n with
  | simple => simp
  | hook b => cases b <;> simp [hookdCall]
  | call f => simp
  | ret => simp
  | dfr f h => cases h <;> simp

/-- `raised` changes only by `raise`, which needs a pending `Async` and starts the panic -/
theorem raised_cases (S : Sites) (P : Prog) (c : Cfg) :
    (step S P c).raised = c.raised ∨
    ((step S P c).raised = c.raised + 1 ∧ c.async = true ∧ (step S P c).panic = true) := by
  cases hst : c.stack with
  | nil => simp [step, hst]
  | cons a rest =>
    obtain ⟨fn, flags, n, pos, spinning, defers, held, savedDefer, pd, birth⟩ := a
    by_cases hp : c.panic = true
    · cases pos <;> cases flags <;> cases pd <;> simp [step, hst, hp]
    · have hp' : c.panic = false := by simpa using hp
      cases pos with
      | entry => simp only [step, hst, hp', raise, Bool.false_eq_true, ↓reduceIte]; (repeat' split) <;> simp_all
      | chain j i =>
        simp only [step, hst, hp', Bool.false_eq_true, ↓reduceIte]; (repeat' split) <;> simp [execStmt_raised]
      | chainOut j =>
        simp only [step, hst, hp', installDeferred, Bool.false_eq_true, ↓reduceIte]; (repeat' split) <;> simp_all
      | spin i =>
        simp only [step, hst, hp', raise, Bool.false_eq_true, ↓reduceIte]; (repeat' split) <;> simp_all [execStmt_raised]
      | spinOut =>
        simp only [step, hst, hp', installDeferred, Bool.false_eq_true, ↓reduceIte]; (repeat' split) <;> simp_all
      | sstep => simp only [step, hst, hp', Bool.false_eq_true, ↓reduceIte]; simp [execStmt_raised]
      | fin => simp only [step, hst, hp', raise, Bool.false_eq_true, ↓reduceIte]; (repeat' split) <;> simp_all
      | exiting =>
        cases pd <;> cases defers <;> simp only [step, hst, hp', raise, Bool.false_eq_true, ↓reduceIte] <;>
          (repeat' split) <;> simp_all

end Interrupt
