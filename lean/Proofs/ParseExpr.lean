import Model.ParseExpr
/-! Lemmas about the expression parser model (C24 `parse_binary_prec`, reused by C25). -/
namespace ParseExpr

variable (T : Tables)

/-! one-step unfolding equations (fuel `f+1`, inner calls at `f`) -/
theorem parseBinary_succ (f p1 : Nat) (ts : List Tok) :
    parseBinary T (f+1) p1 ts =
      match parseUnary T f ts with
      | none => none
      | some (x, ts') => binLoop T f p1 x ts' := by
  rw [parseBinary]; rfl

theorem binLoop_op (f p1 : Nat) (x : Expr) (o : Nat) (rest : List Tok) :
    binLoop T (f+1) p1 x (Tok.op o :: rest) =
      if T.binPrec o < p1 then some (x, Tok.op o :: rest)
      else match parseBinary T f (T.binPrec o + 1) rest with
        | none => none
        | some (y, ts') => binLoop T f p1 (Expr.bin x o y) ts' := by
  rw [binLoop]; rfl

theorem binLoop_stop (f p1 : Nat) (x : Expr) (ts : List Tok) (h : ∀ o rest, ts ≠ Tok.op o :: rest) :
    binLoop T (f+1) p1 x ts = some (x, ts) := by
  rw [binLoop]
  intro o rest he; exact h o rest he

theorem parseUnary_op (f : Nat) (o : Nat) (rest : List Tok) :
    parseUnary T (f+1) (Tok.op o :: rest) =
      if T.isUnary o then
        match parseUnary T f rest with
        | none => none
        | some (x, ts') => some (Expr.un o x, ts')
      else none := by
  rw [parseUnary]; rfl

theorem parseUnary_other (f : Nat) (ts : List Tok) (h : ∀ o rest, ts ≠ Tok.op o :: rest) :
    parseUnary T (f+1) ts = parsePrimary T f ts := by
  rw [parseUnary]
  intro o rest he; exact h o rest he

theorem parsePrimary_atom (f n : Nat) (rest : List Tok) :
    parsePrimary T (f+1) (Tok.atom n :: rest) = postLoop T f (Expr.atom n) rest := by
  rw [parsePrimary]

theorem parsePrimary_lparen (f : Nat) (rest : List Tok) :
    parsePrimary T (f+1) (Tok.lparen :: rest) =
      match parseBinary T f 1 rest with
      | some (x, Tok.rparen :: ts') => postLoop T f (Expr.paren x) ts'
      | _ => none := by
  rw [parsePrimary]; rfl

theorem postLoop_sel (f : Nat) (x : Expr) (n : Nat) (rest : List Tok) :
    postLoop T (f+1) x (Tok.period :: Tok.atom n :: rest) = postLoop T f (Expr.sel x n) rest := by
  rw [postLoop]

theorem postLoop_lbrack (f : Nat) (x : Expr) (rest : List Tok) :
    postLoop T (f+1) x (Tok.lbrack :: rest) =
      match parseBinary T f 1 rest with
      | some (i, Tok.rbrack :: ts') => postLoop T f (Expr.index x i) ts'
      | _ => none := by
  rw [postLoop]; rfl

theorem postLoop_lparen (f : Nat) (x : Expr) (rest : List Tok) :
    postLoop T (f+1) x (Tok.lparen :: rest) =
      match parseBinary T f 1 rest with
      | some (a, Tok.rparen :: ts') => postLoop T f (Expr.call x a) ts'
      | _ => none := by
  rw [postLoop]; rfl

theorem postLoop_stop (f : Nat) (x : Expr) (ts : List Tok) (h : stopPost ts = true) :
    postLoop T (f+1) x ts = some (x, ts) := by
  cases ts with
  | nil => rw [postLoop] <;> simp
  | cons t rest =>
    cases t <;> first | (simp [stopPost] at h; done) | (rw [postLoop] <;> simp)

/-- more fuel never changes a successful result (all five functions at once) -/
theorem mono_step (f : Nat) :
    (∀ p1 ts r, parseBinary T f p1 ts = some r → parseBinary T (f+1) p1 ts = some r) ∧
    (∀ p1 x ts r, binLoop T f p1 x ts = some r → binLoop T (f+1) p1 x ts = some r) ∧
    (∀ ts r, parseUnary T f ts = some r → parseUnary T (f+1) ts = some r) ∧
    (∀ ts r, parsePrimary T f ts = some r → parsePrimary T (f+1) ts = some r) ∧
    (∀ x ts r, postLoop T f x ts = some r → postLoop T (f+1) x ts = some r) := by
  induction f with
  | zero =>
    refine ⟨?_, ?_, ?_, ?_, ?_⟩ <;> intros <;> simp_all [parseBinary, binLoop, parseUnary, parsePrimary, postLoop]
  | succ f ih =>
    obtain ⟨ihB, ihL, ihU, ihP, ihS⟩ := ih
    refine ⟨?_, ?_, ?_, ?_, ?_⟩
    · intro p1 ts r h
      rw [parseBinary_succ] at h ⊢
      cases hu : parseUnary T f ts with
      | none => simp [hu] at h
      | some xr =>
        obtain ⟨x, ts'⟩ := xr
        rw [hu] at h; simp only at h
        rw [ihU _ _ hu]; simp only
        exact ihL _ _ _ _ h
    · intro p1 x ts r h
      by_cases hop : ∃ o rest, ts = Tok.op o :: rest
      · obtain ⟨o, rest, rfl⟩ := hop
        rw [binLoop_op] at h ⊢
        split at h
        · rename_i hlt; simp only [hlt, if_true]; exact h
        · rename_i hge
          simp only [hge, if_false]
          cases hb : parseBinary T f (T.binPrec o + 1) rest with
          | none => simp [hb] at h
          | some yr =>
            obtain ⟨y, ts'⟩ := yr
            rw [hb] at h; simp only at h
            rw [ihB _ _ _ hb]; simp only
            exact ihL _ _ _ _ h
      · have hne : ∀ o rest, ts ≠ Tok.op o :: rest := fun o rest he => hop ⟨o, rest, he⟩
        rw [binLoop_stop T _ _ _ _ hne] at h ⊢; exact h
    · intro ts r h
      by_cases hop : ∃ o rest, ts = Tok.op o :: rest
      · obtain ⟨o, rest, rfl⟩ := hop
        rw [parseUnary_op] at h ⊢
        split at h
        · rename_i hu; simp only [hu, if_true]
          cases hb : parseUnary T f rest with
          | none => simp [hb] at h
          | some yr =>
            obtain ⟨y, ts'⟩ := yr
            rw [hb] at h; simp only at h
            rw [ihU _ _ hb]; simpa using h
        · simp at h
      · have hne : ∀ o rest, ts ≠ Tok.op o :: rest := fun o rest he => hop ⟨o, rest, he⟩
        rw [parseUnary_other T _ _ hne] at h ⊢; exact ihP _ _ h
    · intro ts r h
      cases ts with
      | nil => simp [parsePrimary] at h
      | cons t rest =>
        cases t <;> try (simp [parsePrimary] at h; done)
        · rw [parsePrimary_atom] at h ⊢; exact ihS _ _ _ h
        · rw [parsePrimary_lparen] at h ⊢
          cases hb : parseBinary T f 1 rest with
          | none => simp [hb] at h
          | some yr =>
            obtain ⟨y, ts'⟩ := yr
            rw [hb] at h
            rw [ihB _ _ _ hb]
            cases ts' with
            | nil => simp at h
            | cons t ts'' =>
              cases t <;> simp at h ⊢
              exact ihS _ _ _ h
    · intro x ts r h
      cases ts with
      | nil => rw [postLoop_stop T _ _ _ rfl] at h ⊢; exact h
      | cons t rest =>
        cases t
        case atom n => rw [postLoop_stop T _ _ _ rfl] at h ⊢; exact h
        case op o => rw [postLoop_stop T _ _ _ rfl] at h ⊢; exact h
        case rparen => rw [postLoop_stop T _ _ _ rfl] at h ⊢; exact h
        case rbrack => rw [postLoop_stop T _ _ _ rfl] at h ⊢; exact h
        case lparen =>
          rw [postLoop_lparen] at h ⊢
          cases hb : parseBinary T f 1 rest with
          | none => simp [hb] at h
          | some yr =>
            obtain ⟨y, ts'⟩ := yr
            rw [hb] at h
            rw [ihB _ _ _ hb]
            cases ts' with
            | nil => simp at h
            | cons t ts'' =>
              cases t <;> simp at h ⊢
              exact ihS _ _ _ h
        case lbrack =>
          rw [postLoop_lbrack] at h ⊢
          cases hb : parseBinary T f 1 rest with
          | none => simp [hb] at h
          | some yr =>
            obtain ⟨y, ts'⟩ := yr
            rw [hb] at h
            rw [ihB _ _ _ hb]
            cases ts' with
            | nil => simp at h
            | cons t ts'' =>
              cases t <;> simp at h ⊢
              exact ihS _ _ _ h
        case period =>
          cases rest with
          | nil => simp [postLoop] at h
          | cons t2 rest2 =>
            cases t2 <;> try (simp [postLoop] at h; done)
            rw [postLoop_sel] at h ⊢
            exact ihS _ _ _ h

theorem parseBinary_mono {f g : Nat} (h : f ≤ g) {p1 ts r} :
    parseBinary T f p1 ts = some r → parseBinary T g p1 ts = some r := by
  induction h with
  | refl => exact id
  | step _ ih => exact fun hh => (mono_step T _).1 _ _ _ (ih hh)

theorem binLoop_mono {f g : Nat} (h : f ≤ g) {p1 x ts r} :
    binLoop T f p1 x ts = some r → binLoop T g p1 x ts = some r := by
  induction h with
  | refl => exact id
  | step _ ih => exact fun hh => (mono_step T _).2.1 _ _ _ _ (ih hh)

theorem parseUnary_mono {f g : Nat} (h : f ≤ g) {ts r} :
    parseUnary T f ts = some r → parseUnary T g ts = some r := by
  induction h with
  | refl => exact id
  | step _ ih => exact fun hh => (mono_step T _).2.2.1 _ _ (ih hh)

theorem parsePrimary_mono {f g : Nat} (h : f ≤ g) {ts r} :
    parsePrimary T f ts = some r → parsePrimary T g ts = some r := by
  induction h with
  | refl => exact id
  | step _ ih => exact fun hh => (mono_step T _).2.2.2.1 _ _ (ih hh)

theorem postLoop_mono {f g : Nat} (h : f ≤ g) {x ts r} :
    postLoop T f x ts = some r → postLoop T g x ts = some r := by
  induction h with
  | refl => exact id
  | step _ ih => exact fun hh => (mono_step T _).2.2.2.2 _ _ _ (ih hh)

/-- the loop of parseBinaryExpr returns when the next token binds less tightly than `p1` -/
theorem binLoop_ret (f p1 : Nat) (x : Expr) (rest : List Tok) (h : headPrec T rest < p1) :
    binLoop T (f+1) p1 x rest = some (x, rest) := by
  by_cases hop : ∃ o tl, rest = Tok.op o :: tl
  · obtain ⟨o, tl, rfl⟩ := hop
    rw [binLoop_op]
    simp only [headPrec] at h
    simp [h]
  · exact binLoop_stop T _ _ _ _ (fun o tl he => hop ⟨o, tl, he⟩)

theorem level_pos (t : Expr) (h : WF T t) : 1 ≤ level T t := by
  cases t <;> simp [level, WF] at h ⊢
  exact h.1

/-- a primary expression starts with an operand token -/
theorem flatten_head_prim (t : Expr) (hl : level T t = 7) (hp : ∀ o, T.binPrec o ≤ 5) (hwf : WF T t) :
    ∀ rest o tl, flatten t ++ rest ≠ Tok.op o :: tl := by
  induction t with
  | atom n => intro rest o tl; simp [flatten]
  | bin l o r _ _ => have := hp o; simp [level] at hl; omega
  | un o x _ => simp [level] at hl
  | paren x _ => intro rest o tl; simp [flatten]
  | sel x n ih =>
    intro rest o tl
    have := ih hwf.1 hwf.2 ([Tok.period, Tok.atom n] ++ rest) o tl
    simpa [flatten, List.append_assoc] using this
  | index x i ih _ =>
    intro rest o tl
    have := ih hwf.1 hwf.2.1 (Tok.lbrack :: flatten i ++ [Tok.rbrack] ++ rest) o tl
    simpa [flatten, List.append_assoc] using this
  | call x a ih _ =>
    intro rest o tl
    have := ih hwf.1 hwf.2.1 (Tok.lparen :: flatten a ++ [Tok.rparen] ++ rest) o tl
    simpa [flatten, List.append_assoc] using this

/-- number of nodes -/
def size : Expr → Nat
  | .atom _ => 1
  | .bin l _ r => size l + size r + 1
  | .un _ x => size x + 1
  | .paren x => size x + 1
  | .sel x _ => size x + 1
  | .index x i => size x + size i + 1
  | .call f a => size f + size a + 1

theorem size_le_flatten (t : Expr) : size t ≤ (flatten t).length := by
  induction t <;> simp [size, flatten] <;> omega

/-- The three round-trip statements, proved together by induction on the tree (fuel bound `6 * size t`):
    (primary)  parsing `flatten t ++ rest` as a primary expression continues like the postfix loop entered with `t`;
    (unary)    a unary-level tree is returned as is when no postfix token follows;
    (binary)   parsing at level `p1 ≤ level t` continues like the binary loop entered with `t`. -/
theorem roundtrip_aux (hp : ∀ o, T.binPrec o ≤ 5) (t : Expr) (hwf : WF T t) :
    (level T t = 7 → ∃ k, k + 3 ≤ 6 * size t ∧ ∀ f rest r, postLoop T f t rest = some r →
        parsePrimary T (f + k) (flatten t ++ rest) = some r) ∧
    (6 ≤ level T t → ∃ k, k + 1 ≤ 6 * size t ∧ ∀ f rest, stopPost rest = true →
        parseUnary T (f + k) (flatten t ++ rest) = some (t, rest)) ∧
    (∃ k, k ≤ 6 * size t ∧ ∀ p1 f rest r, 1 ≤ p1 → p1 ≤ level T t → stopPost rest = true → headPrec T rest ≤ level T t →
        binLoop T f p1 t rest = some r → parseBinary T (f + k) p1 (flatten t ++ rest) = some r) := by
  -- the binary statement for a tree of level ≥ 6 follows from the unary one
  have bin_of_un : ∀ (t : Expr) (k : Nat),
      (∀ f rest, stopPost rest = true → parseUnary T (f + k) (flatten t ++ rest) = some (t, rest)) →
      (∀ p1 f rest r, 1 ≤ p1 → p1 ≤ level T t → stopPost rest = true → headPrec T rest ≤ level T t →
        binLoop T f p1 t rest = some r → parseBinary T (f + (k + 1)) p1 (flatten t ++ rest) = some r) := by
    intro t k hk
    intro p1 f rest r _ _ hs _ hl
    have e : f + (k + 1) = (f + k) + 1 := by omega
    rw [e, parseBinary_succ, hk f rest hs]
    exact binLoop_mono T (by omega) hl
  -- the unary statement for a primary tree follows from the primary one
  have un_of_prim : ∀ (t : Expr) (k : Nat), level T t = 7 → WF T t →
      (∀ f rest r, postLoop T f t rest = some r → parsePrimary T (f + k) (flatten t ++ rest) = some r) →
      (∀ f rest, stopPost rest = true → parseUnary T (f + (k + 2)) (flatten t ++ rest) = some (t, rest)) := by
    intro t k hl hw hk
    intro f rest hs
    have e : f + (k + 2) = (f + 1 + k) + 1 := by omega
    rw [e, parseUnary_other T _ _ (fun o tl => flatten_head_prim T t hl hp hw rest o tl)]
    exact hk (f + 1) rest (t, rest) (postLoop_stop T f t rest hs)
  -- closing a bracketed sub-expression
  have inner : ∀ (x : Expr) (k : Nat), WF T x →
      (∀ p1 f rest r, 1 ≤ p1 → p1 ≤ level T x → stopPost rest = true → headPrec T rest ≤ level T x →
        binLoop T f p1 x rest = some r → parseBinary T (f + k) p1 (flatten x ++ rest) = some r) →
      ∀ f (close : Tok) rest, (close = Tok.rparen ∨ close = Tok.rbrack) →
        parseBinary T (f + (k + 1)) 1 (flatten x ++ close :: rest) = some (x, close :: rest) := by
    intro x k hw hk
    intro f close rest hc
    have hstop : stopPost (close :: rest) = true := by rcases hc with rfl | rfl <;> rfl
    have hhp : headPrec T (close :: rest) = 0 := by rcases hc with rfl | rfl <;> rfl
    have := hk 1 (f + 1) (close :: rest) (x, close :: rest) (Nat.le_refl 1) (level_pos T x hw) hstop (by omega)
      (binLoop_ret T f 1 x _ (by omega))
    have e : f + (k + 1) = f + 1 + k := by omega
    rw [e]; exact this
  -- a primary tree: from the primary statement with constant k (k + 3 ≤ bound) to all three
  have prim_all : ∀ (t : Expr) (k : Nat), level T t = 7 → WF T t → k + 3 ≤ 6 * size t →
      (∀ f rest r, postLoop T f t rest = some r → parsePrimary T (f + k) (flatten t ++ rest) = some r) →
      (level T t = 7 → ∃ k, k + 3 ≤ 6 * size t ∧ ∀ f rest r, postLoop T f t rest = some r →
          parsePrimary T (f + k) (flatten t ++ rest) = some r) ∧
      (6 ≤ level T t → ∃ k, k + 1 ≤ 6 * size t ∧ ∀ f rest, stopPost rest = true →
          parseUnary T (f + k) (flatten t ++ rest) = some (t, rest)) ∧
      (∃ k, k ≤ 6 * size t ∧ ∀ p1 f rest r, 1 ≤ p1 → p1 ≤ level T t → stopPost rest = true → headPrec T rest ≤ level T t →
          binLoop T f p1 t rest = some r → parseBinary T (f + k) p1 (flatten t ++ rest) = some r) := by
    intro t k hl hw hb h7
    have h6 := un_of_prim t k hl hw h7
    exact ⟨fun _ => ⟨k, hb, h7⟩, fun _ => ⟨k + 2, by omega, h6⟩, ⟨k + 2 + 1, by omega, bin_of_un t (k + 2) h6⟩⟩
  induction t with
  | atom n =>
    exact prim_all _ 1 rfl hwf (by simp [size]) (fun f rest r h => by simpa [flatten, parsePrimary_atom] using h)
  | paren x ih =>
    have hwx : WF T x := hwf
    obtain ⟨kx0, hbx, hkx0⟩ := (ih hwx).2.2
    have hkx := inner x kx0 hwx hkx0
    refine prim_all _ (kx0 + 1 + 1) rfl hwf (by simp [size]; omega) ?_
    intro f rest r h
    have e : f + (kx0 + 1 + 1) = (f + (kx0 + 1)) + 1 := by omega
    have e2 : flatten (Expr.paren x) ++ rest = Tok.lparen :: (flatten x ++ Tok.rparen :: rest) := by
      simp [flatten, List.append_assoc]
    rw [e, e2, parsePrimary_lparen, hkx f Tok.rparen rest (Or.inl rfl)]
    exact postLoop_mono T (by omega) h
  | sel x n ih =>
    have hwf0 := hwf
    obtain ⟨hlx, hwx⟩ : level T x = 7 ∧ WF T x := hwf
    obtain ⟨kx, hbx, hkx⟩ := (ih hwx).1 hlx
    refine prim_all _ (kx + 1) rfl hwf0 (by simp [size]; omega) ?_
    intro f rest r h
    have e : f + (kx + 1) = (f + 1) + kx := by omega
    have e2 : flatten (Expr.sel x n) ++ rest = flatten x ++ Tok.period :: Tok.atom n :: rest := by
      simp [flatten, List.append_assoc]
    rw [e, e2]
    apply hkx
    rw [postLoop_sel]; exact h
  | index x i ihx ihi =>
    have hwf0 := hwf
    obtain ⟨hlx, hwx, hwi⟩ : level T x = 7 ∧ WF T x ∧ WF T i := hwf
    obtain ⟨kx, hbx, hkx⟩ := (ihx hwx).1 hlx
    obtain ⟨ki0, hbi, hki0⟩ := (ihi hwi).2.2
    have hki := inner i ki0 hwi hki0
    refine prim_all _ (kx + (ki0 + 1) + 1) rfl hwf0 (by simp [size]; omega) ?_
    intro f rest r h
    have e : f + (kx + (ki0 + 1) + 1) = (f + (ki0 + 1) + 1) + kx := by omega
    have e2 : flatten (Expr.index x i) ++ rest = flatten x ++ Tok.lbrack :: (flatten i ++ Tok.rbrack :: rest) := by
      simp [flatten, List.append_assoc]
    rw [e, e2]
    apply hkx
    rw [postLoop_lbrack, hki f Tok.rbrack rest (Or.inr rfl)]
    exact postLoop_mono T (by omega) h
  | call x a ihx iha =>
    have hwf0 := hwf
    obtain ⟨hlx, hwx, hwa⟩ : level T x = 7 ∧ WF T x ∧ WF T a := hwf
    obtain ⟨kx, hbx, hkx⟩ := (ihx hwx).1 hlx
    obtain ⟨ka0, hba, hka0⟩ := (iha hwa).2.2
    have hka := inner a ka0 hwa hka0
    refine prim_all _ (kx + (ka0 + 1) + 1) rfl hwf0 (by simp [size]; omega) ?_
    intro f rest r h
    have e : f + (kx + (ka0 + 1) + 1) = (f + (ka0 + 1) + 1) + kx := by omega
    have e2 : flatten (Expr.call x a) ++ rest = flatten x ++ Tok.lparen :: (flatten a ++ Tok.rparen :: rest) := by
      simp [flatten, List.append_assoc]
    rw [e, e2]
    apply hkx
    rw [postLoop_lparen, hka f Tok.rparen rest (Or.inl rfl)]
    exact postLoop_mono T (by omega) h
  | un o x ih =>
    obtain ⟨hu, hlx, hwx⟩ : T.isUnary o = true ∧ 6 ≤ level T x ∧ WF T x := hwf
    obtain ⟨kx, hbx, hkx⟩ := (ih hwx).2.1 hlx
    have h6 : ∀ f rest, stopPost rest = true →
        parseUnary T (f + (kx + 1)) (flatten (Expr.un o x) ++ rest) = some (Expr.un o x, rest) := by
      intro f rest hs
      have e : f + (kx + 1) = (f + kx) + 1 := by omega
      have e2 : flatten (Expr.un o x) ++ rest = Tok.op o :: (flatten x ++ rest) := by simp [flatten]
      rw [e, e2, parseUnary_op, hkx f rest hs]
      simp [hu]
    exact ⟨fun h => by simp [level] at h, fun _ => ⟨kx + 1, by simp [size]; omega, h6⟩,
      ⟨kx + 1 + 1, by simp [size]; omega, bin_of_un _ (kx + 1) h6⟩⟩
  | bin l o r ihl ihr =>
    obtain ⟨h1, hll, hlr, hwl, hwr⟩ :
      1 ≤ T.binPrec o ∧ T.binPrec o ≤ level T l ∧ T.binPrec o + 1 ≤ level T r ∧ WF T l ∧ WF T r := hwf
    have hpo := hp o
    obtain ⟨kl, hbl, hkl⟩ := (ihl hwl).2.2
    obtain ⟨kr, hbr, hkr⟩ := (ihr hwr).2.2
    refine ⟨fun h => by simp [level] at h; omega, fun h => by simp [level] at h; omega, kl + kr + 2,
      by simp [size]; omega, ?_⟩
    intro p1 f rest r0 hp1 hple hs hhp hloop
    simp only [level] at hple hhp
    -- the right operand, parsed at level binPrec o + 1, is exactly r
    have hr : parseBinary T (1 + kr) (T.binPrec o + 1) (flatten r ++ rest) = some (r, rest) :=
      hkr (T.binPrec o + 1) 1 rest (r, rest) (by omega) hlr hs (by omega) (binLoop_ret T 0 _ r rest (by omega))
    -- so the loop entered with l consumes `o r` and continues with `bin l o r`
    have hstep : binLoop T (f + kr + 2) p1 l (Tok.op o :: (flatten r ++ rest)) = some r0 := by
      have e : f + kr + 2 = (f + kr + 1) + 1 := by omega
      rw [e, binLoop_op]
      have : ¬ T.binPrec o < p1 := by omega
      simp only [this, if_false]
      rw [parseBinary_mono T (by omega) hr]
      exact binLoop_mono T (by omega) hloop
    have e : f + (kl + kr + 2) = (f + kr + 2) + kl := by omega
    have e2 : flatten (Expr.bin l o r) ++ rest = flatten l ++ Tok.op o :: (flatten r ++ rest) := by
      simp [flatten, List.append_assoc]
    rw [e, e2]
    exact hkl p1 (f + kr + 2) _ r0 hp1 (by omega) rfl (by simpa [headPrec] using hll) hstep

/-- **Completeness of the parser on well-formed trees**: the token sequence of a tree that respects precedence
    and associativity parses back to exactly that tree (at the lowest level, consuming everything). -/
theorem parseExpr_flatten (hp : ∀ o, T.binPrec o ≤ 5) (t : Expr) (hwf : WF T t) :
    parseExpr T (flatten t) = some t := by
  obtain ⟨k, hb, hk⟩ := (roundtrip_aux T hp t hwf).2.2
  have h := hk 1 1 [] (t, []) (Nat.le_refl 1) (level_pos T t hwf) rfl (by simp [headPrec])
    (binLoop_ret T 0 1 t [] (by simp [headPrec]))
  have hs := size_le_flatten t
  have h2 : parseBinary T (6 * (flatten t).length + 6) 1 (flatten t) = some (t, []) := by
    have := parseBinary_mono T (g := 6 * (flatten t).length + 6) (by omega) h
    simpa using this
  simp [parseExpr, h2]

/-- **Soundness**: whatever the parser returns is a well-formed tree whose tokens are exactly the consumed input
    (all five functions at once, by induction on the fuel). -/
theorem sound_aux (hp : ∀ o, T.binPrec o ≤ 5) (f : Nat) :
    (∀ p1 ts t rest, parseBinary T f p1 ts = some (t, rest) → 1 ≤ p1 → p1 ≤ 6 →
        ts = flatten t ++ rest ∧ WF T t ∧ p1 ≤ level T t ∧ headPrec T rest < p1) ∧
    (∀ p1 x ts t rest, binLoop T f p1 x ts = some (t, rest) → 1 ≤ p1 → WF T x → p1 ≤ level T x →
        headPrec T ts ≤ level T x →
        flatten x ++ ts = flatten t ++ rest ∧ WF T t ∧ p1 ≤ level T t ∧ headPrec T rest < p1) ∧
    (∀ ts t rest, parseUnary T f ts = some (t, rest) → ts = flatten t ++ rest ∧ WF T t ∧ 6 ≤ level T t) ∧
    (∀ ts t rest, parsePrimary T f ts = some (t, rest) → ts = flatten t ++ rest ∧ WF T t ∧ level T t = 7) ∧
    (∀ x ts t rest, postLoop T f x ts = some (t, rest) → WF T x → level T x = 7 →
        flatten x ++ ts = flatten t ++ rest ∧ WF T t ∧ level T t = 7) := by
  induction f with
  | zero =>
    refine ⟨?_, ?_, ?_, ?_, ?_⟩ <;> intros <;> simp_all [parseBinary, binLoop, parseUnary, parsePrimary, postLoop]
  | succ f ih =>
    obtain ⟨ihB, ihL, ihU, ihP, ihS⟩ := ih
    refine ⟨?_, ?_, ?_, ?_, ?_⟩
    · intro p1 ts t rest h hp1 hp6
      rw [parseBinary_succ] at h
      cases hu : parseUnary T f ts with
      | none => simp [hu] at h
      | some xr =>
        obtain ⟨x, ts'⟩ := xr
        rw [hu] at h; simp only at h
        obtain ⟨e1, wx, lx⟩ := ihU _ _ _ hu
        have hh : headPrec T ts' ≤ level T x := by
          cases ts' with
          | nil => simp [headPrec]
          | cons a tl => cases a <;> simp [headPrec]; have := hp ‹Nat›; omega
        obtain ⟨e2, wt, lt, hr⟩ := ihL _ _ _ _ _ h hp1 wx (by omega) hh
        exact ⟨by rw [e1, e2], wt, lt, hr⟩
    · intro p1 x ts t rest h hp1 wx lx hh
      by_cases hop : ∃ o tl, ts = Tok.op o :: tl
      · obtain ⟨o, tl, rfl⟩ := hop
        rw [binLoop_op] at h
        split at h
        · rename_i hlt
          simp only [Option.some.injEq, Prod.mk.injEq] at h
          obtain ⟨rfl, rfl⟩ := h
          exact ⟨rfl, wx, lx, by simpa [headPrec] using hlt⟩
        · rename_i hge
          cases hb : parseBinary T f (T.binPrec o + 1) tl with
          | none => simp [hb] at h
          | some yr =>
            obtain ⟨y, ts'⟩ := yr
            rw [hb] at h; simp only at h
            obtain ⟨e1, wy, ly, hy⟩ := ihB _ _ _ _ hb (by omega) (by have := hp o; omega)
            have hxo : T.binPrec o ≤ level T x := by simpa [headPrec] using hh
            have wn : WF T (Expr.bin x o y) := ⟨by omega, hxo, ly, wx, wy⟩
            obtain ⟨e2, wt, lt, hr⟩ := ihL _ _ _ _ _ h hp1 wn (by simp [level]; omega) (by simp [level]; omega)
            refine ⟨?_, wt, lt, hr⟩
            rw [← e2, e1]; simp [flatten, List.append_assoc]
      · have hne : ∀ o tl, ts ≠ Tok.op o :: tl := fun o tl he => hop ⟨o, tl, he⟩
        rw [binLoop_stop T _ _ _ _ hne] at h
        simp only [Option.some.injEq, Prod.mk.injEq] at h
        obtain ⟨rfl, rfl⟩ := h
        refine ⟨rfl, wx, lx, ?_⟩
        cases ts with
        | nil => simp [headPrec]; omega
        | cons a tl =>
          cases a <;> simp [headPrec] <;> try omega
          exact absurd rfl (hne _ _)
    · intro ts t rest h
      by_cases hop : ∃ o tl, ts = Tok.op o :: tl
      · obtain ⟨o, tl, rfl⟩ := hop
        rw [parseUnary_op] at h
        split at h
        · rename_i hu
          cases hb : parseUnary T f tl with
          | none => simp [hb] at h
          | some yr =>
            obtain ⟨y, ts'⟩ := yr
            rw [hb] at h
            simp only [Option.some.injEq, Prod.mk.injEq] at h
            obtain ⟨rfl, rfl⟩ := h
            obtain ⟨e1, wy, ly⟩ := ihU _ _ _ hb
            exact ⟨by rw [e1]; simp [flatten], ⟨hu, ly, wy⟩, by simp [level]⟩
        · simp at h
      · have hne : ∀ o tl, ts ≠ Tok.op o :: tl := fun o tl he => hop ⟨o, tl, he⟩
        rw [parseUnary_other T _ _ hne] at h
        obtain ⟨e1, wt, lt⟩ := ihP _ _ _ h
        exact ⟨e1, wt, by omega⟩
    · intro ts t rest h
      cases ts with
      | nil => simp [parsePrimary] at h
      | cons a tl =>
        cases a <;> try (simp [parsePrimary] at h; done)
        · rename_i n
          rw [parsePrimary_atom] at h
          obtain ⟨e1, wt, lt⟩ := ihS _ _ _ _ h trivial rfl
          exact ⟨by simpa [flatten] using e1, wt, lt⟩
        · rw [parsePrimary_lparen] at h
          cases hb : parseBinary T f 1 tl with
          | none => simp [hb] at h
          | some yr =>
            obtain ⟨y, ts'⟩ := yr
            rw [hb] at h
            obtain ⟨e1, wy, _, _⟩ := ihB _ _ _ _ hb (Nat.le_refl 1) (by omega)
            cases ts' with
            | nil => simp at h
            | cons c ts'' =>
              cases c <;> simp at h
              obtain ⟨e2, wt, lt⟩ := ihS _ _ _ _ h (show WF T (Expr.paren y) from wy) rfl
              refine ⟨?_, wt, lt⟩
              rw [← e2, e1]; simp [flatten, List.append_assoc]
    · intro x ts t rest h wx lx
      cases ts with
      | nil =>
        rw [postLoop_stop T _ _ _ rfl] at h
        simp only [Option.some.injEq, Prod.mk.injEq] at h
        obtain ⟨rfl, rfl⟩ := h; exact ⟨rfl, wx, lx⟩
      | cons a tl =>
        cases a
        case atom n =>
          rw [postLoop_stop T _ _ _ rfl] at h
          simp only [Option.some.injEq, Prod.mk.injEq] at h
          obtain ⟨rfl, rfl⟩ := h; exact ⟨rfl, wx, lx⟩
        case op o =>
          rw [postLoop_stop T _ _ _ rfl] at h
          simp only [Option.some.injEq, Prod.mk.injEq] at h
          obtain ⟨rfl, rfl⟩ := h; exact ⟨rfl, wx, lx⟩
        case rparen =>
          rw [postLoop_stop T _ _ _ rfl] at h
          simp only [Option.some.injEq, Prod.mk.injEq] at h
          obtain ⟨rfl, rfl⟩ := h; exact ⟨rfl, wx, lx⟩
        case rbrack =>
          rw [postLoop_stop T _ _ _ rfl] at h
          simp only [Option.some.injEq, Prod.mk.injEq] at h
          obtain ⟨rfl, rfl⟩ := h; exact ⟨rfl, wx, lx⟩
        case lparen =>
          rw [postLoop_lparen] at h
          cases hb : parseBinary T f 1 tl with
          | none => simp [hb] at h
          | some yr =>
            obtain ⟨y, ts'⟩ := yr
            rw [hb] at h
            obtain ⟨e1, wy, _, _⟩ := ihB _ _ _ _ hb (Nat.le_refl 1) (by omega)
            cases ts' with
            | nil => simp at h
            | cons c ts'' =>
              cases c <;> simp at h
              obtain ⟨e2, wt, lt⟩ := ihS _ _ _ _ h (show WF T (Expr.call x y) from ⟨lx, wx, wy⟩) rfl
              refine ⟨?_, wt, lt⟩
              rw [← e2, e1]; simp [flatten, List.append_assoc]
        case lbrack =>
          rw [postLoop_lbrack] at h
          cases hb : parseBinary T f 1 tl with
          | none => simp [hb] at h
          | some yr =>
            obtain ⟨y, ts'⟩ := yr
            rw [hb] at h
            obtain ⟨e1, wy, _, _⟩ := ihB _ _ _ _ hb (Nat.le_refl 1) (by omega)
            cases ts' with
            | nil => simp at h
            | cons c ts'' =>
              cases c <;> simp at h
              obtain ⟨e2, wt, lt⟩ := ihS _ _ _ _ h (show WF T (Expr.index x y) from ⟨lx, wx, wy⟩) rfl
              refine ⟨?_, wt, lt⟩
              rw [← e2, e1]; simp [flatten, List.append_assoc]
        case period =>
          cases tl with
          | nil => simp [postLoop] at h
          | cons t2 rest2 =>
            cases t2 <;> try (simp [postLoop] at h; done)
            rename_i n
            rw [postLoop_sel] at h
            obtain ⟨e2, wt, lt⟩ := ihS _ _ _ _ h (show WF T (Expr.sel x n) from ⟨lx, wx⟩) rfl
            refine ⟨?_, wt, lt⟩
            rw [← e2]; simp [flatten, List.append_assoc]

/-- what `parseExpr` returns is a well-formed tree with exactly the input's tokens -/
theorem parseExpr_sound (hp : ∀ o, T.binPrec o ≤ 5) (ts : List Tok) (t : Expr) (h : parseExpr T ts = some t) :
    flatten t = ts ∧ WF T t := by
  unfold parseExpr at h
  split at h
  · rename_i x heq
    simp only [Option.some.injEq] at h; subst h
    obtain ⟨e, w, _, _⟩ := (sound_aux T hp _).1 _ _ _ _ heq (Nat.le_refl 1) (by omega)
    exact ⟨by simpa using e.symm, w⟩
  · simp at h

/-- **The parse tree is the unique well-formed tree over the token sequence.** -/
theorem parseExpr_iff (hp : ∀ o, T.binPrec o ≤ 5) (ts : List Tok) (t : Expr) :
    parseExpr T ts = some t ↔ (flatten t = ts ∧ WF T t) := by
  constructor
  · exact parseExpr_sound T hp ts t
  · rintro ⟨rfl, w⟩; exact parseExpr_flatten T hp t w

theorem wf_unique (hp : ∀ o, T.binPrec o ≤ 5) (t1 t2 : Expr) (w1 : WF T t1) (w2 : WF T t2)
    (h : flatten t1 = flatten t2) : t1 = t2 := by
  have a := parseExpr_flatten T hp t1 w1
  have b := parseExpr_flatten T hp t2 w2
  rw [h, b] at a
  exact (Option.some.inj a).symm

theorem wfb_iff (t : Expr) : wfb T t = true ↔ WF T t := by
  induction t <;> simp_all [wfb, WF, and_assoc]

end ParseExpr
