import Model.ParseExpr
/-! Lemmas about the expression parser model (C24 `parse_binary_prec`, reused by C25). -/
namespace ParseExpr

variable (T : Tables)

/-! one-step unfolding equations (fuel `f+1`, inner calls at `f`) -/
theorem parseBinary_succ (f p1 : Nat) (ts : List Tok) :
    parseBinary T (f+1) p1 ts =
      match parseUnary T f ts with
      | none => none
      | some (x, ts') => binLoop T f p1 x ts' := by
  rw [parseBinary]; rfl

theorem binLoop_op (f p1 : Nat) (x : Expr) (o : Nat) (rest : List Tok) :
    binLoop T (f+1) p1 x (Tok.op o :: rest) =
      if T.binPrec o < p1 then some (x, Tok.op o :: rest)
      else match parseBinary T f (T.binPrec o + 1) rest with
        | none => none
        | some (y, ts') => binLoop T f p1 (Expr.bin x o y) ts' := by
  rw [binLoop]; rfl

theorem binLoop_stop (f p1 : Nat) (x : Expr) (ts : List Tok) (h : ∀ o rest, ts ≠ Tok.op o :: rest) :
    binLoop T (f+1) p1 x ts = some (x, ts) := by
  rw [binLoop]
  intro o rest he; exact h o rest he

theorem parseUnary_op (f : Nat) (o : Nat) (rest : List Tok) :
    parseUnary T (f+1) (Tok.op o :: rest) =
      if T.isUnary o then
        match parseUnary T f rest with
        | none => none
        | some (x, ts') => some (Expr.un o x, ts')
      else none := by
  rw [parseUnary]; rfl

theorem parseUnary_other (f : Nat) (ts : List Tok) (h : ∀ o rest, ts ≠ Tok.op o :: rest) :
    parseUnary T (f+1) ts = parsePrimary T f ts := by
  rw [parseUnary]
  intro o rest he; exact h o rest he

theorem parsePrimary_atom (f n : Nat) (rest : List Tok) :
    parsePrimary T (f+1) (Tok.atom n :: rest) = postLoop T f (Expr.atom n) rest := by
  rw [parsePrimary]

theorem parsePrimary_lparen (f : Nat) (rest : List Tok) :
    parsePrimary T (f+1) (Tok.lparen :: rest) =
      match parseBinary T f 1 rest with
      | some (x, Tok.rparen :: ts') => postLoop T f (Expr.paren x) ts'
      | _ => none := by
  rw [parsePrimary]; rfl

theorem postLoop_sel (f : Nat) (x : Expr) (n : Nat) (rest : List Tok) :
    postLoop T (f+1) x (Tok.period :: Tok.atom n :: rest) = postLoop T f (Expr.sel x n) rest := by
  rw [postLoop]

theorem postLoop_lbrack (f : Nat) (x : Expr) (rest : List Tok) :
    postLoop T (f+1) x (Tok.lbrack :: rest) =
      match parseBinary T f 1 rest with
      | some (i, Tok.rbrack :: ts') => postLoop T f (Expr.index x i) ts'
      | _ => none := by
  rw [postLoop]; rfl

theorem postLoop_lparen (f : Nat) (x : Expr) (rest : List Tok) :
    postLoop T (f+1) x (Tok.lparen :: rest) =
      match parseBinary T f 1 rest with
      | some (a, Tok.rparen :: ts') => postLoop T f (Expr.call x a) ts'
      | _ => none := by
  rw [postLoop]; rfl

theorem postLoop_stop (f : Nat) (x : Expr) (ts : List Tok) (h : stopPost ts = true) :
    postLoop T (f+1) x ts = some (x, ts) := by
  cases ts with
  | nil => rw [postLoop] <;> simp
  | cons t rest =>
    cases t <;> first | (simp [stopPost] at h; done) | (rw [postLoop] <;> simp)

/-- more fuel never changes a successful result (all five functions at once) -/
theorem mono_step (f : Nat) :
    (∀ p1 ts r, parseBinary T f p1 ts = some r → parseBinary T (f+1) p1 ts = some r) ∧
    (∀ p1 x ts r, binLoop T f p1 x ts = some r → binLoop T (f+1) p1 x ts = some r) ∧
    (∀ ts r, parseUnary T f ts = some r → parseUnary T (f+1) ts = some r) ∧
    (∀ ts r, parsePrimary T f ts = some r → parsePrimary T (f+1) ts = some r) ∧
    (∀ x ts r, postLoop T f x ts = some r → postLoop T (f+1) x ts = some r) := by
  induction f with
  | zero =>
    refine ⟨?_, ?_, ?_, ?_, ?_⟩ <;> intros <;> simp_all [parseBinary, binLoop, parseUnary, parsePrimary, postLoop]
  | succ f ih =>
    obtain ⟨ihB, ihL, ihU, ihP, ihS⟩ := ih
    refine ⟨?_, ?_, ?_, ?_, ?_⟩
    · intro p1 ts r h
      rw [parseBinary_succ] at h ⊢
      cases hu : parseUnary T f ts with
      | none => simp [hu] at h
      | some xr =>
        obtain ⟨x, ts'⟩ := xr
        rw [hu] at h; simp only at h
        rw [ihU _ _ hu]; simp only
        exact ihL _ _ _ _ h
    · intro p1 x ts r h
      by_cases hop : ∃ o rest, ts = Tok.op o :: rest
      · obtain ⟨o, rest, rfl⟩ := hop
        rw [binLoop_op] at h ⊢
        split at h
        · rename_i hlt; simp only [hlt, if_true]; exact h
        · rename_i hge
          simp only [hge, if_false]
          cases hb : parseBinary T f (T.binPrec o + 1) rest with
          | none => simp [hb] at h
          | some yr =>
            obtain ⟨y, ts'⟩ := yr
            rw [hb] at h; simp only at h
            rw [ihB _ _ _ hb]; simp only
            exact ihL _ _ _ _ h
      · have hne : ∀ o rest, ts ≠ Tok.op o :: rest := fun o rest he => hop ⟨o, rest, he⟩
        rw [binLoop_stop T _ _ _ _ hne] at h ⊢; exact h
    · intro ts r h
      by_cases hop : ∃ o rest, ts = Tok.op o :: rest
      · obtain ⟨o, rest, rfl⟩ := hop
        rw [parseUnary_op] at h ⊢
        split at h
        · rename_i hu; simp only [hu, if_true]
          cases hb : parseUnary T f rest with
          | none => simp [hb] at h
          | some yr =>
            obtain ⟨y, ts'⟩ := yr
            rw [hb] at h; simp only at h
            rw [ihU _ _ hb]; simpa using h
        · simp at h
      · have hne : ∀ o rest, ts ≠ Tok.op o :: rest := fun o rest he => hop ⟨o, rest, he⟩
        rw [parseUnary_other T _ _ hne] at h ⊢; exact ihP _ _ h
    · intro ts r h
      cases ts with
      | nil => simp [parsePrimary] at h
      | cons t rest =>
        cases t <;> try (simp [parsePrimary] at h; done)
        · rw [parsePrimary_atom] at h ⊢; exact ihS _ _ _ h
        · rw [parsePrimary_lparen] at h ⊢
          cases hb : parseBinary T f 1 rest with
          | none => simp [hb] at h
          | some yr =>
            obtain ⟨y, ts'⟩ := yr
            rw [hb] at h
            rw [ihB _ _ _ hb]
            cases ts' with
            | nil => simp at h
            | cons t ts'' =>
              cases t <;> simp at h ⊢
              exact ihS _ _ _ h
    · intro x ts r h
      cases ts with
      | nil => rw [postLoop_stop T _ _ _ rfl] at h ⊢; exact h
      | cons t rest =>
        cases t
        case atom n => rw [postLoop_stop T _ _ _ rfl] at h ⊢; exact h
        case op o => rw [postLoop_stop T _ _ _ rfl] at h ⊢; exact h
        case rparen => rw [postLoop_stop T _ _ _ rfl] at h ⊢; exact h
        case rbrack => rw [postLoop_stop T _ _ _ rfl] at h ⊢; exact h
        case lparen =>
          rw [postLoop_lparen] at h ⊢
          cases hb : parseBinary T f 1 rest with
          | none => simp [hb] at h
          | some yr =>
            obtain ⟨y, ts'⟩ := yr
            rw [hb] at h
            rw [ihB _ _ _ hb]
            cases ts' with
            | nil => simp at h
            | cons t ts'' =>
              cases t <;> simp at h ⊢
              exact ihS _ _ _ h
        case lbrack =>
          rw [postLoop_lbrack] at h ⊢
          cases hb : parseBinary T f 1 rest with
          | none => simp [hb] at h
          | some yr =>
            obtain ⟨y, ts'⟩ := yr
            rw [hb] at h
            rw [ihB _ _ _ hb]
            cases ts' with
            | nil => simp at h
            | cons t ts'' =>
              cases t <;> simp at h ⊢
              exact ihS _ _ _ h
        case period =>
          cases rest with
          | nil => simp [postLoop] at h
          | cons t2 rest2 =>
            cases t2 <;> try (simp [postLoop] at h; done)
            rw [postLoop_sel] at h ⊢
            exact ihS _ _ _ h

theorem parseBinary_mono {f g : Nat} (h : f ≤ g) {p1 ts r} :
    parseBinary T f p1 ts = some r → parseBinary T g p1 ts = some r := by
  induction h with
  | refl => exact id
  | step _ ih => exact fun hh => (mono_step T _).1 _ _ _ (ih hh)

theorem binLoop_mono {f g : Nat} (h : f ≤ g) {p1 x ts r} :
    binLoop T f p1 x ts = some r → binLoop T g p1 x ts = some r := by
  induction h with
  | refl => exact id
  | step _ ih => exact fun hh => (mono_step T _).2.1 _ _ _ _ (ih hh)

theorem parseUnary_mono {f g : Nat} (h : f ≤ g) {ts r} :
    parseUnary T f ts = some r → parseUnary T g ts = some r := by
  induction h with
  | refl => exact id
  | step _ ih => exact fun hh => (mono_step T _).2.2.1 _ _ (ih hh)

theorem parsePrimary_mono {f g : Nat} (h : f ≤ g) {ts r} :
    parsePrimary T f ts = some r → parsePrimary T g ts = some r := by
  induction h with
  | refl => exact id
  | step _ ih => exact fun hh => (mono_step T _).2.2.2.1 _ _ (ih hh)

theorem postLoop_mono {f g : Nat} (h : f ≤ g) {x ts r} :
    postLoop T f x ts = some r → postLoop T g x ts = some r := by
  induction h with
  | refl => exact id
  | step _ ih => exact fun hh => (mono_step T _).2.2.2.2 _ _ _ (ih hh)

/-- the loop of parseBinaryExpr returns when the next token binds less tightly than `p1` -/
theorem binLoop_ret (f p1 : Nat) (x : Expr) (rest : List Tok) (h : headPrec T rest < p1) :
    binLoop T (f+1) p1 x rest = some (x, rest) := by
  by_cases hop : ∃ o tl, rest = Tok.op o :: tl
  · obtain ⟨o, tl, rfl⟩ := hop
    rw [binLoop_op]
    simp only [headPrec] at h
    simp [h]
  · exact binLoop_stop T _ _ _ _ (fun o tl he => hop ⟨o, tl, he⟩)

theorem level_pos (t : Expr) (h : WF T t) : 1 ≤ level T t := by
  cases t <;> simp [level, WF] at h ⊢
  exact h.1

/-- a primary expression starts with an operand token -/
theorem flatten_head_prim (t : Expr) (hl : level T t = 7) (hp : ∀ o, T.binPrec o ≤ 5) (hwf : WF T t) :
    ∀ rest o tl, flatten t ++ rest ≠ Tok.op o :: tl := by
  induction t with
  | atom n => intro rest o tl; simp [flatten]
  | bin l o r _ _ => have := hp o; simp [level] at hl; omega
  | un o x _ => simp [level] at hl
  | paren x _ => intro rest o tl; simp [flatten]
  | sel x n ih =>
    intro rest o tl
    have := ih hwf.1 hwf.2 ([Tok.period, Tok.atom n] ++ rest) o tl
    simpa [flatten, List.append_assoc] using this
  | index x i ih _ =>
    intro rest o tl
    have := ih hwf.1 hwf.2.1 (Tok.lbrack :: flatten i ++ [Tok.rbrack] ++ rest) o tl
    simpa [flatten, List.append_assoc] using this
  | call x a ih _ =>
    intro rest o tl
    have := ih hwf.1 hwf.2.1 (Tok.lparen :: flatten a ++ [Tok.rparen] ++ rest) o tl
    simpa [flatten, List.append_assoc] using this

/-- The three round-trip statements, proved together by induction on the tree:
    (primary)  parsing `flatten t ++ rest` as a primary expression continues like the postfix loop entered with `t`;
    (unary)    a unary-level tree is returned as is when no postfix token follows;
    (binary)   parsing at level `p1 ≤ level t` continues like the binary loop entered with `t`. -/
theorem roundtrip_aux (hp : ∀ o, T.binPrec o ≤ 5) (t : Expr) (hwf : WF T t) :
    (level T t = 7 → ∃ k, ∀ f rest r, postLoop T f t rest = some r →
        parsePrimary T (f + k) (flatten t ++ rest) = some r) ∧
    (6 ≤ level T t → ∃ k, ∀ f rest, stopPost rest = true →
        parseUnary T (f + k) (flatten t ++ rest) = some (t, rest)) ∧
    (∃ k, ∀ p1 f rest r, 1 ≤ p1 → p1 ≤ level T t → stopPost rest = true → headPrec T rest ≤ level T t →
        binLoop T f p1 t rest = some r → parseBinary T (f + k) p1 (flatten t ++ rest) = some r) := by
  -- the binary statement for a tree of level ≥ 6 follows from the unary one
  have bin_of_un : ∀ t : Expr, 6 ≤ level T t →
      (∃ k, ∀ f rest, stopPost rest = true → parseUnary T (f + k) (flatten t ++ rest) = some (t, rest)) →
      (∃ k, ∀ p1 f rest r, 1 ≤ p1 → p1 ≤ level T t → stopPost rest = true → headPrec T rest ≤ level T t →
        binLoop T f p1 t rest = some r → parseBinary T (f + k) p1 (flatten t ++ rest) = some r) := by
    intro t _ ⟨k, hk⟩
    refine ⟨k + 1, ?_⟩
    intro p1 f rest r _ _ hs _ hl
    have e : f + (k + 1) = (f + k) + 1 := by omega
    rw [e, parseBinary_succ, hk f rest hs]
    exact binLoop_mono T (by omega) hl
  -- the unary statement for a primary tree follows from the primary one
  have un_of_prim : ∀ t : Expr, level T t = 7 → WF T t →
      (∃ k, ∀ f rest r, postLoop T f t rest = some r → parsePrimary T (f + k) (flatten t ++ rest) = some r) →
      (∃ k, ∀ f rest, stopPost rest = true → parseUnary T (f + k) (flatten t ++ rest) = some (t, rest)) := by
    intro t hl hw ⟨k, hk⟩
    refine ⟨k + 2, ?_⟩
    intro f rest hs
    have e : f + (k + 2) = (f + 1 + k) + 1 := by omega
    rw [e, parseUnary_other T _ _ (fun o tl => flatten_head_prim T t hl hp hw rest o tl)]
    exact hk (f + 1) rest (t, rest) (postLoop_stop T f t rest hs)
  -- closing a bracketed sub-expression
  have inner : ∀ (x : Expr), WF T x →
      (∃ k, ∀ p1 f rest r, 1 ≤ p1 → p1 ≤ level T x → stopPost rest = true → headPrec T rest ≤ level T x →
        binLoop T f p1 x rest = some r → parseBinary T (f + k) p1 (flatten x ++ rest) = some r) →
      ∃ k, ∀ f (close : Tok) rest, (close = Tok.rparen ∨ close = Tok.rbrack) →
        parseBinary T (f + k) 1 (flatten x ++ close :: rest) = some (x, close :: rest) := by
    intro x hw ⟨k, hk⟩
    refine ⟨k + 1, ?_⟩
    intro f close rest hc
    have hstop : stopPost (close :: rest) = true := by rcases hc with rfl | rfl <;> rfl
    have hhp : headPrec T (close :: rest) = 0 := by rcases hc with rfl | rfl <;> rfl
    have := hk 1 (f + 1) (close :: rest) (x, close :: rest) (Nat.le_refl 1) (level_pos T x hw) hstop (by omega)
      (binLoop_ret T f 1 x _ (by omega))
    have e : f + (k + 1) = f + 1 + k := by omega
    rw [e]; exact this
  induction t with
  | atom n =>
    have h7 : ∃ k, ∀ f rest r, postLoop T f (Expr.atom n) rest = some r →
        parsePrimary T (f + k) (flatten (Expr.atom n) ++ rest) = some r :=
      ⟨1, fun f rest r h => by simpa [flatten, parsePrimary_atom] using h⟩
    have h6 := un_of_prim _ rfl hwf h7
    exact ⟨fun _ => h7, fun _ => h6, bin_of_un _ (by simp [level]) h6⟩
  | paren x ih =>
    have hwx : WF T x := hwf
    obtain ⟨kx, hkx⟩ := inner x hwx (ih hwx).2.2
    have h7 : ∃ k, ∀ f rest r, postLoop T f (Expr.paren x) rest = some r →
        parsePrimary T (f + k) (flatten (Expr.paren x) ++ rest) = some r := by
      refine ⟨kx + 1, ?_⟩
      intro f rest r h
      have e : f + (kx + 1) = (f + kx) + 1 := by omega
      have e2 : flatten (Expr.paren x) ++ rest = Tok.lparen :: (flatten x ++ Tok.rparen :: rest) := by
        simp [flatten, List.append_assoc]
      rw [e, e2, parsePrimary_lparen, hkx f Tok.rparen rest (Or.inl rfl)]
      exact postLoop_mono T (by omega) h
    have h6 := un_of_prim _ rfl hwf h7
    exact ⟨fun _ => h7, fun _ => h6, bin_of_un _ (by simp [level]) h6⟩
  | sel x n ih =>
    have hwf0 := hwf
    obtain ⟨hlx, hwx⟩ : level T x = 7 ∧ WF T x := hwf
    obtain ⟨kx, hkx⟩ := (ih hwx).1 hlx
    have h7 : ∃ k, ∀ f rest r, postLoop T f (Expr.sel x n) rest = some r →
        parsePrimary T (f + k) (flatten (Expr.sel x n) ++ rest) = some r := by
      refine ⟨kx + 1, ?_⟩
      intro f rest r h
      have e : f + (kx + 1) = (f + 1) + kx := by omega
      have e2 : flatten (Expr.sel x n) ++ rest = flatten x ++ Tok.period :: Tok.atom n :: rest := by
        simp [flatten, List.append_assoc]
      rw [e, e2]
      apply hkx
      rw [postLoop_sel]; exact h
    have h6 := un_of_prim _ rfl hwf0 h7
    exact ⟨fun _ => h7, fun _ => h6, bin_of_un _ (by simp [level]) h6⟩
  | index x i ihx ihi =>
    have hwf0 := hwf
    obtain ⟨hlx, hwx, hwi⟩ : level T x = 7 ∧ WF T x ∧ WF T i := hwf
    obtain ⟨kx, hkx⟩ := (ihx hwx).1 hlx
    obtain ⟨ki, hki⟩ := inner i hwi (ihi hwi).2.2
    have h7 : ∃ k, ∀ f rest r, postLoop T f (Expr.index x i) rest = some r →
        parsePrimary T (f + k) (flatten (Expr.index x i) ++ rest) = some r := by
      refine ⟨kx + ki + 1, ?_⟩
      intro f rest r h
      have e : f + (kx + ki + 1) = (f + ki + 1) + kx := by omega
      have e2 : flatten (Expr.index x i) ++ rest = flatten x ++ Tok.lbrack :: (flatten i ++ Tok.rbrack :: rest) := by
        simp [flatten, List.append_assoc]
      rw [e, e2]
      apply hkx
      rw [postLoop_lbrack, hki f Tok.rbrack rest (Or.inr rfl)]
      exact postLoop_mono T (by omega) h
    have h6 := un_of_prim _ rfl hwf0 h7
    exact ⟨fun _ => h7, fun _ => h6, bin_of_un _ (by simp [level]) h6⟩
  | call x a ihx iha =>
    have hwf0 := hwf
    obtain ⟨hlx, hwx, hwa⟩ : level T x = 7 ∧ WF T x ∧ WF T a := hwf
    obtain ⟨kx, hkx⟩ := (ihx hwx).1 hlx
    obtain ⟨ka, hka⟩ := inner a hwa (iha hwa).2.2
    have h7 : ∃ k, ∀ f rest r, postLoop T f (Expr.call x a) rest = some r →
        parsePrimary T (f + k) (flatten (Expr.call x a) ++ rest) = some r := by
      refine ⟨kx + ka + 1, ?_⟩
      intro f rest r h
      have e : f + (kx + ka + 1) = (f + ka + 1) + kx := by omega
      have e2 : flatten (Expr.call x a) ++ rest = flatten x ++ Tok.lparen :: (flatten a ++ Tok.rparen :: rest) := by
        simp [flatten, List.append_assoc]
      rw [e, e2]
      apply hkx
      rw [postLoop_lparen, hka f Tok.rparen rest (Or.inl rfl)]
      exact postLoop_mono T (by omega) h
    have h6 := un_of_prim _ rfl hwf0 h7
    exact ⟨fun _ => h7, fun _ => h6, bin_of_un _ (by simp [level]) h6⟩
  | un o x ih =>
    obtain ⟨hu, hlx, hwx⟩ : T.isUnary o = true ∧ 6 ≤ level T x ∧ WF T x := hwf
    obtain ⟨kx, hkx⟩ := (ih hwx).2.1 hlx
    have h6 : ∃ k, ∀ f rest, stopPost rest = true →
        parseUnary T (f + k) (flatten (Expr.un o x) ++ rest) = some (Expr.un o x, rest) := by
      refine ⟨kx + 1, ?_⟩
      intro f rest hs
      have e : f + (kx + 1) = (f + kx) + 1 := by omega
      have e2 : flatten (Expr.un o x) ++ rest = Tok.op o :: (flatten x ++ rest) := by simp [flatten]
      rw [e, e2, parseUnary_op, hkx f rest hs]
      simp [hu]
    exact ⟨fun h => by simp [level] at h, fun _ => h6, bin_of_un _ (by simp [level]) h6⟩
  | bin l o r ihl ihr =>
    obtain ⟨h1, hll, hlr, hwl, hwr⟩ :
      1 ≤ T.binPrec o ∧ T.binPrec o ≤ level T l ∧ T.binPrec o + 1 ≤ level T r ∧ WF T l ∧ WF T r := hwf
    have hpo := hp o
    obtain ⟨kl, hkl⟩ := (ihl hwl).2.2
    obtain ⟨kr, hkr⟩ := (ihr hwr).2.2
    refine ⟨fun h => by simp [level] at h; omega, fun h => by simp [level] at h; omega, kl + kr + 2, ?_⟩
    intro p1 f rest r0 hp1 hple hs hhp hloop
    simp only [level] at hple hhp
    -- the right operand, parsed at level binPrec o + 1, is exactly r
    have hr : parseBinary T (1 + kr) (T.binPrec o + 1) (flatten r ++ rest) = some (r, rest) :=
      hkr (T.binPrec o + 1) 1 rest (r, rest) (by omega) hlr hs (by omega) (binLoop_ret T 0 _ r rest (by omega))
    -- so the loop entered with l consumes `o r` and continues with `bin l o r`
    have hstep : binLoop T (f + kr + 2) p1 l (Tok.op o :: (flatten r ++ rest)) = some r0 := by
      have e : f + kr + 2 = (f + kr + 1) + 1 := by omega
      rw [e, binLoop_op]
      have : ¬ T.binPrec o < p1 := by omega
      simp only [this, if_false]
      rw [parseBinary_mono T (by omega) hr]
      exact binLoop_mono T (by omega) hloop
    have e : f + (kl + kr + 2) = (f + kr + 2) + kl := by omega
    have e2 : flatten (Expr.bin l o r) ++ rest = flatten l ++ Tok.op o :: (flatten r ++ rest) := by
      simp [flatten, List.append_assoc]
    rw [e, e2]
    exact hkl p1 (f + kr + 2) _ r0 hp1 (by omega) rfl (by simpa [headPrec] using hll) hstep

end ParseExpr
