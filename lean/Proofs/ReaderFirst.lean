import Proofs.ChunkLoop
/-! Lemmas for C27: the hand-made first iteration of EvalReader (comments before the first token are
    removed, the first token's own line keeps its columns in the repaired tree). -/
namespace FileSet

theorem bolOf_go_spec : ∀ (xs : Bytes) (i cur : Nat),
    (bolOf.go xs i cur = cur ∧ nl xs = 0) ∨
    (i < bolOf.go xs i cur ∧ bolOf.go xs i cur ≤ i + xs.length ∧
      xs.getD (bolOf.go xs i cur - i - 1) 0 = 10 ∧ nl (xs.drop (bolOf.go xs i cur - i)) = 0) := by
  intro xs
  induction xs with
  | nil => intro i cur; left; exact ⟨rfl, rfl⟩
  | cons x xs ih =>
    intro i cur
    simp only [bolOf.go]
    rcases ih (i + 1) (if x = 10 then i + 1 else cur) with ⟨h1, h2⟩ | ⟨h1, h2, h3, h4⟩
    · by_cases hx : x = 10
      · right
        rw [h1, if_pos hx]
        refine ⟨by omega, by simp only [List.length_cons]; omega, ?_, ?_⟩
        · have : i + 1 - i - 1 = 0 := by omega
          rw [this]; simpa using hx
        · have : i + 1 - i = 1 := by omega
          rw [this]; simpa using h2
      · left
        rw [h1, if_neg hx]
        exact ⟨rfl, by simp only [nl, hx, if_false, h2]⟩
    · right
      generalize bolOf.go xs (i + 1) (if x = 10 then i + 1 else cur) = r at h1 h2 h3 h4
      refine ⟨by omega, by simp only [List.length_cons]; omega, ?_, ?_⟩
      · have : r - i - 1 = (r - (i + 1) - 1) + 1 := by omega
        rw [this]
        simpa using h3
      · have : r - i = (r - (i + 1)) + 1 := by omega
        rw [this]
        simpa using h4

theorem foldl_lc_nonl (xs : Bytes) (l c : Nat) (h : nl xs = 0) : xs.foldl lcStep (l, c) = (l, c + xs.length) := by
  induction xs generalizing c with
  | nil => rfl
  | cons x xs ih =>
    have hx : x ≠ 10 := by
      intro hx; subst hx; simp [nl] at h
    have h' : nl xs = 0 := by simp [nl, hx] at h; exact h
    simp only [List.foldl_cons, lcStep_other _ hx, ih _ h', List.length_cons]
    congr 1; omega

/-- the split of the comment part at the beginning of the first token's line -/
theorem bolOf_split (src : Bytes) (ft : Nat) (hft : ft ≤ src.length) :
    bolOf src ft ≤ ft ∧
    ((src.take (bolOf src ft)) = [] ∨ (src.take (bolOf src ft)).getLast? = some 10) ∧
    nl ((src.take ft).drop (bolOf src ft)) = 0 := by
  have hlen : (src.take ft).length = ft := by simp; omega
  unfold bolOf
  rcases bolOf_go_spec (src.take ft) 0 0 with ⟨h1, h2⟩ | ⟨h1, h2, h3, h4⟩
  · rw [h1]
    exact ⟨Nat.zero_le _, Or.inl (by simp), by simpa using h2⟩
  · generalize bolOf.go (src.take ft) 0 0 = r at h1 h2 h3 h4
    rw [hlen] at h2
    simp only [Nat.sub_zero, Nat.zero_add] at h2 h3 h4
    refine ⟨h2, Or.inr ?_, h4⟩
    have hr : r - 1 < src.length := by omega
    have : src.take r = src.take (r - 1) ++ [src.getD (r - 1) 0] := by
      have := take_succ_getD src (r - 1) hr
      have h' : r - 1 + 1 = r := by omega
      rw [h'] at this; exact this
    rw [this, List.getLast?_append]
    simp only [List.getLast?_singleton, Option.some_or]
    have hg : (src.take ft).getD (r - 1) 0 = src.getD (r - 1) 0 := by
      simp only [List.getD, List.getElem?_take]
      rw [if_pos (by omega)]
    rw [← hg, h3]

/-- line and column of a byte at or after the first token, computed in the text the parser sees
    (comments removed, the rest of the first token's line blanked) -/
theorem lineCol_blank_prefix (src : Bytes) (ft o : Nat) (hft : ft ≤ src.length) (ho1 : ft ≤ o) (ho2 : o ≤ src.length) :
    lineCol src o =
      ((lineCol (List.replicate (ft - bolOf src ft) 32 ++ src.drop ft) (o - bolOf src ft)).1 + nl (src.take ft),
       (lineCol (List.replicate (ft - bolOf src ft) 32 ++ src.drop ft) (o - bolOf src ft)).2) := by
  obtain ⟨hb, hA, hB⟩ := bolOf_split src ft hft
  generalize bolOf src ft = bol at hb hA hB
  -- src.take o = A ++ B ++ S
  have hT : src.take ft = src.take bol ++ (src.take ft).drop bol := by
    have := (List.take_append_drop bol (src.take ft)).symm
    rw [List.take_take, Nat.min_eq_left hb] at this
    exact this
  have hO : src.take o = src.take ft ++ (src.drop ft).take (o - ft) := by
    have : o = ft + (o - ft) := by omega
    rw [this, List.take_add]
    congr 2; omega
  have hBlen : ((src.take ft).drop bol).length = ft - bol := by simp; omega
  have hfoldA : ∀ l, (src.take bol).foldl lcStep (l, 1) = (l + nl (src.take bol), 1) := by
    intro l
    rcases hA with h | h
    · rw [h]; simp [nl]
    · exact foldl_lc_endnl _ l 1 h
  have hnlT : nl (src.take ft) = nl (src.take bol) := by
    rw [hT, nl_append, hB]; simp
  have hR : (List.replicate (ft - bol) 32 ++ src.drop ft).take (o - bol) =
      List.replicate (ft - bol) 32 ++ (src.drop ft).take (o - ft) := by
    rw [List.take_append]
    simp only [List.length_replicate]
    have h1 : List.take (o - bol) (List.replicate (ft - bol) 32) = List.replicate (ft - bol) 32 := by
      apply List.take_of_length_le; simp; omega
    have h2 : o - bol - (ft - bol) = o - ft := by omega
    rw [h1, h2]
  rw [lineCol_eq, lineCol_eq, hR, hO, hT]
  simp only [List.foldl_append]
  rw [hfoldA 1, foldl_lc_nonl _ _ _ hB, foldl_lc_nonl _ _ _ (nl_replicate_32 _), hBlen, List.length_replicate,
    nl_append, hB, Nat.add_zero, foldl_lc_shift]

/-- the text the parser sees of EvalReader's first chunk, and how many bytes were cut from its front -/
def firstText (cfg : Cfg) (c : Chunk) : Bytes × Nat :=
  if c.ft > 0 then
    (List.replicate (c.ft.toNat - (if cfg.firstBlank = true then bolOf c.src c.ft.toNat else c.ft.toNat)) 32 ++
        c.src.drop c.ft.toNat,
     if cfg.firstBlank = true then bolOf c.src c.ft.toNat else c.ft.toNat)
  else (c.src, 0)

/-- `Globals.Line` when the first chunk is parsed -/
def firstLine (c : Chunk) : Nat := if c.ft > 0 then nl (c.src.take c.ft.toNat) else 0

theorem readerFirst_eq (cfg : Cfg) (name : String) (cp : Bool) (st : LoopSt) (c : Chunk) :
    readerFirst cfg name cp st c =
      parseEvalPrint cfg name cp { st with line := firstLine c } (firstText cfg c).1 (firstText cfg c).2 := by
  by_cases h : c.ft > 0 <;> simp [readerFirst, firstText, firstLine, h]

/-- position formula for the first chunk of EvalReader / EvalFile, every configuration -/
theorem reader_first_position (cfg : Cfg) (name : String) (cp : Bool) (st0 : LoopSt) (hg : Good st0)
    (hp0 : st0.parsed = []) (c0 : Chunk) (post : List Chunk)
    (hr : reaches (firstText cfg c0).1 = true) (o' : Nat) (ho : o' < (firstText cfg c0).1.length) :
    ∃ p, posOf (runChunks cfg .reader name cp st0 (c0 :: post)) 0 ((firstText cfg c0).2 + o') = some p ∧
      ((runChunks cfg .reader name cp st0 (c0 :: post)).fs.positionFor p).1 =
        ⟨name, o', ((lineCol (firstText cfg c0).1 o').1 : Int) + (firstLine c0 : Nat),
          ((lineCol (firstText cfg c0).1 o').2 : Int)⟩ := by
  have hrun : runChunks cfg .reader name cp st0 (c0 :: post) =
      post.foldl (readStep cfg name cp) (readerFirst cfg name cp st0 c0) := rfl
  rw [hrun, readerFirst_eq]
  have hg1 : Good { st0 with line := firstLine c0 } := ⟨hg.wf, hg.base⟩
  obtain ⟨g2, _, _, e, p2, f2⟩ := parseEvalPrint_spec cfg name cp { st0 with line := firstLine c0 }
    (firstText cfg c0).1 (firstText cfg c0).2 hg1
  obtain ⟨he, hfiles⟩ := f2 hr
  generalize parseEvalPrint cfg name cp { st0 with line := firstLine c0 } (firstText cfg c0).1 (firstText cfg c0).2 = s2 at *
  obtain ⟨g3, f3, p3, _, _⟩ := foldl_readStep_spec cfg name cp post s2 g2
  generalize post.foldl (readStep cfg name cp) s2 = st at *
  simp only at p2 hfiles he
  have hk : 0 < s2.parsed.length := by rw [p2, hp0]; simp
  have hpe : st.parsed[0]? = some (some ⟨st0.fs.files.length, (firstText cfg c0).2⟩) := by
    rw [prefix_getElem? p3 hk]
    congr 1
    simp only [p2, hp0, List.nil_append, List.getElem_cons_zero, he]
  have hidx : st0.fs.files.length < s2.fs.files.length := by rw [hfiles]; simp
  have hlt : st0.fs.files.length < st.fs.files.length := by
    have := List.IsPrefix.length_le f3; omega
  have hfe : st.fs.files[st0.fs.files.length]? =
      some (mkFile name st0.fs.base (firstLine c0) cp (firstText cfg c0).1) := by
    rw [prefix_getElem? f3 hidx]
    congr 1
    simp only [hfiles]
    rw [List.getElem_append_right (by omega)]
    simp
  have hfe' : st.fs.files[st0.fs.files.length]'hlt = mkFile name st0.fs.base (firstLine c0) cp (firstText cfg c0).1 := by
    rw [List.getElem?_eq_getElem hlt] at hfe
    exact Option.some.inj hfe
  have hbase := (mkFile_props name st0.fs.base (firstLine c0) cp (firstText cfg c0).1).2.1
  refine ⟨(st0.fs.base : Int) + o', ?_, ?_⟩
  · unfold posOf
    rw [hpe]
    have hnot : ¬ ((firstText cfg c0).2 + o' < (firstText cfg c0).2) := by omega
    simp only [hnot, if_false, hfe, hbase, Nat.add_sub_cancel_left]
  · exact parsed_position g3.wf hlt hfe' o' ho

end FileSet
