import Model.Chan
/-! Channel laws, generic facts about `Sys.run`, and the invariants of the program families. -/
namespace Chan

/-! ## channel laws -/

/-- history invariant of a channel: everything sent is either received or still buffered, in order;
    the buffer never exceeds the capacity -/
structure Ch.Wf (c : Ch) : Prop where
  hist : c.sent = c.rcvd ++ c.buf
  bound : c.buf.length ≤ c.cap

theorem wf_make (k : Nat) : (Ch.make k).Wf := ⟨by simp [Ch.make], by simp [Ch.make]⟩

theorem wf_apply {c : Ch} (h : c.Wf) (op : ChOp) : (c.apply op).Wf := by
  obtain ⟨hh, hb⟩ := h
  cases op with
  | send v =>
    unfold Ch.apply Ch.send
    by_cases hc : c.closed = true
    · simp only [hc, if_true]; exact ⟨hh, hb⟩
    · by_cases hr : c.buf.length < c.cap
      · simp only [hc, hr, if_true, if_false, Bool.false_eq_true]
        exact ⟨by simp [hh], by simp; omega⟩
      · simp only [hc, hr, if_false, Bool.false_eq_true]; exact ⟨hh, hb⟩
  | recv =>
    unfold Ch.apply Ch.recv
    cases hbuf : c.buf with
    | nil =>
      simp only
      by_cases hc : c.closed = true
      · simp only [hc, if_true]; exact ⟨hh, hb⟩
      · simp only [hc, if_false, Bool.false_eq_true]; exact ⟨hh, hb⟩
    | cons v rest =>
      simp only
      exact ⟨by simp [hh, hbuf], by simp [hbuf] at hb; simp; omega⟩
  | close =>
    unfold Ch.apply Ch.close
    by_cases hc : c.closed = true
    · simp only [hc, if_true]; exact ⟨hh, hb⟩
    · simp only [hc, if_false, Bool.false_eq_true]; exact ⟨hh, hb⟩
  | handoff v =>
    unfold Ch.apply Ch.handoff
    by_cases hc : (c.closed || !c.buf.isEmpty) = true
    · simp only [hc, if_true]; exact ⟨hh, hb⟩
    · simp only [hc, if_false, Bool.false_eq_true]
      have : c.buf = [] := by
        simp at hc; exact hc.2
      exact ⟨by simp [hh, this], hb⟩

theorem wf_applyAll {c : Ch} (h : c.Wf) (ops : List ChOp) : (c.applyAll ops).Wf := by
  induction ops generalizing c with
  | nil => exact h
  | cons o os ih => exact ih (wf_apply h o)

theorem closed_apply {c : Ch} (h : c.closed = true) (op : ChOp) : (c.apply op).closed = true := by
  cases op with
  | send v => simp [Ch.apply, Ch.send, h]
  | recv =>
    unfold Ch.apply Ch.recv
    cases c.buf <;> simp [h]
  | close => simp [Ch.apply, Ch.close, h]
  | handoff v => simp [Ch.apply, Ch.handoff, h]

theorem cap_apply (c : Ch) (op : ChOp) : (c.apply op).cap = c.cap := by
  cases op with
  | send v =>
    unfold Ch.apply Ch.send
    by_cases hc : c.closed = true
    · simp [hc]
    · by_cases hr : c.buf.length < c.cap <;> simp [hc, hr]
  | recv =>
    unfold Ch.apply Ch.recv
    cases c.buf with
    | nil => by_cases hc : c.closed = true <;> simp [hc]
    | cons v rest => simp
  | close =>
    unfold Ch.apply Ch.close
    by_cases hc : c.closed = true <;> simp [hc]
  | handoff v =>
    unfold Ch.apply Ch.handoff
    by_cases hc : (c.closed || !c.buf.isEmpty) = true
    · simp only [hc, if_true]
    · simp only [hc, if_false, Bool.false_eq_true]

/-! ## runs -/

theorem getD_mem {α : Type} {l : List α} {i : Nat} {d : α} (h : i < l.length) : l.getD i d ∈ l := by
  simp [List.getD, List.getElem?_eq_getElem h]

theorem Sys.inv_of_reach {σ α : Type} (S : Sys σ α) (P : σ → Prop) {s0 s : σ} (h0 : P s0)
    (hstep : ∀ s a, P s → a ∈ S.en s → P (S.step s a)) (h : S.Reach s0 s) : P s := by
  induction h with
  | refl => exact h0
  | step a _ ha ih => exact hstep _ a ih ha

theorem Sys.reach_trans_step {σ α : Type} (S : Sys σ α) {s0 s : σ} (h : S.Reach s0 s) (sched : Nat → Nat)
    (fuel i : Nat) : S.Reach s0 (S.run sched fuel i s) := by
  induction fuel generalizing s i with
  | zero => exact h
  | succ n ih =>
    simp only [Sys.run]
    split
    · exact h
    · rename_i a as hen
      apply ih
      apply Sys.Reach.step _ h
      rw [hen]
      have hl : sched i % (a :: as).length < (a :: as).length := Nat.mod_lt _ (by simp)
      exact getD_mem hl

/-- a measure that decreases at every enabled step bounds the length of every run -/
theorem Sys.run_stops {σ α : Type} (S : Sys σ α) (P : σ → Prop) (μ : σ → Nat)
    (hstep : ∀ s a, P s → a ∈ S.en s → P (S.step s a))
    (hdec : ∀ s a, P s → a ∈ S.en s → μ (S.step s a) < μ s)
    (sched : Nat → Nat) (fuel i : Nat) (s : σ) (hp : P s) (hf : μ s ≤ fuel) :
    S.en (S.run sched fuel i s) = [] := by
  induction fuel generalizing s i with
  | zero =>
    simp only [Sys.run]
    cases hen : S.en s with
    | nil => rfl
    | cons a as =>
      have := hdec s a hp (by rw [hen]; simp)
      omega
  | succ n ih =>
    simp only [Sys.run]
    split
    · assumption
    · rename_i a as hen
      have hl : sched i % (a :: as).length < (a :: as).length := Nat.mod_lt _ (by simp)
      have hm : (a :: as).getD (sched i % (a :: as).length) a ∈ S.en s := by
        rw [hen]; exact getD_mem hl
      apply ih
      · exact hstep _ _ hp hm
      · have := hdec _ _ hp hm; omega

/-! ## sums -/

theorem sumL_append (a b : List Int) : sumL (a ++ b) = sumL a + sumL b := by
  induction a with
  | nil => simp [sumL]
  | cons x xs ih => simp only [sumL, List.cons_append, List.foldr_cons] at *; omega

theorem sumL_cons (x : Int) (xs : List Int) : sumL (x :: xs) = x + sumL xs := by simp [sumL]

theorem sumLL_set {l : List (List Int)} {i : Nat} {v : Int} {rest : List Int}
    (h : l[i]? = some (v :: rest)) : sumLL (l.set i rest) + v = sumLL l := by
  induction l generalizing i with
  | nil => simp at h
  | cons x xs ih =>
    cases i with
    | zero =>
      simp at h; subst h
      simp only [List.set_cons_zero, sumLL, List.foldr_cons, sumL_cons]; omega
    | succ j =>
      simp at h
      have := ih h
      simp only [List.set_cons_succ, sumLL, List.foldr_cons] at *; omega

theorem lenLL_set {l : List (List Int)} {i : Nat} {v : Int} {rest : List Int}
    (h : l[i]? = some (v :: rest)) : lenLL (l.set i rest) + 1 = lenLL l := by
  induction l generalizing i with
  | nil => simp at h
  | cons x xs ih =>
    cases i with
    | zero =>
      simp at h; subst h
      simp only [List.set_cons_zero, lenLL, List.foldr_cons, List.length_cons]; omega
    | succ j =>
      simp at h
      have := ih h
      simp only [List.set_cons_succ, lenLL, List.foldr_cons] at *; omega

theorem sumLL_all_nil {l : List (List Int)} (h : ∀ i, i < l.length → l[i]? = some []) : sumLL l = 0 := by
  induction l with
  | nil => rfl
  | cons x xs ih =>
    have h0 := h 0 (by simp)
    simp at h0; subst h0
    have : ∀ i, i < xs.length → xs[i]? = some [] := fun i hi => by
      have := h (i + 1) (by simp; omega); simpa using this
    simp only [sumLL, List.foldr_cons] at *
    rw [ih this]; simp [sumL]

end Chan
