import Model.Chan
/-! Channel laws, generic facts about `Sys.run`, and the invariants of the program families. -/
namespace Chan

/-! ## channel laws -/

/-- history invariant of a channel: everything sent is either received or still buffered, in order;
    the buffer never exceeds the capacity -/
structure Ch.Wf (c : Ch) : Prop where
  hist : c.sent = c.rcvd ++ c.buf
  bound : c.buf.length ≤ c.cap

theorem wf_make (k : Nat) : (Ch.make k).Wf := ⟨by simp [Ch.make], by simp [Ch.make]⟩

theorem wf_apply {c : Ch} (h : c.Wf) (op : ChOp) : (c.apply op).Wf := by
  obtain ⟨hh, hb⟩ := h
  cases op with
  | send v =>
    unfold Ch.apply Ch.send
    by_cases hc : c.closed = true
    · simp only [hc, if_true]; exact ⟨hh, hb⟩
    · by_cases hr : c.buf.length < c.cap
      · simp only [hc, hr, if_true, if_false, Bool.false_eq_true]
        exact ⟨by simp [hh], by simp; omega⟩
      · simp only [hc, hr, if_false, Bool.false_eq_true]; exact ⟨hh, hb⟩
  | recv =>
    unfold Ch.apply Ch.recv
    cases hbuf : c.buf with
    | nil =>
      simp only
      by_cases hc : c.closed = true
      · simp only [hc, if_true]; exact ⟨hh, hb⟩
      · simp only [hc, if_false, Bool.false_eq_true]; exact ⟨hh, hb⟩
    | cons v rest =>
      simp only
      exact ⟨by simp [hh, hbuf], by simp [hbuf] at hb; simp; omega⟩
  | close =>
    unfold Ch.apply Ch.close
    by_cases hc : c.closed = true
    · simp only [hc, if_true]; exact ⟨hh, hb⟩
    · simp only [hc, if_false, Bool.false_eq_true]; exact ⟨hh, hb⟩
  | handoff v =>
    unfold Ch.apply Ch.handoff
    by_cases hc : (c.closed || !c.buf.isEmpty) = true
    · simp only [hc, if_true]; exact ⟨hh, hb⟩
    · simp only [hc, if_false, Bool.false_eq_true]
      have : c.buf = [] := by
        simp at hc; exact hc.2
      exact ⟨by simp [hh, this], hb⟩

theorem wf_applyAll {c : Ch} (h : c.Wf) (ops : List ChOp) : (c.applyAll ops).Wf := by
  induction ops generalizing c with
  | nil => exact h
  | cons o os ih => exact ih (wf_apply h o)

theorem closed_apply {c : Ch} (h : c.closed = true) (op : ChOp) : (c.apply op).closed = true := by
  cases op with
  | send v => simp [Ch.apply, Ch.send, h]
  | recv =>
    unfold Ch.apply Ch.recv
    cases c.buf <;> simp [h]
  | close => simp [Ch.apply, Ch.close, h]
  | handoff v => simp [Ch.apply, Ch.handoff, h]

theorem cap_apply (c : Ch) (op : ChOp) : (c.apply op).cap = c.cap := by
  cases op with
  | send v =>
    unfold Ch.apply Ch.send
    by_cases hc : c.closed = true
    · simp [hc]
    · by_cases hr : c.buf.length < c.cap <;> simp [hc, hr]
  | recv =>
    unfold Ch.apply Ch.recv
    cases c.buf with
    | nil => by_cases hc : c.closed = true <;> simp [hc]
    | cons v rest => simp
  | close =>
    unfold Ch.apply Ch.close
    by_cases hc : c.closed = true <;> simp [hc]
  | handoff v =>
    unfold Ch.apply Ch.handoff
    by_cases hc : (c.closed || !c.buf.isEmpty) = true
    · simp only [hc, if_true]
    · simp only [hc, if_false, Bool.false_eq_true]

/-! ## runs -/

theorem getD_mem {α : Type} {l : List α} {i : Nat} {d : α} (h : i < l.length) : l.getD i d ∈ l := by
  simp [List.getD, List.getElem?_eq_getElem h]

theorem Sys.inv_of_reach {σ α : Type} (S : Sys σ α) (P : σ → Prop) {s0 s : σ} (h0 : P s0)
    (hstep : ∀ s a, P s → a ∈ S.en s → P (S.step s a)) (h : S.Reach s0 s) : P s := by
  induction h with
  | refl => exact h0
  | step a _ ha ih => exact hstep _ a ih ha

theorem Sys.reach_trans_step {σ α : Type} (S : Sys σ α) {s0 s : σ} (h : S.Reach s0 s) (sched : Nat → Nat)
    (fuel i : Nat) : S.Reach s0 (S.run sched fuel i s) := by
  induction fuel generalizing s i with
  | zero => exact h
  | succ n ih =>
    simp only [Sys.run]
    split
    · exact h
    · rename_i a as hen
      apply ih
      apply Sys.Reach.step _ h
      rw [hen]
      have hl : sched i % (a :: as).length < (a :: as).length := Nat.mod_lt _ (by simp)
      exact getD_mem hl

/-- a measure that decreases at every enabled step bounds the length of every run -/
theorem Sys.run_stops {σ α : Type} (S : Sys σ α) (P : σ → Prop) (μ : σ → Nat)
    (hstep : ∀ s a, P s → a ∈ S.en s → P (S.step s a))
    (hdec : ∀ s a, P s → a ∈ S.en s → μ (S.step s a) < μ s)
    (sched : Nat → Nat) (fuel i : Nat) (s : σ) (hp : P s) (hf : μ s ≤ fuel) :
    S.en (S.run sched fuel i s) = [] := by
  induction fuel generalizing s i with
  | zero =>
    simp only [Sys.run]
    cases hen : S.en s with
    | nil => rfl
    | cons a as =>
      have := hdec s a hp (by rw [hen]; simp)
      omega
  | succ n ih =>
    simp only [Sys.run]
    split
    · assumption
    · rename_i a as hen
      have hl : sched i % (a :: as).length < (a :: as).length := Nat.mod_lt _ (by simp)
      have hm : (a :: as).getD (sched i % (a :: as).length) a ∈ S.en s := by
        rw [hen]; exact getD_mem hl
      apply ih
      · exact hstep _ _ hp hm
      · have := hdec _ _ hp hm; omega

/-! ## sums -/

theorem sumL_append (a b : List Int) : sumL (a ++ b) = sumL a + sumL b := by
  induction a with
  | nil => simp [sumL]
  | cons x xs ih => simp only [sumL, List.cons_append, List.foldr_cons] at *; omega

theorem sumL_cons (x : Int) (xs : List Int) : sumL (x :: xs) = x + sumL xs := by simp [sumL]

theorem sumLL_set {l : List (List Int)} {i : Nat} {v : Int} {rest : List Int}
    (h : l[i]? = some (v :: rest)) : sumLL (l.set i rest) + v = sumLL l := by
  induction l generalizing i with
  | nil => simp at h
  | cons x xs ih =>
    cases i with
    | zero =>
      simp at h; subst h
      simp only [List.set_cons_zero, sumLL, List.foldr_cons, sumL_cons]; omega
    | succ j =>
      simp at h
      have := ih h
      simp only [List.set_cons_succ, sumLL, List.foldr_cons] at *; omega

theorem lenLL_set {l : List (List Int)} {i : Nat} {v : Int} {rest : List Int}
    (h : l[i]? = some (v :: rest)) : lenLL (l.set i rest) + 1 = lenLL l := by
  induction l generalizing i with
  | nil => simp at h
  | cons x xs ih =>
    cases i with
    | zero =>
      simp at h; subst h
      simp only [List.set_cons_zero, lenLL, List.foldr_cons, List.length_cons]; omega
    | succ j =>
      simp at h
      have := ih h
      simp only [List.set_cons_succ, lenLL, List.foldr_cons] at *; omega

theorem sumLL_all_nil {l : List (List Int)} (h : ∀ i, i < l.length → l[i]? = some []) : sumLL l = 0 := by
  induction l with
  | nil => rfl
  | cons x xs ih =>
    have h0 := h 0 (by simp)
    simp at h0; subst h0
    have : ∀ i, i < xs.length → xs[i]? = some [] := fun i hi => by
      have := h (i + 1) (by simp; omega); simpa using this
    simp only [sumLL, List.foldr_cons] at *
    rw [ih this]; simp [sumL]

set_option linter.unusedSimpArgs false
set_option linter.unusedVariables false

/-! ## fan-in -/
namespace FanIn

structure Inv (total : Int) (s : St) : Prop where
  len : s.done.length = s.prods.length
  cons : s.acc + sumL s.ch.buf + sumLL s.prods = total
  doneEmpty : ∀ i : Nat, s.done[i]? = some true → s.prods[i]? = some []
  closedDone : s.ch.closed = true → ∀ i : Nat, i < s.done.length → s.done[i]? = some true
  noPanic : s.panicked = false
  finDrained : s.fin = true → s.ch.closed = true ∧ s.ch.buf = []
  hist : s.ch.sent = s.ch.rcvd ++ s.ch.buf

theorem inv_init (cap : Nat) (lists : List (List Int)) : Inv (sumLL lists) (init cap lists) := by
  constructor <;> simp [init, Ch.make, sumL]

theorem mem_en {s : St} {a : Act} (h : a ∈ sys.en s) : enB s a = true := by
  simp only [sys, List.mem_filter] at h; exact h.2

theorem inv_step {total : Int} {s : St} {a : Act} (hi : Inv total s) (ha : a ∈ sys.en s) : Inv total (sys.step s a) := by
  have he := mem_en ha
  obtain ⟨h1, h2, h3, h4, h5, h6, h7⟩ := hi
  cases a with
  | send i =>
    simp only [enB, Bool.and_eq_true] at he
    obtain ⟨hp, hroom⟩ := he
    simp only [sys, step]
    split at hp
    · rename_i v rest hpi
      have hnc : s.ch.closed = false := by
        cases hc : s.ch.closed with
        | false => rfl
        | true =>
          have hlt : i < s.done.length := by
            rw [h1]; exact (List.getElem?_eq_some_iff.mp hpi).1
          have := h3 i (h4 hc i hlt)
          rw [hpi] at this; cases this
      simp only [hnc, Bool.false_eq_true, if_false]
      have hs := sumLL_set hpi
      constructor
      · simp [h1]
      · have e1 : sumL (s.ch.buf ++ [v]) = sumL s.ch.buf + v := by rw [sumL_append]; simp [sumL]
        show s.acc + sumL (s.ch.buf ++ [v]) + sumLL (s.prods.set i rest) = total
        rw [e1]; omega
      · intro j hj
        simp only at hj
        have := h3 j hj
        by_cases hij : j = i
        · subst hij; rw [hpi] at this; cases this
        · rw [List.getElem?_set_ne (Ne.symm hij)]; exact this
      · intro hc; simp [Ch.push, hnc] at hc
      · exact h5
      · intro hf
        have := h6 hf
        rw [hnc] at this; cases this.1
      · simp [Ch.push, h7]
    · cases hp
  | fin i =>
    simp only [enB, Bool.and_eq_true] at he
    obtain ⟨hp, hd⟩ := he
    simp only [sys, step]
    constructor
    · simp [h1]
    · exact h2
    · intro j hj
      by_cases hij : j = i
      · subst hij
        split at hp
        · assumption
        · cases hp
      · simp only at hj; rw [List.getElem?_set_ne (Ne.symm hij)] at hj; exact h3 j hj
    · intro hc j hj
      simp only at hc hj ⊢
      simp only [List.length_set] at hj
      by_cases hij : j = i
      · subst hij; simp [List.getElem?_set_self hj]
      · rw [List.getElem?_set_ne (Ne.symm hij)]; exact h4 hc j hj
    · exact h5
    · exact h6
    · exact h7
  | close =>
    simp only [enB, Bool.and_eq_true, Bool.not_eq_true'] at he
    obtain ⟨hall, hnc⟩ := he
    simp only [sys, step, hnc, Bool.false_eq_true, if_false]
    constructor
    · exact h1
    · exact h2
    · exact h3
    · intro _ j hj
      simp only at hj ⊢
      have := List.all_eq_true.mp hall (s.done[j]) (List.getElem_mem hj)
      simp only [id] at this
      rw [List.getElem?_eq_getElem hj, this]
    · exact h5
    · intro hf; have := h6 hf; rw [hnc] at this; cases this.1
    · exact h7
  | recv =>
    simp only [enB, Bool.and_eq_true, Bool.not_eq_true'] at he
    obtain ⟨hnf, hne⟩ := he
    simp only [sys, step, Ch.recv]
    cases hb : s.ch.buf with
    | nil => simp [hb] at hne
    | cons v rest =>
      simp only
      constructor
      · exact h1
      · simp only; rw [hb, sumL_cons] at h2; omega
      · exact h3
      · exact h4
      · exact h5
      · intro hf; simp only at hf; rw [hnf] at hf; cases hf
      · simp [h7, hb]
  | stop =>
    simp only [enB, Bool.and_eq_true, Bool.not_eq_true'] at he
    obtain ⟨⟨hnf, hc⟩, hemp⟩ := he
    simp only [sys, step]
    constructor
    · exact h1
    · exact h2
    · exact h3
    · exact h4
    · exact h5
    · intro _; exact ⟨hc, by simpa using hemp⟩
    · exact h7

theorem fin_result {total : Int} {s : St} (hi : Inv total s) (hf : s.fin = true) :
    s.acc = total ∧ s.panicked = false := by
  obtain ⟨h1, h2, h3, h4, h5, h6, _⟩ := hi
  obtain ⟨hc, hb⟩ := h6 hf
  have hz : sumLL s.prods = 0 := by
    apply sumLL_all_nil
    intro i hi
    exact h3 i (h4 hc i (by rw [h1]; exact hi))
  rw [hb, hz] at h2
  simp [sumL] at h2
  exact ⟨h2, h5⟩

theorem mem_acts_send {s : St} {i : Nat} (h : i < s.prods.length) : Act.send i ∈ acts s := by
  simp [acts, h]
theorem mem_acts_fin {s : St} {i : Nat} (h : i < s.prods.length) : Act.fin i ∈ acts s := by
  simp [acts, h]

/-- deadlock freedom: a reachable state without enabled action has finished -/
theorem stuck_fin {total : Int} {s : St} (hi : Inv total s) (he : sys.en s = []) : s.fin = true := by
  obtain ⟨h1, _, _, _, _, _, _⟩ := hi
  have hall : ∀ a ∈ acts s, enB s a = false := by
    intro a ha
    cases hb : enB s a with
    | false => rfl
    | true =>
      have : a ∈ sys.en s := by simp only [sys, List.mem_filter]; exact ⟨ha, hb⟩
      rw [he] at this; cases this
  cases hf : s.fin with
  | true => rfl
  | false =>
    exfalso
    have hrecv := hall .recv (by simp [acts])
    simp only [enB, hf, Bool.not_false, Bool.true_and, Bool.not_eq_false'] at hrecv
    have hbuf : s.ch.buf = [] := by simpa using hrecv
    have hroom : s.ch.hasRoom = true := by
      simp only [Ch.hasRoom, Ch.effCap, hbuf, List.length_nil, decide_eq_true_eq]; omega
    have hprods : ∀ i, i < s.prods.length → s.prods[i]? = some [] := by
      intro i hi
      have := hall (.send i) (mem_acts_send hi)
      simp only [enB, hroom, Bool.and_true] at this
      rw [List.getElem?_eq_getElem hi] at this ⊢
      cases hl : s.prods[i] with
      | nil => rfl
      | cons v rest => rw [hl] at this; simp at this
    have hdone : ∀ i, i < s.done.length → s.done[i]? = some true := by
      intro i hi
      have hi' : i < s.prods.length := by rw [← h1]; exact hi
      have := hall (.fin i) (mem_acts_fin hi')
      simp only [enB, hprods i hi', Bool.true_and] at this
      rw [List.getElem?_eq_getElem hi] at this ⊢
      cases hd : s.done[i] with
      | true => rfl
      | false => rw [hd] at this; simp at this
    have hallDone : s.done.all id = true := by
      rw [List.all_eq_true]
      intro b hb
      obtain ⟨i, hi, rfl⟩ := List.getElem_of_mem hb
      have := hdone i hi
      rw [List.getElem?_eq_getElem hi] at this
      simpa using this
    have hclose := hall .close (by simp [acts])
    simp only [enB, hallDone, Bool.true_and, Bool.not_eq_false'] at hclose
    have hstop := hall .stop (by simp [acts])
    simp [enB, hf, hclose, hbuf] at hstop

def countFalse (l : List Bool) : Nat := (l.filter (fun b => !b)).length

theorem countFalse_set {l : List Bool} {i : Nat} (h : l[i]? = some false) :
    countFalse (l.set i true) + 1 = countFalse l := by
  induction l generalizing i with
  | nil => simp at h
  | cons x xs ih =>
    cases i with
    | zero => simp at h; subst h; simp [countFalse]
    | succ j =>
      simp at h
      have := ih h
      cases x <;> simp [countFalse] at * <;> omega

/-- termination measure -/
def mu (s : St) : Nat :=
  2 * lenLL s.prods + countFalse s.done + (!s.ch.closed).toNat + s.ch.buf.length + (!s.fin).toNat

theorem mu_dec {total : Int} {s : St} {a : Act} (hi : Inv total s) (ha : a ∈ sys.en s) : mu (sys.step s a) < mu s := by
  have he := mem_en ha
  obtain ⟨h1, h2, h3, h4, h5, h6, h7⟩ := hi
  cases a with
  | send i =>
    simp only [enB, Bool.and_eq_true] at he
    obtain ⟨hp, hroom⟩ := he
    simp only [sys, step]
    split at hp
    · rename_i v rest hpi
      have hnc : s.ch.closed = false := by
        cases hc : s.ch.closed with
        | false => rfl
        | true =>
          have hlt : i < s.done.length := by
            rw [h1]; exact (List.getElem?_eq_some_iff.mp hpi).1
          have := h3 i (h4 hc i hlt)
          rw [hpi] at this; cases this
      simp only [hnc, Bool.false_eq_true, if_false]
      have := lenLL_set hpi
      simp only [mu, Ch.push, List.length_append, List.length_singleton, hnc]
      omega
    · cases hp
  | fin i =>
    simp only [enB, Bool.and_eq_true, beq_iff_eq] at he
    have := countFalse_set he.2
    simp only [sys, step, mu]; omega
  | close =>
    simp only [enB, Bool.and_eq_true, Bool.not_eq_true'] at he
    simp only [sys, step, he.2, Bool.false_eq_true, if_false, mu]; simp
  | recv =>
    simp only [enB, Bool.and_eq_true, Bool.not_eq_true'] at he
    simp only [sys, step, Ch.recv]
    cases hb : s.ch.buf with
    | nil => simp [hb] at he
    | cons v rest => simp only [mu, hb, List.length_cons]; omega
  | stop =>
    simp only [enB, Bool.and_eq_true, Bool.not_eq_true'] at he
    simp only [sys, step, mu, he.1.1]; simp

theorem mu_init (cap : Nat) (lists : List (List Int)) : mu (init cap lists) ≤ 2 * lenLL lists + lists.length + 2 := by
  have : countFalse (lists.map (fun _ => false)) ≤ lists.length := by
    simp only [countFalse]
    exact Nat.le_trans (List.length_filter_le _ _) (by simp)
  simp only [mu, init, Ch.make, List.length_nil]; simp; omega

end FanIn

/-! ## select over two channels -/
namespace Merge

structure Inv (total : Int) (s : St) : Prop where
  cons : s.acc + sumL s.a.buf + sumL s.b.buf + sumL s.la + sumL s.lb = total
  aClosed : s.a.closed = true → s.la = []
  bClosed : s.b.closed = true → s.lb = []
  nilA : s.nilA = true → s.a.closed = true ∧ s.a.buf = []
  nilB : s.nilB = true → s.b.closed = true ∧ s.b.buf = []
  fin : s.fin = true → s.nilA = true ∧ s.nilB = true
  noPanic : s.panicked = false

theorem inv_init (d : Bool) (ka kb : Nat) (la lb : List Int) : Inv (sumL la + sumL lb) (init d ka kb la lb) := by
  constructor <;> simp [init, Ch.make, sumL]

theorem mem_en {s : St} {a : Act} (h : a ∈ sys.en s) : enB s a = true := by
  simp only [sys, List.mem_filter] at h; exact h.2

theorem sumL_snoc (l : List Int) (v : Int) : sumL (l ++ [v]) = sumL l + v := by
  rw [sumL_append]; simp [sumL]

theorem inv_step {total : Int} {s : St} {a : Act} (hi : Inv total s) (ha : a ∈ sys.en s) : Inv total (sys.step s a) := by
  have he := mem_en ha
  obtain ⟨h1, h2, h3, h4, h5, h6, h7⟩ := hi
  cases a with
  | sendA =>
    simp only [enB, Bool.and_eq_true, Bool.not_eq_true'] at he
    simp only [sys, step]
    cases hl : s.la with
    | nil => simp [hl] at he
    | cons v rest =>
      have hnc : s.a.closed = false := by
        cases hc : s.a.closed with
        | false => rfl
        | true => have := h2 hc; rw [hl] at this; cases this
      simp only [hnc, Bool.false_eq_true, if_false]
      rw [hl, sumL_cons] at h1
      constructor
      · show s.acc + sumL (s.a.buf ++ [v]) + sumL s.b.buf + sumL rest + sumL s.lb = total
        rw [sumL_snoc]; omega
      · intro hc; simp [Ch.push, hnc] at hc
      · exact h3
      · intro hn; have := h4 hn; rw [hnc] at this; cases this.1
      · exact h5
      · exact h6
      · exact h7
  | closeA =>
    simp only [enB, Bool.and_eq_true, Bool.not_eq_true'] at he
    simp only [sys, step, he.2, Bool.false_eq_true, if_false]
    constructor
    · exact h1
    · intro _; simpa using he.1
    · exact h3
    · intro hn; have := h4 hn; rw [he.2] at this; cases this.1
    · exact h5
    · exact h6
    · exact h7
  | sendB =>
    simp only [enB, Bool.and_eq_true, Bool.not_eq_true'] at he
    simp only [sys, step]
    cases hl : s.lb with
    | nil => simp [hl] at he
    | cons v rest =>
      have hnc : s.b.closed = false := by
        cases hc : s.b.closed with
        | false => rfl
        | true => have := h3 hc; rw [hl] at this; cases this
      simp only [hnc, Bool.false_eq_true, if_false]
      rw [hl, sumL_cons] at h1
      constructor
      · show s.acc + sumL s.a.buf + sumL (s.b.buf ++ [v]) + sumL s.la + sumL rest = total
        rw [sumL_snoc]; omega
      · exact h2
      · intro hc; simp [Ch.push, hnc] at hc
      · exact h4
      · intro hn; have := h5 hn; rw [hnc] at this; cases this.1
      · exact h6
      · exact h7
  | closeB =>
    simp only [enB, Bool.and_eq_true, Bool.not_eq_true'] at he
    simp only [sys, step, he.2, Bool.false_eq_true, if_false]
    constructor
    · exact h1
    · exact h2
    · intro _; simpa using he.1
    · exact h4
    · intro hn; have := h5 hn; rw [he.2] at this; cases this.1
    · exact h6
    · exact h7
  | selA =>
    simp only [enB, looping, readyA, Bool.and_eq_true, Bool.not_eq_true', Bool.or_eq_true] at he
    obtain ⟨⟨hnf, _⟩, hna, hr⟩ := he
    simp only [sys, step, Ch.recv]
    cases hb : s.a.buf with
    | nil =>
      have hc : s.a.closed = true := by
        rcases hr with hr | hr
        · simp [hb] at hr
        · exact hr
      simp only [hc, if_true]
      constructor
      · exact h1
      · exact h2
      · exact h3
      · intro _; exact ⟨hc, hb⟩
      · exact h5
      · intro hf; simp only at hf; rw [hnf] at hf; cases hf
      · exact h7
    | cons v rest =>
      simp only
      rw [hb, sumL_cons] at h1
      constructor
      · simp only; omega
      · exact h2
      · exact h3
      · intro hn; simp only at hn; rw [hna] at hn; cases hn
      · exact h5
      · intro hf; simp only at hf; rw [hnf] at hf; cases hf
      · exact h7
  | selB =>
    simp only [enB, looping, readyB, Bool.and_eq_true, Bool.not_eq_true', Bool.or_eq_true] at he
    obtain ⟨⟨hnf, _⟩, hnb, hr⟩ := he
    simp only [sys, step, Ch.recv]
    cases hb : s.b.buf with
    | nil =>
      have hc : s.b.closed = true := by
        rcases hr with hr | hr
        · simp [hb] at hr
        · exact hr
      simp only [hc, if_true]
      constructor
      · exact h1
      · exact h2
      · exact h3
      · exact h4
      · intro _; exact ⟨hc, hb⟩
      · intro hf; simp only at hf; rw [hnf] at hf; cases hf
      · exact h7
    | cons v rest =>
      simp only
      rw [hb, sumL_cons] at h1
      constructor
      · simp only; omega
      · exact h2
      · exact h3
      · exact h4
      · intro hn; simp only at hn; rw [hnb] at hn; cases hn
      · intro hf; simp only at hf; rw [hnf] at hf; cases hf
      · exact h7
  | selDefault =>
    simp only [sys, step]
    exact ⟨h1, h2, h3, h4, h5, h6, h7⟩
  | stop =>
    simp only [enB, Bool.and_eq_true, Bool.not_eq_true'] at he
    simp only [sys, step]
    exact ⟨h1, h2, h3, h4, h5, fun _ => ⟨he.1.2, he.2⟩, h7⟩

theorem fin_result {total : Int} {s : St} (hi : Inv total s) (hf : s.fin = true) :
    s.acc = total ∧ s.panicked = false := by
  obtain ⟨h1, h2, h3, h4, h5, h6, h7⟩ := hi
  obtain ⟨na, nb⟩ := h6 hf
  obtain ⟨ca, ba⟩ := h4 na
  obtain ⟨cb, bb⟩ := h5 nb
  rw [ba, bb, h2 ca, h3 cb] at h1
  simp [sumL] at h1
  exact ⟨h1, h7⟩

/-- deadlock freedom -/
theorem stuck_fin {total : Int} {s : St} (hi : Inv total s) (he : sys.en s = []) : s.fin = true := by
  have hall : ∀ a ∈ acts, enB s a = false := by
    intro a ha
    cases hb : enB s a with
    | false => rfl
    | true =>
      have : a ∈ sys.en s := by simp only [sys, List.mem_filter]; exact ⟨ha, hb⟩
      rw [he] at this; cases this
  cases hf : s.fin with
  | true => rfl
  | false =>
    exfalso
    have e1 := hall .sendA (by simp [acts])
    have e2 := hall .closeA (by simp [acts])
    have e3 := hall .sendB (by simp [acts])
    have e4 := hall .closeB (by simp [acts])
    have e5 := hall .selA (by simp [acts])
    have e6 := hall .selB (by simp [acts])
    have e8 := hall .stop (by simp [acts])
    simp only [enB, looping, readyA, readyB, Ch.hasRoom, Ch.effCap, hf] at e1 e2 e3 e4 e5 e6 e8
    cases hna : s.nilA <;> cases hnb : s.nilB <;> cases hca : s.a.closed <;> cases hcb : s.b.closed <;>
      cases hba : s.a.buf <;> cases hbb : s.b.buf <;> cases hla : s.la <;> cases hlb : s.lb <;>
      simp_all <;> omega

def mu (s : St) : Nat :=
  2 * (s.la.length + s.lb.length) + (!s.a.closed).toNat + (!s.b.closed).toNat + s.a.buf.length + s.b.buf.length
    + (!s.nilA).toNat + (!s.nilB).toNat + (!s.fin).toNat

theorem step_withDefault (s : St) (a : Act) : (sys.step s a).withDefault = s.withDefault := by
  cases a <;> simp only [sys, step]
  · cases s.la <;> simp <;> split <;> rfl
  · split <;> rfl
  · cases s.lb <;> simp <;> split <;> rfl
  · split <;> rfl
  · cases s.a.recv <;> rfl
  · cases s.b.recv <;> rfl

theorem mu_dec {total : Int} {s : St} {a : Act} (hi : Inv total s) (hd : s.withDefault = false)
    (ha : a ∈ sys.en s) : mu (sys.step s a) < mu s := by
  have he := mem_en ha
  obtain ⟨h1, h2, h3, h4, h5, h6, h7⟩ := hi
  cases a with
  | sendA =>
    simp only [enB, Bool.and_eq_true, Bool.not_eq_true'] at he
    simp only [sys, step]
    cases hl : s.la with
    | nil => simp [hl] at he
    | cons v rest =>
      have hnc : s.a.closed = false := by
        cases hc : s.a.closed with
        | false => rfl
        | true => have := h2 hc; rw [hl] at this; cases this
      simp only [hnc, Bool.false_eq_true, if_false, mu, Ch.push, hl, List.length_cons, List.length_append, List.length_nil]
      omega
  | closeA =>
    simp only [enB, Bool.and_eq_true, Bool.not_eq_true'] at he
    simp only [sys, step, he.2, Bool.false_eq_true, if_false, mu]; simp
  | sendB =>
    simp only [enB, Bool.and_eq_true, Bool.not_eq_true'] at he
    simp only [sys, step]
    cases hl : s.lb with
    | nil => simp [hl] at he
    | cons v rest =>
      have hnc : s.b.closed = false := by
        cases hc : s.b.closed with
        | false => rfl
        | true => have := h3 hc; rw [hl] at this; cases this
      simp only [hnc, Bool.false_eq_true, if_false, mu, Ch.push, hl, List.length_cons, List.length_append, List.length_nil]
      omega
  | closeB =>
    simp only [enB, Bool.and_eq_true, Bool.not_eq_true'] at he
    simp only [sys, step, he.2, Bool.false_eq_true, if_false, mu]; simp
  | selA =>
    simp only [enB, looping, readyA, Bool.and_eq_true, Bool.not_eq_true', Bool.or_eq_true] at he
    obtain ⟨_, hna, hr⟩ := he
    simp only [sys, step, Ch.recv]
    cases hb : s.a.buf with
    | nil =>
      have hc : s.a.closed = true := by
        rcases hr with hr | hr
        · simp [hb] at hr
        · exact hr
      simp only [hc, if_true, mu, hna]; simp
    | cons v rest => simp only [mu, hb, List.length_cons]; omega
  | selB =>
    simp only [enB, looping, readyB, Bool.and_eq_true, Bool.not_eq_true', Bool.or_eq_true] at he
    obtain ⟨_, hnb, hr⟩ := he
    simp only [sys, step, Ch.recv]
    cases hb : s.b.buf with
    | nil =>
      have hc : s.b.closed = true := by
        rcases hr with hr | hr
        · simp [hb] at hr
        · exact hr
      simp only [hc, if_true, mu, hnb]; simp
    | cons v rest => simp only [mu, hb, List.length_cons]; omega
  | selDefault =>
    simp only [enB, hd, Bool.false_and] at he; cases he
  | stop =>
    simp only [enB, Bool.and_eq_true, Bool.not_eq_true'] at he
    simp only [sys, step, mu, he.1.1]; simp

theorem mu_init (d : Bool) (ka kb : Nat) (la lb : List Int) :
    mu (init d ka kb la lb) = 2 * (la.length + lb.length) + 5 := by
  simp [mu, init, Ch.make]

end Merge

/-! ## two-stage pipeline -/
namespace Pipe2


/-- everything between the source and the sink, oldest first, as it will reach the sink -/
def stream (s : St) : List Int :=
  s.out ++ s.c2.buf ++ s.h2.toList ++ s.c1.buf.map s.g.app ++ s.h1.toList.map s.g.app
    ++ s.c0.buf.map (fun v => s.g.app (s.f.app v)) ++ s.src.map (fun v => s.g.app (s.f.app v))

structure Inv (f g : Fn) (vals : List Int) (s : St) : Prop where
  fg : s.f = f ∧ s.g = g
  stream : stream s = vals.map (fun v => g.app (f.app v))
  c0closed : s.c0.closed = true → s.src = []
  c1closed : s.c1.closed = true → s.c0.closed = true ∧ s.c0.buf = [] ∧ s.h1 = none
  c2closed : s.c2.closed = true → s.c1.closed = true ∧ s.c1.buf = [] ∧ s.h2 = none
  fin : s.fin = true → s.c2.closed = true ∧ s.c2.buf = []
  noPanic : s.panicked = false

theorem inv_init (f g : Fn) (k0 k1 k2 : Nat) (vals : List Int) : Inv f g vals (init f g k0 k1 k2 vals) := by
  constructor <;> simp [init, Ch.make, stream]

theorem mem_en {s : St} {a : Act} (h : a ∈ sys.en s) : enB s a = true := by
  simp only [sys, List.mem_filter] at h; exact h.2

theorem inv_step {f g : Fn} {vals : List Int} {s : St} {a : Act} (hi : Inv f g vals s) (ha : a ∈ sys.en s) :
    Inv f g vals (sys.step s a) := by
  have he := mem_en ha
  obtain ⟨h0, h1, h2, h3, h4, h5, h6⟩ := hi
  cases a with
  | srcSend =>
    simp only [enB, Bool.and_eq_true, Bool.not_eq_true'] at he
    simp only [sys, step]
    cases hl : s.src with
    | nil => simp [hl] at he
    | cons v rest =>
      have hnc : s.c0.closed = false := by
        cases hc : s.c0.closed with
        | false => rfl
        | true => have := h2 hc; rw [hl] at this; cases this
      simp only [sendOn, hnc, Bool.false_eq_true, if_false]
      constructor
      · exact h0
      · rw [← h1]; simp [stream, Ch.push, hl]
      · intro hc; simp [Ch.push, hnc] at hc
      · intro hc; have := h3 hc; rw [hnc] at this; cases this.1
      · exact h4
      · exact h5
      · simp [h6]
  | srcClose =>
    simp only [enB, Bool.and_eq_true, Bool.not_eq_true'] at he
    simp only [sys, step, he.2, Bool.false_eq_true, if_false]
    constructor
    · exact h0
    · rw [← h1]; simp [stream]
    · intro _; simpa using he.1
    · intro hc; have := h3 hc; rw [he.2] at this; cases this.1
    · exact h4
    · exact h5
    · exact h6
  | s1Recv =>
    simp only [enB, Bool.and_eq_true, Bool.not_eq_true'] at he
    simp only [sys, step, Ch.recv]
    cases hb : s.c0.buf with
    | nil => simp [hb] at he
    | cons v rest =>
      simp only
      have hh : s.h1 = none := by simpa using he.1
      constructor
      · exact h0
      · rw [← h1]; simp [stream, hb, hh]
      · exact h2
      · intro hc; have := h3 hc; rw [hb] at this; cases this.2.1
      · exact h4
      · exact h5
      · exact h6
  | s1Send =>
    simp only [enB, Bool.and_eq_true] at he
    simp only [sys, step]
    cases hh : s.h1 with
    | none => simp [hh] at he
    | some v =>
      have hnc : s.c1.closed = false := by
        cases hc : s.c1.closed with
        | false => rfl
        | true => have := h3 hc; rw [hh] at this; cases this.2.2
      simp only [sendOn, hnc, Bool.false_eq_true, if_false]
      constructor
      · exact h0
      · rw [← h1]; simp [stream, Ch.push, hh]
      · exact h2
      · intro hc; simp [Ch.push, hnc] at hc
      · intro hc; have := h4 hc; rw [hnc] at this; cases this.1
      · exact h5
      · simp [h6]
  | s1Close =>
    simp only [enB, Bool.and_eq_true, Bool.not_eq_true'] at he
    obtain ⟨⟨⟨hh, hc0⟩, hb0⟩, hnc⟩ := he
    simp only [sys, step, hnc, Bool.false_eq_true, if_false]
    constructor
    · exact h0
    · rw [← h1]; simp [stream]
    · exact h2
    · intro _; exact ⟨hc0, by simpa using hb0, by simpa using hh⟩
    · intro hc; have := h4 hc; rw [hnc] at this; cases this.1
    · exact h5
    · exact h6
  | s2Recv =>
    simp only [enB, Bool.and_eq_true, Bool.not_eq_true'] at he
    simp only [sys, step, Ch.recv]
    cases hb : s.c1.buf with
    | nil => simp [hb] at he
    | cons v rest =>
      simp only
      have hh : s.h2 = none := by simpa using he.1
      constructor
      · exact h0
      · rw [← h1]; simp [stream, hb, hh]
      · exact h2
      · exact h3
      · intro hc; have := h4 hc; rw [hb] at this; cases this.2.1
      · exact h5
      · exact h6
  | s2Send =>
    simp only [enB, Bool.and_eq_true] at he
    simp only [sys, step]
    cases hh : s.h2 with
    | none => simp [hh] at he
    | some v =>
      have hnc : s.c2.closed = false := by
        cases hc : s.c2.closed with
        | false => rfl
        | true => have := h4 hc; rw [hh] at this; cases this.2.2
      simp only [sendOn, hnc, Bool.false_eq_true, if_false]
      constructor
      · exact h0
      · rw [← h1]; simp [stream, Ch.push, hh]
      · exact h2
      · exact h3
      · intro hc; simp [Ch.push, hnc] at hc
      · intro hf; have := h5 hf; rw [hnc] at this; cases this.1
      · simp [h6]
  | s2Close =>
    simp only [enB, Bool.and_eq_true, Bool.not_eq_true'] at he
    obtain ⟨⟨⟨hh, hc1⟩, hb1⟩, hnc⟩ := he
    simp only [sys, step, hnc, Bool.false_eq_true, if_false]
    constructor
    · exact h0
    · rw [← h1]; simp [stream]
    · exact h2
    · exact h3
    · intro _; exact ⟨hc1, by simpa using hb1, by simpa using hh⟩
    · intro hf; have := h5 hf; rw [hnc] at this; cases this.1
    · exact h6
  | sinkRecv =>
    simp only [enB, Bool.and_eq_true, Bool.not_eq_true'] at he
    simp only [sys, step, Ch.recv]
    cases hb : s.c2.buf with
    | nil => simp [hb] at he
    | cons v rest =>
      simp only
      constructor
      · exact h0
      · rw [← h1]; simp [stream, hb]
      · exact h2
      · exact h3
      · exact h4
      · intro hf; simp only at hf; rw [he.1] at hf; cases hf
      · exact h6
  | sinkStop =>
    simp only [enB, Bool.and_eq_true, Bool.not_eq_true'] at he
    simp only [sys, step]
    constructor
    · exact h0
    · rw [← h1]; simp [stream]
    · exact h2
    · exact h3
    · exact h4
    · intro _; exact ⟨he.1.2, by simpa using he.2⟩
    · exact h6

theorem fin_result {f g : Fn} {vals : List Int} {s : St} (hi : Inv f g vals s) (hf : s.fin = true) :
    s.out = vals.map (fun v => g.app (f.app v)) ∧ s.panicked = false := by
  obtain ⟨h0, h1, h2, h3, h4, h5, h6⟩ := hi
  obtain ⟨c2c, c2b⟩ := h5 hf
  obtain ⟨c1c, c1b, hh2⟩ := h4 c2c
  obtain ⟨c0c, c0b, hh1⟩ := h3 c1c
  have hs := h2 c0c
  rw [← h1]
  simp [stream, c2b, c1b, c0b, hh1, hh2, hs, h6]

theorem stuck_fin {f g : Fn} {vals : List Int} {s : St} (hi : Inv f g vals s) (he : sys.en s = []) : s.fin = true := by
  have hall : ∀ a ∈ acts, enB s a = false := by
    intro a ha
    cases hb : enB s a with
    | false => rfl
    | true =>
      have : a ∈ sys.en s := by simp only [sys, List.mem_filter]; exact ⟨ha, hb⟩
      rw [he] at this; cases this
  cases hf : s.fin with
  | true => rfl
  | false =>
    exfalso
    have e1 := hall .srcSend (by simp [acts])
    have e2 := hall .srcClose (by simp [acts])
    have e3 := hall .s1Recv (by simp [acts])
    have e4 := hall .s1Send (by simp [acts])
    have e5 := hall .s1Close (by simp [acts])
    have e6 := hall .s2Recv (by simp [acts])
    have e7 := hall .s2Send (by simp [acts])
    have e8 := hall .s2Close (by simp [acts])
    have e9 := hall .sinkRecv (by simp [acts])
    have e10 := hall .sinkStop (by simp [acts])
    simp only [enB, Ch.hasRoom, Ch.effCap, hf] at e1 e2 e3 e4 e5 e6 e7 e8 e9 e10
    -- sink side first: c2 must be empty, so stage 2 can always send, so h2 = none, ...
    have b2 : s.c2.buf = [] := by simpa using e9
    have hh2 : s.h2 = none := by
      cases h : s.h2 with
      | none => rfl
      | some v => simp [h, b2] at e7
    have b1 : s.c1.buf = [] := by simpa [hh2] using e6
    have hh1 : s.h1 = none := by
      cases h : s.h1 with
      | none => rfl
      | some v => simp [h, b1] at e4
    have b0 : s.c0.buf = [] := by simpa [hh1] using e3
    have hsrc : s.src = [] := by
      cases h : s.src with
      | nil => rfl
      | cons v r => simp [h, b0] at e1
    have c0 : s.c0.closed = true := by simpa [hsrc] using e2
    have c1 : s.c1.closed = true := by simpa [hh1, c0, b0] using e5
    have c2 : s.c2.closed = true := by simpa [hh2, c1, b1] using e8
    simp [c2, b2] at e10

def mu (s : St) : Nat :=
  6 * s.src.length + 5 * s.c0.buf.length + 4 * s.h1.toList.length + 3 * s.c1.buf.length + 2 * s.h2.toList.length
    + s.c2.buf.length + (!s.c0.closed).toNat + (!s.c1.closed).toNat + (!s.c2.closed).toNat + (!s.fin).toNat

theorem mu_dec {f g : Fn} {vals : List Int} {s : St} {a : Act} (hi : Inv f g vals s) (ha : a ∈ sys.en s) :
    mu (sys.step s a) < mu s := by
  have he := mem_en ha
  obtain ⟨h0, h1, h2, h3, h4, h5, h6⟩ := hi
  cases a with
  | srcSend =>
    simp only [enB, Bool.and_eq_true, Bool.not_eq_true'] at he
    cases hl : s.src with
    | nil => simp [hl] at he
    | cons v rest =>
      have hnc : s.c0.closed = false := by
        cases hc : s.c0.closed with
        | false => rfl
        | true => have := h2 hc; rw [hl] at this; cases this
      simp [sys, step, sendOn, hnc, mu, Ch.push, hl]; omega
  | srcClose =>
    simp only [enB, Bool.and_eq_true, Bool.not_eq_true'] at he
    simp [sys, step, he.2, mu]
  | s1Recv =>
    simp only [enB, Bool.and_eq_true, Bool.not_eq_true'] at he
    cases hb : s.c0.buf with
    | nil => simp [hb] at he
    | cons v rest =>
      have hh : s.h1 = none := by simpa using he.1
      simp [sys, step, Ch.recv, mu, hh, hb]; omega
  | s1Send =>
    simp only [enB, Bool.and_eq_true] at he
    cases hh : s.h1 with
    | none => simp [hh] at he
    | some v =>
      have hnc : s.c1.closed = false := by
        cases hc : s.c1.closed with
        | false => rfl
        | true => have := h3 hc; rw [hh] at this; cases this.2.2
      simp [sys, step, sendOn, hnc, mu, Ch.push, hh]; omega
  | s1Close =>
    simp only [enB, Bool.and_eq_true, Bool.not_eq_true'] at he
    simp [sys, step, he.2, mu]
  | s2Recv =>
    simp only [enB, Bool.and_eq_true, Bool.not_eq_true'] at he
    cases hb : s.c1.buf with
    | nil => simp [hb] at he
    | cons v rest =>
      have hh : s.h2 = none := by simpa using he.1
      simp [sys, step, Ch.recv, mu, hh, hb]; omega
  | s2Send =>
    simp only [enB, Bool.and_eq_true] at he
    cases hh : s.h2 with
    | none => simp [hh] at he
    | some v =>
      have hnc : s.c2.closed = false := by
        cases hc : s.c2.closed with
        | false => rfl
        | true => have := h4 hc; rw [hh] at this; cases this.2.2
      simp [sys, step, sendOn, hnc, mu, Ch.push, hh]; omega
  | s2Close =>
    simp only [enB, Bool.and_eq_true, Bool.not_eq_true'] at he
    simp [sys, step, he.2, mu]
  | sinkRecv =>
    simp only [enB, Bool.and_eq_true, Bool.not_eq_true'] at he
    cases hb : s.c2.buf with
    | nil => simp [hb] at he
    | cons v rest => simp [sys, step, Ch.recv, mu, hb]
  | sinkStop =>
    simp only [enB, Bool.and_eq_true, Bool.not_eq_true'] at he
    simp [sys, step, mu, he.1.1]

theorem mu_init (f g : Fn) (k0 k1 k2 : Nat) (vals : List Int) : mu (init f g k0 k1 k2 vals) = 6 * vals.length + 4 := by
  simp [mu, init, Ch.make]

end Pipe2

/-! ## mutex-protected counter -/
namespace Mutex

def sumByI (f : W → Int) (l : List W) : Int := l.foldr (fun w acc => f w + acc) 0
def sumByN (f : W → Nat) (l : List W) : Nat := l.foldr (fun w acc => f w + acc) 0

theorem sumByI_set {f : W → Int} {l : List W} {i : Nat} {w w' : W} (h : l[i]? = some w) :
    sumByI f (l.set i w') + f w = sumByI f l + f w' := by
  induction l generalizing i with
  | nil => simp at h
  | cons x xs ih =>
    cases i with
    | zero => simp at h; subst h; simp only [List.set_cons_zero, sumByI, List.foldr_cons]; omega
    | succ j =>
      simp at h
      have := ih h
      simp only [List.set_cons_succ, sumByI, List.foldr_cons] at *; omega

theorem sumByN_set {f : W → Nat} {l : List W} {i : Nat} {w w' : W} (h : l[i]? = some w) :
    sumByN f (l.set i w') + f w = sumByN f l + f w' := by
  induction l generalizing i with
  | nil => simp at h
  | cons x xs ih =>
    cases i with
    | zero => simp at h; subst h; simp only [List.set_cons_zero, sumByN, List.foldr_cons]; omega
    | succ j =>
      simp at h
      have := ih h
      simp only [List.set_cons_succ, sumByN, List.foldr_cons] at *; omega

theorem sumByI_zero {f : W → Int} {l : List W} (h : ∀ w ∈ l, f w = 0) : sumByI f l = 0 := by
  induction l with
  | nil => rfl
  | cons x xs ih =>
    simp only [sumByI, List.foldr_cons] at *
    rw [h x (by simp), ih (fun w hw => h w (by simp [hw]))]; rfl

def dsum (w : W) : Int := sumL w.ds

structure Inv (total : Int) (s : St) : Prop where
  hm : s.useMutex = true
  cons : s.cnt + sumByI dsum s.ws = total
  excl : ∀ (i : Nat) (w : W), s.ws[i]? = some w → w.pc ≠ .idle → s.holder = some i
  hold : ∀ (i : Nat), s.holder = some i → ∃ w, s.ws[i]? = some w ∧ w.pc ≠ .idle
  readv : ∀ (i : Nat) (w : W) (t : Int), s.ws[i]? = some w → w.pc = .read t → t = s.cnt
  nonempty : ∀ (i : Nat) (w : W), s.ws[i]? = some w → (w.pc = .locked ∨ ∃ t, w.pc = .read t) → w.ds ≠ []

theorem sumByI_init (lists : List (List Int)) :
    sumByI dsum (lists.map (fun l => ({ ds := l, pc := .idle } : W))) = sumLL lists := by
  induction lists with
  | nil => rfl
  | cons x xs ih => simp only [List.map_cons, sumByI, List.foldr_cons, sumLL, dsum] at *; rw [ih]

theorem inv_init (lists : List (List Int)) : Inv (sumLL lists) (init true lists) := by
  constructor
  · rfl
  · simp [init, sumByI_init]
  · intro i w hw hpc
    simp only [init, List.getElem?_map] at hw
    cases h : lists[i]? with
    | none => simp [h] at hw
    | some l => simp [h] at hw; subst hw; simp at hpc
  · intro i h; simp [init] at h
  · intro i w t hw hpc
    simp only [init, List.getElem?_map] at hw
    cases h : lists[i]? with
    | none => simp [h] at hw
    | some l => simp [h] at hw; subst hw; simp at hpc
  · intro i w hw hpc
    simp only [init, List.getElem?_map] at hw
    cases h : lists[i]? with
    | none => simp [h] at hw
    | some l => simp [h] at hw; subst hw; simp at hpc

theorem mem_en {s : St} {a : Act} (h : a ∈ sys.en s) : enB s a = true := by
  simp only [sys, List.mem_filter] at h; exact h.2

theorem getElem?_set' {l : List W} {i j : Nat} {w w' : W} (h : (l.set i w')[j]? = some w) :
    (j = i ∧ w = w' ∧ i < l.length) ∨ (j ≠ i ∧ l[j]? = some w) := by
  by_cases hij : j = i
  · subst hij
    by_cases hl : j < l.length
    · rw [List.getElem?_set_self hl] at h; left; exact ⟨rfl, (Option.some.inj h).symm, hl⟩
    · rw [List.getElem?_eq_none (by simp; omega)] at h; cases h
  · right; rw [List.getElem?_set_ne (Ne.symm hij)] at h; exact ⟨hij, h⟩

theorem inv_step {total : Int} {s : St} {a : Act} (hi : Inv total s) (ha : a ∈ sys.en s) : Inv total (sys.step s a) := by
  have he := mem_en ha
  obtain ⟨h0, h1, h2, h3, h4, h5⟩ := hi
  cases a with
  | lock i =>
    simp only [enB, h0, Bool.not_true, Bool.false_or, Bool.and_eq_true] at he
    obtain ⟨hw, hh⟩ := he
    have hnone : s.holder = none := by simpa using hh
    cases hwi : s.ws[i]? with
    | none => simp [hwi] at hw
    | some w =>
      obtain ⟨ds, pc⟩ := w
      rw [hwi] at hw
      cases ds with
      | nil => simp at hw
      | cons d rest =>
      cases pc <;> simp at hw
      simp only [sys, step, hwi, h0, if_true]
      have hlt : i < s.ws.length := (List.getElem?_eq_some_iff.mp hwi).1
      constructor
      · rfl
      · have := sumByI_set (f := dsum) (w' := { ds := d :: rest, pc := .locked }) hwi
        simp only [dsum] at this ⊢; omega
      · intro j w hj hpc
        rcases getElem?_set' hj with ⟨rfl, _, _⟩ | ⟨hne, hj'⟩
        · rfl
        · have := h2 j w hj' hpc; rw [hnone] at this; cases this
      · intro j hj
        simp only at hj; cases hj
        exact ⟨_, List.getElem?_set_self hlt, by simp⟩
      · intro j w t hj hpc
        rcases getElem?_set' hj with ⟨rfl, rfl, _⟩ | ⟨hne, hj'⟩
        · simp at hpc
        · exact h4 j w t hj' hpc
      · intro j w hj hpc
        rcases getElem?_set' hj with ⟨rfl, rfl, _⟩ | ⟨hne, hj'⟩
        · simp
        · exact h5 j w hj' hpc
  | read i =>
    simp only [enB] at he
    cases hwi : s.ws[i]? with
    | none => simp [hwi] at he
    | some w =>
      obtain ⟨ds, pc⟩ := w
      rw [hwi] at he
      cases pc <;> simp at he
      simp only [sys, step, hwi]
      have hlt : i < s.ws.length := (List.getElem?_eq_some_iff.mp hwi).1
      have hhold := h2 i _ hwi (by simp)
      constructor
      · exact h0
      · have := sumByI_set (f := dsum) (w' := { ds := ds, pc := .read s.cnt }) hwi
        simp only [dsum] at this ⊢; omega
      · intro j w hj hpc
        rcases getElem?_set' hj with ⟨rfl, _, _⟩ | ⟨hne, hj'⟩
        · exact hhold
        · exact h2 j w hj' hpc
      · intro j hj
        simp only at hj
        rw [hhold] at hj; cases hj
        exact ⟨_, List.getElem?_set_self hlt, by simp⟩
      · intro j w t hj hpc
        rcases getElem?_set' hj with ⟨rfl, rfl, _⟩ | ⟨hne, hj'⟩
        · simp at hpc; exact hpc.symm
        · have := h2 j w hj' (by rw [hpc]; simp)
          rw [hhold] at this; cases this; exact absurd rfl hne
      · intro j w hj hpc
        rcases getElem?_set' hj with ⟨rfl, rfl, _⟩ | ⟨hne, hj'⟩
        · exact h5 j { ds := ds, pc := .locked } hwi (Or.inl rfl)
        · exact h5 j w hj' hpc
  | write i =>
    simp only [enB] at he
    cases hwi : s.ws[i]? with
    | none => simp [hwi] at he
    | some w =>
      obtain ⟨ds, pc⟩ := w
      rw [hwi] at he
      cases pc <;> simp at he
      rename_i t
      have hne := h5 i _ hwi (Or.inr ⟨t, rfl⟩)
      cases ds with
      | nil => simp at hne
      | cons d rest =>
      simp only [sys, step, hwi]
      have hlt : i < s.ws.length := (List.getElem?_eq_some_iff.mp hwi).1
      have hhold := h2 i _ hwi (by simp)
      have ht := h4 i _ t hwi rfl
      constructor
      · exact h0
      · have := sumByI_set (f := dsum) (w' := { ds := rest, pc := .written }) hwi
        simp only [dsum, sumL_cons] at this ⊢; omega
      · intro j w hj hpc
        rcases getElem?_set' hj with ⟨rfl, _, _⟩ | ⟨hne, hj'⟩
        · exact hhold
        · exact h2 j w hj' hpc
      · intro j hj
        simp only at hj
        rw [hhold] at hj; cases hj
        exact ⟨_, List.getElem?_set_self hlt, by simp⟩
      · intro j w t' hj hpc
        rcases getElem?_set' hj with ⟨rfl, rfl, _⟩ | ⟨hne, hj'⟩
        · simp at hpc
        · have := h2 j w hj' (by rw [hpc]; simp)
          rw [hhold] at this; cases this; exact absurd rfl hne
      · intro j w hj hpc
        rcases getElem?_set' hj with ⟨rfl, rfl, _⟩ | ⟨hne, hj'⟩
        · rcases hpc with hpc | ⟨_, hpc⟩ <;> simp at hpc
        · exact h5 j w hj' hpc
  | unlock i =>
    simp only [enB] at he
    cases hwi : s.ws[i]? with
    | none => simp [hwi] at he
    | some w =>
      obtain ⟨ds, pc⟩ := w
      rw [hwi] at he
      cases pc <;> simp at he
      simp only [sys, step, hwi, h0, if_true]
      have hlt : i < s.ws.length := (List.getElem?_eq_some_iff.mp hwi).1
      have hhold := h2 i _ hwi (by simp)
      constructor
      · rfl
      · have := sumByI_set (f := dsum) (w' := { ds := ds, pc := .idle }) hwi
        simp only [dsum] at this ⊢; omega
      · intro j w hj hpc
        rcases getElem?_set' hj with ⟨rfl, rfl, _⟩ | ⟨hne, hj'⟩
        · simp at hpc
        · have := h2 j w hj' hpc
          rw [hhold] at this; cases this; exact absurd rfl hne
      · intro j hj; simp only at hj; cases hj
      · intro j w t hj hpc
        rcases getElem?_set' hj with ⟨rfl, rfl, _⟩ | ⟨hne, hj'⟩
        · simp at hpc
        · exact h4 j w t hj' hpc
      · intro j w hj hpc
        rcases getElem?_set' hj with ⟨rfl, rfl, _⟩ | ⟨hne, hj'⟩
        · rcases hpc with hpc | ⟨_, hpc⟩ <;> simp at hpc
        · exact h5 j w hj' hpc

theorem fin_result {total : Int} {s : St} (hi : Inv total s) (hf : finished s = true) : s.cnt = total := by
  have hz : sumByI dsum s.ws = 0 := by
    apply sumByI_zero
    intro w hw
    simp only [finished, List.all_eq_true, Bool.and_eq_true] at hf
    have := (hf w hw).1
    simp only [dsum]
    have : w.ds = [] := by simpa using this
    rw [this]; rfl
  have := hi.cons
  omega

theorem mem_acts {s : St} {i : Nat} (h : i < s.ws.length) :
    Act.lock i ∈ acts s ∧ Act.read i ∈ acts s ∧ Act.write i ∈ acts s ∧ Act.unlock i ∈ acts s := by
  simp only [acts, List.mem_flatMap, List.mem_range]
  exact ⟨⟨i, h, by simp⟩, ⟨i, h, by simp⟩, ⟨i, h, by simp⟩, ⟨i, h, by simp⟩⟩

theorem stuck_fin {total : Int} {s : St} (hi : Inv total s) (he : sys.en s = []) : finished s = true := by
  have hall : ∀ a ∈ acts s, enB s a = false := by
    intro a ha
    cases hb : enB s a with
    | false => rfl
    | true =>
      have : a ∈ sys.en s := by simp only [sys, List.mem_filter]; exact ⟨ha, hb⟩
      rw [he] at this; cases this
  have hidle : ∀ (i : Nat) (w : W), s.ws[i]? = some w → w.pc = .idle := by
    intro i w hw
    have hlt : i < s.ws.length := (List.getElem?_eq_some_iff.mp hw).1
    obtain ⟨_, hr, hwr, hu⟩ := mem_acts hlt
    obtain ⟨ds, pc⟩ := w
    cases pc with
    | idle => rfl
    | locked => have := hall _ hr; simp [enB, hw] at this
    | read t => have := hall _ hwr; simp [enB, hw] at this
    | written => have := hall _ hu; simp [enB, hw] at this
  have hnone : s.holder = none := by
    cases hh : s.holder with
    | none => rfl
    | some j =>
      obtain ⟨w, hw, hpc⟩ := hi.hold j hh
      exact absurd (hidle j w hw) hpc
  simp only [finished, List.all_eq_true, Bool.and_eq_true]
  intro w hw
  obtain ⟨i, hlt, rfl⟩ := List.getElem_of_mem hw
  have hwi : s.ws[i]? = some s.ws[i] := List.getElem?_eq_getElem hlt
  have hpc := hidle i _ hwi
  refine ⟨?_, by rw [hpc]; rfl⟩
  obtain ⟨hl, _, _, _⟩ := mem_acts hlt
  have := hall _ hl
  generalize s.ws[i] = w at *
  obtain ⟨ds, pc⟩ := w
  simp only at hpc; subst hpc
  cases ds with
  | nil => rfl
  | cons d rest => simp [enB, hwi, hnone] at this

def wt (w : W) : Nat :=
  match w.pc with
  | .idle => 4 * w.ds.length
  | .locked => 4 * (w.ds.length - 1) + 3
  | .read _ => 4 * (w.ds.length - 1) + 2
  | .written => 4 * w.ds.length + 1

def mu (s : St) : Nat := sumByN wt s.ws

theorem mu_dec {total : Int} {s : St} {a : Act} (hi : Inv total s) (ha : a ∈ sys.en s) : mu (sys.step s a) < mu s := by
  have he := mem_en ha
  obtain ⟨h0, h1, h2, h3, h4, h5⟩ := hi
  cases a with
  | lock i =>
    simp only [enB, h0, Bool.not_true, Bool.false_or, Bool.and_eq_true] at he
    obtain ⟨hw, hh⟩ := he
    cases hwi : s.ws[i]? with
    | none => simp [hwi] at hw
    | some w =>
      obtain ⟨ds, pc⟩ := w
      rw [hwi] at hw
      cases ds with
      | nil => simp at hw
      | cons d rest =>
      cases pc <;> simp at hw
      simp only [sys, step, hwi, mu]
      have := sumByN_set (f := wt) (w' := { ds := d :: rest, pc := .locked }) hwi
      simp only [wt, List.length_cons] at this; omega
  | read i =>
    simp only [enB] at he
    cases hwi : s.ws[i]? with
    | none => simp [hwi] at he
    | some w =>
      obtain ⟨ds, pc⟩ := w
      rw [hwi] at he
      cases pc <;> simp at he
      simp only [sys, step, hwi, mu]
      have := sumByN_set (f := wt) (w' := { ds := ds, pc := .read s.cnt }) hwi
      simp only [wt] at this; omega
  | write i =>
    simp only [enB] at he
    cases hwi : s.ws[i]? with
    | none => simp [hwi] at he
    | some w =>
      obtain ⟨ds, pc⟩ := w
      rw [hwi] at he
      cases pc <;> simp at he
      rename_i t
      have hne := h5 i _ hwi (Or.inr ⟨t, rfl⟩)
      cases ds with
      | nil => simp at hne
      | cons d rest =>
      simp only [sys, step, hwi, mu]
      have := sumByN_set (f := wt) (w' := { ds := rest, pc := .written }) hwi
      simp only [wt, List.length_cons] at this; omega
  | unlock i =>
    simp only [enB] at he
    cases hwi : s.ws[i]? with
    | none => simp [hwi] at he
    | some w =>
      obtain ⟨ds, pc⟩ := w
      rw [hwi] at he
      cases pc <;> simp at he
      simp only [sys, step, hwi, mu]
      have := sumByN_set (f := wt) (w' := { ds := ds, pc := .idle }) hwi
      simp only [wt] at this; omega

theorem mu_init (lists : List (List Int)) : mu (init true lists) = 4 * lenLL lists := by
  simp only [mu, init]
  induction lists with
  | nil => rfl
  | cons x xs ih => simp only [List.map_cons, sumByN, List.foldr_cons, lenLL, wt] at *; omega

end Mutex

/-! ## n goroutines in the same select statement -/
namespace SelN

def sumG (f : G → Nat) (l : List G) : Nat := l.foldr (fun w acc => f w + acc) 0

theorem sumG_set {f : G → Nat} {l : List G} {i : Nat} {w w' : G} (h : l[i]? = some w) :
    sumG f (l.set i w') + f w = sumG f l + f w' := by
  induction l generalizing i with
  | nil => simp at h
  | cons x xs ih =>
    cases i with
    | zero => simp at h; subst h; simp only [List.set_cons_zero, sumG, List.foldr_cons]; omega
    | succ j =>
      simp at h
      have := ih h
      simp only [List.set_cons_succ, sumG, List.foldr_cons] at *; omega

/-- per-goroutine invariant w.r.t. its specification (own list l, r rounds, index i) -/
structure GInv (r : Nat) (l : List Int) (i : Nat) (g : G) : Prop where
  hist : g.got ++ g.ch = l
  cnt : g.rounds + g.got.length = r
  enough : g.rounds ≤ g.ch.length
  own : g.ev = none ∨ g.ev = some i
  active : g.ev ≠ none → 0 < g.rounds

structure Inv (r : Nat) (lists : List (List Int)) (s : St) : Prop where
  ns : s.shared = false
  len : s.gs.length = lists.length
  each : ∀ (i : Nat) (g : G), s.gs[i]? = some g → ∃ l, lists[i]? = some l ∧ GInv r l i g

theorem inv_init (r : Nat) (lists : List (List Int)) (hr : ∀ l ∈ lists, r ≤ l.length) :
    Inv r lists (init false r lists) := by
  refine ⟨rfl, by simp [init], ?_⟩
  intro i g hg
  simp only [init, List.getElem?_map] at hg
  cases hl : lists[i]? with
  | none => simp [hl] at hg
  | some l =>
    simp [hl] at hg; subst hg
    exact ⟨l, rfl, ⟨by simp, by simp, hr l (List.mem_of_getElem? hl), Or.inl rfl, by simp⟩⟩

theorem mem_en {s : St} {a : Act} (h : a ∈ sys.en s) : enB s a = true := by
  simp only [sys, List.mem_filter] at h; exact h.2

theorem step_sel {s : St} {i : Nat} {g : G} {v : Int} {rest : List Int} (hs : s.shared = false)
    (hg : s.gs[i]? = some g) (hev : g.ev = some i) (hch : g.ch = v :: rest) :
    step s (.sel i) = { s with gs := s.gs.set i { ch := rest, rounds := g.rounds - 1, ev := none, got := g.got ++ [v] } } := by
  have hlt : i < s.gs.length := (List.getElem?_eq_some_iff.mp hg).1
  simp [step, hg, hev, chanOf, hs, hch, List.getElem?_set_self hlt, List.set_set]

theorem each_set {r : Nat} {lists : List (List Int)} {gs : List G} {i : Nat} {g' : G}
    (h : ∀ (j : Nat) (g : G), gs[j]? = some g → ∃ l, lists[j]? = some l ∧ GInv r l j g)
    (hi : ∀ l, lists[i]? = some l → GInv r l i g') :
    ∀ (j : Nat) (g : G), (gs.set i g')[j]? = some g → ∃ l, lists[j]? = some l ∧ GInv r l j g := by
  intro j g hj
  by_cases hji : j = i
  · subst hji
    by_cases hl : j < gs.length
    · rw [List.getElem?_set_self hl] at hj
      cases hj
      obtain ⟨l, hl', _⟩ := h j gs[j] (List.getElem?_eq_getElem hl)
      exact ⟨l, hl', hi l hl'⟩
    · rw [List.getElem?_eq_none (by simp; omega)] at hj; cases hj
  · rw [List.getElem?_set_ne (Ne.symm hji)] at hj
    exact h j g hj

theorem inv_step {r : Nat} {lists : List (List Int)} {s : St} {a : Act} (hi : Inv r lists s) (ha : a ∈ sys.en s) :
    Inv r lists (sys.step s a) := by
  have he := mem_en ha
  obtain ⟨h0, h1, h2⟩ := hi
  cases a with
  | eval i =>
    simp only [enB] at he
    cases hg : s.gs[i]? with
    | none => simp [hg] at he
    | some g =>
      simp only [hg, Bool.and_eq_true, decide_eq_true_eq] at he
      obtain ⟨hpos, hev⟩ := he
      simp only [sys, step, hg]
      refine ⟨h0, by simp [h1], ?_⟩
      apply each_set h2
      intro l hl
      obtain ⟨l', hl', gi⟩ := h2 i g hg
      rw [hl] at hl'; cases hl'
      exact ⟨gi.hist, gi.cnt, gi.enough, Or.inr rfl, fun _ => hpos⟩
  | sel i =>
    simp only [enB] at he
    cases hg : s.gs[i]? with
    | none => simp [hg] at he
    | some g =>
      obtain ⟨l, hl, gi⟩ := h2 i g hg
      cases hev : g.ev with
      | none => simp [hg, hev] at he
      | some c =>
        have hc : c = i := by
          rcases gi.own with h | h
          · rw [hev] at h; cases h
          · rw [hev] at h; exact Option.some.inj h
        subst hc
        cases hch : g.ch with
        | nil => simp [hg, hev, chanOf, h0, hch] at he
        | cons v rest =>
          show Inv r lists (step s (.sel c))
          rw [step_sel h0 hg hev hch]
          refine ⟨h0, by simp [h1], ?_⟩
          apply each_set h2
          intro l2 hl2
          rw [hl] at hl2; cases hl2
          have hpos := gi.active (by rw [hev]; simp)
          have e1 := gi.hist; have e2 := gi.cnt; have e3 := gi.enough
          rw [hch] at e1 e3
          refine ⟨by simp [← e1], ?_, ?_, Or.inl rfl, by simp⟩
          · simp only [List.length_append, List.length_singleton]; omega
          · simp only [List.length_cons] at e3; simp only; omega

theorem fin_result {r : Nat} {lists : List (List Int)} {s : St} (hi : Inv r lists s) (hf : finished s = true) :
    s.gs.map (·.got) = lists.map (List.take r) := by
  obtain ⟨h0, h1, h2⟩ := hi
  apply List.ext_getElem?
  intro i
  simp only [List.getElem?_map]
  cases hg : s.gs[i]? with
  | none =>
    have : lists[i]? = none := by
      rw [List.getElem?_eq_none_iff] at hg ⊢; omega
    simp [this]
  | some g =>
    obtain ⟨l, hl, gi⟩ := h2 i g hg
    have hz : g.rounds = 0 := by
      simp only [finished, List.all_eq_true] at hf
      have := hf g (List.mem_of_getElem? hg)
      simpa using this
    simp only [hl, Option.map_some]
    congr 1
    have e1 := gi.hist; have e2 := gi.cnt
    rw [hz] at e2
    rw [← e1, ← e2]; simp

theorem mem_acts {s : St} {i : Nat} (h : i < s.gs.length) : Act.eval i ∈ acts s ∧ Act.sel i ∈ acts s := by
  simp only [acts, List.mem_flatMap, List.mem_range]
  exact ⟨⟨i, h, by simp⟩, ⟨i, h, by simp⟩⟩

theorem stuck_fin {r : Nat} {lists : List (List Int)} {s : St} (hi : Inv r lists s) (he : sys.en s = []) :
    finished s = true := by
  have hall : ∀ a ∈ acts s, enB s a = false := by
    intro a ha
    cases hb : enB s a with
    | false => rfl
    | true =>
      have : a ∈ sys.en s := by simp only [sys, List.mem_filter]; exact ⟨ha, hb⟩
      rw [he] at this; cases this
  obtain ⟨h0, h1, h2⟩ := hi
  simp only [finished, List.all_eq_true]
  intro g hg
  obtain ⟨i, hlt, rfl⟩ := List.getElem_of_mem hg
  have hgi : s.gs[i]? = some s.gs[i] := List.getElem?_eq_getElem hlt
  obtain ⟨l, hl, gi⟩ := h2 i _ hgi
  obtain ⟨hev, hsel⟩ := mem_acts hlt
  have e1 := hall _ hev
  have e2 := hall _ hsel
  generalize s.gs[i] = g at *
  cases hr : g.rounds with
  | zero => simp
  | succ n =>
    exfalso
    cases hevv : g.ev with
    | none => simp [enB, hgi, hr, hevv] at e1
    | some c =>
      have hc : c = i := by
        rcases gi.own with h | h
        · rw [hevv] at h; cases h
        · rw [hevv] at h; exact Option.some.inj h
      subst hc
      have hne : g.ch ≠ [] := by
        intro hnil
        have := gi.enough
        rw [hnil, hr] at this; simp at this
      simp [enB, hgi, hevv, chanOf, h0] at e2
      exact hne e2

def wt (g : G) : Nat := 2 * g.rounds - (if g.ev.isSome then 1 else 0)
def mu (s : St) : Nat := sumG wt s.gs

theorem mu_dec {r : Nat} {lists : List (List Int)} {s : St} {a : Act} (hi : Inv r lists s) (ha : a ∈ sys.en s) :
    mu (sys.step s a) < mu s := by
  have he := mem_en ha
  obtain ⟨h0, h1, h2⟩ := hi
  cases a with
  | eval i =>
    simp only [enB] at he
    cases hg : s.gs[i]? with
    | none => simp [hg] at he
    | some g =>
      simp only [hg, Bool.and_eq_true, decide_eq_true_eq] at he
      obtain ⟨hpos, hev⟩ := he
      have hevn : g.ev = none := by simpa using hev
      simp only [sys, step, hg, mu]
      have := sumG_set (f := wt) (w' := { g with ev := some i }) hg
      simp only [wt, hevn] at this
      simp at this; omega
  | sel i =>
    simp only [enB] at he
    cases hg : s.gs[i]? with
    | none => simp [hg] at he
    | some g =>
      obtain ⟨l, hl, gi⟩ := h2 i g hg
      cases hev : g.ev with
      | none => simp [hg, hev] at he
      | some c =>
        have hc : c = i := by
          rcases gi.own with h | h
          · rw [hev] at h; cases h
          · rw [hev] at h; exact Option.some.inj h
        subst hc
        cases hch : g.ch with
        | nil => simp [hg, hev, chanOf, h0, hch] at he
        | cons v rest =>
          show mu (step s (.sel c)) < mu s
          rw [step_sel h0 hg hev hch]
          have hpos := gi.active (by rw [hev]; simp)
          have := sumG_set (f := wt) (w' := { ch := rest, rounds := g.rounds - 1, ev := none, got := g.got ++ [v] }) hg
          simp only [wt, hev] at this
          simp only [mu]
          simp at this; omega

theorem mu_init (r : Nat) (lists : List (List Int)) : mu (init false r lists) = 2 * r * lists.length := by
  simp only [mu, init]
  induction lists with
  | nil => simp [sumG]
  | cons x xs ih =>
    simp only [List.map_cons, sumG, List.foldr_cons, wt, List.length_cons] at *
    rw [ih]; simp [Nat.mul_add]; omega

end SelN

end Chan
