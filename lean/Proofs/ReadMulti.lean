import Model.ReadMulti
/-! Lemmas for C26: the machine of ReadMultiline refines the reference lexer GoLex. -/
namespace ReadMulti
open GoLex

/-- which reference context a mode stands for -/
def modeLex : Mode → Lex
  | .normal | .plus | .minus => .code
  | .rune => .rune
  | .runeEsc => .runeEsc
  | .string => .str
  | .stringEsc => .strEsc
  | .rawString => .raw
  | .slash => .slash
  | .hash => .hash
  | .lineComment => .lineCom
  | .comment => .blockCom
  | .commentStar => .blockStar
  | .tilde => .tilde

/-- abstraction of the machine state: lexical context and bracket depth -/
def abs (s : St) : RSt := ⟨modeLex s.m, s.paren⟩

@[simp] theorem modeLex_ite_plus (c : Prop) [Decidable c] :
    modeLex (if c then Mode.plus else Mode.normal) = .code := by split <;> rfl
@[simp] theorem modeLex_ite_minus (c : Prop) [Decidable c] :
    modeLex (if c then Mode.minus else Mode.normal) = .code := by split <;> rfl

theorem modeLex_ne_bad (m : Mode) : modeLex m ≠ .bad := by cases m <;> simp [modeLex]

@[simp] theorem finish_m (s : St) (b : Bool) (p : Int) : (finish s b p).m = s.m := by
  unfold finish foundtoken; split <;> split <;> rfl
@[simp] theorem finish_paren (s : St) (b : Bool) (p : Int) : (finish s b p).paren = s.paren := by
  unfold finish foundtoken; split <;> split <;> rfl
@[simp] theorem abs_finish (s : St) (b : Bool) (p : Int) : abs (finish s b p) = abs s := by
  simp [abs]

/-- the state reached by one arm of the switch, if any -/
def Out.st? : Out → Option St
  | .cont s | .post s | .rewrite s => some s
  | .err _ => none

theorem switchCase_tracks (s : St) (c : Cls) (pos : Int) (h : ¬(s.m = .lineComment ∧ c = .nl)) :
    match (switchCase s c pos).st? with
    | some s' => rstepC (abs s) c = abs s' ∧ (c = .nl → s'.m ≠ .lineComment)
    | none => (rstepC (abs s) c).lex = .bad ∧ c = .nl := by
  obtain ⟨m, p, ig, ft, lt⟩ := s
  cases m <;> cases c <;>
    simp [switchCase, normalCase, plusMinusCase, runeCase, runeEscCase, stringCase, stringEscCase, rawStringCase,
      slashCase, hashCase, commentCase, commentStarCase, tildeCase, Out.st?, abs, modeLex, rstepC, rcode,
      rSlash, rHash, rTilde, rQuoted, rEsc, rRaw, rLineCom, rBlockCom, rBlockStar, foundtoken, isBlank] at h ⊢ <;>
    (try (by_cases hp : p = 0 <;> simp [hp]))

theorem step_tracks (s : St) (pos : Int) (ch : UInt8) (h : ¬(s.m = .lineComment ∧ classify ch = .nl)) :
    match step s pos ch with
    | .ok s' _ => rstep (abs s) ch = abs s' ∧ (classify ch = .nl → s'.m ≠ .lineComment)
    | .err _ => (rstep (abs s) ch).lex = .bad ∧ classify ch = .nl := by
  have := switchCase_tracks s (classify ch) pos h
  unfold step rstep
  cases hsw : switchCase s (classify ch) pos <;> simp [hsw, Out.st?] at this ⊢ <;> exact this

theorem rlexFrom_bad (d : Int) (bs : List UInt8) : rlexFrom ⟨.bad, d⟩ bs = ⟨.bad, d⟩ := by
  induction bs with
  | nil => rfl
  | cons b bs ih => simpa [rlexFrom, rstep, rstepC] using ih

theorem rlexFrom_append (r : RSt) (a b : List UInt8) : rlexFrom r (a ++ b) = rlexFrom (rlexFrom r a) b := by
  simp [rlexFrom, List.foldl_append]

theorem rlex_append (a b : List UInt8) : rlex (a ++ b) = rlexFrom (rlex a) b := rlexFrom_append _ a b

/-- the lexical context does not depend on the depth; the depth is shifted -/
theorem rstepC_shift (l : Lex) (d k : Int) (c : Cls) :
    rstepC ⟨l, d + k⟩ c = ⟨(rstepC ⟨l, d⟩ c).lex, (rstepC ⟨l, d⟩ c).depth + k⟩ := by
  cases l <;> cases c <;>
    simp [rstepC, rcode, rSlash, rHash, rTilde, rQuoted, rEsc, rRaw, rLineCom, rBlockCom, rBlockStar] <;> omega

theorem rlexFrom_shift (bs : List UInt8) (l : Lex) (d k : Int) :
    rlexFrom ⟨l, d + k⟩ bs = ⟨(rlexFrom ⟨l, d⟩ bs).lex, (rlexFrom ⟨l, d⟩ bs).depth + k⟩ := by
  induction bs generalizing l d with
  | nil => rfl
  | cons b bs ih =>
    simp only [rlexFrom, List.foldl_cons] at ih ⊢
    rw [show rstep ⟨l, d + k⟩ b = ⟨(rstep ⟨l, d⟩ b).lex, (rstep ⟨l, d⟩ b).depth + k⟩ from rstepC_shift l d k _]
    exact ih _ _

/-! ### one line -/

/-- bytes of a line before its terminating newline -/
def NoNl (bs : List UInt8) : Prop := ∀ ch ∈ bs, classify ch ≠ .nl

theorem runLine_append (base : Int) (xs ys : List UInt8) :
    ∀ (s : St) (i : Nat) (acc : List UInt8),
    runLine base s i (xs ++ ys) acc =
      match runLine base s i xs acc with
      | .done s' out => runLine base s' (i + xs.length) ys out.reverse
      | r => r := by
  induction xs with
  | nil => intro s i acc; simp [runLine]
  | cons x xs ih =>
    intro s i acc
    simp only [List.cons_append, runLine]
    cases hst : step s (base + ↑i) x with
    | err r => simp
    | ok s' rw =>
      cases rw with
      | false => simp only [ih]; simp [Nat.add_assoc, Nat.add_comm 1]
      | true =>
        cases acc with
        | nil => simp
        | cons a acc' => simp only [ih]; simp [Nat.add_assoc, Nat.add_comm 1]

theorem runLine_body (base : Int) (body : List UInt8) :
    ∀ (s : St) (i : Nat) (acc : List UInt8), NoNl body →
    match runLine base s i body acc with
    | .done s' _ => rlexFrom (abs s) body = abs s'
    | .err _ _ _ => False
    | .panic => True := by
  induction body with
  | nil => intro s i acc _; simp [runLine, rlexFrom]
  | cons b body ih =>
    intro s i acc hn
    have hb : classify b ≠ .nl := hn b (by simp)
    have hrest : NoNl body := fun c hc => hn c (by simp [hc])
    have ht := step_tracks s (base + i) b (by simp [hb])
    simp only [runLine]
    cases hst : step s (base + ↑i) b with
    | err r => simp [hst] at ht; exact hb ht.2
    | ok s' rw =>
      simp [hst] at ht
      cases rw with
      | false =>
        have := ih s' (i + 1) (b :: acc) hrest
        simp only [rlexFrom, List.foldl_cons] at this ⊢
        rw [ht.1]; exact this
      | true =>
        cases acc with
        | nil => simp
        | cons a acc' =>
          have := ih s' (i + 1) (47 :: 47 :: acc') hrest
          simp only [rlexFrom, List.foldl_cons] at this ⊢
          rw [ht.1]; exact this

/-- a complete line `body ++ ['\n']`: after the end-of-line reset of `mLineComment` the machine
    is again in step with the reference; a literal error means the reference saw the newline
    inside an interpreted string or rune literal -/
theorem runLine_line (base : Int) (body : List UInt8) (nl : UInt8) (hnl : classify nl = .nl)
    (s : St) (hn : NoNl body) :
    match runLine base s 0 (body ++ [nl]) [] with
    | .done s' _ => rlexFrom (abs s) (body ++ [nl]) = abs (eolMode s')
    | .err _ _ _ => (rlexFrom (abs s) (body ++ [nl])).lex = .bad
    | .panic => True := by
  rw [runLine_append, rlexFrom_append]
  have hb := runLine_body base body s 0 [] hn
  cases hrb : runLine base s 0 body [] with
  | err a b c => simp [hrb] at hb
  | panic => simp
  | done s1 out =>
    simp [hrb] at hb
    rw [hb]
    simp only [runLine, Nat.zero_add]
    by_cases hlc : s1.m = .lineComment
    · -- the newline ends the line comment: the loop `continue`s, the reset follows the loop
      have : step s1 (base + ↑body.length) nl = .ok s1 false := by
        simp [step, switchCase, hlc]
      simp [this, runLine, rlexFrom, rstep, rstepC, rLineCom, abs, hlc, modeLex, hnl, eolMode]
    · have ht := step_tracks s1 (base + ↑body.length) nl (by simp [hlc])
      cases hst : step s1 (base + ↑body.length) nl with
      | err r =>
        simp [hst] at ht
        simp [rlexFrom, ht.1]
      | ok s2 rw =>
        simp [hst] at ht
        have hm : eolMode s2 = s2 := by simp [eolMode, ht.2 hnl]
        cases rw with
        | false => simp [runLine, rlexFrom, ht.1, hm]
        | true =>
          cases hout : out.reverse with
          | nil => simp
          | cons a acc' => simp [runLine, rlexFrom, ht.1, hm]

/-! ### one call of ReadMultiline -/

/-- the Readline contract the theorems rely on: a line that does not come together with EOF is
    `body ++ [newline]` and contains no other newline (BufReadline, TtyReadline) -/
def TermLine (l : List UInt8) : Prop := ∃ body nl, l = body ++ [nl] ∧ classify nl = .nl ∧ NoNl body

def WF (reads : List Read) : Prop :=
  ∀ rd ∈ reads, (rd.eof = false → TermLine rd.line) ∧ (rd.eof = true → NoNl rd.line)

theorem abs_contMode (s : St) : abs (contMode s) = abs s := by
  unfold contMode abs
  split
  · rename_i h; rcases h with h | h <;> simp [h, modeLex]
  · rfl

theorem eofErr_ne_nil (s : St) : eofErr s ≠ .nil := by unfold eofErr; split <;> simp
theorem eofErr_ne_lit (s : St) (b : Bool) : eofErr s ≠ .lit b := by unfold eofErr; split <;> simp

theorem readLoop_tracks (optAll : Bool) :
    ∀ (reads : List Read) (s : St) (buf orig : List UInt8), WF reads → rlex orig = abs s →
    ((readLoop optAll reads s buf orig).1.err = .nil →
        ∃ d, rlex (readLoop optAll reads s buf orig).1.orig = ⟨.code, d⟩ ∧ d ≤ 0) ∧
    (∀ b, (readLoop optAll reads s buf orig).1.err = .lit b →
        (rlex (readLoop optAll reads s buf orig).1.orig).lex = .bad) := by
  intro reads
  induction reads with
  | nil =>
    intro s buf orig _ _
    simp [readLoop, eofErr_ne_nil, eofErr_ne_lit]
  | cons rd rest ih =>
    intro s buf orig hwf hinv
    have hwf' : WF rest := fun r hr => hwf r (by simp [hr])
    by_cases heof : rd.eof = true
    · -- the last, unterminated line comes with EOF: the call reports EOF
      have hb := runLine_body (↑buf.length) rd.line s 0 [] ((hwf rd (by simp)).2 heof)
      simp only [readLoop]
      cases hrl : runLine (↑buf.length) s 0 rd.line [] <;> simp [hrl] at hb <;>
        simp [heof, eofErr_ne_nil, eofErr_ne_lit]
    · have hne : rd.eof = false := by simpa using heof
      obtain ⟨body, nl, hl, hnl, hbody⟩ := (hwf rd (by simp)).1 hne
      have hline := runLine_line (↑buf.length) body nl hnl s hbody
      rw [← hl] at hline
      simp only [readLoop]
      cases hrl : runLine (↑buf.length) s 0 rd.line [] with
      | panic => simp
      | err s' out r =>
        simp [hrl] at hline
        simp [rlex_append, hinv, hline]
      | done s' out =>
        simp [hrl] at hline
        have hinv' : rlex (orig ++ rd.line) = abs (eolMode s') := by simp [rlex_append, hinv, hline]
        simp only [hne, Bool.false_eq_true, if_false]
        split
        · rename_i hcut
          split
          · exact ih _ _ _ hwf' (by rw [abs_contMode]; simpa [abs] using hinv')
          · simp only [true_implies, reduceCtorEq, false_implies, implies_true, and_true]
            simp [cutCond] at hcut
            refine ⟨(eolMode s').paren, ?_, hcut.1.1.1⟩
            rw [hinv']; simp [abs, hcut.1.2, modeLex]
        · exact ih _ _ _ hwf' (by rw [abs_contMode]; exact hinv')

/-! ### continuation: a trailing operator keeps the chunk open -/

/-- bytes that set the continuation flag in `case mNormal`:  ! * , % & : < = > ^ | -/
def contByte : Cls → Bool
  | .bang | .star | .comma | .op => true
  | _ => false

theorem op_sets_ignorenl (s : St) (pos : Int) (ch : UInt8) (hc : contByte (classify ch) = true)
    (hout : (abs s).lex = .code ∨ (abs s).lex = .slash ∨ (abs s).lex = .hash)
    (hcode : (rstep (abs s) ch).lex = .code) (hp : s.paren = 0) :
    ∃ s', step s pos ch = .ok s' false ∧ s'.m = .normal ∧ s'.ignorenl = true ∧ s'.paren = 0 := by
  obtain ⟨m, p, ig, ft, lt⟩ := s
  simp only at hp; subst hp
  unfold step rstep at *
  cases m <;> cases hcl : classify ch <;>
    simp [hcl, contByte, abs, modeLex, rstepC, rcode, rSlash, rHash, rTilde] at hc hout hcode <;>
    simp [switchCase, normalCase, plusMinusCase, slashCase, hashCase, finish, resetnl, foundtoken, isBlank]

theorem blank_keeps (s : St) (pos : Int) (ch : UInt8) (hb : isBlank (classify ch) = true)
    (hm : s.m = .normal) : step s pos ch = .ok s false := by
  unfold step
  cases hcl : classify ch <;> simp [hcl, isBlank] at hb <;> simp [switchCase, hm, normalCase]

theorem runLine_blanks (base : Int) (ws : List UInt8) :
    ∀ (s : St) (i : Nat) (acc : List UInt8), (∀ c ∈ ws, isBlank (classify c) = true) → s.m = .normal →
    ∃ out, runLine base s i ws acc = .done s out := by
  induction ws with
  | nil => intro s i acc _ _; exact ⟨_, rfl⟩
  | cons w ws ih =>
    intro s i acc hb hm
    simp only [runLine, blank_keeps s _ w (hb w (by simp)) hm]
    exact ih s _ _ (fun c hc => hb c (by simp [hc])) hm

/-- a pending '/', '+' or '-' followed by a blank: the operator was a binary operator -/
theorem pending_blank (s : St) (pos : Int) (w : UInt8) (hb : isBlank (classify w) = true)
    (hm : s.m = .slash ∨ s.m = .plus ∨ s.m = .minus) (hp : s.paren = 0) :
    ∃ s', step s pos w = .ok s' false ∧ s'.m = .normal ∧ s'.ignorenl = true ∧ s'.paren = 0 := by
  obtain ⟨m, p, ig, ft, lt⟩ := s
  simp only at hp hm; subst hp
  unfold step
  cases hcl : classify w <;> simp [hcl, isBlank] at hb <;>
    rcases hm with hm | hm | hm <;> subst hm <;>
    simp [switchCase, normalCase, plusMinusCase, slashCase, foundtoken, isBlank]

/-- the tail `ch :: ws` of a line (ws blank) leaves the machine in normal mode with the continuation
    flag set, when `ch` is (A) an operator/comma byte in code context, (B1) a '/' that does not
    complete `//`, (B2) a '+' or '-' that does not follow a pending '+'/'-' -/
def ContTail (s₁ : St) (ch : UInt8) (ws : List UInt8) : Prop :=
  s₁.paren = 0 ∧
  ((contByte (classify ch) = true ∧ ((abs s₁).lex = .code ∨ (abs s₁).lex = .slash ∨ (abs s₁).lex = .hash) ∧
      (rstep (abs s₁) ch).lex = .code) ∨
   (classify ch = .slash ∧ (rstep (abs s₁) ch).lex = .slash ∧ ws ≠ []) ∨
   ((classify ch = .plus ∨ classify ch = .minus) ∧ s₁.m = .normal ∧ ws ≠ []))

theorem tail_continues (base : Int) (s₁ : St) (ch : UInt8) (ws : List UInt8) (i : Nat) (acc : List UInt8)
    (hws : ∀ c ∈ ws, isBlank (classify c) = true) (h : ContTail s₁ ch ws) :
    ∃ s₂ out, runLine base s₁ i (ch :: ws) acc = .done s₂ out ∧ s₂.m = .normal ∧ s₂.ignorenl = true := by
  obtain ⟨hp, h⟩ := h
  rcases h with ⟨hc, hout, hcode⟩ | ⟨hsl, hlex, hne⟩ | ⟨hpm, hm, hne⟩
  · obtain ⟨s₂, hst, hm2, hig, _⟩ := op_sets_ignorenl s₁ (base + i) ch hc hout hcode hp
    obtain ⟨out, hrun⟩ := runLine_blanks base ws s₂ (i + 1) (ch :: acc) hws hm2
    exact ⟨s₂, out, by simp [runLine, hst, hrun], hm2, hig⟩
  · -- '/' then at least one blank
    obtain ⟨w, ws', rfl⟩ := List.exists_cons_of_ne_nil hne
    have hst : ∃ s₂, step s₁ (base + i) ch = .ok s₂ false ∧ s₂.m = .slash ∧ s₂.paren = 0 := by
      obtain ⟨m, p, ig, ft, lt⟩ := s₁
      simp only at hp; subst hp
      unfold step rstep at *
      cases m <;>
        simp [hsl, abs, modeLex, rstepC, rcode, rSlash, rHash, rTilde, rQuoted, rEsc, rRaw, rLineCom,
          rBlockCom, rBlockStar] at hlex <;>
        simp [hsl, switchCase, normalCase, plusMinusCase, hashCase, tildeCase, foundtoken, isBlank]
    obtain ⟨s₂, hst, hm2, hp2⟩ := hst
    obtain ⟨s₃, hst3, hm3, hig3, _⟩ := pending_blank s₂ (base + ↑(i + 1)) w (hws w (by simp)) (Or.inl hm2) hp2
    obtain ⟨out, hrun⟩ := runLine_blanks base ws' s₃ (i + 1 + 1) (w :: ch :: acc)
      (fun c hc => hws c (by simp [hc])) hm3
    have hst3' : step s₂ (base + (↑i + 1)) w = .ok s₃ false := by simpa [Int.natCast_add] using hst3
    exact ⟨s₃, out, by simp [runLine, hst, hst3', hrun], hm3, hig3⟩
  · obtain ⟨w, ws', rfl⟩ := List.exists_cons_of_ne_nil hne
    have hst : ∃ s₂, step s₁ (base + i) ch = .ok s₂ false ∧ (s₂.m = .plus ∨ s₂.m = .minus) ∧ s₂.paren = 0 := by
      obtain ⟨m, p, ig, ft, lt⟩ := s₁
      simp only at hp hm; subst hp; subst hm
      unfold step
      rcases hpm with hpm | hpm <;> simp [hpm, switchCase, normalCase, finish, foundtoken, isBlank]
    obtain ⟨s₂, hst, hm2, hp2⟩ := hst
    obtain ⟨s₃, hst3, hm3, hig3, _⟩ := pending_blank s₂ (base + ↑(i + 1)) w (hws w (by simp))
      (Or.inr hm2) hp2
    obtain ⟨out, hrun⟩ := runLine_blanks base ws' s₃ (i + 1 + 1) (w :: ch :: acc)
      (fun c hc => hws c (by simp [hc])) hm3
    have hst3' : step s₂ (base + (↑i + 1)) w = .ok s₃ false := by simpa [Int.natCast_add] using hst3
    exact ⟨s₃, out, by simp [runLine, hst, hst3', hrun], hm3, hig3⟩

/-- when the continuation flag is set (or a bracket is open) at the end of a line that did not come
    with EOF, ReadMultiline reads the next line into the same chunk -/
theorem readLoop_continues (optAll : Bool) (rd : Read) (rest : List Read) (s : St) (buf orig : List UInt8)
    (s' : St) (out : List UInt8) (hrun : runLine (↑buf.length) s 0 rd.line [] = .done s' out)
    (heof : rd.eof = false) (hflag : s'.ignorenl = true ∨ s'.paren > 0) :
    ∃ s'', readLoop optAll (rd :: rest) s buf orig = readLoop optAll rest s'' (buf ++ out) (orig ++ rd.line) := by
  have hcut : cutCond optAll (eolMode s') = false := by
    have h1 : (eolMode s').ignorenl = s'.ignorenl := by unfold eolMode; split <;> rfl
    have h2 : (eolMode s').paren = s'.paren := by unfold eolMode; split <;> rfl
    unfold cutCond
    rcases hflag with h | h
    · simp [h1, h]
    · have : ¬ (eolMode s').paren ≤ 0 := by rw [h2]; omega
      simp [this]
  exact ⟨contMode (eolMode s'), by simp [readLoop, hrun, heof, hcut]⟩

/-! ### losslessness: the returned bytes are the consumed bytes, with `#!` as `//` -/

theorem Rw.refl : ∀ xs : List UInt8, Rw xs xs
  | [] => .nil
  | c :: xs => .same c (Rw.refl xs)

theorem Rw.append {a b c d : List UInt8} (h₁ : Rw a b) (h₂ : Rw c d) : Rw (a ++ c) (b ++ d) := by
  induction h₁ with
  | nil => simpa using h₂
  | same x _ ih => exact .same x ih
  | hashbang _ ih => exact .hashbang ih

theorem Rw.length {a b : List UInt8} (h : Rw a b) : a.length = b.length := by
  induction h with
  | nil => rfl
  | same x _ ih => simp [ih]
  | hashbang _ ih => simp [ih]

/-- without the two bytes `#!` next to each other nothing is rewritten -/
theorem Rw.eq_of_no_hashbang {a b : List UInt8} (h : Rw a b)
    (hno : ∀ p q : List UInt8, a ≠ p ++ 35 :: 33 :: q) : a = b := by
  induction h with
  | nil => rfl
  | same x _ ih =>
    congr 1
    exact ih (fun p q hpq => hno (x :: p) q (by simp [hpq]))
  | hashbang _ _ => exact absurd rfl (hno [] _)

set_option maxRecDepth 100000 in
theorem classify_table : ∀ n, n < 256 →
    (classify (UInt8.ofNat n) = .bang → UInt8.ofNat n = 33) ∧
    (classify (UInt8.ofNat n) = .hash → UInt8.ofNat n = 35) := by decide

theorem classify_bang (ch : UInt8) (h : classify ch = .bang) : ch = 33 := by
  have := (classify_table ch.toNat (UInt8.toNat_lt ch)).1
  simp only [UInt8.ofNat_toNat] at this; exact this h

theorem classify_hash (ch : UInt8) (h : classify ch = .hash) : ch = 35 := by
  have := (classify_table ch.toNat (UInt8.toNat_lt ch)).2
  simp only [UInt8.ofNat_toNat] at this; exact this h

theorem step_rw_true (s : St) (pos : Int) (ch : UInt8) (s' : St) (h : step s pos ch = .ok s' true) :
    s.m = .hash ∧ classify ch = .bang ∧ s'.m ≠ .hash := by
  obtain ⟨m, p, ig, ft, lt⟩ := s
  unfold step at h
  cases m <;> cases hcl : classify ch <;>
    simp [hcl, switchCase, normalCase, plusMinusCase, runeCase, runeEscCase, stringCase, stringEscCase,
      rawStringCase, slashCase, hashCase, commentCase, commentStarCase, tildeCase, isBlank] at h ⊢ <;>
    (try (split at h <;> simp at h)) <;> (try (subst h; simp))

theorem step_into_hash (s : St) (pos : Int) (ch : UInt8) (s' : St) (h : step s pos ch = .ok s' false)
    (hm : s'.m = .hash) : classify ch = .hash := by
  obtain ⟨m, p, ig, ft, lt⟩ := s
  unfold step at h
  cases m <;> cases hcl : classify ch <;>
    simp [hcl, switchCase, normalCase, plusMinusCase, runeCase, runeEscCase, stringCase, stringEscCase,
      rawStringCase, slashCase, hashCase, commentCase, commentStarCase, tildeCase, isBlank, foundtoken] at h <;>
    (try (split at h <;> simp at h)) <;> (try (subst h; simp at hm)) <;>
    (try (by_cases hp : p = 0 <;> simp [hp] at hm)) <;> (try rfl)

/-- `oacc` = the original bytes line[:i] reversed, `acc` = the same bytes as ReadMultiline holds them -/
def HashInv (s : St) (oacc acc : List UInt8) : Prop :=
  Rw oacc.reverse acc.reverse ∧
  (s.m = .hash → acc = [] ∨ ∃ o' a', oacc = 35 :: o' ∧ acc = 35 :: a' ∧ Rw o'.reverse a'.reverse)

theorem runLine_rw (base : Int) (line : List UInt8) :
    ∀ (s : St) (i : Nat) (oacc acc : List UInt8), HashInv s oacc acc →
    match runLine base s i line acc with
    | .done _ out => Rw (oacc.reverse ++ line) out
    | .err _ out _ => ∃ k, Rw (oacc.reverse ++ line.take k) out
    | .panic => True := by
  induction line with
  | nil => intro s i oacc acc h; simpa [runLine] using h.1
  | cons ch rest ih =>
    intro s i oacc acc hinv
    simp only [runLine]
    cases hst : step s (base + ↑i) ch with
    | err r => exact ⟨0, by simpa using hinv.1⟩
    | ok s' rw =>
      cases rw with
      | false =>
        have hinv' : HashInv s' (ch :: oacc) (ch :: acc) := by
          refine ⟨by simpa using Rw.append hinv.1 (Rw.refl [ch]), fun hm => Or.inr ?_⟩
          have := classify_hash ch (step_into_hash s _ ch s' hst hm)
          subst this
          exact ⟨oacc, acc, rfl, rfl, hinv.1⟩
        have := ih s' (i + 1) (ch :: oacc) (ch :: acc) hinv'
        dsimp only
        revert this
        cases runLine base s' (i + 1) rest (ch :: acc) with
        | done s2 out => intro this; simpa using this
        | panic => intro _; trivial
        | err s2 out r =>
          intro this
          obtain ⟨k, hk⟩ := this
          exact ⟨k + 1, by simpa using hk⟩
      | true =>
        obtain ⟨hm, hbang, hm'⟩ := step_rw_true s _ ch s' hst
        have hch := classify_bang ch hbang
        subst hch
        rcases hinv.2 hm with hnil | ⟨o', a', ho, ha, hrw⟩
        · subst hnil; simp
        · subst ho; subst ha
          have hinv' : HashInv s' (33 :: 35 :: o') (47 :: 47 :: a') := by
            refine ⟨?_, fun h => absurd h hm'⟩
            have := Rw.append hrw (Rw.hashbang Rw.nil)
            simpa using this
          have := ih s' (i + 1) (33 :: 35 :: o') (47 :: 47 :: a') hinv'
          dsimp only
          revert this
          cases runLine base s' (i + 1) rest (47 :: 47 :: a') with
          | done s2 out => intro this; simpa using this
          | panic => intro _; trivial
          | err s2 out r =>
            intro this
            obtain ⟨k, hk⟩ := this
            exact ⟨k + 1, by simpa using hk⟩

/-- one call: the chunk is the consumed input with `#!` as `//`; after a literal error it is
    such an image of a prefix of the consumed input (the rest of the offending line is dropped) -/
def ChunkRw (c : Chunk) : Prop :=
  match c.err with
  | .lit _ => ∃ pre, pre <+: c.orig ∧ Rw pre c.bytes
  | .panic => True
  | _ => Rw c.orig c.bytes

theorem chunkRw_eof (buf orig : List UInt8) (ft : Int) (s : St) (h : Rw orig buf) :
    ChunkRw ⟨buf, ft, eofErr s, orig⟩ := by
  unfold ChunkRw eofErr
  by_cases hp : s.paren > 0 <;> simp [hp, h]

theorem readLoop_rw (optAll : Bool) :
    ∀ (reads : List Read) (s : St) (buf orig : List UInt8), Rw orig buf →
    ChunkRw (readLoop optAll reads s buf orig).1 := by
  intro reads
  induction reads with
  | nil =>
    intro s buf orig h
    simp only [readLoop]; exact chunkRw_eof _ _ _ _ h
  | cons rd rest ih =>
    intro s buf orig h
    have hl := runLine_rw (↑buf.length) rd.line s 0 [] [] ⟨by simpa using Rw.nil, fun _ => Or.inl rfl⟩
    simp only [readLoop]
    cases hrl : runLine (↑buf.length) s 0 rd.line [] with
    | panic => simp [ChunkRw]
    | err s' out r =>
      simp [hrl] at hl
      obtain ⟨k, hk⟩ := hl
      exact ⟨orig ++ rd.line.take k, by simpa using List.take_prefix k rd.line, Rw.append h hk⟩
    | done s' out =>
      simp [hrl] at hl
      have h' : Rw (orig ++ rd.line) (buf ++ out) := Rw.append h hl
      dsimp only
      by_cases heof : rd.eof = true
      · rw [if_pos heof]; exact chunkRw_eof _ _ _ _ h'
      · rw [if_neg heof]
        by_cases hcut : cutCond optAll (eolMode s') = true
        · rw [if_pos hcut]
          split
          · exact ih _ _ _ h'
          · simpa [ChunkRw] using h'
        · rw [if_neg hcut]; exact ih _ _ _ h'

/-- consumed bytes and unread lines together are always the whole input -/
theorem readLoop_consumes (optAll : Bool) :
    ∀ (reads : List Read) (s : St) (buf orig : List UInt8),
    (readLoop optAll reads s buf orig).1.orig ++ ((readLoop optAll reads s buf orig).2.map (·.line)).flatten
      = orig ++ (reads.map (·.line)).flatten := by
  intro reads
  induction reads with
  | nil => intro s buf orig; simp [readLoop]
  | cons rd rest ih =>
    intro s buf orig
    simp only [readLoop]
    cases hrl : runLine (↑buf.length) s 0 rd.line [] with
    | panic => simp
    | err s' out r => simp
    | done s' out =>
      simp only
      split
      · simp
      · split
        · split
          · rw [ih]; simp
          · simp
        · rw [ih]; simp

/-! ### the caller's loop -/

/-- the reads left unread when the caller's loop stops (EOF reported, or fuel exhausted) -/
def readAllRest (optAll : Bool) : Nat → List Read → List Read
  | 0, reads => reads
  | fuel + 1, reads =>
    let (c, rest) := readMultiline optAll reads
    match c.err with
    | .eof | .ueof => rest
    | _ => readAllRest optAll fuel rest

theorem readAll_consumes (optAll : Bool) : ∀ (fuel : Nat) (reads : List Read),
    ((readAll optAll fuel reads).map (·.orig)).flatten ++ ((readAllRest optAll fuel reads).map (·.line)).flatten
      = (reads.map (·.line)).flatten := by
  intro fuel
  induction fuel with
  | zero => intro reads; simp [readAll, readAllRest]
  | succ fuel ih =>
    intro reads
    have hc := readLoop_consumes optAll reads init [] []
    simp only [readAll, readAllRest, readMultiline] at hc ⊢
    cases hr : readLoop optAll reads init [] [] with
    | mk c rest =>
      simp only [hr] at hc ⊢
      cases hce : c.err <;> simp only [List.map_cons, List.flatten_cons, List.map_nil, List.flatten_nil,
        List.append_nil, List.nil_append] at hc ⊢ <;>
        first
        | exact hc
        | (rw [List.append_assoc, ih rest]; exact hc)

theorem readAll_rw (optAll : Bool) : ∀ (fuel : Nat) (reads : List Read),
    (∀ c ∈ readAll optAll fuel reads, (∀ b, c.err ≠ .lit b) ∧ c.err ≠ .panic) →
    Rw ((readAll optAll fuel reads).map (·.orig)).flatten ((readAll optAll fuel reads).map (·.bytes)).flatten := by
  intro fuel
  induction fuel with
  | zero => intro reads _; simpa [readAll] using Rw.nil
  | succ fuel ih =>
    intro reads hok
    have hc := readLoop_rw optAll reads init [] [] Rw.nil
    simp only [readAll, readMultiline] at hok hc ⊢
    cases hr : readLoop optAll reads init [] [] with
    | mk c rest =>
      simp only [hr] at hok hc ⊢
      have hcrw : (∀ b, c.err ≠ .lit b) → c.err ≠ .panic → Rw c.orig c.bytes := by
        intro h1 h2
        unfold ChunkRw at hc
        cases hce : c.err <;> simp_all
      cases hce : c.err <;> simp only [hce] at hok ⊢ <;>
        simp only [List.map_cons, List.flatten_cons, List.map_nil, List.flatten_nil, List.append_nil]
      · have h := hok c (by simp)
        exact Rw.append (hcrw h.1 h.2) (ih rest (fun c' hc' => hok c' (by simp [hc'])))
      · have h := hok c (by simp); exact hcrw h.1 h.2
      · have h := hok c (by simp); exact hcrw h.1 h.2
      · exact absurd hce ((hok c (by simp)).1 _)
      · exact absurd hce (hok c (by simp)).2

/-! ### the whole stream: reference state at every cut -/

theorem readLoop_rest_wf (optAll : Bool) :
    ∀ (reads : List Read) (s : St) (buf orig : List UInt8), WF reads →
    WF (readLoop optAll reads s buf orig).2 := by
  intro reads
  induction reads with
  | nil => intro s buf orig h; simpa [readLoop] using h
  | cons rd rest ih =>
    intro s buf orig h
    have h' : WF rest := fun r hr => h r (by simp [hr])
    simp only [readLoop]
    cases hrl : runLine (↑buf.length) s 0 rd.line [] with
    | panic => exact h'
    | err s' out r => exact h'
    | done s' out =>
      dsimp only
      split
      · exact h'
      · split
        · split
          · exact ih _ _ _ h'
          · exact h'
        · exact ih _ _ _ h'

/-- the bracket depth of the reference lexer never goes negative on any prefix of `pre ++ bs` beyond `pre` -/
def NonNeg (pre bs : List UInt8) : Prop := ∀ k, 0 ≤ (rlex (pre ++ bs.take k)).depth

theorem readAll_balanced (optAll : Bool) : ∀ (fuel : Nat) (reads : List Read) (pre : List UInt8),
    WF reads → rlex pre = ⟨.code, 0⟩ → NonNeg pre (reads.map (·.line)).flatten →
    ∀ (cs₁ : List Chunk) (c : Chunk) (cs₂ : List Chunk), readAll optAll fuel reads = cs₁ ++ c :: cs₂ →
    (∀ c' ∈ cs₁, c'.err = .nil) → c.err = .nil →
    rlex (pre ++ (cs₁.map (·.orig)).flatten ++ c.orig) = ⟨.code, 0⟩ := by
  intro fuel
  induction fuel with
  | zero => intro reads pre _ _ _ cs₁ c cs₂ h; simp [readAll] at h
  | succ fuel ih =>
    intro reads pre hwf hpre hnn cs₁ c cs₂ hsplit hall hc
    have htr := readLoop_tracks optAll reads init [] [] hwf rfl
    have hcons := readLoop_consumes optAll reads init [] []
    have hrwf := readLoop_rest_wf optAll reads init [] [] hwf
    simp only [readAll, readMultiline] at hsplit
    cases hr : readLoop optAll reads init [] [] with
    | mk c0 rest =>
      simp only [hr] at hsplit htr hcons hrwf
      simp only [List.nil_append] at hcons
      -- the first chunk, when it is a cut, ends in code context at depth 0
      have hfirst : c0.err = .nil → rlex (pre ++ c0.orig) = ⟨.code, 0⟩ := by
        intro h0
        obtain ⟨d, hd, hle⟩ := htr.1 h0
        have h1 : rlex (pre ++ c0.orig) = ⟨.code, d⟩ := by
          rw [rlex_append, hpre]; exact hd
        have h2 := hnn c0.orig.length
        rw [← hcons, List.take_left'] at h2
        · rw [h1] at h2; simp only at h2
          have : d = 0 := by omega
          rw [h1, this]
        · rfl
      cases cs₁ with
      | nil =>
        have hc0 : c = c0 := by
          cases hce : c0.err <;> simp [hce] at hsplit <;> simp [hsplit]
        subst hc0
        simpa using hfirst hc
      | cons c1 cs₁' =>
        have hc1 : c1 = c0 ∧ readAll optAll fuel rest = cs₁' ++ c :: cs₂ := by
          cases hce : c0.err <;> simp [hce] at hsplit <;> simp [hsplit]
        obtain ⟨h10, hrest⟩ := hc1
        subst h10
        have h0 : c1.err = .nil := hall c1 (by simp)
        have hpre' := hfirst h0
        have hnn' : NonNeg (pre ++ c1.orig) (rest.map (·.line)).flatten := by
          intro k
          have := hnn (c1.orig.length + k)
          rw [← hcons] at this
          simpa [List.take_append, List.take_of_length_le, List.append_assoc] using this
        have := ih rest (pre ++ c1.orig) hrwf hpre' hnn' cs₁' c cs₂ hrest
          (fun c' hc' => hall c' (by simp [hc'])) hc
        simpa [List.append_assoc] using this

end ReadMulti
