import Model.PrintPrec
import Proofs.ParseExpr
/-! C25: print then parse on the expression core. -/
namespace PrintPrec
open ParseExpr

variable (T : Tables)

theorem level_le7 (hp : ∀ o, T.binPrec o ≤ 5) (e : Expr) : level T e ≤ 7 := by
  cases e <;> simp [level]
  have := hp ‹Nat›; omega

theorem print1_paren_paren (y : Expr) (p : Nat) : print1 T (.paren (.paren y)) p = print1 T (.paren y) 0 := by
  rw [print1]

theorem print1_paren_other (x : Expr) (p : Nat) (h : ∀ y, x ≠ .paren y) :
    print1 T (.paren x) p = Tok.lparen :: print1 T x 0 ++ [Tok.rparen] := by
  cases x <;> first | (exact absurd rfl (h _)) | rfl | simp [print1]

theorem norm1_paren_paren (y : Expr) (p : Nat) : norm1 T (.paren (.paren y)) p = norm1 T (.paren y) 0 := by
  rw [norm1]

theorem norm1_paren_other (x : Expr) (p : Nat) (h : ∀ y, x ≠ .paren y) :
    norm1 T (.paren x) p = .paren (norm1 T x 0) := by
  cases x <;> first | (exact absurd rfl (h _)) | rfl | simp [norm1]

theorem paren_cases (x : Expr) : (∃ y, x = .paren y) ∨ (∀ y, x ≠ .paren y) := by
  cases x <;> simp

/-- the printed tokens are the plain token sequence of the normalised tree -/
theorem print1_eq_flatten (e : Expr) : ∀ p, print1 T e p = flatten (norm1 T e p) := by
  induction e with
  | atom n => intro p; simp [print1, norm1, flatten]
  | bin l o r ihl ihr =>
    intro p
    simp only [print1, norm1]
    split <;> simp [flatten, ihl, ihr]
  | un o x ih =>
    intro p
    simp only [print1, norm1]
    split <;> simp [flatten, ih]
  | paren x ih =>
    intro p
    rcases paren_cases x with ⟨y, rfl⟩ | hx
    · rw [print1_paren_paren, norm1_paren_paren]; exact ih 0
    · rw [print1_paren_other T _ _ hx, norm1_paren_other T _ _ hx]; simp [flatten, ih]
  | sel x n ih => intro p; simp [print1, norm1, flatten, ih]
  | index x i ihx ihi => intro p; simp [print1, norm1, flatten, ihx, ihi]
  | call f a ihf iha => intro p; simp [print1, norm1, flatten, ihf, iha]

/-- the normalised tree needs no parentheses, binds at least as tightly as asked, and a `ParenExpr` stays primary -/
theorem norm1_wf (hp : ∀ o, T.binPrec o ≤ 5) (e : Expr) (hv : Valid T e) :
    ∀ p, p ≤ 7 → WF T (norm1 T e p) ∧ p ≤ level T (norm1 T e p) ∧ ((∃ y, e = .paren y) → level T (norm1 T e p) = 7) := by
  induction e with
  | atom n => intro p hp7; simp [norm1, WF, level]; exact hp7
  | bin l o r ihl ihr =>
    intro p hp7
    obtain ⟨h1, hvl, hvr⟩ := hv
    have hpo := hp o
    obtain ⟨wl, ll, _⟩ := ihl hvl (T.binPrec o) (by omega)
    obtain ⟨wr, lr, _⟩ := ihr hvr (T.binPrec o + 1) (by omega)
    have wb : WF T (Expr.bin (norm1 T l (T.binPrec o)) o (norm1 T r (T.binPrec o + 1))) := ⟨h1, ll, lr, wl, wr⟩
    simp only [norm1]
    split
    · exact ⟨wb, by simp [level]; exact hp7, by simp⟩
    · rename_i hge; exact ⟨wb, by simp [level]; omega, by simp⟩
  | un o x ih =>
    intro p hp7
    obtain ⟨hu, hvx⟩ := hv
    obtain ⟨wx, lx, _⟩ := ih hvx 6 (by omega)
    have wb : WF T (Expr.un o (norm1 T x 6)) := ⟨hu, lx, wx⟩
    simp only [norm1]
    split
    · exact ⟨wb, by simp [level]; exact hp7, by simp⟩
    · rename_i hge; exact ⟨wb, by simp [level]; omega, by simp⟩
  | paren x ih =>
    intro p hp7
    have hvx : Valid T x := hv
    obtain ⟨wx, _, px⟩ := ih hvx 0 (by omega)
    rcases paren_cases x with ⟨y, rfl⟩ | hx
    · rw [norm1_paren_paren]
      have := px ⟨y, rfl⟩
      exact ⟨wx, by omega, fun _ => this⟩
    · rw [norm1_paren_other T _ _ hx]
      exact ⟨wx, by simp [level]; exact hp7, fun _ => by simp [level]⟩
  | sel x n ih =>
    intro p hp7
    have hvx : Valid T x := hv
    obtain ⟨wx, lx, _⟩ := ih hvx 7 (by omega)
    have := level_le7 T hp (norm1 T x 7)
    simp only [norm1]
    exact ⟨⟨by omega, wx⟩, by simp [level]; exact hp7, by simp⟩
  | index x i ihx ihi =>
    intro p hp7
    obtain ⟨hvx, hvi⟩ := hv
    obtain ⟨wx, lx, _⟩ := ihx hvx 7 (by omega)
    obtain ⟨wi, _, _⟩ := ihi hvi 0 (by omega)
    have := level_le7 T hp (norm1 T x 7)
    simp only [norm1]
    exact ⟨⟨by omega, wx, wi⟩, by simp [level]; exact hp7, by simp⟩
  | call f a ihf iha =>
    intro p hp7
    obtain ⟨hvf, hva⟩ := hv
    obtain ⟨wf, lf, _⟩ := ihf hvf 7 (by omega)
    obtain ⟨wa, _, _⟩ := iha hva 0 (by omega)
    have := level_le7 T hp (norm1 T f 7)
    simp only [norm1]
    exact ⟨⟨by omega, wf, wa⟩, by simp [level]; exact hp7, by simp⟩

/-- **parse (print e) = normalize e** -/
theorem parse_print (hp : ∀ o, T.binPrec o ≤ 5) (e : Expr) (hv : Valid T e) :
    parseExpr T (print T e) = some (normalize T e) := by
  unfold print normalize
  rw [print1_eq_flatten]
  exact parseExpr_flatten T hp _ (norm1_wf T hp e hv 0 (by omega)).1

/-- a tree that needs no parentheses and has no doubled parentheses is left alone by the printer's decisions -/
theorem norm1_fixed (e : Expr) (hw : WF T e) (hd : NoDP e) : ∀ p, p ≤ level T e → norm1 T e p = e := by
  induction e with
  | atom n => intro p _; rfl
  | bin l o r ihl ihr =>
    intro p hpl
    obtain ⟨_, hll, hlr, wl, wr⟩ := hw
    simp only [level] at hpl
    simp only [norm1]
    rw [ihl wl hd.1 _ hll, ihr wr hd.2 _ hlr]
    have : ¬ T.binPrec o < p := by omega
    simp [this]
  | un o x ih =>
    intro p hpl
    obtain ⟨_, hlx, wx⟩ := hw
    simp only [level] at hpl
    simp only [norm1]
    rw [ih wx hd _ hlx]
    have : ¬ 6 < p := by omega
    simp [this]
  | paren x ih =>
    intro p _
    have wx : WF T x := hw
    obtain ⟨hnp, hdx⟩ := hd
    rw [norm1_paren_other T _ _ hnp, ih wx hdx 0 (Nat.zero_le _)]
  | sel x n ih =>
    intro p _
    obtain ⟨hlx, wx⟩ := hw
    simp only [norm1]; rw [ih wx hd 7 (by omega)]
  | index x i ihx ihi =>
    intro p _
    obtain ⟨hlx, wx, wi⟩ := hw
    simp only [norm1]; rw [ihx wx hd.1 7 (by omega), ihi wi hd.2 0 (Nat.zero_le _)]
  | call f a ihf iha =>
    intro p _
    obtain ⟨hlf, wf, wa⟩ := hw
    simp only [norm1]; rw [ihf wf hd.1 7 (by omega), iha wa hd.2 0 (Nat.zero_le _)]

/-- at level 0 the root constructor is kept unless it is a `ParenExpr` -/
theorem norm1_zero_not_paren (e : Expr) (h : ∀ y, e ≠ .paren y) : ∀ y, norm1 T e 0 ≠ .paren y := by
  cases e with
  | paren x => exact absurd rfl (h x)
  | atom n => intro y; simp [norm1]
  | bin l o r => intro y; simp [norm1]
  | un o x => intro y; simp [norm1]
  | sel x n => intro y; simp [norm1]
  | index x i => intro y; simp [norm1]
  | call f a => intro y; simp [norm1]

/-- the normalised tree has no doubled parentheses -/
theorem norm1_nodp (e : Expr) : ∀ p, NoDP (norm1 T e p) := by
  induction e with
  | atom n => intro p; simp [norm1, NoDP]
  | bin l o r ihl ihr =>
    intro p
    simp only [norm1]
    split
    · exact ⟨by intro y; simp, ihl _, ihr _⟩
    · exact ⟨ihl _, ihr _⟩
  | un o x ih =>
    intro p
    simp only [norm1]
    split
    · exact ⟨by intro y; simp, ih _⟩
    · exact ih _
  | paren x ih =>
    intro p
    rcases paren_cases x with ⟨y, rfl⟩ | hx
    · rw [norm1_paren_paren]; exact ih 0
    · rw [norm1_paren_other T _ _ hx]; exact ⟨norm1_zero_not_paren T _ hx, ih 0⟩
  | sel x n ih => intro p; simp only [norm1]; exact ih 7
  | index x i ihx ihi => intro p; simp only [norm1]; exact ⟨ihx 7, ihi 0⟩
  | call f a ihf iha => intro p; simp only [norm1]; exact ⟨ihf 7, iha 0⟩

/-- normalising twice is normalising once -/
theorem normalize_idem (hp : ∀ o, T.binPrec o ≤ 5) (e : Expr) (hv : Valid T e) :
    normalize T (normalize T e) = normalize T e := by
  unfold normalize
  exact norm1_fixed T _ (norm1_wf T hp e hv 0 (by omega)).1 (norm1_nodp T e 0) 0 (Nat.zero_le _)

/-- **print ∘ parse ∘ print = print**: printing the reparsed tree yields the same tokens again -/
theorem print_parse_print (hp : ∀ o, T.binPrec o ≤ 5) (e : Expr) (hv : Valid T e) :
    (parseExpr T (print T e)).map (print T) = some (print T e) := by
  rw [parse_print T hp e hv]
  simp only [Option.map]
  unfold print
  rw [print1_eq_flatten, print1_eq_flatten]
  have := normalize_idem T hp e hv
  unfold normalize at this ⊢
  rw [this]

theorem wf_valid (e : Expr) (hw : WF T e) : Valid T e := by
  induction e with
  | atom n => trivial
  | bin l o r ihl ihr => exact ⟨hw.1, ihl hw.2.2.2.1, ihr hw.2.2.2.2⟩
  | un o x ih => exact ⟨hw.1, ih hw.2.2⟩
  | paren x ih => exact ih hw
  | sel x n ih => exact ih hw.2
  | index x i ihx ihi => exact ⟨ihx hw.2.1, ihi hw.2.2⟩
  | call f a ihf iha => exact ⟨ihf hw.2.1, iha hw.2.2⟩

/-- a tree produced by the parser, unless it has directly nested parentheses, is a fixed point: printing and
    reparsing gives it back exactly -/
theorem parsed_roundtrip (hp : ∀ o, T.binPrec o ≤ 5) (ts : List Tok) (t : Expr) (h : parseExpr T ts = some t)
    (hd : NoDP t) : normalize T t = t ∧ parseExpr T (print T t) = some t := by
  obtain ⟨_, w⟩ := parseExpr_sound T hp ts t h
  have hn : normalize T t = t := norm1_fixed T t w hd 0 (Nat.zero_le _)
  refine ⟨hn, ?_⟩
  rw [parse_print T hp t (wf_valid T t w), hn]

theorem validb_iff (e : Expr) : validb T e = true ↔ Valid T e := by
  induction e <;> simp_all [validb, Valid, and_assoc]

end PrintPrec
