import Proofs.FlowSim

/-! Top-level consequences of the simulation: stack-height invariant of the reference semantics,
    determinism/monotonicity of the flat machine, whole-program correctness. -/

namespace Flow
open Ref

/-! ### the reference semantics keeps the height of the frame stack and never yields `goto` on Core -/

def Good (st st' : St) (o : Outcome) : Prop :=
  (∀ l, o ≠ .goto l) ∧ (st.stack ≠ [] → st'.stack.length = st.stack.length)

theorem assignS_length (x : Var) (v : Int) : ∀ s : Stack, (assignS x v s).length = s.length := by
  intro s
  induction s with
  | nil => rfl
  | cons f r ih => simp only [assignS]; split <;> simp [ih]

theorem defineS_length (x : Var) (v : Int) (s : Stack) (h : s ≠ []) : (defineS x v s).length = s.length := by
  cases s with
  | nil => exact absurd rfl h
  | cons f r => simp [defineS]

theorem Good.trans {st st1 st' : St} {o : Outcome} (h1 : Good st st1 .normal) (h2 : Good st1 st' o) : Good st st' o := by
  refine ⟨h2.1, fun hne => ?_⟩
  have e1 := h1.2 hne
  have : st1.stack ≠ [] := by
    intro h; rw [h] at e1; simp at e1; exact hne (List.length_eq_zero_iff.mp e1.symm)
  rw [h2.2 this, e1]

theorem Good.wrap {st st3 : St} {o : Outcome} {loc : Bool} (h : Good (st.pushIf loc) st3 o) :
    Good st (st3.popIf loc) o := by
  refine ⟨h.1, fun hne => ?_⟩
  cases loc
  · exact h.2 hne
  · have := h.2 (by simp [St.push])
    simp [St.popIf, St.push] at this ⊢
    omega

def GL (n : Nat) : Prop := ∀ (s : Stmt) (st : St) (o : Outcome) (st' : St),
  Core s = true → exec n s st = .ok o st' → Good st st' o
def GLB (n : Nat) : Prop := ∀ (b : Stmt) (st : St) (o : Outcome) (st' : St),
  Core b = true → execBlock n b st = .ok o st' → Good st st' o
def GLF (n : Nat) : Prop := ∀ (b : Stmt) (st : St) (o : Outcome) (st' : St),
  Core b = true → execFrom n b b st = .ok o st' → Good st st' o
def GLL (n : Nat) : Prop := ∀ (ls : List Label) (c : Option Cond) (post body : Stmt) (st : St) (o : Outcome) (st' : St),
  SimpleS post = true → Core body = true → execLoop n ls c post body st = .ok o st' → Good st st' o

theorem good_refl (st : St) (o : Outcome) (h : ∀ l, o ≠ .goto l) : Good st st o := ⟨h, fun _ => rfl⟩

theorem GL_succ {n : Nat} (hs : GL n) (hb : GLB n) (hl : GLL n) : GL (n + 1) := by
  intro s st o st' hcore he
  cases s with
  | skip => simp only [exec, XRes.ok.injEq] at he; obtain ⟨rfl, rfl⟩ := he; exact good_refl _ _ (by simp)
  | emit t e =>
    simp only [exec, XRes.ok.injEq] at he; obtain ⟨rfl, rfl⟩ := he
    exact ⟨by simp, fun _ => rfl⟩
  | assign x e =>
    simp only [exec, XRes.ok.injEq] at he; obtain ⟨rfl, rfl⟩ := he
    exact ⟨by simp, fun _ => by simp [St.assign, assignS_length]⟩
  | define x e =>
    simp only [exec, XRes.ok.injEq] at he; obtain ⟨rfl, rfl⟩ := he
    exact ⟨by simp, fun h => by simp [St.define, defineS_length _ _ _ h]⟩
  | brk l => simp only [exec, XRes.ok.injEq] at he; obtain ⟨rfl, rfl⟩ := he; exact good_refl _ _ (by simp)
  | cont l => simp only [exec, XRes.ok.injEq] at he; obtain ⟨rfl, rfl⟩ := he; exact good_refl _ _ (by simp)
  | ret => simp only [exec, XRes.ok.injEq] at he; obtain ⟨rfl, rfl⟩ := he; exact good_refl _ _ (by simp)
  | seq a b =>
    simp only [Core, Bool.and_eq_true] at hcore
    simp only [exec] at he
    split at he
    · rename_i st1 hx
      exact (hs a st .normal st1 hcore.1 hx).trans (hs b st1 o st' hcore.2 he)
    · exact hs a st o st' hcore.1 he
  | block b =>
    simp only [Core] at hcore
    simp only [exec] at he
    exact hb b st o st' hcore he
  | ite init c thn els =>
    simp only [Core, Bool.and_eq_true] at hcore
    obtain ⟨⟨hi, ht⟩, hels⟩ := hcore
    simp only [exec] at he
    split at he
    · rename_i st2 hx
      split at he
      · rename_i o1 st3 hy
        simp only [XRes.ok.injEq] at he
        obtain ⟨rfl, rfl⟩ := he
        have h1 := hs init _ .normal st2 (SimpleS.core hi) hx
        have h2 : Good st2 st3 o1 := by
          split at hy
          · exact hb thn st2 o1 st3 ht hy
          · exact hs els st2 o1 st3 hels hy
        exact Good.wrap (h1.trans h2)
      · cases he
    · rename_i o1 st2 hne hx
      exact (hne (SimpleS.exec_normal hi hx)).elim
    · cases he
  | «for» ls init c post body =>
    simp only [Core, Bool.and_eq_true] at hcore
    obtain ⟨⟨hi, hp⟩, hbody⟩ := hcore
    simp only [exec] at he
    split at he
    · rename_i st2 hx
      split at he
      · rename_i o1 st3 hy
        simp only [XRes.ok.injEq] at he
        obtain ⟨rfl, rfl⟩ := he
        have h1 := hs init _ .normal st2 (SimpleS.core hi) hx
        exact Good.wrap (h1.trans (hl ls c post body st2 o1 st3 hp hbody hy))
      · cases he
    · rename_i o1 st2 hne hx
      exact (hne (SimpleS.exec_normal hi hx)).elim
    · cases he
  | labeled l s => simp [Core] at hcore
  | goto l => simp [Core] at hcore
  | range ls str dfn key val keys vals body => simp [Core] at hcore
  | switch ls init tag cls => simp [Core] at hcore
  | clause g ft body rest => simp [Core] at hcore

theorem GLF_succ {n : Nat} (hs : GL n) : GLF (n + 1) := by
  intro b st o st' hcore he
  simp only [execFrom] at he
  split at he
  · rename_i l st1 hx
    exact absurd rfl ((hs b st (.goto l) st1 hcore hx).1 l)
  · exact hs b st o st' hcore he

theorem GLB_succ {n : Nat} (hf : GLF n) : GLB (n + 1) := by
  intro b st o st' hcore he
  simp only [execBlock] at he
  split at he
  · rename_i o1 st1 hx
    simp only [XRes.ok.injEq] at he
    obtain ⟨rfl, rfl⟩ := he
    exact Good.wrap (hf b _ o1 st1 hcore hx)
  · cases he

theorem GLL_succ {n : Nat} (hs : GL n) (hb : GLB n) (hl : GLL n) : GLL (n + 1) := by
  intro ls c post body st o st' hpost hbody he
  simp only [execLoop] at he
  split at he
  · split at he
    · rename_i ob st1 hx
      have h1 := hb body st ob st1 hbody hx
      split at he
      · rename_i hnext
        have h1' : Good st st1 .normal := ⟨by simp, h1.2⟩
        split at he
        · rename_i st2 hy
          exact h1'.trans ((hs post st1 .normal st2 (SimpleS.core hpost) hy).trans (hl ls c post body st2 o st' hpost hbody he))
        · rename_i hne
          cases hr : exec n post st1 with
          | timeout => rw [hr] at he; cases he
          | ok o2 st2 =>
            have := SimpleS.exec_normal hpost hr
            subst this
            exact (hne st2 hr).elim
      · simp only [XRes.ok.injEq] at he
        obtain ⟨rfl, rfl⟩ := he
        refine ⟨?_, h1.2⟩
        intro l
        cases ob with
        | goto l' => exact absurd rfl (h1.1 l')
        | brk l' => simp only [loopExit]; split <;> simp
        | _ => simp [loopExit]
    · cases he
  · simp only [XRes.ok.injEq] at he
    obtain ⟨rfl, rfl⟩ := he
    exact good_refl _ _ (by simp)

theorem good_all : ∀ n, GL n ∧ GLB n ∧ GLF n ∧ GLL n := by
  intro n
  induction n with
  | zero =>
    refine ⟨?_, ?_, ?_, ?_⟩
    · intro s st o st' _ he; simp [exec] at he
    · intro b st o st' _ he; simp [execBlock] at he
    · intro b st o st' _ he; simp [execFrom] at he
    · intro ls c post body st o st' _ _ he; simp [execLoop] at he
  | succ n ih =>
    obtain ⟨hs, hb, hf, hl⟩ := ih
    exact ⟨GL_succ hs hb hl, GLB_succ hf, GLF_succ hs, GLL_succ hs hb hl⟩

/-! ### the flat machine is a deterministic function of the fuel: more fuel never changes a finished run -/

theorem runCfg_mono {C : Code} : ∀ (k : Nat) (c : Cfg) (r : Res), Flat.runCfg C k c = r → r ≠ .timeout →
    ∀ m, k ≤ m → Flat.runCfg C m c = r := by
  intro k
  induction k with
  | zero => intro c r h hne; simp [Flat.runCfg] at h; exact absurd h.symm hne
  | succ k ih =>
    intro c r h hne m hm
    obtain ⟨m', rfl⟩ : ∃ m', m = m' + 1 := ⟨m - 1, by omega⟩
    simp only [Flat.runCfg] at h ⊢
    split
    · rename_i c' hs
      rw [hs] at h
      exact ih c' r h hne m' (by omega)
    · rename_i st hs
      rw [hs] at h; exact h
    · rename_i hs
      rw [hs] at h; exact h

end Flow
