import GoSpec.Str
/-! Lemmas about `GoSpec.Str`: the decoder inverts the encoder on every scalar value. -/
namespace GoSpec.Str

def validNat (c : Nat) : Prop := c ≤ 0x10FFFF ∧ ¬ (0xD800 ≤ c ∧ c ≤ 0xDFFF)

theorem sanitize_valid (c : Int) : validNat (sanitize c) := by
  unfold sanitize validNat
  split
  · rename_i h
    unfold validRune at h
    omega
  · unfold runeError; omega

theorem decodeOne_width_pos (bs : List Nat) : 1 ≤ (decodeOne bs).2 := by
  unfold decodeOne
  simp only []
  split
  · simp
  · split
    · simp
    · split
      · simp
      · split <;> simp

theorem encodeNat_length_pos (c : Nat) : 1 ≤ (encodeNat c).length := by
  unfold encodeNat; repeat' split
  all_goals simp

theorem byteAt0 (a : Nat) (l : List Nat) : byteAt (a :: l) 0 = a := rfl
theorem byteAt1 (a b : Nat) (l : List Nat) : byteAt (a :: b :: l) 1 = b := rfl
theorem byteAt2 (a b c : Nat) (l : List Nat) : byteAt (a :: b :: c :: l) 2 = c := rfl
theorem byteAt3 (a b c d : Nat) (l : List Nat) : byteAt (a :: b :: c :: d :: l) 3 = d := rfl

theorem decodeOne1 (a : Nat) (l : List Nat) (h : a < 0x80) : decodeOne (a :: l) = (a, 1) := by
  have e0 := byteAt0 a l
  unfold decodeOne
  simp only []
  rw [e0, if_pos h]

theorem decodeOne2 (a b : Nat) (l : List Nat) (h : 0xC2 ≤ a ∧ a ≤ 0xDF) (hb : isCont b) :
    decodeOne (a :: b :: l) = ((a - 0xC0) * 64 + (b - 0x80), 2) := by
  have h0 : ¬ a < 0x80 := by omega
  have e0 := byteAt0 a (b :: l)
  have e1 := byteAt1 a b l
  unfold decodeOne
  simp only []
  rw [e0, e1]
  rw [if_neg h0, if_pos ⟨h.1, h.2, hb⟩]

theorem decodeOne3 (a b c : Nat) (l : List Nat) (h : 0xE0 ≤ a ∧ a ≤ 0xEF)
    (hb : lo2 a ≤ b ∧ b ≤ hi2 a) (hc : isCont c) :
    decodeOne (a :: b :: c :: l) = ((a - 0xE0) * 4096 + (b - 0x80) * 64 + (c - 0x80), 3) := by
  have h0 : ¬ a < 0x80 := by omega
  have h1 : ¬ (0xC2 ≤ a ∧ a ≤ 0xDF ∧ isCont b) := by omega
  have e0 := byteAt0 a (b :: c :: l)
  have e1 := byteAt1 a b (c :: l)
  have e2 := byteAt2 a b c l
  unfold decodeOne
  simp only []
  rw [e0, e1, e2]
  rw [if_neg h0, if_neg h1, if_pos ⟨h.1, h.2, hb.1, hb.2, hc⟩]

theorem decodeOne4 (a b c d : Nat) (l : List Nat) (h : 0xF0 ≤ a ∧ a ≤ 0xF4)
    (hb : lo2 a ≤ b ∧ b ≤ hi2 a) (hc : isCont c) (hd : isCont d) :
    decodeOne (a :: b :: c :: d :: l) =
      ((a - 0xF0) * 262144 + (b - 0x80) * 4096 + (c - 0x80) * 64 + (d - 0x80), 4) := by
  have h0 : ¬ a < 0x80 := by omega
  have h1 : ¬ (0xC2 ≤ a ∧ a ≤ 0xDF ∧ isCont b) := by omega
  have h2 : ¬ (0xE0 ≤ a ∧ a ≤ 0xEF ∧ lo2 a ≤ b ∧ b ≤ hi2 a ∧ isCont c) := by omega
  have e0 := byteAt0 a (b :: c :: d :: l)
  have e1 := byteAt1 a b (c :: d :: l)
  have e2 := byteAt2 a b c (d :: l)
  have e3 := byteAt3 a b c d l
  unfold decodeOne
  simp only []
  rw [e0, e1, e2, e3]
  rw [if_neg h0, if_neg h1, if_neg h2, if_pos ⟨h.1, h.2, hb.1, hb.2, hc, hd⟩]

theorem lo2_hi2_3 (c : Nat) (h2 : ¬ c < 0x800) (h3 : c < 0x10000) (hs : ¬ (0xD800 ≤ c ∧ c ≤ 0xDFFF)) :
    lo2 (0xE0 + c / 4096) ≤ 0x80 + c / 64 % 64 ∧ 0x80 + c / 64 % 64 ≤ hi2 (0xE0 + c / 4096) := by
  unfold lo2 hi2
  constructor
  · split
    · omega
    · split <;> omega
  · split
    · omega
    · split <;> omega

theorem lo2_hi2_4 (c : Nat) (h3 : ¬ c < 0x10000) (hm : c ≤ 0x10FFFF) :
    lo2 (0xF0 + c / 262144) ≤ 0x80 + c / 4096 % 64 ∧ 0x80 + c / 4096 % 64 ≤ hi2 (0xF0 + c / 262144) := by
  unfold lo2 hi2
  constructor
  · split
    · omega
    · split <;> omega
  · split
    · omega
    · split <;> omega

/-- the decoder reads back exactly the code point that was encoded, and consumes its bytes -/
theorem decodeOne_encodeNat (c : Nat) (hc : validNat c) (rest : List Nat) :
    decodeOne (encodeNat c ++ rest) = (c, (encodeNat c).length) := by
  unfold validNat at hc
  unfold encodeNat
  by_cases h1 : c < 0x80
  · rw [if_pos h1]
    exact decodeOne1 c rest h1
  · rw [if_neg h1]
    by_cases h2 : c < 0x800
    · rw [if_pos h2]
      show decodeOne (_ :: _ :: rest) = _
      rw [decodeOne2 _ _ _ (by omega) (by unfold isCont; omega)]
      apply Prod.ext
      · show _ = c
        omega
      · rfl
    · rw [if_neg h2]
      by_cases h3 : c < 0x10000
      · rw [if_pos h3]
        show decodeOne (_ :: _ :: _ :: rest) = _
        rw [decodeOne3 _ _ _ _ (by omega) (lo2_hi2_3 c h2 h3 hc.2) (by unfold isCont; omega)]
        apply Prod.ext
        · show _ = c
          omega
        · rfl
      · rw [if_neg h3]
        show decodeOne (_ :: _ :: _ :: _ :: rest) = _
        rw [decodeOne4 _ _ _ _ _ (by omega) (lo2_hi2_4 c h3 hc.1) (by unfold isCont; omega) (by unfold isCont; omega)]
        apply Prod.ext
        · show _ = c
          omega
        · rfl

/-- more fuel than bytes changes nothing -/
theorem decodeFuel_enough : ∀ (f : Nat) (bs : List Nat), bs.length ≤ f →
    decodeFuel f bs = decodeFuel bs.length bs := by
  intro f
  induction f using Nat.strongRecOn with
  | _ f ih =>
    intro bs hlen
    match f, bs, hlen with
    | 0, [], _ => rfl
    | _ + 1, [], _ => rfl
    | 0, b :: bs, hlen => simp at hlen
    | f + 1, b :: bs, hlen =>
      simp only [List.length_cons, decodeFuel]
      congr 1
      have hw := decodeOne_width_pos (b :: bs)
      have hlen' : ((b :: bs).drop (decodeOne (b :: bs)).2).length ≤ bs.length := by
        simp only [List.length_drop, List.length_cons]; omega
      simp only [List.length_cons] at hlen
      rw [ih f (by omega) _ (by omega)]
      rw [ih bs.length (by omega) _ hlen']

theorem decode_cons (b : Nat) (bs : List Nat) :
    decode (b :: bs) = (decodeOne (b :: bs)).1 :: decode ((b :: bs).drop (decodeOne (b :: bs)).2) := by
  unfold decode
  simp only [List.length_cons, decodeFuel]
  congr 1
  apply decodeFuel_enough
  have hw := decodeOne_width_pos (b :: bs)
  simp only [List.length_drop, List.length_cons]; omega

theorem decode_encodeNat_append (c : Nat) (hc : validNat c) (rest : List Nat) :
    decode (encodeNat c ++ rest) = c :: decode rest := by
  have hpos := encodeNat_length_pos c
  match he : encodeNat c with
  | [] => simp [he] at hpos
  | b :: bs =>
    have h1 := decodeOne_encodeNat c hc rest
    rw [he] at h1
    simp only [List.cons_append] at h1 ⊢
    rw [decode_cons, h1]
    simp only [List.length_cons]
    congr 1
    have : (b :: (bs ++ rest)).drop (bs.length + 1) = rest := by
      simp
    rw [this]

end GoSpec.Str
