import Model.Frames

/-! Lemmas about `Model/Frames.lean`: heap access, `markLoop`, `alloc`, `free`, and the invariant
    `Inv` preserved by every step of either machine. -/
namespace Frames

/-! ### heap access -/

theorem getF_eq (h : List Frame) (e : Nat) : getF h e = (h[e]?).getD default := by
  simp [getF, List.getD_eq_getElem?_getD]

theorem getF_of_getElem? {h : List Frame} {e : Nat} {fr : Frame} (hh : h[e]? = some fr) : getF h e = fr := by
  simp [getF_eq, hh]

theorem getF_ge {h : List Frame} {e : Nat} (hh : h.length ≤ e) : getF h e = default := by
  simp [getF_eq, List.getElem?_eq_none hh]

theorem getElem?_of_lt {h : List Frame} {e : Nat} (hh : e < h.length) : h[e]? = some (getF h e) := by
  simp [getF_eq, List.getElem?_eq_getElem hh]

theorem getF_set (h : List Frame) (e x : Nat) (f : Frame) :
    getF (h.set e f) x = if x = e ∧ e < h.length then f else getF h x := by
  simp only [getF_eq, List.getElem?_set]
  by_cases hx : e = x
  · subst hx
    by_cases hl : e < h.length
    · simp [hl]
    · simp [hl, List.getElem?_eq_none (Nat.le_of_not_lt hl)]
  · have : ¬ (x = e) := fun h => hx h.symm
    simp [hx, this]

theorem getF_set_eq {h : List Frame} {e : Nat} (f : Frame) (hl : e < h.length) : getF (h.set e f) e = f := by
  simp [getF_set, hl]

theorem getF_set_ne {h : List Frame} {e x : Nat} (f : Frame) (hne : x ≠ e) : getF (h.set e f) x = getF h x := by
  simp [getF_set, hne]

theorem getF_append_lt {h : List Frame} {x : Nat} (f : Frame) (hl : x < h.length) : getF (h ++ [f]) x = getF h x := by
  simp [getF_eq, List.getElem?_append_left hl]

theorem getF_append_eq (h : List Frame) (f : Frame) : getF (h ++ [f]) h.length = f := by
  simp [getF_eq]

theorem getF_append (h : List Frame) (f : Frame) (x : Nat) :
    getF (h ++ [f]) x = if x = h.length then f else getF h x := by
  by_cases hx : x = h.length
  · subst hx; simp [getF_append_eq]
  · simp only [hx, if_false]
    by_cases hl : x < h.length
    · exact getF_append_lt f hl
    · have h1 : h.length ≤ x := Nat.le_of_not_lt hl
      have h2 : (h ++ [f]).length ≤ x := by simp; omega
      rw [getF_ge h1, getF_ge h2]

theorem default_frame_used : (default : Frame).used = false := rfl
theorem default_frame_outer : (default : Frame).outer = none := rfl
theorem default_frame_ints : (default : Frame).ints = none := rfl
theorem default_frame_addr : (default : Frame).addr = false := rfl

/-! ### MarkUsedByClosure -/

/-- number of frames not yet marked -/
def unmarked : List Frame → Nat
  | [] => 0
  | f :: t => (if f.used then 0 else 1) + unmarked t

theorem unmarked_le (h : List Frame) : unmarked h ≤ h.length := by
  induction h with
  | nil => simp [unmarked]
  | cons f t ih => simp only [unmarked, List.length_cons]; split <;> omega

theorem unmarked_set {h : List Frame} {e : Nat} {fr : Frame} (hh : h[e]? = some fr) (hu : fr.used = false) :
    unmarked (h.set e { fr with used := true }) + 1 = unmarked h := by
  induction h generalizing e with
  | nil => simp at hh
  | cons f t ih =>
    cases e with
    | zero =>
      simp at hh; subst hh
      simp [unmarked, hu]; omega
    | succ n =>
      simp at hh
      have := ih hh
      simp only [List.set_cons_succ, unmarked]
      omega

theorem markLoop_length (fuel : Nat) (h : List Frame) (e : Option Nat) : (markLoop fuel h e).length = h.length := by
  induction fuel generalizing h e with
  | zero => simp [markLoop]
  | succ n ih =>
    cases e with
    | none => simp [markLoop]
    | some e =>
      simp only [markLoop]
      split
      · rfl
      · split
        · rfl
        · rw [ih]; simp

/-- marking changes nothing but the `used` flag, and only from false to true -/
theorem markLoop_frame (fuel : Nat) (h : List Frame) (e : Option Nat) (x : Nat) :
    getF (markLoop fuel h e) x = { getF h x with used := (getF (markLoop fuel h e) x).used } ∧
    ((getF h x).used = true → (getF (markLoop fuel h e) x).used = true) := by
  induction fuel generalizing h e with
  | zero => simp [markLoop]
  | succ n ih =>
    cases e with
    | none => simp [markLoop]
    | some e =>
      simp only [markLoop]
      split
      · simp
      · rename_i fr hfr
        split
        · simp
        · rename_i hu
          have hl : e < h.length := by
            rcases Nat.lt_or_ge e h.length with hl | hl
            · exact hl
            · simp [List.getElem?_eq_none hl] at hfr
          have hfe : getF h e = fr := getF_of_getElem? hfr
          have := ih (h.set e { fr with used := true }) fr.outer
          obtain ⟨h1, h2⟩ := this
          constructor
          · rw [h1]
            by_cases hx : x = e
            · subst hx; simp [getF_set_eq _ hl, hfe]
            · simp [getF_set_ne _ hx]
          · intro hux
            apply h2
            by_cases hx : x = e
            · subst hx; simp [getF_set_eq _ hl]
            · simpa [getF_set_ne _ hx] using hux

theorem markLoop_outer (fuel : Nat) (h : List Frame) (e : Option Nat) (x : Nat) :
    (getF (markLoop fuel h e) x).outer = (getF h x).outer := by
  have := (markLoop_frame fuel h e x).1; rw [this]

theorem markLoop_ints (fuel : Nat) (h : List Frame) (e : Option Nat) (x : Nat) :
    (getF (markLoop fuel h e) x).ints = (getF h x).ints := by
  have := (markLoop_frame fuel h e x).1; rw [this]

theorem markLoop_addr (fuel : Nat) (h : List Frame) (e : Option Nat) (x : Nat) :
    (getF (markLoop fuel h e) x).addr = (getF h x).addr := by
  have := (markLoop_frame fuel h e x).1; rw [this]

theorem markLoop_mono (fuel : Nat) (h : List Frame) (e : Option Nat) (x : Nat) :
    (getF h x).used = true → (getF (markLoop fuel h e) x).used = true :=
  (markLoop_frame fuel h e x).2

/-- every frame that `markLoop` marks lies in any set containing the start and closed under `Outer` -/
theorem markLoop_within (P : Nat → Prop) (fuel : Nat) (h : List Frame) (e : Option Nat)
    (hcl : ∀ y o, P y → (getF h y).outer = some o → P o)
    (he : ∀ y, e = some y → P y) (x : Nat) :
    (getF (markLoop fuel h e) x).used = true → (getF h x).used = true ∨ P x := by
  induction fuel generalizing h e with
  | zero => intro hu; left; simpa [markLoop] using hu
  | succ n ih =>
    cases e with
    | none => intro hu; left; simpa [markLoop] using hu
    | some e =>
      simp only [markLoop]
      split
      · intro hu; left; exact hu
      · rename_i fr hfr
        split
        · intro hu; left; exact hu
        · rename_i hu0
          have hl : e < h.length := by
            rcases Nat.lt_or_ge e h.length with hl | hl
            · exact hl
            · simp [List.getElem?_eq_none hl] at hfr
          have hfe : getF h e = fr := getF_of_getElem? hfr
          intro hu
          have hcl' : ∀ y o, P y → (getF (h.set e { fr with used := true }) y).outer = some o → P o := by
            intro y o hy ho
            apply hcl y o hy
            by_cases hye : y = e
            · subst hye; rw [getF_set_eq _ hl] at ho; rw [hfe]; exact ho
            · rw [getF_set_ne _ hye] at ho; exact ho
          have he' : ∀ y, fr.outer = some y → P y := by
            intro y hy
            exact hcl e y (he e rfl) (by rw [hfe]; exact hy)
          rcases ih (h.set e { fr with used := true }) fr.outer hcl' he' hu with h1 | h1
          · by_cases hx : x = e
            · subst hx; right; exact he x rfl
            · left; simpa [getF_set_ne _ hx] using h1
          · right; exact h1

/-- `used` is closed under `Outer` except possibly at the frame the loop is about to visit -/
def UpClosedExcept (h : List Frame) (cur : Option Nat) : Prop :=
  ∀ x o, (getF h x).used = true → (getF h x).outer = some o → (getF h o).used = true ∨ cur = some o

theorem markLoop_upclosed (fuel : Nat) (h : List Frame) (e : Option Nat)
    (hlt : ∀ x o, (getF h x).outer = some o → o < h.length)
    (hpre : UpClosedExcept h e) (hfuel : unmarked h < fuel) :
    UpClosedExcept (markLoop fuel h e) none := by
  induction fuel generalizing h e with
  | zero => omega
  | succ n ih =>
    cases e with
    | none => simpa [markLoop] using hpre
    | some e =>
      simp only [markLoop]
      split
      · rename_i hnone
        -- e out of range: impossible target of an outer pointer, so hpre is already closed
        intro x o hx ho
        rcases hpre x o hx ho with h1 | h1
        · left; exact h1
        · exfalso
          have : o < h.length := hlt x o ho
          simp at h1; subst h1
          simp [List.getElem?_eq_none_iff] at hnone; omega
      · rename_i fr hfr
        have hl : e < h.length := by
          rcases Nat.lt_or_ge e h.length with hl | hl
          · exact hl
          · simp [List.getElem?_eq_none hl] at hfr
        have hfe : getF h e = fr := getF_of_getElem? hfr
        split
        · rename_i hu
          intro x o hx ho
          rcases hpre x o hx ho with h1 | h1
          · left; exact h1
          · left; simp at h1; subst h1; rw [hfe]; exact hu
        · rename_i hu
          have hu' : fr.used = false := by simpa using hu
          apply ih
          · intro x o ho
            simp only [List.length_set]
            by_cases hxe : x = e
            · subst hxe; rw [getF_set_eq _ hl] at ho; exact hlt x o (by rw [hfe]; exact ho)
            · rw [getF_set_ne _ hxe] at ho; exact hlt x o ho
          · intro x o hx ho
            by_cases hxe : x = e
            · subst hxe
              rw [getF_set_eq _ hl] at ho
              right; simpa using ho
            · rw [getF_set_ne _ hxe] at hx ho
              rcases hpre x o hx ho with h1 | h1
              · left
                by_cases hoe : o = e
                · subst hoe; simp [getF_set_eq _ hl]
                · rw [getF_set_ne _ hoe]; exact h1
              · left; simp at h1; subst h1; simp [getF_set_eq _ hl]
          · have := unmarked_set hfr hu'
            omega

end Frames

namespace Frames

/-! ### the invariant -/

/-- an activation `[b0, ..., bn]`: `Outer` links consecutive frames; the function frame `bn`
    hangs off a frame marked `UsedByClosure` (the env captured by the function value) -/
def ActOK (h : List Frame) : List Nat → Prop
  | [] => True
  | [f] => ∃ c, (getF h f).outer = some c ∧ (getF h c).used = true
  | b :: c :: rest => (getF h b).outer = some c ∧ ActOK h (c :: rest)

structure Inv (s : State) : Prop where
  nodup : (s.pool ++ s.stack.flatten).Nodup
  pool_len : s.pool.length ≤ poolCap
  pool_lt : ∀ p ∈ s.pool, p < s.heap.length
  pool_unused : ∀ p ∈ s.pool, (getF s.heap p).used = false
  pool_noaddr : ∀ p ∈ s.pool, (getF s.heap p).addr = false
  stack_lt : ∀ e ∈ s.stack.flatten, e < s.heap.length
  clos_lt : ∀ c ∈ s.clos, c < s.heap.length
  outer_lt : ∀ x o, (getF s.heap x).outer = some o → o < s.heap.length
  up_closed : ∀ x o, (getF s.heap x).used = true → (getF s.heap x).outer = some o → (getF s.heap o).used = true
  clos_used : ∀ c ∈ s.clos, (getF s.heap c).used = true
  acts : ∀ a ∈ s.stack, ActOK s.heap a
  ints_lt : ∀ x a, (getF s.heap x).ints = some a → a < s.arrs.length
  ints_inj : ∀ x y a, (getF s.heap x).ints = some a → (getF s.heap y).ints = some a → x = y
  ptr_lt : ∀ p ∈ s.ptrs, p.1 < s.arrs.length
  ptr_addr : ∀ p ∈ s.ptrs, ∀ x, (getF s.heap x).ints = some p.1 → (getF s.heap x).addr = true

theorem ActOK_congr {h h' : List Frame} {a : List Nat}
    (ho : ∀ x ∈ a, (getF h' x).outer = (getF h x).outer)
    (hu : ∀ c, (getF h c).used = true → (getF h' c).used = true)
    (hk : ActOK h a) : ActOK h' a := by
  induction a with
  | nil => trivial
  | cons b t ih =>
    cases t with
    | nil =>
      obtain ⟨c, h1, h2⟩ := hk
      exact ⟨c, by rw [ho b (by simp)]; exact h1, hu c h2⟩
    | cons c rest =>
      obtain ⟨h1, h2⟩ := hk
      refine ⟨by rw [ho b (by simp)]; exact h1, ih (fun x hx => ho x (by simp at hx ⊢; right; exact hx)) h2⟩

theorem ActOK_tail {h : List Frame} {b : Nat} {t : List Nat} (hk : ActOK h (b :: t)) : ActOK h t := by
  cases t with
  | nil => trivial
  | cons c rest => exact hk.2

theorem ActOK_drop {h : List Frame} {a : List Nat} (n : Nat) (hk : ActOK h a) : ActOK h (a.drop n) := by
  induction n generalizing a with
  | zero => simpa using hk
  | succ n ih =>
    cases a with
    | nil => simpa using hk
    | cons b t => simpa using ih (ActOK_tail hk)

/-- the frames of an activation together with the marked frames are closed under `Outer` -/
theorem act_closed {h : List Frame} {a : List Nat} (hk : ActOK h a)
    (hup : ∀ x o, (getF h x).used = true → (getF h x).outer = some o → (getF h o).used = true) :
    ∀ y o, (y ∈ a ∨ (getF h y).used = true) → (getF h y).outer = some o → (o ∈ a ∨ (getF h o).used = true) := by
  intro y o hy ho
  rcases hy with hy | hy
  · induction a with
    | nil => simp at hy
    | cons b t ih =>
      cases t with
      | nil =>
        simp at hy; subst hy
        obtain ⟨c, h1, h2⟩ := hk
        rw [h1] at ho; simp at ho; subst ho
        right; exact h2
      | cons c rest =>
        obtain ⟨h1, h2⟩ := hk
        simp only [List.mem_cons] at hy
        rcases hy with hy | hy
        · subst hy; rw [h1] at ho; simp at ho; subst ho; left; simp
        · rcases ih h2 (by simpa using hy) with h3 | h3
          · left; exact List.mem_cons_of_mem _ h3
          · right; exact h3
  · right; exact hup y o hy ho

theorem walkUp_closed (P : Nat → Prop) (h : List Frame)
    (hcl : ∀ y o, P y → (getF h y).outer = some o → P o) :
    ∀ up c e, P c → walkUp h up c = some e → P e ∧ e < h.length := by
  intro up
  induction up with
  | zero =>
    intro c e hc hw
    simp only [walkUp] at hw
    split at hw
    · simp at hw; subst hw; exact ⟨hc, by assumption⟩
    · simp at hw
  | succ n ih =>
    intro c e hc hw
    simp only [walkUp] at hw
    split at hw
    · simp at hw
    · rename_i fr hfr
      split at hw
      · simp at hw
      · rename_i o ho
        exact ih o e (hcl c o hc (by rw [getF_of_getElem? hfr]; exact ho)) hw

/-! ### alloc -/

structure AllocSpec (s : State) (o : Nat) (s1 : State) (e : Nat) : Prop where
  stack : s1.stack = s.stack
  clos : s1.clos = s.clos
  ptrs : s1.ptrs = s.ptrs
  pool : (s.pool = e :: s1.pool ∧ s1.heap.length = s.heap.length) ∨
         (e = s.heap.length ∧ s1.pool = s.pool ∧ s1.heap.length = s.heap.length + 1)
  other : ∀ x, x ≠ e → getF s1.heap x = getF s.heap x
  new_outer : (getF s1.heap e).outer = some o
  new_used : (getF s1.heap e).used = (getF s.heap e).used
  new_addr : (getF s1.heap e).addr = (getF s.heap e).addr
  new_ints : (getF s1.heap e).ints = (getF s.heap e).ints ∨
             ((getF s1.heap e).ints = some s.arrs.length ∧ s1.arrs.length = s.arrs.length + 1)
  arrs_len : s.arrs.length ≤ s1.arrs.length

theorem relabel_length (arrs : List Arr) (ints : Option Nat) (ni lid : Nat) :
    (relabel arrs ints ni lid).length = arrs.length := by
  unfold relabel; split
  · split <;> simp
  · rfl

theorem pick_cases (reuse : Bool) (s : State) :
    (∃ p rest, reuse = true ∧ s.pool = p :: rest ∧ pick reuse s = (p, getF s.heap p, rest, s.heap)) ∨
    (pick reuse s = (s.heap.length, ({} : Frame), s.pool, s.heap ++ [({} : Frame)])) := by
  cases reuse with
  | false => right; simp [pick]
  | true =>
    cases hp : s.pool with
    | nil => right; simp [pick, hp]
    | cons p rest => left; exact ⟨p, rest, rfl, rfl, by simp [pick, hp]⟩

theorem alloc_spec (reuse : Bool) (s : State) (o nb ni : Nat)
    (hpl : reuse = true → ∀ p ∈ s.pool, p < s.heap.length) :
    AllocSpec s o (alloc reuse s o nb ni).1 (alloc reuse s o nb ni).2 := by
  have hri : ∀ fr : Frame, (resizeInts s.arrs fr ni).1 = fr.ints ∧ (resizeInts s.arrs fr ni).2.length = s.arrs.length ∨
      (resizeInts s.arrs fr ni).1 = some s.arrs.length ∧ (resizeInts s.arrs fr ni).2.length = s.arrs.length + 1 := by
    intro fr; unfold resizeInts; split
    · left; simp
    · right; simp
  unfold alloc
  rcases pick_cases reuse s with ⟨p, rest, hre, hpool, hpk⟩ | hpk
  · -- taken from the pool
    rw [hpk]
    have hp : p < s.heap.length := hpl hre p (by rw [hpool]; simp)
    refine ⟨rfl, rfl, rfl, Or.inl ⟨by simpa using hpool, by simp⟩, ?_, ?_, ?_, ?_, ?_, ?_⟩
    · intro x hx; simp at hx; simp [getF_set_ne _ hx]
    · simp [getF_set_eq _ hp]
    · simp [getF_set_eq _ hp]
    · simp [getF_set_eq _ hp]
    · simp only [getF_set_eq _ hp, relabel_length]
      rcases hri (getF s.heap p) with h1 | h1
      · left; exact h1.1
      · right; exact h1
    · simp only [relabel_length]
      rcases hri (getF s.heap p) with h1 | h1 <;> omega
  · -- a new frame
    rw [hpk]
    have hset : ∀ f : Frame, (s.heap ++ [({} : Frame)]).set s.heap.length f = s.heap ++ [f] := by
      intro f; simp
    simp only [hset]
    have hd : getF s.heap s.heap.length = default := getF_ge (Nat.le_refl _)
    refine ⟨rfl, rfl, rfl, Or.inr ⟨rfl, rfl, by simp⟩, ?_, ?_, ?_, ?_, ?_, ?_⟩
    · intro x hx
      simp only at hx ⊢
      rw [getF_append]
      simp [hx]
    · simp [getF_append_eq]
    · simp only [getF_append_eq, hd]; rfl
    · simp only [getF_append_eq, hd]; rfl
    · simp only [getF_append_eq, relabel_length, hd]
      rcases hri ({} : Frame) with h1 | h1
      · left; rw [h1.1]; rfl
      · right; exact h1
    · simp only [relabel_length]
      rcases hri ({} : Frame) with h1 | h1 <;> omega


theorem inv_alloc_core {s s1 : State} {o e : Nat} (hi : Inv s) (hs : AllocSpec s o s1 e)
    (ho : o < s.heap.length) (stk' : List (List Nat))
    (hnd : (s1.pool ++ stk'.flatten).Nodup)
    (hmem : ∀ x ∈ stk'.flatten, x = e ∨ x ∈ s.stack.flatten)
    (hacts : ∀ a ∈ stk', ActOK s1.heap a) :
    Inv { s1 with stack := stk' } := by
  have hpool_nd : s.pool.Nodup := (List.nodup_append.1 hi.nodup).1
  -- the new frame was unused, without address taken, and is none of the remaining pool frames
  have he_lt : e < s1.heap.length := by
    rcases hs.pool with ⟨hp, hl⟩ | ⟨he, _, hl⟩
    · rw [hl]; exact hi.pool_lt e (by rw [hp]; simp)
    · omega
  have hlen : s.heap.length ≤ s1.heap.length := by
    rcases hs.pool with ⟨_, hl⟩ | ⟨_, _, hl⟩ <;> omega
  have he_unused : (getF s.heap e).used = false := by
    rcases hs.pool with ⟨hp, _⟩ | ⟨he, _, _⟩
    · exact hi.pool_unused e (by rw [hp]; simp)
    · rw [getF_ge (by omega)]; rfl
  have he_noaddr : (getF s.heap e).addr = false := by
    rcases hs.pool with ⟨hp, _⟩ | ⟨he, _, _⟩
    · exact hi.pool_noaddr e (by rw [hp]; simp)
    · rw [getF_ge (by omega)]; rfl
  have hpool1 : ∀ p ∈ s1.pool, p ≠ e ∧ p ∈ s.pool := by
    intro p hp
    rcases hs.pool with ⟨hpe, _⟩ | ⟨he, hpp, _⟩
    · rw [hpe] at hpool_nd
      have := List.nodup_cons.1 hpool_nd
      refine ⟨fun h => this.1 (h ▸ hp), by rw [hpe]; exact List.mem_cons_of_mem _ hp⟩
    · rw [hpp] at hp
      have := hi.pool_lt p hp
      exact ⟨by omega, hp⟩
  have hused_ne : ∀ c, (getF s.heap c).used = true → c ≠ e := by
    intro c hc hce; subst hce; rw [he_unused] at hc; cases hc
  have hused1 : ∀ c, (getF s.heap c).used = true → (getF s1.heap c).used = true := by
    intro c hc; rw [hs.other c (hused_ne c hc)]; exact hc
  exact {
    nodup := hnd
    pool_len := by
      rcases hs.pool with ⟨hp, _⟩ | ⟨_, hp, _⟩
      · have := hi.pool_len; rw [hp] at this; simp at this; simp; omega
      · simp; rw [hp]; exact hi.pool_len
    pool_lt := by
      intro p hp; have := hi.pool_lt p (hpool1 p hp).2; simp; omega
    pool_unused := by
      intro p hp; simp; rw [hs.other p (hpool1 p hp).1]; exact hi.pool_unused p (hpool1 p hp).2
    pool_noaddr := by
      intro p hp; simp; rw [hs.other p (hpool1 p hp).1]; exact hi.pool_noaddr p (hpool1 p hp).2
    stack_lt := by
      intro x hx
      rcases hmem x hx with h1 | h1
      · subst h1; exact he_lt
      · have := hi.stack_lt x h1; simp; omega
    clos_lt := by
      intro c hc; rw [hs.clos] at hc; have := hi.clos_lt c hc; simp; omega
    outer_lt := by
      intro x o' hx
      simp at hx ⊢
      by_cases hxe : x = e
      · subst hxe; rw [hs.new_outer] at hx; simp at hx; omega
      · rw [hs.other x hxe] at hx; have := hi.outer_lt x o' hx; omega
    up_closed := by
      intro x o' hu hx
      simp at hu hx ⊢
      by_cases hxe : x = e
      · subst hxe; rw [hs.new_used, he_unused] at hu; cases hu
      · rw [hs.other x hxe] at hu hx
        exact hused1 o' (hi.up_closed x o' hu hx)
    clos_used := by
      intro c hc; rw [hs.clos] at hc; exact hused1 c (hi.clos_used c hc)
    acts := hacts
    ints_lt := by
      intro x a hx
      simp at hx ⊢
      by_cases hxe : x = e
      · subst hxe
        rcases hs.new_ints with h1 | ⟨h1, h2⟩
        · rw [h1] at hx; have := hi.ints_lt x a hx; have := hs.arrs_len; omega
        · rw [h1] at hx; simp at hx; omega
      · rw [hs.other x hxe] at hx; have := hi.ints_lt x a hx; have := hs.arrs_len; omega
    ints_inj := by
      intro x y a hx hy
      simp at hx hy
      have key : ∀ y, y ≠ e → (getF s1.heap e).ints = some a → (getF s.heap y).ints = some a → False := by
        intro y hye h1 h2
        rcases hs.new_ints with h3 | ⟨h3, _⟩
        · rw [h3] at h1; exact hye (hi.ints_inj y e a h2 h1)
        · rw [h3] at h1; simp at h1; have := hi.ints_lt y a h2; omega
      by_cases hxe : x = e
      · by_cases hye : y = e
        · rw [hxe, hye]
        · subst hxe; rw [hs.other y hye] at hy; exact (key y hye hx hy).elim
      · by_cases hye : y = e
        · subst hye; rw [hs.other x hxe] at hx; exact (key x hxe hy hx).elim
        · rw [hs.other x hxe] at hx; rw [hs.other y hye] at hy; exact hi.ints_inj x y a hx hy
    ptr_lt := by
      intro p hp; rw [hs.ptrs] at hp; have := hi.ptr_lt p hp; have := hs.arrs_len; simp; omega
    ptr_addr := by
      intro p hp x hx
      rw [hs.ptrs] at hp
      simp at hx ⊢
      by_cases hxe : x = e
      · subst hxe
        rcases hs.new_ints with h3 | ⟨h3, _⟩
        · rw [h3] at hx; have := hi.ptr_addr p hp x hx; rw [he_noaddr] at this; cases this
        · rw [h3] at hx; simp at hx; have := hi.ptr_lt p hp; omega
      · rw [hs.other x hxe] at hx ⊢; exact hi.ptr_addr p hp x hx }


/-- transport of the activations of the old stack to the heap after `alloc` -/
theorem acts_after_alloc {s s1 : State} {o e : Nat} (hi : Inv s) (hs : AllocSpec s o s1 e)
    (he_unused : (getF s.heap e).used = false) (he_notin : e ∉ s.stack.flatten) :
    ∀ a ∈ s.stack, ActOK s1.heap a := by
  intro a ha
  apply ActOK_congr (h := s.heap) _ _ (hi.acts a ha)
  · intro x hx
    have : x ≠ e := by
      intro hxe; subst hxe
      exact he_notin (List.mem_flatten.2 ⟨a, ha, hx⟩)
    rw [hs.other x this]
  · intro c hc
    have : c ≠ e := by intro hce; subst hce; rw [he_unused] at hc; cases hc
    rw [hs.other c this]; exact hc

theorem alloc_new_facts {s s1 : State} {o e : Nat} (hi : Inv s) (hs : AllocSpec s o s1 e) :
    (getF s.heap e).used = false ∧ e ∉ s.stack.flatten ∧ (s1.pool ++ e :: s.stack.flatten).Nodup := by
  rcases hs.pool with ⟨hp, _⟩ | ⟨he, hp, _⟩
  · have hnd := hi.nodup
    rw [hp] at hnd
    refine ⟨hi.pool_unused e (by rw [hp]; simp), ?_, ?_⟩
    · intro hmem
      have := (List.nodup_append.1 hnd).2.2 e (by simp) e hmem
      exact this rfl
    · exact (List.perm_middle.nodup_iff).2 (by simpa using hnd)
  · have hnot : e ∉ s.pool ++ s.stack.flatten := by
      intro hmem
      rcases List.mem_append.1 hmem with h1 | h1
      · have := hi.pool_lt e h1; omega
      · have := hi.stack_lt e h1; omega
    refine ⟨by rw [getF_ge (by omega)]; rfl, fun h => hnot (List.mem_append.2 (Or.inr h)), ?_⟩
    rw [hp]
    exact (List.perm_middle.nodup_iff).2 (List.nodup_cons.2 ⟨hnot, hi.nodup⟩)

theorem inv_call {reuse : Bool} {s : State} {c nb ni : Nat} (hi : Inv s) (hc : c ∈ s.clos) :
    Inv { (alloc reuse s c nb ni).1 with stack := [(alloc reuse s c nb ni).2] :: (alloc reuse s c nb ni).1.stack } := by
  have hs := alloc_spec reuse s c nb ni (fun _ => hi.pool_lt)
  obtain ⟨hu, hnotin, hnd⟩ := alloc_new_facts hi hs
  have hce : c ≠ (alloc reuse s c nb ni).2 := by
    intro h; have := hi.clos_used c hc; rw [h, hu] at this; cases this
  apply inv_alloc_core hi hs (hi.clos_lt c hc)
  · rw [hs.stack]; simpa using hnd
  · intro x hx; rw [hs.stack] at hx; simpa using hx
  · intro a ha
    rw [hs.stack] at ha
    rcases List.mem_cons.1 ha with h1 | h1
    · subst h1
      exact ⟨c, hs.new_outer, by rw [hs.other c hce]; exact hi.clos_used c hc⟩
    · exact acts_after_alloc hi hs hu hnotin a h1

theorem inv_block {reuse : Bool} {s : State} {c nb ni : Nat} {fs : List Nat} {rest : List (List Nat)}
    (hi : Inv s) (hst : s.stack = (c :: fs) :: rest) :
    Inv { (alloc reuse s c nb ni).1 with stack := ((alloc reuse s c nb ni).2 :: c :: fs) :: rest } := by
  have hs := alloc_spec reuse s c nb ni (fun _ => hi.pool_lt)
  obtain ⟨hu, hnotin, hnd⟩ := alloc_new_facts hi hs
  have hc_lt : c < s.heap.length := hi.stack_lt c (by rw [hst]; simp)
  apply inv_alloc_core hi hs hc_lt
  · rw [hst] at hnd; simpa using hnd
  · intro x hx; rw [hst]; simpa using hx
  · intro a ha
    have hold := acts_after_alloc hi hs hu hnotin
    rcases List.mem_cons.1 ha with h1 | h1
    · subst h1
      exact ⟨hs.new_outer, hold (c :: fs) (by rw [hst]; simp)⟩
    · exact hold a (by rw [hst]; exact List.mem_cons_of_mem _ h1)

/-! ### free -/

theorem free_cases (reuse : Bool) (s : State) (e : Nat) :
    free reuse s e = s ∨
    ((getF s.heap e).used = false ∧ s.pool.length < poolCap ∧
      free reuse s e = { s with heap := s.heap.set e { (if (getF s.heap e).addr then { getF s.heap e with ints := none, addr := false } else getF s.heap e) with outer := none },
                                pool := e :: s.pool }) := by
  unfold free
  by_cases h1 : (getF s.heap e).used = true
  · left; simp [h1]
  · by_cases h2 : poolCap ≤ s.pool.length
    · left; simp [h1, h2]
    · cases reuse with
      | false => left; simp [h1, h2]
      | true => right; refine ⟨by simpa using h1, by omega, by simp [h1, h2]⟩

theorem inv_free_core {reuse : Bool} {s : State} {e : Nat} (hi : Inv s) (he : e ∈ s.stack.flatten)
    (stk' : List (List Nat)) (hsub : stk'.flatten.Sublist s.stack.flatten) (hne : e ∉ stk'.flatten)
    (hacts : ∀ a ∈ stk', ActOK s.heap a) :
    Inv { free reuse s e with stack := stk' } := by
  have hnd_sub : (s.pool ++ stk'.flatten).Nodup :=
    List.Nodup.sublist (List.Sublist.append (List.Sublist.refl _) hsub) hi.nodup
  have hstack_lt : ∀ x ∈ stk'.flatten, x < s.heap.length := fun x hx => hi.stack_lt x (hsub.mem hx)
  rcases free_cases reuse s e with h | ⟨hu, hlen, h⟩
  · rw [h]
    exact { hi with nodup := hnd_sub, stack_lt := hstack_lt, acts := hacts }
  · rw [h]
    have hel : e < s.heap.length := hi.stack_lt e he
    have he_pool : e ∉ s.pool := by
      intro hp
      exact (List.nodup_append.1 hi.nodup).2.2 e hp e he rfl
    -- the rewritten frame
    have hfr : ∀ x, x ≠ e → getF (s.heap.set e { (if (getF s.heap e).addr then { getF s.heap e with ints := none, addr := false } else getF s.heap e) with outer := none }) x = getF s.heap x :=
      fun x hx => getF_set_ne _ hx
    have hnew := getF_set_eq (h := s.heap) { (if (getF s.heap e).addr then { getF s.heap e with ints := none, addr := false } else getF s.heap e) with outer := none } hel
    have hused : ∀ x, (getF (s.heap.set e { (if (getF s.heap e).addr then { getF s.heap e with ints := none, addr := false } else getF s.heap e) with outer := none }) x).used = (getF s.heap x).used := by
      intro x
      by_cases hx : x = e
      · subst hx; rw [hnew]; split <;> rfl
      · rw [hfr x hx]
    have hints : ∀ x a, (getF (s.heap.set e { (if (getF s.heap e).addr then { getF s.heap e with ints := none, addr := false } else getF s.heap e) with outer := none }) x).ints = some a → (getF s.heap x).ints = some a ∧ (x = e → (getF s.heap e).addr = false) := by
      intro x a hx
      by_cases hxe : x = e
      · subst hxe; rw [hnew] at hx
        by_cases had : (getF s.heap x).addr = true
        · simp [had] at hx
        · simp [had] at hx; exact ⟨hx, fun _ => by simpa using had⟩
      · rw [hfr x hxe] at hx; exact ⟨hx, fun h => (hxe h).elim⟩
    have houter : ∀ x o, (getF (s.heap.set e { (if (getF s.heap e).addr then { getF s.heap e with ints := none, addr := false } else getF s.heap e) with outer := none }) x).outer = some o → (getF s.heap x).outer = some o := by
      intro x o hx
      by_cases hxe : x = e
      · subst hxe; rw [hnew] at hx; simp at hx
      · rw [hfr x hxe] at hx; exact hx
    exact {
      nodup := by
        simp only [List.cons_append]
        refine List.nodup_cons.2 ⟨?_, hnd_sub⟩
        intro hmem
        rcases List.mem_append.1 hmem with h1 | h1
        · exact he_pool h1
        · exact hne h1
      pool_len := by simp; omega
      pool_lt := by
        intro p hp; simp at hp ⊢
        rcases hp with h1 | h1
        · subst h1; exact hel
        · exact hi.pool_lt p h1
      pool_unused := by
        intro p hp; simp only [] at hp ⊢; rw [hused]
        rcases List.mem_cons.1 hp with h1 | h1
        · subst h1; exact hu
        · exact hi.pool_unused p h1
      pool_noaddr := by
        intro p hp; simp only [] at hp ⊢
        rcases List.mem_cons.1 hp with h1 | h1
        · subst h1; rw [hnew]
          by_cases had : (getF s.heap p).addr = true
          · simp [had]
          · simp [had]
        · have : p ≠ e := fun h => he_pool (h ▸ h1)
          rw [hfr p this]; exact hi.pool_noaddr p h1
      stack_lt := by intro x hx; simp; exact hstack_lt x hx
      clos_lt := by intro c hc; simp; exact hi.clos_lt c hc
      outer_lt := by intro x o hx; simp at hx ⊢; exact hi.outer_lt x o (houter x o hx)
      up_closed := by
        intro x o hxu hx
        simp only [] at hxu hx ⊢
        rw [hused] at hxu ⊢
        exact hi.up_closed x o hxu (houter x o hx)
      clos_used := by intro c hc; simp only []; rw [hused]; exact hi.clos_used c hc
      acts := by
        intro a ha
        apply ActOK_congr (h := s.heap) _ _ (hacts a ha)
        · intro x hx
          have : x ≠ e := fun h => hne (List.mem_flatten.2 ⟨a, ha, h ▸ hx⟩)
          simp only []; rw [hfr x this]
        · intro c hc; simp only []; rw [hused]; exact hc
      ints_lt := by intro x a hx; simp only [] at hx ⊢; exact hi.ints_lt x a (hints x a hx).1
      ints_inj := by
        intro x y a hx hy; simp only [] at hx hy
        exact hi.ints_inj x y a (hints x a hx).1 (hints y a hy).1
      ptr_lt := by intro p hp; simp; exact hi.ptr_lt p hp
      ptr_addr := by
        intro p hp x hx
        simp only [] at hx ⊢
        obtain ⟨h1, h2⟩ := hints x p.1 hx
        have h3 := hi.ptr_addr p hp x h1
        by_cases hxe : x = e
        · subst hxe; rw [h2 rfl] at h3; cases h3
        · rw [hfr x hxe]; exact h3 }


/-! ### mark -/

theorem mark_start {h : List Frame} {c : Nat} (hc : c < h.length) : (getF (mark h c) c).used = true := by
  unfold mark
  simp only [markLoop, getElem?_of_lt hc]
  split
  · assumption
  · apply markLoop_mono
    simp [getF_set_eq _ hc]

theorem inv_mark {s : State} {c : Nat} (hi : Inv s) (hc : cur s = some c) :
    Inv { s with heap := mark s.heap c, clos := s.clos ++ [c] } := by
  -- the head activation
  obtain ⟨a, rest, hst, hca⟩ : ∃ a rest, s.stack = a :: rest ∧ c ∈ a := by
    unfold cur at hc
    split at hc
    · rename_i c' fs rest hst; simp at hc; subst hc; exact ⟨c' :: fs, rest, hst, by simp⟩
    · simp at hc
  have ha : a ∈ s.stack := by rw [hst]; simp
  have hc_lt : c < s.heap.length := hi.stack_lt c (List.mem_flatten.2 ⟨a, ha, hca⟩)
  have hcl := act_closed (hi.acts a ha) hi.up_closed
  have hwithin : ∀ x, (getF (mark s.heap c) x).used = true → (getF s.heap x).used = true ∨ x ∈ a := by
    intro x hx
    rcases markLoop_within (fun y => y ∈ a ∨ (getF s.heap y).used = true) _ s.heap (some c) hcl
      (by intro y hy; simp at hy; subst hy; left; exact hca) x hx with h1 | h1 | h1
    · left; exact h1
    · right; exact h1
    · left; exact h1
  have hlen : (mark s.heap c).length = s.heap.length := markLoop_length _ _ _
  have hup : ∀ x o, (getF (mark s.heap c) x).used = true → (getF (mark s.heap c) x).outer = some o →
      (getF (mark s.heap c) o).used = true := by
    have := markLoop_upclosed (s.heap.length + 1) s.heap (some c) hi.outer_lt
      (by intro x o hx ho; left; exact hi.up_closed x o hx ho)
      (by have := unmarked_le s.heap; omega)
    intro x o hx ho
    rcases this x o hx ho with h1 | h1
    · exact h1
    · cases h1
  exact {
    nodup := hi.nodup
    pool_len := hi.pool_len
    pool_lt := by intro p hp; simp only [hlen]; exact hi.pool_lt p hp
    pool_unused := by
      intro p hp; simp only []
      cases hpu : (getF (mark s.heap c) p).used with
      | false => rfl
      | true =>
        rcases hwithin p hpu with h1 | h1
        · rw [hi.pool_unused p hp] at h1; cases h1
        · exfalso
          exact (List.nodup_append.1 hi.nodup).2.2 p hp p (List.mem_flatten.2 ⟨a, ha, h1⟩) rfl
    pool_noaddr := by intro p hp; simp only []; unfold mark; rw [markLoop_addr]; exact hi.pool_noaddr p hp
    stack_lt := by intro x hx; simp only [hlen]; exact hi.stack_lt x hx
    clos_lt := by
      intro x hx; simp only [hlen]
      rcases List.mem_append.1 hx with h1 | h1
      · exact hi.clos_lt x h1
      · simp at h1; subst h1; exact hc_lt
    outer_lt := by
      intro x o hx; simp only [hlen]; unfold mark at hx; rw [markLoop_outer] at hx; exact hi.outer_lt x o hx
    up_closed := hup
    clos_used := by
      intro x hx; simp only []
      rcases List.mem_append.1 hx with h1 | h1
      · exact markLoop_mono _ _ _ _ (hi.clos_used x h1)
      · simp at h1; subst h1; exact mark_start hc_lt
    acts := by
      intro b hb
      apply ActOK_congr (h := s.heap) _ _ (hi.acts b hb)
      · intro x _; unfold mark; rw [markLoop_outer]
      · intro x hx; exact markLoop_mono _ _ _ _ hx
    ints_lt := by intro x b hx; unfold mark at hx; simp only [] at hx; rw [markLoop_ints] at hx; exact hi.ints_lt x b hx
    ints_inj := by
      intro x y b hx hy; unfold mark at hx hy; simp only [] at hx hy
      rw [markLoop_ints] at hx hy; exact hi.ints_inj x y b hx hy
    ptr_lt := hi.ptr_lt
    ptr_addr := by
      intro p hp x hx; unfold mark at hx ⊢; simp only [] at hx ⊢
      rw [markLoop_ints] at hx; rw [markLoop_addr]; exact hi.ptr_addr p hp x hx }

/-! ### updates of one frame that keep `Outer`, `UsedByClosure` and `Ints` -/

theorem inv_set_frame {s : State} {e : Nat} {f : Frame} (hi : Inv s)
    (ho : f.outer = (getF s.heap e).outer) (hu : f.used = (getF s.heap e).used)
    (hn : f.ints = (getF s.heap e).ints)
    (ha : f.addr = (getF s.heap e).addr ∨ (f.addr = true ∧ e ∉ s.pool)) :
    Inv { s with heap := s.heap.set e f } := by
  have hget : ∀ x, (getF (s.heap.set e f) x).outer = (getF s.heap x).outer ∧
      (getF (s.heap.set e f) x).used = (getF s.heap x).used ∧
      (getF (s.heap.set e f) x).ints = (getF s.heap x).ints ∧
      ((getF (s.heap.set e f) x).addr = (getF s.heap x).addr ∨ ((getF (s.heap.set e f) x).addr = true ∧ x ∉ s.pool)) := by
    intro x
    rw [getF_set]
    split
    · rename_i h; obtain ⟨h1, _⟩ := h; subst h1; exact ⟨ho, hu, hn, ha⟩
    · exact ⟨rfl, rfl, rfl, Or.inl rfl⟩
  exact {
    nodup := hi.nodup
    pool_len := hi.pool_len
    pool_lt := by intro p hp; simp; exact hi.pool_lt p hp
    pool_unused := by intro p hp; simp only []; rw [(hget p).2.1]; exact hi.pool_unused p hp
    pool_noaddr := by
      intro p hp; simp only []
      rcases (hget p).2.2.2 with h1 | ⟨_, h1⟩
      · rw [h1]; exact hi.pool_noaddr p hp
      · exact (h1 hp).elim
    stack_lt := by intro x hx; simp; exact hi.stack_lt x hx
    clos_lt := by intro x hx; simp; exact hi.clos_lt x hx
    outer_lt := by intro x o hx; simp only [] at hx; rw [(hget x).1] at hx; simp; exact hi.outer_lt x o hx
    up_closed := by
      intro x o hxu hx; simp only [] at hxu hx ⊢
      rw [(hget x).2.1] at hxu; rw [(hget x).1] at hx; rw [(hget o).2.1]
      exact hi.up_closed x o hxu hx
    clos_used := by intro c hc; simp only []; rw [(hget c).2.1]; exact hi.clos_used c hc
    acts := by
      intro a ha'
      apply ActOK_congr (h := s.heap) _ _ (hi.acts a ha')
      · intro x _; exact (hget x).1
      · intro c hc; rw [(hget c).2.1]; exact hc
    ints_lt := by intro x a hx; simp only [] at hx; rw [(hget x).2.2.1] at hx; exact hi.ints_lt x a hx
    ints_inj := by
      intro x y a hx hy; simp only [] at hx hy
      rw [(hget x).2.2.1] at hx; rw [(hget y).2.2.1] at hy; exact hi.ints_inj x y a hx hy
    ptr_lt := hi.ptr_lt
    ptr_addr := by
      intro p hp x hx; simp only [] at hx ⊢
      rw [(hget x).2.2.1] at hx
      rcases (hget x).2.2.2 with h1 | ⟨h1, _⟩
      · rw [h1]; exact hi.ptr_addr p hp x hx
      · exact h1 }

theorem inv_add_ptr {s : State} {e a i : Nat} (hi : Inv s)
    (hn : (getF s.heap e).ints = some a) (had : (getF s.heap e).addr = true) :
    Inv { s with ptrs := s.ptrs ++ [(a, i)] } :=
  { hi with
    ptr_lt := by
      intro p hp
      rcases List.mem_append.1 hp with h1 | h1
      · exact hi.ptr_lt p h1
      · simp at h1; subst h1; exact hi.ints_lt e a hn
    ptr_addr := by
      intro p hp x hx
      rcases List.mem_append.1 hp with h1 | h1
      · exact hi.ptr_addr p h1 x hx
      · simp at h1; subst h1
        have := hi.ints_inj x e a hx hn
        subst this; exact had }

theorem inv_arrs {s : State} {arrs' : List Arr} (hi : Inv s) (hl : arrs'.length = s.arrs.length) :
    Inv { s with arrs := arrs' } :=
  { hi with
    ints_lt := by intro x a hx; simp only [hl]; exact hi.ints_lt x a hx
    ptr_lt := by intro p hp; simp only [hl]; exact hi.ptr_lt p hp }

/-! ### leaving frames behind -/

theorem flatten_drop_sublist (L : List (List Nat)) (n : Nat) : (L.drop n).flatten.Sublist L.flatten := by
  induction n generalizing L with
  | zero => simp
  | succ n ih =>
    cases L with
    | nil => simp
    | cons a t =>
      simp only [List.drop_succ_cons, List.flatten_cons]
      exact (ih t).trans (List.sublist_append_right _ _)

theorem inv_stack_sub {s : State} (hi : Inv s) (stk' : List (List Nat))
    (hsub : stk'.flatten.Sublist s.stack.flatten) (hacts : ∀ a ∈ stk', ActOK s.heap a) :
    Inv { s with stack := stk' } :=
  { hi with
    nodup := List.Nodup.sublist (List.Sublist.append (List.Sublist.refl _) hsub) hi.nodup
    stack_lt := fun x hx => hi.stack_lt x (hsub.mem hx)
    acts := hacts }


/-! ### every step of either machine preserves the invariant -/

theorem inv_init : Inv init := by
  refine { nodup := by decide, pool_len := by decide, pool_lt := by simp [init], pool_unused := by simp [init],
           pool_noaddr := by simp [init], stack_lt := by simp [init], clos_lt := by simp [init],
           outer_lt := ?_, up_closed := ?_, clos_used := by simp [init], acts := ?_,
           ints_lt := ?_, ints_inj := ?_, ptr_lt := by simp [init], ptr_addr := by simp [init] }
  · intro x o hx
    match x with
    | 0 => simp [init, getF] at hx
    | 1 => simp [init, getF] at hx; subst hx; simp [init]
    | n + 2 => simp [init, getF] at hx; exact absurd hx (by simp [default_frame_outer])
  · intro x o _ hx
    match x with
    | 0 => simp [init, getF] at hx
    | 1 => simp [init, getF] at hx; subst hx; simp [init, getF]
    | n + 2 => simp [init, getF] at hx; exact absurd hx (by simp [default_frame_outer])
  · intro a ha
    simp [init] at ha; subst ha
    exact ⟨0, by simp [init, getF], by simp [init, getF]⟩
  · intro x a hx
    match x with
    | 0 => simp [init, getF] at hx
    | 1 => simp [init, getF] at hx
    | n + 2 => simp [init, getF] at hx; exact absurd hx (by simp [default_frame_ints])
  · intro x y a hx _
    match x with
    | 0 => simp [init, getF] at hx
    | 1 => simp [init, getF] at hx
    | n + 2 => simp [init, getF] at hx; exact absurd hx (by simp [default_frame_ints])

theorem cur_mem {s : State} {c : Nat} (hc : cur s = some c) :
    ∃ a rest, s.stack = a :: rest ∧ c ∈ a := by
  unfold cur at hc
  split at hc
  · rename_i c' fs rest hst; simp at hc; subst hc; exact ⟨c' :: fs, rest, hst, by simp⟩
  · simp at hc

/-- a frame found by walking `Outer` from the current env is live: not in the pool -/
theorem walk_live {s : State} {c e up : Nat} (hi : Inv s) (hc : cur s = some c)
    (hw : walkUp s.heap up c = some e) : e ∉ s.pool ∧ e < s.heap.length := by
  obtain ⟨a, rest, hst, hca⟩ := cur_mem hc
  have ha : a ∈ s.stack := by rw [hst]; simp
  have hcl := act_closed (hi.acts a ha) hi.up_closed
  obtain ⟨h1, h2⟩ := walkUp_closed (fun y => y ∈ a ∨ (getF s.heap y).used = true) s.heap hcl up c e (Or.inl hca) hw
  refine ⟨?_, h2⟩
  intro hp
  rcases h1 with h1 | h1
  · exact (List.nodup_append.1 hi.nodup).2.2 e hp e (List.mem_flatten.2 ⟨a, ha, h1⟩) rfl
  · rw [hi.pool_unused e hp] at h1; cases h1

theorem inv_step (reuse : Bool) {s : State} {op : Op} {r : Res} (hi : Inv s)
    (hstep : step reuse s op = some r) : Inv r.1 := by
  cases op with
  | call k nb ni =>
    simp only [step] at hstep
    split at hstep
    · simp at hstep
    · rename_i c hc
      simp at hstep; subst hstep
      exact inv_call hi (List.mem_of_getElem? hc)
  | ret =>
    simp only [step] at hstep
    split at hstep
    · simp at hstep
    · rename_i a rest hst
      split at hstep
      · simp at hstep
      · rename_i f hf
        simp at hstep; subst hstep
        have hfa : f ∈ a := List.mem_of_getLast? hf
        have hfl : s.stack.flatten = a ++ rest.flatten := by rw [hst]; simp
        apply inv_free_core hi (by rw [hfl]; exact List.mem_append.2 (Or.inl hfa)) rest
        · rw [hfl]; exact List.sublist_append_right _ _
        · intro hmem
          have hnd := (List.nodup_append.1 hi.nodup).2.1
          rw [hfl] at hnd
          exact (List.nodup_append.1 hnd).2.2 f hfa f hmem rfl
        · intro b hb; exact hi.acts b (by rw [hst]; exact List.mem_cons_of_mem _ hb)
  | blockEnter nb ni =>
    simp only [step] at hstep
    split at hstep
    · rename_i c fs rest hst
      simp at hstep; subst hstep
      exact inv_block hi hst
    · simp at hstep
  | blockExit =>
    simp only [step] at hstep
    split at hstep
    · rename_i b c fs rest hst
      simp at hstep; subst hstep
      have hfl : s.stack.flatten = b :: (c :: fs ++ rest.flatten) := by rw [hst]; simp
      apply inv_free_core hi (by rw [hfl]; simp) ((c :: fs) :: rest)
      · rw [hfl]; simp
      · intro hmem
        have hnd := (List.nodup_append.1 hi.nodup).2.1
        rw [hfl] at hnd
        exact (List.nodup_cons.1 hnd).1 (by simpa using hmem)
      · intro a ha
        rcases List.mem_cons.1 ha with h1 | h1
        · subst h1; exact ActOK_tail (hi.acts (b :: c :: fs) (by rw [hst]; simp))
        · exact hi.acts a (by rw [hst]; exact List.mem_cons_of_mem _ h1)
    · simp at hstep
  | jumpOut n =>
    simp only [step] at hstep
    split at hstep
    · rename_i a rest hst
      split at hstep
      · simp at hstep; subst hstep
        apply inv_stack_sub hi
        · rw [hst]; simp only [List.flatten_cons]
          exact List.Sublist.append (List.drop_sublist n a) (List.Sublist.refl _)
        · intro b hb
          rcases List.mem_cons.1 hb with h1 | h1
          · subst h1; exact ActOK_drop n (hi.acts a (by rw [hst]; simp))
          · exact hi.acts b (by rw [hst]; exact List.mem_cons_of_mem _ h1)
      · simp at hstep
    · simp at hstep
  | makeClosure =>
    simp only [step] at hstep
    split at hstep
    · simp at hstep
    · rename_i c hc
      simp at hstep; subst hstep
      exact inv_mark hi hc
  | takeAddr up i =>
    simp only [step] at hstep
    split at hstep
    · simp at hstep
    · rename_i c hc
      split at hstep
      · simp at hstep
      · rename_i e hw
        split at hstep
        · simp at hstep
        · rename_i a hints
          split at hstep
          · simp at hstep; subst hstep
            obtain ⟨hnp, hel⟩ := walk_live hi hc hw
            have h1 : Inv { s with heap := s.heap.set e { getF s.heap e with addr := true } } :=
              inv_set_frame hi rfl rfl rfl (Or.inr ⟨rfl, hnp⟩)
            exact inv_add_ptr (e := e) h1 (by simp [getF_set_eq _ hel]; exact hints) (by simp [getF_set_eq _ hel])
          · simp at hstep
  | read up isInt i =>
    simp only [step] at hstep
    split at hstep
    · simp at hstep
    · split at hstep
      · simp at hstep
      · split at hstep
        · split at hstep
          · simp at hstep
          · split at hstep
            · split at hstep
              · simp at hstep
              · simp at hstep; subst hstep; exact hi
            · simp at hstep
        · split at hstep
          · split at hstep
            · simp at hstep
            · simp at hstep; subst hstep; exact hi
          · simp at hstep
  | write up isInt i v =>
    simp only [step] at hstep
    split at hstep
    · simp at hstep
    · split at hstep
      · simp at hstep
      · rename_i e hw
        split at hstep
        · split at hstep
          · simp at hstep
          · split at hstep
            · split at hstep
              · simp at hstep; subst hstep
                exact inv_arrs hi (by simp)
              · simp at hstep
            · simp at hstep
        · split at hstep
          · simp at hstep; subst hstep
            exact inv_set_frame hi rfl rfl rfl (Or.inl rfl)
          · simp at hstep
  | readPtr k =>
    simp only [step] at hstep
    split at hstep
    · simp at hstep
    · split at hstep
      · simp at hstep
      · simp at hstep; subst hstep; exact hi
  | writePtr k v =>
    simp only [step] at hstep
    split at hstep
    · simp at hstep
    · split at hstep
      · simp at hstep; subst hstep
        exact inv_arrs hi (by simp)
      · simp at hstep
  | panicUnwind n =>
    simp only [step] at hstep
    split at hstep
    · simp at hstep; subst hstep
      apply inv_stack_sub hi
      · exact flatten_drop_sublist _ _
      · intro a ha; exact hi.acts a (List.mem_of_mem_drop ha)
    · simp at hstep

theorem inv_run (reuse : Bool) {s s' : State} {ops : List Op} {outs : List Slot} (hi : Inv s)
    (hrun : run reuse s ops = some (s', outs)) : Inv s' := by
  induction ops generalizing s outs with
  | nil => simp [run] at hrun; rw [← hrun.1]; exact hi
  | cons op ops ih =>
    simp only [run] at hrun
    split at hrun
    · simp at hrun
    · rename_i s1 o hstep
      split at hrun
      · simp at hrun
      · rename_i s2 os hrest
        simp at hrun
        obtain ⟨hs2, _⟩ := hrun
        subst hs2
        exact ih (inv_step reuse hi hstep) hrest

end Frames
