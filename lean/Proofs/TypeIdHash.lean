import Proofs.TypeId
namespace TypeId

theorem identL_len32 {xs ys : List Ty} (h : identL true xs ys = true) :
    (9137 + 2 * UInt32.ofNat xs.length : UInt32) = 9137 + 2 * UInt32.ofNat ys.length := by
  rw [identL_length h]

mutual
theorem hash_eq (env : Nat → List String) (nh : Nat → UInt32) :
    ∀ x y, WF env x → WF env y → ident true x y = true → hash nh x = hash nh y
  | .basic k, y, _, _, h => by
      cases y with
      | basic k' => simp only [ident] at h; rw [eq_of_beq h]
      | _ => simp [ident] at h
  | .array n e, y, w1, w2, h => by
      cases y with
      | array n' e' =>
          simp only [ident, Bool.and_eq_true, WF] at *
          simp only [hash, eq_of_beq h.1, hash_eq env nh e e' w1 w2 h.2]
      | _ => simp [ident] at h
  | .slice e, y, w1, w2, h => by
      cases y with
      | slice e' => simp only [ident, WF] at *; simp only [hash, hash_eq env nh e e' w1 w2 h]
      | _ => simp [ident] at h
  | .struct fs, y, w1, w2, h => by
      cases y with
      | struct gs => simp only [ident, WF] at *; simp only [hash, hashFields_eq env nh fs gs _ w1 w2 h]
      | _ => simp [ident] at h
  | .pointer e, y, w1, w2, h => by
      cases y with
      | pointer e' => simp only [ident, WF] at *; simp only [hash, hash_eq env nh e e' w1 w2 h]
      | _ => simp [ident] at h
  | .tuple ts, y, w1, w2, h => by
      cases y with
      | tuple us =>
          simp only [ident, WF] at *
          simp only [hash, identL_len32 h, hashTuple_eq env nh ts us _ w1 w2 h]
      | _ => simp [ident] at h
  | .sig v r ps rs, y, w1, w2, h => by
      cases y with
      | sig v' r' ps' rs' =>
          simp only [ident, Bool.and_eq_true, WF] at *
          obtain ⟨⟨⟨a1, a2⟩, a3⟩, a4⟩ := h
          simp only [hash, eq_of_beq a1, identL_len32 a3, identL_len32 a4,
            hashTuple_eq env nh ps ps' _ w1.2.1 w2.2.1 a3, hashTuple_eq env nh rs rs' _ w1.2.2 w2.2.2 a4,
            hashOpt_eq env nh r r' w1.1 w2.1 a2]
      | _ => simp [ident] at h
  | .iface xa xx xe, y, w1, w2, h => by
      cases y with
      | iface ya yx ye =>
          simp only [ident, Bool.and_eq_true, WF] at *
          have e := eq_of_beq h.2
          subst e
          simp only [hash, w1.1, w2.1]
          exact hashMethods_eq env nh (fun i => !(inheritedIds env xe).contains i) xa ya _ w1.2 w2.2 h.1
      | _ => simp [ident] at h
  | .map k e, y, w1, w2, h => by
      cases y with
      | map k' e' =>
          simp only [ident, Bool.and_eq_true, WF] at *
          simp only [hash, hash_eq env nh k k' w1.1 w2.1 h.1, hash_eq env nh e e' w1.2 w2.2 h.2]
      | _ => simp [ident] at h
  | .chan d e, y, w1, w2, h => by
      cases y with
      | chan d' e' =>
          simp only [ident, Bool.and_eq_true, WF] at *
          simp only [hash, eq_of_beq h.1, hash_eq env nh e e' w1 w2 h.2]
      | _ => simp [ident] at h
  | .named i, y, _, _, h => by
      cases y with
      | named j => simp only [ident] at h; rw [eq_of_beq h]
      | _ => simp [ident] at h
  | .nil, y, _, _, h => by
      cases y with
      | nil => rfl
      | _ => simp [ident] at h
theorem hashOpt_eq (env : Nat → List String) (nh : Nat → UInt32) :
    ∀ x y, WFO env x → WFO env y → identO true x y = true → hashOpt nh x = hashOpt nh y
  | none, none, _, _, _ => rfl
  | none, some _, _, _, h => by simp [identO] at h
  | some _, none, _, _, h => by simp [identO] at h
  | some a, some b, w1, w2, h => by
      simp only [identO, WFO] at *
      simp only [hashOpt, hash_eq env nh a b w1 w2 h]
theorem hashTuple_eq (env : Nat → List String) (nh : Nat → UInt32) :
    ∀ xs ys acc, WFL env xs → WFL env ys → identL true xs ys = true → hashTuple nh acc xs = hashTuple nh acc ys
  | [], [], _, _, _, _ => rfl
  | [], _ :: _, _, _, _, h => by simp [identL] at h
  | _ :: _, [], _, _, _, h => by simp [identL] at h
  | t :: ts, u :: us, acc, w1, w2, h => by
      simp only [identL, Bool.and_eq_true, WFL] at *
      simp only [hashTuple, hash_eq env nh t u w1.1 w2.1 h.1]
      exact hashTuple_eq env nh ts us _ w1.2 w2.2 h.2
theorem hashFields_eq (env : Nat → List String) (nh : Nat → UInt32) :
    ∀ xs ys acc, WFFs env xs → WFFs env ys → identFs true xs ys = true → hashFields nh acc xs = hashFields nh acc ys
  | [], [], _, _, _, _ => rfl
  | [], _ :: _, _, _, _, h => by simp [identFs] at h
  | _ :: _, [], _, _, _, h => by simp [identFs] at h
  | .mk n p a tg t :: fs, .mk n' p' a' tg' t' :: gs, acc, w1, w2, h => by
      simp only [identFs, Bool.and_eq_true, WFFs] at *
      obtain ⟨⟨⟨⟨a1, a2⟩, a3⟩, a4⟩, a5⟩ := h
      have e1 := eq_of_beq a1
      have e2 : tg = tg' := by simpa using a2
      have e3 := sameName_name a3
      subst e1; subst e2; subst e3
      simp only [hashFields, hash_eq env nh t t' w1.1 w2.1 a4]
      exact hashFields_eq env nh fs gs _ w1.2 w2.2 a5
theorem hashMethods_eq (env : Nat → List String) (nh : Nat → UInt32) (p : String → Bool) :
    ∀ xs ys acc, WFMs env xs → WFMs env ys → identMs true xs ys = true →
      hashMethods nh acc (xs.filter (fun m => p m.id)) = hashMethods nh acc (ys.filter (fun m => p m.id))
  | [], [], _, _, _, _ => rfl
  | [], _ :: _, _, _, _, h => by simp [identMs] at h
  | _ :: _, [], _, _, _, h => by simp [identMs] at h
  | .mk n pk v r ps rs :: ms, .mk n' pk' v' r' ps' rs' :: ms', acc, w1, w2, h => by
      simp only [identMs, Bool.and_eq_true, WFMs] at *
      obtain ⟨⟨⟨⟨⟨a1, a2⟩, _⟩, a4⟩, a5⟩, a6⟩ := h
      have e1 := sameName_name a1
      have e2 := eq_of_beq a2
      have eid : Method.id (.mk n pk v r ps rs) = Method.id (.mk n' pk' v' r' ps' rs') := by
        simp only [Method.id, Method.pkg, Method.name]; exact sameName_objId a1
      subst e1; subst e2
      simp only [List.filter_cons, eid]
      split
      · simp only [hashMethods, identL_len32 a4, identL_len32 a5,
          hashTuple_eq env nh ps ps' _ w1.1 w2.1 a4, hashTuple_eq env nh rs rs' _ w1.2.1 w2.2.1 a5]
        exact hashMethods_eq env nh p ms ms' _ w1.2.2 w2.2.2 a6
      · exact hashMethods_eq env nh p ms ms' _ w1.2.2 w2.2.2 a6
end

end TypeId
