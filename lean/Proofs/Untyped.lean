import Model.Untyped
/-! Helper definitions and lemmas for Props.C04: the abstraction from `untyped.Lit` to the
    mathematical constant it denotes, the representation invariant, and the refinement of every
    operator of `fast/binary.go` / `fast/unary.go` / `fast/builtin.go` to `GoSpec.Const`. -/
namespace Untyped
open GoSpec.Const

def nkind : UKind → NKind
  | .rune => .rune
  | .float => .float
  | .complex => .complex
  | _ => .int

/-- the mathematical constant denoted by an `untyped.Lit` -/
def abs (l : Lit) : Val :=
  match l.val with
  | .bool b => .bool b
  | .str s => .str s
  | .int n => .num (nkind l.kind) (Cx.ofInt n)
  | .flt q => .num (nkind l.kind) (Cx.ofRat q)
  | .cplx a b => .num (nkind l.kind) ⟨a, b⟩

/-- representation invariant of `untyped.Lit`: `Kind` agrees with `Val.Kind()` -/
def Lit.wf (l : Lit) : Bool :=
  match l.kind, l.val with
  | .bool, .bool _ => true
  | .string, .str _ => true
  | .int, .int _ => true
  | .rune, .int _ => true
  | .float, .flt _ => true
  | .complex, .cplx _ _ => true
  | _, _ => false

/-- shapes of a well-formed literal -/
theorem Lit.wf_cases {l : Lit} (h : l.wf = true) :
    (∃ b, l = ⟨.bool, .bool b⟩) ∨ (∃ s, l = ⟨.string, .str s⟩) ∨ (∃ n, l = ⟨.int, .int n⟩) ∨
    (∃ n, l = ⟨.rune, .int n⟩) ∨ (∃ q, l = ⟨.float, .flt q⟩) ∨ (∃ a b, l = ⟨.complex, .cplx a b⟩) := by
  obtain ⟨k, v⟩ := l
  cases k <;> cases v <;> simp [Lit.wf] at h ⊢

theorem cx_div_formula (a b c d : Rat) (h : c * c + d * d ≠ 0) :
    Cx.div ⟨a, b⟩ ⟨c, d⟩ = ⟨(a * c + b * d) / (c * c + d * d), (b * c - a * d) / (c * c + d * d)⟩ := by
  simp only [Cx.div, Cx.mul, Cx.inv, Cx.normSq, Cx.mk.injEq]
  constructor <;> grind

/-- the complex inverse of the specification is an inverse -/
theorem cx_mul_inv (c d : Rat) (h : c * c + d * d ≠ 0) : Cx.mul ⟨c, d⟩ (Cx.inv ⟨c, d⟩) = Cx.one := by
  simp only [Cx.mul, Cx.inv, Cx.normSq, Cx.one, Cx.mk.injEq]
  constructor <;> grind

/-- exactness of the quotient: `(x / y) * y = x` -/
theorem cx_div_mul_cancel (a b c d : Rat) (h : c * c + d * d ≠ 0) :
    Cx.mul (Cx.div ⟨a, b⟩ ⟨c, d⟩) ⟨c, d⟩ = ⟨a, b⟩ := by
  simp only [Cx.div, Cx.mul, Cx.inv, Cx.normSq, Cx.mk.injEq]
  constructor <;> grind


theorem logical_refines (op : BinOp) (hop : op = .land ∨ op = .lor) (x y : Lit) (hx : x.wf = true) (hy : y.wf = true) :
    (binaryExprUntyped op x y).map abs = binop op (abs x) (abs y) := by
  rcases Lit.wf_cases hx with ⟨b, rfl⟩ | ⟨s, rfl⟩ | ⟨n, rfl⟩ | ⟨n, rfl⟩ | ⟨q, rfl⟩ | ⟨a, b, rfl⟩ <;>
  rcases Lit.wf_cases hy with ⟨b', rfl⟩ | ⟨s', rfl⟩ | ⟨n', rfl⟩ | ⟨n', rfl⟩ | ⟨q', rfl⟩ | ⟨a', b', rfl⟩ <;>
  rcases hop with rfl | rfl <;>
  simp [binaryExprUntyped, binop, logical, abs]

theorem compare_refines (op : BinOp) (hop : op.isCompare = true) (x y : Lit) (hx : x.wf = true) (hy : y.wf = true) :
    (binaryExprUntyped op x y).map abs = binop op (abs x) (abs y) := by
  rcases Lit.wf_cases hx with ⟨b, rfl⟩ | ⟨s, rfl⟩ | ⟨n, rfl⟩ | ⟨n, rfl⟩ | ⟨q, rfl⟩ | ⟨a, b, rfl⟩ <;>
  rcases Lit.wf_cases hy with ⟨b', rfl⟩ | ⟨s', rfl⟩ | ⟨n', rfl⟩ | ⟨n', rfl⟩ | ⟨q', rfl⟩ | ⟨a', b', rfl⟩ <;>
  cases op <;> simp [BinOp.isCompare] at hop <;>
  simp [binaryExprUntyped, binop, compareOp, abs, untypedClass, cCompare, cmatch, nkind, BinOp.isOrdered, cmpOrd,
    Cx.ofInt, Cx.ofRat, Cx.mk.injEq, Rat.intCast_lt_intCast]

theorem asInteger_abs (l : Lit) (h : l.wf = true) : (abs l).asInteger = cToInt l.val := by
  rcases Lit.wf_cases h with ⟨b, rfl⟩ | ⟨s, rfl⟩ | ⟨n, rfl⟩ | ⟨n, rfl⟩ | ⟨q, rfl⟩ | ⟨a, b, rfl⟩ <;>
  simp [abs, Val.asInteger, cToInt, Cx.ofInt, Cx.ofRat, And.comm]

theorem shift_xn_eq (x : Lit) (h : x.wf = true) : shiftOperand x = cToInt x.val := by
  rcases Lit.wf_cases h with ⟨b, rfl⟩ | ⟨s, rfl⟩ | ⟨n, rfl⟩ | ⟨n, rfl⟩ | ⟨q, rfl⟩ | ⟨a, b, rfl⟩ <;> simp [cToInt, shiftOperand]

theorem shiftKind_abs (x : Lit) (h : x.wf = true) :
    shiftKind (abs x) = nkind (if x.kind = .rune then UKind.rune else UKind.int) ∨ cToInt x.val = none := by
  rcases Lit.wf_cases h with ⟨b, rfl⟩ | ⟨s, rfl⟩ | ⟨n, rfl⟩ | ⟨n, rfl⟩ | ⟨q, rfl⟩ | ⟨a, b, rfl⟩ <;>
  simp [abs, shiftKind, nkind, cToInt]

theorem shift_refines (op : BinOp) (hop : op = .shl ∨ op = .shr) (x y : Lit) (hx : x.wf = true) (hy : y.wf = true) :
    (binaryExprUntyped op x y).map abs = binop op (abs x) (abs y) := by
  have hy' := asInteger_abs y hy
  have hx' := asInteger_abs x hx
  have hxn := shift_xn_eq x hx
  have hk := shiftKind_abs x hx
  have hb : binaryExprUntyped op x y = shiftUntyped op x y := by rcases hop with rfl | rfl <;> rfl
  have hs : binop op (abs x) (abs y) = shift op (abs x) (abs y) := by rcases hop with rfl | rfl <;> rfl
  rw [hb, hs]
  simp only [shiftUntyped, shift, hx', hy', hxn]
  cases hyv : cToInt y.val with
  | none => cases cToInt x.val <;> simp
  | some n =>
    by_cases hr : 0 ≤ n ∧ n < 18446744073709551616
    · have hin : inUint64 n = true := by simp [inUint64, hr]
      cases hxv : cToInt x.val with
      | none => simp [hin]
      | some m =>
        rcases hk with hk | hk
        · simp only [hk]
          rcases hop with rfl | rfl <;>
          simp [hin, hr, maxShiftCount, cShift, abs, Cx.ofInt, Int.shiftLeft_eq, Int.shiftRight_eq_div_pow,
            Int.natCast_pow]
        · simp [hxv] at hk
    · have hin : inUint64 n = false := by
        simp only [inUint64, Bool.and_eq_false_iff, decide_eq_false_iff_not]
        omega
      cases cToInt x.val <;> simp [hin, hr, maxShiftCount]
def BinOp.isArith : BinOp → Bool
  | .add | .sub | .mul | .quo | .rem | .and | .or | .xor | .andNot => true
  | _ => false

theorem arith_refines (op : BinOp) (hop : BinOp.isArith op = true) (x y : Lit) (hx : x.wf = true) (hy : y.wf = true) :
    (binaryExprUntyped op x y).map abs = binop op (abs x) (abs y) := by
  rcases Lit.wf_cases hx with ⟨b, rfl⟩ | ⟨s, rfl⟩ | ⟨n, rfl⟩ | ⟨n, rfl⟩ | ⟨q, rfl⟩ | ⟨a, b, rfl⟩ <;>
  rcases Lit.wf_cases hy with ⟨b', rfl⟩ | ⟨s', rfl⟩ | ⟨n', rfl⟩ | ⟨n', rfl⟩ | ⟨q', rfl⟩ | ⟨a', b', rfl⟩ <;>
  cases op <;> simp [BinOp.isArith] at hop <;>
  simp [binaryExprUntyped, binop, arith, abs, untypedClass, cBinaryOp, cmatch, nkind, isIntKind, makeKind, resultKind,
    NKind.max, NKind.rank, NKind.isInt, intArith, realArith, cxArith, Cx.ofInt, Cx.ofRat, Cx.add, Cx.sub, Cx.mul, Cx.normSq] <;>
  (try (split <;> (try simp_all [abs, nkind, Cx.ofInt, Cx.ofRat, cx_div_formula, resultKind, makeKind, isIntKind])))

theorem binop_cases (op : BinOp) :
    (op = .land ∨ op = .lor) ∨ op.isCompare = true ∨ (op = .shl ∨ op = .shr) ∨ BinOp.isArith op = true := by
  cases op <;> simp [BinOp.isCompare, BinOp.isArith]

/-- every binary operator of `Comp.BinaryExprUntyped` computes the specification's constant
    (value, kind, and rejection), on well-formed literals -/
theorem binop_refines (op : BinOp) (x y : Lit) (hx : x.wf = true) (hy : y.wf = true) :
    (binaryExprUntyped op x y).map abs = binop op (abs x) (abs y) := by
  rcases binop_cases op with h | h | h | h
  · exact logical_refines op h x y hx hy
  · exact compare_refines op h x y hx hy
  · exact shift_refines op h x y hx hy
  · exact arith_refines op h x y hx hy

theorem resultKind_wf (xk yk : UKind) (v : CVal) : (⟨resultKind xk yk v, v⟩ : Lit).wf = true := by
  cases v <;> simp [resultKind, makeKind, Lit.wf]
  cases xk <;> cases yk <;> simp [isIntKind]

/-- the representation invariant is established by every binary operator (whatever the operands) -/
theorem binop_wf (op : BinOp) (x y z : Lit) (h : binaryExprUntyped op x y = some z) : z.wf = true := by
  rcases binop_cases op with hop | hop | hop | hop
  · rcases hop with rfl | rfl <;> simp only [binaryExprUntyped] at h <;> split at h <;> simp at h <;> subst h <;> rfl
  · have : ∃ b, z = ⟨.bool, .bool b⟩ := by
      cases op <;> simp [BinOp.isCompare] at hop <;> simp only [binaryExprUntyped] at h <;>
      split at h <;>
      first | (simp only [Option.map_eq_some_iff] at h; obtain ⟨b, _, rfl⟩ := h; exact ⟨b, rfl⟩) | (simp at h)
    obtain ⟨b, rfl⟩ := this
    rfl
  · have hb : binaryExprUntyped op x y = shiftUntyped op x y := by rcases hop with rfl | rfl <;> rfl
    rw [hb] at h
    simp only [shiftUntyped] at h
    split at h
    · simp at h
    · split at h
      · split at h
        · simp at h
        · simp only [Option.map_eq_some_iff] at h
          obtain ⟨v, _, rfl⟩ := h
          by_cases hk : x.kind = .rune <;> simp [hk, Lit.wf]
      · simp at h
  · have : ∃ v, z = ⟨resultKind x.kind y.kind v, v⟩ := by
      cases op <;> simp [BinOp.isArith] at hop <;> simp only [binaryExprUntyped] at h <;>
      split at h <;>
      first | (simp only [Option.map_eq_some_iff] at h; obtain ⟨v, _, rfl⟩ := h; exact ⟨v, rfl⟩) | (simp at h)
    obtain ⟨v, rfl⟩ := this
    exact resultKind_wf _ _ _

theorem unop_refines (op : UnOp) (x : Lit) (hx : x.wf = true) :
    (unaryExprUntyped op x).map abs = unop op (abs x) := by
  rcases Lit.wf_cases hx with ⟨b, rfl⟩ | ⟨s, rfl⟩ | ⟨n, rfl⟩ | ⟨n, rfl⟩ | ⟨q, rfl⟩ | ⟨a, b, rfl⟩ <;>
  cases op <;>
  simp [unaryExprUntyped, cUnaryOp, unop, abs, nkind, NKind.isInt, Cx.ofInt, Cx.ofRat, Cx.neg]

theorem unop_wf (op : UnOp) (x : Lit) (hx : x.wf = true) (z : Lit) (h : unaryExprUntyped op x = some z) :
    z.wf = true := by
  rcases Lit.wf_cases hx with ⟨b, rfl⟩ | ⟨s, rfl⟩ | ⟨n, rfl⟩ | ⟨n, rfl⟩ | ⟨q, rfl⟩ | ⟨a, b, rfl⟩ <;>
  cases op <;> simp [unaryExprUntyped, cUnaryOp] at h <;> subst h <;> simp [Lit.wf]

theorem realImag_refines (isReal : Bool) (x : Lit) (hx : x.wf = true) :
    (realImagUntyped isReal x).map abs = (if isReal then realOf (abs x) else imagOf (abs x)) := by
  rcases Lit.wf_cases hx with ⟨b, rfl⟩ | ⟨s, rfl⟩ | ⟨n, rfl⟩ | ⟨n, rfl⟩ | ⟨q, rfl⟩ | ⟨a, b, rfl⟩ <;>
  cases isReal <;>
  simp [realImagUntyped, cReal, cImag, cToFloat, realOf, imagOf, abs, nkind, Cx.ofInt, Cx.ofRat]

theorem realImag_wf (isReal : Bool) (x z : Lit) (h : realImagUntyped isReal x = some z) : z.wf = true := by
  simp only [realImagUntyped] at h
  split at h
  · simp at h
  · simp only [Option.map_eq_some_iff] at h
    obtain ⟨q, _, rfl⟩ := h
    simp [Lit.wf]

theorem complex_refines (x y : Lit) (hx : x.wf = true) (hy : y.wf = true) :
    (complexUntyped x y).map abs = complexOf (abs x) (abs y) := by
  rcases Lit.wf_cases hx with ⟨b, rfl⟩ | ⟨s, rfl⟩ | ⟨n, rfl⟩ | ⟨n, rfl⟩ | ⟨q, rfl⟩ | ⟨a, b, rfl⟩ <;>
  rcases Lit.wf_cases hy with ⟨b', rfl⟩ | ⟨s', rfl⟩ | ⟨n', rfl⟩ | ⟨n', rfl⟩ | ⟨q', rfl⟩ | ⟨a', b', rfl⟩ <;>
  simp [complexUntyped, complexArgOk, cImag, cBinaryOp, cmatch, complexOf, abs, nkind, Cx.ofInt, Cx.ofRat] <;>
  (try (split <;> simp_all [abs, nkind])) <;>
  (try (constructor <;> grind))

theorem complex_wf (x y z : Lit) (hx : x.wf = true) (hy : y.wf = true) (h : complexUntyped x y = some z) : z.wf = true := by
  rcases Lit.wf_cases hx with ⟨b, rfl⟩ | ⟨s, rfl⟩ | ⟨n, rfl⟩ | ⟨n, rfl⟩ | ⟨q, rfl⟩ | ⟨a, b, rfl⟩ <;>
  rcases Lit.wf_cases hy with ⟨b', rfl⟩ | ⟨s', rfl⟩ | ⟨n', rfl⟩ | ⟨n', rfl⟩ | ⟨q', rfl⟩ | ⟨a', b', rfl⟩ <;>
  simp [complexUntyped, complexArgOk, cImag, cBinaryOp, cmatch] at h <;>
  (try (rcases h with ⟨_, rfl⟩)) <;> (try subst h) <;> (try simp [Lit.wf]) <;> (try (obtain ⟨_, rfl⟩ := h; simp [Lit.wf]))

end Untyped
