import GoSpec.Selector
/-! Helper lemmas for C09: the pruned breadth-first searches of xreflect/lookup.go compute
    Go's selector rule. -/
namespace Lookup

theorem flatMap_ne_nil {β γ : Type} (l : List β) (f : β → List γ) :
    l.flatMap f ≠ [] ↔ ∃ x, x ∈ l ∧ f x ≠ [] := by
  induction l with
  | nil => simp
  | cons a l ih =>
    simp only [List.flatMap_cons, ne_eq, List.append_eq_nil_iff, List.mem_cons]
    constructor
    · intro h
      by_cases ha : f a = []
      · have : l.flatMap f ≠ [] := fun hl => h ⟨ha, hl⟩
        obtain ⟨x, hx, hfx⟩ := ih.mp this
        exact ⟨x, Or.inr hx, hfx⟩
      · exact ⟨a, Or.inl rfl, ha⟩
    · rintro ⟨x, hx | hx, hfx⟩ h
      · subst hx; exact hfx h.1
      · exact (ih.mpr ⟨x, hx, hfx⟩) h.2

/-! ## generic facts about `reach` -/
section generic
variable {α : Type} (U : Universe) (dm : Entry → List α)

/-- candidates found `r` levels below `e` -/
def below (e : Entry) (r : Nat) : List α := (reach U e r).flatMap dm

theorem reach_succ_left (e : Entry) (r : Nat) :
    reach U e (r+1) = (children U e).flatMap (fun c => reach U c r) := by
  induction r with
  | zero => simp [reach]
  | succ r ih =>
    rw [reach, ih, List.flatMap_assoc]
    simp [reach]

theorem reach_add (e : Entry) (d r : Nat) :
    reach U e (d + r) = (reach U e d).flatMap (fun x => reach U x r) := by
  induction r with
  | zero => simp [reach]
  | succ r ih =>
    rw [← Nat.add_assoc, reach, ih, List.flatMap_assoc]
    simp [reach]

theorem below_succ (e : Entry) (r : Nat) :
    below U dm e (r+1) = (children U e).flatMap (fun c => below U dm c r) := by
  unfold below
  rw [reach_succ_left, List.flatMap_assoc]

theorem below_add (e : Entry) (d r : Nat) :
    below U dm e (d + r) = (reach U e d).flatMap (fun x => below U dm x r) := by
  unfold below
  rw [reach_add, List.flatMap_assoc]

theorem below_zero (e : Entry) : below U dm e 0 = dm e := by
  simp [below, reach]

end generic


/-! ## structure of `children` -/

theorem embEntries_typs (index : List Nat) (fs : List Field) (i : Nat) :
    (embEntries index fs i).map (fun c => (c.typ, c.ptr)) =
      (fs.filter (fun f => f.emb)).map (fun f => (f.typ, f.ptr)) := by
  induction fs generalizing i with
  | nil => simp [embEntries]
  | cons f fs ih =>
    unfold embEntries
    by_cases h : f.emb = true <;> simp [h, ih]

theorem embEntries_len (index : List Nat) (fs : List Field) (i : Nat) :
    ∀ c ∈ embEntries index fs i, c.index.length = index.length + 1 := by
  induction fs generalizing i with
  | nil => simp [embEntries]
  | cons f fs ih =>
    unfold embEntries
    by_cases h : f.emb = true
    · simp only [h, if_true, List.mem_cons]
      intro c hc
      rcases hc with rfl | hc
      · simp
      · exact ih _ c hc
    · simp only [h]
      exact ih _

theorem children_len (U : Universe) (e : Entry) :
    ∀ c ∈ children U e, c.index.length = e.index.length + 1 := by
  unfold children
  cases U.bodyOf e.typ with
  | none => simp
  | some b => exact embEntries_len _ _ _

theorem reach_len (U : Universe) (e : Entry) (d : Nat) :
    ∀ x ∈ reach U e d, x.index.length = e.index.length + d := by
  induction d with
  | zero => simp [reach]
  | succ d ih =>
    intro x hx
    simp only [reach, List.mem_flatMap] at hx
    obtain ⟨y, hy, hxy⟩ := hx
    have := children_len U y x hxy
    have := ih y hy
    omega

theorem mem_reach_succ (U : Universe) (e x c : Entry) (d : Nat)
    (hx : x ∈ reach U e d) (hc : c ∈ children U x) : c ∈ reach U e (d+1) := by
  simp only [reach, List.mem_flatMap]
  exact ⟨x, hx, hc⟩

/-! ## candidates below a type depend on the type only -/
section pruning
variable {α : Type} (U : Universe) (dm : Entry → List α) (hit : Nat → Bool → Bool)

/-- is there a candidate `r` levels below a type (no paths, no indices) -/
def hasBelow : Nat → Nat → Bool → Bool
  | 0, t, p => hit t p
  | r+1, t, _ =>
    match U.bodyOf t with
    | none => false
    | some b => ((U.fieldsOf b).filter (fun f => f.emb)).any (fun f => hasBelow r f.typ f.ptr)

theorem below_ne_nil_iff (hdm : ∀ e, dm e ≠ [] ↔ hit e.typ e.ptr = true) (e : Entry) (r : Nat) :
    below U dm e r ≠ [] ↔ hasBelow U hit r e.typ e.ptr = true := by
  induction r generalizing e with
  | zero => simp [below_zero, hasBelow, hdm]
  | succ r ih =>
    rw [below_succ, flatMap_ne_nil]
    unfold hasBelow children
    cases hb : U.bodyOf e.typ with
    | none => simp
    | some b =>
      simp only [List.any_eq_true]
      constructor
      · rintro ⟨c, hc, hne⟩
        have h1 : (c.typ, c.ptr) ∈ (embEntries e.index (U.fieldsOf b) 0).map (fun c => (c.typ, c.ptr)) :=
          List.mem_map.mpr ⟨c, hc, rfl⟩
        rw [embEntries_typs] at h1
        obtain ⟨f, hf, hfe⟩ := List.mem_map.mp h1
        refine ⟨f, hf, ?_⟩
        have := (ih c).mp hne
        simp only [Prod.mk.injEq] at hfe
        rw [hfe.1, hfe.2]; exact this
      · rintro ⟨f, hf, hfb⟩
        have h1 : (f.typ, f.ptr) ∈ ((U.fieldsOf b).filter (fun f => f.emb)).map (fun f => (f.typ, f.ptr)) :=
          List.mem_map.mpr ⟨f, hf, rfl⟩
        rw [← embEntries_typs e.index _ 0] at h1
        obtain ⟨c, hc, hce⟩ := List.mem_map.mp h1
        simp only [Prod.mk.injEq] at hce
        refine ⟨c, hc, ?_⟩
        apply (ih c).mpr
        rw [hce.1, hce.2]; exact hfb

theorem hasBelow_succ_congr (r t1 t2 : Nat) (p1 p2 : Bool) (h : U.bodyOf t1 = U.bodyOf t2) :
    hasBelow U hit (r+1) t1 p1 = hasBelow U hit (r+1) t2 p2 := by
  simp only [hasBelow, h]

/-- the depthMap invariant: a struct recorded at depth j really occurs at depth j -/
def VisOK (root : Nat) (vis : DepthMap) : Prop :=
  ∀ b j, vis.lookup b = some j → ∃ x ∈ reach U (rootEntry root) j, U.bodyOf x.typ = some b

/-- candidates at depth d of `root` -/
def candsAt (root : Nat) (d : Nat) : List α := below U dm (rootEntry root) d

/-- PRUNING IS TRANSPARENT: if the struct of `e` was already seen at a shallower depth `j < d`
    and no candidate exists above depth `d + (r+1)`, nothing is found `r+1` levels below `e`. -/
theorem pruned_below_succ (hdm : ∀ e, dm e ≠ [] ↔ hit e.typ e.ptr = true)
    (root : Nat) (vis : DepthMap) (hv : VisOK U root vis) (e : Entry) (b j d r : Nat)
    (hb : U.bodyOf e.typ = some b) (hj : vis.lookup b = some j) (hjd : j < d)
    (H : ∀ d', d' < d + (r+1) → candsAt U dm root d' = []) :
    below U dm e (r+1) = [] := by
  refine Classical.byContradiction fun hne => ?_
  have h1 := (below_ne_nil_iff U dm hit hdm e (r+1)).mp hne
  obtain ⟨x, hx, hxb⟩ := hv b j hj
  rw [hasBelow_succ_congr U hit r e.typ x.typ e.ptr x.ptr (by rw [hb, hxb])] at h1
  have h2 := (below_ne_nil_iff U dm hit hdm x (r+1)).mpr h1
  have h3 : candsAt U dm root (j + (r+1)) ≠ [] := by
    unfold candsAt
    rw [below_add, flatMap_ne_nil]
    exact ⟨x, hx, h2⟩
  exact h3 (H _ (by omega))

/-- same at level 0 when the direct candidates depend on the struct only (fields) -/
theorem pruned_below_zero (hdm : ∀ e, dm e ≠ [] ↔ hit e.typ e.ptr = true)
    (hcongr : ∀ t1 t2 p1 p2, U.bodyOf t1 = U.bodyOf t2 → hit t1 p1 = hit t2 p2)
    (root : Nat) (vis : DepthMap) (hv : VisOK U root vis) (e : Entry) (b j d : Nat)
    (hb : U.bodyOf e.typ = some b) (hj : vis.lookup b = some j) (hjd : j < d)
    (H : ∀ d', d' < d → candsAt U dm root d' = []) :
    dm e = [] := by
  refine Classical.byContradiction fun hne => ?_
  have h1 := (hdm e).mp hne
  obtain ⟨x, hx, hxb⟩ := hv b j hj
  rw [hcongr e.typ x.typ e.ptr x.ptr (by rw [hb, hxb])] at h1
  have h2 := (hdm x).mpr h1
  have h3 : candsAt U dm root j ≠ [] := by
    unfold candsAt below
    rw [flatMap_ne_nil]
    exact ⟨x, hx, h2⟩
  exact h3 (H _ hjd)

theorem visOK_nil (root : Nat) : VisOK U root [] := by
  intro b j h; simp at h

theorem visOK_cons (root : Nat) (vis : DepthMap) (hv : VisOK U root vis) (e : Entry) (b d : Nat)
    (he : e ∈ reach U (rootEntry root) d) (hb : U.bodyOf e.typ = some b) :
    VisOK U root ((b, d) :: vis) := by
  intro b' j h
  simp only [List.lookup_cons] at h
  by_cases hbb : b' = b
  · subst hbb
    simp at h
    subst h
    exact ⟨e, he, hb⟩
  · have : (b' == b) = false := by simp [hbb]
    simp only [this] at h
    exact hv b' j h

end pruning

/-! ## fields: `fieldByName`, `fieldLevel`, `fieldLoop` -/

def fieldHit (U : Universe) (name : String) (t : Nat) (_p : Bool) : Bool :=
  match U.bodyOf t with
  | none => false
  | some b => (U.fieldsOf b).any (fun f => f.name = name)

theorem matchIdx_ne_nil (name : String) (index : List Nat) (fs : List Field) (i : Nat) :
    matchIdx name index fs i ≠ [] ↔ fs.any (fun f => f.name = name) = true := by
  induction fs generalizing i with
  | nil => simp [matchIdx]
  | cons f fs ih =>
    unfold matchIdx
    by_cases h : f.name = name
    · simp [h]
    · simp [h, ih]

theorem fieldMatches_hit (U : Universe) (name : String) (e : Entry) :
    fieldMatches U name e ≠ [] ↔ fieldHit U name e.typ e.ptr = true := by
  unfold fieldMatches fieldHit
  cases U.bodyOf e.typ with
  | none => simp
  | some b => exact matchIdx_ne_nil _ _ _ _

theorem fieldHit_congr (U : Universe) (name : String) (t1 t2 : Nat) (p1 p2 : Bool)
    (h : U.bodyOf t1 = U.bodyOf t2) : fieldHit U name t1 p1 = fieldHit U name t2 p2 := by
  simp only [fieldHit, h]

/-- what the scan loop computes -/
theorem scanFields_spec (name : String) (index : List Nat) (fs : List Field) (i : Nat) (s : Scan) :
    (scanFields name index fs i s).count = s.count + (matchIdx name index fs i).length ∧
    (s.count = 0 → (scanFields name index fs i s).first =
        (match (matchIdx name index fs i).head? with | some x => some x | none => s.first)) ∧
    (s.count = 0 → matchIdx name index fs i = [] →
        (scanFields name index fs i s).tovisit = s.tovisit ++ embEntries index fs i) := by
  induction fs generalizing i s with
  | nil => simp [scanFields, matchIdx, embEntries]
  | cons f fs ih =>
    unfold scanFields matchIdx embEntries
    by_cases h : f.name = name
    · simp only [h, if_true]
      obtain ⟨h1, _, _⟩ := ih (i+1) { s with first := if s.count = 0 then some (index ++ [i]) else s.first, count := s.count + 1 }
      refine ⟨?_, ?_, ?_⟩
      · rw [h1]; simp; omega
      · intro hs
        -- after the first match the count is positive: first stays
        have key : ∀ (fs : List Field) (j : Nat) (s' : Scan), s'.count > 0 →
            (scanFields name index fs j s').first = s'.first := by
          intro fs
          induction fs with
          | nil => intro j s' _; simp [scanFields]
          | cons g gs ihg =>
            intro j s' hpos
            unfold scanFields
            by_cases hg : g.name = name
            · simp only [hg, if_true]
              rw [ihg]
              · simp; omega
              · simp
            · have : ¬ (s'.count = 0 ∧ g.emb = true) := by omega
              simp only [hg, if_false, this]
              exact ihg _ _ hpos
        rw [key]
        · simp [hs]
        · simp
      · intro _ hnil; simp at hnil
    · simp only [h, if_false]
      by_cases he : f.emb = true
      · by_cases hs : s.count = 0
        · rw [if_pos (⟨hs, he⟩ : s.count = 0 ∧ f.emb = true), if_pos he]
          obtain ⟨h1, h2, h3⟩ := ih (i+1) { s with tovisit := s.tovisit ++ [⟨index ++ [i], f.typ, f.ptr⟩] }
          refine ⟨h1, fun _ => h2 hs, ?_⟩
          intro _ hnil
          have := h3 hs hnil
          rw [this]; simp
        · have : ¬ (s.count = 0 ∧ f.emb = true) := fun hh => hs hh.1
          rw [if_neg this, if_pos he]
          obtain ⟨h1, _, _⟩ := ih (i+1) s
          exact ⟨h1, fun hh => absurd hh hs, fun hh => absurd hh hs⟩
      · have : ¬ (s.count = 0 ∧ f.emb = true) := fun hh => he hh.2
        rw [if_neg this, if_neg he]
        obtain ⟨h1, h2, h3⟩ := ih (i+1) s
        exact ⟨h1, h2, h3⟩

section fields
variable (U : Universe) (name : String) (root : Nat)

theorem fieldsAt_eq (d : Nat) : fieldsAt U root name d = candsAt U (fieldMatches U name) root d := rfl

theorem children_of_body (e : Entry) (b : Nat) (hb : U.bodyOf e.typ = some b) :
    children U e = embEntries e.index (U.fieldsOf b) 0 := by
  simp [children, hb]

theorem fieldMatches_of_body (e : Entry) (b : Nat) (hb : U.bodyOf e.typ = some b) :
    fieldMatches U name e = matchIdx name e.index (U.fieldsOf b) 0 := by
  simp [fieldMatches, hb]

theorem head?_match {β : Type} (l : List β) :
    (match l.head? with | some x => some x | none => (none : Option β)) = l.head? := by
  cases l <;> rfl

/-- one call of `fieldByName` during the search at depth `d` -/
theorem fieldByName_spec (vis : DepthMap) (hv : VisOK U root vis) (e : Entry) (d : Nat)
    (he : e ∈ reach U (rootEntry root) d)
    (Hd : ∀ d', d' < d → candsAt U (fieldMatches U name) root d' = []) :
    (fieldByName U name e vis).1.count = (fieldMatches U name e).length ∧
    (fieldByName U name e vis).1.first = (fieldMatches U name e).head? ∧
    VisOK U root (fieldByName U name e vis).2 ∧
    ((fieldByName U name e vis).1.count = 0 →
      (∀ x ∈ (fieldByName U name e vis).1.tovisit, x ∈ children U e) ∧
      ∀ k, (∀ d', d' < d + (k+1) → candsAt U (fieldMatches U name) root d' = []) →
        (fieldByName U name e vis).1.tovisit.flatMap (fun c => below U (fieldMatches U name) c k)
          = below U (fieldMatches U name) e (k+1)) := by
  have hlen : e.index.length = d := by
    have := reach_len U (rootEntry root) d e he
    simpa [rootEntry] using this
  -- the non-pruned case
  have scanCase : ∀ b, U.bodyOf e.typ = some b → ∀ vis', VisOK U root vis' →
      (scanFields name e.index (U.fieldsOf b) 0 ⟨none, 0, []⟩).count = (fieldMatches U name e).length ∧
      (scanFields name e.index (U.fieldsOf b) 0 ⟨none, 0, []⟩).first = (fieldMatches U name e).head? ∧
      VisOK U root vis' ∧
      ((scanFields name e.index (U.fieldsOf b) 0 ⟨none, 0, []⟩).count = 0 →
        (∀ x ∈ (scanFields name e.index (U.fieldsOf b) 0 ⟨none, 0, []⟩).tovisit, x ∈ children U e) ∧
        ∀ k, (∀ d', d' < d + (k+1) → candsAt U (fieldMatches U name) root d' = []) →
          (scanFields name e.index (U.fieldsOf b) 0 ⟨none, 0, []⟩).tovisit.flatMap (fun c => below U (fieldMatches U name) c k)
            = below U (fieldMatches U name) e (k+1)) := by
    intro b hb vis' hv'
    obtain ⟨h1, h2, h3⟩ := scanFields_spec name e.index (U.fieldsOf b) 0 ⟨none, 0, []⟩
    rw [fieldMatches_of_body U name e b hb]
    refine ⟨by simpa using h1, ?_, hv', ?_⟩
    · have h2' := h2 rfl
      simp only at h2'
      rw [h2']; cases (matchIdx name e.index (U.fieldsOf b) 0).head? <;> rfl
    · intro hc
      have hnil : matchIdx name e.index (U.fieldsOf b) 0 = [] := by
        rw [h1] at hc
        simp only [Nat.zero_add] at hc
        exact List.eq_nil_of_length_eq_zero hc
      have htv := h3 rfl hnil
      simp only [List.nil_append] at htv
      rw [htv, ← children_of_body U e b hb]
      refine ⟨fun x hx => hx, fun k _ => ?_⟩
      rw [below_succ]
  -- the pruned / not-a-struct case
  have emptyCase : ∀ vis', VisOK U root vis' → fieldMatches U name e = [] →
      (∀ k, (∀ d', d' < d + (k+1) → candsAt U (fieldMatches U name) root d' = []) →
        below U (fieldMatches U name) e (k+1) = []) →
      (⟨none, 0, []⟩ : Scan).count = (fieldMatches U name e).length ∧
      (⟨none, 0, []⟩ : Scan).first = (fieldMatches U name e).head? ∧
      VisOK U root vis' ∧
      ((⟨none, 0, []⟩ : Scan).count = 0 →
        (∀ x ∈ (⟨none, 0, []⟩ : Scan).tovisit, x ∈ children U e) ∧
        ∀ k, (∀ d', d' < d + (k+1) → candsAt U (fieldMatches U name) root d' = []) →
          (⟨none, 0, []⟩ : Scan).tovisit.flatMap (fun c => below U (fieldMatches U name) c k)
            = below U (fieldMatches U name) e (k+1)) := by
    intro vis' hv' hm hbelow
    rw [hm]
    refine ⟨rfl, rfl, hv', fun _ => ⟨fun x hx => by simp at hx, fun k hk => ?_⟩⟩
    rw [hbelow k hk]; rfl
  cases hb : U.bodyOf e.typ with
  | none =>
    have heq : fieldByName U name e vis = (⟨none, 0, []⟩, vis) := by
      simp [fieldByName, hb]
    rw [heq]
    refine emptyCase vis hv ?_ ?_
    · simp [fieldMatches, hb]
    · intro k _
      rw [below_succ]; simp [children, hb]
  | some b =>
    cases hl : vis.lookup b with
    | none =>
      have heq : fieldByName U name e vis =
          (scanFields name e.index (U.fieldsOf b) 0 ⟨none, 0, []⟩, (b, d) :: vis) := by
        simp [fieldByName, hb, DepthMap.visited, hl, hlen]
      rw [heq]
      exact scanCase b hb _ (visOK_cons U root vis hv e b d he hb)
    | some j =>
      by_cases hjd : j < d
      · have heq : fieldByName U name e vis = (⟨none, 0, []⟩, vis) := by
          simp [fieldByName, hb, DepthMap.visited, hl, hlen, hjd]
        rw [heq]
        refine emptyCase vis hv ?_ ?_
        · exact pruned_below_zero U (fieldMatches U name) (fieldHit U name) (fieldMatches_hit U name)
            (fieldHit_congr U name) root vis hv e b j d hb hl hjd Hd
        · intro k hk
          exact pruned_below_succ U (fieldMatches U name) (fieldHit U name) (fieldMatches_hit U name)
            root vis hv e b j d k hb hl hjd hk
      · have heq : fieldByName U name e vis =
            (scanFields name e.index (U.fieldsOf b) 0 ⟨none, 0, []⟩, (b, d) :: vis) := by
          simp [fieldByName, hb, DepthMap.visited, hl, hlen, hjd]
        rw [heq]
        exact scanCase b hb _ (visOK_cons U root vis hv e b d he hb)

/-- one iteration of the `for _, f := range tovisit` body -/
def fieldStep (f : Entry) (st : FState) : FState :=
  let r := fieldByName U name f st.vis
  { field := if st.count = 0 then (if r.1.count > 0 then r.1.first else st.field) else st.field
    count := st.count + r.1.count
    next  := if st.count = 0 then (if r.1.count > 0 then st.next else st.next ++ r.1.tovisit) else st.next
    vis   := r.2 }

theorem fieldLevel_cons (f : Entry) (fs : List Entry) (st : FState) :
    fieldLevel U name (f :: fs) st = fieldLevel U name fs (fieldStep U name f st) := rfl

theorem fieldLevel_pos (tv : List Entry) (st : FState) (h : st.count > 0) :
    (fieldLevel U name tv st).field = st.field := by
  induction tv generalizing st with
  | nil => simp [fieldLevel]
  | cons f fs ih =>
    rw [fieldLevel_cons, ih]
    · have hne : ¬ st.count = 0 := by omega
      simp [fieldStep, hne]
    · simp [fieldStep]; omega

/-- one level of the breadth-first loop of `FieldByName` at depth `d` -/
theorem fieldLevel_spec (d : Nat)
    (Hd : ∀ d', d' < d → candsAt U (fieldMatches U name) root d' = []) :
    ∀ (tv : List Entry) (st : FState), (∀ e ∈ tv, e ∈ reach U (rootEntry root) d) → VisOK U root st.vis →
      (fieldLevel U name tv st).count = st.count + (tv.flatMap (fieldMatches U name)).length ∧
      (st.count = 0 → (fieldLevel U name tv st).field =
          (match (tv.flatMap (fieldMatches U name)).head? with | some x => some x | none => st.field)) ∧
      VisOK U root (fieldLevel U name tv st).vis ∧
      (st.count = 0 → tv.flatMap (fieldMatches U name) = [] →
        (∀ x ∈ (fieldLevel U name tv st).next, x ∈ st.next ∨ x ∈ reach U (rootEntry root) (d+1)) ∧
        ∀ k, (∀ d', d' < d + (k+1) → candsAt U (fieldMatches U name) root d' = []) →
          (fieldLevel U name tv st).next.flatMap (fun c => below U (fieldMatches U name) c k) =
            st.next.flatMap (fun c => below U (fieldMatches U name) c k) ++
              tv.flatMap (fun c => below U (fieldMatches U name) c (k+1))) := by
  intro tv
  induction tv with
  | nil =>
    intro st _ hv
    refine ⟨by simp [fieldLevel], fun _ => by simp [fieldLevel], by simpa [fieldLevel] using hv, fun _ _ => ⟨?_, ?_⟩⟩
    · intro x hx; exact Or.inl (by simpa [fieldLevel] using hx)
    · intro k _; simp [fieldLevel]
  | cons f fs ih =>
    intro st hmem hv
    have hf : f ∈ reach U (rootEntry root) d := hmem f (by simp)
    have hfs : ∀ e ∈ fs, e ∈ reach U (rootEntry root) d := fun e he => hmem e (by simp [he])
    obtain ⟨hc, hfirst, hvis, hzero⟩ := fieldByName_spec U name root st.vis hv f d hf Hd
    rw [fieldLevel_cons]
    simp only [List.flatMap_cons, List.length_append]
    generalize hst1 : fieldStep U name f st = st1
    have h1c : st1.count = st.count + (fieldMatches U name f).length := by rw [← hst1, ← hc]; rfl
    have h1v : VisOK U root st1.vis := by rw [← hst1]; exact hvis
    obtain ⟨ihc, ihf, ihv, ihz⟩ := ih st1 hfs h1v
    refine ⟨by rw [ihc, h1c]; omega, ?_, ihv, ?_⟩
    · intro hs0
      by_cases hm : fieldMatches U name f = []
      · have hc0 : (fieldByName U name f st.vis).1.count = 0 := by rw [hc, hm]; rfl
        have h10 : st1.count = 0 := by rw [h1c, hs0, hm]; rfl
        have h1f : st1.field = st.field := by rw [← hst1]; simp [fieldStep, hs0, hc0]
        rw [ihf h10, hm, h1f]; simp
      · have hpos : (fieldMatches U name f).length > 0 := List.length_pos_iff.mpr hm
        have hcpos : (fieldByName U name f st.vis).1.count > 0 := by rw [hc]; exact hpos
        have h1pos : st1.count > 0 := by rw [h1c]; omega
        have h1f : st1.field = (fieldMatches U name f).head? := by
          rw [← hst1]; simp [fieldStep, hs0, hcpos, hfirst]
        rw [fieldLevel_pos U name fs st1 h1pos, h1f]
        cases hmf : fieldMatches U name f with
        | nil => exact absurd hmf hm
        | cons a l => simp
    · intro hs0 hnil
      have hm : fieldMatches U name f = [] := (List.append_eq_nil_iff.mp hnil).1
      have hms : fs.flatMap (fieldMatches U name) = [] := (List.append_eq_nil_iff.mp hnil).2
      have hc0 : (fieldByName U name f st.vis).1.count = 0 := by rw [hc, hm]; rfl
      have h10 : st1.count = 0 := by rw [h1c, hs0, hm]; rfl
      have h1n : st1.next = st.next ++ (fieldByName U name f st.vis).1.tovisit := by
        rw [← hst1]; simp [fieldStep, hs0, hc0]
      obtain ⟨hsub, hflat⟩ := hzero hc0
      obtain ⟨ihsub, ihflat⟩ := ihz h10 hms
      refine ⟨?_, ?_⟩
      · intro x hx
        rcases ihsub x hx with h | h
        · rw [h1n, List.mem_append] at h
          rcases h with h | h
          · exact Or.inl h
          · exact Or.inr (mem_reach_succ U _ f x d hf (hsub x h))
        · exact Or.inr h
      · intro k hk
        rw [ihflat k hk, h1n, List.flatMap_append, hflat k hk, List.append_assoc]

end fields

/-- Go's selector rule as a relation between the candidates per depth and a lookup result
    `(first candidate, count)`: count = 0 iff there is no candidate at any depth; otherwise the
    count and the first candidate are those of the shallowest depth that has candidates. -/
def LookupSpec {α : Type} (cands : Nat → List α) (r : Option α × Nat) : Prop :=
  (r.2 = 0 → r.1 = none ∧ ∀ d, cands d = []) ∧
  (r.2 > 0 → ∃ d, (∀ d', d' < d → cands d' = []) ∧ (cands d).length = r.2 ∧ (cands d).head? = r.1)

theorem all_nil_of_frontier_nil {α : Type} (cands : Nat → List α) (d : Nat)
    (Hd : ∀ d', d' < d → cands d' = [])
    (H : ∀ k, (∀ d', d' < d + k → cands d' = []) → cands (d + k) = []) : ∀ n, cands n = [] := by
  intro n
  induction n using Nat.strongRecOn with
  | _ n ih =>
    by_cases hn : n < d
    · exact Hd n hn
    · have : n = d + (n - d) := by omega
      rw [this]
      apply H
      intro d' hd'
      exact ih d' (by omega)

section fields2
variable (U : Universe) (name : String) (root : Nat)

theorem fieldLoop_pos (fuel : Nat) (st : FState) (h : st.count > 0) :
    fieldLoop U name fuel st = some (st.field, st.count) := by
  have hne : ¬ (st.count = 0 ∧ st.next ≠ []) := by omega
  cases fuel <;> simp [fieldLoop, hne]

theorem fieldLoop_nil (fuel : Nat) (st : FState) (h : st.next = []) :
    fieldLoop U name fuel st = some (st.field, st.count) := by
  have hne : ¬ (st.count = 0 ∧ st.next ≠ []) := fun hh => hh.2 h
  cases fuel <;> simp [fieldLoop, hne]

theorem flatMap_below_zero {α : Type} (dm : Entry → List α) (l : List Entry) :
    l.flatMap (fun c => below U dm c 0) = l.flatMap dm := by
  congr 1; funext c; exact below_zero U dm c

theorem fieldLoop_spec : ∀ (fuel d : Nat) (st : FState) (r : Option (List Nat) × Nat),
    st.count = 0 → st.field = none → VisOK U root st.vis →
    (∀ d', d' < d → candsAt U (fieldMatches U name) root d' = []) →
    (∀ x ∈ st.next, x ∈ reach U (rootEntry root) d) →
    (∀ k, (∀ d', d' < d + k → candsAt U (fieldMatches U name) root d' = []) →
      st.next.flatMap (fun c => below U (fieldMatches U name) c k) = candsAt U (fieldMatches U name) root (d + k)) →
    fieldLoop U name fuel st = some r → LookupSpec (candsAt U (fieldMatches U name) root) r := by
  intro fuel
  induction fuel with
  | zero =>
    intro d st r hc hf hv Hd hmem HI h
    by_cases hn : st.next = []
    · rw [fieldLoop_nil U name 0 st hn] at h
      injection h with h; subst h
      refine ⟨fun _ => ⟨hf, ?_⟩, fun hp => absurd hc (by simp at hp; omega)⟩
      apply all_nil_of_frontier_nil _ d Hd
      intro k hk
      rw [← HI k hk, hn]; rfl
    · simp [fieldLoop, hc, hn] at h
  | succ fuel ih =>
    intro d st r hc hf hv Hd hmem HI h
    by_cases hn : st.next = []
    · rw [fieldLoop_nil U name _ st hn] at h
      injection h with h; subst h
      refine ⟨fun _ => ⟨hf, ?_⟩, fun hp => absurd hc (by simp at hp; omega)⟩
      apply all_nil_of_frontier_nil _ d Hd
      intro k hk
      rw [← HI k hk, hn]; rfl
    · have hstep : fieldLoop U name (fuel+1) st =
          fieldLoop U name fuel (fieldLevel U name st.next { st with next := [] }) := by
        simp [fieldLoop, hc, hn]
      rw [hstep] at h
      obtain ⟨lc, lf, lv, lz⟩ := fieldLevel_spec U name root d Hd st.next { st with next := [] } hmem hv
      have hM : st.next.flatMap (fieldMatches U name) = candsAt U (fieldMatches U name) root d := by
        have := HI 0 (by simpa using Hd)
        rw [flatMap_below_zero] at this
        simpa using this
      generalize hst' : fieldLevel U name st.next { st with next := [] } = st' at h lc lf lv lz
      simp only at lc lf lz
      by_cases hMn : st.next.flatMap (fieldMatches U name) = []
      · -- nothing at depth d: go one level down
        have c0 : st'.count = 0 := by rw [lc, hc, hMn]; rfl
        have f0 : st'.field = none := by rw [lf hc, hMn, hf]; rfl
        obtain ⟨lsub, lflat⟩ := lz hc hMn
        have Hd1 : ∀ d', d' < d + 1 → candsAt U (fieldMatches U name) root d' = [] := by
          intro d' hd'
          by_cases hlt : d' < d
          · exact Hd d' hlt
          · have : d' = d := by omega
            rw [this, ← hM, hMn]
        refine ih (d+1) st' r c0 f0 lv Hd1 ?_ ?_ h
        · intro x hx
          rcases lsub x hx with hx' | hx'
          · simp at hx'
          · exact hx'
        · intro k hk
          have e1 : d + 1 + k = d + (k + 1) := by omega
          rw [e1] at hk ⊢
          rw [lflat k hk, ← HI (k+1) hk]
          simp
      · -- found at depth d
        have hpos : (st.next.flatMap (fieldMatches U name)).length > 0 := List.length_pos_iff.mpr hMn
        have cpos : st'.count > 0 := by rw [lc, hc]; simpa using hpos
        rw [fieldLoop_pos U name fuel st' cpos] at h
        injection h with h; subst h
        refine ⟨fun hz => absurd hz (by simp; omega), fun _ => ⟨d, Hd, ?_, ?_⟩⟩
        · simp only; rw [lc, hc, ← hM]; simp
        · simp only; rw [lf hc, ← hM]
          cases hh : st.next.flatMap (fieldMatches U name) with
          | nil => exact absurd hh hMn
          | cons a l => simp

/-- `lookup_bfs_eq_spec` (core): whatever the pruned breadth-first search of `FieldByName`
    returns is Go's answer, for EVERY universe (cyclic embedding through pointers included). -/
theorem fieldBFS_spec (fuel : Nat) (r : Option (List Nat) × Nat)
    (h : fieldBFS U root name fuel = some r) : LookupSpec (fieldsAt U root name) r := by
  have hroot : rootEntry root ∈ reach U (rootEntry root) 0 := by simp [reach]
  obtain ⟨hc, hfirst, hvis, hzero⟩ :=
    fieldByName_spec U name root [] (visOK_nil U root) (rootEntry root) 0 hroot (fun d' hd' => absurd hd' (by omega))
  have hM0 : candsAt U (fieldMatches U name) root 0 = fieldMatches U name (rootEntry root) := by
    simp [candsAt, below_zero]
  show LookupSpec (candsAt U (fieldMatches U name) root) r
  unfold fieldBFS at h
  simp only at h
  by_cases hpos : (fieldByName U name (rootEntry root) []).1.count > 0
  · rw [fieldLoop_pos U name fuel _ hpos] at h
    injection h with h; subst h
    refine ⟨fun hz => absurd hz (by simp; omega), fun _ => ⟨0, fun d' hd' => absurd hd' (by omega), ?_, ?_⟩⟩
    · simp only; rw [hM0, hc]
    · simp only; rw [hM0, hfirst]
  · have hc0 : (fieldByName U name (rootEntry root) []).1.count = 0 := by omega
    have hm0 : fieldMatches U name (rootEntry root) = [] := by
      rw [hc0] at hc; exact List.eq_nil_of_length_eq_zero hc.symm
    obtain ⟨hsub, hflat⟩ := hzero hc0
    refine fieldLoop_spec U name root fuel 1 _ r hc0 (by simp only; rw [hfirst, hm0]; rfl) hvis ?_ ?_ ?_ h
    · intro d' hd'
      have : d' = 0 := by omega
      rw [this, hM0, hm0]
    · intro x hx
      exact mem_reach_succ U _ (rootEntry root) x 0 hroot (hsub x hx)
    · intro k hk
      have e1 : 1 + k = 0 + (k + 1) := by omega
      rw [e1] at hk
      rw [hflat k hk]
      have e2 : 1 + k = k + 1 := by omega
      rw [e2]; rfl

end fields2

/-! ## methods: `methodByName1`, `anonymousFields`, `methodLevel`, `methodLoop` -/

def methodHit (U : Universe) (name : String) (t : Nat) (p : Bool) : Bool :=
  if p = true ∧ U.kindOf t = some Kind.iface then false
  else (U.methodsOf t).any (fun m => m.name = name)

theorem methodIdx_ne_nil (name : String) (index : List Nat) (ms : List MethodDecl) (i : Nat) :
    methodIdx name index ms i ≠ [] ↔ ms.any (fun m => m.name = name) = true := by
  induction ms generalizing i with
  | nil => simp [methodIdx]
  | cons m ms ih =>
    unfold methodIdx
    by_cases h : m.name = name
    · simp [h]
    · simp [h, ih]

theorem methodMatches_hit (U : Universe) (name : String) (e : Entry) :
    methodMatches U name e ≠ [] ↔ methodHit U name e.typ e.ptr = true := by
  unfold methodMatches methodHit
  by_cases h : e.ptr = true ∧ U.kindOf e.typ = some Kind.iface
  · simp [h]
  · simp only [h, if_false]; exact methodIdx_ne_nil _ _ _ _

theorem scanMethods_spec (name : String) (index : List Nat) (ms : List MethodDecl) (i : Nat)
    (s : Option MRes × Nat) :
    (scanMethods name index ms i s).2 = s.2 + (methodIdx name index ms i).length ∧
    (s.2 = 0 → (scanMethods name index ms i s).1 =
        (match (methodIdx name index ms i).head? with | some x => some x | none => s.1)) ∧
    (s.2 > 0 → (scanMethods name index ms i s).1 = s.1) := by
  induction ms generalizing i s with
  | nil => simp [scanMethods, methodIdx]
  | cons m ms ih =>
    unfold scanMethods methodIdx
    by_cases h : m.name = name
    · simp only [h, if_true]
      obtain ⟨h1, _, h3⟩ := ih (i+1) (if s.2 = 0 then some ⟨(i : Int), index⟩ else s.1, s.2 + 1)
      refine ⟨by rw [h1]; simp; omega, ?_, ?_⟩
      · intro hs
        rw [h3 (by simp)]
        simp [hs]
      · intro hs
        rw [h3 (by simp)]
        have : ¬ s.2 = 0 := by omega
        simp [this]
    · simp only [h, if_false]
      exact ih (i+1) s

section methods
variable (U : Universe) (name : String) (root : Nat)

theorem methodByName1_spec (e : Entry) :
    (methodByName1 U name e).2 = (methodMatches U name e).length ∧
    (methodByName1 U name e).1 = (methodMatches U name e).head? := by
  unfold methodByName1 methodMatches
  by_cases h : e.ptr = true ∧ U.kindOf e.typ = some Kind.iface
  · simp [h]
  · simp only [h, if_false]
    obtain ⟨h1, h2, _⟩ := scanMethods_spec name e.index (U.methodsOf e.typ) 0 (none, 0)
    refine ⟨by simpa using h1, ?_⟩
    have h2' := h2 rfl
    simp only at h2'
    rw [h2']; cases (methodIdx name e.index (U.methodsOf e.typ) 0).head? <;> rfl

/-- one call of `anonymousFields` during the search at depth `d` -/
theorem anonymousFields_spec (vis : DepthMap) (hv : VisOK U root vis) (e : Entry) (d : Nat)
    (he : e ∈ reach U (rootEntry root) d) :
    VisOK U root (anonymousFields U e vis).2 ∧
    (∀ x ∈ (anonymousFields U e vis).1, x ∈ children U e) ∧
    ∀ k, (∀ d', d' < d + (k+1) → candsAt U (methodMatches U name) root d' = []) →
      (anonymousFields U e vis).1.flatMap (fun c => below U (methodMatches U name) c k)
        = below U (methodMatches U name) e (k+1) := by
  have hlen : e.index.length = d := by
    have := reach_len U (rootEntry root) d e he
    simpa [rootEntry] using this
  cases hb : U.bodyOf e.typ with
  | none =>
    have heq : anonymousFields U e vis = ([], vis) := by simp [anonymousFields, hb]
    rw [heq]
    refine ⟨hv, fun x hx => by simp at hx, fun k _ => ?_⟩
    rw [below_succ]; simp [children, hb]
  | some b =>
    have full : anonymousFields U e vis = (embEntries e.index (U.fieldsOf b) 0, (b, d) :: vis) →
        VisOK U root (anonymousFields U e vis).2 ∧
        (∀ x ∈ (anonymousFields U e vis).1, x ∈ children U e) ∧
        ∀ k, (∀ d', d' < d + (k+1) → candsAt U (methodMatches U name) root d' = []) →
          (anonymousFields U e vis).1.flatMap (fun c => below U (methodMatches U name) c k)
            = below U (methodMatches U name) e (k+1) := by
      intro heq
      rw [heq]
      refine ⟨visOK_cons U root vis hv e b d he hb, ?_, fun k _ => ?_⟩
      · intro x hx; rw [children_of_body U e b hb]; exact hx
      · rw [below_succ, children_of_body U e b hb]
    cases hl : vis.lookup b with
    | none =>
      apply full
      simp [anonymousFields, hb, DepthMap.visited, hl, hlen]
    | some j =>
      by_cases hjd : j < d
      · have heq : anonymousFields U e vis = ([], vis) := by
          simp [anonymousFields, hb, DepthMap.visited, hl, hlen, hjd]
        rw [heq]
        refine ⟨hv, fun x hx => by simp at hx, fun k hk => ?_⟩
        rw [pruned_below_succ U (methodMatches U name) (methodHit U name) (methodMatches_hit U name)
            root vis hv e b j d k hb hl hjd hk]
        rfl
      · apply full
        simp [anonymousFields, hb, DepthMap.visited, hl, hlen, hjd]

/-- one iteration of the `for _, f := range tovisit` body of `methodByName` -/
def methodStep (f : Entry) (st : MState) : MState :=
  let r := methodByName1 U name f
  if st.count = 0 then
    if r.2 > 0 then { st with method := r.1, count := st.count + r.2 }
    else
      let a := anonymousFields U f st.vis
      { st with next := st.next ++ a.1, count := st.count + r.2, vis := a.2 }
  else { st with count := st.count + r.2 }

theorem methodLevel_cons (f : Entry) (fs : List Entry) (st : MState) :
    methodLevel U name (f :: fs) st = methodLevel U name fs (methodStep U name f st) := by
  by_cases h0 : st.count = 0
  · by_cases hp : (methodByName1 U name f).2 > 0
    · simp [methodLevel, methodStep, h0, hp]
    · simp [methodLevel, methodStep, h0, hp]
  · simp [methodLevel, methodStep, h0]

theorem methodLevel_pos (tv : List Entry) (st : MState) (h : st.count > 0) :
    (methodLevel U name tv st).method = st.method := by
  induction tv generalizing st with
  | nil => simp [methodLevel]
  | cons f fs ih =>
    rw [methodLevel_cons, ih]
    · have hne : ¬ st.count = 0 := by omega
      simp [methodStep, hne]
    · have hne : ¬ st.count = 0 := by omega
      simp [methodStep, hne]; omega

theorem methodLevel_spec (d : Nat) :
    ∀ (tv : List Entry) (st : MState), (∀ e ∈ tv, e ∈ reach U (rootEntry root) d) → VisOK U root st.vis →
      (methodLevel U name tv st).count = st.count + (tv.flatMap (methodMatches U name)).length ∧
      (st.count = 0 → (methodLevel U name tv st).method =
          (match (tv.flatMap (methodMatches U name)).head? with | some x => some x | none => st.method)) ∧
      VisOK U root (methodLevel U name tv st).vis ∧
      (st.count = 0 → tv.flatMap (methodMatches U name) = [] →
        (∀ x ∈ (methodLevel U name tv st).next, x ∈ st.next ∨ x ∈ reach U (rootEntry root) (d+1)) ∧
        ∀ k, (∀ d', d' < d + (k+1) → candsAt U (methodMatches U name) root d' = []) →
          (methodLevel U name tv st).next.flatMap (fun c => below U (methodMatches U name) c k) =
            st.next.flatMap (fun c => below U (methodMatches U name) c k) ++
              tv.flatMap (fun c => below U (methodMatches U name) c (k+1))) := by
  intro tv
  induction tv with
  | nil =>
    intro st _ hv
    refine ⟨by simp [methodLevel], fun _ => by simp [methodLevel], by simpa [methodLevel] using hv, fun _ _ => ⟨?_, ?_⟩⟩
    · intro x hx; exact Or.inl (by simpa [methodLevel] using hx)
    · intro k _; simp [methodLevel]
  | cons f fs ih =>
    intro st hmem hv
    have hf : f ∈ reach U (rootEntry root) d := hmem f (by simp)
    have hfs : ∀ e ∈ fs, e ∈ reach U (rootEntry root) d := fun e he => hmem e (by simp [he])
    obtain ⟨hc, hfirst⟩ := methodByName1_spec U name f
    obtain ⟨avis, asub, aflat⟩ := anonymousFields_spec U name root st.vis hv f d hf
    rw [methodLevel_cons]
    simp only [List.flatMap_cons, List.length_append]
    generalize hst1 : methodStep U name f st = st1
    have h1c : st1.count = st.count + (methodMatches U name f).length := by
      rw [← hst1, ← hc]
      by_cases h0 : st.count = 0
      · by_cases hp : (methodByName1 U name f).2 > 0
        · simp [methodStep, h0, hp]
        · simp [methodStep, h0, hp]
      · simp [methodStep, h0]
    have h1v : VisOK U root st1.vis := by
      rw [← hst1]
      by_cases h0 : st.count = 0
      · by_cases hp : (methodByName1 U name f).2 > 0
        · simpa [methodStep, h0, hp] using hv
        · simpa [methodStep, h0, hp] using avis
      · simpa [methodStep, h0] using hv
    obtain ⟨ihc, ihf, ihv, ihz⟩ := ih st1 hfs h1v
    refine ⟨by rw [ihc, h1c]; omega, ?_, ihv, ?_⟩
    · intro hs0
      by_cases hm : methodMatches U name f = []
      · have hc0 : (methodByName1 U name f).2 = 0 := by rw [hc, hm]; rfl
        have h10 : st1.count = 0 := by rw [h1c, hs0, hm]; rfl
        have h1f : st1.method = st.method := by rw [← hst1]; simp [methodStep, hs0, hc0]
        rw [ihf h10, hm, h1f]; simp
      · have hpos : (methodMatches U name f).length > 0 := List.length_pos_iff.mpr hm
        have hcpos : (methodByName1 U name f).2 > 0 := by rw [hc]; exact hpos
        have h1pos : st1.count > 0 := by rw [h1c]; omega
        have h1f : st1.method = (methodMatches U name f).head? := by
          rw [← hst1]; simp [methodStep, hs0, hcpos, hfirst]
        rw [methodLevel_pos U name fs st1 h1pos, h1f]
        cases hmf : methodMatches U name f with
        | nil => exact absurd hmf hm
        | cons a l => simp
    · intro hs0 hnil
      have hm : methodMatches U name f = [] := (List.append_eq_nil_iff.mp hnil).1
      have hms : fs.flatMap (methodMatches U name) = [] := (List.append_eq_nil_iff.mp hnil).2
      have hc0 : (methodByName1 U name f).2 = 0 := by rw [hc, hm]; rfl
      have h10 : st1.count = 0 := by rw [h1c, hs0, hm]; rfl
      have h1n : st1.next = st.next ++ (anonymousFields U f st.vis).1 := by
        rw [← hst1]; simp [methodStep, hs0, hc0]
      obtain ⟨ihsub, ihflat⟩ := ihz h10 hms
      refine ⟨?_, ?_⟩
      · intro x hx
        rcases ihsub x hx with h | h
        · rw [h1n, List.mem_append] at h
          rcases h with h | h
          · exact Or.inl h
          · exact Or.inr (mem_reach_succ U _ f x d hf (asub x h))
        · exact Or.inr h
      · intro k hk
        rw [ihflat k hk, h1n, List.flatMap_append, aflat k hk, List.append_assoc]

theorem methodLoop_pos (fuel : Nat) (st : MState) (h : st.count > 0) :
    methodLoop U name fuel st = some (st.method, st.count) := by
  have hne : ¬ (st.count = 0 ∧ st.next ≠ []) := by omega
  cases fuel <;> simp [methodLoop, hne]

theorem methodLoop_nil (fuel : Nat) (st : MState) (h : st.next = []) :
    methodLoop U name fuel st = some (st.method, st.count) := by
  have hne : ¬ (st.count = 0 ∧ st.next ≠ []) := fun hh => hh.2 h
  cases fuel <;> simp [methodLoop, hne]

theorem methodLoop_spec : ∀ (fuel d : Nat) (st : MState) (r : Option MRes × Nat),
    st.count = 0 → st.method = none → VisOK U root st.vis →
    (∀ d', d' < d → candsAt U (methodMatches U name) root d' = []) →
    (∀ x ∈ st.next, x ∈ reach U (rootEntry root) d) →
    (∀ k, (∀ d', d' < d + k → candsAt U (methodMatches U name) root d' = []) →
      st.next.flatMap (fun c => below U (methodMatches U name) c k) = candsAt U (methodMatches U name) root (d + k)) →
    methodLoop U name fuel st = some r → LookupSpec (candsAt U (methodMatches U name) root) r := by
  intro fuel
  induction fuel with
  | zero =>
    intro d st r hc hf hv Hd hmem HI h
    by_cases hn : st.next = []
    · rw [methodLoop_nil U name 0 st hn] at h
      injection h with h; subst h
      refine ⟨fun _ => ⟨hf, ?_⟩, fun hp => absurd hc (by simp at hp; omega)⟩
      apply all_nil_of_frontier_nil _ d Hd
      intro k hk
      rw [← HI k hk, hn]; rfl
    · simp [methodLoop, hc, hn] at h
  | succ fuel ih =>
    intro d st r hc hf hv Hd hmem HI h
    by_cases hn : st.next = []
    · rw [methodLoop_nil U name _ st hn] at h
      injection h with h; subst h
      refine ⟨fun _ => ⟨hf, ?_⟩, fun hp => absurd hc (by simp at hp; omega)⟩
      apply all_nil_of_frontier_nil _ d Hd
      intro k hk
      rw [← HI k hk, hn]; rfl
    · have hstep : methodLoop U name (fuel+1) st =
          methodLoop U name fuel (methodLevel U name st.next { st with next := [] }) := by
        simp [methodLoop, hc, hn]
      rw [hstep] at h
      obtain ⟨lc, lf, lv, lz⟩ := methodLevel_spec U name root d st.next { st with next := [] } hmem hv
      have hM : st.next.flatMap (methodMatches U name) = candsAt U (methodMatches U name) root d := by
        have := HI 0 (by simpa using Hd)
        rw [flatMap_below_zero] at this
        simpa using this
      generalize hst' : methodLevel U name st.next { st with next := [] } = st' at h lc lf lv lz
      simp only at lc lf lz
      by_cases hMn : st.next.flatMap (methodMatches U name) = []
      · have c0 : st'.count = 0 := by rw [lc, hc, hMn]; rfl
        have f0 : st'.method = none := by rw [lf hc, hMn, hf]; rfl
        obtain ⟨lsub, lflat⟩ := lz hc hMn
        have Hd1 : ∀ d', d' < d + 1 → candsAt U (methodMatches U name) root d' = [] := by
          intro d' hd'
          by_cases hlt : d' < d
          · exact Hd d' hlt
          · have : d' = d := by omega
            rw [this, ← hM, hMn]
        refine ih (d+1) st' r c0 f0 lv Hd1 ?_ ?_ h
        · intro x hx
          rcases lsub x hx with hx' | hx'
          · simp at hx'
          · exact hx'
        · intro k hk
          have e1 : d + 1 + k = d + (k + 1) := by omega
          rw [e1] at hk ⊢
          rw [lflat k hk, ← HI (k+1) hk]
          simp
      · have hpos : (st.next.flatMap (methodMatches U name)).length > 0 := List.length_pos_iff.mpr hMn
        have cpos : st'.count > 0 := by rw [lc, hc]; simpa using hpos
        rw [methodLoop_pos U name fuel st' cpos] at h
        injection h with h; subst h
        refine ⟨fun hz => absurd hz (by simp; omega), fun _ => ⟨d, Hd, ?_, ?_⟩⟩
        · simp only; rw [lc, hc, ← hM]; simp
        · simp only; rw [lf hc, ← hM]
          cases hh : st.next.flatMap (methodMatches U name) with
          | nil => exact absurd hh hMn
          | cons a l => simp

/-- `method_lookup_eq_spec` (core) -/
theorem methodBFS_spec (fuel : Nat) (r : Option MRes × Nat)
    (h : methodBFS U root name fuel = some r) : LookupSpec (methodsAt U root name) r := by
  have hroot : rootEntry root ∈ reach U (rootEntry root) 0 := by simp [reach]
  obtain ⟨hc, hfirst⟩ := methodByName1_spec U name (rootEntry root)
  obtain ⟨avis, asub, aflat⟩ := anonymousFields_spec U name root [] (visOK_nil U root) (rootEntry root) 0 hroot
  have hM0 : candsAt U (methodMatches U name) root 0 = methodMatches U name (rootEntry root) := by
    simp [candsAt, below_zero]
  show LookupSpec (candsAt U (methodMatches U name) root) r
  unfold methodBFS at h
  simp only at h
  by_cases hc0 : (methodByName1 U name (rootEntry root)).2 = 0
  · rw [if_pos hc0] at h
    have hm0 : methodMatches U name (rootEntry root) = [] := by
      rw [hc0] at hc; exact List.eq_nil_of_length_eq_zero hc.symm
    refine methodLoop_spec U name root fuel 1 _ r hc0 (by simp only; rw [hfirst, hm0]; rfl) avis ?_ ?_ ?_ h
    · intro d' hd'
      have : d' = 0 := by omega
      rw [this, hM0, hm0]
    · intro x hx
      exact mem_reach_succ U _ (rootEntry root) x 0 hroot (asub x hx)
    · intro k hk
      have e1 : 1 + k = 0 + (k + 1) := by omega
      rw [e1] at hk
      rw [aflat k hk]
      have e2 : 1 + k = k + 1 := by omega
      rw [e2]; rfl
  · rw [if_neg hc0] at h
    injection h with h; subst h
    refine ⟨fun hz => absurd hz hc0, fun _ => ⟨0, fun d' hd' => absurd hd' (by omega), ?_, ?_⟩⟩
    · rw [hM0, hc]
    · rw [hM0, hfirst]

end methods

end Lookup
