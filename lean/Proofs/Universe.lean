import Model.Universe
import Proofs.TypeMap
import Proofs.TypeId
import Proofs.TypeIdSymm
import Proofs.TypeIdTrans
import Proofs.TypeIdTotal
import Proofs.TypeIdHash
/-! Lemmas for C29, part 2: the intern table of the universe.

`TInv`  every live object is the table entry of its own identity class (so two live objects are
        never identical: canonicity), table values are live objects identical to the key.
`Par`   the go/types side and the reflect side of every live object are parallel: the object is a
        leaf, or it has a shape `sh` and live component objects `xs` with
        `gtype = mkG sh (gtypes of xs)` and `rtype = mkR sh (rtypes of xs)`.
Both are preserved by `maketype4` when it is called the way the constructors call it, and under
them its third branch ("mismatched reflect.Type found in cache") is dead. -/
namespace Universe
open TypeId TypeMap

/-! ## lists and `rep` -/

theorem rep_append_lt (s : U) (l : List Rep) {i : Nat} (h : i < s.reps.length) :
    ({ s with reps := s.reps ++ l } : U).rep i = s.rep i := by
  simp [U.rep, List.getD_eq_getElem?_getD, List.getElem?_append_left h]

theorem rep_append_eq (s : U) (x : Rep) :
    ({ s with reps := s.reps ++ [x] } : U).rep s.reps.length = x := by
  simp [U.rep, List.getD_eq_getElem?_getD]

/-! ## the table invariant, generic in the key operations -/

section generic
variable {o : Ops} {good : Ty → Prop}

theorem get_congr (E : Equiv o good) {m : TypeMap.Map Ty} {k k' : Ty} (hi : TypeMap.Inv o good m)
    (gk : good k) (gk' : good k') (h : o.ident k k' = true) : TypeMap.get o m k = TypeMap.get o m k' := by
  unfold TypeMap.get
  cases ht : m.table with
  | none => rfl
  | some t =>
    simp only [TypeMap.Inv, ht] at hi
    have hh := E.hash k k' gk gk' h
    simp only
    rw [← hh]
    exact atBucket_congr E gk gk' h (TInv.bucket hi.1.1 (o.hash k))

/-- an object that takes part in the theorems: allocated, and its reflect type is known -/
def Live (s : U) (i : Nat) : Prop := i < s.reps.length ∧ (s.rep i).r ≠ .forward

structure TabInv (o : Ops) (good : Ty → Prop) (s : U) : Prop where
  map : TypeMap.Inv o good s.map
  gd : ∀ i, Live s i → good (s.rep i).g
  self : ∀ i, Live s i → TypeMap.get o s.map (s.rep i).g = some i
  val : ∀ k v, good k → TypeMap.get o s.map k = some v → Live s v ∧ o.ident (s.rep v).g k = true
  opt : ∀ i, Live s i → (s.rep i).opt = 0

/-- canonicity: two live objects with identical go/types types are the same object -/
theorem TabInv.canonical (E : Equiv o good) {s : U} (hs : TabInv o good s) {i j : Nat}
    (hi : Live s i) (hj : Live s j) (h : o.ident (s.rep i).g (s.rep j).g = true) : i = j := by
  have e := get_congr E hs.map (hs.gd i hi) (hs.gd j hj) h
  rw [hs.self i hi, hs.self j hj] at e
  exact Option.some.inj e

/-- the state after allocating a new object for `(g, r)` and filing it in the table -/
def push (o : Ops) (s : U) (kind : Nat) (g : Ty) (r : RTy) : U :=
  { s with reps := s.reps ++ [⟨kind, g, r, 0⟩], map := (TypeMap.set o s.map g s.reps.length).1 }

theorem live_push {s : U} {kind g r} {i : Nat} (h : Live s i) :
    Live (push o s kind g r) i ∧ (push o s kind g r).rep i = s.rep i := by
  have e : (push o s kind g r).rep i = s.rep i := by
    simp only [push, U.rep]
    simp [List.getD_eq_getElem?_getD, List.getElem?_append_left h.1]
  refine ⟨⟨?_, ?_⟩, e⟩
  · simp only [push, List.length_append, List.length_cons, List.length_nil]; have := h.1; omega
  · rw [e]; exact h.2

theorem rep_push_new (s : U) (kind g r) : (push o s kind g r).rep s.reps.length = ⟨kind, g, r, 0⟩ := by
  simp [push, U.rep, List.getD_eq_getElem?_getD]

theorem live_push_inv {s : U} {kind g r} {i : Nat} (h : Live (push o s kind g r) i) :
    Live s i ∨ i = s.reps.length := by
  by_cases c : i < s.reps.length
  · left
    have e : (push o s kind g r).rep i = s.rep i := by
      simp only [push, U.rep]
      simp [List.getD_eq_getElem?_getD, List.getElem?_append_left c]
    exact ⟨c, by rw [← e]; exact h.2⟩
  · right
    have := h.1
    simp only [push, List.length_append, List.length_cons, List.length_nil] at this
    omega

theorem tabInv_push (E : Equiv o good) {s : U} (hs : TabInv o good s) {kind : Nat} {g : Ty} {r : RTy}
    (gg : good g) (hr : r ≠ .forward) (hnew : ∀ i, Live s i → o.ident (s.rep i).g g = false) :
    TabInv o good (push o s kind g r) := by
  have hmap : (push o s kind g r).map = (TypeMap.set o s.map g s.reps.length).1 := rfl
  have hnewLive : Live (push o s kind g r) s.reps.length := by
    refine ⟨by simp [push], ?_⟩
    rw [rep_push_new]; exact hr
  refine ⟨?_, ?_, ?_, ?_, ?_⟩
  · rw [hmap]; exact inv_set E _ hs.map gg
  · intro i hi
    rcases live_push_inv hi with h | h
    · rw [(live_push h).2]; exact hs.gd i h
    · subst h; rw [rep_push_new]; exact gg
  · intro i hi
    rcases live_push_inv hi with h | h
    · rw [(live_push h).2, hmap, get_set E _ hs.map gg (hs.gd i h)]
      have := E.symm_false (hs.gd i h) gg (hnew i h)
      simp [this, hs.self i h]
    · subst h
      rw [rep_push_new, hmap, get_set E _ hs.map gg gg]
      simp [E.refl g gg]
  · intro k v gk hg
    rw [hmap, get_set E _ hs.map gg gk] at hg
    by_cases c : o.ident g k = true
    · simp [c] at hg; subst hg
      exact ⟨hnewLive, by rw [rep_push_new]; exact c⟩
    · simp [c] at hg
      obtain ⟨lv, iv⟩ := hs.val k v gk hg
      exact ⟨(live_push lv).1, by rw [(live_push lv).2]; exact iv⟩
  · intro i hi
    rcases live_push_inv hi with h | h
    · rw [(live_push h).2]; exact hs.opt i h
    · subst h; rw [rep_push_new]

/-- What `maketype4` does when the reflect type it is given is the one every identical live object
    already carries (`hc`): it returns that object and changes nothing, or there is no such object
    and it files a new one.  The third branch (mismatch) is not taken. -/
theorem maketype4_spec (E : Equiv o good) {s : U} (hs : TabInv o good s) (kind : Nat) {g : Ty} {r : RTy}
    (gg : good g) (hr : r ≠ .forward)
    (hc : ∀ i, Live s i → o.ident (s.rep i).g g = true → (s.rep i).r = r) :
    (∃ i, Live s i ∧ o.ident (s.rep i).g g = true ∧ maketype4 o s kind g r 0 = (s, i)) ∨
    ((∀ i, Live s i → o.ident (s.rep i).g g = false) ∧
      maketype4 o s kind g r 0 = (push o s kind g r, s.reps.length)) := by
  unfold maketype4
  cases hg : TypeMap.get o s.map g with
  | some i =>
    left
    obtain ⟨li, ii⟩ := hs.val g i gg hg
    refine ⟨i, li, ii, ?_⟩
    have e := hc i li ii
    have eo := hs.opt i li
    simp [e, eo]
  | none =>
    right
    have hnew : ∀ i, Live s i → o.ident (s.rep i).g g = false := by
      intro i li
      cases c : o.ident (s.rep i).g g with
      | false => rfl
      | true =>
        have := get_congr E hs.map (hs.gd i li) gg c
        rw [hs.self i li, hg] at this; cases this
    refine ⟨hnew, ?_⟩
    simp [fresh, add, hr, push]

end generic

/-! ## shapes: the composite constructors, uniformly -/

structure FSpec where
  name : String
  pkg : Option String
  anon : Bool
  tag : String

inductive Shape where
  | array (n : Nat)
  | slice
  | ptr
  | chan (dir : Nat)
  | map
  | func (variadic : Bool) (nin : Nat)
  | struct (fs : List FSpec)

def Shape.Arity : Shape → Nat → Prop
  | .array _, n => n = 1
  | .slice, n => n = 1
  | .ptr, n => n = 1
  | .chan d, n => n = 1 ∧ 1 ≤ d ∧ d ≤ 3
  | .map, n => n = 2
  | .func _ nin, n => nin ≤ n
  | .struct fs, n => fs.length = n

def mkFields : List FSpec → List Ty → List Field
  | f :: fs, t :: ts => .mk f.name f.pkg f.anon f.tag t :: mkFields fs ts
  | _, _ => []

/-- the go/types type a constructor builds from the component types -/
def mkG : Shape → List Ty → Ty
  | .array n, ts => .array n (ts.headD .nil)
  | .slice, ts => .slice (ts.headD .nil)
  | .ptr, ts => .pointer (ts.headD .nil)
  | .chan d, ts => .chan (dirToGdir d) (ts.headD .nil)
  | .map, ts => .map (ts.headD .nil) (ts.tail.headD .nil)
  | .func v nin, ts => .sig v none (ts.take nin) (ts.drop nin)
  | .struct fs, ts => .struct (mkFields fs ts)

def rshape : Shape → RShape
  | .array n => .array n
  | .slice => .slice
  | .ptr => .ptr
  | .chan d => .chan d
  | .map => .map
  | .func v nin => .func v nin
  | .struct fs => .struct (fs.map fun f => (exportedFieldName f.name f.anon, f.tag))

/-- the reflect type the constructor builds in parallel -/
def mkR (sh : Shape) (rs : List RTy) : RTy := .node (rshape sh) (RTy.ofList rs)

/-- leaves of the constructor language; a basic type carries its own reflect type -/
def Leaf (x : Rep) : Prop :=
  match x.g with
  | .basic k => x.r = .basic k
  | .named _ => True
  | .iface _ _ _ => True
  | _ => False

theorem identL_append {c : Bool} : ∀ {a a' b b' : List Ty}, identL c a a' = true → identL c b b' = true →
    identL c (a ++ b) (a' ++ b') = true
  | [], [], _, _, _, h => by simpa using h
  | [], _ :: _, _, _, h, _ => by simp [identL] at h
  | _ :: _, [], _, _, h, _ => by simp [identL] at h
  | x :: a, y :: a', b, b', h, h' => by
      simp only [identL, Bool.and_eq_true] at h
      simp only [List.cons_append, identL, Bool.and_eq_true]
      exact ⟨h.1, identL_append h.2 h'⟩

theorem mkFields_ident : ∀ {fs fs' : List FSpec} {ts ts' : List Ty}, fs.length = ts.length → fs'.length = ts'.length →
    identFs true (mkFields fs ts) (mkFields fs' ts') = true →
    (fs.map fun f => (exportedFieldName f.name f.anon, f.tag)) = (fs'.map fun f => (exportedFieldName f.name f.anon, f.tag)) ∧
    identL true ts ts' = true
  | [], [], [], [], _, _, _ => by simp [identL]
  | [], f' :: fs', [], t' :: ts', _, _, h => by simp [mkFields, identFs] at h
  | f :: fs, [], t :: ts, [], _, _, h => by simp [mkFields, identFs] at h
  | f :: fs, f' :: fs', t :: ts, t' :: ts', h1, h2, h => by
      simp only [mkFields, identFs, Bool.and_eq_true, Bool.not_true, Bool.false_or, beq_iff_eq] at h
      obtain ⟨⟨⟨⟨ha, htag⟩, hn⟩, ht⟩, hrest⟩ := h
      have hname := sameName_name hn
      simp only [List.length_cons, Nat.add_right_cancel_iff] at h1 h2
      obtain ⟨r1, r2⟩ := mkFields_ident h1 h2 hrest
      simp only [List.map_cons, identL, Bool.and_eq_true]
      refine ⟨?_, ht, r2⟩
      rw [hname, ha, htag, r1]
  | [], _, _ :: _, _, h1, _, _ => by simp at h1
  | _ :: _, _, [], _, h1, _, _ => by simp at h1
  | _, [], _, _ :: _, _, h2, _ => by simp at h2
  | _, _ :: _, _, [], _, h2, _ => by simp at h2

theorem dirToGdir_inj {d d' : Nat} (h1 : 1 ≤ d ∧ d ≤ 3) (h2 : 1 ≤ d' ∧ d' ≤ 3) (h : dirToGdir d = dirToGdir d') : d = d' := by
  obtain ⟨a, b⟩ := h1
  obtain ⟨a', b'⟩ := h2
  have : d = 1 ∨ d = 2 ∨ d = 3 := by omega
  have : d' = 1 ∨ d' = 2 ∨ d' = 3 := by omega
  rcases ‹d = 1 ∨ d = 2 ∨ d = 3› with e | e | e <;> rcases ‹d' = 1 ∨ d' = 2 ∨ d' = 3› with e' | e' | e' <;>
    subst e <;> subst e' <;> simp [dirToGdir] at h ⊢

theorem identL_take_drop {c : Bool} {n n' : Nat} {ts us : List Ty} (hn : n ≤ ts.length) (hn' : n' ≤ us.length)
    (h1 : identL c (ts.take n) (us.take n') = true) (h2 : identL c (ts.drop n) (us.drop n') = true) :
    n = n' ∧ identL c ts us = true := by
  have l1 := identL_length h1
  simp only [List.length_take] at l1
  have e : n = n' := by omega
  subst e
  refine ⟨rfl, ?_⟩
  have := identL_append h1 h2
  rwa [List.take_append_drop, List.take_append_drop] at this

theorem len_two {α} : ∀ {l : List α}, l.length = 2 → ∃ a b, l = [a, b]
  | [a, b], _ => ⟨a, b, rfl⟩
  | [], h => by simp at h
  | [_], h => by simp at h
  | _ :: _ :: _ :: _, h => by simp at h

/-- identical constructed types have the same reflect shape and pairwise identical components -/
theorem shape_inv {sh sh' : Shape} {gs gs' : List Ty} (a : sh.Arity gs.length) (a' : sh'.Arity gs'.length)
    (h : ident true (mkG sh gs) (mkG sh' gs') = true) : rshape sh = rshape sh' ∧ identL true gs gs' = true := by
  cases sh <;> cases sh' <;> simp only [Shape.Arity] at a a' <;> simp only [mkG, ident, Bool.and_eq_true, beq_iff_eq] at h <;>
    try (exact absurd h Bool.false_ne_true)
  case array.array n n' =>
    obtain ⟨x, rfl⟩ := List.length_eq_one_iff.mp a
    obtain ⟨y, rfl⟩ := List.length_eq_one_iff.mp a'
    obtain ⟨h1, h2⟩ := h
    simp only [List.headD_cons] at h2
    subst h1; simp [rshape, identL, h2]
  case slice.slice =>
    obtain ⟨x, rfl⟩ := List.length_eq_one_iff.mp a
    obtain ⟨y, rfl⟩ := List.length_eq_one_iff.mp a'
    simp only [List.headD_cons] at h
    simp [rshape, identL, h]
  case ptr.ptr =>
    obtain ⟨x, rfl⟩ := List.length_eq_one_iff.mp a
    obtain ⟨y, rfl⟩ := List.length_eq_one_iff.mp a'
    simp only [List.headD_cons] at h
    simp [rshape, identL, h]
  case chan.chan d d' =>
    obtain ⟨x, rfl⟩ := List.length_eq_one_iff.mp a.1
    obtain ⟨y, rfl⟩ := List.length_eq_one_iff.mp a'.1
    obtain ⟨h1, h2⟩ := h
    simp only [List.headD_cons] at h2
    have := dirToGdir_inj a.2 a'.2 h1
    subst this; simp [rshape, identL, h2]
  case map.map =>
    obtain ⟨x, y, rfl⟩ := len_two a
    obtain ⟨x', y', rfl⟩ := len_two a'
    simp only [List.headD_cons, List.tail_cons] at h
    simp [rshape, identL, h.1, h.2]
  case func.func v n v' n' =>
    obtain ⟨⟨⟨h1, _⟩, h3⟩, h4⟩ := h
    obtain ⟨e, hl⟩ := identL_take_drop a a' h3 h4
    subst e; subst h1
    exact ⟨rfl, hl⟩
  case struct.struct fs fs' =>
    obtain ⟨r1, r2⟩ := mkFields_ident a a' h
    exact ⟨by simp [rshape, r1], r2⟩

/-! ## the parallel invariant and the constructors, for `typeutil.Identical` -/

def uOps (nh : Nat → UInt32) : Ops := ⟨identB, hash nh⟩

theorem identB_eq' (x y : Ty) : identB x y = ident true x y := by
  unfold identB; rw [identR_eq]; cases ident true x y <;> rfl

theorem uEquiv (env : Nat → List String) (nh : Nat → UInt32) : Equiv (uOps nh) (WF env) where
  refl a _ := by simp [uOps, identB_eq', ident_refl]
  symm a b _ _ h := by simp only [uOps, identB_eq'] at *; rw [ident_symm]; exact h
  trans a b c _ _ _ h1 h2 := by simp only [uOps, identB_eq'] at *; exact ident_trans true a b c h1 h2
  hash a b wa wb h := by simp only [uOps, identB_eq'] at *; exact hash_eq env nh a b wa wb h

def gsOf (s : U) (xs : List Nat) : List Ty := xs.map fun x => (s.rep x).g
def rsOf (s : U) (xs : List Nat) : List RTy := xs.map fun x => (s.rep x).r

/-- object `i` was built by a constructor of shape `sh` from the live objects `xs`, and its two
    sides are the images of the two sides of `xs` -/
def Prov (s : U) (i : Nat) : Prop :=
  ∃ sh xs, Shape.Arity sh xs.length ∧ (∀ x ∈ xs, Live s x) ∧
    (s.rep i).g = mkG sh (gsOf s xs) ∧ (s.rep i).r = mkR sh (rsOf s xs)

def Par (s : U) : Prop := ∀ i, Live s i → Leaf (s.rep i) ∨ Prov s i

/-- `s'` extends `s`: every live object is still there, unchanged -/
def Ext (s s' : U) : Prop := ∀ j, Live s j → Live s' j ∧ s'.rep j = s.rep j

theorem Ext.refl (s : U) : Ext s s := fun _ h => ⟨h, rfl⟩
theorem Ext.trans {a b c : U} (h1 : Ext a b) (h2 : Ext b c) : Ext a c := fun j h =>
  ⟨(h2 j (h1 j h).1).1, by rw [(h2 j (h1 j h).1).2, (h1 j h).2]⟩

theorem Ext.gsOf {s s' : U} (h : Ext s s') {xs : List Nat} (hl : ∀ x ∈ xs, Live s x) : gsOf s' xs = gsOf s xs := by
  simp only [Universe.gsOf]
  apply List.map_congr_left
  intro x hx; rw [(h x (hl x hx)).2]

theorem Ext.rsOf {s s' : U} (h : Ext s s') {xs : List Nat} (hl : ∀ x ∈ xs, Live s x) : rsOf s' xs = rsOf s xs := by
  simp only [Universe.rsOf]
  apply List.map_congr_left
  intro x hx; rw [(h x (hl x hx)).2]

theorem Prov.ext {s s' : U} (h : Ext s s') {i : Nat} (li : Live s i) (p : Prov s i) : Prov s' i := by
  obtain ⟨sh, xs, a, hl, hg, hr⟩ := p
  refine ⟨sh, xs, a, fun x hx => (h x (hl x hx)).1, ?_, ?_⟩
  · rw [(h i li).2, h.gsOf hl]; exact hg
  · rw [(h i li).2, h.rsOf hl]; exact hr

theorem ext_push {o : Ops} (s : U) (kind g r) : Ext s (push o s kind g r) := fun _ h => live_push h

theorem leaf_not_mkG {x : Rep} (h : Leaf x) (sh : Shape) (gs : List Ty) : ident true x.g (mkG sh gs) = false := by
  unfold Leaf at h
  cases hx : x.g <;> rw [hx] at h <;> cases sh <;> simp [mkG, ident] at h ⊢

theorem mkG_not_basic (sh : Shape) (gs : List Ty) (k : Nat) : ident true (mkG sh gs) (.basic k) = false := by
  cases sh <;> simp [mkG, ident]

section ident
variable {env : Nat → List String} {nh : Nat → UInt32}

/-- component lists of live objects that are pairwise identical are the same list of objects -/
theorem live_list_eq {s : U} (hs : TabInv (uOps nh) (WF env) s) : ∀ {ys xs : List Nat},
    (∀ y ∈ ys, Live s y) → (∀ x ∈ xs, Live s x) → identL true (gsOf s ys) (gsOf s xs) = true → ys = xs
  | [], [], _, _, _ => rfl
  | [], _ :: _, _, _, h => by simp [gsOf, identL] at h
  | _ :: _, [], _, _, h => by simp [gsOf, identL] at h
  | y :: ys, x :: xs, hy, hx, h => by
      simp only [gsOf, List.map_cons, identL, Bool.and_eq_true] at h
      have e : y = x := hs.canonical (uEquiv env nh) (hy y (by simp)) (hx x (by simp))
        (by simp only [uOps, identB_eq']; exact h.1)
      have := live_list_eq hs (ys := ys) (xs := xs) (fun a ha => hy a (by simp [ha])) (fun a ha => hx a (by simp [ha])) h.2
      rw [e, this]

/-- under the two invariants every live object identical to the type a constructor is about to
    build already carries the reflect type the constructor is about to build -/
theorem compat {s : U} (hs : TabInv (uOps nh) (WF env) s) (hp : Par s) {sh : Shape} {xs : List Nat}
    (a : sh.Arity xs.length) (hl : ∀ x ∈ xs, Live s x) :
    ∀ i, Live s i → (uOps nh).ident (s.rep i).g (mkG sh (gsOf s xs)) = true → (s.rep i).r = mkR sh (rsOf s xs) := by
  intro i li hi
  simp only [uOps, identB_eq'] at hi
  rcases hp i li with lf | ⟨sh', ys, a', hl', hg, hr⟩
  · rw [leaf_not_mkG lf] at hi; cases hi
  · rw [hg] at hi
    have a1 : sh'.Arity (gsOf s ys).length := by simpa [gsOf] using a'
    have a2 : sh.Arity (gsOf s xs).length := by simpa [gsOf] using a
    obtain ⟨e1, e2⟩ := shape_inv a1 a2 hi
    have := live_list_eq hs hl' hl e2
    rw [hr, mkR, mkR, e1, this]

theorem WFL_of_forall : ∀ {ts : List Ty}, (∀ t ∈ ts, WF env t) → WFL env ts
  | [], _ => by simp [WFL]
  | t :: ts, h => by
      simp only [WFL]
      exact ⟨h t (by simp), WFL_of_forall fun u hu => h u (by simp [hu])⟩

theorem WFFs_mkFields : ∀ {fs : List FSpec} {ts : List Ty}, (∀ t ∈ ts, WF env t) → WFFs env (mkFields fs ts)
  | [], _, _ => by simp [mkFields, WFFs]
  | _ :: _, [], _ => by simp [mkFields, WFFs]
  | f :: fs, t :: ts, h => by
      simp only [mkFields, WFFs]
      exact ⟨h t (by simp), WFFs_mkFields fun u hu => h u (by simp [hu])⟩

theorem WF_headD {ts : List Ty} (h : ∀ t ∈ ts, WF env t) : WF env (ts.headD .nil) := by
  cases ts with
  | nil => simp [WF]
  | cons t ts => exact h t (by simp)

theorem WF_mkG (sh : Shape) {gs : List Ty} (h : ∀ t ∈ gs, WF env t) : WF env (mkG sh gs) := by
  cases sh <;> simp only [mkG, WF]
  · exact WF_headD h
  · exact WF_headD h
  · exact WF_headD h
  · exact WF_headD h
  · exact ⟨WF_headD h, WF_headD fun t ht => h t (List.mem_of_mem_tail ht)⟩
  · exact ⟨by simp [WFO], WFL_of_forall fun t ht => h t (List.mem_of_mem_take ht),
      WFL_of_forall fun t ht => h t (List.mem_of_mem_drop ht)⟩
  · exact WFFs_mkFields h

/-- a composite constructor call on live objects -/
def construct (o : Ops) (s : U) (sh : Shape) (xs : List Nat) : U × Nat :=
  maketype o s (mkG sh (gsOf s xs)) (mkR sh (rsOf s xs)) 0

/-- `v.BasicTypes[k]`-style leaf: intern the basic type of kind `k` -/
def leafBasic (o : Ops) (s : U) (k : Nat) : U × Nat :=
  maketype o s (.basic k) (.basic k) 0

structure Good (env : Nat → List String) (nh : Nat → UInt32) (s : U) : Prop where
  tab : TabInv (uOps nh) (WF env) s
  par : Par s

/-- the common outcome of `construct` and `leafBasic` -/
structure Outcome (env : Nat → List String) (nh : Nat → UInt32) (s : U) (g : Ty) (r : RTy) (p : U × Nat) : Prop where
  good : Good env nh p.1
  ext : Ext s p.1
  live : Live p.1 p.2
  ident : identB (p.1.rep p.2).g g = true
  rty : (p.1.rep p.2).r = r
  /-- an identical live object existed: it is returned and nothing changes -/
  found : ∀ i, Live s i → identB (s.rep i).g g = true → p = (s, i)

theorem mkR_ne_forward (sh : Shape) (rs : List RTy) : mkR sh rs ≠ .forward := by simp [mkR]

theorem outcome_of_spec {s : U} (hg : Good env nh s) {kind : Nat} {g : Ty} {r : RTy} (wg : WF env g) (hr : r ≠ .forward)
    (hc : ∀ i, Live s i → (uOps nh).ident (s.rep i).g g = true → (s.rep i).r = r)
    (hpar : ∀ s', Ext s s' → Live s' s.reps.length → (s'.rep s.reps.length).g = g → (s'.rep s.reps.length).r = r →
      Leaf (s'.rep s.reps.length) ∨ Prov s' s.reps.length) :
    Outcome env nh s g r (maketype4 (uOps nh) s kind g r 0) := by
  rcases maketype4_spec (uEquiv env nh) hg.tab kind wg hr hc with ⟨i, li, ii, e⟩ | ⟨hnew, e⟩
  · rw [e]
    refine ⟨hg, Ext.refl s, li, ii, hc i li ii, ?_⟩
    intro j lj ij
    have : j = i := hg.tab.canonical (uEquiv env nh) lj li
      ((uEquiv env nh).trans _ _ _ (hg.tab.gd j lj) wg (hg.tab.gd i li) ij
        ((uEquiv env nh).symm _ _ (hg.tab.gd i li) wg ii))
    rw [this]
  · rw [e]
    have ht := tabInv_push (uEquiv env nh) hg.tab (kind := kind) wg hr hnew
    have hx := ext_push (o := uOps nh) s kind g r
    have hl : Live (push (uOps nh) s kind g r) s.reps.length := by
      refine ⟨by simp [push], ?_⟩
      rw [rep_push_new]; exact hr
    refine ⟨⟨ht, ?_⟩, hx, hl, ?_, ?_, ?_⟩
    · intro i li
      rcases live_push_inv li with h | h
      · rcases hg.par i h with lf | pv
        · left; rw [(hx i h).2]; exact lf
        · right; exact pv.ext hx h
      · subst h
        exact hpar _ hx hl (by rw [rep_push_new]) (by rw [rep_push_new])
    · simp only [rep_push_new]; exact (uEquiv env nh).refl g wg
    · simp only [rep_push_new]
    · intro i li ii
      have := hnew i li
      simp only [uOps] at this
      rw [this] at ii; cases ii

theorem construct_outcome {s : U} (hg : Good env nh s) {sh : Shape} {xs : List Nat}
    (a : sh.Arity xs.length) (hl : ∀ x ∈ xs, Live s x) :
    Outcome env nh s (mkG sh (gsOf s xs)) (mkR sh (rsOf s xs)) (construct (uOps nh) s sh xs) := by
  unfold construct maketype
  have wg : WF env (mkG sh (gsOf s xs)) := WF_mkG sh (by
    intro t ht
    simp only [gsOf, List.mem_map] at ht
    obtain ⟨x, hx, rfl⟩ := ht
    exact hg.tab.gd x (hl x hx))
  refine outcome_of_spec hg wg (mkR_ne_forward _ _) (compat hg.tab hg.par a hl) ?_
  intro s' hx _ eg er
  right
  exact ⟨sh, xs, a, fun x h => (hx x (hl x h)).1, by rw [eg, hx.gsOf hl], by rw [er, hx.rsOf hl]⟩

theorem basic_compat {s : U} (hg : Good env nh s) (k : Nat) :
    ∀ i, Live s i → (uOps nh).ident (s.rep i).g (.basic k) = true → (s.rep i).r = .basic k := by
  intro i li hi
  simp only [uOps, identB_eq'] at hi
  rcases hg.par i li with lf | ⟨sh, ys, _, _, hgi, _⟩
  · unfold Leaf at lf
    cases hx : (s.rep i).g <;> rw [hx] at lf hi <;> simp [ident] at hi lf
    subst hi; exact lf
  · rw [hgi, mkG_not_basic] at hi; cases hi

theorem leafBasic_outcome {s : U} (hg : Good env nh s) (k : Nat) :
    Outcome env nh s (.basic k) (.basic k) (leafBasic (uOps nh) s k) := by
  unfold leafBasic maketype
  refine outcome_of_spec hg (by simp [WF]) (by simp) (basic_compat hg k) ?_
  · intro s' _ _ eg er
    left
    unfold Leaf
    rw [eg]; exact er

/-! ## named types (declared and completed: `t := NamedOf(name); t.SetUnderlying(x)`) -/

/-- every named type mentioned at the top of an object has an entry in `under` -/
def Scoped (s : U) : Prop := ∀ i, i < s.reps.length → ∀ j, (s.rep i).g = .named j → j < s.under.length

/-- the universe after `t := NamedOf(name); t.SetUnderlying(x)`, and `t` -/
def declNamed (o : Ops) (s : U) (name : String) (x : Nat) : U × Nat :=
  let gu := s.underlying (s.rep x).g
  let s' := push o s (kindU gu) (.named s.under.length) (s.rep x).r
  ({ s' with under := s.under ++ [gu], names := s.names ++ [name] }, s.reps.length)

theorem rep_congr {s1 s2 : U} (hr : s2.reps = s1.reps) : s2.rep = s1.rep := by
  funext i; simp [U.rep, hr]

theorem live_congr {s1 s2 : U} (hr : s2.reps = s1.reps) (i : Nat) : Live s2 i ↔ Live s1 i := by
  simp [Live, hr, rep_congr hr]

theorem good_congr {s1 s2 : U} (hr : s2.reps = s1.reps) (hm : s2.map = s1.map) (h : Good env nh s1) : Good env nh s2 := by
  have e := rep_congr hr
  have l := live_congr hr
  refine ⟨⟨?_, ?_, ?_, ?_, ?_⟩, ?_⟩
  · rw [hm]; exact h.tab.map
  · intro i hi; rw [e]; exact h.tab.gd i ((l i).mp hi)
  · intro i hi; rw [e, hm]; exact h.tab.self i ((l i).mp hi)
  · intro k v gk hv
    rw [hm] at hv
    obtain ⟨a, b⟩ := h.tab.val k v gk hv
    exact ⟨(l v).mpr a, by rw [e]; exact b⟩
  · intro i hi; rw [e]; exact h.tab.opt i ((l i).mp hi)
  · intro i hi
    rcases h.par i ((l i).mp hi) with lf | ⟨sh, xs, a, hl, hg', hr'⟩
    · left; rw [e]; exact lf
    · right
      refine ⟨sh, xs, a, fun x hx => (l x).mpr (hl x hx), ?_, ?_⟩
      · simp only [gsOf, e] at hg' ⊢; exact hg'
      · simp only [rsOf, e] at hr' ⊢; exact hr'

theorem ident_named {g : Ty} {j : Nat} (h : ident true g (.named j) = true) : g = .named j := by
  cases g <;> simp [ident] at h
  rw [h]

theorem mkG_not_named (sh : Shape) (gs : List Ty) (j : Nat) : mkG sh gs ≠ .named j := by
  cases sh <;> simp [mkG]

theorem scoped_maketype4 {s : U} (hg : Good env nh s) (hs : Scoped s) (kind : Nat) {g : Ty} {r : RTy} (wg : WF env g) (hr : r ≠ .forward)
    (hc : ∀ i, Live s i → (uOps nh).ident (s.rep i).g g = true → (s.rep i).r = r) (hn : ∀ j, g ≠ .named j) :
    Scoped (maketype4 (uOps nh) s kind g r 0).1 ∧ (maketype4 (uOps nh) s kind g r 0).1.under = s.under := by
  rcases maketype4_spec (uEquiv env nh) hg.tab kind wg hr hc with ⟨i, _, _, e⟩ | ⟨_, e⟩
  · rw [e]; exact ⟨hs, rfl⟩
  · rw [e]
    refine ⟨?_, rfl⟩
    intro i hi j hj
    have hu : (push (uOps nh) s kind g r).under = s.under := rfl
    rw [hu]
    simp only [push, List.length_append, List.length_cons, List.length_nil] at hi
    by_cases c : i < s.reps.length
    · have e2 : (push (uOps nh) s kind g r).rep i = s.rep i := by
        simp only [push, U.rep]
        simp [List.getD_eq_getElem?_getD, List.getElem?_append_left c]
      rw [e2] at hj; exact hs i c j hj
    · have : i = s.reps.length := by omega
      subst this
      rw [rep_push_new] at hj
      exact absurd hj (hn j)

theorem declNamed_good {s : U} (hg : Good env nh s) (hs : Scoped s) {x : Nat} (hx : Live s x) (name : String) :
    Good env nh (declNamed (uOps nh) s name x).1 ∧ Scoped (declNamed (uOps nh) s name x).1 ∧
    Ext s (declNamed (uOps nh) s name x).1 ∧ Live (declNamed (uOps nh) s name x).1 (declNamed (uOps nh) s name x).2 ∧
    ((declNamed (uOps nh) s name x).1.rep (declNamed (uOps nh) s name x).2).g = .named s.under.length ∧
    ((declNamed (uOps nh) s name x).1.rep (declNamed (uOps nh) s name x).2).r = (s.rep x).r := by
  have E := uEquiv env nh
  let gu := s.underlying (s.rep x).g
  let s' := push (uOps nh) s (kindU gu) (.named s.under.length) (s.rep x).r
  have hnew : ∀ i, Live s i → (uOps nh).ident (s.rep i).g (.named s.under.length) = false := by
    intro i li
    cases c : (uOps nh).ident (s.rep i).g (.named s.under.length) with
    | false => rfl
    | true =>
      simp only [uOps, identB_eq'] at c
      have := hs i li.1 _ (ident_named c)
      omega
  have ht : TabInv (uOps nh) (WF env) s' := tabInv_push E hg.tab (by simp [WF]) hx.2 hnew
  have hx' := ext_push (o := uOps nh) s (kindU gu) (.named s.under.length) (s.rep x).r
  have hl : Live s' s.reps.length := ⟨by simp [s', push], by rw [rep_push_new]; exact hx.2⟩
  have hp : Par s' := by
    intro i li
    rcases live_push_inv li with h | h
    · rcases hg.par i h with lf | pv
      · left; rw [(hx' i h).2]; exact lf
      · right; exact pv.ext hx' h
    · subst h; left; unfold Leaf; rw [rep_push_new]; trivial
  have hreps : (declNamed (uOps nh) s name x).1.reps = s'.reps := rfl
  have hmap : (declNamed (uOps nh) s name x).1.map = s'.map := rfl
  have e := rep_congr hreps
  have l := live_congr hreps
  refine ⟨good_congr hreps hmap ⟨ht, hp⟩, ?_, ?_, (l _).mpr hl, ?_, ?_⟩
  · intro i hi j hj
    have hu : (declNamed (uOps nh) s name x).1.under = s.under ++ [gu] := rfl
    rw [hu, List.length_append]
    rw [hreps] at hi
    rw [e] at hj
    simp only [s', push, List.length_append, List.length_cons, List.length_nil] at hi
    by_cases c : i < s.reps.length
    · have e2 : s'.rep i = s.rep i := by
        simp only [s', push, U.rep]
        simp [List.getD_eq_getElem?_getD, List.getElem?_append_left c]
      rw [e2] at hj; have := hs i c j hj; simp; omega
    · have : i = s.reps.length := by omega
      subst this
      rw [rep_push_new] at hj
      cases hj; simp
  · intro j lj
    exact ⟨(l j).mpr (hx' j lj).1, by rw [e]; exact (hx' j lj).2⟩
  · show ((declNamed (uOps nh) s name x).1.rep s.reps.length).g = _
    rw [e, rep_push_new]
  · show ((declNamed (uOps nh) s name x).1.rep s.reps.length).r = _
    rw [e, rep_push_new]

theorem setAt_append_length {α} (l : List α) (a : α) (f : α → α) : setAt (l ++ [a]) l.length f = l ++ [f a] := by
  induction l with
  | nil => rfl
  | cons b l ih => simp [setAt, ih]

/-- the link to the transcribed functions: `NamedOf(name)` followed by `SetUnderlying(x)` on a live
    object is `declNamed` -/
theorem named_link {s : U} (hg : Good env nh s) (hs : Scoped s) {x : Nat} (hx : Live s x) (name : String) :
    (namedOf (uOps nh) s name).2 = (declNamed (uOps nh) s name x).2 ∧
    setUnderlying (namedOf (uOps nh) s name).1 (namedOf (uOps nh) s name).2 x = some (declNamed (uOps nh) s name x).1 := by
  have hnone : TypeMap.get (uOps nh) s.map (.named s.under.length) = none := by
    cases c : TypeMap.get (uOps nh) s.map (.named s.under.length) with
    | none => rfl
    | some v =>
      obtain ⟨lv, iv⟩ := hg.tab.val _ v (by simp [WF]) c
      simp only [uOps, identB_eq'] at iv
      have := hs v lv.1 _ (ident_named iv)
      omega
  have hxl := hx.1
  have hrx : ∀ (l : List Rep), (s.reps ++ l).getD x default = s.rep x := by
    intro l; simp [U.rep, List.getD_eq_getElem?_getD, List.getElem?_append_left hxl]
  have e1 : namedOf (uOps nh) s name =
      ({ map := (TypeMap.set (uOps nh) s.map (.named s.under.length) s.reps.length).1,
         reps := s.reps ++ [⟨0, .named s.under.length, .forward, 2⟩],
         under := s.under ++ [emptyIface], names := s.names ++ [name] }, s.reps.length) := by
    simp [namedOf, maketype4, hnone, fresh, add]
  rw [e1]
  refine ⟨rfl, ?_⟩
  obtain ⟨s1, hs1⟩ : ∃ s1 : U, (⟨(TypeMap.set (uOps nh) s.map (.named s.under.length) s.reps.length).1,
      s.reps ++ [⟨0, .named s.under.length, .forward, 2⟩], s.under ++ [emptyIface], s.names ++ [name]⟩ : U) = s1 := ⟨_, rfl⟩
  rw [hs1]
  have hreps : s1.reps = s.reps ++ [⟨0, .named s.under.length, .forward, 2⟩] := by rw [← hs1]
  have hunder : s1.under = s.under ++ [emptyIface] := by rw [← hs1]
  have hrepx : s1.rep x = s.rep x := by
    simp [U.rep, hreps, List.getD_eq_getElem?_getD, List.getElem?_append_left hxl]
  have hrepn : s1.rep s.reps.length = ⟨0, .named s.under.length, .forward, 2⟩ := by
    simp [U.rep, hreps, List.getD_eq_getElem?_getD]
  have hu : s1.underlying (s.rep x).g = s.underlying (s.rep x).g := by
    cases ht : (s.rep x).g <;> simp only [U.underlying]
    rename_i j
    have := hs x hxl j ht
    simp [hunder, List.getD_eq_getElem?_getD, List.getElem?_append_left this]
  have hv : valid s1 s.reps.length = true ∧ valid s1 x = true := by
    simp [valid, hreps]; omega
  simp only [setUnderlying, hv.1, hv.2, hrepn, hrepx, hu, Bool.not_true]
  simp only [U.modRep, hreps, hunder, setAt_append_length, declNamed, push]
  rw [← hs1]
  simp

/-! ## constructor histories -/

instance (sh : Shape) (n : Nat) : Decidable (sh.Arity n) := by
  cases sh <;> simp only [Shape.Arity] <;> exact inferInstance

instance (s : U) (i : Nat) : Decidable (Live s i) := by unfold Live; exact inferInstance

/-- one call of the constructor API -/
inductive Op where
  | basic (k : Nat)                      -- intern the basic type of kind k
  | mk (sh : Shape) (xs : List Nat)      -- ArrayOf / SliceOf / PtrTo / ChanOf / MapOf / FuncOf / StructOf on objects xs
  | named (name : String) (x : Nat)      -- t := NamedOf(name); t.SetUnderlying(x)

/-- a call is well formed when the arity fits the shape and every argument is a live object -/
def Op.ok (s : U) : Op → Prop
  | .basic _ => True
  | .mk sh xs => sh.Arity xs.length ∧ ∀ x ∈ xs, Live s x
  | .named _ x => Live s x

instance (s : U) (op : Op) : Decidable (op.ok s) := by
  cases op <;> simp only [Op.ok] <;> exact inferInstance

/-- ill-formed calls panic in the real code: they leave the universe unchanged (result 0) -/
def step (o : Ops) (s : U) (op : Op) : U × Nat :=
  if op.ok s then
    match op with
    | .basic k => leafBasic o s k
    | .mk sh xs => construct o s sh xs
    | .named name x => declNamed o s name x
  else (s, 0)

def run (o : Ops) : U → List Op → U
  | s, [] => s
  | s, op :: ops => run o (step o s op).1 ops

/-- the universe before `NewUniverse` fills it -/
def emptyU : U := ⟨TypeMap.empty, [], [], []⟩

theorem good_empty : Good env nh emptyU := by
  refine ⟨⟨inv_empty _ _, ?_, ?_, ?_, ?_⟩, ?_⟩
  · intro i h; exact absurd h.1 (by simp [emptyU])
  · intro i h; exact absurd h.1 (by simp [emptyU])
  · intro k v _ h; simp [emptyU, TypeMap.get, TypeMap.empty] at h
  · intro i h; exact absurd h.1 (by simp [emptyU])
  · intro i h; exact absurd h.1 (by simp [emptyU])

theorem scoped_empty : Scoped emptyU := by
  intro i h; exact absurd h (by simp [emptyU])

theorem construct_scoped {s : U} (hg : Good env nh s) (hs : Scoped s) {sh : Shape} {xs : List Nat}
    (a : sh.Arity xs.length) (hl : ∀ x ∈ xs, Live s x) : Scoped (construct (uOps nh) s sh xs).1 := by
  unfold construct maketype
  have wg : WF env (mkG sh (gsOf s xs)) := WF_mkG sh (by
    intro t ht
    simp only [gsOf, List.mem_map] at ht
    obtain ⟨x, hx, rfl⟩ := ht
    exact hg.tab.gd x (hl x hx))
  exact (scoped_maketype4 hg hs _ wg (mkR_ne_forward _ _) (compat hg.tab hg.par a hl) (mkG_not_named _ _)).1

theorem leafBasic_scoped {s : U} (hg : Good env nh s) (hs : Scoped s) (k : Nat) : Scoped (leafBasic (uOps nh) s k).1 := by
  unfold leafBasic maketype
  exact (scoped_maketype4 hg hs _ (by simp [WF]) (by simp) (basic_compat hg k) (by simp)).1

theorem step_good {s : U} (hg : Good env nh s) (hs : Scoped s) (op : Op) :
    Good env nh (step (uOps nh) s op).1 ∧ Scoped (step (uOps nh) s op).1 ∧ Ext s (step (uOps nh) s op).1 := by
  unfold step
  split
  · rename_i hok
    cases op with
    | basic k => exact ⟨(leafBasic_outcome hg k).good, leafBasic_scoped hg hs k, (leafBasic_outcome hg k).ext⟩
    | mk sh xs => exact ⟨(construct_outcome hg hok.1 hok.2).good, construct_scoped hg hs hok.1 hok.2, (construct_outcome hg hok.1 hok.2).ext⟩
    | named name x =>
      obtain ⟨g, sc, e, _⟩ := declNamed_good hg hs hok name
      exact ⟨g, sc, e⟩
  · exact ⟨hg, hs, Ext.refl s⟩

theorem run_good : ∀ (ops : List Op) {s : U}, Good env nh s → Scoped s →
    Good env nh (run (uOps nh) s ops) ∧ Scoped (run (uOps nh) s ops) ∧ Ext s (run (uOps nh) s ops)
  | [], _, hg, hs => ⟨hg, hs, Ext.refl _⟩
  | op :: ops, s, hg, hs => by
      obtain ⟨g1, s1, e1⟩ := step_good hg hs op
      obtain ⟨g2, s2, e2⟩ := run_good ops g1 s1
      exact ⟨g2, s2, e1.trans e2⟩

theorem Op.ok_ext {s s' : U} (h : Ext s s') {op : Op} (hok : op.ok s) : op.ok s' := by
  cases op with
  | basic k => trivial
  | mk sh xs => exact ⟨hok.1, fun x hx => (h x (hok.2 x hx)).1⟩
  | named n x => exact (h x hok).1

/-- constructor calls that intern (everything except the declaration of a new named type) -/
def Op.interns : Op → Prop
  | .named _ _ => False
  | _ => True

/-- repeating a well-formed interning call later, after any history, returns the same object and changes nothing -/
theorem step_again {s : U} (hg : Good env nh s) (hs : Scoped s) (op : Op) (hi : op.interns) (hok : op.ok s) (ops : List Op) :
    let s1 := (step (uOps nh) s op).1
    let i := (step (uOps nh) s op).2
    let s2 := run (uOps nh) s1 ops
    step (uOps nh) s2 op = (s2, i) := by
  intro s1 i s2
  obtain ⟨g1, sc1, e1⟩ := step_good hg hs op
  obtain ⟨g2, _, e2⟩ := run_good ops g1 sc1
  have hok2 : op.ok s2 := Op.ok_ext (e1.trans e2) hok
  cases op with
  | named n x => cases hi
  | basic k =>
    have o1 := leafBasic_outcome hg k
    have o2 := leafBasic_outcome g2 k
    have hs1 : step (uOps nh) s (.basic k) = leafBasic (uOps nh) s k := by simp [step, Op.ok]
    have hs2 : step (uOps nh) s2 (.basic k) = leafBasic (uOps nh) s2 k := by simp [step, Op.ok]
    rw [hs2]
    have li : Live s1 i := by simp only [s1, i, hs1]; exact o1.live
    have ii : identB (s1.rep i).g (.basic k) = true := by simp only [s1, i, hs1]; exact o1.ident
    exact o2.found i (e2 i li).1 (by rw [(e2 i li).2]; exact ii)
  | mk sh xs =>
    have o1 := construct_outcome hg hok.1 hok.2
    have o2 := construct_outcome g2 hok2.1 hok2.2
    have hs1 : step (uOps nh) s (.mk sh xs) = construct (uOps nh) s sh xs := by simp [step, hok]
    have hs2 : step (uOps nh) s2 (.mk sh xs) = construct (uOps nh) s2 sh xs := by simp [step, hok2]
    rw [hs2]
    have li : Live s1 i := by simp only [s1, i, hs1]; exact o1.live
    have ii : identB (s1.rep i).g (mkG sh (gsOf s xs)) = true := by simp only [s1, i, hs1]; exact o1.ident
    have eg : gsOf s2 xs = gsOf s xs := (e1.trans e2).gsOf hok.2
    exact o2.found i (e2 i li).1 (by rw [(e2 i li).2, eg]; exact ii)

/-! ## the transcribed constructors are `construct` on live objects -/

theorem live_facts {s : U} (hg : Good env nh s) {x : Nat} (h : Live s x) :
    valid s x = true ∧ (s.rep x).opt = 0 ∧ ((s.rep x).r == RTy.forward) = false := by
  refine ⟨by simp [valid, h.1], hg.tab.opt x h, ?_⟩
  simp [h.2]

theorem arrayOf_eq {s : U} (hg : Good env nh s) (n : Nat) {x : Nat} (h : Live s x) :
    arrayOf (uOps nh) s n x = some (construct (uOps nh) s (.array n) [x]) := by
  obtain ⟨v, op, fw⟩ := live_facts hg h
  simp [arrayOf, propagateFwd, v, op, fw, construct, mkG, mkR, rshape, gsOf, rsOf, RTy.ofList]

theorem sliceOf_eq {s : U} (hg : Good env nh s) {x : Nat} (h : Live s x) :
    sliceOf (uOps nh) s x = some (construct (uOps nh) s .slice [x]) := by
  obtain ⟨v, op, fw⟩ := live_facts hg h
  simp [sliceOf, propagateFwd, v, op, fw, construct, mkG, mkR, rshape, gsOf, rsOf, RTy.ofList]

theorem ptrTo_eq {s : U} (hg : Good env nh s) {x : Nat} (h : Live s x) :
    ptrTo (uOps nh) s x = some (construct (uOps nh) s .ptr [x]) := by
  obtain ⟨v, op, fw⟩ := live_facts hg h
  simp [ptrTo, propagateFwd, v, op, fw, construct, mkG, mkR, rshape, gsOf, rsOf, RTy.ofList]

theorem chanOf_eq {s : U} (hg : Good env nh s) {d x : Nat} (hd : 1 ≤ d ∧ d ≤ 3) (h : Live s x)
    (hsz : rSize (s.rep x).r < 65536) :
    chanOf (uOps nh) s d x = some (construct (uOps nh) s (.chan d) [x]) := by
  obtain ⟨v, op, fw⟩ := live_facts hg h
  have : ¬ (65536 ≤ rSize (s.rep x).r) := by omega
  simp [chanOf, approx, v, op, hd.1, hd.2, this, construct, mkG, mkR, rshape, gsOf, rsOf, RTy.ofList]

theorem mapOf_eq {s : U} (hg : Good env nh s) {k e : Nat} (hk : Live s k) (he : Live s e)
    (hh : rHashable (s.rep k).r = true) :
    mapOf (uOps nh) s k e = some (construct (uOps nh) s .map [k, e]) := by
  obtain ⟨vk, ok, _⟩ := live_facts hg hk
  obtain ⟨ve, oe, _⟩ := live_facts hg he
  simp [mapOf, approx, vk, ve, ok, oe, hh, construct, mkG, mkR, rshape, gsOf, rsOf, RTy.ofList]

/-! ## accessors return the component objects -/

/-- interning the two sides of a live object returns that very object and changes nothing -/
theorem maketype_live {s : U} (hg : Good env nh s) {x : Nat} (hx : Live s x) (kind : Nat) :
    maketype4 (uOps nh) s kind (s.rep x).g (s.rep x).r 0 = (s, x) := by
  have E := uEquiv env nh
  have wg := hg.tab.gd x hx
  have hc : ∀ i, Live s i → (uOps nh).ident (s.rep i).g (s.rep x).g = true → (s.rep i).r = (s.rep x).r := by
    intro i li ii
    rw [hg.tab.canonical E li hx ii]
  rcases maketype4_spec E hg.tab kind wg hx.2 hc with ⟨i, li, ii, e⟩ | ⟨hnew, _⟩
  · rw [e, hg.tab.canonical E li hx ii]
  · have := hnew x hx
    rw [E.refl _ wg] at this; cases this

/-- `Elem()` of an array / slice / pointer / channel object built from `x` is the object `x` itself,
    and `Key()`/`Elem()` of a map built from `k`, `e` are `k` and `e`: no new object, same universe -/
theorem elem_of_prov {s : U} (hg : Good env nh s) {i x : Nat} (hi : Live s i) (hx : Live s x) :
    (∀ n, (s.rep i).g = .array n (s.rep x).g → (s.rep i).r = .node (.array n) (.cons (s.rep x).r .nil) →
      elem (uOps nh) s i = some (s, x)) ∧
    ((s.rep i).g = .slice (s.rep x).g → (s.rep i).r = .node .slice (.cons (s.rep x).r .nil) →
      elem (uOps nh) s i = some (s, x)) ∧
    ((s.rep i).g = .pointer (s.rep x).g → (s.rep i).r = .node .ptr (.cons (s.rep x).r .nil) →
      elem (uOps nh) s i = some (s, x)) ∧
    (∀ d, (s.rep i).g = .chan (dirToGdir d) (s.rep x).g → (s.rep i).r = .node (.chan d) (.cons (s.rep x).r .nil) →
      elem (uOps nh) s i = some (s, x)) := by
  have vi : valid s i = true := by simp [valid, hi.1]
  have oi := hg.tab.opt i hi
  refine ⟨?_, ?_, ?_, ?_⟩
  · intro n eg er
    simp only [elem, vi, U.underlying, eg, er, maketype, oi]
    simp [maketype_live hg hx]
  · intro eg er
    simp only [elem, vi, U.underlying, eg, er, maketype, oi]
    simp [maketype_live hg hx]
  · intro eg er
    simp only [elem, vi, U.underlying, eg, er, maketype, oi]
    simp [maketype_live hg hx]
  · intro d eg er
    simp only [elem, vi, U.underlying, eg, er, maketype, oi]
    simp [maketype_live hg hx]

end ident

end Universe
