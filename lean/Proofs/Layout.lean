import Model.Universe
/-! Lemmas for C29, part 1: the struct layout function (`Universe.layout`) against Go's layout rule. -/
namespace Universe

theorem alignUp_spec {a : Nat} (ha : 0 < a) (x : Nat) :
    alignUp x a % a = 0 ∧ x ≤ alignUp x a ∧ alignUp x a < x + a := by
  unfold alignUp
  have h1 := Nat.div_add_mod (x + a - 1) a
  have h2 := Nat.mod_lt (x + a - 1) ha
  have h3 : (x + a - 1) / a * a = a * ((x + a - 1) / a) := Nat.mul_comm _ _
  refine ⟨Nat.mul_mod_left _ _, ?_, ?_⟩ <;> omega

/-- the least multiple of `a` at or after `x` is unique -/
theorem alignUp_unique {a : Nat} (ha : 0 < a) {x y : Nat} (hm : y % a = 0) (h1 : x ≤ y) (h2 : y < x + a) :
    y = alignUp x a := by
  obtain ⟨m1, l1, u1⟩ := alignUp_spec ha x
  generalize alignUp x a = z at *
  have ey : y = a * (y / a) := by have := Nat.div_add_mod y a; omega
  have ez : z = a * (z / a) := by have := Nat.div_add_mod z a; omega
  rcases Nat.lt_trichotomy (y / a) (z / a) with h | h | h
  · have : a * (y / a + 1) ≤ a * (z / a) := Nat.mul_le_mul_left a h
    rw [Nat.mul_add, Nat.mul_one] at this; omega
  · rw [ey, ez, h]
  · have : a * (z / a + 1) ≤ a * (y / a) := Nat.mul_le_mul_left a h
    rw [Nat.mul_add, Nat.mul_one] at this; omega

/-- Go's placement rule: every field starts at the least multiple of its alignment that is not
    before the end of the previous field (`e` = end of the previous field, `e'` = end of the last) -/
inductive Placed : Nat → List (Nat × Nat) → List Nat → Nat → Prop
  | nil (e : Nat) : Placed e [] [] e
  | cons {e sz a off : Nat} {fs : List (Nat × Nat)} {offs : List Nat} {e' : Nat} :
      off % a = 0 → e ≤ off → off < e + a → Placed (off + sz) fs offs e' →
      Placed e ((sz, a) :: fs) (off :: offs) e'

theorem layoutLoop_placed : ∀ (fs : List (Nat × Nat)) (size al : Nat), (∀ f ∈ fs, 0 < f.2) →
    Placed size fs (layoutLoop fs size al).1 (layoutLoop fs size al).2.1
  | [], size, al, _ => by simp [layoutLoop]; exact .nil size
  | (sz, a) :: fs, size, al, h => by
      have ha : 0 < a := h (sz, a) (by simp)
      obtain ⟨m, l, u⟩ := alignUp_spec ha size
      simp only [layoutLoop]
      exact .cons m l u (layoutLoop_placed fs _ _ (fun f hf => h f (by simp [hf])))

theorem placed_unique : ∀ {fs : List (Nat × Nat)} {e : Nat} {offs : List Nat} {e' : Nat} (al : Nat), (∀ f ∈ fs, 0 < f.2) →
    Placed e fs offs e' → offs = (layoutLoop fs e al).1 ∧ e' = (layoutLoop fs e al).2.1
  | [], e, _, _, al, _, .nil _ => by simp [layoutLoop]
  | (sz, a) :: fs, e, _, _, al, h, .cons m l u p => by
      have ha : 0 < a := h (sz, a) (by simp)
      have eo := alignUp_unique ha m l u
      subst eo
      have := placed_unique (max al a) (fun f hf => h f (by simp [hf])) p
      simp only [layoutLoop]
      exact ⟨by rw [this.1], this.2⟩

theorem layoutLoop_align : ∀ (fs : List (Nat × Nat)) (size al : Nat),
    (layoutLoop fs size al).2.2 = fs.foldl (fun m f => max m f.2) al
  | [], _, _ => rfl
  | (sz, a) :: fs, size, al => by simp only [layoutLoop, List.foldl_cons]; exact layoutLoop_align fs _ _

theorem foldl_max_ge : ∀ (fs : List (Nat × Nat)) (al : Nat), al ≤ fs.foldl (fun m f => max m f.2) al ∧
    ∀ f ∈ fs, f.2 ≤ fs.foldl (fun m f => max m f.2) al
  | [], al => by simp
  | f :: fs, al => by
      obtain ⟨h1, h2⟩ := foldl_max_ge fs (max al f.2)
      simp only [List.foldl_cons, List.mem_cons, forall_eq_or_imp]
      refine ⟨by omega, by omega, h2⟩

theorem foldl_max_mem : ∀ (fs : List (Nat × Nat)) (al : Nat),
    fs.foldl (fun m f => max m f.2) al = al ∨ ∃ f ∈ fs, fs.foldl (fun m f => max m f.2) al = f.2
  | [], al => by simp
  | f :: fs, al => by
      simp only [List.foldl_cons]
      rcases foldl_max_mem fs (max al f.2) with h | ⟨g, hg, h⟩
      · rw [h]
        by_cases c : al ≤ f.2
        · right; exact ⟨f, by simp, by omega⟩
        · left; omega
      · right; exact ⟨g, by simp [hg], h⟩

/-- Go's layout rule for a struct whose fields have the given (size, alignment) -/
structure IsLayout (fs : List (Nat × Nat)) (offs : List Nat) (size al : Nat) : Prop where
  /-- field placement: aligned, in order, no overlap, no avoidable padding -/
  placed : ∃ e, Placed 0 fs offs e ∧
    /- the struct ends at the end of the last field, plus one byte if that field has size zero in
       a struct of non-zero size, rounded up to the struct's alignment -/
    let e' := if e > 0 && lastZero fs then e + 1 else e
    size % al = 0 ∧ e' ≤ size ∧ size < e' + al
  /-- the struct's alignment is the largest field alignment (1 for no fields) -/
  al_ge : 1 ≤ al ∧ ∀ f ∈ fs, f.2 ≤ al
  al_mem : al = 1 ∨ ∃ f ∈ fs, f.2 = al

theorem layout_isLayout (fs : List (Nat × Nat)) (h : ∀ f ∈ fs, 0 < f.2) :
    IsLayout fs (layout fs).1 (layout fs).2.1 (layout fs).2.2 := by
  have hp := layoutLoop_placed fs 0 1 h
  have ha := layoutLoop_align fs 0 1
  obtain ⟨g1, g2⟩ := foldl_max_ge fs 1
  have hal : 0 < (layoutLoop fs 0 1).2.2 := by rw [ha]; omega
  simp only [layout]
  refine ⟨⟨(layoutLoop fs 0 1).2.1, hp, ?_⟩, ⟨by rw [ha]; exact g1, by rw [ha]; exact g2⟩, ?_⟩
  · exact alignUp_spec hal _
  · rw [ha]; rcases foldl_max_mem fs 1 with h | ⟨f, hf, h⟩
    · exact .inl h
    · exact .inr ⟨f, hf, h.symm⟩

theorem isLayout_unique {fs : List (Nat × Nat)} (h : ∀ f ∈ fs, 0 < f.2) {offs : List Nat} {size al : Nat}
    (L : IsLayout fs offs size al) : offs = (layout fs).1 ∧ size = (layout fs).2.1 ∧ al = (layout fs).2.2 := by
  obtain ⟨⟨e, hp, hs⟩, ⟨a1, a2⟩, a3⟩ := L
  obtain ⟨eo, ee⟩ := placed_unique 1 h hp
  have ha := layoutLoop_align fs 0 1
  obtain ⟨g1, g2⟩ := foldl_max_ge fs 1
  have eal : al = (layoutLoop fs 0 1).2.2 := by
    rw [ha]
    rcases a3 with a3 | ⟨f, hf, a3⟩
    · rcases foldl_max_mem fs 1 with h' | ⟨g, hg, h'⟩
      · omega
      · have := a2 g hg; omega
    · have := g2 f hf
      rcases foldl_max_mem fs 1 with h' | ⟨g, hg, h'⟩
      · omega
      · have := a2 g hg; omega
  simp only [layout]
  refine ⟨eo, ?_, eal⟩
  subst ee
  have hal : 0 < al := by omega
  rw [← eal]
  exact alignUp_unique hal hs.1 hs.2.1 hs.2.2

/-! ### consequences used by the reflect-side size function -/

theorem placed_mono : ∀ {fs : List (Nat × Nat)} {e : Nat} {offs : List Nat} {e' : Nat}, Placed e fs offs e' → e ≤ e'
  | _, _, _, _, .nil _ => Nat.le_refl _
  | _, _, _, _, .cons _ l _ p => by have := placed_mono p; omega

/-- every reflect type has a positive alignment and a size that is a multiple of it -/
theorem rSA_wf : ∀ r : RTy, (0 < (rSA r).2 ∧ (rSA r).1 % (rSA r).2 = 0) ∧ (∀ p ∈ rSAs r, 0 < p.2)
  | .basic k => by
      refine ⟨?_, by simp [rSAs]⟩
      simp only [rSA]
      unfold basicSA
      split <;> simp
  | .iface => by simp [rSA, rSAs]
  | .error => by simp [rSA, rSAs]
  | .forward => by simp [rSA, rSAs]
  | .nil => by simp [rSA, rSAs]
  | .cons a b => by
      have ha := rSA_wf a
      have hb := rSA_wf b
      refine ⟨by simp [rSA], ?_⟩
      intro p hp
      simp only [rSAs, List.mem_cons] at hp
      rcases hp with e | hp
      · subst e; exact ha.1.1
      · exact hb.2 p hp
  | .node sh cs => by
      have hc := rSA_wf cs
      refine ⟨?_, by simp [rSAs]⟩
      cases sh with
      | array n =>
        cases cs with
        | cons e rest =>
          have he := rSA_wf e
          simp only [rSA]
          refine ⟨he.1.1, ?_⟩
          rw [Nat.mul_mod, he.1.2]; simp
        | _ => simp [rSA]
      | struct fs =>
        have e1 : rSA (.node (.struct fs) cs) = ((layout (rSAs cs)).2.1, (layout (rSAs cs)).2.2) := by
          simp [rSA]
        rw [e1]
        have L := layout_isLayout (rSAs cs) hc.2
        obtain ⟨⟨e, _, hs⟩, ⟨a1, _⟩, _⟩ := L
        exact ⟨a1, hs.1⟩
      | slice => simp [rSA]
      | ptr => simp [rSA]
      | chan d => simp [rSA]
      | map => simp [rSA]
      | func v n => simp [rSA]

end Universe
