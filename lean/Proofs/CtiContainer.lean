import Model.CtiContainer
/-! Laws of the container model (`Model/CtiContainer.lean`), for all slices / channels. -/
namespace CtiContainerProofs
open CtiContainer CtiContainer.View

theorem append_spec (s : View) (xs : List Int) (h : s.wf) :
    (s.append xs).1.wf ∧ (s.append xs).1.elems = s.elems ++ xs ∧
    ((s.append xs).2 = s.arr ∨ s.len + xs.length ≤ s.cap) := by
  unfold View.append View.wf View.elems View.cap at *
  have hl : (List.take s.len s.arr ++ xs).length = s.len + xs.length := by
    simp [List.length_take]; omega
  split
  · rename_i hfit
    refine ⟨?_, ?_, Or.inr hfit⟩
    · simp [List.length_take, List.length_drop]; omega
    · simp only
      exact List.take_left' hl
  · refine ⟨?_, ?_, Or.inl rfl⟩
    · simp [List.length_take]; omega
    · simp only
      rw [← hl]
      exact List.take_length

theorem setIndex_spec (s s' : View) (i v : Int) (h : s.wf) (hs : s.setIndex i v = .ok s') :
    s'.wf ∧ s'.len = s.len ∧ s'.index i = .ok v := by
  unfold View.setIndex at hs
  unfold View.wf at *
  split at hs
  · cases hs
  · split at hs
    · rename_i hneg hlt
      cases hs
      refine ⟨by simpa using h, rfl, ?_⟩
      unfold View.index
      have hlen : i.toNat < s.arr.length := by omega
      simp [hneg, hlt, hlen]
    · cases hs

theorem slice_spec (s s' : View) (i j : Int) (hs : s.slice i j = .ok s') : s'.wf ∧ s'.cap = s.cap - i.toNat := by
  unfold View.slice at hs
  unfold View.wf View.cap at *
  split at hs
  · cases hs
  · split at hs
    · cases hs
    · split at hs
      · cases hs
      · cases hs
        simp [List.length_drop]
        omega

theorem copy_spec (s : View) (xs : List Int) (h : s.wf) : (s.copy xs).wf ∧ (s.copy xs).len = s.len := by
  unfold View.copy View.wf at *
  refine ⟨?_, rfl⟩
  simp [List.length_take, List.length_drop]
  omega

theorem chan_len_le_cap (c : Chan) (op : ChanOp) (h : c.q.length ≤ c.cap) :
    (chanStep c op).2.q.length ≤ (chanStep c op).2.cap := by
  cases op <;> simp only [chanStep]
  · split
    · exact h
    · split
      · simp; omega
      · exact h
  · split
    · exact h
    · split
      · simp; omega
      · exact h
  · split
    · rename_i v rest hq
      simp [hq] at h ⊢; omega
    · split <;> exact h
  · split
    · rename_i v rest hq
      simp [hq] at h ⊢; omega
    · exact h
  · split <;> exact h
  · exact h
  · exact h

theorem try_never_blocks (c : Chan) (v : Int) :
    (chanStep c (.trySend v)).1 ≠ .block ∧ (chanStep c .tryRecv).1 ≠ .block := by
  constructor
  · simp only [chanStep]
    split
    · simp
    · split <;> simp
  · simp only [chanStep]
    split <;> simp

end CtiContainerProofs
