import Proofs.DepBuild
/-! The result of the graph sort is topological and takes the least position first. -/
namespace Dep
open DepScope (Name Kind Decl)

/-- a forward declaration of `n` occurs in `pre` -/
def fwdIn (pre : List Decl) (n : Name) : Bool := pre.any (fun d => d.kind == Kind.typeFwd && d.name == n)

/-- the dependency of entry `e0` on the name `n` is satisfied by the prefix `pre`: every declaration
    named `n` is in `pre`, or `e0` declares a type and `n` is forward-declared in `pre` -/
def depOk (g0 : Graph) (e0 : Entry) (pre : List Decl) (n : Name) : Prop :=
  (∀ e ∈ g0, e.name = n → ∀ d ∈ e.decls, d ∈ pre) ∨ (isTypeEntry e0 = true ∧ fwdIn pre n = true)

def ready (g0 : Graph) (e0 : Entry) (pre : List Decl) : Prop := ∀ n ∈ e0.edges, depOk g0 e0 pre n

/-- `d`, placed after `pre`, respects the dependencies of its entry -/
def TopoAt (g0 : Graph) (pre : List Decl) (d : Decl) : Prop :=
  d.kind ≠ Kind.typeFwd → ∀ e0 ∈ g0, d ∈ e0.decls → ready g0 e0 pre

/-- `d`, the first declaration of its entry placed, has the least position among the entries that
    are not yet placed and whose dependencies are satisfied -/
def GreedyAt (g0 : Graph) (pre : List Decl) (d : Decl) : Prop :=
  d.kind ≠ Kind.typeFwd → ∀ e0 ∈ g0, d ∈ e0.decls → (∀ x ∈ e0.decls, x ∉ pre) →
    ∀ e1 ∈ g0, (∀ x ∈ e1.decls, x ∉ pre) → ready g0 e1 pre → headPos e0 ≤ headPos e1

def AllFrom (P : List Decl → Decl → Prop) : List Decl → List Decl → Prop
  | _, [] => True
  | pre, d :: rest => P pre d ∧ AllFrom P (pre ++ [d]) rest

theorem allFrom_append (P : List Decl → Decl → Prop) (pre l1 l2 : List Decl) :
    AllFrom P pre (l1 ++ l2) ↔ AllFrom P pre l1 ∧ AllFrom P (pre ++ l1) l2 := by
  induction l1 generalizing pre with
  | nil => simp [AllFrom]
  | cons d r ih =>
    simp only [List.cons_append, AllFrom, ih, List.append_assoc, List.singleton_append,
      List.nil_append]
    exact and_assoc.symm

theorem allFrom_split (P : List Decl → Decl → Prop) {out pre post : List Decl} {d : Decl}
    (h : AllFrom P [] out) (hs : out = pre ++ d :: post) : P pre d := by
  subst hs
  have := (allFrom_append P [] pre (d :: post)).mp h
  simpa [AllFrom] using this.2.1

theorem fwdIn_mono {pre pre' : List Decl} (h : ∀ d ∈ pre, d ∈ pre') {n : Name} (hf : fwdIn pre n = true) :
    fwdIn pre' n = true := by
  unfold fwdIn at *
  obtain ⟨d, hd, hp⟩ := List.any_eq_true.mp hf
  exact List.any_eq_true.mpr ⟨d, h d hd, hp⟩

theorem depOk_mono {g0 : Graph} {e0 : Entry} {pre pre' : List Decl} (h : ∀ d ∈ pre, d ∈ pre') {n : Name}
    (hd : depOk g0 e0 pre n) : depOk g0 e0 pre' n := by
  rcases hd with hd | ⟨h1, h2⟩
  · left; intro e he hn d hde; exact h d (hd e he hn d hde)
  · right; exact ⟨h1, fwdIn_mono h h2⟩

theorem ready_mono {g0 : Graph} {e0 : Entry} {pre pre' : List Decl} (h : ∀ d ∈ pre, d ∈ pre')
    (hr : ready g0 e0 pre) : ready g0 e0 pre' := fun n hn => depOk_mono h (hr n hn)

/-- every edge leads to a node -/
def Closed (g : Graph) : Prop := ∀ e ∈ g, ∀ n ∈ e.edges, hasNode g n = true

theorem closed_removeUnresolvable (g : Graph) : Closed (removeUnresolvable g) := by
  intro e he n hn
  unfold removeUnresolvable at he
  obtain ⟨e', _, rfl⟩ := List.mem_map.mp he
  have := (List.mem_filter.mp hn).2
  rw [hasNode_iff] at this ⊢
  rw [names_removeUnresolvable]; exact this

/-- the state of the loop in terms of the initial graph `g0` -/
structure Inv (g0 g : Graph) (acc : List Decl) : Prop where
  edges : ∀ e ∈ g, ∃ e0 ∈ g0, e.name = e0.name ∧ e.decls = e0.decls ∧
    e.edges = e0.edges.filter (fun n => hasNode g n && !(isTypeEntry e0 && fwdIn acc n))
  present : ∀ e0 ∈ g0, (∃ e ∈ g, e.name = e0.name) ∨ (∀ d ∈ e0.decls, d ∈ acc)
  fresh : ∀ e ∈ g, ∀ d ∈ e.decls, d ∉ acc

theorem isTypeEntry_congr {e e0 : Entry} (h : e.decls = e0.decls) : isTypeEntry e = isTypeEntry e0 := by
  simp [isTypeEntry, h]

theorem hasNode_removeNode {g : Graph} {x n : Name} : hasNode (removeNode g x) n = (hasNode g n && n != x) := by
  simp only [hasNode, removeNode, List.any_filter]
  induction g with
  | nil => simp
  | cons e r ih =>
    simp only [List.any_cons, ih]
    by_cases h : e.name = n
    · subst h; cases (e.name != x) <;> simp
    · have : (e.name == n) = false := by simpa using h
      simp [this]

theorem hasNode_removeUnresolvable {g : Graph} {n : Name} : hasNode (removeUnresolvable g) n = hasNode g n := by
  have h1 := @hasNode_iff (removeUnresolvable g) n
  have h2 := @hasNode_iff g n
  rw [names_removeUnresolvable] at h1
  cases ha : hasNode (removeUnresolvable g) n <;> cases hb : hasNode g n <;> simp_all

theorem mem_removeUnresolvable {g : Graph} {e : Entry} (h : e ∈ removeUnresolvable g) :
    ∃ e' ∈ g, e.name = e'.name ∧ e.decls = e'.decls ∧ e.edges = e'.edges.filter (hasNode g) := by
  unfold removeUnresolvable at h
  obtain ⟨e', he', rfl⟩ := List.mem_map.mp h
  exact ⟨e', he', rfl, rfl, rfl⟩

theorem exists_mem_removeUnresolvable {g : Graph} {e : Entry} (h : e ∈ g) :
    ∃ e1 ∈ removeUnresolvable g, e1.name = e.name := by
  unfold removeUnresolvable
  exact ⟨_, List.mem_map.mpr ⟨e, h, rfl⟩, rfl⟩

theorem exists_mem_map_edges {g : Graph} {e : Entry} (f : Entry → List Name) (h : e ∈ g) :
    ∃ e1 ∈ (g.map fun e => { e with edges := f e }), e1.name = e.name :=
  ⟨_, List.mem_map.mpr ⟨e, h, rfl⟩, rfl⟩

def NoFwd (g : Graph) : Prop := ∀ d ∈ allDecls g, d.kind ≠ Kind.typeFwd

theorem fwdIn_append (a b : List Decl) (n : Name) : fwdIn (a ++ b) n = (fwdIn a n || fwdIn b n) := by
  simp [fwdIn, List.any_append]

theorem fwdIn_noFwd {l : List Decl} (h : ∀ d ∈ l, d.kind ≠ Kind.typeFwd) (n : Name) : fwdIn l n = false := by
  unfold fwdIn
  apply List.any_eq_false.mpr
  intro d hd
  have := h d hd
  simp [this]

theorem fwdIn_fwds (L : List Decl) (n : Name) :
    fwdIn (sortByPos (L.map fun d => { d with kind := Kind.typeFwd })) n = L.any (·.name == n) := by
  unfold fwdIn
  rw [(sortByPos_perm _).any_eq, List.any_map]
  congr 1

theorem hasNode_map_edges (g : Graph) (f : Entry → List Name) (n : Name) :
    hasNode (g.map fun e => { e with edges := f e }) n = hasNode g n := by
  simp [hasNode, List.any_map, Function.comp_def]

/-- the invariant holds initially -/
theorem Inv.init {g0 : Graph} (hc : Closed g0) : Inv g0 g0 [] where
  edges := by
    intro e he
    refine ⟨e, he, rfl, rfl, ?_⟩
    symm
    apply List.filter_eq_self.mpr
    intro n hn
    simp [hc e he n hn, fwdIn]
  present := fun e0 he0 => Or.inl ⟨e0, he0, rfl⟩
  fresh := by intro e _ d _ h; cases h

/-- step of the loop that removes the node `e` -/
theorem Inv.pick {g0 g : Graph} {acc : List Decl} (h : Inv g0 g acc) (hwf0 : WF g0) (hnf : NoFwd g0)
    (hwf : WF g) {e : Entry} (he : e ∈ g) :
    Inv g0 (removeUnresolvable (removeNode g e.name)) (acc ++ sortByPos e.decls) := by
  obtain ⟨e0, he0, hn0, hd0, _⟩ := h.edges e he
  have hnofwd : ∀ d ∈ sortByPos e.decls, d.kind ≠ Kind.typeFwd := by
    intro d hd
    have := mem_sortByPos.mp hd
    rw [hd0] at this
    exact hnf d (mem_allDecls.mpr ⟨e0, he0, this⟩)
  constructor
  · intro e1 he1
    obtain ⟨e1', he1', hn1, hd1, hed1⟩ := mem_removeUnresolvable he1
    have he1g : e1' ∈ g := (List.mem_filter.mp he1').1
    obtain ⟨e0', he0', hn', hd', hed'⟩ := h.edges e1' he1g
    refine ⟨e0', he0', hn1.trans hn', hd1.trans hd', ?_⟩
    rw [hed1, hed', List.filter_filter]
    apply List.filter_congr
    intro n _
    rw [hasNode_removeUnresolvable, hasNode_removeNode, fwdIn_append, fwdIn_noFwd hnofwd]
    cases hasNode g n <;> cases (n != e.name) <;> simp
  · intro e0' he0'
    rcases h.present e0' he0' with ⟨e', he', hne'⟩ | hall
    · by_cases hx : e'.name = e.name
      · right
        have : e' = e := eq_of_name_eq hwf.names_nodup he' he hx
        subst this
        have : e0' = e0 := eq_of_name_eq hwf0.names_nodup he0' he0 (hne'.symm.trans hn0)
        subst this
        intro d hd
        apply List.mem_append_right
        rw [mem_sortByPos, hd0]; exact hd
      · left
        have hmem : e' ∈ removeNode g e.name := List.mem_filter.mpr ⟨he', by simpa using hx⟩
        refine ⟨{ e' with edges := e'.edges.filter (hasNode (removeNode g e.name)) }, ?_, hne'⟩
        unfold removeUnresolvable
        exact List.mem_map.mpr ⟨e', hmem, rfl⟩
    · right; intro d hd; exact List.mem_append_left _ (hall d hd)
  · intro e1 he1 d hd hacc
    obtain ⟨e1', he1', hn1, hd1, _⟩ := mem_removeUnresolvable he1
    have he1g : e1' ∈ g := (List.mem_filter.mp he1').1
    have hne : e1'.name ≠ e.name := by simpa using (List.mem_filter.mp he1').2
    rw [hd1] at hd
    rcases List.mem_append.mp hacc with hacc | hacc
    · exact h.fresh e1' he1g d hd hacc
    · have := mem_sortByPos.mp hacc
      exact hne ((hwf.decl_name e1' he1g d hd).symm.trans (hwf.decl_name e he d this))

/-- step of the loop that forward-declares the types `L` -/
theorem Inv.fwd {g0 g : Graph} {acc : List Decl} (h : Inv g0 g acc) (hnf : NoFwd g0) (L : List Decl) :
    Inv g0 (removeUnresolvable (g.map fun e => { e with edges :=
        (if isTypeEntry e = true then e.edges.filter (fun n => !L.any (·.name == n)) else e.edges) }))
      (acc ++ sortByPos (L.map fun d => { d with kind := Kind.typeFwd })) := by
  constructor
  · intro e1 he1
    obtain ⟨e1', he1', hn1, hd1, hed1⟩ := mem_removeUnresolvable he1
    obtain ⟨e, he, rfl⟩ := List.mem_map.mp he1'
    obtain ⟨e0, he0, hn', hd', hed'⟩ := h.edges e he
    refine ⟨e0, he0, hn1.trans hn', hd1.trans hd', ?_⟩
    rw [hed1]
    simp only
    have hT : isTypeEntry e = isTypeEntry e0 := isTypeEntry_congr hd'
    rw [hT]
    have hpt : ∀ n, hasNode (removeUnresolvable (g.map fun e => { e with edges :=
        (if isTypeEntry e = true then e.edges.filter (fun n => !L.any (·.name == n)) else e.edges) })) n = hasNode g n := by
      intro n; rw [hasNode_removeUnresolvable, hasNode_map_edges]
    by_cases hty : isTypeEntry e0 = true
    · simp only [hty, if_true]
      rw [hed', List.filter_filter, List.filter_filter]
      apply List.filter_congr
      intro n _
      rw [hpt, hasNode_map_edges, fwdIn_append, fwdIn_fwds, hty]
      cases hasNode g n <;> cases fwdIn acc n <;> cases (L.any fun x => x.name == n) <;> simp
    · have hty' : isTypeEntry e0 = false := by simpa using hty
      simp only [hty', Bool.false_eq_true, if_false]
      rw [hed', List.filter_filter]
      apply List.filter_congr
      intro n _
      rw [hpt, hasNode_map_edges, hty']
      cases hasNode g n <;> simp
  · intro e0' he0'
    rcases h.present e0' he0' with ⟨e', he', hne'⟩ | hall
    · left
      obtain ⟨e1, he1, hn1⟩ := exists_mem_map_edges (fun e =>
        (if isTypeEntry e = true then e.edges.filter (fun n => !L.any (·.name == n)) else e.edges)) he'
      obtain ⟨e2, he2, hn2⟩ := exists_mem_removeUnresolvable he1
      exact ⟨e2, he2, hn2.trans (hn1.trans hne')⟩
    · right; intro d hd; exact List.mem_append_left _ (hall d hd)
  · intro e1 he1 d hd hacc
    obtain ⟨e1', he1', _, hd1, _⟩ := mem_removeUnresolvable he1
    obtain ⟨e, he, rfl⟩ := List.mem_map.mp he1'
    rw [hd1] at hd
    simp only at hd
    rcases List.mem_append.mp hacc with hacc | hacc
    · exact h.fresh e he d hd hacc
    · obtain ⟨d', _, rfl⟩ := List.mem_map.mp (mem_sortByPos.mp hacc)
      obtain ⟨e0, he0, _, hd', _⟩ := h.edges e he
      rw [hd'] at hd
      exact hnf _ (mem_allDecls.mpr ⟨e0, he0, hd⟩) rfl

theorem allFrom_of_split (P : List Decl → Decl → Prop) (pre l : List Decl)
    (h : ∀ l1 x l2, l = l1 ++ x :: l2 → P (pre ++ l1) x) : AllFrom P pre l := by
  induction l generalizing pre with
  | nil => trivial
  | cons d r ih =>
    refine ⟨by simpa using h [] d r rfl, ih _ ?_⟩
    intro l1 x l2 hl
    have := h (d :: l1) x l2 (by rw [hl]; rfl)
    simpa using this

theorem removeTypeFwd_fst (ord : Ord) (k : Nat) (g : Graph) :
    (removeTypeFwd ord k g).1 = (fwdCands ord k g).map fun d => { d with kind := Kind.typeFwd } := rfl

theorem headPos_congr {e e0 : Entry} (h : e.decls = e0.decls) : headPos e = headPos e0 := by
  simp [headPos, h]

theorem Inv.ready_of_edges_nil {g0 g : Graph} {acc : List Decl} (h : Inv g0 g acc) (hwf0 : WF g0)
    (hc : Closed g0) {e e0 : Entry} (he0 : e0 ∈ g0)
    (hed : e.edges = e0.edges.filter (fun n => hasNode g n && !(isTypeEntry e0 && fwdIn acc n)))
    (hnil : e.edges = []) : ready g0 e0 acc := by
  intro n hn
  have hp : (hasNode g n && !(isTypeEntry e0 && fwdIn acc n)) = false := by
    rw [hnil] at hed
    have := List.filter_eq_nil_iff.mp hed.symm n hn
    simpa using this
  by_cases hg : hasNode g n = true
  · right
    rw [hg] at hp
    simpa using hp
  · left
    intro e' he' hn' d hd
    rcases h.present e' he' with ⟨e'', he'', hne''⟩ | hall
    · exfalso; apply hg
      exact hasNode_iff.mpr (List.mem_map.mpr ⟨e'', he'', hne''.trans hn'⟩)
    · exact hall d hd

theorem Inv.edges_nil_of_ready {g0 g : Graph} {acc : List Decl} (h : Inv g0 g acc) (hwf0 : WF g0)
    {e e0 : Entry} (he0 : e0 ∈ g0)
    (hed : e.edges = e0.edges.filter (fun n => hasNode g n && !(isTypeEntry e0 && fwdIn acc n)))
    (hr : ready g0 e0 acc) : e.edges = [] := by
  rw [hed]
  apply List.filter_eq_nil_iff.mpr
  intro n hn
  rcases hr n hn with hall | ⟨h1, h2⟩
  · have : hasNode g n = false := by
      cases hg : hasNode g n with
      | false => rfl
      | true =>
        exfalso
        obtain ⟨e'', he'', hne''⟩ := List.mem_map.mp (hasNode_iff.mp hg)
        obtain ⟨e0'', he0'', hn0, hd0, _⟩ := h.edges e'' he''
        have hne := hwf0.nonempty e0'' he0''
        cases hds : e0''.decls with
        | nil => exact hne hds
        | cons d r =>
          have hd : d ∈ e0''.decls := by rw [hds]; exact List.mem_cons_self
          have := hall e0'' he0'' (hn0.symm.trans hne'') d hd
          exact h.fresh e'' he'' d (by rw [hd0]; exact hd) this
    simp [this]
  · simp [h1, h2]

theorem sortLoop_topo (ord : Ord) (hord : ord.OK) {g0 : Graph} (hwf0 : WF g0) (hc : Closed g0) (hnf : NoFwd g0) :
    ∀ (fuel round : Nat) (g : Graph) (acc out : List Decl), WF g → Inv g0 g acc →
      AllFrom (TopoAt g0) [] acc → AllFrom (GreedyAt g0) [] acc →
      sortLoop ord fuel round g acc = some out →
      AllFrom (TopoAt g0) [] out ∧ AllFrom (GreedyAt g0) [] out := by
  intro fuel
  induction fuel with
  | zero => intro round g acc out _ _ _ _ h; simp [sortLoop] at h
  | succ fuel ih =>
    intro round g acc out hwf hinv ht hg h
    simp only [sortLoop] at h
    split at h
    · injection h with h; subst h; exact ⟨ht, hg⟩
    · rw [pickNoDeps_perm hwf (hord _ g)] at h
      have hspec := pickNoDeps_spec hwf.goodList
      split at h
      · rename_i e hpick
        rw [hpick] at hspec
        obtain ⟨heg, henil, hmin⟩ := hspec
        obtain ⟨e0, he0, hn0, hd0, hed0⟩ := hinv.edges e heg
        have hready := hinv.ready_of_edges_nil hwf0 hc he0 hed0 henil
        have huniq : ∀ e0' ∈ g0, ∀ x ∈ e.decls, x ∈ e0'.decls → e0' = e0 := by
          intro e0' he0' x hx hx'
          apply eq_of_name_eq hwf0.names_nodup he0' he0
          rw [← hwf0.decl_name e0' he0' x hx', hwf0.decl_name e0 he0 x (hd0 ▸ hx)]
        apply ih _ _ _ _ (hwf.removeNode e.name).removeUnresolvable (hinv.pick hwf0 hnf hwf heg)
          _ _ h
        · rw [← List.nil_append (acc ++ sortByPos e.decls), List.nil_append]
          apply (allFrom_append _ [] acc _).mpr ⟨ht, ?_⟩
          apply allFrom_of_split
          intro l1 x l2 hl _ e0' he0' hx'
          have hx : x ∈ e.decls := mem_sortByPos.mp (by rw [hl]; simp)
          rw [huniq e0' he0' x hx hx']
          exact ready_mono (fun d hd => by simp at hd ⊢; exact Or.inl hd) hready
        · apply (allFrom_append _ [] acc _).mpr ⟨hg, ?_⟩
          apply allFrom_of_split
          intro l1 x l2 hl _ e0' he0' hx' hnone e1 he1 hnot hr1
          have hx : x ∈ e.decls := mem_sortByPos.mp (by rw [hl]; simp)
          have := huniq e0' he0' x hx hx'
          subst this
          cases l1 with
          | cons y l1' =>
            exfalso
            have hy : y ∈ e.decls := mem_sortByPos.mp (by rw [hl]; simp)
            exact hnone y (hd0 ▸ hy) (by simp)
          | nil =>
            simp only [List.nil_append, List.append_nil] at hnot hr1
            rcases hinv.present e1 he1 with ⟨e1g, he1g, hn1⟩ | hall
            · obtain ⟨e1o, he1o, hn1o, hd1o, hed1o⟩ := hinv.edges e1g he1g
              have : e1o = e1 := eq_of_name_eq hwf0.names_nodup he1o he1 (hn1o.symm.trans hn1)
              subst this
              have hnil := hinv.edges_nil_of_ready hwf0 he1o hed1o hr1
              have := hmin e1g he1g hnil
              rw [headPos_congr hd0, headPos_congr hd1o] at this
              exact this
            · exfalso
              have hne := hwf0.nonempty e1 he1
              cases hds : e1.decls with
              | nil => exact hne hds
              | cons d r =>
                have hd : d ∈ e1.decls := by rw [hds]; exact List.mem_cons_self
                exact hnot d hd (hall d hd)
      · split at h
        · cases h
        · rw [removeTypeFwd_snd] at h
          rw [removeTypeFwd_fst] at h
          have hwf' : WF (removeUnresolvable (List.map (fun e => { e with edges :=
              (if isTypeEntry e = true then e.edges.filter (fun n => !(fwdCands ord (4 * round + 1) g).any (·.name == n))
               else e.edges) }) g)) := by
            have := (hwf.removeTypeFwd ord (4 * round + 1)).removeUnresolvable
            rwa [removeTypeFwd_snd] at this
          apply ih _ _ _ _ hwf' (hinv.fwd hnf _) _ _ h
          · apply (allFrom_append _ [] acc _).mpr ⟨ht, ?_⟩
            apply allFrom_of_split
            intro l1 x l2 hl hk
            exfalso
            have hx : x ∈ sortByPos ((fwdCands ord (4 * round + 1) g).map fun d => { d with kind := Kind.typeFwd }) := by
              rw [hl]; simp
            obtain ⟨d', _, rfl⟩ := List.mem_map.mp (mem_sortByPos.mp hx)
            exact hk rfl
          · apply (allFrom_append _ [] acc _).mpr ⟨hg, ?_⟩
            apply allFrom_of_split
            intro l1 x l2 hl hk
            exfalso
            have hx : x ∈ sortByPos ((fwdCands ord (4 * round + 1) g).map fun d => { d with kind := Kind.typeFwd }) := by
              rw [hl]; simp
            obtain ⟨d', _, rfl⟩ := List.mem_map.mp (mem_sortByPos.mp hx)
            exact hk rfl

end Dep
