import Proofs.DepTopo
/-! The declarations produced by the scope walk are in creation order with ascending positions. -/
namespace Dep
open DepScope

def LoadOK (l : Load) : Prop :=
  l.out.Pairwise (fun a b => a.pos < b.pos) ∧ (∀ d ∈ l.out, d.pos < l.pos) ∧ (∀ d ∈ l.out, d.kind ≠ Kind.typeFwd)

theorem LoadOK.add {l : Load} (h : LoadOK l) (k : Kind) (hk : k ≠ Kind.typeFwd) (n : Name) (deps : List Name) :
    LoadOK (l.add k n deps) := by
  obtain ⟨h1, h2, h3⟩ := h
  refine ⟨?_, ?_, ?_⟩
  · simp only [Load.add]
    apply List.pairwise_append.mpr
    refine ⟨h1, by simp, ?_⟩
    intro a ha b hb
    have : b.pos = l.pos := by
      have : b = { kind := k, name := n, pos := l.pos, deps := deps } := by simpa using hb
      rw [this]
    have := h2 a ha
    omega
  · intro d hd
    simp only [Load.add, List.mem_append, List.mem_singleton] at hd ⊢
    rcases hd with hd | hd
    · have := h2 d hd; omega
    · rw [hd]; simp
  · intro d hd
    simp only [Load.add, List.mem_append, List.mem_singleton] at hd
    rcases hd with hd | hd
    · exact h3 d hd
    · rw [hd]; exact hk

theorem LoadOK.addNames {l : Load} (h : LoadOK l) (k : Kind) (hk : k ≠ Kind.typeFwd) (deps : Nat → List Name)
    (i : Nat) (ns : List Name) : LoadOK (addNames k l deps i ns) := by
  induction ns generalizing l i with
  | nil => exact h
  | cons n r ih => exact ih (h.add k hk n _) (i + 1)

theorem LoadOK.loadConsts {l : Load} (h : LoadOK l) (dt : List Name) (dv : List (List Name)) (specs : List Spec) :
    LoadOK (loadConsts l dt dv specs) := by
  induction specs generalizing l dt dv with
  | nil => exact h
  | cons sp r ih =>
    simp only [DepScope.loadConsts]
    exact ih (h.addNames _ (by decide) _ _ _) _ _

theorem LoadOK.loadVars {l : Load} (h : LoadOK l) (specs : List Spec) : LoadOK (loadVars l specs) := by
  induction specs generalizing l with
  | nil => exact h
  | cons sp r ih =>
    simp only [DepScope.loadVars]
    split
    · exact ih (h.addNames _ (by decide) _ _ _)
    · exact ih (h.addNames _ (by decide) _ _ _)

theorem LoadOK.loadTypes {l : Load} (h : LoadOK l) (specs : List (Name × Node)) : LoadOK (loadTypes l specs) := by
  induction specs generalizing l with
  | nil => exact h
  | cons sp r ih =>
    obtain ⟨n, t⟩ := sp
    simp only [DepScope.loadTypes]
    exact ih (h.add _ (by decide) _ _)

theorem LoadOK.gensym {l : Load} (h : LoadOK l) (k : Nat) : LoadOK { l with gensym := k } := h

theorem LoadOK.loadTop {l : Load} (h : LoadOK l) (t : Top) : LoadOK (loadTop l t) := by
  cases t with
  | consts specs => exact h.loadConsts _ _ _
  | vars specs => exact h.loadVars _
  | types specs => exact h.loadTypes _
  | func name ps rs body => exact h.add _ (by decide) _ _
  | method recv name ps rs body =>
    simp only [DepScope.loadTop]
    split
    · exact LoadOK.add h _ (by decide) _ _
    · exact LoadOK.add (h.gensym _) _ (by decide) _ _

theorem LoadOK.loadTops {l : Load} (h : LoadOK l) (ts : List Top) : LoadOK (loadTops l ts) := by
  induction ts generalizing l with
  | nil => exact h
  | cons t r ih => exact ih (h.loadTop t)

theorem LoadOK.init (g p : Nat) : LoadOK { gensym := g, pos := p } := by
  refine ⟨?_, ?_, ?_⟩ <;> simp

end Dep
