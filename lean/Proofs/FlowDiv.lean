import Proofs.FlowTop

/-! Preservation of divergence for the Core fragment: if the structured semantics runs out of fuel `n`,
    the flat machine makes at least `n - wt s` steps without halting. -/

namespace Flow
open Ref

/-- the machine makes `m` steps from `c` without halting or getting stuck -/
def NoHalt (C : Code) (c : Cfg) (m : Nat) : Prop := ∃ c', steps C m c = some c'

theorem NoHalt.zero (C : Code) (c : Cfg) : NoHalt C c 0 := ⟨c, rfl⟩

theorem NoHalt.mono {C : Code} {c : Cfg} {m m' : Nat} (h : NoHalt C c m) (hm : m' ≤ m) : NoHalt C c m' := by
  obtain ⟨c', h⟩ := h
  obtain ⟨d, rfl⟩ : ∃ d, m = m' + d := ⟨m - m', by omega⟩
  rw [steps_add] at h
  cases h1 : steps C m' c with
  | none => rw [h1] at h; cases h
  | some c1 => exact ⟨c1, h1⟩

theorem NoHalt.prepend {C : Code} {c c1 : Cfg} {m : Nat} (h : Reaches C c c1) (hn : NoHalt C c1 m) : NoHalt C c m := by
  obtain ⟨k, hk⟩ := h
  obtain ⟨c', hc⟩ := hn
  exact NoHalt.mono (m := k + m) ⟨c', by rw [steps_add, hk]; exact hc⟩ (by omega)

theorem NoHalt.prependPos {C : Code} {c c1 : Cfg} {m : Nat} (h : ReachesPos C c c1) (hn : NoHalt C c1 m) :
    NoHalt C c (m + 1) := by
  obtain ⟨k, hk1, hk⟩ := h
  obtain ⟨c', hc⟩ := hn
  exact NoHalt.mono (m := k + m) ⟨c', by rw [steps_add, hk]; exact hc⟩ (by omega)

theorem NoHalt.timeout {C : Code} {c : Cfg} {m : Nat} (h : NoHalt C c m) : Flat.runCfg C m c = .timeout := by
  obtain ⟨c', h⟩ := h
  have := runCfg_steps m h 0
  simpa [Flat.runCfg] using this

/-- weight of a statement: bounds how much fuel the structured semantics spends on nesting alone -/
def wt : Stmt → Nat
  | .seq a b => 1 + wt a + wt b
  | .block b => 3 + wt b
  | .ite init _ thn els => 5 + wt init + wt thn + wt els
  | .for _ init _ post body => 7 + wt init + wt post + wt body
  | _ => 1

def TS (n : Nat) : Prop :=
  ∀ (s : Stmt) (st : St) (C : Code) (base : Nat) (ctx : Ctx),
    Core s = true → exec n s st = .timeout → CodeAt C base (compile s base ctx) →
    NoHalt C ⟨base, st⟩ (n - wt s)
def TB (n : Nat) : Prop :=
  ∀ (b : Stmt) (st : St) (C : Code) (base : Nat) (ctx : Ctx),
    Core b = true → execBlock n b st = .timeout → CodeAt C base (compile (.block b) base ctx) →
    NoHalt C ⟨base, st⟩ (n - (2 + wt b))
def TF (n : Nat) : Prop :=
  ∀ (b : Stmt) (st : St) (C : Code) (base : Nat) (ctx : Ctx),
    Core b = true → execFrom n b b st = .timeout → CodeAt C base (compile b base ctx) →
    NoHalt C ⟨base, st⟩ (n - (1 + wt b))
def TL (n : Nat) : Prop :=
  ∀ (ls : List Label) (c : Option Cond) (post body : Stmt) (st : St)
    (C : Code) (condAddr upc : Nat) (ctx : Ctx),
    SimpleS post = true → Core body = true → loopCondConstFalse c = false →
    execLoop n ls c post body st = .timeout →
    CodeAt C condAddr (loopCode upc ls c post body condAddr ctx) →
    NoHalt C ⟨condAddr, st⟩ (n - (5 + wt post + wt body))

theorem TF_succ {n : Nat} (hs : TS n) : TF (n + 1) := by
  intro b st C base ctx hcore he hcode
  simp only [execFrom] at he
  split at he
  · rw [Core.findLabel_none hcore] at he
    cases he
  · exact (hs b st C base ctx hcore he hcode).mono (by omega)

theorem TB_succ {n : Nat} (hf : TF n) : TB (n + 1) := by
  intro b st C base ctx hcore he hcode
  simp only [execBlock] at he
  split at he
  · cases he
  · rename_i hx
    rw [compile_block] at hcode
    have h1 := hcode.left.left
    have h2 := hcode.left.right
    simp only [pushIf_length] at h2
    exact ((hf b _ C _ _ hcore hx h2).prepend (reach_pushIf (st := st) h1)).mono (by omega)

theorem simple_no_timeout {s : Stmt} (h : SimpleS s = true) {n : Nat} {st : St} : exec (n + 1) s st ≠ .timeout := by
  cases s <;> simp_all [SimpleS, exec]

theorem TS_succ {n : Nat} (hs : TS n) (hb : TB n) (hl : TL n) : TS (n + 1) := by
  intro s st C base ctx hcore he hcode
  cases s with
  | skip => simp [exec] at he
  | emit t e => simp [exec] at he
  | assign x e => simp [exec] at he
  | define x e => simp [exec] at he
  | brk l => simp [exec] at he
  | cont l => simp [exec] at he
  | ret => simp [exec] at he
  | seq a b =>
    simp only [Core, Bool.and_eq_true] at hcore
    simp only [compile] at hcode
    have hca := hcode.left
    have hcb := hcode.right
    simp only [compile_length] at hcb
    simp only [exec] at he
    split at he
    · rename_i st1 hx
      have h1 := (sim_all n).1 a st .normal st1 C base _ hcore.1 hx hca
      exact ((hs b st1 C _ _ hcore.2 he hcb).prepend h1).mono (by simp [wt]; omega)
    · exact (hs a st C base _ hcore.1 he hca).mono (by simp [wt]; omega)
  | block b =>
    simp only [Core] at hcore
    simp only [exec] at he
    exact (hb b st C base ctx hcore he hcode).mono (by simp [wt]; omega)
  | ite init c thn els =>
    simp only [Core, Bool.and_eq_true] at hcore
    obtain ⟨⟨hi, ht⟩, hels⟩ := hcore
    rw [compile_ite] at hcode
    have h1 := hcode.left.left.left
    have h2 := hcode.left.left.right
    have h3 := hcode.left.right
    simp only [List.length_append, pushIf_length, compile_length] at h2 h3
    have hpush := reach_pushIf (st := st) h1
    simp only [exec] at he
    split at he
    · rename_i st2 hx
      have hinit := (sim_all n).1 init _ .normal st2 C _ _ (SimpleS.core hi) hx h2
      have hpre : Reaches C ⟨base, st⟩ ⟨base + b2n (hasDefs init) + size init, st2⟩ := hpush.trans hinit
      split at he
      · cases he
      · rename_i hy
        have h3' : CodeAt C (base + b2n (hasDefs init) + size init)
            (iteInner c thn els (base + b2n (hasDefs init) + size init) ({ upCost := b2n (hasDefs init) } :: ctx)) :=
          h3.cast (by omega)
        -- inside the if: the selected branch times out
        have hinner : NoHalt C ⟨base + b2n (hasDefs init) + size init, st2⟩ (n - (2 + wt thn + wt els)) := by
          generalize base + b2n (hasDefs init) + size init = condAddr at h3' ⊢
          generalize ({ upCost := b2n (hasDefs init) } :: ctx : Ctx) = ctx' at h3' ⊢
          by_cases hc : c.isConst = true
          · obtain ⟨b, rfl⟩ := Cond.isConst_eq hc
            cases b
            · simp [iteInner, Cond.isConst, Cond.isFalse, Cond.isTrue, Cond.eval] at h3' hy
              exact (hs els st2 C condAddr ctx' hels hy h3').mono (by omega)
            · simp [iteInner, Cond.isConst, Cond.isFalse, Cond.isTrue, Cond.eval] at h3' hy
              exact (hb thn st2 C condAddr ctx' ht hy h3').mono (by omega)
          · have hc' : c.isConst = false := by simpa using hc
            have hF : c.isFalse = false := by cases c <;> simp_all [Cond.isFalse, Cond.isConst]
            have hT : c.isTrue = false := by cases c <;> simp_all [Cond.isTrue, Cond.isConst]
            simp only [iteInner, hc', hF, hT, Bool.not_false, Bool.true_and, b2n_true,
              Bool.false_eq_true, if_false] at h3'
            have hcj := h3'.left.left.left
            have hthen := h3'.left.left.right
            have helse := h3'.right
            simp only [List.length_append, List.length_cons, List.length_nil, compile_length, size_block,
              ite_singleton_length] at hthen helse
            have hcj' := reach_cjmp (st := st2) (CodeAt.head hcj)
            by_cases hev : c.eval st2.stack = true
            · simp only [hev, if_true] at hy hcj'
              exact ((hb thn st2 C (condAddr + 1) ctx' ht hy (hthen.cast (by omega))).prepend hcj').mono (by omega)
            · have hev' : c.eval st2.stack = false := by simpa using hev
              simp only [hev', Bool.false_eq_true, if_false] at hy hcj'
              exact ((hs els st2 C _ ctx' hels hy (helse.cast (b := condAddr + 1 + sizeBlock thn + b2n (!els.isSkip)) (by omega))).prepend hcj').mono (by omega)
        exact (hinner.prepend hpre).mono (by simp [wt]; omega)
    · cases he
    · rename_i hx
      exact ((hs init _ C _ _ (SimpleS.core hi) hx h2).prepend hpush).mono (by simp [wt]; omega)
  | «for» ls init c post body =>
    simp only [Core, Bool.and_eq_true] at hcore
    obtain ⟨⟨hi, hp⟩, hbody⟩ := hcore
    simp only [exec] at he
    split at he
    · rename_i st2 hx
      split at he
      · cases he
      · rename_i hy
        cases hc : loopCondConstFalse c
        · rw [compile_for _ _ _ _ _ _ _ hc] at hcode
          have h1 := hcode.left.left.left
          have h2 := hcode.left.left.right
          have h3 := hcode.left.right
          simp only [List.length_append, pushIf_length, compile_length] at h2 h3
          have hinit := (sim_all n).1 init _ .normal st2 C _ _ (SimpleS.core hi) hx h2
          have hloop := hl ls c post body st2 C _ (b2n (hasDefs init)) ctx hp hbody hc hy (h3.cast (by omega))
          exact (hloop.prepend ((reach_pushIf (st := st) h1).trans hinit)).mono (by simp [wt]; omega)
        · -- `for false`: the loop part cannot time out unless the fuel is exhausted
          cases n with
          | zero =>
            have e : 0 + 1 - wt (Stmt.for ls init c post body) = 0 := by simp [wt]; omega
            rw [e]; exact NoHalt.zero _ _
          | succ m =>
            rcases c with _ | cc
            · simp [loopCondConstFalse] at hc
            · cases cc with
              | const b =>
                cases b
                · simp [execLoop, loopGo, Cond.eval] at hy
                · simp [loopCondConstFalse, Cond.isFalse] at hc
              | _ => simp [loopCondConstFalse, Cond.isFalse] at hc
    · cases he
    · rename_i hx
      -- init times out
      have hcode' : CodeAt C base (pushIf (hasDefs init) ++
          compile init (base + b2n (hasDefs init)) ({ upCost := b2n (hasDefs init) } :: ctx)) := by
        cases hc : loopCondConstFalse c
        · rw [compile_for _ _ _ _ _ _ _ hc] at hcode; exact hcode.left.left
        · rw [compile_for_false _ _ _ _ _ _ _ hc] at hcode; exact hcode.left
      have h1 := hcode'.left
      have h2 := hcode'.right
      simp only [pushIf_length] at h2
      exact ((hs init _ C _ _ (SimpleS.core hi) hx h2).prepend (reach_pushIf (st := st) h1)).mono (by simp [wt]; omega)
  | labeled l s => simp [Core] at hcore
  | goto l => simp [Core] at hcore
  | range ls str dfn key val keys vals body => simp [Core] at hcore
  | switch ls init tag cls => simp [Core] at hcore
  | clause g ft body rest => simp [Core] at hcore

theorem ReachesPos.trans_reaches {C : Code} {a b c : Cfg} (h1 : ReachesPos C a b) (h2 : Reaches C b c) : ReachesPos C a c := by
  obtain ⟨k1, hk, h1⟩ := h1
  obtain ⟨k2, h2⟩ := h2
  exact ⟨k1 + k2, by omega, by rw [steps_add, h1]; exact h2⟩

theorem TL_succ {n : Nat} (hs : TS n) (hb : TB n) (hl : TL n) : TL (n + 1) := by
  intro ls c post body st C condAddr upc ctx hpost hbody hc he hcode
  have hcode0 := hcode
  simp only [loopCode] at hcode
  have hcond := hcode.left.left.left
  have hblock := hcode.left.left.right
  have hpostc := hcode.left.right
  have hjmp := hcode.right
  have hclen : (loopCondCode c condAddr (loopBrk c post body condAddr)).length = b2n (loopCondInstr c) := by
    rcases c with _ | cc
    · rfl
    · cases hcc : cc.isConst <;> simp [loopCondCode, loopCondInstr, hcc]
  simp only [List.length_append, compile_length, size_block, hclen] at hblock hpostc hjmp
  have hblock' : CodeAt C (loopBodyAddr c condAddr)
      (compile (.block body) (loopBodyAddr c condAddr) (loopCtx upc ls c post body condAddr ctx)) := hblock
  have hpostc' : CodeAt C (loopPost0 c body condAddr)
      (compile post (loopPost0 c body condAddr) (loopCtx upc ls c post body condAddr ctx)) :=
    hpostc.cast (by simp [loopPost0, loopBodyAddr]; omega)
  have hjmp' : C[loopJmpAddr c post body condAddr]? = some (.jmp 0 condAddr) :=
    CodeAt.head (hjmp.cast (by simp [loopJmpAddr, loopPost0, loopBodyAddr]; omega))
  have hgo := loop_cond c condAddr (loopBrk c post body condAddr) st hc hcond
  simp only [execLoop] at he
  split at he
  · rename_i hgo1
    simp only [hgo1, if_true] at hgo
    split at he
    · rename_i ob st1 hx
      have hbody1 := (sim_all n).2.1 body st ob st1 C _ _ hbody hx hblock'
      split at he
      · rename_i hnext
        -- fuel 0 for the post statement: nothing to show
        cases n with
        | zero =>
          have e : 0 + 1 - (5 + wt post + wt body) = 0 := by omega
          rw [e]; exact NoHalt.zero _ _
        | succ m =>
          split at he
          · rename_i st2 hy
            -- one full iteration = at least one machine step, then the remaining iterations time out
            have hrest := hl ls c post body st2 C condAddr upc ctx hpost hbody hc he hcode0
            have hp := (sim_all (m + 1)).1 post st1 .normal st2 C _ _ (SimpleS.core hpost) hy hpostc'
            have hj := reachpos_jmp (st := st2) hjmp'
            simp only [St.dropn_zero] at hj
            have hiter : ReachesPos C ⟨condAddr, st⟩ ⟨condAddr, st2⟩ := by
              cases ob with
              | normal => exact (hgo.trans (Reaches.trans hbody1 hp)).trans_pos hj
              | cont l =>
                simp only [loopNext] at hnext
                simp only [Post, loopCtx, resolveCont, labelMatch_eq, hnext, if_true, Bool.false_eq_true,
                  if_false] at hbody1
                simp only [JumpTo, St.dropn_zero] at hbody1
                cases hsk : post.isSkip
                · simp only [loopPostAddr, hsk, Bool.false_eq_true, if_false] at hbody1
                  exact (hgo.trans (Reaches.trans hbody1.reaches hp)).trans_pos hj
                · have := Stmt.isSkip_eq hsk
                  subst this
                  simp only [loopPostAddr, Stmt.isSkip, if_true] at hbody1
                  simp only [exec, XRes.ok.injEq, true_and] at hy
                  subst hy
                  exact hgo.trans_pos hbody1
              | brk l => simp [loopNext] at hnext
              | ret => simp [loopNext] at hnext
              | goto l => simp [loopNext] at hnext
            exact (hrest.prependPos hiter).mono (by omega)
          · rename_i hne
            cases hr : exec (m + 1) post st1 with
            | timeout => exact absurd hr (simple_no_timeout hpost)
            | ok o2 st2 =>
              have := SimpleS.exec_normal hpost hr
              subst this
              exact (hne st2 hr).elim
      · cases he
    · rename_i hx
      exact ((hb body st C _ _ hbody hx hblock').prepend hgo).mono (by omega)
  · cases he

theorem div_all : ∀ n, TS n ∧ TB n ∧ TF n ∧ TL n := by
  intro n
  induction n with
  | zero =>
    refine ⟨?_, ?_, ?_, ?_⟩
    · intro s st C base ctx _ _ _; simpa using NoHalt.zero _ _
    · intro b st C base ctx _ _ _; simpa using NoHalt.zero _ _
    · intro b st C base ctx _ _ _; simpa using NoHalt.zero _ _
    · intro ls c post body st C condAddr upc ctx _ _ _ _ _; simpa using NoHalt.zero _ _
  | succ n ih =>
    obtain ⟨hs, hb, hf, hl⟩ := ih
    exact ⟨TS_succ hs hb hl, TB_succ hf, TF_succ hs, TL_succ hs hb hl⟩

end Flow
